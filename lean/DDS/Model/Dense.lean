/-
  DDS.Model.Dense — CONCRETE stratum: `DenseStore`, `CollapsingLowestDenseStore`,
  `CollapsingHighestDenseStore` of `ddsketch/store`, transcribed function by function.

  One record, three families of functions (Go embeds `DenseStore` by value and re-declares
  `normalize/extendRange/adjust/getNewLength/MergeWith/Copy/Clear`; everything else is the
  dense code operating on the same fields).

  Every place where Go would panic (index out of range, bad slice bounds, negative `make`)
  returns `none`, so "never panics" is a statement about the model, not an artefact of a
  totalised accessor.
-/
import DDS.Model.Bins
import DDS.Generated.Consts

namespace DDS

def maxInt32 : Int := 2147483647
def minInt32 : Int := -2147483648

inductive DKind where
  | plain
  | low (n : Nat)
  | high (n : Nat)
deriving DecidableEq, Repr, Inhabited

structure DStore where
  kind : DKind
  bins : Array Rat
  count : Rat
  offset : Int
  minIndex : Int
  maxIndex : Int
  isCollapsed : Bool
deriving Repr, Inhabited

namespace DStore

def new (k : DKind) : DStore :=
  { kind := k, bins := #[], count := 0, offset := 0, minIndex := maxInt32, maxIndex := minInt32,
    isCollapsed := false }

/-- total accessor used by specifications: 0 outside the array -/
def at0 (a : Array Rat) (i : Int) : Rat := if 0 ≤ i ∧ i < a.size then a.getD i.toNat 0 else 0

/-- checked read `a[i]` -/
def rd (a : Array Rat) (i : Int) : Option Rat :=
  if 0 ≤ i ∧ i < a.size then some (a.getD i.toNat 0) else none

/-- checked `a[i] += v` -/
def addAt (a : Array Rat) (i : Int) (v : Rat) : Option (Array Rat) :=
  if 0 ≤ i ∧ i < a.size then some (a.setIfInBounds i.toNat (a.getD i.toNat 0 + v)) else none

/-- checked `a[i] = v` -/
def setAt (a : Array Rat) (i : Int) (v : Rat) : Option (Array Rat) :=
  if 0 ≤ i ∧ i < a.size then some (a.setIfInBounds i.toNat v) else none

def len (s : DStore) : Int := s.bins.size

/-- the array of size `n` whose `j`-th entry is `f j` (bulk updates are defined pointwise) -/
def tabulate (n : Nat) (f : Int → Rat) : Array Rat := Array.ofFn (n := n) (fun j => f (j.val : Int))

/-- `DenseStore.getNewLength`, float arithmetic included:
    `int((float64(desired+overhead-1)/increment + 1) * increment)` -/
def denseNewLength (newMin newMax : Int) : Option Int :=
  let desired := newMax - newMin + 1
  let inc := F64.ofBits (UInt64.ofNat Consts.arrayLengthGrowthIncrementBits)
  let x := F64.ofInt (desired + (Consts.arrayLengthOverhead : Int) - 1)
  (F64.mul (F64.add (F64.div x inc) F64.one) inc).truncToInt

def getNewLength (s : DStore) (newMin newMax : Int) : Option Int := do
  let d ← denseNewLength newMin newMax
  match s.kind with
  | .plain => pure d
  | .low n => pure (min d (n : Int))
  | .high n => pure (min d (n : Int))

/-- `append(s.bins, make([]float64, k)...)`; `make` panics on a negative length -/
def grow (s : DStore) (k : Int) : Option DStore :=
  if k < 0 then none else some { s with bins := s.bins ++ Array.replicate k.toNat 0 }

/-- `resetBins(from, to)`: `for i := from-offset; i <= to-offset; i++ { bins[i] = 0 }` -/
def resetBins (s : DStore) (fromIndex toIndex : Int) : Option DStore :=
  let lo := fromIndex - s.offset
  let hi := toIndex - s.offset
  if hi < lo then some s
  else if 0 ≤ lo ∧ hi < s.len then
    let nb := tabulate s.bins.size (fun j => if lo ≤ j ∧ j ≤ hi then 0 else at0 s.bins j)
    some { s with bins := nb }
  else none

/-- `shiftCounts(shift)`: memmove of the window, reset of the vacated part, offset update -/
def shiftCounts (s : DStore) (shift : Int) : Option DStore :=
  let minArr := s.minIndex - s.offset
  let maxArr := s.maxIndex - s.offset
  let dst := minArr + shift
  -- slice bounds of `s.bins[minArr+shift:]` and `s.bins[minArr:maxArr+1]`
  if ¬ (0 ≤ dst ∧ dst ≤ s.len ∧ 0 ≤ minArr ∧ minArr ≤ maxArr + 1 ∧ maxArr + 1 ≤ s.len) then none
  else
    let n := min (s.len - dst) (maxArr + 1 - minArr)
    let nb := tabulate s.bins.size (fun j => if dst ≤ j ∧ j < dst + n then at0 s.bins (j - shift) else at0 s.bins j)
    let moved : DStore := { s with bins := nb }
    let r := if shift > 0 then resetBins moved s.minIndex (s.minIndex + shift - 1)
             else resetBins moved (s.maxIndex + shift + 1) s.maxIndex
    r.map fun t => { t with offset := t.offset - shift }

/-- `centerCounts` -/
def centerCounts (s : DStore) (newMin newMax : Int) : Option DStore := do
  let midIndex := newMin + Int.tdiv (newMax - newMin + 1) 2
  let t ← shiftCounts s (s.offset + Int.tdiv s.len 2 - midIndex)
  pure { t with minIndex := newMin, maxIndex := newMax }

/-- the integers `lo, lo+1, …, hi` (empty when `hi < lo`) -/
def idxRange (lo hi : Int) : List Int :=
  (List.range (hi - lo + 1).toNat).map (fun (k : Nat) => lo + (k : Int))

def sumRange (s : DStore) (fromIndex toIndex : Int) : Option Rat :=
  (idxRange fromIndex toIndex).foldlM (fun acc idx => (rd s.bins (idx - s.offset)).map (acc + ·)) 0

/-- collapsing part of `CollapsingLowestDenseStore.adjust` (before `maxIndex`/`isCollapsed` are set) -/
def collapseLow (s : DStore) (newMin : Int) : Option DStore :=
  if newMin ≥ s.maxIndex then do
    -- only one non-empty bucket
    let z : Array Rat := Array.replicate s.bins.size 0
    let b ← setAt z 0 s.count
    pure { s with bins := b, offset := newMin, minIndex := newMin }
  else
    let shift := s.offset - newMin
    if shift < 0 then do
      let n ← sumRange s s.minIndex (newMin - 1)
      let t ← resetBins s s.minIndex (newMin - 1)
      let b ← addAt t.bins (newMin - t.offset) n
      shiftCounts { t with bins := b, minIndex := newMin } shift
    else do
      let t ← shiftCounts s shift
      pure { t with minIndex := newMin }

/-- collapsing part of `CollapsingHighestDenseStore.adjust` -/
def collapseHigh (s : DStore) (newMin newMax : Int) : Option DStore :=
  if newMax ≤ s.minIndex then do
    let z : Array Rat := Array.replicate s.bins.size 0
    let b ← setAt z (s.len - 1) s.count
    pure { s with bins := b, offset := newMin, maxIndex := newMax }
  else
    let shift := s.offset - newMin
    if shift > 0 then do
      let n ← sumRange s (newMax + 1) s.maxIndex
      let t ← resetBins s (newMax + 1) s.maxIndex
      let b ← addAt t.bins (newMax - t.offset) n
      shiftCounts { t with bins := b, maxIndex := newMax } shift
    else do
      let t ← shiftCounts s shift
      pure { t with maxIndex := newMax }

/-- `adjust` of the three kinds -/
def adjust (s : DStore) (newMin newMax : Int) : Option DStore :=
  match s.kind with
  | .plain => centerCounts s newMin newMax
  | .low _ =>
    if newMax - newMin + 1 > s.len then do
      let t ← collapseLow s (newMax - s.len + 1)
      pure { t with maxIndex := newMax, isCollapsed := true }
    else centerCounts s newMin newMax
  | .high _ =>
    if newMax - newMin + 1 > s.len then do
      let t ← collapseHigh s newMin (newMin + s.len - 1)
      pure { t with minIndex := newMin, isCollapsed := true }
    else centerCounts s newMin newMax

/-- `extendRange` (identical text in the three Go files; `getNewLength` and `adjust` dispatch) -/
def extendRange (s : DStore) (newMin newMax : Int) : Option DStore := do
  let newMin := min newMin s.minIndex
  let newMax := max newMax s.maxIndex
  if s.count = 0 then
    let initialLength ← s.getNewLength newMin newMax
    let t ← s.grow initialLength
    -- collapsing kinds: a range wider than the (empty) store is clamped right away
    let wide := newMax - newMin + 1 > initialLength
    let (newMin, newMax, coll) :=
      match s.kind with
      | .plain => (newMin, newMax, t.isCollapsed)
      | .low _ => if wide then (newMax - initialLength + 1, newMax, true) else (newMin, newMax, t.isCollapsed)
      | .high _ => if wide then (newMin, newMin + initialLength - 1, true) else (newMin, newMax, t.isCollapsed)
    adjust { t with offset := newMin, minIndex := newMin, maxIndex := newMax, isCollapsed := coll } newMin newMax
  else if newMin ≥ s.offset ∧ newMax < s.offset + s.len then
    pure { s with minIndex := newMin, maxIndex := newMax }
  else
    let newLength ← s.getNewLength newMin newMax
    let t ← if newLength > s.len then s.grow (newLength - s.len) else pure s
    adjust t newMin newMax

/-- `normalize`: returns the store and the array index to update -/
def normalize (s : DStore) (index : Int) : Option (DStore × Int) :=
  match s.kind with
  | .plain =>
    if index < s.minIndex ∨ index > s.maxIndex then do
      let t ← extendRange s index index
      pure (t, index - t.offset)
    else pure (s, index - s.offset)
  | .low _ =>
    if index < s.minIndex then
      if s.isCollapsed then pure (s, 0)
      else do
        let t ← extendRange s index index
        if t.isCollapsed then pure (t, 0) else pure (t, index - t.offset)
    else if index > s.maxIndex then do
      let t ← extendRange s index index
      pure (t, index - t.offset)
    else pure (s, index - s.offset)
  | .high _ =>
    if index > s.maxIndex then
      if s.isCollapsed then pure (s, s.len - 1)
      else do
        let t ← extendRange s index index
        if t.isCollapsed then pure (t, t.len - 1) else pure (t, index - t.offset)
    else if index < s.minIndex then do
      let t ← extendRange s index index
      pure (t, index - t.offset)
    else pure (s, index - s.offset)

/-- `AddWithCount` -/
def addWithCount (s : DStore) (index : Int) (count : Rat) : Option DStore :=
  if count = 0 then some s
  else do
    let (t, ai) ← normalize s index
    let b ← addAt t.bins ai count
    pure { t with bins := b, count := t.count + count }

def isEmpty (s : DStore) : Bool := s.count == 0
def totalCount (s : DStore) : Rat := s.count
def minIndex? (s : DStore) : Option Int := if s.isEmpty then none else some s.minIndex
def maxIndex? (s : DStore) : Option Int := if s.isEmpty then none else some s.maxIndex

/-- `KeyAtRank`: scans the whole backing array -/
def keyAtRank (s : DStore) (rank : Rat) : Int :=
  let rank := if rank < 0 then 0 else rank
  let rec go (l : List Rat) (i : Int) (n : Rat) : Int :=
    match l with
    | [] => s.maxIndex
    | b :: rest => if n + b > rank then i + s.offset else go rest (i + 1) (n + b)
  go s.bins.toList 0 0

/-- `ForEach` / `Bins()`: the window, skipping non-positive counts. `none` = index out of range. -/
def binsList (s : DStore) : Option (List (Int × Rat)) :=
  (idxRange s.minIndex s.maxIndex).foldrM
    (fun idx acc => do
      let c ← rd s.bins (idx - s.offset)
      pure (if c > 0 then (idx, c) :: acc else acc)) []

/-- fallback merge: `other.ForEach(s.AddWithCount)` -/
def mergeBins (s : DStore) (l : List (Int × Rat)) : Option DStore :=
  l.foldlM (fun acc p => acc.addWithCount p.1 p.2) s

/-- same-kind fast path of `MergeWith` (the caller has checked the dynamic types agree) -/
def mergeSame (s o : DStore) : Option DStore :=
  if o.isEmpty then some s
  else do
    let s ← if o.minIndex < s.minIndex ∨ o.maxIndex > s.maxIndex then extendRange s o.minIndex o.maxIndex
            else pure s
    let idxs := idxRange o.minIndex o.maxIndex
    let b ← match s.kind with
      | .plain =>
        idxs.foldlM (fun b idx => do
          let c ← rd o.bins (idx - o.offset)
          addAt b (idx - s.offset) c) s.bins
      | .low _ =>
        idxs.foldlM (fun b idx => do
          let c ← rd o.bins (idx - o.offset)
          if idx < s.minIndex then addAt b 0 c else addAt b (idx - s.offset) c) s.bins
      | .high _ =>
        idxs.foldlM (fun b idx => do
          let c ← rd o.bins (idx - o.offset)
          if idx > s.maxIndex then addAt b (s.len - 1) c else addAt b (idx - s.offset) c) s.bins
    pure { s with bins := b, count := s.count + o.count }

def clear (s : DStore) : DStore :=
  { s with bins := #[], count := 0, minIndex := maxInt32, maxIndex := minInt32, isCollapsed := false }

/-- `Reweight` for `w > 0`, `w ≠ 1` (the guard is at the caller) -/
def reweight (s : DStore) (w : Rat) : Option DStore := do
  let idxs := idxRange s.minIndex s.maxIndex
  let b ← idxs.foldlM (fun b idx => do
    let c ← rd b (idx - s.offset)
    setAt b (idx - s.offset) (c * w)) s.bins
  pure { s with bins := b, count := s.count * w }

/-- abstraction: the content a caller can observe -/
def abs (s : DStore) : Content :=
  (s.bins.toList.zipIdx).foldl (fun acc p => acc.add ((p.2 : Int) + s.offset) p.1) []

end DStore
end DDS
