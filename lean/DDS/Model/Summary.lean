/-
  DDS.Model.Summary — `stat.SummaryStatistics` (Kahan-compensated count/sum/min/max), transcribed
  over the exact binary64 model `F64`: every `+ − ×` below is the IEEE operation Go executes, so
  the model is bit-identical to the implementation (up to the sign of zero).
-/
import DDS.Model.Num

namespace DDS

structure Summary where
  count : F64
  sum : F64
  sumCompensation : F64
  simpleSum : F64
  min : F64
  max : F64
deriving Repr, Inhabited, DecidableEq

namespace Summary
open F64

def new : Summary :=
  { count := .fin 0, sum := .fin 0, sumCompensation := .fin 0, simpleSum := .fin 0, min := .pinf, max := .ninf }

/-- `sumWithCompensation` -/
def sumWithCompensation (s : Summary) (value : F64) : Summary :=
  let tmp := F64.sub value s.sumCompensation
  let velvel := F64.add s.sum tmp
  { s with sumCompensation := F64.sub (F64.sub velvel s.sum) tmp, sum := velvel }

def addToCount (s : Summary) (a : F64) : Summary := { s with count := F64.add s.count a }

def addToSum (s : Summary) (a : F64) : Summary :=
  let s := s.sumWithCompensation a
  { s with simpleSum := F64.add s.simpleSum a }

/-- `Add(value, count)` -/
def add (s : Summary) (value count : F64) : Summary :=
  let s := s.addToCount count
  let s := s.addToSum (F64.mul value count)
  let s := if F64.lt value s.min then { s with min := value } else s
  if F64.lt s.max value then { s with max := value } else s

/-- `Sum()` -/
def getSum (s : Summary) : F64 :=
  let tmp := F64.add s.sum s.sumCompensation
  if tmp.isNaN && (s.simpleSum == .pinf || s.simpleSum == .ninf) then s.simpleSum else tmp

def mergeWith (s o : Summary) : Summary :=
  let s := { s with count := F64.add s.count o.count }
  let s := s.sumWithCompensation o.sum
  let s := s.sumWithCompensation o.sumCompensation
  let s := { s with simpleSum := F64.add s.simpleSum o.simpleSum }
  let s := if F64.lt o.min s.min then { s with min := o.min } else s
  if F64.lt s.max o.max then { s with max := o.max } else s

/-- `s.MergeWith(s)`: the argument IS the receiver, so `o.sumCompensation` is read after the first
    compensated addition has already updated it (and `o.sum`, `o.simpleSum`, `o.count` are the
    receiver's current fields); the extremes are unchanged -/
def mergeWithSelf (s : Summary) : Summary :=
  let s := { s with count := F64.add s.count s.count }
  let s := s.sumWithCompensation s.sum
  let s := s.sumWithCompensation s.sumCompensation
  { s with simpleSum := F64.add s.simpleSum s.simpleSum }

def reweight (s : Summary) (f : F64) : Summary :=
  let s := { s with count := F64.mul s.count f, sum := F64.mul s.sum f,
                    sumCompensation := F64.mul s.sumCompensation f, simpleSum := F64.mul s.simpleSum f }
  if F64.eq f (.fin 0) then { s with min := .pinf, max := .ninf } else s

def rescale (s : Summary) (f : F64) : Summary :=
  let s := { s with sum := F64.mul s.sum f, sumCompensation := F64.mul s.sumCompensation f,
                    simpleSum := F64.mul s.simpleSum f }
  if F64.lt (.fin 0) f then { s with min := F64.mul s.min f, max := F64.mul s.max f }
  else if F64.lt f (.fin 0) then { s with max := F64.mul s.min f, min := F64.mul s.max f }
  else if F64.ne s.count (.fin 0) then { s with min := .fin 0, max := .fin 0 }
  else s

def clear (_ : Summary) : Summary := new

/-- `NewSummaryStatisticsFromData(count, sum, min, max)`: `none` when the constructor returns an
    error (`!(count >= 0)`; `count > 0 && min > max`; `count == 0` without the ±Inf sentinels) -/
def fromData (count sum min max : F64) : Option Summary :=
  if !(F64.ge count (.fin 0)) then none
  else if F64.gt count (.fin 0) && F64.gt min max then none
  else if F64.eq count (.fin 0) && (min != .pinf || max != .ninf) then none
  else some { count := count, sum := sum, sumCompensation := .fin 0, simpleSum := sum,
              min := min, max := max }

end Summary
end DDS
