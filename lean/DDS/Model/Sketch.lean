/-
  DDS.Model.Sketch — `DDSketch` and `DDSketchWithExactSummaryStatistics` of `ddsketch/ddsketch.go`.

  The index mapping is an ORACLE at this level (DESIGN §3 O): `MapEnv` carries the identity of the
  mapping and the answers of the real mapping functions (supplied by the harness, which checks the
  mapping contract on them; the contract itself is what property C03 proves for the ideal formulas).
  Everything else — routing of values, the float arithmetic of ranks, the decision logic, the
  encoder and the decoder loop — is transcribed and evaluated with the exact binary64 model.
-/
import DDS.Model.Store
import DDS.Model.Wire
import DDS.Model.Summary
import DDS.Model.Mapping

namespace DDS

structure MapId where
  kind : MKind
  gamma : F64
  indexOffset : F64
deriving DecidableEq, Repr, Inhabited

namespace MapId

def fabs (x : F64) : F64 := if F64.lt x (.fin 0) then F64.neg x else x
def fmaxF (a b : F64) : F64 := if a.isNaN || b.isNaN then .nan else if F64.lt a b then b else a

/-- `withinTolerance(x, y, 1e-12)` -/
def withinTolerance (x y : F64) : Bool :=
  let tol := F64.ofBits 0x3d719799812dea11 -- 1e-12
  if F64.eq x (.fin 0) || F64.eq y (.fin 0) then F64.le (fabs x) tol && F64.le (fabs y) tol
  else F64.le (fabs (F64.sub x y)) (F64.mul tol (fmaxF (fabs x) (fabs y)))

/-- `Equals` -/
def equals (a b : MapId) : Bool :=
  a.kind == b.kind && withinTolerance a.gamma b.gamma && withinTolerance a.indexOffset b.indexOffset

def subFlag : MKind → Nat
  | .log => Consts.subFlagIndexMappingBaseLogarithmic
  | .linear => Consts.subFlagIndexMappingBaseLinear
  | .cubic => Consts.subFlagIndexMappingBaseCubic

def toBlock (m : MapId) : Block := .mapping (subFlag m.kind) m.gamma.toBits.toNat m.indexOffset.toBits.toNat

inductive MapErr where
  | unknownMapping
  | gammaTooSmall
deriving DecidableEq, Repr

/-- `mapping.Decode` after the payload has been read: constructors reject `gamma <= 1` -/
def ofBlock (sub g o : Nat) : Except MapErr MapId :=
  let k? : Option MKind :=
    if sub = Consts.subFlagIndexMappingBaseLogarithmic then some .log
    else if sub = Consts.subFlagIndexMappingBaseLinear then some .linear
    else if sub = Consts.subFlagIndexMappingBaseCubic then some .cubic
    else none
  match k? with
  | none => .error .unknownMapping
  | some k =>
    let gamma := F64.ofBits (UInt64.ofNat g)
    if F64.le gamma (.fin 1) then .error .gammaTooSmall
    else .ok { kind := k, gamma := gamma, indexOffset := F64.ofBits (UInt64.ofNat o) }

end MapId

/-- what a sketch needs from its index mapping: identity + oracle answers -/
structure MapEnv where
  id : MapId
  minIndexable : F64
  maxIndexable : F64
  relAcc : F64
  value : Int → F64
  lowerBound : Int → F64
  index : F64 → Int

inductive SkErr where
  | negativeCount | tooHigh | tooLow | nan | badQuantile | empty | mismatch | nonPositiveFactor
  | eof | unknownFlag | unknownMapping | badGamma | missingMapping | unknownBinEncoding | missingStats
deriving DecidableEq, Repr, Inhabited

def SkErr.name : SkErr → String
  | .negativeCount => "negcount" | .tooHigh => "toohigh" | .tooLow => "toolow" | .nan => "nan"
  | .badQuantile => "badq" | .empty => "empty" | .mismatch => "mismatch" | .nonPositiveFactor => "badfactor"
  | .eof => "eof" | .unknownFlag => "unknownflag" | .unknownMapping => "unknownmapping" | .badGamma => "badgamma"
  | .missingMapping => "nomapping" | .unknownBinEncoding => "unknownbins" | .missingStats => "nostats"

structure Sketch where
  mapping : Option MapId
  pos : Store
  neg : Store
  zero : F64
deriving Repr, Inhabited

/- results: `none` = panic / outside the model, `some (.error e)` = refused, `some (.ok x)` = done -/

namespace Sketch

def new (m : Option MapId) (k : StoreKind) : Sketch := { mapping := m, pos := Store.new k, neg := Store.new k, zero := .fin 0 }

def ratOf? : F64 → Option Rat
  | .fin q => some q
  | _ => none

/-- `AddWithCount(value, count)`; `idx` is the real mapping's `Index(|value|)` (used only when the
    value is routed to a store). A non-finite accepted count is outside the model (`none`). -/
def addWithCount (env : MapEnv) (s : Sketch) (v c : F64) (idx : Int) : Option (Except SkErr Sketch) :=
  if F64.lt c (.fin 0) then some (.error .negativeCount)
  else if F64.gt v env.minIndexable then
    if F64.gt v env.maxIndexable then some (.error .tooHigh)
    else do
      let w ← ratOf? c
      let p ← s.pos.addWithCount idx w
      pure (.ok { s with pos := p })
  else if F64.lt v (F64.neg env.minIndexable) then
    if F64.lt v (F64.neg env.maxIndexable) then some (.error .tooLow)
    else do
      let w ← ratOf? c
      let n ← s.neg.addWithCount idx w
      pure (.ok { s with neg := n })
  else if v.isNaN then some (.error .nan)
  else do
    let _ ← ratOf? c
    pure (.ok { s with zero := F64.add s.zero c })

def posTotal (s : Sketch) : F64 := .fin s.pos.totalCount
def negTotal (s : Sketch) : F64 := .fin s.neg.totalCount

/-- `GetCount()` -/
def getCount (s : Sketch) : F64 := F64.add (F64.add s.zero s.posTotal) s.negTotal

def isEmpty (s : Sketch) : Bool := F64.eq s.zero (.fin 0) && s.pos.isEmpty && s.neg.isEmpty

/-- `KeyAtRank` with a float rank (a NaN rank never satisfies `n > rank`: maximum index) -/
def storeKeyAtRank (st : Store) (rank : F64) : Int :=
  match rank with
  | .fin r => st.keyAtRank r
  | .ninf => st.keyAtRank 0
  | _ => (st.maxIndex?).getD 0

/-- `GetValueAtQuantile(q)` -/
def quantile (env : MapEnv) (s : Sketch) (q : F64) : Except SkErr F64 :=
  if !(F64.le (.fin 0) q && F64.le q (.fin 1)) then .error .badQuantile
  else
    let count := s.getCount
    if F64.eq count (.fin 0) then .error .empty
    else
      let rank0 := F64.mul q (F64.sub count F64.one)
      -- the total weight may be below one with fractional counts
      let rank := if F64.lt rank0 (.fin 0) then .fin 0 else rank0
      let negCount := s.negTotal
      if F64.lt rank negCount then
        .ok (F64.neg (env.value (storeKeyAtRank s.neg (F64.sub (F64.sub negCount F64.one) rank))))
      else if F64.lt rank (F64.add s.zero negCount) then .ok (.fin 0)
      else .ok (env.value (storeKeyAtRank s.pos (F64.sub (F64.sub rank s.zero) negCount)))

/-- `GetValuesAtQuantiles` -/
def quantiles (env : MapEnv) (s : Sketch) (qs : List F64) : Except SkErr (List F64) :=
  qs.mapM (quantile env s)

/-- `GetMaxValue()` -/
def getMax (env : MapEnv) (s : Sketch) : Except SkErr F64 :=
  if !s.pos.isEmpty then
    match s.pos.maxIndex? with
    | some k => .ok (env.value k)
    | none => .ok (env.value 0)
  else if F64.gt s.zero (.fin 0) then .ok (.fin 0)
  else match s.neg.minIndex? with
    | some k => .ok (F64.neg (env.value k))
    | none => .error .empty

/-- `GetMinValue()` -/
def getMin (env : MapEnv) (s : Sketch) : Except SkErr F64 :=
  if !s.neg.isEmpty then
    match s.neg.maxIndex? with
    | some k => .ok (F64.neg (env.value k))
    | none => .ok (F64.neg (env.value 0))
  else if F64.gt s.zero (.fin 0) then .ok (.fin 0)
  else match s.pos.minIndex? with
    | some k => .ok (env.value k)
    | none => .error .empty

/-- what `ForEach` enumerates: the zero bucket (if non-zero), the positive bins, the negative bins -/
def forEachList (env : MapEnv) (s : Sketch) : Option (List (F64 × Rat)) := do
  let p ← s.pos.binsList
  let n ← s.neg.binsList
  let z : List (F64 × Rat) := match s.zero with
    | .fin q => if q = 0 then [] else [(.fin 0, q)]
    | _ => []
  pure (z ++ p.map (fun b => (env.value b.1, b.2)) ++ n.map (fun b => (F64.neg (env.value b.1), b.2)))

/-- `GetSum()`: `sum += value * count` over `ForEach`, in float arithmetic -/
def getSum (env : MapEnv) (s : Sketch) : Option F64 := do
  let l ← s.forEachList env
  pure (l.foldl (fun acc p => F64.add acc (F64.mul p.1 (.fin p.2))) (.fin 0))

def mappingEquals (a b : Option MapId) : Bool :=
  match a, b with
  | some x, some y => x.equals y
  | _, _ => false

/-- `MergeWith` -/
def mergeWith (s o : Sketch) : Option (Except SkErr Sketch) :=
  if !mappingEquals s.mapping o.mapping then some (.error .mismatch)
  else do
    let p ← s.pos.mergeWith o.pos
    let n ← s.neg.mergeWith o.neg
    pure (.ok { s with pos := p, neg := n, zero := F64.add s.zero o.zero })

def clear (s : Sketch) : Sketch := { s with pos := s.pos.clear, neg := s.neg.clear, zero := .fin 0 }

/-- `Reweight(w)` -/
def reweight (s : Sketch) (w : F64) : Option (Except SkErr Sketch) :=
  if F64.le w (.fin 0) then some (.error .nonPositiveFactor)
  else if F64.eq w F64.one then some (.ok s)
  else do
    let wr ← ratOf? w
    let p ← s.pos.reweight wr
    let n ← s.neg.reweight wr
    match p, n with
    | .ok p, .ok n => pure (.ok { s with pos := p, neg := n, zero := F64.mul s.zero w })
    | _, _ => pure (.error .nonPositiveFactor)

/-! ### binary encoding -/

def vfBits (w : Rat) : Nat := (F64.toBits (F64.add (.fin w) F64.one)).toNat
def vfBitsF (w : F64) : Nat := (F64.toBits (F64.add w F64.one)).toNat

/-- `DenseStore.Encode`: dense or sparse layout, whichever is not longer -/
def encodeDense (s : DStore) (side : Side) : Option (List Block) :=
  if s.isEmpty then some []
  else do
    let idxs := DStore.idxRange s.minIndex s.maxIndex
    let counts ← idxs.mapM (fun i => DStore.rd s.bins (i - s.offset))
    let numBins : Nat := ((s.maxIndex - s.minIndex).toNat + 1) % W64
    let denseSize := Codec.uvarint64Size numBins + Codec.varint64Size s.minIndex + Codec.varint64Size 1
      + (counts.map (fun c => Codec.varfloat64SizeBits (vfBits c))).sum
    let nz := (idxs.zip counts).filter (fun p => p.2 ≠ 0)
    let sparseItems := (nz.foldl (fun (acc : Int × List (Int × Nat)) p => (p.1, (p.1 - acc.1, vfBits p.2) :: acc.2)) (s.minIndex, [])).2.reverse
    -- sizes are computed with deltas from minIndex for the first bin…
    let sparseSize := (sparseItems.map (fun p => Codec.varint64Size p.1 + Codec.varfloat64SizeBits p.2)).sum
      + Codec.uvarint64Size nz.length
    if denseSize ≤ sparseSize then
      pure [.bins side (.contiguous s.minIndex 1 (counts.map vfBits))]
    else
      -- …but the sparse encoder starts its deltas from 0
      let items := (nz.foldl (fun (acc : Int × List (Int × Nat)) p => (p.1, (p.1 - acc.1, vfBits p.2) :: acc.2)) (0, [])).2.reverse
      pure [.bins side (.deltasCounts items)]

def deltasFrom0 (l : List Int) : List Int :=
  (l.foldl (fun (acc : Int × List Int) i => (i, (i - acc.1) :: acc.2)) (0, [])).2.reverse

/-- `Store.Encode`; the paginated store compacts first (returned as the new store) -/
def encodeStore (st : Store) (side : Side) : Option (Store × List Block) :=
  match st with
  | .d s => (encodeDense s side).map (fun b => (st, b))
  | .sp c =>
    if c.isEmpty then some (st, [])
    else
      let items := (c.foldl (fun (acc : Int × List (Int × Nat)) p => (p.1, (p.1 - acc.1, vfBits p.2) :: acc.2)) (0, [])).2.reverse
      some (st, [.bins side (.deltasCounts items)])
  | .pg s => do
    let s ← s.compact
    let bufBlock : List Block := if s.buffer.isEmpty then [] else [.bins side (.deltas (deltasFrom0 s.buffer))]
    let pageBlocks : List Block := (s.pages.toList.zipIdx).filterMap (fun (pg, off) =>
      if pg.size = 0 then none
      else some (.bins side (.contiguous (s.index (s.minPageIndex + (off : Int)) 0) 1 (pg.toList.map vfBits))))
    pure (.pg s, bufBlock ++ pageBlocks)

/-- `Encode(b, omitIndexMapping)` as blocks (bytes are `Wire.encBlocks`) -/
def encode (s : Sketch) (omitMapping : Bool) : Option (Sketch × List Block) := do
  let z : List Block := if F64.ne s.zero (.fin 0) then [.zeroCount (vfBitsF s.zero)] else []
  let m : List Block := if omitMapping then [] else match s.mapping with
    | some id => [id.toBlock]
    | none => []
  let (p, pb) ← encodeStore s.pos .pos
  let (n, nb) ← encodeStore s.neg .neg
  pure ({ s with pos := p, neg := n }, z ++ m ++ pb ++ nb)

def liftDec {α} : Except DecErr α → Except SkErr α
  | .ok a => .ok a
  | .error _ => .error .eof

/-- read and merge `n` items -/
def decItems (item : Store → Int → Bytes → Option (Except SkErr (Store × Int × Bytes))) : Nat → Store → Int → Bytes → Option (Except SkErr (Store × Bytes))
  | 0, st, _, bs => some (.ok (st, bs))
  | n + 1, st, idx, bs =>
    match item st idx bs with
    | none => none
    | some (.error e) => some (.error e)
    | some (.ok (st', idx', bs')) => decItems item n st' idx' bs'

def addF (st : Store) (i : Int) (c : F64) : Option Store :=
  match c with
  | .fin w => st.addWithCount i w
  | _ => none

/-- `store.DecodeAndMergeWith` (generic; the paginated fast paths have the same effect on content) -/
def decodeStore (st : Store) (sub : Nat) (bs : Bytes) : Option (Except SkErr (Store × Bytes)) :=
  if sub = Consts.binEncodingIndexDeltasAndCounts then
    match liftDec (Codec.decUvarint64 bs) with
    | .error e => some (.error e)
    | .ok (n, bs) =>
      decItems (fun st idx bs =>
        match liftDec (Codec.decVarint64 bs) with
        | .error e => some (.error e)
        | .ok (d, bs) =>
          match liftDec (Codec.decVarfloat64 bs) with
          | .error e => some (.error e)
          | .ok (c, bs) => (addF st (idx + d) c).map (fun st' => .ok (st', idx + d, bs))) n st 0 bs
  else if sub = Consts.binEncodingIndexDeltas then
    match liftDec (Codec.decUvarint64 bs) with
    | .error e => some (.error e)
    | .ok (n, bs) =>
      decItems (fun st idx bs =>
        match liftDec (Codec.decVarint64 bs) with
        | .error e => some (.error e)
        | .ok (d, bs) => (st.addWithCount (idx + d) 1).map (fun st' => .ok (st', idx + d, bs))) n st 0 bs
  else if sub = Consts.binEncodingContiguousCounts then
    match liftDec (Codec.decUvarint64 bs) with
    | .error e => some (.error e)
    | .ok (n, bs) =>
      match liftDec (Codec.decVarint64 bs) with
      | .error e => some (.error e)
      | .ok (start, bs) =>
        match liftDec (Codec.decVarint64 bs) with
        | .error e => some (.error e)
        | .ok (stride, bs) =>
          decItems (fun st idx bs =>
            match liftDec (Codec.decVarfloat64 bs) with
            | .error e => some (.error e)
            | .ok (c, bs) => (addF st idx c).map (fun st' => .ok (st', idx + stride, bs))) n st start bs
  else some (.error .unknownBinEncoding)

/-- extra state threaded through the decoder loop by the exact-summary variant -/
structure DecAux where
  stats : Option Summary

/-- the `fallbackDecode` of the two variants: the plain one skips the statistics blocks -/
def fallback (aux : DecAux) (f : Nat) (bs : Bytes) : Except SkErr (DecAux × Bytes) :=
  let t := Wire.flagType f
  let sub := Wire.flagSub f
  if t ≠ Consts.flagTypeSketchFeatures then .error .unknownFlag
  else if sub = Consts.subFlagCount then
    match liftDec (Codec.decVarfloat64 bs) with
    | .error e => .error e
    | .ok (c, bs) => .ok ({ aux with stats := aux.stats.map (fun st => st.addToCount c) }, bs)
  else if sub = Consts.subFlagSum then
    match liftDec (Codec.decF64LE bs) with
    | .error e => .error e
    | .ok (b, bs) => .ok ({ aux with stats := aux.stats.map (fun st => st.addToSum (F64.ofBits (UInt64.ofNat b))) }, bs)
  else if sub = Consts.subFlagMin ∨ sub = Consts.subFlagMax then
    match liftDec (Codec.decF64LE bs) with
    | .error e => .error e
    | .ok (b, bs) => .ok ({ aux with stats := aux.stats.map (fun st => st.add (F64.ofBits (UInt64.ofNat b)) (.fin 0)) }, bs)
  else .error .unknownFlag

/-- `decodeAndMergeWith` loop (`fuel` ≥ number of bytes: every iteration consumes the flag byte) -/
def decodeLoop : Nat → Sketch → DecAux → Bytes → Option (Except SkErr (Sketch × DecAux))
  | _, s, aux, [] => some (.ok (s, aux))
  | 0, _, _, _ => none
  | fuel + 1, s, aux, f :: bs =>
    let t := Wire.flagType f
    let sub := Wire.flagSub f
    if t = Consts.flagTypePositiveStore then
      match decodeStore s.pos sub bs with
      | none => none
      | some (.error e) => some (.error e)
      | some (.ok (p, bs)) => decodeLoop fuel { s with pos := p } aux bs
    else if t = Consts.flagTypeNegativeStore then
      match decodeStore s.neg sub bs with
      | none => none
      | some (.error e) => some (.error e)
      | some (.ok (n, bs)) => decodeLoop fuel { s with neg := n } aux bs
    else if t = Consts.flagTypeIndexMapping then
      match liftDec (Codec.decF64LE bs) with
      | .error e => some (.error (if sub = Consts.subFlagIndexMappingBaseLogarithmic ∨ sub = Consts.subFlagIndexMappingBaseLinear ∨ sub = Consts.subFlagIndexMappingBaseCubic then e else .unknownMapping))
      | .ok (g, bs1) =>
        if ¬ (sub = Consts.subFlagIndexMappingBaseLogarithmic ∨ sub = Consts.subFlagIndexMappingBaseLinear ∨ sub = Consts.subFlagIndexMappingBaseCubic) then some (.error .unknownMapping)
        else match liftDec (Codec.decF64LE bs1) with
        | .error e => some (.error e)
        | .ok (o, bs2) =>
          match MapId.ofBlock sub g o with
          | .error .unknownMapping => some (.error .unknownMapping)
          | .error .gammaTooSmall => some (.error .badGamma)
          | .ok id =>
            match s.mapping with
            | some cur => if cur.equals id then decodeLoop fuel { s with mapping := some id } aux bs2 else some (.error .mismatch)
            | none => decodeLoop fuel { s with mapping := some id } aux bs2
    else if f = Wire.mkFlag Consts.flagTypeSketchFeatures Consts.subFlagZeroCountVarFloat then
      match liftDec (Codec.decVarfloat64 bs) with
      | .error e => some (.error e)
      | .ok (z, bs) => decodeLoop fuel { s with zero := F64.add s.zero z } aux bs
    else
      match fallback aux f bs with
      | .error e => some (.error e)
      | .ok (aux, bs) => decodeLoop fuel s aux bs

/-- `DecodeAndMergeWith` of the plain sketch -/
def decodeAndMergeWith (s : Sketch) (bs : Bytes) : Option (Except SkErr Sketch) :=
  match decodeLoop (bs.length + 1) s { stats := none } bs with
  | none => none
  | some (.error e) => some (.error e)
  | some (.ok (s, _)) => if s.mapping.isNone then some (.error .missingMapping) else some (.ok s)

end Sketch

/-! ### the variant with exact summary statistics -/

structure XSketch where
  sk : Sketch
  st : Summary
deriving Repr, Inhabited

namespace XSketch

def new (m : Option MapId) (k : StoreKind) : XSketch := { sk := Sketch.new m k, st := Summary.new }

/-- `AddWithCount`: validated first, weight zero is then a no-op -/
def addWithCount (env : MapEnv) (x : XSketch) (v c : F64) (idx : Int) : Option (Except SkErr XSketch) :=
  match x.sk.addWithCount env v c idx with
  | none => none
  | some (.error e) => some (.error e)
  | some (.ok sk) =>
    if F64.eq c (.fin 0) then some (.ok x)
    else some (.ok { sk := sk, st := x.st.add v c })

def isEmpty (x : XSketch) : Bool := F64.eq x.st.count (.fin 0)
def getCount (x : XSketch) : F64 := x.st.count
def getSum (x : XSketch) : F64 := x.st.getSum
def getMin (x : XSketch) : Except SkErr F64 := if x.sk.isEmpty then .error .empty else .ok x.st.min
def getMax (x : XSketch) : Except SkErr F64 := if x.sk.isEmpty then .error .empty else .ok x.st.max

def clampTo (x : XSketch) (v : F64) : F64 :=
  if F64.lt v x.st.min then x.st.min else if F64.gt v x.st.max then x.st.max else v

def quantile (env : MapEnv) (x : XSketch) (q : F64) : Except SkErr F64 :=
  (x.sk.quantile env q).map x.clampTo

def mergeWith (x o : XSketch) : Option (Except SkErr XSketch) :=
  match x.sk.mergeWith o.sk with
  | none => none
  | some (.error e) => some (.error e)
  | some (.ok sk) => some (.ok { sk := sk, st := x.st.mergeWith o.st })

/-- `x.MergeWith(x)` (the argument is the receiver): the stores and the zero count double; the
    statistics follow `Summary.mergeWithSelf` -/
def mergeWithSelf (x : XSketch) : Option (Except SkErr XSketch) :=
  match x.sk.mergeWith x.sk with
  | none => none
  | some (.error e) => some (.error e)
  | some (.ok sk) => some (.ok { sk := sk, st := x.st.mergeWithSelf })

def clear (x : XSketch) : XSketch := { sk := x.sk.clear, st := Summary.new }

def reweight (x : XSketch) (w : F64) : Option (Except SkErr XSketch) :=
  match x.sk.reweight w with
  | none => none
  | some (.error e) => some (.error e)
  | some (.ok sk) => some (.ok { sk := sk, st := x.st.reweight w })

/-- `Encode` -/
def encode (x : XSketch) (omitMapping : Bool) : Option (XSketch × List Block) := do
  let c : List Block := if F64.ne x.st.count (.fin 0) then [.count (Sketch.vfBitsF x.st.count)] else []
  let s : List Block := if F64.ne x.st.getSum (.fin 0) then [.sum x.st.getSum.toBits.toNat] else []
  let mn : List Block := if F64.ne x.st.min .pinf then [.min x.st.min.toBits.toNat] else []
  let mx : List Block := if F64.ne x.st.max .ninf then [.max x.st.max.toBits.toNat] else []
  let (sk, bl) ← x.sk.encode omitMapping
  pure ({ x with sk := sk }, c ++ s ++ mn ++ mx ++ bl)

/-- `DecodeAndMergeWith` -/
def decodeAndMergeWith (x : XSketch) (bs : Bytes) : Option (Except SkErr XSketch) :=
  match Sketch.decodeLoop (bs.length + 1) x.sk { stats := some x.st } bs with
  | none => none
  | some (.error e) => some (.error e)
  | some (.ok (sk, aux)) =>
    if sk.mapping.isNone then some (.error .missingMapping)
    else
      let st := aux.stats.getD x.st
      if F64.eq st.count (.fin 0) && !sk.isEmpty then some (.error .missingStats)
      else some (.ok { sk := sk, st := st })

end XSketch
end DDS
