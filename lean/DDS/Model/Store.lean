/-
  DDS.Model.Store — the five store kinds behind one interface, as `store.Store` in Go.
  The sparse store is a Go `map[int]float64`; a finite map in canonical form is exactly a
  `Content`, so its concrete model is the spec data structure with Go's operations.
-/
import DDS.Model.Paginated

namespace DDS

inductive Store where
  | d (s : DStore)
  | sp (c : Content)
  | pg (s : PStore)
deriving Repr, Inhabited

inductive StoreKind where
  | dense | sparse | pag | low (n : Nat) | high (n : Nat)
deriving DecidableEq, Repr, Inhabited

namespace Store

def new : StoreKind → Store
  | .dense => .d (DStore.new .plain)
  | .low n => .d (DStore.new (.low n))
  | .high n => .d (DStore.new (.high n))
  | .sparse => .sp []
  | .pag => .pg PStore.new

def kind : Store → StoreKind
  | .d s => match s.kind with
    | .plain => .dense
    | .low n => .low n
    | .high n => .high n
  | .sp _ => .sparse
  | .pg _ => .pag

def clamp (s : Store) : Clamp :=
  match s.kind with
  | .low n => .low n
  | .high n => .high n
  | _ => .none

/-- `AddWithCount` (`none` = panic) -/
def addWithCount (s : Store) (i : Int) (w : Rat) : Option Store :=
  match s with
  | .d s => (s.addWithCount i w).map .d
  | .sp c => some (.sp (c.add i w))
  | .pg s => (s.addWithCount i w).map .pg

def isEmpty : Store → Bool
  | .d s => s.isEmpty
  | .sp c => c.isEmpty
  | .pg s => s.isEmpty

def totalCount : Store → Rat
  | .d s => s.totalCount
  | .sp c => c.total
  | .pg s => s.totalCount

def minIndex? : Store → Option Int
  | .d s => s.minIndex?
  | .sp c => c.minIndex?
  | .pg s => s.minIndex?

def maxIndex? : Store → Option Int
  | .d s => s.maxIndex?
  | .sp c => c.maxIndex?
  | .pg s => s.maxIndex?

def keyAtRank : Store → Rat → Int
  | .d s, r => s.keyAtRank r
  | .sp c, r =>
    -- the sparse store does not clamp negative ranks explicitly
    match c.firstExceeding 0 r with
    | some k => k
    | none => (c.maxIndex?).getD 0
  | .pg s, r => s.keyAtRank r

/-- what `ForEach` / `Bins()` enumerate, in increasing index order (`none` = panic) -/
def binsList : Store → Option (List (Int × Rat))
  | .d s => s.binsList
  | .sp c => some c
  | .pg s => some s.binsList

/-- `MergeWith` with Go's dynamic dispatch on the argument's type -/
def mergeWith (s o : Store) : Option Store :=
  match s, o with
  | .d a, .d b =>
    if b.isEmpty then some s
    else
      let same := match a.kind, b.kind with
        | .plain, .plain => true
        | .low _, .low _ => true
        | .high _, .high _ => true
        | _, _ => false
      if same then (a.mergeSame b).map .d
      else do
        let l ← b.binsList
        (a.mergeBins l).map .d
  | .d a, o =>
    if o.isEmpty then some s
    else do
      let l ← o.binsList
      (a.mergeBins l).map .d
  | .sp c, o => do
    let l ← o.binsList
    pure (.sp (c.merge l))
  | .pg a, .pg b =>
    if a.pageLenLog2 = b.pageLenLog2 then (a.mergeSame b).map .pg
    else (a.mergeBins b.binsList).map .pg
  | .pg a, o => do
    let l ← o.binsList
    (a.mergeBins l).map .pg

def clear : Store → Store
  | .d s => .d s.clear
  | .sp _ => .sp []
  | .pg s => .pg s.clear

inductive RwErr where | nonPositive
deriving DecidableEq, Repr

/-- `Reweight` -/
def reweight (s : Store) (w : Rat) : Option (Except RwErr Store) :=
  if w ≤ 0 then some (.error .nonPositive)
  else if w = 1 then some (.ok s)
  else match s with
    | .d s => (s.reweight w).map (fun t => .ok (.d t))
    | .sp c => some (.ok (.sp (c.scale w)))
    | .pg s => (s.reweight w).map (fun t => .ok (.pg t))

/-- abstraction of any store -/
def abs : Store → Content
  | .d s => s.abs
  | .sp c => c
  | .pg s => s.abs

end Store
end DDS
