/-
  DDS.Model.Bins — SPEC stratum: the mathematical map  index ↦ accumulated weight.

  A `Content` is an association list with strictly increasing keys and non-zero weights
  (`Content.WF`).  Every store kind of the library is specified as: "behaves like this".
-/
import DDS.Model.Num

namespace DDS

abbrev Content := List (Int × Rat)

namespace Content

/-- weight at an index (0 when absent) -/
def lookup : Content → Int → Rat
  | [], _ => 0
  | (k, w) :: rest, i => if k = i then w + lookup rest i else lookup rest i

/-- sorted insertion; equal keys accumulate; an entry whose weight becomes 0 disappears -/
def add : Content → Int → Rat → Content
  | [], i, w => if w = 0 then [] else [(i, w)]
  | (k, c) :: rest, i, w =>
    if w = 0 then (k, c) :: rest
    else if i < k then (i, w) :: (k, c) :: rest
    else if i = k then (if c + w = 0 then rest else (k, c + w) :: rest)
    else (k, c) :: add rest i w

def total : Content → Rat
  | [] => 0
  | (_, w) :: rest => w + total rest

def isEmpty (m : Content) : Bool := List.isEmpty m

def minIndex? : Content → Option Int
  | [] => none
  | (k, _) :: _ => some k

def maxIndex? : Content → Option Int
  | [] => none
  | [(k, _)] => some k
  | _ :: rest => maxIndex? rest

/-- first key whose cumulative weight (starting from `acc`) exceeds `r`; `none` if there is none -/
def firstExceeding : Content → Rat → Rat → Option Int
  | [], _, _ => none
  | (k, w) :: rest, acc, r => if r < acc + w then some k else firstExceeding rest (acc + w) r

/-- `KeyAtRank`: negative ranks are clamped to 0; past the end gives the maximum index;
    on an empty content the result is unspecified (0 here). -/
def keyAtRank (m : Content) (r : Rat) : Int :=
  match firstExceeding m 0 (if r < 0 then 0 else r) with
  | some k => k
  | none => (maxIndex? m).getD 0

/-- pointwise sum -/
def merge (a b : Content) : Content := b.foldl (fun acc p => acc.add p.1 p.2) a

/-- pointwise product by a scalar (`w ≠ 0`) -/
def scale (m : Content) (w : Rat) : Content := m.map (fun p => (p.1, p.2 * w))

/-- every entry moved to the index `f` assigns to it (weights landing on one index add up) -/
def relabel (f : Int → Int) (m : Content) : Content :=
  m.foldl (fun acc p => acc.add (f p.1) p.2) []

/-- every index below `e` moved onto `e` -/
def foldLow (m : Content) (e : Int) : Content := relabel (fun i => if i < e then e else i) m

/-- every index above `e` moved onto `e` -/
def foldHigh (m : Content) (e : Int) : Content := relabel (fun i => if e < i then e else i) m

/-- content of a lowest-collapsing store with limit `N` that absorbed `m` -/
def specLow (N : Nat) (m : Content) : Content :=
  match maxIndex? m with
  | none => []
  | some mx => foldLow m (mx - (N : Int) + 1)

/-- content of a highest-collapsing store with limit `N` that absorbed `m` -/
def specHigh (N : Nat) (m : Content) : Content :=
  match minIndex? m with
  | none => []
  | some mn => foldHigh m (mn + (N : Int) - 1)

/-- strictly increasing keys -/
def Sorted : Content → Prop
  | [] => True
  | [_] => True
  | (k₁, _) :: (k₂, w₂) :: rest => k₁ < k₂ ∧ Sorted ((k₂, w₂) :: rest)

/-- canonical form: strictly increasing keys and strictly positive weights -/
def WF (m : Content) : Prop := Sorted m ∧ ∀ p ∈ m, 0 < p.2

def ofList (l : List (Int × Rat)) : Content := l.foldl (fun acc p => acc.add p.1 p.2) []

end Content

/-- How a bounded store clamps. -/
inductive Clamp where
  | none
  | low (n : Nat)
  | high (n : Nat)
deriving DecidableEq, Repr, Inhabited

def Clamp.apply : Clamp → Content → Content
  | .none, m => m
  | .low n, m => Content.specLow n m
  | .high n, m => Content.specHigh n m

/-- SPEC store: content + clamping rule, with the step relations of the library. -/
structure SpecStore where
  clamp : Clamp
  c : Content
deriving Repr, Inhabited

namespace SpecStore

def new (cl : Clamp) : SpecStore := ⟨cl, []⟩
def add (s : SpecStore) (i : Int) (w : Rat) : SpecStore := { s with c := s.clamp.apply (s.c.add i w) }
def mergeContent (s : SpecStore) (o : Content) : SpecStore := { s with c := s.clamp.apply (s.c.merge o) }
def clear (s : SpecStore) : SpecStore := { s with c := [] }
def reweight (s : SpecStore) (w : Rat) : SpecStore := { s with c := s.c.scale w }

end SpecStore

end DDS
