/-
  DDS.Model.Ctor — the parameter checks of the constructors (property C13):
  `New…Mapping(relativeAccuracy)`:  `relativeAccuracy <= 0 || relativeAccuracy >= 1` → error
  `New…MappingWithGamma(gamma, _)`: `gamma <= 1` → error
  `store.NewBin(index, count)`:     `count < 0` → error
  (IEEE comparisons: all false on NaN, so a NaN parameter is NOT refused — outside the documented
  contract, see the property's quantifier.)
-/
import DDS.Model.Num

namespace DDS.Ctor

def alphaRefused (a : F64) : Bool := F64.le a (.fin 0) || F64.ge a (.fin 1)
def gammaRefused (g : F64) : Bool := F64.le g (.fin 1)
def binRefused (c : F64) : Bool := F64.lt c (.fin 0)

end DDS.Ctor
