/-
  DDS.Model.Wire — the binary sketch format of `ddsketch/encoding/flag.go`, as documented:
  a sequence of blocks, each a flag byte (2-bit type | 6-bit sub-flag) followed by a payload.

  `Block` is the grammar, `encBlock` the encoder, `parseBlocks` the *independent decoder written
  from the documentation*, `interp` the content the documentation assigns to a block list.
  Varfloat payloads are carried as the 64-bit pattern of `count + 1` (what travels on the wire);
  `vfValue` turns it into the float `bits − 1`.
-/
import DDS.Model.Codec
import DDS.Model.Bins

namespace DDS

inductive Side where
  | pos | neg
deriving DecidableEq, Repr, Inhabited

inductive BinsPayload where
  /-- N bins: (index delta, count) pairs -/
  | deltasCounts (items : List (Int × Nat))
  /-- N bins of count 1: index deltas -/
  | deltas (items : List Int)
  /-- N contiguous bins: first index, stride, counts -/
  | contiguous (start stride : Int) (counts : List Nat)
deriving DecidableEq, Repr, Inhabited

inductive Block where
  | zeroCount (b : Nat)
  | count (b : Nat)
  | sum (b : Nat)
  | min (b : Nat)
  | max (b : Nat)
  /-- index mapping: sub-flag (0 log, 1 linear, 2 quadratic, 3 cubic, 4 quartic), gamma bits, offset bits -/
  | mapping (sub : Nat) (gammaBits offsetBits : Nat)
  | bins (side : Side) (p : BinsPayload)
deriving DecidableEq, Repr, Inhabited

namespace Wire
open Codec

def mkFlag (type sub : Nat) : Nat := type + sub * 2 ^ Consts.numBitsForType
def flagType (f : Nat) : Nat := f % 2 ^ Consts.numBitsForType
def flagSub (f : Nat) : Nat := f / 2 ^ Consts.numBitsForType

def sideType : Side → Nat
  | .pos => Consts.flagTypePositiveStore
  | .neg => Consts.flagTypeNegativeStore

def payloadSub : BinsPayload → Nat
  | .deltasCounts _ => Consts.binEncodingIndexDeltasAndCounts
  | .deltas _ => Consts.binEncodingIndexDeltas
  | .contiguous _ _ _ => Consts.binEncodingContiguousCounts

def encPayload : BinsPayload → Bytes
  | .deltasCounts items =>
    encUvarint64 items.length ++ items.flatMap (fun p => encVarint64 p.1 ++ encVarfloatBits p.2)
  | .deltas items => encUvarint64 items.length ++ items.flatMap encVarint64
  | .contiguous start stride counts =>
    encUvarint64 counts.length ++ encVarint64 start ++ encVarint64 stride ++ counts.flatMap encVarfloatBits

def encBlock : Block → Bytes
  | .zeroCount b => mkFlag Consts.flagTypeSketchFeatures Consts.subFlagZeroCountVarFloat :: encVarfloatBits b
  | .count b => mkFlag Consts.flagTypeSketchFeatures Consts.subFlagCount :: encVarfloatBits b
  | .sum b => mkFlag Consts.flagTypeSketchFeatures Consts.subFlagSum :: encF64LE b
  | .min b => mkFlag Consts.flagTypeSketchFeatures Consts.subFlagMin :: encF64LE b
  | .max b => mkFlag Consts.flagTypeSketchFeatures Consts.subFlagMax :: encF64LE b
  | .mapping sub g o => mkFlag Consts.flagTypeIndexMapping sub :: (encF64LE g ++ encF64LE o)
  | .bins side p => mkFlag (sideType side) (payloadSub p) :: encPayload p

def encBlocks (bs : List Block) : Bytes := bs.flatMap encBlock

inductive ParseErr where
  | eof
  | unknownFlag (f : Nat)
deriving DecidableEq, Repr, Inhabited

def liftDec {α} : Except DecErr α → Except ParseErr α
  | .ok a => .ok a
  | .error _ => .error .eof

/-- read `n` items with `item` -/
def parseN {α} (item : Bytes → Except ParseErr (α × Bytes)) : Nat → Bytes → Except ParseErr (List α × Bytes)
  | 0, bs => .ok ([], bs)
  | n + 1, bs =>
    match item bs with
    | .error e => .error e
    | .ok (a, rest) =>
      match parseN item n rest with
      | .error e => .error e
      | .ok (as, rest') => .ok (a :: as, rest')

def parsePayload (sub : Nat) (bs : Bytes) : Except ParseErr (BinsPayload × Bytes) :=
  if sub = Consts.binEncodingIndexDeltasAndCounts then do
    let (n, bs) ← liftDec (decUvarint64 bs)
    let (items, bs) ← parseN (fun bs => do
      let (d, bs) ← liftDec (decVarint64 bs)
      let (c, bs) ← liftDec (decVarfloatBits bs)
      pure ((d, c), bs)) n bs
    pure (.deltasCounts items, bs)
  else if sub = Consts.binEncodingIndexDeltas then do
    let (n, bs) ← liftDec (decUvarint64 bs)
    let (items, bs) ← parseN (fun bs => liftDec (decVarint64 bs)) n bs
    pure (.deltas items, bs)
  else if sub = Consts.binEncodingContiguousCounts then do
    let (n, bs) ← liftDec (decUvarint64 bs)
    let (start, bs) ← liftDec (decVarint64 bs)
    let (stride, bs) ← liftDec (decVarint64 bs)
    let (counts, bs) ← parseN (fun bs => liftDec (decVarfloatBits bs)) n bs
    pure (.contiguous start stride counts, bs)
  else .error (.unknownFlag sub)

/-- one block from the front of the stream -/
def parseBlock : Bytes → Except ParseErr (Block × Bytes)
  | [] => .error .eof
  | f :: bs =>
    let t := flagType f
    let sub := flagSub f
    if t = Consts.flagTypePositiveStore then (parsePayload sub bs).map (fun (p, r) => (.bins .pos p, r))
    else if t = Consts.flagTypeNegativeStore then (parsePayload sub bs).map (fun (p, r) => (.bins .neg p, r))
    else if t = Consts.flagTypeIndexMapping then
      if sub ≤ 4 then do
        let (g, bs) ← liftDec (decF64LE bs)
        let (o, bs) ← liftDec (decF64LE bs)
        pure (.mapping sub g o, bs)
      else .error (.unknownFlag f)
    else if sub = Consts.subFlagZeroCountVarFloat then (liftDec (decVarfloatBits bs)).map (fun (b, r) => (.zeroCount b, r))
    else if sub = Consts.subFlagCount then (liftDec (decVarfloatBits bs)).map (fun (b, r) => (.count b, r))
    else if sub = Consts.subFlagSum then (liftDec (decF64LE bs)).map (fun (b, r) => (.sum b, r))
    else if sub = Consts.subFlagMin then (liftDec (decF64LE bs)).map (fun (b, r) => (.min b, r))
    else if sub = Consts.subFlagMax then (liftDec (decF64LE bs)).map (fun (b, r) => (.max b, r))
    else .error (.unknownFlag f)

/-- the whole stream (`fuel` ≥ number of bytes suffices: every block consumes at least its flag) -/
def parseBlocksFuel : Nat → Bytes → Except ParseErr (List Block)
  | _, [] => .ok []
  | 0, _ => .error .eof
  | fuel + 1, bs =>
    match parseBlock bs with
    | .error e => .error e
    | .ok (b, rest) =>
      match parseBlocksFuel fuel rest with
      | .error e => .error e
      | .ok more => .ok (b :: more)

def parseBlocks (bs : Bytes) : Except ParseErr (List Block) := parseBlocksFuel bs.length bs

/-- the float a varfloat payload stands for: `Float64frombits(bits) − 1` -/
def vfValue (b : Nat) : F64 := F64.sub (F64.ofBits (UInt64.ofNat b)) F64.one

/-- the `(index, count)` pairs a bins payload denotes, in stream order -/
def payloadBins : BinsPayload → List (Int × F64)
  | .deltasCounts items =>
    (items.foldl (fun (acc : Int × List (Int × F64)) p => (acc.1 + p.1, (acc.1 + p.1, vfValue p.2) :: acc.2)) (0, [])).2.reverse
  | .deltas items =>
    (items.foldl (fun (acc : Int × List (Int × F64)) d => (acc.1 + d, (acc.1 + d, F64.one) :: acc.2)) (0, [])).2.reverse
  | .contiguous start stride counts =>
    (counts.zipIdx).map (fun (c, k) => (start + stride * (k : Int), vfValue c))

/-- the content the documentation assigns to a block list -/
structure Doc where
  zero : F64 := .fin 0
  pos : List (Int × F64) := []
  neg : List (Int × F64) := []
  /-- every mapping block, in order -/
  mappings : List (Nat × Nat × Nat) := []
  count : List F64 := []
  sum : List F64 := []
  min : List F64 := []
  max : List F64 := []
deriving Repr, Inhabited

def interp (bs : List Block) : Doc :=
  bs.foldl (fun (d : Doc) b =>
    match b with
    | .zeroCount x => { d with zero := F64.add d.zero (vfValue x) }
    | .count x => { d with count := d.count ++ [vfValue x] }
    | .sum x => { d with sum := d.sum ++ [F64.ofBits (UInt64.ofNat x)] }
    | .min x => { d with min := d.min ++ [F64.ofBits (UInt64.ofNat x)] }
    | .max x => { d with max := d.max ++ [F64.ofBits (UInt64.ofNat x)] }
    | .mapping s g o => { d with mappings := d.mappings ++ [(s, g, o)] }
    | .bins .pos p => { d with pos := d.pos ++ payloadBins p }
    | .bins .neg p => { d with neg := d.neg ++ payloadBins p }) {}

/-- accumulate `(index, finite weight)` pairs into a content; `none` if a weight is not finite -/
def contentOf (l : List (Int × F64)) : Option Content :=
  l.foldlM (fun (acc : Content) p =>
    match p.2 with
    | .fin w => some (acc.add p.1 w)
    | _ => none) []

end Wire
end DDS
