/-
  DDS.Model.Num — exact model of IEEE-754 binary64 values and operations.

  A finite float64 is a rational number; the model carries it as a `Rat`, and carries
  the three non-finite classes as constructors.  The sign of zero is *not* modelled
  (−0 and +0 are both `fin 0`); nothing observable at the API of the library depends
  on it once results are printed as rationals.

  `roundF64` is round-to-nearest-even onto the binary64 grid implemented with exact
  rational arithmetic, so `fadd a b = roundF64 (a + b)` is *the* float Go computes
  (for finite operands), not an approximation of it.

  Core Lean only (no Mathlib): this file is linked into the native driver.
-/

namespace DDS

/-- `2^e` as a rational, for any integer exponent. -/
def pow2 (e : Int) : Rat :=
  if e ≥ 0 then ((2 ^ e.toNat : Nat) : Rat) else 1 / ((2 ^ (-e).toNat : Nat) : Rat)

/-- IEEE-754 binary64 value up to the sign of zero. -/
inductive F64 where
  | fin (q : Rat)
  | pinf
  | ninf
  | nan
deriving DecidableEq, Repr, Inhabited

namespace F64

def zero : F64 := .fin 0
def one : F64 := .fin 1

def isNaN : F64 → Bool
  | .nan => true
  | _ => false

def isFinite : F64 → Bool
  | .fin _ => true
  | _ => false

/-- `⌊log₂ x⌋` for a positive rational. -/
def floorLog2 (x : Rat) : Int :=
  let n := x.num.toNat
  let d := x.den
  let e0 : Int := (n.log2 : Int) - (d.log2 : Int)
  if pow2 e0 ≤ x then (if pow2 (e0 + 1) ≤ x then e0 + 1 else e0) else e0 - 1

/-- Round a non-negative rational to the nearest integer, ties to even. -/
def roundHalfEven (x : Rat) : Int :=
  let fl := x.floor
  let rem := x - (fl : Rat)
  if rem < 1 / 2 then fl
  else if 1 / 2 < rem then fl + 1
  else if fl % 2 = 0 then fl else fl + 1

/-- The exponent of the binary64 quantum (unit in the last place) used for a positive rational `x`. -/
def quantumExp (x : Rat) : Int :=
  let e := floorLog2 x
  (if e < -1022 then -1022 else e) - 52

/-- Round a positive rational onto the binary64 grid (nearest, ties to even); overflow gives `pinf`. -/
def roundPos (x : Rat) : F64 :=
  let qe := quantumExp x
  let m := roundHalfEven (x / pow2 qe)
  let r := (m : Rat) * pow2 qe
  if pow2 1024 ≤ r then .pinf else .fin r

/-- IEEE round-to-nearest-even of an exact rational result. -/
def roundF64 (x : Rat) : F64 :=
  if x = 0 then .fin 0
  else if 0 < x then roundPos x
  else match roundPos (-x) with
    | .fin r => .fin (-r)
    | .pinf => .ninf
    | o => o

/-- Is the rational exactly representable as a binary64? -/
def isRep (x : Rat) : Bool := roundF64 x == .fin x

def neg : F64 → F64
  | .fin q => .fin (-q)
  | .pinf => .ninf
  | .ninf => .pinf
  | .nan => .nan

def add : F64 → F64 → F64
  | .fin a, .fin b => roundF64 (a + b)
  | .nan, _ => .nan
  | _, .nan => .nan
  | .pinf, .ninf => .nan
  | .ninf, .pinf => .nan
  | .pinf, _ => .pinf
  | _, .pinf => .pinf
  | .ninf, _ => .ninf
  | _, .ninf => .ninf

def sub (a b : F64) : F64 := add a (neg b)

def sgn (q : Rat) : Int := if 0 < q then 1 else if q < 0 then -1 else 0

def mul : F64 → F64 → F64
  | .fin a, .fin b => roundF64 (a * b)
  | .nan, _ => .nan
  | _, .nan => .nan
  | .fin a, .pinf => if 0 < a then .pinf else if a < 0 then .ninf else .nan
  | .fin a, .ninf => if 0 < a then .ninf else if a < 0 then .pinf else .nan
  | .pinf, .fin b => if 0 < b then .pinf else if b < 0 then .ninf else .nan
  | .ninf, .fin b => if 0 < b then .ninf else if b < 0 then .pinf else .nan
  | .pinf, .pinf => .pinf
  | .ninf, .ninf => .pinf
  | .pinf, .ninf => .ninf
  | .ninf, .pinf => .ninf

/-- Division. `x / 0` for `x ≠ 0` would need the sign of zero, which is not modelled: it is `nan`
    here and no modelled code path divides by zero. -/
def div : F64 → F64 → F64
  | .fin a, .fin b => if b = 0 then .nan else roundF64 (a / b)
  | .nan, _ => .nan
  | _, .nan => .nan
  | .fin _, .pinf => .fin 0
  | .fin _, .ninf => .fin 0
  | .pinf, .fin b => if 0 ≤ b then .pinf else .ninf
  | .ninf, .fin b => if 0 ≤ b then .ninf else .pinf
  | _, _ => .nan

/-- IEEE `<` (false when either side is NaN). -/
def lt : F64 → F64 → Bool
  | .fin a, .fin b => a < b
  | .nan, _ => false
  | _, .nan => false
  | .ninf, .ninf => false
  | .ninf, _ => true
  | _, .ninf => false
  | .pinf, _ => false
  | _, .pinf => true

/-- IEEE `==`. -/
def eq : F64 → F64 → Bool
  | .fin a, .fin b => a == b
  | .pinf, .pinf => true
  | .ninf, .ninf => true
  | _, _ => false

def le (a b : F64) : Bool := lt a b || eq a b
def gt (a b : F64) : Bool := lt b a
def ge (a b : F64) : Bool := le b a
def ne (a b : F64) : Bool := !(eq a b)

/-- Decode a 64-bit pattern. -/
def ofBits (b : UInt64) : F64 :=
  let n : Nat := b.toNat
  let sign : Nat := n / 2 ^ 63
  let ex : Nat := (n / 2 ^ 52) % 2048
  let frac : Nat := n % 2 ^ 52
  if ex = 2047 then
    if frac = 0 then (if sign = 0 then .pinf else .ninf) else .nan
  else
    let mag : Rat :=
      if ex = 0 then ((frac : Nat) : Rat) * pow2 (-1074)
      else (((2 ^ 52 + frac : Nat)) : Rat) * pow2 (((ex : Nat) : Int) - 1075)
    .fin (if sign = 0 then mag else -mag)

/-- Bits of a positive, exactly representable rational. -/
def bitsOfPos (x : Rat) : Nat :=
  let qe := quantumExp x
  let m := (x / pow2 qe).floor.toNat
  if m < 2 ^ 52 then m            -- subnormal: exponent field 0
  else ((qe + 52 + 1023).toNat) * 2 ^ 52 + (m - 2 ^ 52)

/-- Encode as a 64-bit pattern (zero is +0; NaN is the canonical quiet NaN). The rational is
    expected to be representable; otherwise the bits of the value truncated to the grid are returned. -/
def toBits : F64 → UInt64
  | .fin q =>
    if q = 0 then 0
    else if 0 < q then UInt64.ofNat (bitsOfPos q)
    else UInt64.ofNat (2 ^ 63 + bitsOfPos (-q))
  | .pinf => 0x7FF0000000000000
  | .ninf => 0xFFF0000000000000
  | .nan => 0x7FF8000000000001

/-- Rational of an `Int`. -/
def ofInt (i : Int) : F64 := roundF64 (i : Rat)

/-- Go's `math.Floor`. -/
def floor : F64 → F64
  | .fin q => .fin (q.floor : Rat)
  | o => o

/-- Go's `int(x)` conversion for a finite float (truncation toward zero). Non-finite: `none`. -/
def truncToInt : F64 → Option Int
  | .fin q => some (if 0 ≤ q then q.floor else -((-q).floor))
  | _ => none

/-- Canonical text form used on the wire between harness and driver. -/
def toStr : F64 → String
  | .fin q => toString q
  | .pinf => "inf"
  | .ninf => "-inf"
  | .nan => "nan"

end F64

/-- Parse exactly 16 hex digits as a 64-bit pattern. -/
def parseHex64 (s : String) : Option UInt64 :=
  let cs := s.toList
  if cs.length != 16 then none else
  cs.foldl (fun acc c =>
    match acc with
    | none => none
    | some (v : Nat) =>
      let d : Option Nat :=
        if '0' ≤ c ∧ c ≤ '9' then some (c.toNat - '0'.toNat)
        else if 'a' ≤ c ∧ c ≤ 'f' then some (c.toNat - 'a'.toNat + 10)
        else if 'A' ≤ c ∧ c ≤ 'F' then some (c.toNat - 'A'.toNat + 10)
        else none
      d.map (fun d => v * 16 + d)) (some 0) |>.map UInt64.ofNat

def hexDigit (n : Nat) : Char :=
  if n < 10 then Char.ofNat ('0'.toNat + n) else Char.ofNat ('a'.toNat + n - 10)

def toHex64 (b : UInt64) : String :=
  let n := b.toNat
  String.ofList ((List.range 16).map (fun i => hexDigit ((n / 16 ^ (15 - i)) % 16)))

end DDS
