/-
  DDS.Model.Codec — byte-level codecs of `ddsketch/encoding/encoding.go`, transcribed.

  Bytes are natural numbers (`< 256` for everything an encoder produces — a theorem, not a
  type).  64-bit words are natural numbers `< 2^64`; Go's wrap-around arithmetic on `uint64`
  is written with explicit `% 2^64`.

  Decoders return `Except DecErr (value × remaining bytes)`; on error the input is untouched
  by construction (the caller keeps its own list).
-/
import DDS.Model.Num
import DDS.Generated.Consts

namespace DDS

inductive DecErr where
  | eof
  | overflow32
deriving DecidableEq, Repr, Inhabited

abbrev Bytes := List Nat

def W64 : Nat := 2 ^ 64

namespace Codec

/-! ### uvarint64 -/

/-- `EncodeUvarint64` loop; `fuel` is the number of bytes that may still carry a continuation bit
    (`MaxVarLen64 - 1` initially). -/
def encU : Nat → Nat → Bytes
  | 0, v => [v % 256]
  | f + 1, v => if v < 128 then [v] else (v % 128 + 128) :: encU f (v / 128)

def encUvarint64 (v : Nat) : Bytes := encU (Consts.maxVarLen64 - 1) v

/-- `DecodeUvarint64` loop. `fuel` = number of further bytes on which a continuation bit is honoured. -/
def decU : Nat → Nat → Nat → Bytes → Except DecErr (Nat × Bytes)
  | _, _, _, [] => .error .eof
  | 0, shift, acc, n :: rest => .ok (acc + n * 2 ^ shift, rest)
  | f + 1, shift, acc, n :: rest =>
    if n < 128 then .ok (acc + n * 2 ^ shift, rest)
    else decU f (shift + 7) (acc + (n % 128) * 2 ^ shift) rest

def decUvarint64 (bs : Bytes) : Except DecErr (Nat × Bytes) :=
  match decU (Consts.maxVarLen64 - 1) 0 0 bs with
  | .ok (v, rest) => .ok (v % W64, rest)
  | .error e => .error e

/-- number of leading zeros of a 64-bit word -/
def lzcnt64 (v : Nat) : Nat := if v = 0 then 64 else 63 - v.log2

/-- number of trailing zeros of a 64-bit word (64 for 0) -/
def tzcnt64 (v : Nat) : Nat :=
  if v = 0 then 64 else (List.range 64).find? (fun i => (v / 2 ^ i) % 2 = 1) |>.getD 64

/-- `uvarint64Sizes[i]` as initialised by `initUvarint64Sizes`. -/
def uvarintSizeTable (i : Nat) : Nat := (encUvarint64 ((W64 - 1) / 2 ^ i)).length

/-- `Uvarint64Size`. -/
def uvarint64Size (v : Nat) : Nat := uvarintSizeTable (lzcnt64 v)

/-! ### zig-zag varint64 (values are `Int` in the int64 range) -/

/-- `uint64(v>>63 ^ v<<1)`. -/
def zigzag (v : Int) : Nat := if 0 ≤ v then (2 * v).toNat else (-2 * v - 1).toNat

/-- `int64((u >> 1) ^ -(u & 1))`. -/
def unzigzag (u : Nat) : Int := if u % 2 = 0 then (u / 2 : Nat) else -((u / 2 : Nat) : Int) - 1

def encVarint64 (v : Int) : Bytes := encUvarint64 (zigzag v)

def decVarint64 (bs : Bytes) : Except DecErr (Int × Bytes) :=
  match decUvarint64 bs with
  | .ok (u, rest) => .ok (unzigzag u, rest)
  | .error e => .error e

def varint64Size (v : Int) : Nat := uvarint64Size (zigzag v)

def decVarint32 (bs : Bytes) : Except DecErr (Int × Bytes) :=
  match decVarint64 bs with
  | .ok (v, rest) => if v > 2147483647 ∨ v < -2147483648 then .error .overflow32 else .ok (v, rest)
  | .error e => .error e

/-! ### float64 little endian (on bit patterns) -/

def encF64LE (b : Nat) : Bytes := (List.range 8).map (fun i => (b / 256 ^ i) % 256)

def leValue : Bytes → Nat
  | [] => 0
  | n :: rest => n + 256 * leValue rest

def decF64LE (bs : Bytes) : Except DecErr (Nat × Bytes) :=
  if bs.length < 8 then .error .eof else .ok (leValue (bs.take 8), bs.drop 8)

/-! ### varfloat64 (on bit patterns: the argument is `Float64bits(v+1)`) -/

def rotl64 (x r : Nat) : Nat := ((x * 2 ^ r) % W64) + x / 2 ^ (64 - r)
def rotr64 (x r : Nat) : Nat := x / 2 ^ r + (x % 2 ^ r) * 2 ^ (64 - r)

def oneBits : Nat := 0x3ff0000000000000

/-- the word that is chopped into 7-bit groups: `RotateLeft64(bits(v+1) − bits(1), 6)` -/
def vfWord (b : Nat) : Nat := rotl64 ((b + W64 - oneBits) % W64) Consts.varfloat64Rotate
def vfUnword (x : Nat) : Nat := (rotr64 x Consts.varfloat64Rotate + oneBits) % W64

/-- `EncodeVarfloat64` loop on the word `x`. -/
def encVF : Nat → Nat → Bytes
  | 0, x => [x / 2 ^ 56]
  | f + 1, x =>
    let n := x / 2 ^ 57
    let x' := (x * 128) % W64
    if x' = 0 then [n] else (n + 128) :: encVF f x'

def encVarfloatBits (b : Nat) : Bytes := encVF (Consts.maxVarLen64 - 1) (vfWord b)

/-- `DecodeVarfloat64` loop, accumulating the word. -/
def decVF : Nat → Nat → Nat → Bytes → Except DecErr (Nat × Bytes)
  | _, _, _, [] => .error .eof
  | 0, _, acc, n :: rest => .ok (acc + n, rest)
  | f + 1, shift, acc, n :: rest =>
    if n < 128 then .ok (acc + n * 2 ^ shift, rest)
    else decVF f (shift - 7) (acc + (n % 128) * 2 ^ shift) rest

def decVarfloatBits (bs : Bytes) : Except DecErr (Nat × Bytes) :=
  match decVF (Consts.maxVarLen64 - 1) 57 0 bs with
  | .ok (x, rest) => .ok (vfUnword (x % W64), rest)
  | .error e => .error e

def varfloatSizeTable (i : Nat) : Nat := (encVF (Consts.maxVarLen64 - 1) (((W64 - 1) * 2 ^ i) % W64)).length

/-- `Varfloat64Size` on the bits of `v+1`. -/
def varfloat64SizeBits (b : Nat) : Nat := varfloatSizeTable (tzcnt64 (vfWord b))

/-! ### float level -/

/-- `EncodeVarfloat64(v)`. -/
def encVarfloat64 (v : F64) : Bytes := encVarfloatBits (F64.toBits (F64.add v F64.one)).toNat

/-- `DecodeVarfloat64`. -/
def decVarfloat64 (bs : Bytes) : Except DecErr (F64 × Bytes) :=
  match decVarfloatBits bs with
  | .ok (b, rest) => .ok (F64.sub (F64.ofBits (UInt64.ofNat b)) F64.one, rest)
  | .error e => .error e

def varfloat64Size (v : F64) : Nat := varfloat64SizeBits (F64.toBits (F64.add v F64.one)).toNat

/-- Weights that survive the documented `+1 / −1` transform. -/
def VarfloatExact (w : Rat) : Bool :=
  match F64.add (.fin w) F64.one with
  | .fin s => s - 1 == w
  | _ => false

end Codec
end DDS
