/-
  DDS.Model.ChangeMapping — `DDSketch.ChangeMapping` / `changeStoreMapping` of ddsketch.go:
  every bin of the source store is spread over the bins of the new mapping that overlap its
  scaled range, proportionally to the overlap. Float arithmetic is the exact binary64 model; the
  two mappings are oracles (`MapEnv`).
-/
import DDS.Model.Sketch

namespace DDS
namespace ChangeMapping

def fmaxG (a b : F64) : F64 := if a.isNaN || b.isNaN then .nan else if F64.lt a b then b else a
def fminG (a b : F64) : F64 := if a.isNaN || b.isNaN then .nan else if F64.lt b a then b else a

/-- the contributions `(outIndex, weight)` of one source bin; `fuel` bounds the `for` loop -/
def spreadBin (new : MapEnv) (inLow inHigh : F64) (count : F64) : Nat → Int → List (Int × F64)
  | 0, _ => []
  | fuel + 1, outIndex =>
    if F64.lt (new.lowerBound outIndex) inHigh then
      let outLow := new.lowerBound outIndex
      let outHigh := new.lowerBound (outIndex + 1)
      let lowI := fmaxG outLow inLow
      let highI := fminG outHigh inHigh
      let inter := F64.sub highI lowI
      -- bins that only touch the scaled range contribute nothing
      if F64.le inter (.fin 0) then spreadBin new inLow inHigh count fuel (outIndex + 1)
      else
        let proportion := F64.div inter (F64.sub inHigh inLow)
        (outIndex, F64.mul proportion count) :: spreadBin new inLow inHigh count fuel (outIndex + 1)
    else []

/-- all contributions of a store, in `ForEach` order -/
def spreadStore (old new : MapEnv) (scale : F64) (bins : List (Int × Rat)) (fuel : Nat) : List (Int × F64) :=
  bins.flatMap fun (index, count) =>
    let inLow := F64.mul (old.lowerBound index) scale
    let inHigh := F64.mul (old.lowerBound (index + 1)) scale
    spreadBin new inLow inHigh (.fin count) fuel (new.index inLow)

/-- exact accumulation of the (float-rounded) contributions; `none` if one of them is not finite -/
def accumulate (l : List (Int × F64)) : Option Content := Wire.contentOf l

/-- what `DDSketch.ChangeMapping` returns, with the two new stores abstracted as the contents they end
    up holding (exact accumulation of the float contributions): the identity shortcut
    (`scaleFactor == 1 && mapping.Equals(newMapping)`: a copy of the receiver), otherwise a sketch
    carrying the NEW mapping, the receiver's zero count, and both sides re-binned. `none` when a
    store cannot be listed or a contribution is not finite. -/
def changeMapping (old new : MapEnv) (s : Sketch) (scale : F64) (fuel : Nat) : Option Sketch :=
  if F64.eq scale F64.one && old.id.equals new.id then some s
  else do
    let p ← s.pos.binsList
    let n ← s.neg.binsList
    let cp ← accumulate (spreadStore old new scale p fuel)
    let cn ← accumulate (spreadStore old new scale n fuel)
    pure { mapping := some new.id, pos := .sp cp, neg := .sp cn, zero := s.zero }

/-- `DDSketchWithExactSummaryStatistics.ChangeMapping`: the statistics are copied and rescaled by the
    factor (even on the identity shortcut, where the factor is 1) -/
def xchangeMapping (old new : MapEnv) (x : XSketch) (scale : F64) (fuel : Nat) : Option XSketch := do
  let sk ← changeMapping old new x.sk scale fuel
  pure { sk := sk, st := x.st.rescale scale }

end ChangeMapping
end DDS
