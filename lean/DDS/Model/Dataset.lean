/-
  DDS.Model.Dataset — `dataset.Dataset`, the in-memory ground truth shipped with the repository:
  raw values, their number, and a lazily maintained sort flag. Values are finite floats (`Rat`);
  `Count` is a float incremented by one per addition; queries sort the slice in place.
-/
import DDS.Model.Summary

namespace DDS

structure Dataset where
  values : List Rat
  count : F64
  sorted : Bool
deriving Repr, Inhabited

namespace Dataset

def new : Dataset := { values := [], count := .fin 0, sorted := false }

/-- `Add(v)` -/
def add (d : Dataset) (v : Rat) : Dataset :=
  { values := d.values ++ [v], count := F64.add d.count F64.one, sorted := false }

/-- `sort()`: in place, only if the flag is not set -/
def sort (d : Dataset) : Dataset :=
  if d.sorted then d else { d with values := d.values.mergeSort (fun a b => decide (a ≤ b)), sorted := true }

/-- checked `Values[i]` -/
def at? (l : List Rat) (i : Int) : Option Rat := if 0 ≤ i then l[i.toNat]? else none

inductive QRes where
  | nan                 -- the documented NaN answer
  | val (v : Rat)
  | panic               -- index out of range / undefined conversion
deriving DecidableEq, Repr

/-- the guard of `LowerQuantile`/`UpperQuantile`: `q < 0 || q > 1 || Count == 0` (plus NaN) -/
def rejects (d : Dataset) (q : F64) : Bool :=
  q.isNaN || F64.lt q (.fin 0) || F64.gt q (.fin 1) || F64.eq d.count (.fin 0)

def rank (d : Dataset) (q : F64) : F64 := F64.mul q (F64.sub d.count F64.one)

/-- `LowerQuantile(q)`: returns the (sorted) dataset too, since the query sorts in place -/
def lowerQuantile (d : Dataset) (q : F64) : Dataset × QRes :=
  if d.rejects q then (d, .nan)
  else
    let d := d.sort
    match d.rank q with
    | .fin r => (d, match at? d.values r.floor with | some v => .val v | none => .panic)
    | _ => (d, .panic)

/-- `UpperQuantile(q)` -/
def upperQuantile (d : Dataset) (q : F64) : Dataset × QRes :=
  if d.rejects q then (d, .nan)
  else
    let d := d.sort
    match d.rank q with
    | .fin r => (d, match at? d.values r.ceil with | some v => .val v | none => .panic)
    | _ => (d, .panic)

/-- `Min()` -/
def min (d : Dataset) : Dataset × QRes :=
  let d := d.sort
  (d, match d.values.head? with | some v => .val v | none => .panic)

/-- `Max()` -/
def max (d : Dataset) : Dataset × QRes :=
  let d := d.sort
  (d, match d.values.getLast? with | some v => .val v | none => .panic)

/-- `Sum()`: Kahan summation over the values in their current order -/
def sum (d : Dataset) : F64 :=
  (d.values.foldl (fun (s : Summary) v => s.add (.fin v) F64.one) Summary.new).getSum

/-- `Merge(o)`: adds every value of `o` (a snapshot of them, so merging a dataset into itself doubles it) -/
def merge (d o : Dataset) : Dataset := o.values.foldl add d

end Dataset
end DDS
