/-
  DDS.Model.Proto — the protobuf forms of a sketch (`ddsketch/pb/ddsketch.proto`):
  * the abstract messages (`PbSketch`, `PbStore`, `PbMapping`; doubles are bit patterns),
  * `toProto`: what `DDSketch.ToProto()` builds in memory, per store kind,
  * `streamBytes`: the bytes written by the allocation-free streaming writer
    (`EncodeProto` / `ddsketch.proto_builder.go`), transcribed call by call,
  * `pbParse`: a parser of the protobuf wire format for these three message types, written from
    the protobuf encoding rules (fields in any order, last scalar wins, embedded messages merge,
    repeated doubles packed or not, unknown fields skipped),
  * `fromProto`: `FromProtoWithStoreProvider`.
-/
import DDS.Model.Sketch

namespace DDS
namespace Proto
open Codec

structure PbMapping where
  gamma : Nat := 0
  indexOffset : Nat := 0
  interpolation : Nat := 0
deriving DecidableEq, Repr, Inhabited

structure PbStore where
  /-- `map<sint32,double>`: entries in arrival order (later entries for a key win) -/
  binCounts : List (Int × Nat) := []
  contiguous : List Nat := []
  contiguousOffset : Int := 0
deriving DecidableEq, Repr, Inhabited

structure PbSketch where
  mapping : Option PbMapping := none
  pos : Option PbStore := none
  neg : Option PbStore := none
  zero : Nat := 0
deriving DecidableEq, Repr, Inhabited

/-! ### protobuf wire primitives -/

/-- base-128 varint (protowire.AppendVarint) -/
def pbVarint : Nat → Nat → Bytes
  | 0, v => [v % 128]
  | f + 1, v => if v < 128 then [v] else (v % 128 + 128) :: pbVarint f (v / 128)

def varint (v : Nat) : Bytes := pbVarint 9 v

def fixed64 (b : Nat) : Bytes := encF64LE b

/-- `protowire.EncodeZigZag(int64(v))` -/
def pbZigzag (v : Int) : Nat := zigzag v

def lenDelim (tag : Nat) (payload : Bytes) : Bytes := varint tag ++ varint payload.length ++ payload

def f64bits (x : F64) : Nat := x.toBits.toNat
def ratBits (w : Rat) : Nat := (F64.toBits (.fin w)).toNat

/-! ### in-memory messages (`ToProto`) -/

def interpolationOf : MKind → Nat
  | .log => 0
  | .linear => 1
  | .cubic => 3

def mappingToProto (m : MapId) : PbMapping :=
  { gamma := f64bits m.gamma, indexOffset := f64bits m.indexOffset, interpolation := interpolationOf m.kind }

/-- `Store.ToProto()`; `none` = panic -/
def storeToProto (st : Store) : Option PbStore :=
  match st with
  | .d s =>
    if s.isEmpty then some {}
    else do
      let cs ← (DStore.idxRange s.minIndex s.maxIndex).mapM (fun i => DStore.rd s.bins (i - s.offset))
      pure { contiguous := cs.map ratBits, contiguousOffset := s.minIndex }
  | .sp c => some { binCounts := c.map (fun p => (p.1, ratBits p.2)) }
  | .pg s => if s.isEmpty then some {} else some { binCounts := s.binsList.map (fun p => (p.1, ratBits p.2)) }

def toProto (s : Sketch) : Option PbSketch := do
  let p ← storeToProto s.pos
  let n ← storeToProto s.neg
  pure { mapping := s.mapping.map mappingToProto, pos := some p, neg := some n, zero := f64bits s.zero }

/-! ### the streaming writer (`EncodeProto`) -/

def streamMapping (m : MapId) : Bytes :=
  varint 0x9 ++ fixed64 (f64bits m.gamma) ++ varint 0x11 ++ fixed64 (f64bits m.indexOffset) ++
  (if interpolationOf m.kind ≠ 0 then varint 0x18 ++ varint (interpolationOf m.kind) else [])

def streamEntry (k : Int) (v : Nat) : Bytes :=
  lenDelim 0xa (varint 0x8 ++ varint (pbZigzag k) ++ varint 0x11 ++ fixed64 v)

/-- `Store.EncodeProto(builder)` -/
def streamStore (st : Store) : Option Bytes :=
  match st with
  | .d s =>
    if s.isEmpty then some []
    else do
      let cs ← (DStore.idxRange s.minIndex s.maxIndex).mapM (fun i => DStore.rd s.bins (i - s.offset))
      pure (cs.flatMap (fun c => varint 0x11 ++ fixed64 (ratBits c)) ++ varint 0x18 ++ varint (pbZigzag s.minIndex))
  | .sp c => some (c.flatMap (fun p => streamEntry p.1 (ratBits p.2)))
  | .pg s => if s.isEmpty then some [] else some (s.binsList.flatMap (fun p => streamEntry p.1 (ratBits p.2)))

/-- `DDSketch.EncodeProto(w)`: mapping, zero count, negative values, positive values -/
def streamBytes (s : Sketch) : Option Bytes := do
  let m ← s.mapping
  let n ← streamStore s.neg
  let p ← streamStore s.pos
  pure (lenDelim 0xa (streamMapping m) ++ varint 0x21 ++ fixed64 (f64bits s.zero) ++ lenDelim 0x1a n ++ lenDelim 0x12 p)

/-! ### parser of the wire format -/

inductive PbErr where
  | truncated | badWireType | tooLong
deriving DecidableEq, Repr

def readVarint : Nat → Nat → Nat → Bytes → Except PbErr (Nat × Bytes)
  | _, _, _, [] => .error .truncated
  | 0, _, _, _ => .error .tooLong
  | f + 1, shift, acc, b :: rest =>
    if b < 128 then .ok (acc + b * 2 ^ shift, rest) else readVarint f (shift + 7) (acc + (b % 128) * 2 ^ shift) rest

def rdVarint (bs : Bytes) : Except PbErr (Nat × Bytes) :=
  (readVarint 10 0 0 bs).map (fun (v, r) => (v % 2 ^ 64, r))

/-- `bs` has at least `n` elements (without walking the whole list) -/
def hasLen (bs : Bytes) (n : Nat) : Bool := n = 0 || !(bs.drop (n - 1)).isEmpty

def rdFixed64 (bs : Bytes) : Except PbErr (Nat × Bytes) :=
  if !hasLen bs 8 then .error .truncated else .ok (leValue (bs.take 8), bs.drop 8)

def rdBytes (bs : Bytes) : Except PbErr (Bytes × Bytes) := do
  let (n, rest) ← rdVarint bs
  if !hasLen rest n then .error .truncated else .ok (rest.take n, rest.drop n)

/-- sint32 / sint64 zig-zag decoding, truncated to 32 bits as `sint32` fields are -/
def unzz32 (u : Nat) : Int :=
  let v := unzigzag u
  let w := v % (2 ^ 32 : Int)
  if w ≥ 2 ^ 31 then w - 2 ^ 32 else w

/-- one field: (field number, wire type, value / payload) -/
inductive Field where
  | varint (n : Nat) (v : Nat)
  | fixed64 (n : Nat) (v : Nat)
  | bytes (n : Nat) (v : Bytes)
  | fixed32 (n : Nat)
deriving Repr

def rdField (bs : Bytes) : Except PbErr (Field × Bytes) := do
  let (tag, rest) ← rdVarint bs
  let n := tag / 8
  match tag % 8 with
  | 0 => let (v, r) ← rdVarint rest; pure (.varint n v, r)
  | 1 => let (v, r) ← rdFixed64 rest; pure (.fixed64 n v, r)
  | 2 => let (v, r) ← rdBytes rest; pure (.bytes n v, r)
  | 5 => if !hasLen rest 4 then .error .truncated else pure (.fixed32 n, rest.drop 4)
  | _ => .error .badWireType

def rdFields : Nat → Bytes → Except PbErr (List Field)
  | _, [] => .ok []
  | 0, _ => .error .tooLong
  | fuel + 1, bs => do
    let (f, rest) ← rdField bs
    let more ← rdFields fuel rest
    pure (f :: more)

def fields (bs : Bytes) : Except PbErr (List Field) := rdFields (bs.length + 1) bs

def packedDoubles : Nat → Bytes → Except PbErr (List Nat)
  | _, [] => .ok []
  | 0, _ => .error .tooLong
  | fuel + 1, bs => do
    let (v, rest) ← rdFixed64 bs
    let more ← packedDoubles fuel rest
    pure (v :: more)

def parseMapping (cur : PbMapping) (bs : Bytes) : Except PbErr PbMapping := do
  let fs ← fields bs
  pure (fs.foldl (fun (m : PbMapping) f =>
    match f with
    | .fixed64 1 v => { m with gamma := v }
    | .fixed64 2 v => { m with indexOffset := v }
    | .varint 3 v => { m with interpolation := v }
    | _ => m) cur)

def parseEntry (bs : Bytes) : Except PbErr (Int × Nat) := do
  let fs ← fields bs
  pure (fs.foldl (fun (e : Int × Nat) f =>
    match f with
    | .varint 1 v => (unzz32 v, e.2)
    | .fixed64 2 v => (e.1, v)
    | _ => e) (0, 0))

def parseStore (cur : PbStore) (bs : Bytes) : Except PbErr PbStore := do
  let fs ← fields bs
  fs.foldlM (fun (s : PbStore) f =>
    match f with
    | .bytes 1 v => do
      let e ← parseEntry v
      pure { s with binCounts := s.binCounts ++ [e] }
    | .fixed64 2 v => pure { s with contiguous := s.contiguous ++ [v] }
    | .bytes 2 v => do
      let ds ← packedDoubles (v.length + 1) v
      pure { s with contiguous := s.contiguous ++ ds }
    | .varint 3 v => pure { s with contiguousOffset := unzz32 v }
    | _ => pure s) cur

def pbParse (bs : Bytes) : Except PbErr PbSketch := do
  let fs ← fields bs
  fs.foldlM (fun (m : PbSketch) f =>
    match f with
    | .bytes 1 v => do
      let mp ← parseMapping (m.mapping.getD {}) v
      pure { m with mapping := some mp }
    | .bytes 2 v => do
      let st ← parseStore (m.pos.getD {}) v
      pure { m with pos := some st }
    | .bytes 3 v => do
      let st ← parseStore (m.neg.getD {}) v
      pure { m with neg := some st }
    | .fixed64 4 v => pure { m with zero := v }
    | _ => pure m) {}

/-! ### canonical form of messages (what `proto.Equal` compares) -/

/-- map semantics of `binCounts`: last entry per key, sorted by key -/
def normBinCounts (l : List (Int × Nat)) : List (Int × Nat) :=
  let dedup := l.foldl (fun (acc : List (Int × Nat)) e => (acc.filter (fun x => x.1 ≠ e.1)) ++ [e]) []
  dedup.mergeSort (fun a b => decide (a.1 ≤ b.1))

def normStore (s : Option PbStore) : PbStore :=
  let s := s.getD {}
  { s with binCounts := normBinCounts s.binCounts }

def norm (m : PbSketch) : PbSketch :=
  { mapping := some (m.mapping.getD {}), pos := some (normStore m.pos), neg := some (normStore m.neg), zero := m.zero }

/-! ### rebuilding a sketch (`FromProtoWithStoreProvider`) -/

def weightOf (b : Nat) : Option Rat :=
  match F64.ofBits (UInt64.ofNat b) with
  | .fin q => some q
  | _ => none

/-- `store.MergeWithProto` -/
def mergeWithProto (st : Store) (pb : PbStore) : Option Store := do
  let st ← (normBinCounts pb.binCounts).foldlM (fun (s : Store) e => do
    let w ← weightOf e.2
    s.addWithCount e.1 w) st
  (pb.contiguous.zipIdx).foldlM (fun (s : Store) (cv : Nat × Nat) => do
    let w ← weightOf cv.1
    s.addWithCount ((cv.2 : Int) + pb.contiguousOffset) w) st

inductive FromErr where
  | nilMapping | badInterpolation | badGamma
deriving DecidableEq, Repr

def mappingFromProto (m : Option PbMapping) : Except FromErr MapId :=
  match m with
  | none => .error .nilMapping
  | some m =>
    let k? : Option MKind := if m.interpolation = 0 then some .log else if m.interpolation = 1 then some .linear
      else if m.interpolation = 3 then some .cubic else none
    match k? with
    | none => .error .badInterpolation
    | some k =>
      let g := F64.ofBits (UInt64.ofNat m.gamma)
      if F64.le g (.fin 1) then .error .badGamma
      else .ok { kind := k, gamma := g, indexOffset := F64.ofBits (UInt64.ofNat m.indexOffset) }

/-- `FromProtoWithStoreProvider` (`none` = panic / weight outside the model) -/
def fromProto (k : StoreKind) (m : PbSketch) : Option (Except FromErr Sketch) := do
  let p ← match m.pos with
    | some pb => mergeWithProto (Store.new k) pb
    | none => some (Store.new k)
  let n ← match m.neg with
    | some pb => mergeWithProto (Store.new k) pb
    | none => some (Store.new k)
  match mappingFromProto m.mapping with
  | .error e => pure (.error e)
  | .ok id => pure (.ok { mapping := some id, pos := p, neg := n, zero := F64.ofBits (UInt64.ofNat m.zero) })

end Proto
end DDS
