/-
  DDS.Model.Mapping — the three index mappings of `ddsketch/mapping`, written ONCE over an
  abstract arithmetic `MOps F` ("one definition, two readings"):

  * `F := Float` (instance in `DDS.Driver.FloatOps`): the driver evaluates these very
    definitions with IEEE arithmetic and the harness compares them with Go's results;
  * `F := ℝ` (instance in `DDS.Proofs.RealInst`): the theorems of property C03 are about
    these very definitions over the reals.

  Each function mirrors the Go expression operation by operation (same association).
-/
import DDS.Generated.Consts

namespace DDS

/-- the arithmetic the mapping formulas use -/
class MOps (F : Type) where
  add : F → F → F
  sub : F → F → F
  mul : F → F → F
  div : F → F → F
  neg : F → F
  ofInt : Int → F
  ofRat : Rat → F
  lt : F → F → Bool
  le : F → F → Bool
  log : F → F
  exp : F → F
  log2 : F → F
  exp2 : F → F
  pow : F → F → F
  cbrt : F → F
  sqrt : F → F
  /-- `math.Floor` -/
  floor : F → F
  /-- Go's `int(x)`: truncation toward zero -/
  trunc : F → Int
  /-- `getExponent(bits)`: unbiased binary exponent (as a number) -/
  exponentOf : F → F
  /-- `getSignificandPlusOne(bits)`: the significand in [1,2) -/
  significandPlusOne : F → F
  /-- `buildFloat64(exponent, significandPlusOne)` -/
  buildFloat : Int → F → F
  /-- the constants `math.Ln2`, `expOverflow`, `minNormalFloat64` -/
  ln2 : F
  expOverflow : F
  minNormal : F

inductive MKind where
  | log | linear | cubic
deriving DecidableEq, Repr, Inhabited

namespace Mapping
open MOps

variable {F : Type} [MOps F]

local infixl:65 " +ᶠ " => MOps.add
local infixl:65 " -ᶠ " => MOps.sub
local infixl:70 " *ᶠ " => MOps.mul
local infixl:70 " /ᶠ " => MOps.div

def one : F := ofInt 1
def two : F := ofInt 2
def cA : F := ofRat Consts.cubicA
def cB : F := ofRat Consts.cubicB
def cC : F := ofRat Consts.cubicC
def fmax (a b : F) : F := if lt a b then b else a
def fmin (a b : F) : F := if lt b a then b else a

/-- the identity of a mapping: kind, base and index offset; everything else is derived -/
structure Params (F : Type) where
  kind : MKind
  gamma : F
  indexOffset : F

/-- `gamma` as computed by the constructors taking a relative accuracy -/
def gammaOfAlpha (k : MKind) (α : F) : F :=
  let r : F := (one +ᶠ α) /ᶠ (one -ᶠ α)
  match k with
  | .log => r
  | .linear => pow r ln2
  | .cubic => pow r ((ofInt 10 *ᶠ ln2) /ᶠ ofInt 7)

/-- the index offset chosen by the constructors taking a relative accuracy -/
def defaultOffset (k : MKind) (γ : F) : F :=
  match k with
  | .linear => one /ᶠ log2 γ
  | _ => ofInt 0

def ofAlpha (k : MKind) (α : F) : Params F :=
  let γ := gammaOfAlpha k α
  { kind := k, gamma := γ, indexOffset := defaultOffset k γ }

def multiplier (p : Params F) : F :=
  match p.kind with
  | .log => one /ᶠ log p.gamma
  | _ => one /ᶠ log2 p.gamma

def adjustedGamma (p : Params F) : F :=
  match p.kind with
  | .log => p.gamma
  | .linear => pow p.gamma (one /ᶠ ln2)
  | .cubic => pow p.gamma (ofInt 7 /ᶠ (ofInt 10 *ᶠ ln2))

/-- `approximateLog` (the natural logarithm for the logarithmic mapping) -/
def approxLog (p : Params F) (x : F) : F :=
  match p.kind with
  | .log => log x
  | .linear => (exponentOf x +ᶠ significandPlusOne x) -ᶠ one
  | .cubic =>
    let e := exponentOf x
    let s := significandPlusOne x -ᶠ one
    (((cA *ᶠ s +ᶠ cB) *ᶠ s +ᶠ cC) *ᶠ s) +ᶠ e

/-- `buildFloat64` as the callers reach it: a significand that rounding took out of `[1,2)` — up to
    exactly 2 (`1 + (1 - 2^-53)`) or just below 1 — is normalised before its bits are used -/
def buildFloatN (e : Int) (s : F) : F :=
  if le two s then buildFloat (e + 1) (s /ᶠ two)
  else if lt s one then buildFloat e one
  else buildFloat e s

/-- `approximateInverseLog` -/
def approxInvLog (p : Params F) (x : F) : F :=
  match p.kind with
  | .log => exp x
  | .linear =>
    let exponent := floor x
    let sp1 := (x -ᶠ exponent) +ᶠ one
    buildFloatN (trunc exponent) sp1
  | .cubic =>
    let exponent := floor x
    -- `d0`, the constant part of `d1`, `27*A*A` and `3*A` are Go constant expressions: evaluated
    -- exactly at compile time and rounded once
    let d0 : F := ofRat (Consts.cubicB * Consts.cubicB - 3 * Consts.cubicA * Consts.cubicC)
    let k1 : F := ofRat (2 * Consts.cubicB * Consts.cubicB * Consts.cubicB - 9 * Consts.cubicA * Consts.cubicB * Consts.cubicC)
    let k2 : F := ofRat (27 * Consts.cubicA * Consts.cubicA)
    let d1 : F := k1 -ᶠ k2 *ᶠ (x -ᶠ exponent)
    let pp : F := cbrt ((d1 -ᶠ sqrt (d1 *ᶠ d1 -ᶠ ((ofInt 4 *ᶠ d0) *ᶠ d0) *ᶠ d0)) /ᶠ two)
    let sp1 : F := neg (((cB +ᶠ pp) +ᶠ d0 /ᶠ pp) /ᶠ ofRat (3 * Consts.cubicA)) +ᶠ one
    buildFloatN (trunc exponent) sp1

/-- the hand-written floor of `Index`: `int(x)` for `x ≥ 0`, `int(x) - 1` otherwise -/
def goFloor (x : F) : Int := if le (ofInt 0) x then trunc x else trunc x - 1

/-- `Index(value)` -/
def index (p : Params F) (v : F) : Int := goFloor (approxLog p v *ᶠ multiplier p +ᶠ p.indexOffset)

/-- `LowerBound(index)` -/
def lowerBound (p : Params F) (i : Int) : F := approxInvLog p ((ofInt i -ᶠ p.indexOffset) /ᶠ multiplier p)

/-- `RelativeAccuracy()` -/
def relativeAccuracy (p : Params F) : F :=
  match p.kind with
  | .log => one -ᶠ two /ᶠ (one +ᶠ p.gamma)
  | .linear => one -ᶠ two /ᶠ (one +ᶠ exp (log2 p.gamma))
  | .cubic => one -ᶠ two /ᶠ (one +ᶠ exp ((ofInt 7 /ᶠ ofInt 10) *ᶠ log2 p.gamma))

/-- `Value(index)` -/
def value (p : Params F) (i : Int) : F := lowerBound p i *ᶠ (one +ᶠ relativeAccuracy p)

def expLike (p : Params F) (x : F) : F :=
  match p.kind with
  | .log => exp x
  | _ => exp2 x

/-- `MinIndexableValue()` -/
def minIndexable (p : Params F) : F :=
  fmax (expLike p (((ofInt (-2147483648) -ᶠ p.indexOffset) /ᶠ multiplier p) +ᶠ one))
       (minNormal *ᶠ adjustedGamma p)

/-- `MaxIndexableValue()` -/
def maxIndexable (p : Params F) : F :=
  let g := adjustedGamma p
  fmin (expLike p (((ofInt 2147483647 -ᶠ p.indexOffset) /ᶠ multiplier p) -ᶠ one))
       ((exp expOverflow /ᶠ (two *ᶠ g)) *ᶠ (g +ᶠ one))

end Mapping
end DDS
