/-
  DDS.Model.GoIface — the two Go interfaces the sketch is written against (`mapping.IndexMapping`,
  `store.Store`), as classes of method signatures.  The REGENERATED sketch code
  (`DDS/Generated/CodeSketch.lean`) is generic over any `M`, `S` with these instances; the
  equivalence proofs instantiate them with the hand-written model's mapping oracle and stores.
  Hand-written (trusted base): method names, argument order, and which methods change their
  receiver (those return the new receiver, in front of their results).
-/
import DDS.Model.GoSem
import DDS.Generated.CodeEncoding

namespace DDS.GoSem

/-- `mapping.IndexMapping` (the methods the sketch calls) -/
class MapI (M : Type) where
  Equals : M → M → Bool
  Index : M → F64 → Int
  Value : M → Int → F64
  LowerBound : M → Int → F64
  RelativeAccuracy : M → F64
  MinIndexableValue : M → F64
  MaxIndexableValue : M → F64
  /-- `Encode(b *[]byte)`: appends to the caller's buffer (the new buffer is returned) -/
  Encode : M → List (BitVec 8) → List (BitVec 8)
  /-- `m == nil` for the interface value -/
  isNil : M → Bool
  /-- `mapping.Decode(b *[]byte, flag enc.Flag) (IndexMapping, error)`: the new buffer, the mapping, the error -/
  Decode : List (BitVec 8) → DDS.Gen.Encoding.Flag → List (BitVec 8) × M × GoErr

/-- `store.Store` (the methods the sketch calls; mutating methods return the new store) -/
class StoreI (S : Type) where
  Add : S → Int → S
  AddWithCount : S → Int → F64 → S
  Copy : S → S
  Clear : S → S
  IsEmpty : S → Bool
  MaxIndex : S → Int × GoErr
  MinIndex : S → Int × GoErr
  TotalCount : S → F64
  KeyAtRank : S → F64 → Int
  MergeWith : S → S → S
  Reweight : S → F64 → S × GoErr
  /-- `Encode(b *[]byte, t enc.FlagType)`: may reorganise the store (the paginated store compacts); returns the
      store and the new buffer -/
  Encode : S → List (BitVec 8) → DDS.Gen.Encoding.FlagType → S × List (BitVec 8)
  /-- the bins `ForEach` enumerates (index, weight), in the store's order: `x.ForEach(func(i, c) bool {…; return false})`
      is translated as a loop over this list -/
  ForEachList : S → List (Int × F64)
  /-- `DecodeAndMergeWith(b *[]byte, binEncodingMode enc.SubFlag) error`: the store, the new buffer, the error -/
  DecodeAndMergeWith : S → List (BitVec 8) → DDS.Gen.Encoding.SubFlag → S × List (BitVec 8) × GoErr

end DDS.GoSem
