/-
  DDS.Model.GoSem — the small piece of Go semantics that the REGENERATED code
  (`DDS/Generated/Code*.lean`, written by `hx trans` from the Go sources on every run) is
  expressed in.  Hand-written and therefore part of the trusted base; core Lean only.

  * `uint64 / uint / int64` are `BitVec 64` (wrap-around arithmetic, shifts ≥ 64 give 0 — Go's
    semantics), `byte` is `BitVec 8`, `int32` is `BitVec 32`; signedness lives in the operation
    the translator picks (`ult/slt`, `>>>`/`sshiftRight`).  `int` is an unbounded `Int`
    (the translated functions use it for loop counters, lengths and float exponents only;
    overflow of a 64-bit `int` is not modelled).
  * a slice is a `List`; a function that writes through a pointer (`*b = append(*b, …)`, a
    pointer receiver) returns the new value; aliasing is not modelled.
  * an out-of-range index or slice bound is `panic`; every loop runs on `fuel`
    (structural recursion), running out of it is the distinguished outcome `nofuel` — the
    equivalence theorems state which fuel suffices, so termination is proved, not assumed.
-/
import DDS.Model.Num

namespace DDS.GoSem

/-- Go `error` values that the translated code can produce or compare against -/
inductive GoErr where
  | nil
  | eof
  | named (s : String)
deriving DecidableEq, Repr, Inhabited

/-- outcome of a translated function that can panic or contains a loop -/
inductive Res (α : Type) where
  | ok (a : α)
  | panic
  | nofuel
deriving Repr

instance {α} [DecidableEq α] : DecidableEq (Res α) := by
  intro a b
  cases a <;> cases b <;> simp <;> exact inferInstance

/-- outcome of one translated `for` loop: fell out of the loop with state `σ` (condition false or
    `break`), or executed a `return` with the function's results `ρ` -/
inductive Loop (σ ρ : Type) where
  | done (s : σ)
  | ret (r : ρ)
  | panic
  | nofuel
deriving Repr

namespace Res
@[inline] def bind {α β} : Res α → (α → Res β) → Res β
  | .ok a, k => k a
  | .panic, _ => .panic
  | .nofuel, _ => .nofuel
@[inline] def bindL {α σ ρ} : Res α → (α → Loop σ ρ) → Loop σ ρ
  | .ok a, k => k a
  | .panic, _ => .panic
  | .nofuel, _ => .nofuel
@[simp] theorem bind_ok {α β} (a : α) (k : α → Res β) : bind (.ok a) k = k a := rfl
@[simp] theorem bind_panic {α β} (k : α → Res β) : bind .panic k = .panic := rfl
@[simp] theorem bind_nofuel {α β} (k : α → Res β) : bind .nofuel k = .nofuel := rfl
@[simp] theorem bindL_ok {α σ ρ} (a : α) (k : α → Loop σ ρ) : bindL (.ok a) k = k a := rfl
@[simp] theorem bindL_panic {α σ ρ} (k : α → Loop σ ρ) : bindL .panic k = .panic := rfl
@[simp] theorem bindL_nofuel {α σ ρ} (k : α → Loop σ ρ) : bindL .nofuel k = .nofuel := rfl
end Res

/-- an index / slice-bound check inside a `Res` function -/
@[inline] def optR {α β} : Option α → (α → Res β) → Res β
  | some a, k => k a
  | none, _ => .panic
/-- the same inside a loop body -/
@[inline] def optL {α σ ρ} : Option α → (α → Loop σ ρ) → Loop σ ρ
  | some a, k => k a
  | none, _ => .panic
@[simp] theorem optR_some {α β} (a : α) (k : α → Res β) : optR (some a) k = k a := rfl
@[simp] theorem optR_none {α β} (k : α → Res β) : optR none k = .panic := rfl
@[simp] theorem optL_some {α σ ρ} (a : α) (k : α → Loop σ ρ) : optL (some a) k = k a := rfl
@[simp] theorem optL_none {α σ ρ} (k : α → Loop σ ρ) : optL none k = .panic := rfl

namespace Loop
/-- what a function does with a finished loop: continue with the state, or return -/
@[inline] def elim {σ ρ} : Loop σ ρ → (σ → Res ρ) → Res ρ
  | .done s, k => k s
  | .ret r, _ => .ok r
  | .panic, _ => .panic
  | .nofuel, _ => .nofuel
/-- a loop nested in a loop -/
@[inline] def elimL {σ σ' ρ} : Loop σ ρ → (σ → Loop σ' ρ) → Loop σ' ρ
  | .done s, k => k s
  | .ret r, _ => .ret r
  | .panic, _ => .panic
  | .nofuel, _ => .nofuel
@[simp] theorem elim_done {σ ρ} (s : σ) (k : σ → Res ρ) : elim (.done s) k = k s := rfl
@[simp] theorem elim_ret {σ ρ} (r : ρ) (k : σ → Res ρ) : elim (.ret r) k = .ok r := rfl
@[simp] theorem elim_panic {σ ρ} (k : σ → Res ρ) : elim (.panic : Loop σ ρ) k = .panic := rfl
@[simp] theorem elim_nofuel {σ ρ} (k : σ → Res ρ) : elim (.nofuel : Loop σ ρ) k = .nofuel := rfl
end Loop

/-- fuel for package-level initialisers (`var t = initTable()`) -/
def initFuel : Nat := 200

/-! ### slices -/

/-- `x[i]` -/
def idx {α} (l : List α) (i : Int) : Option α := if i < 0 then none else l[i.toNat]?
/-- `x[i] = v` -/
def set {α} (l : List α) (i : Int) (v : α) : Option (List α) :=
  if i < 0 ∨ (l.length : Int) ≤ i then none else some (l.set i.toNat v)
/-- `x[lo:]` (on a slice whose capacity equals its length: bounds are checked against `len`) -/
def sliceFrom {α} (l : List α) (lo : Int) : Option (List α) :=
  if lo < 0 ∨ (l.length : Int) < lo then none else some (l.drop lo.toNat)
/-- `x[:hi]` — only for `hi ≤ len(x)`; re-slicing into spare capacity is not translated -/
def sliceTo {α} (l : List α) (hi : Int) : Option (List α) :=
  if hi < 0 ∨ (l.length : Int) < hi then none else some (l.take hi.toNat)
def len {α} (l : List α) : Int := (l.length : Int)
/-- `x[lo:hi]` (bounds are checked against `len`, as for `sliceTo`) -/
def slice {α} (l : List α) (lo hi : Int) : Option (List α) :=
  if lo < 0 ∨ hi < lo ∨ (l.length : Int) < hi then none else some ((l.take hi.toNat).drop lo.toNat)
/-- `make([]T, n)` with a computed length: a negative length panics -/
def mkSlice {α} (n : Int) (z : α) : Option (List α) :=
  if n < 0 then none else some (List.replicate n.toNat z)
/-- `copy(dst, src)` between two different slices: the first `min(len dst, len src)` elements of `dst`
    are overwritten -/
def copySlice {α} (dst src : List α) : List α := src.take dst.length ++ dst.drop src.length
/-- `copy(x[dlo:], x[slo:shi])` inside one slice (a memmove: the source is read before it is overwritten);
    `n = min(len(x) - dlo, shi - slo)` elements move -/
def copyWithin {α} (l : List α) (dlo slo shi : Int) : Option (List α) :=
  if dlo < 0 ∨ (l.length : Int) < dlo ∨ slo < 0 ∨ shi < slo ∨ (l.length : Int) < shi then none
  else
    let n := min (l.length - dlo.toNat) (shi.toNat - slo.toNat)
    some (l.take dlo.toNat ++ (l.drop slo.toNat).take n ++ l.drop (dlo.toNat + n))

/-! ### `int` shifts and masks (the paginated store's page arithmetic)

`int` is the unbounded `Int`; a negative shift count (a Go panic) is not modelled (`toNat` makes it 0). -/

/-- `i >> k` on `int`: the arithmetic shift, i.e. floor division by `2^k` -/
def shrInt (i k : Int) : Int := i / (2 ^ k.toNat)
/-- `i & m` on `int`: bitwise and of the (infinite) two's-complement representations; `-(n+1)` is `~n`, and
    `a & ~b = a - (a & b)` on naturals.  E.g. `andInt i (2^k - 1) = i % 2^k`, `andInt x (-(2^k)) = x / 2^k * 2^k`. -/
def andInt : Int → Int → Int
  | .ofNat a, .ofNat b => ((a &&& b : Nat) : Int)
  | .ofNat a, .negSucc b => ((a - (a &&& b) : Nat) : Int)
  | .negSucc a, .ofNat b => ((b - (b &&& a) : Nat) : Int)
  | .negSucc a, .negSucc b => .negSucc (a ||| b)
/-- `sort.Ints(xs)`: ascending (a stable merge sort; equal ints are indistinguishable) -/
def sortInts (xs : List Int) : List Int := xs.mergeSort (fun a b => decide (a ≤ b))

/-- `binary.LittleEndian.PutUint64` as a list of 8 bytes -/
def le64 (v : BitVec 64) : List (BitVec 8) :=
  (List.range 8).map (fun i => (v >>> (8 * i)).setWidth 8)
/-- `binary.LittleEndian.PutUint64(x[lo:], v)` writing through the alias into `x` -/
def putU64At (l : List (BitVec 8)) (lo : Int) (v : BitVec 64) : Option (List (BitVec 8)) :=
  if lo < 0 ∨ (l.length : Int) < lo + 8 then none
  else some (l.take lo.toNat ++ le64 v ++ l.drop (lo.toNat + 8))
/-- `binary.LittleEndian.Uint64(x)` (panics when `len(x) < 8`) -/
def leU64 (l : List (BitVec 8)) : Option (BitVec 64) :=
  if l.length < 8 then none
  else some ((List.range 8).foldl (fun acc i => acc ||| ((l.getD i 0).setWidth 64 <<< (8 * i))) 0#64)

/-! ### maps with `int` keys

A Go `map[int]V` is a list of (key, value) pairs kept sorted by strictly increasing key (so that two maps with
the same entries are the same value).  Go leaves the iteration order of `range` unspecified: every translated
function that ranges over a map takes an oracle `ord : MapOrder` that picks the order; theorems about such
functions quantify over every lawful oracle (`MapOrder.Lawful`: the order is a permutation of the keys).
The loop iterates over a snapshot of the entries taken when it starts; the translator rejects loops that touch
the ranged map at another key than the current one. -/

abbrev GoMap (V : Type) := List (Int × V)

/-- `m[k]` (the zero value `z` for a missing key) -/
def mget {V} (m : GoMap V) (k : Int) (z : V) : V := ((m.find? (fun p => p.1 == k)).map Prod.snd).getD z
/-- `m[k] = v` -/
def mset {V} : GoMap V → Int → V → GoMap V
  | [], k, v => [(k, v)]
  | (k', v') :: rest, k, v =>
    if k < k' then (k, v) :: (k', v') :: rest
    else if k = k' then (k, v) :: rest
    else (k', v') :: mset rest k v
/-- `delete(m, k)` -/
def mdelete {V} (m : GoMap V) (k : Int) : GoMap V := m.filter (fun p => p.1 != k)

/-- the iteration order of `range` over a map: any permutation of its keys -/
structure MapOrder where
  perm : List Int → List Int
def MapOrder.Lawful (o : MapOrder) : Prop := ∀ l : List Int, (o.perm l).Perm l
/-- ascending keys: one lawful order -/
def MapOrder.ascending : MapOrder := ⟨id⟩
/-- `for k, v := range m`: the entries in the order the oracle picks -/
def mrange {V} (o : MapOrder) (m : GoMap V) : List (Int × V) :=
  (o.perm (m.map Prod.fst)).filterMap (fun k => (m.find? (fun p => p.1 == k)).map (fun p => (k, p.2)))

/-- `sort.Slice(xs, func(i, j) bool { return xs[i].f < xs[j].f })` for an `int` field `f`: ascending in `f`
    (a stable merge sort; `sort.Slice` leaves the order of elements with equal keys unspecified) -/
def sortOn {α} (f : α → Int) (xs : List α) : List α := xs.mergeSort (fun a b => decide (f a ≤ f b))

/-! ### math/bits -/

def rotateLeft64 (x : BitVec 64) (k : Int) : BitVec 64 := x.rotateLeft (k % 64).toNat
def leadingZeros64 (x : BitVec 64) : Int := (x.clz.toNat : Int)
/-- number of trailing zero bits; 64 for 0 -/
def trailingZeros64 (x : BitVec 64) : Int :=
  (((List.range 64).find? (fun i => x.getLsbD i)).getD 64 : Nat)

/-! ### float64 ⇄ bits, on the exact model `F64` -/

def float64bits (x : F64) : BitVec 64 := (F64.toBits x).toBitVec
def float64frombits (b : BitVec 64) : F64 := F64.ofBits (UInt64.ofBitVec b)
def isInf (x : F64) (sign : Int) : Bool :=
  (decide (sign ≥ 0) && x == .pinf) || (decide (sign ≤ 0) && x == .ninf)
def inf (sign : Int) : F64 := if sign ≥ 0 then .pinf else .ninf
def fabs : F64 → F64
  | .fin q => .fin (if q < 0 then -q else q)
  | .ninf => .pinf
  | o => o
/-- `math.Max` (NaN if either is NaN; the sign of zero is not modelled) -/
def fmax (a b : F64) : F64 :=
  if a.isNaN || b.isNaN then .nan else if F64.lt a b then b else a
def fmin (a b : F64) : F64 :=
  if a.isNaN || b.isNaN then .nan else if F64.lt b a then b else a

/-- a weight produced by float64 code of another package (the codecs) entering a unit whose bin weights are exact
    rationals: NaN and the infinities are outside the exact envelope (DESIGN §3 (E)) and are treated as a panic -/
def ratOfF64 : F64 → Option Rat
  | .fin q => some q
  | _ => none

/-- `math.Ceil` -/
def fceil (x : F64) : F64 := F64.neg (F64.floor (F64.neg x))

/-- the order `sort.Float64s` sorts by: `x < y || (isNaN(x) && !isNaN(y))` (NaNs first) -/
def float64Less (x y : F64) : Bool := F64.lt x y || (x.isNaN && !y.isNaN)
/-- `sort.Float64s(xs)`: ascending; the result is specified only up to the order of equal elements, which
    for floats (sign of zero not modelled) are indistinguishable, so a stable merge sort is one valid reading -/
def sortFloat64s (xs : List F64) : List F64 := xs.mergeSort (fun a b => !float64Less b a)

end DDS.GoSem
