/-
  DDS.Model.GoPb — the data fields of the generated protobuf messages
  (`github.com/DataDog/sketches-go/ddsketch/pb/sketchpb`: `Store`, `IndexMapping`, `DDSketch`), mirrored by hand
  for the REGENERATED protobuf conversions (`DDS/Generated/Code*Proto.lean`).  Hand-written and therefore part of
  the trusted base; core Lean only.  The internal fields of the Go structs (`state`, `sizeCache`, `unknownFields`)
  are not data and are left out; field names and order are those of `ddsketch.pb.go`.

  * the float type is a parameter: `Rat` inside the exact-weight store units, `F64` at the sketch level, the
    generic `F` of `MOps` in the mapping formulas;
  * `map[int32]float64` is a `GoSem.GoMap` (association list sorted by key, keys as `Int`): the key of an entry is
    the value of the `int32`, i.e. `BitVec.toInt k` for `k : BitVec 32`; the translator writes
    `binCounts[int32(index)] = c` as `mset binCounts (BitVec.toInt (BitVec.ofInt 32 index)) c` (Go's wrapping
    conversion, explicit) and binds the key of `for idx, c := range m` as `BitVec.ofInt 32 key`.  `Store.WF`
    states that every key is an `int32` value;
  * `int32` fields are `BitVec 32`; the enum `IndexMapping_Interpolation` is an `int32` in Go (values outside the
    declared ones are representable and reach the `default:` branches), hence `BitVec 32` with named constants;
  * a sub-message field (`*IndexMapping`, `*Store`) is an `Option`: `none` is the nil pointer of an absent
    sub-message.
-/
import DDS.Model.GoSem

namespace DDS.GoPb
open DDS.GoSem

/-- `sketchpb.Store` -/
structure Store (F : Type) where
  /-- `map[int32]float64` (field 1): bins given sparsely -/
  BinCounts : GoMap F
  /-- `[]float64` (field 2): bins given contiguously, the first one at index `ContiguousBinIndexOffset` -/
  ContiguousBinCounts : List F
  /-- `int32` (field 3) -/
  ContiguousBinIndexOffset : BitVec 32
deriving Repr, Inhabited

instance {F} [DecidableEq F] : DecidableEq (Store F) := by
  intro a b
  cases a; cases b
  simp only [Store.mk.injEq]
  exact inferInstance

/-- every key of `BinCounts` is the value of an `int32`, and the keys are strictly increasing (the normal form
    `GoSem.mset` maintains) -/
def Store.WF {F} (s : Store F) : Prop :=
  (∀ p ∈ s.BinCounts, -(2 : Int) ^ 31 ≤ p.1 ∧ p.1 < (2 : Int) ^ 31) ∧
  List.Pairwise (fun a b => a < b) (s.BinCounts.map Prod.fst)

/-- `sketchpb.IndexMapping_Interpolation` (an `int32`) -/
abbrev IndexMapping_Interpolation := BitVec 32
def IndexMapping_NONE : IndexMapping_Interpolation := 0#32
def IndexMapping_LINEAR : IndexMapping_Interpolation := 1#32
def IndexMapping_QUADRATIC : IndexMapping_Interpolation := 2#32
def IndexMapping_CUBIC : IndexMapping_Interpolation := 3#32

/-- `sketchpb.IndexMapping` -/
structure IndexMapping (F : Type) where
  Gamma : F
  IndexOffset : F
  Interpolation : IndexMapping_Interpolation
deriving Repr, Inhabited

instance {F} [DecidableEq F] : DecidableEq (IndexMapping F) := by
  intro a b
  cases a; cases b
  simp only [IndexMapping.mk.injEq]
  exact inferInstance

/-- `sketchpb.DDSketch`; the three sub-messages are pointers (`none` = nil = absent) -/
structure DDSketch (F : Type) where
  Mapping : Option (IndexMapping F)
  PositiveValues : Option (Store F)
  NegativeValues : Option (Store F)
  ZeroCount : F
deriving Repr, Inhabited

instance {F} [DecidableEq F] : DecidableEq (DDSketch F) := by
  intro a b
  cases a; cases b
  simp only [DDSketch.mk.injEq]
  exact inferInstance

/-- the protobuf side of `store.Store` (the methods the sketch-level conversions call): a second class next to
    `StoreI`, so that the existing instances of `StoreI` are untouched -/
class StorePbI (S : Type) where
  /-- `ToProto() *sketchpb.Store` (never nil).  Read-only at the level of the interface: the paginated store sorts its
      insertion buffer while it enumerates its bins, which no method of `Store` can observe; the regenerated
      `BufferedPaginatedStore.ToProto` itself does return the reorganised store, an instance drops it -/
  ToProto : S → Store F64

/-- the protobuf side of `mapping.IndexMapping` -/
class MapPbI (M : Type) where
  /-- `ToProto() *sketchpb.IndexMapping` (never nil) -/
  ToProto : M → IndexMapping F64
  /-- `mapping.FromProto(m *sketchpb.IndexMapping) (IndexMapping, error)`: `none` is the nil pointer (an error); the
      function returns different concrete types, the class method stands for it as `MapI.Decode` does for
      `mapping.Decode` -/
  FromProto : Option (IndexMapping F64) → M × GoErr

end DDS.GoPb
