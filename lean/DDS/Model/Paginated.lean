/-
  DDS.Model.Paginated — CONCRETE stratum: `BufferedPaginatedStore`, transcribed.

  * `buffer` holds indexes added with count 1; `pages[p - minPageIndex]` is either empty or an
    array of `pageLen` counts for the indexes `p*pageLen … p*pageLen + pageLen - 1`.
  * `minPageIndex = maxInt` is the "no page in use" sentinel.  Go's `minPageIndex+len(pages)`
    wraps in that state; the model keeps unbounded `Int` and relies on the invariant
    "sentinel ⇒ every page is empty", under which the guarded loops are no-ops either way.
  * Whether `Add` compacts depends on `cap(buffer)`, i.e. on the Go runtime's growth policy: it is
    an explicit input bit here (`doCompact`), and the theorems quantify over all bit streams.
-/
import DDS.Model.Dense

namespace DDS

def maxInt : Int := 9223372036854775807

structure PStore where
  buffer : List Int
  trigger : Nat
  pages : Array (Array Rat)
  minPageIndex : Int
  pageLenLog2 : Nat
deriving Repr, Inhabited

namespace PStore

def pageLen (s : PStore) : Nat := 2 ^ s.pageLenLog2

def new : PStore :=
  { buffer := [], trigger := 2 * 2 ^ Consts.defaultPageLenLog2, pages := #[], minPageIndex := maxInt,
    pageLenLog2 := Consts.defaultPageLenLog2 }

/-- `index >> pageLenLog2` (arithmetic shift = floor division) -/
def pageIndex (s : PStore) (i : Int) : Int := i / (s.pageLen : Int)
/-- `index & pageLenMask` -/
def lineIndex (s : PStore) (i : Int) : Nat := (i % (s.pageLen : Int)).toNat
/-- `pageIndex<<pageLenLog2 + lineIndex` -/
def index (s : PStore) (p : Int) (l : Nat) : Int := p * (s.pageLen : Int) + l

/-- `(required + inc - 1) & -inc` with `inc = 64*8/ptrSize = 8` -/
def newPagesLen (required : Int) : Int := ((required + 7) / 8) * 8

def zeroPage (s : PStore) : Array Rat := Array.replicate s.pageLen 0

/-- slot of page `p` in `pages` when it lies inside the allocated range -/
def slot? (s : PStore) (p : Int) : Option Nat :=
  if p ≥ s.minPageIndex ∧ p < s.minPageIndex + (s.pages.size : Int) then some (p - s.minPageIndex).toNat
  else none

/-- make sure the slot holds a real page -/
def materialize (s : PStore) (k : Nat) : PStore :=
  if (s.pages.getD k #[]).size = 0 then { s with pages := s.pages.setIfInBounds k s.zeroPage } else s

/-- `page(pageIndex, ensureExists)`: returns the new store and the slot of a non-empty page, if any.
    `none` (outer) = Go panic. -/
def page (s : PStore) (p : Int) (ensureExists : Bool) : Option (PStore × Option Nat) :=
  match s.slot? p with
  | some k =>
    let s := if ensureExists then s.materialize k else s
    some (s, if (s.pages.getD k #[]).size = 0 then none else some k)
  | none =>
    if !ensureExists then some (s, none)
    else
      let s? : Option PStore :=
        if p < s.minPageIndex then
          if s.minPageIndex = maxInt then
            let s := if s.pages.size = 0 then { s with pages := Array.replicate (newPagesLen 1).toNat #[] } else s
            some { s with minPageIndex := p - Int.tdiv (s.pages.size : Int) 2 }
          else
            let newLen := newPagesLen (s.minPageIndex - p + 1 + (s.pages.size : Int))
            let addedLen := newLen - (s.pages.size : Int)
            if addedLen < 0 then none
            else some { s with pages := Array.replicate addedLen.toNat #[] ++ s.pages,
                               minPageIndex := s.minPageIndex - addedLen }
        else
          let added := newPagesLen (p - s.minPageIndex + 1) - (s.pages.size : Int)
          if added < 0 then none else some { s with pages := s.pages ++ Array.replicate added.toNat #[] }
      match s? with
      | none => none
      | some s =>
        let k := p - s.minPageIndex
        if 0 ≤ k ∧ k < (s.pages.size : Int) then
          let s := s.materialize k.toNat
          some (s, some k.toNat)
        else none

/-- `pages[k][line] += c` -/
def addAtPage (s : PStore) (k : Nat) (line : Nat) (c : Rat) : Option PStore :=
  let pg := s.pages.getD k #[]
  if k < s.pages.size ∧ line < pg.size then
    some { s with pages := s.pages.setIfInBounds k (pg.setIfInBounds line (pg.getD line 0 + c)) }
  else none

def sortInts (l : List Int) : List Int := l.mergeSort (fun a b => a ≤ b)

/-- split off the maximal prefix of entries on page `p` -/
def spanPage (s : PStore) (p : Int) : List Int → List Int × List Int
  | [] => ([], [])
  | x :: xs => if s.pageIndex x = p then
      let (a, b) := spanPage s p xs
      (x :: a, b)
    else ([], x :: xs)

theorem spanPage_length (s : PStore) (p : Int) (l : List Int) : (spanPage s p l).2.length ≤ l.length := by
  induction l with
  | nil => simp [spanPage]
  | cons x xs ih =>
    unfold spanPage
    split
    · simp only []; exact Nat.le_succ_of_le ih
    · simp

/-- the loop of `compact` over the sorted buffer; returns the store and the entries that stay buffered -/
def compactLoop (s : PStore) : (fuel : Nat) → List Int → List Int → Option (PStore × List Int)
  | 0, _, kept => some (s, kept.reverse)
  | _, [], kept => some (s, kept.reverse)
  | fuel + 1, x :: xs, kept =>
    let p := s.pageIndex x
    let (grp, rest) := spanPage s p (x :: xs)
    let ensureExists := decide (grp.length * 64 ≥ s.pageLen * 64)
    match s.page p ensureExists with
    | none => none
    | some (s', some k) =>
      match grp.foldlM (fun acc i => addAtPage acc k (acc.lineIndex i) 1) s' with
      | none => none
      | some s'' => compactLoop s'' fuel rest kept
    | some (s', none) => compactLoop s' fuel rest (grp.reverse ++ kept)

/-- `compact()` -/
def compact (s : PStore) : Option PStore := do
  let sorted := sortInts s.buffer
  let (s', kept) ← compactLoop s (sorted.length + 1) sorted []
  pure { s' with buffer := kept, trigger := kept.length + s'.pageLen }

/-- `Add(index)`; `doCompact` answers `len(buffer) == cap(buffer)` -/
def addUnit (s : PStore) (i : Int) (doCompact : Bool) : Option PStore :=
  let direct : Option Nat :=
    match s.slot? (s.pageIndex i) with
    | some k => if (s.pages.getD k #[]).size > 0 then some k else none
    | none => none
  match direct with
  | some k => addAtPage s k (s.lineIndex i) 1
  | none => do
    let s ← if doCompact ∧ s.buffer.length ≥ s.trigger then s.compact else pure s
    pure { s with buffer := s.buffer ++ [i] }

/-- `AddWithCount` -/
def addWithCount (s : PStore) (i : Int) (c : Rat) (doCompact : Bool := true) : Option PStore :=
  if c = 0 then some s
  else if c = 1 then s.addUnit i doCompact
  else do
    let (s, k?) ← s.page (s.pageIndex i) true
    let k ← k?
    addAtPage s k (s.lineIndex i) c

/-- all `(index, count)` page lines in increasing index order (zero counts included) -/
def pageLines (s : PStore) : List (Int × Rat) :=
  (s.pages.toList.zipIdx).flatMap fun (pg, off) =>
    (pg.toList.zipIdx).map fun (c, l) => (s.index (s.minPageIndex + (off : Int)) l, c)

def isEmpty (s : PStore) : Bool :=
  s.buffer.isEmpty && s.pages.all (fun pg => pg.all (fun c => !(c > 0)))

def totalCount (s : PStore) : Rat :=
  s.pages.foldl (fun acc pg => pg.foldl (· + ·) acc) (s.buffer.length : Rat)

def listMin? : List Int → Option Int
  | [] => none
  | x :: xs => some (xs.foldl min x)

def listMax? : List Int → Option Int
  | [] => none
  | x :: xs => some (xs.foldl max x)

/-- `MinIndex()`: buffer minimum, then the page scan with its early exits -/
def minIndex? (s : PStore) : Option Int :=
  let bmin := listMin? s.buffer
  let rec scan (offs : List Nat) : Option Int :=
    match offs with
    | [] => bmin
    | off :: rest =>
      let p := s.minPageIndex + (off : Int)
      let cont := match bmin with
        | none => true
        | some m => decide (p ≤ s.pageIndex m)
      if !cont then bmin
      else
        let pg := s.pages.getD off #[]
        if pg.size = 0 then scan rest
        else
          let lineEnd : Nat := match bmin with
            | some m => if p = s.pageIndex m then s.lineIndex m else s.pageLen
            | none => s.pageLen
          match (List.range lineEnd).find? (fun l => pg.getD l 0 > 0) with
          | some l => some (s.index p l)
          | none => scan rest
  scan (List.range s.pages.size)

/-- `MaxIndex()` -/
def maxIndex? (s : PStore) : Option Int :=
  let bmax := listMax? s.buffer
  let rec scan (offs : List Nat) : Option Int :=
    match offs with
    | [] => bmax
    | off :: rest =>
      let p := s.minPageIndex + (off : Int)
      let cont := match bmax with
        | none => true
        | some m => decide (p ≥ s.pageIndex m)
      if !cont then bmax
      else
        let pg := s.pages.getD off #[]
        if pg.size = 0 then scan rest
        else
          let lineStart : Nat := match bmax with
            | some m => if p = s.pageIndex m then s.lineIndex m else 0
            | none => 0
          match ((List.range pg.size).reverse.filter (fun l => l ≥ lineStart)).find? (fun l => pg.getD l 0 > 0) with
          | some l => some (s.index p l)
          | none => scan rest
  scan (List.range s.pages.size).reverse

/-- `minIndexWithCumulCount(cumul > rank)` over the page lines and the sorted buffer -/
def firstExceeding (lines : List (Int × Rat)) (buf : List Int) (acc rank : Rat) : Option Int :=
  match lines with
  | [] =>
    let rec rest (b : List Int) (acc : Rat) : Option Int :=
      match b with
      | [] => none
      | x :: xs => if acc + 1 > rank then some x else rest xs (acc + 1)
    rest buf acc
  | (idx, c) :: more =>
    let rec drain (b : List Int) (acc : Rat) (fuel : Nat) : (Option Int) × List Int × Rat :=
      match fuel, b with
      | 0, _ => (none, b, acc)
      | _, [] => (none, [], acc)
      | f + 1, x :: xs =>
        if x < idx then (if acc + 1 > rank then (some x, xs, acc + 1) else drain xs (acc + 1) f)
        else (none, x :: xs, acc)
    match drain buf acc buf.length with
    | (some k, _, _) => some k
    | (none, buf', acc') =>
      if acc' + c > rank then some idx else firstExceeding more buf' (acc' + c) rank

/-- `KeyAtRank` -/
def keyAtRank (s : PStore) (rank : Rat) : Int :=
  let rank := if rank < 0 then 0 else rank
  match firstExceeding s.pageLines (sortInts s.buffer) 0 rank with
  | some k => k
  | none => (s.maxIndex?).getD 0

/-- group equal consecutive entries of a sorted list -/
def runs : List Int → List (Int × Nat)
  | [] => []
  | x :: xs =>
    match runs xs with
    | (y, n) :: more => if x = y then (y, n + 1) :: more else (x, 1) :: (y, n) :: more
    | [] => [(x, 1)]

/-- `ForEach` / `Bins()`: merge of non-zero page lines with the runs of the sorted buffer -/
def mergeIter : List (Int × Rat) → List (Int × Nat) → List (Int × Rat)
  | [], rs => rs.map (fun r => (r.1, (r.2 : Rat)))
  | (idx, c) :: more, rs =>
    if c = 0 then mergeIter more rs
    else
      let before := rs.takeWhile (fun r => r.1 < idx)
      let after := rs.dropWhile (fun r => r.1 < idx)
      match after with
      | (y, n) :: after' =>
        if y = idx then before.map (fun r => (r.1, (r.2 : Rat))) ++ (idx, c + (n : Rat)) :: mergeIter more after'
        else before.map (fun r => (r.1, (r.2 : Rat))) ++ (idx, c) :: mergeIter more after
      | [] => before.map (fun r => (r.1, (r.2 : Rat))) ++ (idx, c) :: mergeIter more []

def binsList (s : PStore) : List (Int × Rat) :=
  mergeIter s.pageLines (runs (sortInts s.buffer))

/-- fallback merge: `other.ForEach(s.AddWithCount)` -/
def mergeBins (s : PStore) (l : List (Int × Rat)) : Option PStore :=
  l.foldlM (fun acc p => acc.addWithCount p.1 p.2) s

/-- same-kind fast path of `MergeWith` -/
def mergeSame (s o : PStore) : Option PStore := do
  let s ← (o.pages.toList.zipIdx).foldlM (fun (acc : PStore) (pgoff : Array Rat × Nat) => do
      let (pg, off) := pgoff
      if pg.size = 0 then pure acc
      else
        let (acc, k?) ← acc.page (o.minPageIndex + (off : Int)) true
        let k ← k?
        (pg.toList.zipIdx).foldlM (fun (a : PStore) (cl : Rat × Nat) => addAtPage a k cl.2 cl.1) acc) s
  o.buffer.foldlM (fun acc i => acc.addUnit i true) s

def clear (s : PStore) : PStore :=
  { s with buffer := [], pages := s.pages.map (fun _ => #[]), minPageIndex := maxInt }

/-- `Reweight` for `w > 0`, `w ≠ 1` -/
def reweight (s : PStore) (w : Rat) : Option PStore :=
  let buf := s.buffer
  let s := { s with buffer := [], pages := s.pages.map (fun pg => pg.map (· * w)) }
  buf.foldlM (fun acc i => acc.addWithCount i w) s

/-- abstraction -/
def abs (s : PStore) : Content :=
  let c : Content := s.pageLines.foldl (fun (acc : Content) p => Content.add acc p.1 p.2) []
  s.buffer.foldl (fun (acc : Content) i => Content.add acc i 1) c

end PStore
end DDS
