/- DDS.Driver.SketchOps — sketch-level lines (C01 C02 C06 C07 C08 C10 C11 C12 C13 C14 C15 C16). -/
import DDS.Model.Sketch
import DDS.Model.ChangeMapping
import DDS.Model.Proto
import DDS.Driver.Util
import Std.Data.HashMap

namespace DDS.Driver.SketchOps
open DDS DDS.Driver.Util

structure MapEntry where
  id : MapId
  minV : F64
  maxV : F64
  ra : F64
  values : Std.HashMap Int F64 := {}
  lbs : Std.HashMap Int F64 := {}
  idxs : Std.HashMap Nat Int := {}   -- keyed by the bit pattern of the argument

def MapEntry.env (m : MapEntry) : MapEnv :=
  { id := m.id, minIndexable := m.minV, maxIndexable := m.maxV, relAcc := m.ra,
    value := fun k => m.values.getD k .nan,
    lowerBound := fun k => m.lbs.getD k .nan,
    index := fun v => m.idxs.getD v.toBits.toNat 0 }

inductive Sk where
  | plain (s : Sketch)
  | exact (x : XSketch)
deriving Inhabited

structure Entry where
  sk : Sk
  map : Option Nat      -- handle of the mapping oracle
  poisoned : Bool := false
  /-- poisoned by a refused decode (state unspecified, not corrupt): `clear` brings it back -/
  dirty : Bool := false
deriving Inhabited

structure Tbl where
  maps : List (Nat × MapEntry) := []
  sks : List (Nat × Entry) := []

def isSketchCmd (c : String) : Bool :=
  c ∈ ["M", "mv", "ml", "mi", "K", "add", "q", "qs", "obs", "merge", "copy", "clear", "rew", "encchk", "dec", "decm", "same", "chmap", "pbchk", "frompb", "fe", "xpanic", "pbeq"]

def parseMKind : String → Option MKind
  | "log" => some .log
  | "linear" => some .linear
  | "cubic" => some .cubic
  | _ => none

def parseStoreKind : List String → Option (StoreKind × List String)
  | "dense" :: r => some (.dense, r)
  | "sparse" :: r => some (.sparse, r)
  | "pag" :: r => some (.pag, r)
  | "low" :: n :: r => (parseNat n).map (fun n => (.low n, r))
  | "high" :: n :: r => (parseNat n).map (fun n => (.high n, r))
  | _ => none

def showRes (r : Except SkErr F64) : String :=
  match r with
  | .ok v => v.toStr
  | .error e => "err:" ++ e.name

def inner : Sk → Sketch
  | .plain s => s
  | .exact x => x.sk

def dummyEnv : MapEnv :=
  { id := { kind := .log, gamma := .fin 2, indexOffset := .fin 0 }, minIndexable := .fin 0, maxIndexable := .pinf,
    relAcc := .fin 0, value := fun _ => .nan, lowerBound := fun _ => .nan, index := fun _ => 0 }

def envOf (t : Tbl) (e : Entry) : MapEnv :=
  match e.map.bind (get? t.maps) with
  | some m => m.env
  | none => dummyEnv

/-- insertion sort by value (the iteration order of `ForEach` is unspecified) -/
def sortFE (l : List (F64 × Rat)) : List (F64 × Rat) :=
  l.mergeSort (fun a b => F64.le a.1 b.1)

def showFE (l : List (F64 × Rat)) : String :=
  if l.isEmpty then "-" else ",".intercalate ((sortFE l).map (fun p => s!"{p.1.toStr}:{p.2}"))

def obs (t : Tbl) (e : Entry) (withSum : Bool) : String :=
  let env := envOf t e
  let s := inner e.sk
  match s.forEachList env, s.getSum env with
  | some fe, some sum =>
    let (count, empty, mn, mx, sm) : F64 × Bool × Except SkErr F64 × Except SkErr F64 × F64 :=
      match e.sk with
      | .plain s => (s.getCount, s.isEmpty, s.getMin env, s.getMax env, sum)
      | .exact x => (x.getCount, x.isEmpty, x.getMin, x.getMax, x.getSum)
    let sumS := if withSum then sm.toStr else "skip"
    s!"count={count.toStr} zero={s.zero.toStr} empty={if empty then 1 else 0} min={showRes mn} max={showRes mx} sum={sumS} fe={showFE fe}"
  | _, _ => "panic"

/-- `idx:hexbits,idx:hexbits` (`-` = none) -/
def parseFBins (s : String) : Option (List (Int × F64)) :=
  if s = "-" then some [] else
  (s.splitOn ",").mapM fun item =>
    match item.splitOn ":" with
    | [i, b] => do
      let i ← parseInt i
      let b ← parseF64 b
      pure (i, b)
    | _ => none

/-- compare the model's bins (exact accumulation) with the implementation's (float accumulation):
    same indexes up to slivers, weights within 1e-9 relative; "" = agreement -/
def cmpBins (mine : Content) (go : List (Int × F64)) : String :=
  let total : Rat := mine.total
  let sliver : Rat := (if total < 0 then -total else total) / 1000000000
  let goR : List (Int × Rat) := go.filterMap fun p => match p.2 with
    | .fin q => some (p.1, q)
    | _ => none
  if goR.length != go.length then "non-finite weight" else
  let keys := (mine.map (·.1) ++ goR.map (·.1)).eraseDups
  let bad := keys.filter fun k =>
    let a := mine.lookup k
    let b := (goR.filter (·.1 == k)).foldl (fun acc p => acc + p.2) 0
    let d := if a < b then b - a else a - b
    let m := if a < b then b else a
    !(d ≤ sliver + m / 1000000000)
  if bad.isEmpty then "" else s!"bins {bad.take 3}"

def withSk (t : Tbl) (h : String) (k : Nat → Entry → Tbl × String) : Tbl × String :=
  match parseNat h with
  | none => (t, "bad-op")
  | some h =>
    match get? t.sks h with
    | none => (t, "bad-handle")
    | some e => if e.poisoned then (t, "poisoned") else k h e

def putSk (t : Tbl) (h : Nat) (e : Entry) : Tbl := { t with sks := put t.sks h e }

def poison (t : Tbl) (h : Nat) (e : Entry) : Tbl × String := (putSk t h { e with poisoned := true }, "panic")

/-- apply an operation returning `Option (Except SkErr Sk)` -/
def applyRes (t : Tbl) (h : Nat) (e : Entry) (r : Option (Except SkErr Sk)) : Tbl × String :=
  match r with
  | none => poison t h e
  | some (.error er) => (t, "err:" ++ er.name)
  | some (.ok sk) => (putSk t h { e with sk := sk }, "ok")

def liftP (r : Option (Except SkErr Sketch)) : Option (Except SkErr Sk) := r.map (fun x => x.map Sk.plain)
def liftX (r : Option (Except SkErr XSketch)) : Option (Except SkErr Sk) := r.map (fun x => x.map Sk.exact)

/-- content of a sketch side as the documentation decoder sees it -/
def docSide (l : List (Int × F64)) : String :=
  match Wire.contentOf l with
  | some c => showBins c
  | none => "nonfinite"

/-- check Go's bytes against the model's own state, through the documentation decoder -/
def encChk (e : Entry) (omitMapping : Bool) (bytes : List Nat) : String :=
  match Wire.parseBlocks bytes with
  | .error _ => "DOC-PARSE-ERROR"
  | .ok blocks =>
    let d := Wire.interp blocks
    let s := inner e.sk
    match s.pos.binsList, s.neg.binsList with
    | some p, some n =>
      let okPos := docSide d.pos == showBins p
      let okNeg := docSide d.neg == showBins n
      let okZero := d.zero == s.zero
      let okMap := if omitMapping then d.mappings.isEmpty else
        match s.mapping, d.mappings with
        | some id, [(sub, g, o)] => sub == MapId.subFlag id.kind && g == id.gamma.toBits.toNat && o == id.indexOffset.toBits.toNat
        | _, _ => false
      let okStats := match e.sk with
        | .plain _ => d.count.isEmpty && d.sum.isEmpty && d.min.isEmpty && d.max.isEmpty
        | .exact x =>
          (if F64.ne x.st.count (.fin 0) then d.count == [x.st.count] else d.count.isEmpty) &&
          (if F64.ne x.st.getSum (.fin 0) then d.sum == [x.st.getSum] else d.sum.isEmpty) &&
          (if F64.ne x.st.min .pinf then d.min == [x.st.min] else d.min.isEmpty) &&
          (if F64.ne x.st.max .ninf then d.max == [x.st.max] else d.max.isEmpty)
      -- model-internal: the model's own encoder followed by the model's decoder gives the same content
      let selfOk : Bool :=
        match s.encode omitMapping with
        | none => false
        | some (_, bl) =>
          let d2 := Wire.interp bl
          docSide d2.pos == showBins p && docSide d2.neg == showBins n && d2.zero == s.zero &&
          (match Wire.parseBlocks (Wire.encBlocks bl) with
           | .ok bl' => bl' == bl
           | .error _ => false)
      if okPos && okNeg && okZero && okMap && okStats && selfOk then "ok"
      else s!"DOC-DIFF pos={okPos} neg={okNeg} zero={okZero} map={okMap} stats={okStats} self={selfOk}"
    | _, _ => "panic"

def run (t : Tbl) (cmd : String) (args : List String) : Tbl × String :=
  match cmd, args with
  | "M", [m, kind, g, o, mn, mx, ra] =>
    match parseNat m, parseMKind kind, parseF64 g, parseF64 o, parseF64 mn, parseF64 mx, parseF64 ra with
    | some m, some k, some g, some o, some mn, some mx, some ra =>
      ({ t with maps := put t.maps m { id := { kind := k, gamma := g, indexOffset := o }, minV := mn, maxV := mx, ra := ra } }, "ok")
    | _, _, _, _, _, _, _ => (t, "bad-op")
  | "mv", [m, k, b] =>
    match parseNat m, parseInt k, parseF64 b with
    | some m, some k, some b =>
      match get? t.maps m with
      | some me => ({ t with maps := put t.maps m { me with values := me.values.insert k b } }, "ok")
      | none => (t, "bad-handle")
    | _, _, _ => (t, "bad-op")
  | "ml", [m, k, b] =>
    match parseNat m, parseInt k, parseF64 b with
    | some m, some k, some b =>
      match get? t.maps m with
      | some me => ({ t with maps := put t.maps m { me with lbs := me.lbs.insert k b } }, "ok")
      | none => (t, "bad-handle")
    | _, _, _ => (t, "bad-op")
  | "mi", [m, v, k] =>
    match parseNat m, parseHex64 v, parseInt k with
    | some m, some v, some k =>
      match get? t.maps m with
      | some me => ({ t with maps := put t.maps m { me with idxs := me.idxs.insert v.toNat k } }, "ok")
      | none => (t, "bad-handle")
    | _, _, _ => (t, "bad-op")
  | "K", h :: m :: rest =>
    match parseNat h, parseStoreKind rest with
    | some h, some (k, flags) =>
      let mh := parseNat m
      let mid := (mh.bind (get? t.maps)).map (·.id)
      let sk := if flags.contains "x" then Sk.exact (XSketch.new mid k) else Sk.plain (Sketch.new mid k)
      (putSk t h { sk := sk, map := mh }, "ok")
    | _, _ => (t, "bad-op")
  | "add", [h, v, w, idx] =>
    match parseF64 v, parseF64 w with
    | some v, some w =>
      let idx := (parseInt idx).getD 0
      withSk t h fun h e =>
        let env := envOf t e
        match e.sk with
        | .plain s => applyRes t h e (liftP (s.addWithCount env v w idx))
        | .exact x => applyRes t h e (liftX (x.addWithCount env v w idx))
    | _, _ => (t, "bad-op")
  | "q", [h, q] =>
    match parseF64 q with
    | some q =>
      withSk t h fun _ e =>
        let env := envOf t e
        match e.sk with
        | .plain s => (t, showRes (s.quantile env q))
        | .exact x => (t, showRes (x.quantile env q))
    | none => (t, "bad-op")
  | "qs", h :: qs =>
    match qs.mapM parseF64 with
    | some qs =>
      withSk t h fun _ e =>
        let env := envOf t e
        let r : Except SkErr (List F64) := match e.sk with
          | .plain s => s.quantiles env qs
          | .exact x => (x.sk.quantiles env qs).map (fun l => l.map x.clampTo)
        match r with
        | .ok l => (t, if l.isEmpty then "-" else ",".intercalate (l.map F64.toStr))
        | .error er => (t, "err:" ++ er.name)
    | none => (t, "bad-op")
  | "obs", h :: flags => withSk t h fun _ e => (t, obs t e (!flags.contains "nosum"))
  | "merge", [h, h2] =>
    withSk t h fun h e =>
      match (parseNat h2).bind (get? t.sks) with
      | none => (t, "bad-handle")
      | some o =>
        if o.poisoned then (t, "poisoned") else
        match e.sk, o.sk with
        | .plain s, .plain s2 => applyRes t h e (liftP (s.mergeWith s2))
        | .exact x, .exact x2 =>
          -- a sketch merged into itself: the statistics see their own updates (aliasing)
          if parseNat h2 == some h then applyRes t h e (liftX x.mergeWithSelf)
          else applyRes t h e (liftX (x.mergeWith x2))
        | _, _ => (t, "bad-op")
  | "copy", [h2, h] =>
    match parseNat h2 with
    | none => (t, "bad-op")
    | some h2 => withSk t h fun _ e => (putSk t h2 e, "ok")
  | "clear", [h] =>
    match parseNat h with
    | none => (t, "bad-op")
    | some h =>
      match get? t.sks h with
      | none => (t, "bad-handle")
      | some e =>
        if e.poisoned && !e.dirty then (t, "poisoned") else
        let sk := match e.sk with
          | .plain s => Sk.plain s.clear
          | .exact x => Sk.exact x.clear
        (putSk t h { e with sk := sk, poisoned := false, dirty := false }, "ok")
  | "rew", [h, w] =>
    match parseF64 w with
    | some w =>
      withSk t h fun h e =>
        match e.sk with
        | .plain s => applyRes t h e (liftP (s.reweight w))
        | .exact x => applyRes t h e (liftX (x.reweight w))
    | none => (t, "bad-op")
  | "same", [h1, h2] =>
    withSk t h1 fun _ e1 =>
      match (parseNat h2).bind (get? t.sks) with
      | none => (t, "bad-handle")
      | some e2 =>
        if e2.poisoned then (t, "poisoned") else
        let qs : List F64 := (List.range 9).map (fun (i : Nat) => F64.fin ((i : Rat) / 8))
        let qv (e : Entry) : List String :=
          let env := envOf t e
          qs.map (fun q => match e.sk with
            | .plain s => showRes (s.quantile env q)
            | .exact x => showRes (x.quantile env q))
        if obs t e1 false == obs t e2 false && qv e1 == qv e2 then (t, "same") else (t, "DIFF")
  | "chmap", [h, m2, sc, posS, negS] =>
    match parseNat m2, parseF64 sc with
    | some m2, some sc =>
      withSk t h fun _ e =>
        match get? t.maps m2 with
        | none => (t, "bad-handle")
        | some me2 =>
          let env1 := envOf t e
          let env2 := me2.env
          -- the model's ChangeMapping (identity shortcut included); the bins of the implementation's
          -- result (float accumulation) are compared with tolerance, the rest of the result exactly
          let res : Option (Sketch × Option Summary) := match e.sk with
            | .plain s => (ChangeMapping.changeMapping env1 env2 s sc 100000).map (fun r => (r, none))
            | .exact x => (ChangeMapping.xchangeMapping env1 env2 x sc 100000).map (fun r => (r.sk, some r.st))
          match res, parseFBins posS, parseFBins negS with
          | some (r, st), some gp, some gn =>
            match r.pos.binsList, r.neg.binsList with
            | some mp, some mn =>
              let dp := cmpBins mp gp
              let dn := cmpBins mn gn
              if dp == "" && dn == "" then
                let mapS := match r.mapping with
                  | some m => s!"{MapId.subFlag m.kind}:{m.gamma.toStr}:{m.indexOffset.toStr}"
                  | none => "-"
                let stS := match st with
                  | none => ""
                  | some st =>
                    let x : XSketch := { sk := r, st := st }
                    s!" count={x.getCount.toStr} sum={x.getSum.toStr} min={showRes x.getMin} max={showRes x.getMax}"
                (t, s!"ok map={mapS} zero={r.zero.toStr}{stS}")
              else (t, s!"MODEL-DIFF pos[{dp}] neg[{dn}]")
            | _, _ => (t, "panic")
          | none, some _, some _ => (t, "MODEL-DIFF non-finite")
          | _, _, _ => (t, "bad-op")
    | _, _ => (t, "bad-op")
  | "pbchk", [h, marshalled, streamed] =>
    -- the message built in memory (marshalled by the protobuf library) and the bytes of the streaming
    -- writer must both parse to the model's own ToProto() of the sketch
    match parseBytes marshalled, parseBytes streamed with
    | some mb, some sb =>
      withSk t h fun _ e =>
        let s := inner e.sk
        match Proto.toProto s, Proto.streamBytes s with
        | some mine, some myStream =>
          let want := Proto.norm mine
          let r1 := match Proto.pbParse mb with
            | .ok m => decide (Proto.norm m = want)
            | .error _ => false
          let r2 := match Proto.pbParse sb with
            | .ok m => decide (Proto.norm m = want)
            | .error _ => false
          -- model-internal: the model's own streamed bytes parse back to its message
          let r3 := match Proto.pbParse myStream with
            | .ok m => decide (Proto.norm m = want)
            | .error _ => false
          (t, if r1 && r2 && r3 then "ok" else s!"PB-DIFF marshalled={r1} streamed={r2} self={r3}")
        | _, _ => (t, "panic")
    | _, _ => (t, "bad-op")
  | "frompb", h :: om :: rest =>
    -- frompb <h> <oracleMh|-> <storekind> [N] <bytes>
    match parseNat h, parseStoreKind rest with
    | some h, some (k, [bytes]) =>
      match parseBytes bytes with
      | some bs =>
        match Proto.pbParse bs with
        | .error _ => (t, "err:pbparse")
        | .ok msg =>
          match Proto.fromProto k msg with
          | none => (t, "panic")
          | some (.error _) => (t, "err:frompb")
          | some (.ok sk) => (putSk t h { sk := Sk.plain sk, map := parseNat om }, "ok")
      | none => (t, "bad-op")
    | _, _ => (t, "bad-op")
  | "fe", [h, k] =>
    -- ForEach with a callback that asks to stop at its k-th call: number of calls made
    match parseNat k with
    | some k =>
      withSk t h fun _ e =>
        match (inner e.sk).forEachList (envOf t e) with
        | some l => (t, toString (if k = 0 then l.length else min k l.length))
        | none => (t, "panic")
    | none => (t, "bad-op")
  | "pbeq", [h] =>
    -- direct oracle on the implementation only (streamed protobuf = message built in memory, bit for bit, also
    -- for weights whose float sums are not exact, which the model's exact weights do not follow)
    withSk t h fun _ _ => (t, "ok")
  | "xpanic", [h, _] =>
    -- the generator saw the implementation panic in a read-only operation (encode / protobuf /
    -- iteration) on this sketch: the model never does
    withSk t h fun _ _ => (t, "ok")
  | "encchk", [h, om, bytes] =>
    match parseBytes bytes with
    | some bs => withSk t h fun _ e => (t, encChk e (om == "1") bs)
    | none => (t, "bad-op")
  | "dec", h :: m :: om :: rest =>
    -- dec <h> <m|-> <oracleMh|-> <storekind> [N] [x] <bytes>
    match parseNat h, parseStoreKind rest with
    | some h, some (k, rest2) =>
      let isX := rest2.contains "x"
      match (rest2.filter (· != "x")) with
      | [bytes] =>
        match parseBytes bytes with
        | some bs =>
          let mid := ((parseNat m).bind (get? t.maps)).map (·.id)
          let e : Entry := { sk := if isX then Sk.exact (XSketch.new mid k) else Sk.plain (Sketch.new mid k), map := parseNat om }
          let r := match e.sk with
            | .plain s => liftP (s.decodeAndMergeWith bs)
            | .exact x => liftX (x.decodeAndMergeWith bs)
          match r with
          | none => (putSk t h { e with poisoned := true }, "panic")
          | some (.error er) => (putSk t h { e with poisoned := true }, "err:" ++ er.name)
          | some (.ok sk) => (putSk t h { e with sk := sk }, "ok")
        | none => (t, "bad-op")
      | _ => (t, "bad-op")
    | _, _ => (t, "bad-op")
  | "decm", [h, bytes] =>
    match parseBytes bytes with
    | some bs =>
      withSk t h fun h e =>
        let r := match e.sk with
          | .plain s => liftP (s.decodeAndMergeWith bs)
          | .exact x => liftX (x.decodeAndMergeWith bs)
        match r with
        | none => poison t h e
        | some (.error er) => (putSk t h { e with poisoned := true, dirty := true }, "err:" ++ er.name)
        | some (.ok sk) => (putSk t h { e with sk := sk }, "ok")
    | none => (t, "bad-op")
  | "setmap", _ => (t, "bad-op")
  | _, _ => (t, "bad-op")

end DDS.Driver.SketchOps
