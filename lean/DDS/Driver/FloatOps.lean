/- DDS.Driver.FloatOps — the `Float` reading of the mapping formulas (`MOps Float`): IEEE binary64
   arithmetic as Go performs it; `log/exp/…` come from the C library and may differ from Go's
   `math` package in the last ulp, which the comparison tolerance δ absorbs (DESIGN §3 S). -/
import DDS.Model.Mapping

namespace DDS.Driver.FloatOps
open DDS

def bitsNat (x : Float) : Nat := x.toBits.toNat

/-- Go's `int(x)` for a float within the int64 range: truncation toward zero -/
def truncF (x : Float) : Int := x.toInt64.toInt

def buildFloatF (e : Int) (s : Float) : Float :=
  if e > 1023 then Float.ofBits 0x7FF0000000000000 else   -- too large for a float64: +Inf
  -- uint64((exponent+exponentBias)<<exponentShift) & exponentMask | Float64bits(s) & significandMask
  let raw : Int := (e + (Consts.exponentBias : Int)) * (2 ^ Consts.exponentShift : Nat)
  let u : Nat := (raw % (2 ^ 64 : Nat)).toNat
  let hi := Nat.land u Consts.exponentMask
  let lo := Nat.land (bitsNat s) Consts.significandMask
  Float.ofBits (UInt64.ofNat (Nat.lor hi lo))

instance : MOps Float where
  add := (· + ·)
  sub := (· - ·)
  mul := (· * ·)
  div := (· / ·)
  neg := fun x => -x
  ofInt := Float.ofInt
  ofRat := fun q => Float.ofInt q.num / Float.ofNat q.den
  lt := fun a b => decide (a < b)
  le := fun a b => decide (a ≤ b)
  log := Float.log
  exp := Float.exp
  log2 := Float.log2
  exp2 := Float.exp2
  pow := Float.pow
  cbrt := Float.cbrt
  sqrt := Float.sqrt
  floor := Float.floor
  trunc := truncF
  exponentOf := fun x => Float.ofInt (((Nat.land (bitsNat x) Consts.exponentMask) / 2 ^ Consts.exponentShift : Nat) - (Consts.exponentBias : Int))
  significandPlusOne := fun x => Float.ofBits (UInt64.ofNat (Nat.lor (Nat.land (bitsNat x) Consts.significandMask) Consts.oneMask))
  buildFloat := buildFloatF
  ln2 := 0.693147180559945309417232121458176568
  expOverflow := Float.ofBits (UInt64.ofNat Consts.expOverflowBits)
  minNormal := Float.ofBits (UInt64.ofNat Consts.minNormalFloat64Bits)

end DDS.Driver.FloatOps
