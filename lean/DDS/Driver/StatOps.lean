/-
  DDS.Driver.StatOps — `stat.SummaryStatistics` driven directly (stateless lines):

      stat <count> <sum> <min> <max> new
      stat <count> <sum> <min> <max> rescale <f>
      stat <count> <sum> <min> <max> reweight <f>
      stat <count> <sum> <min> <max> add <value> <count>
      stat <count> <sum> <min> <max> merge <count2> <sum2> <min2> <max2>

  floats as 16 hex digits; answer: `err` when `NewSummaryStatisticsFromData` refuses (either
  operand), otherwise the statistics after the operation.
-/
import DDS.Model.Summary
import DDS.Driver.Util

namespace DDS.Driver.StatOps
open DDS DDS.Driver.Util

def showStat (s : Summary) : String :=
  s!"count={s.count.toStr} sum={s.getSum.toStr} min={s.min.toStr} max={s.max.toStr}"

def mk (c s mn mx : String) : Option (Option Summary) :=
  match parseF64 c, parseF64 s, parseF64 mn, parseF64 mx with
  | some c, some s, some mn, some mx => some (Summary.fromData c s mn mx)
  | _, _, _, _ => none

def run (args : List String) : String :=
  match args with
  | c :: s :: mn :: mx :: op =>
    match mk c s mn mx with
    | none => "bad-op"
    | some none => "err"
    | some (some st) =>
      match op with
      | ["new"] => showStat st
      | ["rescale", f] =>
        match parseF64 f with
        | some f => showStat (st.rescale f)
        | none => "bad-op"
      | ["reweight", f] =>
        match parseF64 f with
        | some f => showStat (st.reweight f)
        | none => "bad-op"
      | ["add", v, w] =>
        match parseF64 v, parseF64 w with
        | some v, some w => showStat (st.add v w)
        | _, _ => "bad-op"
      | ["merge", c2, s2, mn2, mx2] =>
        match mk c2 s2 mn2 mx2 with
        | none => "bad-op"
        | some none => "err"
        | some (some o) => showStat (st.mergeWith o)
      | _ => "bad-op"
  | _ => "bad-op"

end DDS.Driver.StatOps
