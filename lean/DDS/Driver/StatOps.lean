/-
  DDS.Driver.StatOps — `stat.SummaryStatistics` driven directly (stateless lines):

      stat <count> <sum> <min> <max> new
      stat <count> <sum> <min> <max> rescale <f>
      stat <count> <sum> <min> <max> reweight <f>
      stat <count> <sum> <min> <max> add <value> <count>
      stat <count> <sum> <min> <max> merge <count2> <sum2> <min2> <max2>

  floats as 16 hex digits; answer: `err` when `NewSummaryStatisticsFromData` refuses (either
  operand), otherwise the statistics after the operation.
-/
import DDS.Model.Summary
import DDS.Driver.Util

namespace DDS.Driver.StatOps
open DDS DDS.Driver.Util

def showStat (s : Summary) : String :=
  s!"count={s.count.toStr} sum={s.getSum.toStr} min={s.min.toStr} max={s.max.toStr}"

def mk (c s mn mx : String) : Option (Option Summary) :=
  match parseF64 c, parseF64 s, parseF64 mn, parseF64 mx with
  | some c, some s, some mn, some mx => some (Summary.fromData c s mn mx)
  | _, _, _, _ => none

/-- one operation of the sequence; `none` = malformed, `some none` = refused operand -/
def stepOp (st : Summary) : List String → Option (Option Summary × List String)
  | "new" :: rest => some (some st, rest)
  | "addcount" :: f :: rest => (parseF64 f).map fun f => (some (st.addToCount f), rest)
  | "addsum" :: f :: rest => (parseF64 f).map fun f => (some (st.addToSum f), rest)
  | "rescale" :: f :: rest => (parseF64 f).map fun f => (some (st.rescale f), rest)
  | "reweight" :: f :: rest => (parseF64 f).map fun f => (some (st.reweight f), rest)
  | "add" :: v :: w :: rest =>
    match parseF64 v, parseF64 w with
    | some v, some w => some (some (st.add v w), rest)
    | _, _ => none
  | "merge" :: c2 :: s2 :: mn2 :: mx2 :: rest =>
    match mk c2 s2 mn2 mx2 with
    | none => none
    | some none => some (none, rest)
    | some (some o) => some (some (st.mergeWith o), rest)
  | _ => none

/-- the operations are applied from left to right (fuel: one unit per token) -/
def runOps : Nat → Summary → List String → String
  | 0, _, _ => "bad-op"
  | _, st, [] => showStat st
  | fuel + 1, st, ops =>
    match stepOp st ops with
    | none => "bad-op"
    | some (none, _) => "err"
    | some (some st', rest) => runOps fuel st' rest

def run (args : List String) : String :=
  match args with
  | c :: s :: mn :: mx :: ops =>
    match mk c s mn mx with
    | none => "bad-op"
    | some none => "err"
    | some (some st) => if ops.isEmpty then "bad-op" else runOps (ops.length + 1) st ops
  | _ => "bad-op"

end DDS.Driver.StatOps
