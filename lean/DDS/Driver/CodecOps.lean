/- DDS.Driver.CodecOps — `codec <name> <arg>` lines (property C18). -/
import DDS.Model.Codec
import DDS.Driver.Util

namespace DDS.Driver.CodecOps
open DDS DDS.Codec DDS.Driver.Util

def showErr : DecErr → String
  | .eof => "eof"
  | .overflow32 => "overflow32"

def showDec {α} (sh : α → String) : Except DecErr (α × Bytes) → String
  | .ok (v, rest) => s!"ok {sh v} {showBytes rest}"
  | .error e => s!"err {showErr e}"

/-- a decoder result whose value is a 64-bit pattern standing for a float: printed as a rational -/
def showF (b : Nat) : String := (F64.ofBits (UInt64.ofNat b)).toStr

def run (args : List String) : String :=
  match args with
  | ["encu", v] => match parseNat v with
    | some v => s!"{showBytes (encUvarint64 v)} {uvarint64Size v}"
    | none => "bad-op"
  | ["decu", bs] => match parseBytes bs with
    | some bs => showDec toString (decUvarint64 bs)
    | none => "bad-op"
  | ["encv", v] => match parseInt v with
    | some v => s!"{showBytes (encVarint64 v)} {varint64Size v}"
    | none => "bad-op"
  | ["decv", bs] => match parseBytes bs with
    | some bs => showDec toString (decVarint64 bs)
    | none => "bad-op"
  | ["decv32", bs] => match parseBytes bs with
    | some bs => showDec toString (decVarint32 bs)
    | none => "bad-op"
  | ["encf", v] => match parseHex64 v with
    | some v => showBytes (encF64LE v.toNat)
    | none => "bad-op"
  | ["decf", bs] => match parseBytes bs with
    | some bs => showDec (fun b => toHex64 (UInt64.ofNat b)) (decF64LE bs)
    | none => "bad-op"
  -- varfloat at bit level: argument is Float64bits(v+1) as computed by Go
  | ["encvfb", v] => match parseHex64 v with
    | some v => s!"{showBytes (encVarfloatBits v.toNat)} {varfloat64SizeBits v.toNat}"
    | none => "bad-op"
  | ["decvfb", bs] => match parseBytes bs with
    | some bs => showDec (fun b => toHex64 (UInt64.ofNat b)) (decVarfloatBits bs)
    | none => "bad-op"
  -- varfloat at float level (finite, non-NaN arguments): exact model of v+1 and −1
  | ["encvf", v] => match parseF64 v with
    | some v => s!"{showBytes (encVarfloat64 v)} {varfloat64Size v}"
    | none => "bad-op"
  | ["decvf", bs] => match parseBytes bs with
    | some bs => showDec F64.toStr (decVarfloat64 bs)
    | none => "bad-op"
  | _ => "bad-op"

end DDS.Driver.CodecOps
