/- DDS.Driver.StoreOps — store-level lines (properties C04, C05, C14, C15, C16).

   Every handle carries the CONCRETE model of the store *and* its SPEC (`SpecStore`); each
   observation is computed from both and they are cross-checked inside the driver: an
   observation line starting with `SPECDIFF` means the refinement fails on this history. -/
import DDS.Model.Store
import DDS.Model.Sketch
import DDS.Model.Proto
import DDS.Driver.Util

namespace DDS.Driver.StoreOps
open DDS DDS.Driver.Util

structure Entry where
  store : Store
  spec : SpecStore
  poisoned : Bool := false
deriving Inhabited

abbrev Tbl := List (Nat × Entry)

def isStoreCmd (c : String) : Bool :=
  c ∈ ["S", "sadd", "smerge", "scopy", "sclear", "srew", "sobs", "skr", "sencdec", "sproto"]

def parseKind : List String → Option StoreKind
  | ["dense"] => some .dense
  | ["sparse"] => some .sparse
  | ["pag"] => some .pag
  | ["low", n] => (parseNat n).map .low
  | ["high", n] => (parseNat n).map .high
  | _ => none

def showObs (total : Rat) (empty : Bool) (mn mx : Option Int) (bins : List (Int × Rat)) : String :=
  s!"total={total} empty={if empty then 1 else 0} min={showOptInt mn} max={showOptInt mx} bins={showBins bins}"

def obs (e : Entry) : String :=
  match e.store.binsList with
  | none => "panic"
  | some bl =>
    let conc := showObs e.store.totalCount e.store.isEmpty e.store.minIndex? e.store.maxIndex? bl
    let c := e.spec.c
    let sp := showObs c.total c.isEmpty c.minIndex? c.maxIndex? c
    if conc = sp then conc else s!"SPECDIFF concrete[{conc}] spec[{sp}]"

def withEntry (t : Tbl) (h : String) (k : Nat → Entry → Tbl × String) : Tbl × String :=
  match parseNat h with
  | none => (t, "bad-op")
  | some h =>
    match get? t h with
    | none => (t, "bad-handle")
    | some e => if e.poisoned then (t, "poisoned") else k h e

def poison (t : Tbl) (h : Nat) (e : Entry) : Tbl × String :=
  (put t h { e with poisoned := true }, "panic")

def run (t : Tbl) (cmd : String) (args : List String) : Tbl × String :=
  match cmd, args with
  | "S", h :: k =>
    match parseNat h, parseKind k with
    | some h, some k =>
      let s := Store.new k
      (put t h { store := s, spec := SpecStore.new s.clamp }, "ok")
    | _, _ => (t, "bad-op")
  | "sadd", [h, i, w] =>
    match parseInt i, parseRat w with
    | some i, some w =>
      withEntry t h fun h e =>
        match e.store.addWithCount i w with
        | none => poison t h e
        | some s => (put t h { e with store := s, spec := e.spec.add i w }, "ok")
    | _, _ => (t, "bad-op")
  | "smerge", [h, h2] =>
    withEntry t h fun h e =>
      match (parseNat h2).bind (get? t) with
      | none => (t, "bad-handle")
      | some o =>
        if o.poisoned then (t, "poisoned")
        else match e.store.mergeWith o.store with
          | none => poison t h e
          | some s => (put t h { e with store := s, spec := e.spec.mergeContent o.spec.c }, "ok")
  | "scopy", [h2, h] =>
    match parseNat h2 with
    | none => (t, "bad-op")
    | some h2 => withEntry t h fun _ e => (put t h2 e, "ok")
  | "sclear", [h] =>
    withEntry t h fun h e => (put t h { e with store := e.store.clear, spec := e.spec.clear }, "ok")
  | "srew", [h, w] =>
    match parseRat w with
    | none => (t, "bad-op")
    | some w =>
      withEntry t h fun h e =>
        match e.store.reweight w with
        | none => poison t h e
        | some (.error _) => (t, "err")
        | some (.ok s) =>
          (put t h { e with store := s, spec := if w = 1 then e.spec else e.spec.reweight w }, "ok")
  | "sencdec", [h, h2] =>
    -- Encode(h) then DecodeAndMergeWith block by block into h2 (h itself may be compacted by Encode)
    withEntry t h fun h e =>
      match (parseNat h2).bind (fun k => (get? t k).map (fun o => (k, o))) with
      | none => (t, "bad-handle")
      | some (k2, o) =>
        if o.poisoned then (t, "poisoned") else
        match Sketch.encodeStore e.store .pos with
        | none => poison t h e
        | some (st', blocks) =>
          let t := put t h { e with store := st' }
          let o := if k2 == h then { o with store := st' } else o
          let bytes := Wire.encBlocks blocks
          let rec loop (fuel : Nat) (st : Store) (bs : List Nat) : Option (Except SkErr Store) :=
            match fuel, bs with
            | _, [] => some (.ok st)
            | 0, _ => none
            | fuel + 1, f :: rest =>
              match Sketch.decodeStore st (Wire.flagSub f) rest with
              | none => none
              | some (.error er) => some (.error er)
              | some (.ok (st2, rest2)) => loop fuel st2 rest2
          match loop (bytes.length + 1) o.store bytes with
          | none => poison t k2 o
          | some (.error _) => (t, "err")
          | some (.ok st2) => (put t k2 { o with store := st2, spec := o.spec.mergeContent e.spec.c }, "ok")
  | "sproto", [h, h2] =>
    -- ToProto(h) then MergeWithProto into h2
    withEntry t h fun _ e =>
      match (parseNat h2).bind (fun k => (get? t k).map (fun o => (k, o))) with
      | none => (t, "bad-handle")
      | some (k2, o) =>
        if o.poisoned then (t, "poisoned") else
        match Proto.storeToProto e.store with
        | none => (t, "panic")
        | some pb =>
          match Proto.mergeWithProto o.store pb with
          | none => poison t k2 o
          | some st2 => (put t k2 { o with store := st2, spec := o.spec.mergeContent e.spec.c }, "ok")
  | "sobs", [h] => withEntry t h fun _ e => (t, obs e)
  | "skr", [h, r] =>
    match parseRat r with
    | none => (t, "bad-op")
    | some r =>
      withEntry t h fun _ e =>
        if e.store.isEmpty then (t, "unspec")
        else
          let k := e.store.keyAtRank r
          let ks := e.spec.c.keyAtRank r
          (t, if k = ks then toString k else s!"SPECDIFF concrete[{k}] spec[{ks}]")
  | _, _ => (t, "bad-op")

end DDS.Driver.StoreOps
