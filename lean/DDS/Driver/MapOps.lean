/- DDS.Driver.MapOps — mapping-level lines (C03, C19):
   `mpchk` evaluates the generic mapping formulas at `Float` and compares with the answer of the Go
   implementation carried on the line, within the tolerance δ; `mapenc`/`mapeq` exercise the
   identity of a mapping through its serialized forms and the tolerance-based equality. -/
import DDS.Model.Ctor
import DDS.Driver.FloatOps
import DDS.Model.Sketch
import DDS.Driver.Util

namespace DDS.Driver.MapOps
open DDS DDS.Driver.Util DDS.Driver.FloatOps

def isMapCmd (c : String) : Bool := c ∈ ["mpchk", "mpalpha", "mscan", "mapenc", "mapeq", "mkalpha", "mkgamma", "mkbin"]

def parseKind : String → Option MKind
  | "log" => some .log
  | "linear" => some .linear
  | "cubic" => some .cubic
  | _ => none

def fbits (s : String) : Option Float := (parseHex64 s).map Float.ofBits

/-- relative closeness with slack δ = 2^-40 (plus the smallest normal as absolute slack) -/
def close (a b : Float) : Bool :=
  if a == b then true
  else if a.isNaN || b.isNaN then a.isNaN && b.isNaN
  else (a - b).abs ≤ 9.094947017729282e-13 * (if a.abs < b.abs then b.abs else a.abs) + 2.3e-308

/-- closeness with an explicit relative tolerance -/
def closeTol (tol : Float) (a b : Float) : Bool :=
  if a == b then true
  else if a.isNaN || b.isNaN then a.isNaN && b.isNaN
  else (a - b).abs ≤ tol * (if a.abs < b.abs then b.abs else a.abs) + 2.3e-308

/-- Relative uncertainty of the multiplier `1/log2(gamma)` as Go computes it: `math.Log2` goes
    through `Frexp` and cancels catastrophically near 1 (absolute error ≈ 2^-52 on a result of size
    `log2 gamma`), so for tiny accuracies the multiplier carries a relative error of ≈ 4e-16/log2 γ.
    The natural logarithm of the logarithmic mapping has no such issue. -/
def tau (k : MKind) (g : Float) : Float :=
  match k with
  | .log => 1e-15
  | _ => 4e-16 / Float.log2 g + 1e-15

/-- tolerance on values obtained through `2^(x/multiplier)` with |x/multiplier| ≤ 1075 -/
def valTol (k : MKind) (g : Float) : Float := 9.094947017729282e-13 + 760 * tau k g

def params (k : MKind) (g o : Float) : Mapping.Params Float := { kind := k, gamma := g, indexOffset := o }

def run (args : List String) (cmd : String) : String :=
  match cmd, args with
  | "mpchk", [kind, g, o, what, arg, ans] =>
    match parseKind kind, fbits g, fbits o with
    | some k, some g, some o =>
      let p := params k g o
      match what with
      | "idx" =>
        match fbits arg, parseInt ans with
        | some v, some goIdx =>
          let x := MOps.add (MOps.mul (Mapping.approxLog p v) (Mapping.multiplier p)) p.indexOffset
          let mi := Mapping.goFloor x
          -- the same index, or the neighbour when the value sits within δ of the shared bin edge
          let frac := (x - x.round).abs
          -- the sum `log·multiplier + offset` cancels when the offset is large: the error scales
          -- with the magnitude of the summands, not of the result
          let t1 := (MOps.mul (Mapping.approxLog p v) (Mapping.multiplier p) : Float).abs
          let mag := [1.0, x.abs, t1, p.indexOffset.abs].foldl (fun a b => if a < b then b else a) 0.0
          let tol := (3.7e-12 + 4 * tau k g) * mag + 1e-9
          if mi == goIdx then "ok"
          else if (mi - goIdx == 1 || goIdx - mi == 1) && frac ≤ tol then "ok"
          else s!"MODEL-DIFF idx model={mi} go={goIdx} x={x}"
        | _, _ => "bad-op"
      | "lb" | "val" =>
        match parseInt arg, fbits ans with
        | some i, some goV =>
          let mv := if what == "lb" then Mapping.lowerBound p i else Mapping.value p i
          if closeTol (valTol k g) mv goV then "ok" else s!"MODEL-DIFF {what} i={i} rel={(mv - goV).abs / goV.abs} model={toHex64 mv.toBits} go={toHex64 goV.toBits}"
        | _, _ => "bad-op"
      | "min" | "max" | "ra" =>
        match fbits ans with
        | some goV =>
          let mv := if what == "min" then Mapping.minIndexable p else if what == "max" then Mapping.maxIndexable p else Mapping.relativeAccuracy p
          let okv := if what == "ra" then (mv - goV).abs ≤ 1e-9 * goV.abs + 1e-15 else closeTol (valTol k g) mv goV
          if okv then "ok" else s!"MODEL-DIFF {what} rel={(mv - goV).abs / goV.abs} model={toHex64 mv.toBits} go={toHex64 goV.toBits}"
        | none => "bad-op"
      | _ => "bad-op"
    | _, _, _ => "bad-op"
  | "mpalpha", [kind, a, g, o] =>
    match parseKind kind, fbits a, fbits g, fbits o with
    | some k, some a, some g, some o =>
      let p : Mapping.Params Float := Mapping.ofAlpha k a
      if close p.gamma g && closeTol (9.1e-13 + 4 * tau k g) p.indexOffset o then "ok"
      else s!"MODEL-DIFF ofAlpha model=({toHex64 p.gamma.toBits},{toHex64 p.indexOffset.toBits}) go=({toHex64 g.toBits},{toHex64 o.toBits})"
    | _, _, _, _ => "bad-op"
  -- a scan of the implementation by the harness's direct oracle: nothing to model
  | "mscan", _ => "ok"
  -- constructors (C13): accuracies outside (0,1) and bases not above one are refused
  | "mkalpha", [_kind, a] =>
    match parseF64 a with
    | some a => if Ctor.alphaRefused a then "err" else "ok"
    | none => "bad-op"
  | "mkgamma", [_kind, g, _o] =>
    match parseF64 g with
    | some g => if Ctor.gammaRefused g then "err" else "ok"
    | none => "bad-op"
  | "mkbin", [_i, c] =>
    match parseF64 c with
    | some c => if Ctor.binRefused c then "err" else "ok"
    | none => "bad-op"
  | "mapenc", [kind, g, o, bytes] =>
    match parseKind kind, parseF64 g, parseF64 o, parseBytes bytes with
    | some k, some g, some o, some bs =>
      let id : MapId := { kind := k, gamma := g, indexOffset := o }
      let mine := Wire.encBlock id.toBlock
      match Wire.parseBlock (bs ++ [7]) with
      | .ok (.mapping sub gb ob, [7]) =>
        match MapId.ofBlock sub gb ob with
        | .ok id' => if mine == bs && id' == id then "ok" else "MAP-DIFF bytes-or-identity"
        | .error _ => "MAP-DIFF rejected"
      | _ => "MAP-DIFF parse"
    | _, _, _, _ => "bad-op"
  | "mapeq", [k1, g1, o1, k2, g2, o2] =>
    match parseKind k1, parseF64 g1, parseF64 o1, parseKind k2, parseF64 g2, parseF64 o2 with
    | some k1, some g1, some o1, some k2, some g2, some o2 =>
      let a : MapId := { kind := k1, gamma := g1, indexOffset := o1 }
      let b : MapId := { kind := k2, gamma := g2, indexOffset := o2 }
      s!"{a.equals b} {b.equals a}"
    | _, _, _, _, _, _ => "bad-op"
  | _, _ => "bad-op"

end DDS.Driver.MapOps
