/- DDS.Driver.Util — parsing / printing helpers for the line protocol (core only). -/
import DDS.Model.Num

namespace DDS.Driver.Util

def tokens (line : String) : List String :=
  (line.trimAscii.toString.splitOn " ").filter (fun s => !s.isEmpty)

def parseInt (s : String) : Option Int := s.toInt?

def parseNat (s : String) : Option Nat := s.toNat?

/-- `a/b` or `a` -/
def parseRat (s : String) : Option Rat :=
  match s.splitOn "/" with
  | [a] => a.toInt?.map (fun n => (n : Rat))
  | [a, b] => do
    let n ← a.toInt?
    let d ← b.toNat?
    if d = 0 then none else some (mkRat n d)
  | _ => none

def hexVal (c : Char) : Option Nat :=
  if '0' ≤ c ∧ c ≤ '9' then some (c.toNat - '0'.toNat)
  else if 'a' ≤ c ∧ c ≤ 'f' then some (c.toNat - 'a'.toNat + 10)
  else if 'A' ≤ c ∧ c ≤ 'F' then some (c.toNat - 'A'.toNat + 10)
  else none

/-- hex string (`-` = empty) to bytes -/
def parseBytes (s : String) : Option (List Nat) :=
  if s = "-" then some [] else
  let rec go : List Char → Option (List Nat)
    | [] => some []
    | [_] => none
    | a :: b :: rest => do
      let x ← hexVal a
      let y ← hexVal b
      let r ← go rest
      pure ((x * 16 + y) :: r)
  go s.toList

def showBytes (bs : List Nat) : String :=
  if bs.isEmpty then "-" else
  String.ofList (bs.flatMap (fun b => [hexDigit ((b / 16) % 16), hexDigit (b % 16)]))

def parseF64 (s : String) : Option F64 := (parseHex64 s).map F64.ofBits

def showOptInt : Option Int → String
  | some i => toString i
  | none => "none"

def showBins (l : List (Int × Rat)) : String :=
  if l.isEmpty then "-" else ",".intercalate (l.map (fun p => s!"{p.1}:{p.2}"))

/-- association list keyed by small handles -/
def put {α} (t : List (Nat × α)) (h : Nat) (v : α) : List (Nat × α) :=
  (h, v) :: t.filter (fun p => p.1 != h)

def get? {α} (t : List (Nat × α)) (h : Nat) : Option α := (t.find? (fun p => p.1 == h)).map (·.2)

end DDS.Driver.Util
