/- DDS.Driver.DatasetOps — `D dadd dlq duq dmin dmax dsum dcount dmerge` lines (property C20). -/
import DDS.Model.Dataset
import DDS.Driver.Util

namespace DDS.Driver.DatasetOps
open DDS DDS.Driver.Util

abbrev Tbl := List (Nat × Dataset)

def isDatasetCmd (c : String) : Bool :=
  c ∈ ["D", "dadd", "dlq", "duq", "dmin", "dmax", "dsum", "dcount", "dmerge"]

def showQ : Dataset.QRes → String
  | .nan => "nan"
  | .val v => toString v
  | .panic => "panic"

def withD (t : Tbl) (h : String) (k : Nat → Dataset → Tbl × String) : Tbl × String :=
  match parseNat h with
  | none => (t, "bad-op")
  | some h => match get? t h with
    | none => (t, "bad-handle")
    | some d => k h d

def run (t : Tbl) (cmd : String) (args : List String) : Tbl × String :=
  match cmd, args with
  | "D", [h] => match parseNat h with
    | some h => (put t h Dataset.new, "ok")
    | none => (t, "bad-op")
  | "dadd", [h, v] => match parseF64 v with
    | some (.fin q) => withD t h fun h d => (put t h (d.add q), "ok")
    | _ => (t, "bad-op")
  | "dlq", [h, q] => match parseF64 q with
    | some q => withD t h fun h d => let (d', r) := d.lowerQuantile q; (put t h d', showQ r)
    | none => (t, "bad-op")
  | "duq", [h, q] => match parseF64 q with
    | some q => withD t h fun h d => let (d', r) := d.upperQuantile q; (put t h d', showQ r)
    | none => (t, "bad-op")
  | "dmin", [h] => withD t h fun h d => let (d', r) := d.min; (put t h d', showQ r)
  | "dmax", [h] => withD t h fun h d => let (d', r) := d.max; (put t h d', showQ r)
  | "dsum", [h] => withD t h fun _ d => (t, d.sum.toStr)
  | "dcount", [h] => withD t h fun _ d => (t, s!"{d.count.toStr} {d.values.length}")
  | "dmerge", [h, h2] => withD t h fun h d =>
    match (parseNat h2).bind (get? t) with
    | some o => (put t h (d.merge o), "ok")
    | none => (t, "bad-handle")
  | _, _ => (t, "bad-op")

end DDS.Driver.DatasetOps
