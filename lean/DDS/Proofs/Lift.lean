/-
  DDS.Proofs.Lift — ONE invariant for the five store kinds.

  `Good st` says: `st` is in a state reachable from `Store.new` and every index it holds is an
  int32.  It is the per-kind invariant of `DDS.Proofs.Dense` (`Inv` + `Bounded32`),
  `DDS.Proofs.Collapsing` (`InvLow`/`InvHigh` + `Tight32`), `DDS.Proofs.Paginated`
  (`PStore.Inv`), and canonical form for the sparse store.

  For every kind — and, for `mergeWith`, for every one of the 5 × 5 pairs of kinds, through the
  same-kind fast paths as well as the `ForEach` fallback of Go's dynamic dispatch — the
  operations of the `store.Store` interface never panic, keep `Good`, keep the kind, and act on
  the canonical content `contentOf st` exactly like the SPEC store (`SpecStore` of
  `DDS.Model.Bins`) with the clamping rule of the kind:

    good_new, good_refines, good_add, good_merge, good_clear, good_reweight

  `store_history` lifts this to arbitrary histories whose merge arguments are themselves the
  results of histories on stores of any kind.

  No hypothesis on the float computation of `getNewLength` is left (`DStore.growthOK`).
-/
import DDS.Proofs.Growth
import DDS.Proofs.Paginated

namespace DDS.Lift

open DDS DStore

/-- the index is representable as an int32 -/
abbrev I32 (i : Int) : Prop := minInt32 ≤ i ∧ i ≤ maxInt32

/-- the store is in a state reachable from `Store.new` and all its indexes are int32 -/
def Good : Store → Prop
  | .d s => match s.kind with
    | .plain => Inv s ∧ Bounded32 s
    | .low N => InvLow N s ∧ Tight32 s
    | .high N => InvHigh N s ∧ Tight32 s
  | .sp c => c.WF ∧ ∀ p ∈ c, I32 p.1
  | .pg s => PStore.Inv s

/-- the clamping rule of the store (`.none` for dense, sparse, paginated) -/
abbrev clampOf (st : Store) : Clamp := st.clamp

/-- the canonical content: what `Bins()` / `ForEach` enumerate -/
def contentOf (st : Store) : Content := (st.binsList).getD []

/-- admissible store kinds: a collapsing store has at least one bin -/
def KindOK : StoreKind → Prop
  | .low n => 1 ≤ n
  | .high n => 1 ≤ n
  | _ => True

instance (k : StoreKind) : Decidable (KindOK k) := by
  cases k <;> unfold KindOK <;> infer_instance

/-! ## `Good` per constructor -/

theorem good_plain {s : DStore} (hk : s.kind = .plain) :
    Good (.d s) ↔ Inv s ∧ Bounded32 s := by
  simp only [Good, hk]

theorem good_low {s : DStore} {N : Nat} (hk : s.kind = .low N) :
    Good (.d s) ↔ InvLow N s ∧ Tight32 s := by
  simp only [Good, hk]

theorem good_high {s : DStore} {N : Nat} (hk : s.kind = .high N) :
    Good (.d s) ↔ InvHigh N s ∧ Tight32 s := by
  simp only [Good, hk]

theorem good_of_inv {s : DStore} (h : Inv s) (hb : Bounded32 s) : Good (.d s) :=
  (good_plain h.plain).2 ⟨h, hb⟩

theorem good_of_invLow {s : DStore} {N : Nat} (h : InvLow N s) (ht : Tight32 s) : Good (.d s) :=
  (good_low h.kind).2 ⟨h, ht⟩

theorem good_of_invHigh {s : DStore} {N : Nat} (h : InvHigh N s) (ht : Tight32 s) : Good (.d s) :=
  (good_high h.kind).2 ⟨h, ht⟩

/-- the three cases of a good dense-family store -/
theorem good_d_cases {s : DStore} (h : Good (.d s)) :
    (s.kind = .plain ∧ Inv s ∧ Bounded32 s) ∨ (∃ N, s.kind = .low N ∧ InvLow N s ∧ Tight32 s) ∨
      (∃ N, s.kind = .high N ∧ InvHigh N s ∧ Tight32 s) := by
  cases hk : s.kind with
  | plain => exact Or.inl ⟨rfl, (good_plain hk).1 h⟩
  | low N => exact Or.inr (Or.inl ⟨N, rfl, (good_low hk).1 h⟩)
  | high N => exact Or.inr (Or.inr ⟨N, rfl, (good_high hk).1 h⟩)

theorem contentOf_d (s : DStore) : contentOf (.d s) = DStore.content s := rfl
theorem contentOf_sp (c : Content) : contentOf (.sp c) = c := rfl
theorem contentOf_pg (s : PStore) : contentOf (.pg s) = PStore.content s := rfl

theorem kind_plain {s : DStore} (hk : s.kind = .plain) : (Store.d s).kind = .dense := by
  simp [Store.kind, hk]
theorem kind_low {s : DStore} {N : Nat} (hk : s.kind = .low N) : (Store.d s).kind = .low N := by
  simp [Store.kind, hk]
theorem kind_high {s : DStore} {N : Nat} (hk : s.kind = .high N) : (Store.d s).kind = .high N := by
  simp [Store.kind, hk]

theorem clamp_plain {s : DStore} (hk : s.kind = .plain) : (Store.d s).clamp = .none := by
  simp [Store.clamp, Store.kind, hk]
theorem clamp_low {s : DStore} {N : Nat} (hk : s.kind = .low N) : (Store.d s).clamp = .low N := by
  simp [Store.clamp, Store.kind, hk]
theorem clamp_high {s : DStore} {N : Nat} (hk : s.kind = .high N) :
    (Store.d s).clamp = .high N := by
  simp [Store.clamp, Store.kind, hk]
theorem clamp_sp (c : Content) : (Store.sp c).clamp = .none := rfl
theorem clamp_pg (s : PStore) : (Store.pg s).clamp = .none := rfl

/-- the clamping rule is a function of the kind -/
theorem clamp_of_kind {a b : Store} (h : a.kind = b.kind) : a.clamp = b.clamp := by
  unfold Store.clamp; rw [h]

/-! ## the plain dense store at content level -/

theorem plain_spec (s : DStore) (h : Inv s) (hb : Bounded32 s) :
    (Store.d s).Refines (DStore.content s) ∧ ∀ j, (DStore.content s).lookup j = wt s j := by
  obtain ⟨c, hc, hl⟩ := Store.refines_dense s h hb
  have hbins : s.binsList = some c := hc.bins
  have : DStore.content s = c := by unfold DStore.content; rw [hbins]; rfl
  rw [this]; exact ⟨hc, hl⟩

/-- a plain store is determined by its weights -/
theorem plain_content_eq (s : DStore) (h : Inv s) (hb : Bounded32 s) (c : Content) (hc : c.WF)
    (hl : ∀ j, wt s j = c.lookup j) : DStore.content s = c := by
  obtain ⟨hr, hlk⟩ := plain_spec s h hb
  exact Content.ext _ _ hr.wf hc (fun j => by rw [hlk, hl])

theorem lookup_ne_zero_mem (l : Content) (j : Int) (h : l.lookup j ≠ 0) : ∃ p ∈ l, p.1 = j := by
  apply Classical.byContradiction
  intro hn
  exact h (Content.lookup_eq_zero_of_not_mem l j (fun p hp hpj => hn ⟨p, hp, hpj⟩))

/-! ## keys of the canonical content are int32; `Good` gives `Refines` -/

theorem plain_keys32 (s : DStore) (h : Inv s) (hb : Bounded32 s) :
    ∀ p ∈ DStore.content s, I32 p.1 := by
  obtain ⟨hr, hlk⟩ := plain_spec s h hb
  intro p hp
  apply hb
  rw [← hlk, Content.lookup_pos_of_mem _ hr.wf p hp]
  have := hr.wf.2 p hp
  intro h0; rw [h0] at this; exact absurd this (by decide)

theorem low_keys32 (N : Nat) (s : DStore) (h : InvLow N s) (ht : Tight32 s) :
    ∀ p ∈ DStore.content s, I32 p.1 := by
  obtain ⟨_, hwf, hlk⟩ := low_content_spec N s h
  intro p hp
  have hpos : 0 < wt s p.1 := by
    rw [← hlk, Content.lookup_pos_of_mem _ hwf p hp]; exact hwf.2 p hp
  have h0 : s.count ≠ 0 := fun h0 => by
    rw [h.wt_zero_of_empty h0] at hpos; exact absurd hpos (by decide)
  have hin : ¬ (p.1 < s.minIndex ∨ s.maxIndex < p.1) := fun hc => by
    rw [h.outside _ hc] at hpos; exact absurd hpos (by decide)
  obtain ⟨_, _, t3, t4⟩ := ht h0
  exact ⟨by omega, by omega⟩

theorem high_keys32 (N : Nat) (s : DStore) (h : InvHigh N s) (ht : Tight32 s) :
    ∀ p ∈ DStore.content s, I32 p.1 := by
  obtain ⟨_, hwf, hlk⟩ := high_content_spec N s h
  intro p hp
  have hpos : 0 < wt s p.1 := by
    rw [← hlk, Content.lookup_pos_of_mem _ hwf p hp]; exact hwf.2 p hp
  have h0 : s.count ≠ 0 := fun h0 => by
    rw [h.wt_zero_of_empty h0] at hpos; exact absurd hpos (by decide)
  have hin : ¬ (p.1 < s.minIndex ∨ s.maxIndex < p.1) := fun hc => by
    rw [h.outside _ hc] at hpos; exact absurd hpos (by decide)
  obtain ⟨_, _, t3, t4⟩ := ht h0
  exact ⟨by omega, by omega⟩

theorem pag_keys32 (s : PStore) (h : PStore.Inv s) : ∀ p ∈ PStore.content s, I32 p.1 := by
  intro p hp
  have hwf := PStore.content_wf s h
  apply h.idx32_of_wt_pos
  rw [← PStore.lookup_content s h, Content.lookup_pos_of_mem _ hwf p hp]
  exact hwf.2 p hp

theorem low_refines (N : Nat) (s : DStore) (h : InvLow N s) (ht : Tight32 s) :
    (Store.d s).Refines (DStore.content s) where
  wf := (low_content_spec N s h).2.1
  total := low_total N s h
  empty := low_isEmpty N s h
  min := low_minIndex? N s h ht
  max := low_maxIndex? N s h ht
  bins := (low_content_spec N s h).1
  kar := fun hne r =>
    low_keyAtRank_eq N s h ht (fun h0 => hne (low_content_empty N s h h0)) r

theorem high_refines (N : Nat) (s : DStore) (h : InvHigh N s) (ht : Tight32 s) :
    (Store.d s).Refines (DStore.content s) where
  wf := (high_content_spec N s h).2.1
  total := high_total N s h
  empty := high_isEmpty N s h
  min := high_minIndex? N s h ht
  max := high_maxIndex? N s h ht
  bins := (high_content_spec N s h).1
  kar := fun hne r =>
    high_keyAtRank_eq N s h ht (fun h0 => hne (high_content_empty N s h h0)) r

theorem pag_refines (s : PStore) (h : PStore.Inv s) : (Store.pg s).Refines (PStore.content s) where
  wf := PStore.content_wf s h
  total := PStore.totalCount_eq s h
  empty := PStore.isEmpty_eq s h
  min := PStore.minIndex?_eq s h
  max := PStore.maxIndex?_eq s h
  bins := rfl
  kar := fun _ r => PStore.keyAtRank_spec s h r

/-- EVERY good store — collapsing kinds included — observes exactly like its canonical content -/
theorem good_refines (st : Store) (h : Good st) : st.Refines (contentOf st) := by
  cases st with
  | d s =>
    rcases good_d_cases h with ⟨_, hi, hb⟩ | ⟨N, _, hi, ht⟩ | ⟨N, _, hi, ht⟩
    · exact (plain_spec s hi hb).1
    · exact low_refines N s hi ht
    · exact high_refines N s hi ht
  | sp c => exact Store.refines_sparse c h.1
  | pg s => exact pag_refines s h

/-- every index a good store reports is an int32 -/
theorem good_keys32 (st : Store) (h : Good st) : ∀ p ∈ contentOf st, I32 p.1 := by
  cases st with
  | d s =>
    rcases good_d_cases h with ⟨_, hi, hb⟩ | ⟨N, _, hi, ht⟩ | ⟨N, _, hi, ht⟩
    · exact plain_keys32 s hi hb
    · exact low_keys32 N s hi ht
    · exact high_keys32 N s hi ht
  | sp c => exact h.2
  | pg s => exact pag_keys32 s h

theorem good_wf (st : Store) (h : Good st) : (contentOf st).WF := (good_refines st h).wf

theorem good_bins (st : Store) (h : Good st) : st.binsList = some (contentOf st) :=
  (good_refines st h).bins

/-- an empty good store has the empty content -/
theorem good_empty (st : Store) (h : Good st) (he : st.isEmpty = true) : contentOf st = [] := by
  have := (good_refines st h).empty
  rw [he] at this
  cases hc : contentOf st with
  | nil => rfl
  | cons p rest => rw [hc] at this; cases this

/-- the canonical content of a good store is a fixed point of the store's clamping rule -/
theorem good_fixed (st : Store) (h : Good st) : st.clamp.apply (contentOf st) = contentOf st := by
  cases st with
  | d s =>
    rcases good_d_cases h with ⟨hk, _, _⟩ | ⟨N, hk, hi, ht⟩ | ⟨N, hk, hi, ht⟩
    · rw [clamp_plain hk]; rfl
    · rw [clamp_low hk]; exact low_content_fixed N s hi ht
    · rw [clamp_high hk]; exact high_content_fixed N s hi ht
  | sp c => rfl
  | pg s => rfl

/-! ## `Store.new` -/

theorem good_new (k : StoreKind) (hk : KindOK k) :
    Good (Store.new k) ∧ contentOf (Store.new k) = [] ∧ (Store.new k).kind = k := by
  cases k with
  | dense =>
    have hg : Good (Store.new .dense) := good_of_inv inv_new bounded32_new
    refine ⟨hg, ?_, rfl⟩
    exact Store.refines_unique _ _ _ (good_refines _ hg) Store.refines_new_dense
  | sparse => exact ⟨⟨Content.wf_nil, by simp⟩, rfl, rfl⟩
  | pag =>
    refine ⟨PStore.inv_new, ?_, rfl⟩
    exact (PStore.content_eq_nil_iff _ PStore.inv_new).2 PStore.wt_new
  | low n =>
    exact ⟨good_of_invLow (invLow_new n hk) (tight32_new _),
      low_content_empty n _ (invLow_new n hk) rfl, rfl⟩
  | high n =>
    exact ⟨good_of_invHigh (invHigh_new n hk) (tight32_new _),
      high_content_empty n _ (invHigh_new n hk) rfl, rfl⟩

/-! ## `AddWithCount` -/

theorem good_add (st : Store) (h : Good st) (i : Int) (hi : I32 i) (w : Rat) (hw : 0 ≤ w) :
    ∃ st', st.addWithCount i w = some st' ∧ Good st' ∧ st'.kind = st.kind ∧
      contentOf st' = st.clamp.apply ((contentOf st).add i w) := by
  cases st with
  | d s =>
    rcases good_d_cases h with ⟨hk, hi', hb⟩ | ⟨N, hk, hi', ht⟩ | ⟨N, hk, hi', ht⟩
    · obtain ⟨s', h1, h2, h3, h4, _⟩ := Uncond.addWithCount_ok32 s hi' hb i hi w hw
      refine ⟨.d s', by simp [Store.addWithCount, h1], good_of_inv h2 h3, ?_, ?_⟩
      · rw [kind_plain h2.plain, kind_plain hk]
      · rw [clamp_plain hk]
        show DStore.content s' = (DStore.content s).add i w
        obtain ⟨hr, hlk⟩ := plain_spec s hi' hb
        apply plain_content_eq s' h2 h3 _ (Content.wf_add _ i w hr.wf hw)
        intro j; rw [h4, Content.lookup_add, hlk]
    · obtain ⟨s', h1, h2, h3, _, h5⟩ := Uncond.low_addWithCount_ok N s hi' ht i w hw hi
      refine ⟨.d s', by simp [Store.addWithCount, h1], good_of_invLow h2 h3, ?_, ?_⟩
      · rw [kind_low h2.kind, kind_low hk]
      · rw [clamp_low hk]; exact h5
    · obtain ⟨s', h1, h2, h3, _, h5⟩ := Uncond.high_addWithCount_ok N s hi' ht i w hw hi
      refine ⟨.d s', by simp [Store.addWithCount, h1], good_of_invHigh h2 h3, ?_, ?_⟩
      · rw [kind_high h2.kind, kind_high hk]
      · rw [clamp_high hk]; exact h5
  | sp c =>
    refine ⟨.sp (c.add i w), rfl, ⟨Content.wf_add c i w h.1 hw, ?_⟩, rfl, rfl⟩
    intro p hp
    rcases Content.mem_add hp with hm | hm
    · exact h.2 p hm
    · rw [hm]; exact hi
  | pg s =>
    obtain ⟨s', h1, h2, h3⟩ := PStore.addWithCount_ok s h i hi w hw true
    refine ⟨.pg s', by simp [Store.addWithCount, h1], h2, rfl, ?_⟩
    show PStore.content s' = (PStore.content s).add i w
    apply PStore.content_eq_of_lookup s' h2 _ (Content.wf_add _ i w (PStore.content_wf s h) hw)
    intro j; rw [h3, Content.lookup_add, PStore.lookup_content s h]

/-! ## `MergeWith` -/

/-- `ofList` of a canonical content is that content -/
theorem ofList_wf (l : Content) (h : l.WF) : Content.ofList l = l :=
  Content.merge_nil_left l h

theorem nonneg_of_wf (l : Content) (h : l.WF) : ∀ p ∈ l, 0 ≤ p.2 := by
  intro p hp; have := h.2 p hp; grind

/-- the fallback `other.ForEach(s.AddWithCount)` into any dense-family store -/
theorem d_mergeBins (s : DStore) (h : Good (.d s)) (l : Content) (hl : l.WF)
    (hl32 : ∀ p ∈ l, I32 p.1) :
    ∃ s', s.mergeBins l = some s' ∧ Good (.d s') ∧ (Store.d s').kind = (Store.d s).kind ∧
      contentOf (.d s') = (Store.d s).clamp.apply ((contentOf (.d s)).merge l) := by
  have hnn := nonneg_of_wf l hl
  rcases good_d_cases h with ⟨hk, hi, hb⟩ | ⟨N, hk, hi, ht⟩ | ⟨N, hk, hi, ht⟩
  · obtain ⟨s', h1, h2, h3, _, h5⟩ := Uncond.mergeBins_ok s hi hb l hnn hl32
    refine ⟨s', h1, good_of_inv h2 h5, by rw [kind_plain h2.plain, kind_plain hk], ?_⟩
    rw [clamp_plain hk]
    show DStore.content s' = (DStore.content s).merge l
    obtain ⟨hr, hlk⟩ := plain_spec s hi hb
    apply plain_content_eq s' h2 h5 _ (Content.wf_merge _ _ hr.wf hl)
    intro j
    rw [h3, Content.lookup_merge, hlk, Content.lookup_eq_wsum l j]
    rfl
  · obtain ⟨s', h1, h2, h3, _, h5⟩ := Uncond.low_mergeBins_ok N s hi ht l hnn hl32
    refine ⟨s', h1, good_of_invLow h2 h3, by rw [kind_low h2.kind, kind_low hk], ?_⟩
    rw [clamp_low hk, ← ofList_wf l hl]; exact h5
  · obtain ⟨s', h1, h2, h3, _, h5⟩ := Uncond.high_mergeBins_ok N s hi ht l hnn hl32
    refine ⟨s', h1, good_of_invHigh h2 h3, by rw [kind_high h2.kind, kind_high hk], ?_⟩
    rw [clamp_high hk, ← ofList_wf l hl]; exact h5

/-- the fallback into the paginated store -/
theorem pg_mergeBins (s : PStore) (h : PStore.Inv s) (l : Content) (hl : l.WF)
    (hl32 : ∀ p ∈ l, I32 p.1) :
    ∃ s', s.mergeBins l = some s' ∧ PStore.Inv s' ∧
      PStore.content s' = (PStore.content s).merge l := by
  obtain ⟨s', h1, h2, h3⟩ := PStore.mergeBins_ok s h l
    (fun p hp => ⟨hl32 p hp, nonneg_of_wf l hl p hp⟩)
  refine ⟨s', h1, h2, ?_⟩
  apply PStore.content_eq_of_lookup s' h2 _ (Content.wf_merge _ _ (PStore.content_wf s h) hl)
  intro j; rw [h3, Content.lookup_merge, PStore.lookup_content s h]

/-- merging an EMPTY argument returns the receiver unchanged: consistent with the spec step -/
theorem merge_empty_spec (st o : Store) (hs : Good st) (ho : Good o) (he : o.isEmpty = true) :
    Good st ∧ st.kind = st.kind ∧
      contentOf st = st.clamp.apply ((contentOf st).merge (contentOf o)) := by
  refine ⟨hs, rfl, ?_⟩
  rw [good_empty o ho he, Content.merge_nil_right, good_fixed st hs]

/-- `MergeWith` for ALL 5 × 5 pairs of store kinds: the same-kind fast paths (plain/plain,
    lowest/lowest and highest/highest with any two bin limits, paginated/paginated) and the
    `ForEach` fallback of every other pair never panic, keep `Good` and the receiver's kind, and
    are the spec step "merge the contents, then clamp by the receiver's rule" -/
theorem good_merge (st o : Store) (hs : Good st) (ho : Good o) :
    ∃ st', st.mergeWith o = some st' ∧ Good st' ∧ st'.kind = st.kind ∧
      contentOf st' = st.clamp.apply ((contentOf st).merge (contentOf o)) := by
  have hob := good_bins o ho
  have howf := good_wf o ho
  have ho32 := good_keys32 o ho
  cases st with
  | sp c =>
    refine ⟨.sp (c.merge (contentOf o)), by simp [Store.mergeWith, hob], ?_, rfl, rfl⟩
    refine ⟨Content.wf_merge c _ hs.1 howf, ?_⟩
    intro p hp
    rcases Content.mem_merge hp with hm | ⟨q, hq, hqp⟩
    · exact hs.2 p hm
    · rw [← hqp]; exact ho32 q hq
  | pg a =>
    have fallback : ∀ l : Content, l = contentOf o → o.binsList = some l →
        ∃ st', ((a.mergeBins l).map Store.pg) = some st' ∧ Good st' ∧ st'.kind = (Store.pg a).kind ∧
          contentOf st' = (Store.pg a).clamp.apply ((contentOf (.pg a)).merge (contentOf o)) := by
      intro l hl _
      obtain ⟨s', h1, h2, h3⟩ := pg_mergeBins a hs l (hl ▸ howf) (hl ▸ ho32)
      exact ⟨.pg s', by rw [h1]; rfl, h2, rfl, by rw [← hl]; exact h3⟩
    cases o with
    | pg b =>
      have hlog : a.pageLenLog2 = b.pageLenLog2 := by rw [hs.log2, ho.log2]
      obtain ⟨s', h1, h2, h3⟩ := PStore.mergeSame_ok a b hs ho
      refine ⟨.pg s', by simp [Store.mergeWith, hlog, h1], h2, rfl, ?_⟩
      show PStore.content s' = (PStore.content a).merge (PStore.content b)
      apply PStore.content_eq_of_lookup s' h2 _
        (Content.wf_merge _ _ (PStore.content_wf a hs) (PStore.content_wf b ho))
      intro j
      rw [h3, Content.lookup_merge, PStore.lookup_content a hs, PStore.lookup_content b ho]
    | d b =>
      obtain ⟨st', h1, r⟩ := fallback _ rfl hob
      exact ⟨st', by simp only [Store.mergeWith, hob, Option.bind_eq_bind, Option.bind_some]; exact h1, r⟩
    | sp c =>
      obtain ⟨st', h1, r⟩ := fallback _ rfl hob
      exact ⟨st', by simp only [Store.mergeWith, hob, Option.bind_eq_bind, Option.bind_some]; exact h1, r⟩
  | d a =>
    -- the `ForEach` fallback, shared by all pairs that take it
    have fallback : ∃ st', ((a.mergeBins (contentOf o)).map Store.d) = some st' ∧ Good st' ∧
        st'.kind = (Store.d a).kind ∧
        contentOf st' = (Store.d a).clamp.apply ((contentOf (.d a)).merge (contentOf o)) := by
      obtain ⟨s', h1, h2, h3, h4⟩ := d_mergeBins a hs (contentOf o) howf ho32
      exact ⟨.d s', by rw [h1]; rfl, h2, h3, h4⟩
    by_cases he : o.isEmpty = true
    · obtain ⟨r1, r2, r3⟩ := merge_empty_spec (.d a) o hs ho he
      refine ⟨.d a, ?_, r1, r2, r3⟩
      cases o with
      | d b => have he' : b.isEmpty = true := he; simp [Store.mergeWith, he']
      | sp c => simp [Store.mergeWith, he]
      | pg b => simp [Store.mergeWith, he]
    · cases o with
      | sp c =>
        obtain ⟨st', h1, r⟩ := fallback
        refine ⟨st', ?_, r⟩
        simp only [Store.mergeWith, he, hob, Option.bind_eq_bind, Option.bind_some]
        exact h1
      | pg b =>
        obtain ⟨st', h1, r⟩ := fallback
        refine ⟨st', ?_, r⟩
        simp only [Store.mergeWith, he, hob, Option.bind_eq_bind, Option.bind_some]
        exact h1
      | d b =>
        have he' : ¬ b.isEmpty = true := he
        have hob' : b.binsList = some (contentOf (.d b)) := hob
        -- pairs of different dense-family kinds take the fallback
        have viaFallback : (a.kind = .plain ∧ b.kind ≠ .plain) ∨
            (∃ N, a.kind = .low N ∧ ∀ M, b.kind ≠ .low M) ∨
            (∃ N, a.kind = .high N ∧ ∀ M, b.kind ≠ .high M) →
            ∃ st', (Store.d a).mergeWith (.d b) = some st' ∧ Good st' ∧
              st'.kind = (Store.d a).kind ∧
              contentOf st' = (Store.d a).clamp.apply
                ((contentOf (.d a)).merge (contentOf (.d b))) := by
          intro hdiff
          obtain ⟨st', h1, r⟩ := fallback
          refine ⟨st', ?_, r⟩
          simp only [Store.mergeWith, he', hob', Option.bind_eq_bind, Option.bind_some]
          rcases hdiff with ⟨ha, hb⟩ | ⟨N, ha, hb⟩ | ⟨N, ha, hb⟩
          · cases hkb : b.kind with
            | plain => exact absurd hkb hb
            | low M => simp only [ha, Bool.false_eq_true, ↓reduceIte]; exact h1
            | high M => simp only [ha, Bool.false_eq_true, ↓reduceIte]; exact h1
          · cases hkb : b.kind with
            | plain => simp only [ha, Bool.false_eq_true, ↓reduceIte]; exact h1
            | low M => exact absurd hkb (hb M)
            | high M => simp only [ha, Bool.false_eq_true, ↓reduceIte]; exact h1
          · cases hkb : b.kind with
            | plain => simp only [ha, Bool.false_eq_true, ↓reduceIte]; exact h1
            | low M => simp only [ha, Bool.false_eq_true, ↓reduceIte]; exact h1
            | high M => exact absurd hkb (hb M)
        rcases good_d_cases hs with ⟨hka, hia, hba⟩ | ⟨N, hka, hia, hta⟩ | ⟨N, hka, hia, hta⟩
        · rcases good_d_cases ho with ⟨hkb, hib, hbb⟩ | ⟨M, hkb, _, _⟩ | ⟨M, hkb, _, _⟩
          · -- plain / plain: the fast path
            obtain ⟨s', h1, h2, h3, h4, _⟩ := Uncond.mergeSame_ok32 a b hia hib hba hbb
            refine ⟨.d s', ?_, good_of_inv h2 h3, by rw [kind_plain h2.plain, kind_plain hka], ?_⟩
            · simp [Store.mergeWith, he', hka, hkb, h1]
            · rw [clamp_plain hka]
              show DStore.content s' = (DStore.content a).merge (DStore.content b)
              obtain ⟨hra, hla⟩ := plain_spec a hia hba
              obtain ⟨hrb, hlb⟩ := plain_spec b hib hbb
              apply plain_content_eq s' h2 h3 _ (Content.wf_merge _ _ hra.wf hrb.wf)
              intro j; rw [h4, Content.lookup_merge, hla, hlb]
          · exact viaFallback (Or.inl ⟨hka, by rw [hkb]; intro hc; cases hc⟩)
          · exact viaFallback (Or.inl ⟨hka, by rw [hkb]; intro hc; cases hc⟩)
        · rcases good_d_cases ho with ⟨hkb, _, _⟩ | ⟨M, hkb, hib, htb⟩ | ⟨M, hkb, _, _⟩
          · exact viaFallback (Or.inr (Or.inl ⟨N, hka, fun M' => by rw [hkb]; intro hc; cases hc⟩))
          · -- lowest / lowest, any two limits: the fast path
            obtain ⟨s', h1, h2, h3, _, h5⟩ := Uncond.low_mergeSame_ok N M a b hia hib hta htb
            refine ⟨.d s', ?_, good_of_invLow h2 h3, by rw [kind_low h2.kind, kind_low hka], ?_⟩
            · simp [Store.mergeWith, he', hka, hkb, h1]
            · rw [clamp_low hka]; exact h5
          · exact viaFallback (Or.inr (Or.inl ⟨N, hka, fun M' => by rw [hkb]; intro hc; cases hc⟩))
        · rcases good_d_cases ho with ⟨hkb, _, _⟩ | ⟨M, hkb, _, _⟩ | ⟨M, hkb, hib, htb⟩
          · exact viaFallback (Or.inr (Or.inr ⟨N, hka, fun M' => by rw [hkb]; intro hc; cases hc⟩))
          · exact viaFallback (Or.inr (Or.inr ⟨N, hka, fun M' => by rw [hkb]; intro hc; cases hc⟩))
          · -- highest / highest, any two limits: the fast path
            obtain ⟨s', h1, h2, h3, _, h5⟩ := Uncond.high_mergeSame_ok N M a b hia hib hta htb
            refine ⟨.d s', ?_, good_of_invHigh h2 h3, by rw [kind_high h2.kind, kind_high hka], ?_⟩
            · simp [Store.mergeWith, he', hka, hkb, h1]
            · rw [clamp_high hka]; exact h5

/-! ## `Clear` and `Reweight` -/

theorem good_clear (st : Store) (h : Good st) :
    Good st.clear ∧ contentOf st.clear = [] ∧ st.clear.kind = st.kind := by
  cases st with
  | d s =>
    rcases good_d_cases h with ⟨hk, hi, hb⟩ | ⟨N, hk, hi, ht⟩ | ⟨N, hk, hi, ht⟩
    · obtain ⟨c1, c2⟩ := DStore.clear_spec s hi
      refine ⟨good_of_inv c1 (clear_bounded32 s), ?_, rfl⟩
      exact plain_content_eq s.clear c1 (clear_bounded32 s) [] Content.wf_nil
        (fun j => by rw [c2 j]; rfl)
    · obtain ⟨c1, c2, _, c4⟩ := low_clear_ok N s hi
      exact ⟨good_of_invLow c1 c2, c4, rfl⟩
    · obtain ⟨c1, c2, _, c4⟩ := high_clear_ok N s hi
      exact ⟨good_of_invHigh c1 c2, c4, rfl⟩
  | sp c => exact ⟨⟨Content.wf_nil, by simp⟩, rfl, rfl⟩
  | pg s =>
    obtain ⟨c1, c2⟩ := PStore.clear_spec s h
    exact ⟨c1, (PStore.content_eq_nil_iff _ c1).2 c2, rfl⟩

theorem scale_one (c : Content) : c.scale 1 = c := by
  unfold Content.scale
  conv => rhs; rw [← List.map_id c]
  apply List.map_congr_left
  intro p _
  simp

/-- `Reweight(w)` for `w > 0` (for `w ≤ 0` the library returns an error and leaves the store
    unchanged) -/
theorem good_reweight (st : Store) (h : Good st) (w : Rat) (hw : 0 < w) :
    ∃ st', st.reweight w = some (.ok st') ∧ Good st' ∧ st'.kind = st.kind ∧
      contentOf st' = (contentOf st).scale w := by
  unfold Store.reweight
  rw [if_neg (by grind)]
  by_cases h1 : w = 1
  · rw [if_pos h1]
    exact ⟨st, rfl, h, rfl, by rw [h1, scale_one]⟩
  · rw [if_neg h1]
    cases st with
    | d s =>
      rcases good_d_cases h with ⟨hk, hi, hb⟩ | ⟨N, hk, hi, ht⟩ | ⟨N, hk, hi, ht⟩
      · obtain ⟨s', r1, r2, r3, _⟩ := DStore.reweight_ok s hi w hw
        have hb' := reweight_bounded32 s hi hb w hw s' r1
        refine ⟨.d s', by simp [r1], good_of_inv r2 hb', ?_, ?_⟩
        · rw [kind_plain r2.plain, kind_plain hk]
        · show DStore.content s' = (DStore.content s).scale w
          obtain ⟨hr, hlk⟩ := plain_spec s hi hb
          apply plain_content_eq s' r2 hb' _ (Content.wf_scale _ w hr.wf hw)
          intro j; rw [r3, Content.lookup_scale, hlk]
      · obtain ⟨s', r1, r2, r3, _, r5⟩ := low_reweight_ok N s hi ht w hw
        exact ⟨.d s', by simp [r1], good_of_invLow r2 r3,
          by rw [kind_low r2.kind, kind_low hk], r5⟩
      · obtain ⟨s', r1, r2, r3, _, r5⟩ := high_reweight_ok N s hi ht w hw
        exact ⟨.d s', by simp [r1], good_of_invHigh r2 r3,
          by rw [kind_high r2.kind, kind_high hk], r5⟩
    | sp c =>
      refine ⟨.sp (c.scale w), rfl, ⟨Content.wf_scale c w h.1 hw, ?_⟩, rfl, rfl⟩
      intro q hq
      obtain ⟨p, hp, rfl⟩ := Content.mem_scale hq
      exact h.2 p hp
    | pg s =>
      obtain ⟨s', r1, r2, r3⟩ := PStore.reweight_ok s h w hw
      refine ⟨.pg s', by simp [r1], r2, rfl, ?_⟩
      show PStore.content s' = (PStore.content s).scale w
      apply PStore.content_eq_of_lookup s' r2 _
        (Content.wf_scale _ w (PStore.content_wf s h) hw)
      intro j; rw [r3, Content.lookup_scale, PStore.lookup_content s h]

/-! ## histories on stores of every kind

A history is a list of operations of the `store.Store` interface; the argument of a merge is
itself the result of a history run on a fresh store of ANY kind.  The same history is run on the
SPEC store (`SpecStore` of `DDS.Model.Bins`: a plain finite map plus the clamping rule of the
kind). -/

inductive SOp where
  | add (i : Int) (w : Rat)
  | mergeFrom (k : StoreKind) (ops : List SOp)
  | clear
  | reweight (w : Rat)

/-- the clamping rule of a store kind -/
def clampOfKind : StoreKind → Clamp
  | .low n => .low n
  | .high n => .high n
  | _ => .none

theorem clamp_new (k : StoreKind) : (Store.new k).clamp = clampOfKind k := by
  cases k <;> rfl

theorem clamp_eq_of_kind (st : Store) (k : StoreKind) (h : st.kind = k) :
    st.clamp = clampOfKind k := by
  rw [← clamp_new k]
  exact clamp_of_kind (by rw [h]; cases k <;> rfl)

mutual
/-- one operation on the model store (`none` = panic, or `Reweight` refused) -/
def stepS (st : Store) : SOp → Option Store
  | .add i w => st.addWithCount i w
  | .mergeFrom k ops => (runS (Store.new k) ops).bind fun o => st.mergeWith o
  | .clear => some st.clear
  | .reweight w =>
    match st.reweight w with
    | some (.ok st') => some st'
    | _ => none
/-- a history on the model store -/
def runS (st : Store) : List SOp → Option Store
  | [] => some st
  | op :: ops => (stepS st op).bind fun st' => runS st' ops
end

mutual
/-- one operation on the spec store -/
def specStepS (s : SpecStore) : SOp → SpecStore
  | .add i w => s.add i w
  | .mergeFrom k ops => s.mergeContent (specRunS (SpecStore.new (clampOfKind k)) ops).c
  | .clear => s.clear
  | .reweight w => s.reweight w
/-- a history on the spec store -/
def specRunS (s : SpecStore) : List SOp → SpecStore
  | [] => s
  | op :: ops => specRunS (specStepS s op) ops
end

/-- the content the SPEC store of kind `k` holds after the history -/
def specRun (k : StoreKind) (ops : List SOp) : Content :=
  (specRunS (SpecStore.new (clampOfKind k)) ops).c

mutual
/-- admissible operations: int32 indexes, non-negative weights, positive reweighting factors,
    at least one bin in collapsing stores — in merge arguments too -/
def SOp.OK : SOp → Prop
  | .add i w => I32 i ∧ 0 ≤ w
  | .mergeFrom k ops => KindOK k ∧ OKs ops
  | .clear => True
  | .reweight w => 0 < w
def OKs : List SOp → Prop
  | [] => True
  | op :: ops => op.OK ∧ OKs ops
end

theorem specStepS_clamp (s : SpecStore) (op : SOp) : (specStepS s op).clamp = s.clamp := by
  cases op <;> rfl

mutual
theorem step_ok (st : Store) (h : Good st) (s : SpecStore) (hcl : s.clamp = st.clamp)
    (hc : s.c = contentOf st) : (op : SOp) → op.OK →
    ∃ st', stepS st op = some st' ∧ Good st' ∧ st'.kind = st.kind ∧
      (specStepS s op).c = contentOf st'
  | .add i w, hop => by
    obtain ⟨st', h1, h2, h3, h4⟩ := good_add st h i hop.1 w hop.2
    refine ⟨st', h1, h2, h3, ?_⟩
    rw [h4, ← hcl, ← hc]; rfl
  | .mergeFrom k ops, hop => by
    obtain ⟨hn1, hn2, hn3⟩ := good_new k hop.1
    obtain ⟨o, ho1, ho2, _, ho4⟩ := run_ok (Store.new k) hn1 (SpecStore.new (clampOfKind k))
      (clamp_new k).symm hn2.symm ops hop.2
    obtain ⟨st', h1, h2, h3, h4⟩ := good_merge st o h ho2
    refine ⟨st', ?_, h2, h3, ?_⟩
    · simp only [stepS, ho1, Option.bind_some]; exact h1
    · rw [h4, ← hcl, ← hc, ← ho4]; rfl
  | .clear, _ => by
    obtain ⟨c1, c2, c3⟩ := good_clear st h
    exact ⟨st.clear, rfl, c1, c3, by rw [c2]; rfl⟩
  | .reweight w, hop => by
    obtain ⟨st', h1, h2, h3, h4⟩ := good_reweight st h w hop
    refine ⟨st', by simp only [stepS, h1], h2, h3, ?_⟩
    rw [h4, ← hc]; rfl
theorem run_ok (st : Store) (h : Good st) (s : SpecStore) (hcl : s.clamp = st.clamp)
    (hc : s.c = contentOf st) : (ops : List SOp) → OKs ops →
    ∃ st', runS st ops = some st' ∧ Good st' ∧ st'.kind = st.kind ∧
      (specRunS s ops).c = contentOf st'
  | [], _ => ⟨st, rfl, h, rfl, hc⟩
  | op :: ops, hops => by
    obtain ⟨st1, h1, h2, h3, h4⟩ := step_ok st h s hcl hc op hops.1
    obtain ⟨st2, k1, k2, k3, k4⟩ := run_ok st1 h2 (specStepS s op)
      (by rw [specStepS_clamp, hcl]; exact (clamp_of_kind h3).symm) h4 ops hops.2
    refine ⟨st2, ?_, k2, by rw [k3, h3], k4⟩
    simp only [runS, h1, Option.bind_some]; exact k1
end

/-- EVERY history, on a store of EVERY kind, with merge arguments of every kind: the model never
    panics, stays `Good`, keeps its kind, and its canonical content is exactly the content the
    SPEC store (finite map + clamping rule of the kind) holds after the same history -/
theorem store_history (k : StoreKind) (hk : KindOK k) (ops : List SOp) (hops : OKs ops) :
    ∃ st, runS (Store.new k) ops = some st ∧ Good st ∧ st.kind = k ∧
      contentOf st = specRun k ops := by
  obtain ⟨hn1, hn2, hn3⟩ := good_new k hk
  obtain ⟨st, h1, h2, h3, h4⟩ := run_ok (Store.new k) hn1 (SpecStore.new (clampOfKind k))
    (clamp_new k).symm hn2.symm ops hops
  exact ⟨st, h1, h2, by rw [h3, hn3], h4.symm⟩

/-- … hence every observer of the store is the observer of the spec content -/
theorem store_history_refines (k : StoreKind) (hk : KindOK k) (ops : List SOp) (hops : OKs ops) :
    ∃ st, runS (Store.new k) ops = some st ∧ st.Refines (specRun k ops) := by
  obtain ⟨st, h1, h2, _, h4⟩ := store_history k hk ops hops
  exact ⟨st, h1, h4 ▸ good_refines st h2⟩

/-! ## examples (every hypothesis is met by concrete stores) -/

/-- `good_new` -/
example : Good (Store.new (.low 2)) ∧ Good (Store.new .pag) ∧ Good (Store.new .dense) :=
  ⟨(good_new (.low 2) (by decide)).1, (good_new .pag trivial).1, (good_new .dense trivial).1⟩

/-- `good_add`, `good_refines`: a unit add into a fresh paginated store, observed -/
example : ∃ st, (Store.new .pag).addWithCount 7 1 = some st ∧ contentOf st = [(7, 1)] ∧
    st.totalCount = 1 ∧ st.minIndex? = some 7 ∧ st.keyAtRank 0 = 7 := by
  obtain ⟨h0, c0, _⟩ := good_new .pag trivial
  obtain ⟨st, h1, h2, _, h4⟩ := good_add _ h0 7 (by decide) 1 (by decide)
  have hc : contentOf st = [(7, 1)] := by rw [h4, c0]; decide +kernel
  have hr := good_refines st h2
  rw [hc] at hr
  exact ⟨st, h1, hc, by rw [hr.total]; decide +kernel, by rw [hr.min]; rfl,
    by rw [hr.kar (by simp) 0]; decide +kernel⟩

/-- `store_history`: a dense store after three adds merged into a lowest-collapsing store with
    2 bins — through the `ForEach` fallback (different kinds) — 1 and 3 end up on the edge 4 -/
example : ∃ st, runS (Store.new (.low 2)) [.mergeFrom .dense [.add 1 1, .add 5 1, .add 3 1]]
    = some st ∧ Good st ∧ contentOf st = [(4, 2), (5, 1)] := by
  obtain ⟨st, h1, h2, _, h4⟩ := store_history (.low 2) (by decide)
    [.mergeFrom .dense [.add 1 1, .add 5 1, .add 3 1]]
    (by simp only [OKs, SOp.OK, KindOK, I32, minInt32, maxInt32]; decide +kernel)
  exact ⟨st, h1, h2, by rw [h4]; decide +kernel⟩

/-- `good_merge` on a concrete pair: the dense store of the previous example into a fresh
    highest-collapsing store with 2 bins: 3 and 5 end up on the edge 2 -/
example : ∃ o st, runS (Store.new .dense) [.add 1 1, .add 5 1, .add 3 1] = some o ∧
    (Store.new (.high 2)).mergeWith o = some st ∧ contentOf st = [(1, 1), (2, 2)] := by
  obtain ⟨o, o1, o2, _, o4⟩ := store_history .dense trivial [.add 1 1, .add 5 1, .add 3 1]
    (by simp only [OKs, SOp.OK, I32, minInt32, maxInt32]; decide +kernel)
  obtain ⟨g1, g2, _⟩ := good_new (.high 2) (by decide)
  obtain ⟨st, h1, _, _, h4⟩ := good_merge _ o g1 o2
  refine ⟨o, st, o1, h1, ?_⟩
  rw [h4, g2, o4]; decide +kernel

/-- `store_history` with every operation and a mix of five kinds: a highest-collapsing receiver
    (3 bins) absorbs a paginated store, a lowest-collapsing store that itself absorbed a sparse
    one, is reweighted, cleared, and absorbs a dense and a highest-collapsing store -/
example : ∃ st, runS (Store.new (.high 3))
      [.add 1 1, .mergeFrom .pag [.add 2 1, .add 9 2],
       .mergeFrom (.low 2) [.add 0 1, .add 7 1, .mergeFrom .sparse [.add 4 1]],
       .reweight 2, .clear,
       .mergeFrom .dense [.add 10 1, .add 20 1, .reweight 3],
       .mergeFrom (.high 5) [.add 11 1, .add 30 1], .add 12 0] = some st ∧
    Good st ∧ st.kind = .high 3 ∧ contentOf st = [(10, 3), (11, 1), (12, 4)] := by
  obtain ⟨st, h1, h2, h3, h4⟩ := store_history (.high 3) (by decide)
      [.add 1 1, .mergeFrom .pag [.add 2 1, .add 9 2],
       .mergeFrom (.low 2) [.add 0 1, .add 7 1, .mergeFrom .sparse [.add 4 1]],
       .reweight 2, .clear,
       .mergeFrom .dense [.add 10 1, .add 20 1, .reweight 3],
       .mergeFrom (.high 5) [.add 11 1, .add 30 1], .add 12 0]
    (by simp only [OKs, SOp.OK, KindOK, I32, minInt32, maxInt32]; decide +kernel)
  exact ⟨st, h1, h2, h3, by rw [h4]; decide +kernel⟩

/-- `good_clear`, `good_reweight` -/
example : ∃ o st, runS (Store.new (.low 8)) [.add 1 1, .add 5 3] = some o ∧
    o.reweight (1/2) = some (.ok st) ∧ contentOf st = [(1, 1/2), (5, 3/2)] ∧
    contentOf o.clear = [] ∧ Good o.clear := by
  obtain ⟨o, o1, o2, _, o4⟩ := store_history (.low 8) (by decide) [.add 1 1, .add 5 3]
    (by simp only [OKs, SOp.OK, I32, minInt32, maxInt32]; decide +kernel)
  obtain ⟨st, h1, _, _, h4⟩ := good_reweight o o2 (1/2) (by decide +kernel)
  obtain ⟨c1, c2, _⟩ := good_clear o o2
  exact ⟨o, st, o1, h1, by rw [h4, o4]; decide +kernel, c2, c1⟩

end DDS.Lift
