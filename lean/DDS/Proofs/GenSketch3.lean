/-
  DDS.Proofs.GenSketch3 — the BATCH QUANTILE METHODS of the regenerated sketch code
  (`DDS/Generated/CodeSketch.lean`): `DDSketch.GetValuesAtQuantiles` (ddsketch.go:199) and
  `DDSketchWithExactSummaryStatistics.GetValuesAtQuantiles` (ddsketch.go:642), both translated with
  their `for` loops (`….loop1`: structural recursion over the ranged slice with an index counter,
  writing `values[i]` through `GoSem.set`).

  * generic part (ANY `[MapI M] [StoreI S]`): the loops are computed in closed form (`goBatch`, the
    first refused quantile wins; `goClamp` entry by entry), with the loop invariant
    "`values` has `i + len(rest)` entries" — so the writes `values[i] = …` are always in range and
    the generated functions never return `.panic` / `.nofuel`, whatever the fuel
    (`GetValuesAtQuantiles_eq`, `XGetValuesAtQuantiles_eq`, `GetValuesAtQuantiles_total`,
    `XGetValuesAtQuantiles_total`);
  * `batch_eq_singles`, `Xbatch_eq_singles`: every entry of a successful batch answer is the answer
    of the single query (the C12 clause "the batch quantile query equals the single queries"), on the
    generated code alone;
  * `GetValuesAtQuantiles_rel`: against the model's `Sketch.quantiles env s qs`
    (`= qs.mapM (Sketch.quantile env s)`): the same list with a nil error, or the empty (Go: nil)
    slice with the error of the FIRST refused quantile;
  * `XGetValuesAtQuantiles_rel`: the exact-summary variant against `qs.mapM (XSketch.quantile env x)`
    (the model has no batch function of its own for that variant): each entry clamped as
    `XSketch.clampTo` clamps; on a refusal Go returns `(nil, err)` and the clamping loop runs over the
    empty slice.

  No disagreement between generated code and model was found for these two methods.

  Core Lean only.
-/
import DDS.Proofs.GenSketch2

namespace DDS.GenSketch

open DDS DDS.GoSem DDS.Gen.Sketch

/-! ### slices: facts about `GoSem.set` / `GoSem.idx` at a natural index, and list surgery -/

theorem set_nat {α} (l : List α) (i : Nat) (v : α) (h : i < l.length) :
    GoSem.set l (i : Int) v = some (l.set i v) := by
  unfold GoSem.set
  have : ¬ ((i : Int) < 0 ∨ (l.length : Int) ≤ (i : Int)) := by omega
  rw [if_neg this]
  simp

theorem idx_nat {α} (l : List α) (i : Nat) (h : i < l.length) :
    GoSem.idx l (i : Int) = some l[i] := by
  unfold GoSem.idx
  have : ¬ ((i : Int) < 0) := by omega
  rw [if_neg this]
  simp [h]

/-- after the write `l[i] = v`, the first `i+1` entries are the first `i` old ones and `v` -/
theorem take_succ_set {α} (l : List α) (i : Nat) (v : α) (h : i < l.length) :
    (l.set i v).take (i + 1) = l.take i ++ [v] := by
  induction l generalizing i with
  | nil => simp at h
  | cons a t ih =>
    cases i with
    | zero => simp
    | succ j =>
      have hj : j < t.length := by simpa using h
      simp [ih j hj]

/-- one step of an in-place map: entry `i` replaced by its image, entries before `i` kept, entries
    after `i` still to be mapped -/
theorem map_step {α} (c : α → α) (l : List α) (i : Nat) (h : i < l.length) :
    (l.set i (c l[i])).take (i + 1) ++ ((l.set i (c l[i])).drop (i + 1)).map c =
      l.take i ++ (l.drop i).map c := by
  induction l generalizing i with
  | nil => simp at h
  | cons a t ih =>
    cases i with
    | zero => simp
    | succ j =>
      have hj : j < t.length := by simpa using h
      have := ih j hj
      simpa using this

/-! ## generic part: any mapping, any store -/

section generic

variable {M S : Type} [MapI M] [StoreI S] [Inhabited M] [Inhabited S]

/-- what the loop of `DDSketch.GetValuesAtQuantiles` computes: the single answers in order; the
    first non-nil error stops the loop -/
def goBatch (g : DDSketch M S) : List F64 → Except GoErr (List F64)
  | [] => .ok []
  | q :: rest =>
    if ((DDSketch.GetValueAtQuantile g q).2 != GoErr.nil) then
      .error (DDSketch.GetValueAtQuantile g q).2
    else
      match goBatch g rest with
      | .ok vs => .ok ((DDSketch.GetValueAtQuantile g q).1 :: vs)
      | .error e => .error e

/-- THE LOOP INVARIANT of `GetValuesAtQuantiles`: entering an iteration with counter `i`,
    `len(values) = i + len(remaining quantiles)`; so `values[i] = val` is in range, and the loop
    leaves the first `i` entries alone and fills in the rest — or returns `(nil, err)` at the first
    refused quantile -/
theorem loop1_eq (g : DDSketch M S) :
    ∀ (qs : List F64) (i : Nat) (values : List F64), i + qs.length = values.length →
      DDSketch.GetValuesAtQuantiles.loop1 g qs (i : Int) values =
        match goBatch g qs with
        | .ok vs => .done (values.take i ++ vs)
        | .error e => .ret ([], e) := by
  intro qs
  induction qs with
  | nil =>
    intro i values h
    have hi : i = values.length := by simpa using h
    subst hi
    simp [DDSketch.GetValuesAtQuantiles.loop1, goBatch]
  | cons q rest ih =>
    intro i values h
    have hlen : i < values.length := by simp only [List.length_cons] at h; omega
    rcases hq : DDSketch.GetValueAtQuantile g q with ⟨val, err⟩
    simp only [DDSketch.GetValuesAtQuantiles.loop1, goBatch, hq]
    by_cases he : (err != GoErr.nil) = true
    · simp [he]
    · simp only [he, Bool.false_eq_true, if_false]
      rw [set_nat values i val hlen, optL_some]
      have hcast : ((i : Int) + 1) = ((i + 1 : Nat) : Int) := by omega
      rw [hcast, ih (i + 1) (values.set i val) (by simp only [List.length_cons] at h; simp; omega)]
      cases goBatch g rest with
      | error e => rfl
      | ok vs =>
        simp only [take_succ_set values i val hlen]
        simp

/-- `GetValuesAtQuantiles` in closed form, for ANY fuel: never `.panic`, never `.nofuel` -/
theorem GetValuesAtQuantiles_eq (fuel : Nat) (g : DDSketch M S) (qs : List F64) :
    DDSketch.GetValuesAtQuantiles fuel g qs =
      match goBatch g qs with
      | .ok vs => .ok (vs, GoErr.nil)
      | .error e => .ok ([], e) := by
  unfold DDSketch.GetValuesAtQuantiles
  have h := loop1_eq g qs 0 (List.replicate (Int.toNat (GoSem.len qs)) (F64.fin 0))
    (by simp [GoSem.len])
  have h0 : ((0 : Nat) : Int) = (0 : Int) := rfl
  rw [h0] at h
  simp only [h]
  cases goBatch g qs with
  | error e => rfl
  | ok vs => simp

/-- a refusal of the batch loop is a non-nil error -/
theorem goBatch_error_ne_nil (g : DDSketch M S) (qs : List F64) (e : GoErr)
    (h : goBatch g qs = .error e) : e ≠ GoErr.nil := by
  induction qs with
  | nil => simp [goBatch] at h
  | cons q rest ih =>
    simp only [goBatch] at h
    by_cases he : ((DDSketch.GetValueAtQuantile g q).2 != GoErr.nil) = true
    · simp only [he, if_true, Except.error.injEq] at h
      rw [← h]; simpa using he
    · simp only [he, Bool.false_eq_true, if_false] at h
      cases hr : goBatch g rest with
      | error e' =>
        rw [hr] at h
        simp only [Except.error.injEq] at h
        exact ih (h ▸ hr)
      | ok vs => rw [hr] at h; cases h

/-- a successful batch loop: as many answers as quantiles, each the single query's answer -/
theorem goBatch_ok (g : DDSketch M S) (qs vs : List F64) (h : goBatch g qs = .ok vs) :
    vs.length = qs.length ∧
      ∀ (i : Nat) (hi : i < qs.length) (hv : i < vs.length),
        DDSketch.GetValueAtQuantile g qs[i] = (vs[i], GoErr.nil) := by
  induction qs generalizing vs with
  | nil =>
    simp only [goBatch, Except.ok.injEq] at h
    subst h
    exact ⟨rfl, fun i hi => absurd hi (by simp)⟩
  | cons q rest ih =>
    simp only [goBatch] at h
    by_cases he : ((DDSketch.GetValueAtQuantile g q).2 != GoErr.nil) = true
    · simp [he] at h
    · simp only [he, Bool.false_eq_true, if_false] at h
      cases hr : goBatch g rest with
      | error e' => rw [hr] at h; cases h
      | ok ws =>
        rw [hr] at h
        simp only [Except.ok.injEq] at h
        subst h
        obtain ⟨hl, hall⟩ := ih ws hr
        refine ⟨by simp [hl], ?_⟩
        intro i hi hv
        cases i with
        | zero =>
          have : (DDSketch.GetValueAtQuantile g q).2 = GoErr.nil := by simpa using he
          simp only [List.getElem_cons_zero]
          exact Prod.ext rfl this
        | succ j =>
          simp only [List.getElem_cons_succ]
          exact hall j (by simpa using hi) (by simpa using hv)

/-- the batch method returns a Go pair for every input and every fuel -/
theorem GetValuesAtQuantiles_total (fuel : Nat) (g : DDSketch M S) (qs : List F64) :
    ∃ r, DDSketch.GetValuesAtQuantiles fuel g qs = .ok r := by
  rw [GetValuesAtQuantiles_eq]
  cases goBatch g qs with
  | error e => exact ⟨_, rfl⟩
  | ok vs => exact ⟨_, rfl⟩

/-- the fuel argument is irrelevant (the loop is a structural recursion over the slice) -/
theorem GetValuesAtQuantiles_fuel (f f' : Nat) (g : DDSketch M S) (qs : List F64) :
    DDSketch.GetValuesAtQuantiles f g qs = DDSketch.GetValuesAtQuantiles f' g qs := by
  rw [GetValuesAtQuantiles_eq, GetValuesAtQuantiles_eq]

/-- a nil error of the batch method means the loop ran to its end -/
theorem goBatch_of_nil (fuel : Nat) (g : DDSketch M S) (qs vs : List F64)
    (h : DDSketch.GetValuesAtQuantiles fuel g qs = .ok (vs, GoErr.nil)) : goBatch g qs = .ok vs := by
  rw [GetValuesAtQuantiles_eq] at h
  cases hb : goBatch g qs with
  | error e =>
    rw [hb] at h
    simp only [Res.ok.injEq, Prod.mk.injEq] at h
    exact absurd h.2 (goBatch_error_ne_nil g qs e hb)
  | ok ws =>
    rw [hb] at h
    simp only [Res.ok.injEq, Prod.mk.injEq, and_true] at h
    rw [h]

/-- C12, "the batch quantile query equals the single queries", on the generated code alone: a batch
    answer with a nil error has one entry per quantile, and entry `i` is the single query's answer
    (which has a nil error too) -/
theorem batch_eq_singles (fuel : Nat) (g : DDSketch M S) (qs vs : List F64)
    (h : DDSketch.GetValuesAtQuantiles fuel g qs = .ok (vs, GoErr.nil)) :
    vs.length = qs.length ∧
      ∀ (i : Nat) (hi : i < qs.length) (hv : i < vs.length),
        DDSketch.GetValueAtQuantile g qs[i] = (vs[i], GoErr.nil) :=
  goBatch_ok g qs vs (goBatch_of_nil fuel g qs vs h)

/-- … and conversely a refused batch answer is the empty (nil) slice with the error of a single
    query, namely the first refused one: all the earlier ones are accepted -/
theorem batch_error_single (fuel : Nat) (g : DDSketch M S) (qs vs : List F64) (e : GoErr)
    (h : DDSketch.GetValuesAtQuantiles fuel g qs = .ok (vs, e)) (he : e ≠ GoErr.nil) :
    vs = [] ∧ ∃ (i : Nat) (hi : i < qs.length),
      (DDSketch.GetValueAtQuantile g qs[i]).2 = e ∧
      ∀ (j : Nat) (hj : j < qs.length), j < i → (DDSketch.GetValueAtQuantile g qs[j]).2 = GoErr.nil := by
  rw [GetValuesAtQuantiles_eq] at h
  cases hb : goBatch g qs with
  | ok ws =>
    rw [hb] at h
    simp only [Res.ok.injEq, Prod.mk.injEq] at h
    exact absurd h.2.symm he
  | error e' =>
    rw [hb] at h
    simp only [Res.ok.injEq, Prod.mk.injEq] at h
    obtain ⟨h1, h2⟩ := h
    subst h2
    refine ⟨h1.symm, ?_⟩
    clear h1 he
    induction qs with
    | nil => simp [goBatch] at hb
    | cons q rest ih =>
      simp only [goBatch] at hb
      by_cases hq : ((DDSketch.GetValueAtQuantile g q).2 != GoErr.nil) = true
      · simp only [hq, if_true, Except.error.injEq] at hb
        exact ⟨0, by simp, by simpa using hb, fun j _ hj0 => absurd hj0 (by omega)⟩
      · simp only [hq, Bool.false_eq_true, if_false] at hb
        cases hr : goBatch g rest with
        | ok ws => rw [hr] at hb; cases hb
        | error e'' =>
          rw [hr] at hb
          simp only [Except.error.injEq] at hb
          subst hb
          obtain ⟨i, hi, h1, h2⟩ := ih hr
          refine ⟨i + 1, by simpa using hi, by simpa using h1, ?_⟩
          intro j hj hji
          cases j with
          | zero => simpa using hq
          | succ k =>
            simp only [List.getElem_cons_succ]
            exact h2 k (by simpa using hj) (by omega)

/-! ### the exact-summary variant, generic part -/

/-- the clamping of one entry, as the second loop writes it -/
def goClamp (mn mx v : F64) : F64 :=
  if F64.lt v mn then mn else if F64.lt mx v then mx else v

/-- the single query of the exact variant is the plain single query, clamped; the error passes -/
theorem XGetValueAtQuantile_eq (g : DDSketchWithExactSummaryStatistics M S) (q : F64) :
    DDSketchWithExactSummaryStatistics.GetValueAtQuantile g q =
      (goClamp (DDS.Gen.Stat.SummaryStatistics.Min g.summaryStatistics)
          (DDS.Gen.Stat.SummaryStatistics.Max g.summaryStatistics)
          (DDSketch.GetValueAtQuantile g.DDSketch q).1,
        (DDSketch.GetValueAtQuantile g.DDSketch q).2) := by
  unfold DDSketchWithExactSummaryStatistics.GetValueAtQuantile goClamp
  rcases DDSketch.GetValueAtQuantile g.DDSketch q with ⟨val, err⟩
  simp only []
  split
  · rfl
  · split <;> rfl

/-- THE LOOP INVARIANT of the clamping loop (`for i := range values`): entering an iteration with
    counter `i`, `len(values) = i + len(remaining)`; the reads and writes of `values[i]` are in range;
    the first `i` entries are final, the others are clamped one after the other -/
theorem Xloop1_eq (mn mx : F64) :
    ∀ (l : List F64) (i : Nat) (values : List F64), i + l.length = values.length →
      DDSketchWithExactSummaryStatistics.GetValuesAtQuantiles.loop1 (M := M) (S := S) mn mx l
          (i : Int) values =
        .done (values.take i ++ (values.drop i).map (goClamp mn mx)) := by
  intro l
  induction l with
  | nil =>
    intro i values h
    have hi : i = values.length := by simpa using h
    subst hi
    simp [DDSketchWithExactSummaryStatistics.GetValuesAtQuantiles.loop1]
  | cons a rest ih =>
    intro i values h
    have hlen : i < values.length := by simp only [List.length_cons] at h; omega
    have hcast : ((i : Int) + 1) = ((i + 1 : Nat) : Int) := by omega
    have hrest : ∀ v, i + 1 + rest.length = (values.set i v).length := by
      intro v; simp only [List.length_cons] at h; simp; omega
    simp only [DDSketchWithExactSummaryStatistics.GetValuesAtQuantiles.loop1,
      idx_nat values i hlen, optL_some]
    by_cases h1 : F64.lt values[i] mn = true
    · simp only [h1, if_true]
      rw [set_nat values i mn hlen, optL_some, hcast, ih (i + 1) _ (hrest mn)]
      have hc : goClamp mn mx values[i] = mn := by simp [goClamp, h1]
      have hm := map_step (goClamp mn mx) values i hlen
      rw [hc] at hm
      rw [hm]
    · simp only [h1, Bool.false_eq_true, if_false]
      by_cases h2 : F64.lt mx values[i] = true
      · simp only [h2, if_true]
        rw [set_nat values i mx hlen, optL_some, hcast, ih (i + 1) _ (hrest mx)]
        have hc : goClamp mn mx values[i] = mx := by simp [goClamp, h1, h2]
        have hm := map_step (goClamp mn mx) values i hlen
        rw [hc] at hm
        rw [hm]
      · simp only [h2, Bool.false_eq_true, if_false]
        have hc : goClamp mn mx values[i] = values[i] := by simp [goClamp, h1, h2]
        have hs : values.set i (goClamp mn mx values[i]) = values := by
          rw [hc]; exact List.set_getElem_self hlen
        have hm := map_step (goClamp mn mx) values i hlen
        rw [hs] at hm
        rw [hcast, ih (i + 1) values (by simp only [List.length_cons] at h; omega), hm]

/-- `DDSketchWithExactSummaryStatistics.GetValuesAtQuantiles` in closed form, for ANY fuel: the plain
    batch answer clamped entry by entry; a refusal gives the empty (nil) slice and the error -/
theorem XGetValuesAtQuantiles_eq (fuel : Nat) (g : DDSketchWithExactSummaryStatistics M S)
    (qs : List F64) :
    DDSketchWithExactSummaryStatistics.GetValuesAtQuantiles fuel g qs =
      match goBatch g.DDSketch qs with
      | .ok vs => .ok (vs.map (goClamp (DDS.Gen.Stat.SummaryStatistics.Min g.summaryStatistics)
            (DDS.Gen.Stat.SummaryStatistics.Max g.summaryStatistics)), GoErr.nil)
      | .error e => .ok ([], e) := by
  unfold DDSketchWithExactSummaryStatistics.GetValuesAtQuantiles
  rw [GetValuesAtQuantiles_eq]
  have h0 : ((0 : Nat) : Int) = (0 : Int) := rfl
  cases goBatch g.DDSketch qs with
  | error e =>
    simp only [Res.bind_ok]
    have h := Xloop1_eq (M := M) (S := S)
      (DDS.Gen.Stat.SummaryStatistics.Min g.summaryStatistics)
      (DDS.Gen.Stat.SummaryStatistics.Max g.summaryStatistics) [] 0 [] rfl
    rw [h0] at h
    rw [h]
    rfl
  | ok vs =>
    simp only [Res.bind_ok]
    have h := Xloop1_eq (M := M) (S := S)
      (DDS.Gen.Stat.SummaryStatistics.Min g.summaryStatistics)
      (DDS.Gen.Stat.SummaryStatistics.Max g.summaryStatistics) vs 0 vs (by simp)
    rw [h0] at h
    rw [h]
    simp

theorem XGetValuesAtQuantiles_total (fuel : Nat) (g : DDSketchWithExactSummaryStatistics M S)
    (qs : List F64) :
    ∃ r, DDSketchWithExactSummaryStatistics.GetValuesAtQuantiles fuel g qs = .ok r := by
  rw [XGetValuesAtQuantiles_eq]
  cases goBatch g.DDSketch qs with
  | error e => exact ⟨_, rfl⟩
  | ok vs => exact ⟨_, rfl⟩

theorem XGetValuesAtQuantiles_fuel (f f' : Nat) (g : DDSketchWithExactSummaryStatistics M S)
    (qs : List F64) :
    DDSketchWithExactSummaryStatistics.GetValuesAtQuantiles f g qs =
      DDSketchWithExactSummaryStatistics.GetValuesAtQuantiles f' g qs := by
  rw [XGetValuesAtQuantiles_eq, XGetValuesAtQuantiles_eq]

/-- C12 for the exact variant, on the generated code alone: a batch answer with a nil error has one
    entry per quantile, and entry `i` is the (clamped) single query's answer -/
theorem Xbatch_eq_singles (fuel : Nat) (g : DDSketchWithExactSummaryStatistics M S)
    (qs vs : List F64)
    (h : DDSketchWithExactSummaryStatistics.GetValuesAtQuantiles fuel g qs = .ok (vs, GoErr.nil)) :
    vs.length = qs.length ∧
      ∀ (i : Nat) (hi : i < qs.length) (hv : i < vs.length),
        DDSketchWithExactSummaryStatistics.GetValueAtQuantile g qs[i] = (vs[i], GoErr.nil) := by
  rw [XGetValuesAtQuantiles_eq] at h
  cases hb : goBatch g.DDSketch qs with
  | error e =>
    rw [hb] at h
    simp only [Res.ok.injEq, Prod.mk.injEq] at h
    exact absurd h.2 (goBatch_error_ne_nil g.DDSketch qs e hb)
  | ok ws =>
    rw [hb] at h
    simp only [Res.ok.injEq, Prod.mk.injEq, and_true] at h
    subst h
    obtain ⟨hl, hall⟩ := goBatch_ok g.DDSketch qs ws hb
    refine ⟨by simp [hl], ?_⟩
    intro i hi hv
    have hw : i < ws.length := by simpa using hv
    rw [XGetValueAtQuantile_eq, hall i hi hw]
    simp

end generic

/-! ## against the hand-written model -/

/-- model `Except SkErr (List F64)` vs the generated batch method's outcome: the list with a nil
    error; or the empty (Go: nil) slice with the documented error of the refusal.  Either way the
    outcome is `.ok`: no panic, no fuel exhaustion. -/
def BRel : Except SkErr (List F64) → Res (List F64 × GoErr) → Prop
  | .ok vs, r => r = .ok (vs, GoErr.nil)
  | .error e, r => ∃ g, goErr? e = some g ∧ r = .ok ([], g)

theorem BRel.ok {m : Except SkErr (List F64)} {r : Res (List F64 × GoErr)} {vs : List F64}
    (h : BRel m r) (hm : m = .ok vs) : r = .ok (vs, GoErr.nil) := by subst hm; exact h

theorem BRel.error {m : Except SkErr (List F64)} {r : Res (List F64 × GoErr)} {e : SkErr}
    (h : BRel m r) (hm : m = .error e) : ∃ g, goErr? e = some g ∧ r = .ok ([], g) := by
  subst hm; exact h

/-- `mapM` over `Except`, one step (first error wins) -/
theorem mapM_cons_except {α β ε} (f : α → Except ε β) (a : α) (l : List α) :
    (a :: l).mapM f =
      match f a with
      | .error e => .error e
      | .ok v => match l.mapM f with
        | .error e => .error e
        | .ok vs => .ok (v :: vs) := by
  rw [List.mapM_cons]
  cases f a with
  | error e => rfl
  | ok v => cases List.mapM f l <;> rfl

theorem mapM_map_except {α β γ ε} (f : α → Except ε β) (c : β → γ) (l : List α) :
    l.mapM (fun a => Except.map c (f a)) = Except.map (List.map c) (l.mapM f) := by
  induction l with
  | nil => rfl
  | cons a t ih =>
    rw [mapM_cons_except, mapM_cons_except, ih]
    cases f a with
    | error e => rfl
    | ok v => cases List.mapM f t <;> rfl

/-- the closed form of the generated loop is the model's `mapM` -/
theorem goBatch_rel (env : MapEnv) (s : Sketch) (qs : List F64) :
    match s.quantiles env qs with
    | .ok vs => goBatch (toGen env s) qs = .ok vs
    | .error e => ∃ g, goErr? e = some g ∧ goBatch (toGen env s) qs = .error g := by
  induction qs with
  | nil => rfl
  | cons q rest ih =>
    have h := GetValueAtQuantile_rel env s q
    unfold Sketch.quantiles at ih ⊢
    rw [mapM_cons_except]
    cases hm : s.quantile env q with
    | error e =>
      obtain ⟨g, hg, hr⟩ := h.error hm
      have hne : (g != GoErr.nil) = true := by simpa using goErr?_ne_nil hg
      refine ⟨g, hg, ?_⟩
      simp [goBatch, hr, hne]
    | ok v =>
      have hr := h.ok hm
      cases hrest : List.mapM (Sketch.quantile env s) rest with
      | error e =>
        rw [hrest] at ih
        obtain ⟨g, hg, hb⟩ := ih
        refine ⟨g, hg, ?_⟩
        simp [goBatch, hr, hb]
      | ok vs =>
        rw [hrest] at ih
        simp only [] at ih ⊢
        simp [goBatch, hr, ih]

/-- `GetValuesAtQuantiles(quantiles)` vs the model, for all inputs and any fuel -/
theorem GetValuesAtQuantiles_rel (fuel : Nat) (env : MapEnv) (s : Sketch) (qs : List F64) :
    BRel (s.quantiles env qs) (DDSketch.GetValuesAtQuantiles fuel (toGen env s) qs) := by
  have h := goBatch_rel env s qs
  rw [GetValuesAtQuantiles_eq]
  cases hm : s.quantiles env qs with
  | error e =>
    rw [hm] at h
    obtain ⟨g, hg, hb⟩ := h
    rw [hb]
    exact ⟨g, hg, rfl⟩
  | ok vs =>
    rw [hm] at h
    simp only [] at h
    rw [h]
    rfl

theorem GetValuesAtQuantiles_ok (fuel : Nat) (env : MapEnv) (s : Sketch) (qs vs : List F64)
    (h : s.quantiles env qs = .ok vs) :
    DDSketch.GetValuesAtQuantiles fuel (toGen env s) qs = .ok (vs, GoErr.nil) :=
  (GetValuesAtQuantiles_rel fuel env s qs).ok h

theorem GetValuesAtQuantiles_error (fuel : Nat) (env : MapEnv) (s : Sketch) (qs : List F64)
    (e : SkErr) (h : s.quantiles env qs = .error e) :
    ∃ g, goErr? e = some g ∧
      DDSketch.GetValuesAtQuantiles fuel (toGen env s) qs = .ok ([], g) :=
  (GetValuesAtQuantiles_rel fuel env s qs).error h

/-- the model's clamp is the generated loop's clamp -/
theorem clampTo_eq (x : XSketch) (v : F64) : x.clampTo v = goClamp x.st.min x.st.max v := rfl

/-- the batch method of the exact variant vs the model (`mapM` of the clamped single query), for all
    inputs and any fuel -/
theorem XGetValuesAtQuantiles_rel (fuel : Nat) (env : MapEnv) (x : XSketch) (qs : List F64) :
    BRel (qs.mapM (x.quantile env))
      (DDSketchWithExactSummaryStatistics.GetValuesAtQuantiles fuel (toGenX env x) qs) := by
  have hmap : qs.mapM (x.quantile env) = Except.map (List.map x.clampTo) (x.sk.quantiles env qs) :=
    mapM_map_except (Sketch.quantile env x.sk) x.clampTo qs
  have h := goBatch_rel env x.sk qs
  rw [hmap, XGetValuesAtQuantiles_eq]
  simp only [toGenX_sk, toGenX_st, GenStat.min_eq, GenStat.max_eq, GenStat.toModel_ofModel]
  cases hm : x.sk.quantiles env qs with
  | error e =>
    rw [hm] at h
    obtain ⟨g, hg, hb⟩ := h
    rw [hb]
    exact ⟨g, hg, rfl⟩
  | ok vs =>
    rw [hm] at h
    simp only [] at h
    rw [h]
    simp only [Except.map, BRel]
    rfl

theorem XGetValuesAtQuantiles_ok (fuel : Nat) (env : MapEnv) (x : XSketch) (qs vs : List F64)
    (h : qs.mapM (x.quantile env) = .ok vs) :
    DDSketchWithExactSummaryStatistics.GetValuesAtQuantiles fuel (toGenX env x) qs =
      .ok (vs, GoErr.nil) :=
  (XGetValuesAtQuantiles_rel fuel env x qs).ok h

theorem XGetValuesAtQuantiles_error (fuel : Nat) (env : MapEnv) (x : XSketch) (qs : List F64)
    (e : SkErr) (h : qs.mapM (x.quantile env) = .error e) :
    ∃ g, goErr? e = some g ∧
      DDSketchWithExactSummaryStatistics.GetValuesAtQuantiles fuel (toGenX env x) qs = .ok ([], g) :=
  (XGetValuesAtQuantiles_rel fuel env x qs).error h

/-- in the vocabulary of the model: each entry of the exact variant's batch answer is the plain batch
    answer's entry clamped into `[min, max]` of the exact statistics -/
theorem XGetValuesAtQuantiles_clamped (fuel : Nat) (env : MapEnv) (x : XSketch) (qs vs : List F64)
    (h : x.sk.quantiles env qs = .ok vs) :
    DDSketchWithExactSummaryStatistics.GetValuesAtQuantiles fuel (toGenX env x) qs =
      .ok (vs.map x.clampTo, GoErr.nil) := by
  apply XGetValuesAtQuantiles_ok
  have hmap : qs.mapM (x.quantile env) = Except.map (List.map x.clampTo) (x.sk.quantiles env qs) :=
    mapM_map_except (Sketch.quantile env x.sk) x.clampTo qs
  rw [hmap, h]
  rfl

end DDS.GenSketch
