/-
  DDS.Proofs.GenBits — the REGENERATED bit helpers of the index mappings
  (`DDS/Generated/CodeBits.lean`, translated from `ddsketch/mapping/bit_operation_helper.go` and
  `withinTolerance` of `linearly_interpolated_mapping.go` on every run), over the exact float model
  `F64`:

  (a) `withinTolerance x y tol` with `tol = 1e-12` IS the model's `MapId.withinTolerance x y`
      (`DDS/Model/Sketch.lean`), for ALL floats (NaN and infinities included);
  (b) the bit manipulations compute what the abstract operations of class `MOps`
      (`DDS/Model/Mapping.lean`; real reading in `DDS/Proofs/RealInst.lean`) say: for a positive
      normal float `q`
        getExponent (bits q)           = ⌊log₂ q⌋                (`F64.floorLog2 q`, exactly),
        getSignificandPlusOne (bits q) = q / 2^⌊log₂ q⌋ ∈ [1,2)  (exactly),
        buildFloat64 e s               = 2^e · s  for s ∈ [1,2), −1022 ≤ e ≤ 1023,
      together with the three "rounding took the significand out of [1,2)" branches of
      `buildFloat64`.
-/
import DDS.Proofs.Num
import DDS.Generated.CodeBits
import DDS.Model.Sketch
import DDS.Proofs.RealInst

set_option linter.unusedVariables false

namespace DDS.GenBits

open DDS DDS.F64 DDS.GoSem DDS.Gen.Bits

/-! ## (a) `withinTolerance` -/

/-- Go's `math.Abs` of the prelude is the model's `fabs`, on every float -/
theorem fabs_eq (x : F64) : GoSem.fabs x = MapId.fabs x := by
  cases x with
  | fin q =>
    unfold GoSem.fabs MapId.fabs
    by_cases h : q < 0 <;> simp [F64.lt, F64.neg, h]
  | pinf => rfl
  | ninf => rfl
  | nan => rfl

/-- Go's `math.Max` of the prelude is the model's `fmaxF` -/
theorem fmax_eq (a b : F64) : GoSem.fmax a b = MapId.fmaxF a b := rfl

/-- the tolerance the three `Equals` methods pass: `1e-12` -/
def tol : F64 := F64.ofBits 0x3d719799812dea11

/-- the generated `withinTolerance` with an arbitrary tolerance, in the model's vocabulary -/
theorem withinTolerance_unfold (x y t : F64) :
    withinTolerance x y t =
      if F64.eq x (.fin 0) || F64.eq y (.fin 0) then
        F64.le (MapId.fabs x) t && F64.le (MapId.fabs y) t
      else F64.le (MapId.fabs (F64.sub x y)) (F64.mul t (MapId.fmaxF (MapId.fabs x) (MapId.fabs y))) := by
  unfold withinTolerance
  simp only [fabs_eq, fmax_eq]

/-- **the generated `withinTolerance(x, y, 1e-12)` is the model's tolerance test, for all floats** -/
theorem withinTolerance_eq (x y : F64) :
    withinTolerance x y tol = MapId.withinTolerance x y := by
  rw [withinTolerance_unfold]
  rfl

example : withinTolerance (.fin 1) (.fin 1) tol = true := by
  rw [withinTolerance_eq]; decide +kernel
example : withinTolerance .pinf .pinf tol = false := by
  rw [withinTolerance_eq]; decide +kernel

/-! ## (b) bit helpers: natural-number facts about the masks -/

/-- `exponentMask` -/
theorem expMask_eq : (9218868437227405312 : Nat) = 2047 <<< 52 := by decide
/-- `significandMask` -/
theorem sigMask_eq : (4503599627370495 : Nat) = 2 ^ 52 - 1 := by decide
/-- `oneMask` -/
theorem oneMask_eq : (4607182418800017408 : Nat) = 2 ^ 52 * 1023 := by decide

theorem and_expMask_shift (sg ex frac : Nat) (hex : ex < 2048) (hfrac : frac < 2 ^ 52) :
    ((sg * 2 ^ 63 + ex * 2 ^ 52 + frac) &&& 9218868437227405312) >>> 52 = ex := by
  rw [Nat.shiftRight_and_distrib]
  have h1 : (9218868437227405312 : Nat) >>> 52 = 2 ^ 11 - 1 := by decide
  have h2 : (sg * 2 ^ 63 + ex * 2 ^ 52 + frac) >>> 52 = sg * 2048 + ex := by
    rw [Nat.shiftRight_eq_div_pow]; omega
  rw [h1, h2, Nat.and_two_pow_sub_one_eq_mod]
  omega

theorem and_sigMask (hi frac : Nat) (hfrac : frac < 2 ^ 52) :
    (hi * 2 ^ 52 + frac) &&& 4503599627370495 = frac := by
  rw [sigMask_eq, Nat.and_two_pow_sub_one_eq_mod]
  omega

theorem expField_and_expMask (E : Nat) (hE : E < 2048) :
    (E * 2 ^ 52) &&& 9218868437227405312 = E * 2 ^ 52 := by
  rw [expMask_eq, ← Nat.shiftLeft_eq, ← Nat.shiftLeft_and_distrib]
  have : E &&& 2047 = E := by
    have := Nat.and_two_pow_sub_one_eq_mod E 11
    simp only [Nat.reducePow, Nat.reduceSub] at this
    rw [this]; omega
  rw [this]

theorem or_fields (E frac : Nat) (hfrac : frac < 2 ^ 52) :
    (E * 2 ^ 52) ||| frac = E * 2 ^ 52 + frac := by
  rw [Nat.mul_comm, ← Nat.two_pow_add_eq_or_of_lt hfrac]

/-! ## the fields of a positive normal float -/

/-- the value with exponent field `ex ≥ 1` and fraction field `frac` -/
def valOf (ex frac : Nat) : Rat := ((2 ^ 52 + frac : Nat) : Rat) * pow2 ((ex : Int) - 1075)

/-- a positive representable `q ≥ 2^-1022` is `valOf ex frac` for unique fields -/
theorem normal_fields {q : Rat} (hq : 0 < q) (hr : isRep q = true) (hn : pow2 (-1022) ≤ q) :
    ∃ ex frac : Nat, 1 ≤ ex ∧ ex ≤ 2046 ∧ frac < 2 ^ 52 ∧ q = valOf ex frac := by
  obtain ⟨hr', hlt⟩ := rpv_of_isRep_pos hq hr
  rcases rep_pos_cases hq hr' hlt with ⟨frac, h1, h2, rfl⟩ | ⟨ex, frac, h1, h2, h3, rfl⟩
  · exfalso
    have : (frac : Rat) * pow2 (-1074) < pow2 (-1022) := by
      rw [show (-1022:Int) = 52 + -1074 by norm_num, pow2_add, pow2_52]
      apply mul_lt_mul_of_pos_right _ (pow2_pos _)
      exact_mod_cast h2
    linarith
  · exact ⟨ex, frac, h1, h2, h3, rfl⟩

theorem valOf_pos (ex frac : Nat) : 0 < valOf ex frac := by
  unfold valOf
  refine mul_pos ?_ (pow2_pos _)
  have : 0 < 2 ^ 52 + frac := by omega
  exact_mod_cast this

/-- `valOf ex frac = (1 + frac/2^52) · 2^(ex − 1023)` -/
theorem valOf_eq (ex frac : Nat) :
    valOf ex frac = (((2 ^ 52 + frac : Nat) : Rat) * pow2 (-52)) * pow2 ((ex : Int) - 1023) := by
  unfold valOf
  rw [mul_assoc, ← pow2_add]
  congr 2; ring

theorem sig_bounds (frac : Nat) (h : frac < 2 ^ 52) :
    1 ≤ ((2 ^ 52 + frac : Nat) : Rat) * pow2 (-52) ∧ ((2 ^ 52 + frac : Nat) : Rat) * pow2 (-52) < 2 := by
  have hM1 : ((2^52 : Int) : Rat) ≤ ((2 ^ 52 + frac : Nat) : Rat) := by
    have : (2^52 : Int) ≤ ((2 ^ 52 + frac : Nat) : Int) := by omega
    exact_mod_cast this
  have hM2 : ((2 ^ 52 + frac : Nat) : Rat) < ((2^53 : Int) : Rat) := by
    have : ((2 ^ 52 + frac : Nat) : Int) < (2^53 : Int) := by omega
    exact_mod_cast this
  constructor
  · have : pow2 (52 + -52) ≤ ((2 ^ 52 + frac : Nat) : Rat) * pow2 (-52) := by
      rw [pow2_add, pow2_52]; exact mul_le_mul_of_nonneg_right hM1 (pow2_pos _).le
    simpa [pow2_zero] using this
  · have : ((2 ^ 52 + frac : Nat) : Rat) * pow2 (-52) < pow2 (53 + -52) := by
      rw [pow2_add, pow2_53]; exact mul_lt_mul_of_pos_right hM2 (pow2_pos _)
    simpa [pow2_one] using this

theorem floorLog2_valOf (ex frac : Nat) (h : frac < 2 ^ 52) :
    floorLog2 (valOf ex frac) = (ex : Int) - 1023 := by
  obtain ⟨h1, h2⟩ := sig_bounds frac h
  apply floorLog2_unique
  · rw [valOf_eq]
    have := mul_le_mul_of_nonneg_right h1 (pow2_pos ((ex : Int) - 1023)).le
    rwa [one_mul] at this
  · rw [valOf_eq, pow2_succ]
    exact mul_lt_mul_of_pos_right h2 (pow2_pos _)

theorem valOf_div (ex frac : Nat) :
    valOf ex frac / pow2 ((ex : Int) - 1023) = ((2 ^ 52 + frac : Nat) : Rat) * pow2 (-52) := by
  rw [valOf_eq, mul_div_assoc, div_self (pow2_ne_zero _), mul_one]

theorem valOf_lt (ex frac : Nat) (h : frac < 2 ^ 52) :
    valOf ex frac < pow2 ((ex : Int) - 1023 + 1) := by
  rw [valOf_eq, pow2_succ]
  exact mul_lt_mul_of_pos_right (sig_bounds frac h).2 (pow2_pos _)

/-- every `valOf ex frac` with a normal exponent field is a float -/
theorem isRep_valOf (ex frac : Nat) (h1 : 1 ≤ ex) (h2 : ex ≤ 2046) (h3 : frac < 2 ^ 52) :
    isRep (valOf ex frac) = true := by
  have hcast : ((2 ^ 52 + frac : Nat) : Rat) = (((2 ^ 52 + frac : Nat) : Int) : Rat) := by norm_cast
  have hlt := valOf_lt ex frac h3
  unfold valOf at hlt ⊢
  rw [hcast] at hlt ⊢
  apply isRep_dyadic
  · rw [abs_le]; constructor <;> omega
  · omega
  · rw [abs_of_nonneg (by positivity)]
    exact lt_of_lt_of_le hlt (pow2_mono (by omega))

theorem valOf_1023 (frac : Nat) : valOf 1023 frac = ((2 ^ 52 + frac : Nat) : Rat) * pow2 (-52) := by
  rw [valOf_eq]
  have e0 : (((1023 : Nat) : Int)) - 1023 = 0 := by norm_num
  rw [e0, pow2_zero, mul_one]

/-! ## float ⇄ bits of the prelude, in terms of fields -/

theorem float64frombits_eq (b : BitVec 64) : float64frombits b = decodeNat b.toNat := by
  unfold float64frombits
  rw [ofBits_eq]
  rfl

theorem float64bits_pos {q : Rat} (hq : 0 < q) :
    (float64bits (.fin q)).toNat = bitsOfPos q % 2 ^ 64 := by
  unfold float64bits toBits
  simp only
  rw [if_neg hq.ne', if_pos hq]
  simp

/-- the bits of `valOf ex frac` are `ex·2^52 + frac` -/
theorem float64bits_valOf (ex frac : Nat) (h1 : 1 ≤ ex) (h2 : ex ≤ 2046) (h3 : frac < 2 ^ 52) :
    (float64bits (.fin (valOf ex frac))).toNat = ex * 2 ^ 52 + frac := by
  rw [float64bits_pos (valOf_pos ex frac)]
  unfold valOf
  rw [bitsOfPos_normal ex frac h1 h3]
  omega

/-- decoding `E·2^52 + frac` (positive normal pattern) -/
theorem decodeNat_valOf (E frac : Nat) (h1 : 1 ≤ E) (h2 : E ≤ 2046) (h3 : frac < 2 ^ 52) :
    decodeNat (E * 2 ^ 52 + frac) = .fin (valOf E frac) := by
  have := decodeNat_fields 0 E frac (by norm_num) (by omega) h3
  simp only [Nat.zero_mul, Nat.zero_add, if_true] at this
  rw [this, if_neg (by omega)]
  rfl

theorem le_fin (a b : Rat) : F64.le (.fin a) (.fin b) = decide (a ≤ b) := by
  unfold F64.le F64.lt F64.eq
  by_cases h : a < b
  · simp [h, h.le]
  · by_cases h2 : a = b
    · simp [h2]
    · have : ¬ a ≤ b := fun hle => h (lt_of_le_of_ne hle h2)
      simp [h, h2, this]

theorem lt_fin (a b : Rat) : F64.lt (.fin a) (.fin b) = decide (a < b) := rfl

/-! ## `getExponent` -/

/-- on ANY pattern with exponent field `ex` (sign `sg`, fraction `frac`): the unbiased exponent -/
theorem getExponent_fields (b : BitVec 64) (sg ex frac : Nat) (hex : ex < 2048) (hfrac : frac < 2 ^ 52)
    (hb : b.toNat = sg * 2 ^ 63 + ex * 2 ^ 52 + frac) :
    getExponent b = .fin (((ex : Int) - 1023 : Int) : Rat) := by
  unfold getExponent
  have hn : ((b &&& 9218868437227405312#64) >>> 52).toNat = ex := by
    rw [BitVec.toNat_ushiftRight, BitVec.toNat_and, hb]
    exact and_expMask_shift sg ex frac hex hfrac
  have hi : ((b &&& 9218868437227405312#64) >>> 52).toInt = (ex : Int) := by
    rw [BitVec.toInt_eq_toNat_cond, hn]
    split <;> omega
  rw [hi]
  unfold F64.ofInt
  apply roundF64_int
  rw [abs_le]; constructor <;> omega

/-- **`getExponent` of the bits of a positive normal float is `⌊log₂ q⌋`, exactly** -/
theorem getExponent_spec {q : Rat} (hq : 0 < q) (hr : isRep q = true) (hn : pow2 (-1022) ≤ q) :
    getExponent (float64bits (.fin q)) = F64.ofInt (floorLog2 q) ∧
    F64.ofInt (floorLog2 q) = .fin ((floorLog2 q : Int) : Rat) ∧
    -1022 ≤ floorLog2 q ∧ floorLog2 q ≤ 1023 := by
  obtain ⟨ex, frac, h1, h2, h3, rfl⟩ := normal_fields hq hr hn
  have hfl := floorLog2_valOf ex frac h3
  have hb := float64bits_valOf ex frac h1 h2 h3
  have hofInt : F64.ofInt (floorLog2 (valOf ex frac)) = .fin ((floorLog2 (valOf ex frac) : Int) : Rat) := by
    unfold F64.ofInt
    apply roundF64_int
    rw [hfl, abs_le]; constructor <;> omega
  refine ⟨?_, hofInt, by omega, by omega⟩
  rw [hofInt, hfl]
  exact getExponent_fields _ 0 ex frac (by omega) h3 (by rw [hb]; omega)

/-! ## `getSignificandPlusOne` -/

/-- on ANY pattern with fraction field `frac`: the float `1.frac` -/
theorem getSignificandPlusOne_fields (b : BitVec 64) (hi frac : Nat) (hfrac : frac < 2 ^ 52)
    (hb : b.toNat = hi * 2 ^ 52 + frac) :
    getSignificandPlusOne b = .fin (((2 ^ 52 + frac : Nat) : Rat) * pow2 (-52)) := by
  unfold getSignificandPlusOne
  rw [float64frombits_eq, BitVec.toNat_or, BitVec.toNat_and, hb]
  have hm : (4503599627370495#64).toNat = 4503599627370495 := by decide
  have ho : (4607182418800017408#64).toNat = 1023 * 2 ^ 52 := by decide
  rw [hm, ho, and_sigMask hi frac hfrac, Nat.or_comm, or_fields 1023 frac hfrac,
    decodeNat_valOf 1023 frac (by norm_num) (by norm_num) hfrac]
  unfold valOf
  norm_num

/-- **`getSignificandPlusOne` of the bits of a positive normal float is `q / 2^⌊log₂ q⌋ ∈ [1,2)`** -/
theorem getSignificandPlusOne_spec {q : Rat} (hq : 0 < q) (hr : isRep q = true)
    (hn : pow2 (-1022) ≤ q) :
    getSignificandPlusOne (float64bits (.fin q)) = .fin (q / pow2 (floorLog2 q)) ∧
    1 ≤ q / pow2 (floorLog2 q) ∧ q / pow2 (floorLog2 q) < 2 := by
  obtain ⟨ex, frac, h1, h2, h3, rfl⟩ := normal_fields hq hr hn
  rw [floorLog2_valOf ex frac h3, valOf_div]
  refine ⟨?_, (sig_bounds frac h3).1, (sig_bounds frac h3).2⟩
  exact getSignificandPlusOne_fields _ ex frac h3 (float64bits_valOf ex frac h1 h2 h3)

/-! ## `buildFloat64` -/

/-- the part of `buildFloat64` after the significand has been normalised -/
def buildTail (exponent : Int) (significandPlusOne : F64) : F64 :=
  if (decide ((1023 : Int) < exponent)) then
    (GoSem.inf (1 : Int))
  else
    (GoSem.float64frombits (((BitVec.ofInt 64 ((exponent + (1023 : Int)) * (2 : Int) ^ (Int.toNat (52 : Int)))) &&& 9218868437227405312#64) ||| ((GoSem.float64bits significandPlusOne) &&& 4503599627370495#64)))

/-- `buildFloat64` is the model's `buildFloatN` (`DDS/Model/Mapping.lean`) around `buildTail`:
    normalise a significand `≥ 2` (halve, bump the exponent) or `< 1` (replace by 1), then
    assemble the bits -/
theorem buildFloat64_cases (e : Int) (s : F64) :
    buildFloat64 e s =
      if F64.le (.fin 2) s then buildTail (e + 1) (F64.div s (.fin 2))
      else if F64.lt s (.fin 1) then buildTail e (.fin 1)
      else buildTail e s := by
  unfold buildFloat64 buildTail
  by_cases h1 : F64.le (.fin 2) s = true
  · simp only [h1, if_true]
  · by_cases h2 : F64.lt s (.fin 1) = true
    · simp only [h1, h2, Bool.false_eq_true, if_true, if_false]
    · simp only [h1, h2, Bool.false_eq_true, if_false]

theorem buildTail_overflow (e : Int) (s : F64) (he : 1023 < e) : buildTail e s = .pinf := by
  unfold buildTail
  rw [if_pos (by simpa using he)]
  rfl

/-- assembling exponent field `E ∈ [1, 2046]` with the fraction bits of any pattern -/
theorem build_bits (E : Int) (hE1 : 1 ≤ E) (hE2 : E ≤ 2046) (sb : BitVec 64) (hi frac : Nat)
    (hfrac : frac < 2 ^ 52) (hsb : sb.toNat = hi * 2 ^ 52 + frac) :
    float64frombits ((BitVec.ofInt 64 (E * (2 : Int) ^ (Int.toNat (52 : Int))) &&& 9218868437227405312#64)
        ||| (sb &&& 4503599627370495#64)) = .fin (valOf E.toNat frac) := by
  obtain ⟨n, rfl⟩ : ∃ n : Nat, E = (n : Int) := ⟨E.toNat, by omega⟩
  have hcast : (n : Int) * (2 : Int) ^ (Int.toNat (52 : Int)) = ((n * 2 ^ 52 : Nat) : Int) := by
    have : Int.toNat (52 : Int) = 52 := rfl
    rw [this]; push_cast; rfl
  have hlt : n * 2 ^ 52 < 2 ^ 64 := by omega
  have hm : (4503599627370495#64).toNat = 4503599627370495 := by decide
  have he : (9218868437227405312#64).toNat = 9218868437227405312 := by decide
  rw [hcast, BitVec.ofInt_natCast, float64frombits_eq, BitVec.toNat_or, BitVec.toNat_and,
    BitVec.toNat_and, BitVec.toNat_ofNat, Nat.mod_eq_of_lt hlt, hm, he, hsb,
    expField_and_expMask n (by omega), and_sigMask hi frac hfrac, or_fields n frac hfrac,
    decodeNat_valOf n frac (by omega) (by omega) hfrac, Int.toNat_natCast]

/-- the representable numbers of `[1, 2)` are the `valOf 1023 frac` -/
theorem unit_fields {r : Rat} (hr : isRep r = true) (h1 : 1 ≤ r) (h2 : r < 2) :
    ∃ frac : Nat, frac < 2 ^ 52 ∧ r = valOf 1023 frac := by
  have hpos : 0 < r := by linarith
  have hn : pow2 (-1022) ≤ r := by
    have : pow2 (-1022) ≤ pow2 0 := pow2_mono (by norm_num)
    rw [pow2_zero] at this; linarith
  obtain ⟨ex, frac, e1, e2, e3, rfl⟩ := normal_fields hpos hr hn
  have hfl := floorLog2_valOf ex frac e3
  have h0 : floorLog2 (valOf ex frac) = 0 :=
    floorLog2_unique (by rw [pow2_zero]; exact h1) (by rw [zero_add, pow2_one]; exact h2)
  have : ex = 1023 := by omega
  subst this
  exact ⟨frac, e3, rfl⟩

/-- **the in-contract case: `s ∈ [1,2)`, `−1022 ≤ e ≤ 1023` gives `2^e · s`, exactly** -/
theorem buildTail_spec (e : Int) (he1 : -1022 ≤ e) (he2 : e ≤ 1023) {r : Rat}
    (hr : isRep r = true) (h1 : 1 ≤ r) (h2 : r < 2) :
    buildTail e (.fin r) = .fin (r * pow2 e) := by
  obtain ⟨frac, hf, hrv⟩ := unit_fields hr h1 h2
  unfold buildTail
  rw [if_neg (by simpa using he2)]
  have hb : (float64bits (.fin r)).toNat = 1023 * 2 ^ 52 + frac := by
    rw [hrv]; exact float64bits_valOf 1023 frac (by norm_num) (by norm_num) hf
  rw [build_bits (e + 1023) (by omega) (by omega) _ 1023 frac hf hb]
  congr 1
  rw [hrv, valOf_eq, valOf_eq]
  have e1 : (((e + 1023).toNat : Nat) : Int) - 1023 = e := by omega
  have e2 : (((1023 : Nat) : Int)) - 1023 = 0 := by norm_num
  rw [e1, e2, pow2_zero, mul_one]

theorem buildFloat64_spec (e : Int) (he1 : -1022 ≤ e) (he2 : e ≤ 1023) {r : Rat}
    (hr : isRep r = true) (h1 : 1 ≤ r) (h2 : r < 2) :
    buildFloat64 e (.fin r) = .fin (r * pow2 e) := by
  rw [buildFloat64_cases, le_fin, lt_fin, decide_eq_false (not_le.mpr h2),
    decide_eq_false (not_lt.mpr h1)]
  simp only [Bool.false_eq_true, if_false]
  exact buildTail_spec e he1 he2 hr h1 h2

/-- halving a representable number of `[2, 4)` is exact and lands in `[1, 2)` -/
theorem half_rep {r : Rat} (hr : isRep r = true) (h1 : 2 ≤ r) (h2 : r < 4) :
    F64.div (.fin r) (.fin 2) = .fin (r / 2) ∧ isRep (r / 2) = true := by
  have hpos : 0 < r := by linarith
  have hn : pow2 (-1022) ≤ r := by
    have : pow2 (-1022) ≤ pow2 0 := pow2_mono (by norm_num)
    rw [pow2_zero] at this; linarith
  obtain ⟨ex, frac, e1, e2, e3, rfl⟩ := normal_fields hpos hr hn
  have hfl := floorLog2_valOf ex frac e3
  have h0 : floorLog2 (valOf ex frac) = 1 :=
    floorLog2_unique (by rw [pow2_one]; exact h1)
      (by rw [show (1:Int) + 1 = 2 by norm_num, show pow2 2 = 4 by simp [pow2_eq_zpow]; norm_num]; exact h2)
  have hex : ex = 1024 := by omega
  subst hex
  have hhalf : valOf 1024 frac / 2 = valOf 1023 frac := by
    unfold valOf
    have : pow2 (((1024 : Nat) : Int) - 1075) = 2 * pow2 (((1023 : Nat) : Int) - 1075) := by
      rw [← pow2_succ]; congr 1
    rw [this]; ring
  have hrep : isRep (valOf 1023 frac) = true :=
    isRep_valOf 1023 frac (by norm_num) (by norm_num) e3
  refine ⟨?_, by rw [hhalf]; exact hrep⟩
  show (if (2 : Rat) = 0 then F64.nan else roundF64 (valOf 1024 frac / 2)) = _
  rw [if_neg (by norm_num), hhalf]
  exact roundF64_of_isRep hrep

/-- **a significand that rounding pushed to `[2, 4)`: still `2^e · s`, or `+Inf` when the bumped
    exponent leaves the range** (`−1023 ≤ e` suffices here) -/
theorem buildFloat64_spec_ge2 (e : Int) (he1 : -1023 ≤ e) {r : Rat}
    (hr : isRep r = true) (h1 : 2 ≤ r) (h2 : r < 4) :
    buildFloat64 e (.fin r) = if e + 1 ≤ 1023 then .fin (r * pow2 e) else .pinf := by
  obtain ⟨hdiv, hrep⟩ := half_rep hr h1 h2
  rw [buildFloat64_cases, le_fin, decide_eq_true h1]
  simp only [if_true]
  rw [hdiv]
  by_cases he : e + 1 ≤ 1023
  · rw [if_pos he, buildTail_spec (e + 1) (by omega) he hrep (by linarith) (by linarith), pow2_succ]
    congr 1; ring
  · rw [if_neg he]
    exact buildTail_overflow _ _ (by omega)

/-- the same read as the task states it: the result for `(e+1, r/2)` -/
theorem buildFloat64_spec_ge2' (e : Int) (he1 : -1023 ≤ e) (he2 : e + 1 ≤ 1023) {r : Rat}
    (hr : isRep r = true) (h1 : 2 ≤ r) (h2 : r < 4) :
    buildFloat64 e (.fin r) = .fin ((r / 2) * pow2 (e + 1)) ∧
    buildFloat64 e (.fin r) = buildFloat64 (e + 1) (.fin (r / 2)) := by
  obtain ⟨hdiv, hrep⟩ := half_rep hr h1 h2
  have h := buildFloat64_spec_ge2 e he1 hr h1 h2
  rw [if_pos he2] at h
  have h' := buildFloat64_spec (e + 1) (by omega) he2 hrep (by linarith) (by linarith)
  have hv : r / 2 * pow2 (e + 1) = r * pow2 e := by rw [pow2_succ]; ring
  exact ⟨by rw [h, hv], by rw [h, h', hv]⟩

theorem isRep_one : isRep 1 = true := by
  have := isRep_int 1 (by norm_num)
  simpa using this

/-- **a significand that fell below 1 (any finite value `< 1`, even non-positive or
    non-representable) is replaced by 1: the result is `2^e`** -/
theorem buildFloat64_spec_lt1 (e : Int) (he1 : -1022 ≤ e) (he2 : e ≤ 1023) {r : Rat} (h1 : r < 1) :
    buildFloat64 e (.fin r) = .fin (pow2 e) := by
  have h2 : ¬ (2 : Rat) ≤ r := by linarith
  rw [buildFloat64_cases, le_fin, lt_fin, decide_eq_false h2, decide_eq_true h1]
  simp only [Bool.false_eq_true, if_false, if_true]
  rw [buildTail_spec e he1 he2 isRep_one (le_refl _) (by norm_num), one_mul]

/-! ## round trip: the three helpers together -/

/-- **decompose and rebuild**: for a positive normal float, `buildFloat64` applied to the exponent
    and significand that the two getters extract gives the float back -/
theorem build_get_roundtrip {q : Rat} (hq : 0 < q) (hr : isRep q = true) (hn : pow2 (-1022) ≤ q) :
    buildFloat64 (floorLog2 q) (getSignificandPlusOne (float64bits (.fin q))) = .fin q := by
  obtain ⟨hs, hs1, hs2⟩ := getSignificandPlusOne_spec hq hr hn
  obtain ⟨_, _, hl1, hl2⟩ := getExponent_spec hq hr hn
  have hrep : isRep (q / pow2 (floorLog2 q)) = true := by
    obtain ⟨ex, frac, e1, e2, e3, rfl⟩ := normal_fields hq hr hn
    rw [floorLog2_valOf ex frac e3, valOf_div]
    rw [← valOf_1023]
    exact isRep_valOf 1023 frac (by norm_num) (by norm_num) e3
  rw [hs, buildFloat64_spec _ hl1 hl2 hrep hs1 hs2, div_mul_cancel₀ _ (pow2_ne_zero _)]

/-! ## the hypotheses are satisfiable, and needed -/

example : getExponent (float64bits (.fin 3)) = .fin 1 ∧
    getSignificandPlusOne (float64bits (.fin 3)) = .fin (3 / 2) ∧
    buildFloat64 1 (.fin (3 / 2)) = .fin 3 := by
  have hq : (0 : Rat) < 3 := by norm_num
  have hr : isRep 3 = true := by decide +kernel
  have hn : pow2 (-1022) ≤ 3 := by decide +kernel
  have hfl : floorLog2 3 = 1 := by decide +kernel
  obtain ⟨h1, h2, _⟩ := getExponent_spec hq hr hn
  obtain ⟨h3, _⟩ := getSignificandPlusOne_spec hq hr hn
  have h4 := buildFloat64_spec 1 (by norm_num) (by norm_num) (r := 3 / 2) (by decide +kernel)
    (by norm_num) (by norm_num)
  rw [hfl] at h1 h2 h3
  refine ⟨by rw [h1, h2]; norm_num, by rw [h3]; norm_num [pow2_one], by rw [h4, pow2_one]; norm_num⟩

example : buildFloat64 1023 (.fin 2) = .pinf := by
  have := buildFloat64_spec_ge2 1023 (by norm_num) (r := 2) (by decide +kernel) (by norm_num) (by norm_num)
  rw [this, if_neg (by norm_num)]

example : buildFloat64 3 (.fin (1 / 2)) = .fin 8 := by
  rw [buildFloat64_spec_lt1 3 (by norm_num) (by norm_num) (by norm_num)]
  simp [pow2_eq_zpow]; norm_num

/-- **normality is needed**: on a positive SUBNORMAL float `getExponent` returns −1023 whatever the
    value (the exponent field is 0), which is not `⌊log₂ q⌋` (that is `≤ −1023`, and `< −1023` for
    `q < 2^-1023`).  The mappings only pass values `≥ MinIndexableValue ≥ 2^-1022`. -/
theorem getExponent_subnormal {q : Rat} (hq : 0 < q) (hr : isRep q = true) (hs : q < pow2 (-1022)) :
    getExponent (float64bits (.fin q)) = .fin (-1023) := by
  obtain ⟨hr', hlt⟩ := rpv_of_isRep_pos hq hr
  rcases rep_pos_cases hq hr' hlt with ⟨frac, h1, h2, rfl⟩ | ⟨ex, frac, h1, h2, h3, rfl⟩
  · have hb : (float64bits (.fin ((frac : Rat) * pow2 (-1074)))).toNat = frac := by
      rw [float64bits_pos hq, bitsOfPos_sub frac h1 h2]; omega
    have := getExponent_fields _ 0 0 frac (by norm_num) h2 (by rw [hb]; omega)
    rw [this]; norm_num
  · exfalso
    have hfl := floorLog2_valOf ex frac h3
    have hlo := (floorLog2_spec _ (valOf_pos ex frac)).1
    rw [hfl] at hlo
    have : pow2 (-1022) ≤ pow2 ((ex : Int) - 1023) := pow2_mono (by omega)
    have hv : valOf ex frac < pow2 (-1022) := hs
    linarith

example : getExponent (float64bits (.fin (pow2 (-1074)))) = .fin (-1023) ∧
    floorLog2 (pow2 (-1074)) = -1074 := by
  refine ⟨?_, floorLog2_pow2 _⟩
  apply getExponent_subnormal (pow2_pos _)
  · have := isRep_dyadic 1 (-1074) (by norm_num) (by norm_num)
      (by rw [Int.cast_one, abs_one, one_mul]; exact pow2_strictMono (by norm_num))
    rwa [Int.cast_one, one_mul] at this
  · exact pow2_strictMono (by norm_num)

/-! ## the real-number reading (`instMOpsReal`, `DDS/Proofs/RealInst.lean`)

  `MOps.exponentOf x = ⌊log₂ x⌋`, `MOps.significandPlusOne x = x / 2^⌊log₂ x⌋`,
  `MOps.buildFloat e s = 2^e · s` over `ℝ`: on positive normal floats the generated bit helpers
  compute exactly these real numbers (no rounding at all). -/

theorem pow2_cast (e : Int) : ((pow2 e : Rat) : ℝ) = (2 : ℝ) ^ e := by
  rw [pow2_eq_zpow]; push_cast; rfl

/-- the rational `floorLog2` is the real `⌊log₂ ·⌋` -/
theorem floorLog2_eq_floor_logb {q : Rat} (hq : 0 < q) :
    floorLog2 q = ⌊Real.logb 2 (q : ℝ)⌋ := by
  obtain ⟨h1, h2⟩ := floorLog2_spec q hq
  have hqR : (0 : ℝ) < (q : ℝ) := by exact_mod_cast hq
  symm
  rw [Int.floor_eq_iff]
  constructor
  · rw [Real.le_logb_iff_rpow_le (by norm_num) hqR, Real.rpow_intCast, ← pow2_cast]
    exact_mod_cast h1
  · rw [Real.logb_lt_iff_lt_rpow (by norm_num) hqR]
    have : ((floorLog2 q : ℤ) : ℝ) + 1 = ((floorLog2 q + 1 : ℤ) : ℝ) := by push_cast; ring
    rw [this, Real.rpow_intCast, ← pow2_cast]
    exact_mod_cast h2

/-- `getExponent` computes the real `exponentOf` -/
theorem getExponent_real {q : Rat} (hq : 0 < q) (hr : isRep q = true) (hn : pow2 (-1022) ≤ q) :
    ∃ v : Rat, getExponent (float64bits (.fin q)) = .fin v ∧
      (v : ℝ) = MOps.exponentOf ((q : Rat) : ℝ) := by
  obtain ⟨h1, h2, _⟩ := getExponent_spec hq hr hn
  refine ⟨((floorLog2 q : Int) : Rat), by rw [h1, h2], ?_⟩
  show (((floorLog2 q : Int) : Rat) : ℝ) = ((⌊Real.logb 2 (q : ℝ)⌋ : Int) : ℝ)
  rw [floorLog2_eq_floor_logb hq]
  push_cast; rfl

/-- `getSignificandPlusOne` computes the real `significandPlusOne` -/
theorem getSignificandPlusOne_real {q : Rat} (hq : 0 < q) (hr : isRep q = true)
    (hn : pow2 (-1022) ≤ q) :
    ∃ v : Rat, getSignificandPlusOne (float64bits (.fin q)) = .fin v ∧
      (v : ℝ) = MOps.significandPlusOne ((q : Rat) : ℝ) := by
  obtain ⟨h1, _, _⟩ := getSignificandPlusOne_spec hq hr hn
  refine ⟨q / pow2 (floorLog2 q), h1, ?_⟩
  show ((q / pow2 (floorLog2 q) : Rat) : ℝ) = (q : ℝ) / (2 : ℝ) ^ ⌊Real.logb 2 (q : ℝ)⌋
  rw [← floorLog2_eq_floor_logb hq, Rat.cast_div, pow2_cast]

/-- `buildFloat64` computes the real `buildFloat` (in-contract arguments) -/
theorem buildFloat64_real (e : Int) (he1 : -1022 ≤ e) (he2 : e ≤ 1023) {r : Rat}
    (hr : isRep r = true) (h1 : 1 ≤ r) (h2 : r < 2) :
    ∃ v : Rat, buildFloat64 e (.fin r) = .fin v ∧ (v : ℝ) = MOps.buildFloat e ((r : Rat) : ℝ) := by
  refine ⟨r * pow2 e, buildFloat64_spec e he1 he2 hr h1 h2, ?_⟩
  show ((r * pow2 e : Rat) : ℝ) = (2 : ℝ) ^ e * (r : ℝ)
  rw [Rat.cast_mul, pow2_cast, mul_comm]

end DDS.GenBits
