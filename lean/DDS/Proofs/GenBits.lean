/-
  DDS.Proofs.GenBits — the REGENERATED bit helpers of the index mappings
  (`DDS/Generated/CodeBits.lean`, translated from `ddsketch/mapping/bit_operation_helper.go` and
  `withinTolerance` of `linearly_interpolated_mapping.go` on every run), over the exact float model
  `F64`:

  (a) `withinTolerance x y tol` with `tol = 1e-12` IS the model's `MapId.withinTolerance x y`
      (`DDS/Model/Sketch.lean`), for ALL floats (NaN and infinities included);
  (b) the bit manipulations compute what the abstract operations of class `MOps`
      (`DDS/Model/Mapping.lean`; real reading in `DDS/Proofs/RealInst.lean`) say: for a positive
      normal float `q`
        getExponent (bits q)           = ⌊log₂ q⌋                (`F64.floorLog2 q`, exactly),
        getSignificandPlusOne (bits q) = q / 2^⌊log₂ q⌋ ∈ [1,2)  (exactly),
        buildFloat64 e s               = 2^e · s  for s ∈ [1,2), −1022 ≤ e ≤ 1023,
      together with the three "rounding took the significand out of [1,2)" branches of
      `buildFloat64`.
-/
import DDS.Proofs.Num
import DDS.Generated.CodeBits
import DDS.Model.Sketch

set_option linter.unusedVariables false

namespace DDS.GenBits

open DDS DDS.F64 DDS.GoSem DDS.Gen.Bits

/-! ## (a) `withinTolerance` -/

/-- Go's `math.Abs` of the prelude is the model's `fabs`, on every float -/
theorem fabs_eq (x : F64) : GoSem.fabs x = MapId.fabs x := by
  cases x with
  | fin q =>
    unfold GoSem.fabs MapId.fabs
    by_cases h : q < 0 <;> simp [F64.lt, F64.neg, h]
  | pinf => rfl
  | ninf => rfl
  | nan => rfl

/-- Go's `math.Max` of the prelude is the model's `fmaxF` -/
theorem fmax_eq (a b : F64) : GoSem.fmax a b = MapId.fmaxF a b := rfl

/-- the tolerance the three `Equals` methods pass: `1e-12` -/
def tol : F64 := F64.ofBits 0x3d719799812dea11

/-- the generated `withinTolerance` with an arbitrary tolerance, in the model's vocabulary -/
theorem withinTolerance_unfold (x y t : F64) :
    withinTolerance x y t =
      if F64.eq x (.fin 0) || F64.eq y (.fin 0) then
        F64.le (MapId.fabs x) t && F64.le (MapId.fabs y) t
      else F64.le (MapId.fabs (F64.sub x y)) (F64.mul t (MapId.fmaxF (MapId.fabs x) (MapId.fabs y))) := by
  unfold withinTolerance
  simp only [fabs_eq, fmax_eq]

/-- **the generated `withinTolerance(x, y, 1e-12)` is the model's tolerance test, for all floats** -/
theorem withinTolerance_eq (x y : F64) :
    withinTolerance x y tol = MapId.withinTolerance x y := by
  rw [withinTolerance_unfold]
  rfl

example : withinTolerance (.fin 1) (.fin 1) tol = true := by
  rw [withinTolerance_eq]; decide +kernel
example : withinTolerance .pinf .pinf tol = false := by
  rw [withinTolerance_eq]; decide +kernel

/-! ## (b) bit helpers: natural-number facts about the masks -/

/-- `exponentMask` -/
theorem expMask_eq : (9218868437227405312 : Nat) = 2047 <<< 52 := by decide
/-- `significandMask` -/
theorem sigMask_eq : (4503599627370495 : Nat) = 2 ^ 52 - 1 := by decide
/-- `oneMask` -/
theorem oneMask_eq : (4607182418800017408 : Nat) = 2 ^ 52 * 1023 := by decide

theorem and_expMask_shift (ex frac : Nat) (hex : ex < 2048) (hfrac : frac < 2 ^ 52) :
    ((ex * 2 ^ 52 + frac) &&& 9218868437227405312) >>> 52 = ex := by
  rw [Nat.shiftRight_and_distrib]
  have h1 : (9218868437227405312 : Nat) >>> 52 = 2 ^ 11 - 1 := by decide
  have h2 : (ex * 2 ^ 52 + frac) >>> 52 = ex := by
    rw [Nat.shiftRight_eq_div_pow]; omega
  rw [h1, h2, Nat.and_two_pow_sub_one_eq_mod]
  omega

theorem and_sigMask (ex frac : Nat) (hfrac : frac < 2 ^ 52) :
    (ex * 2 ^ 52 + frac) &&& 4503599627370495 = frac := by
  rw [sigMask_eq, Nat.and_two_pow_sub_one_eq_mod]
  omega

theorem expField_and_expMask (E : Nat) (hE : E < 2048) :
    (E * 2 ^ 52) &&& 9218868437227405312 = E * 2 ^ 52 := by
  rw [expMask_eq, ← Nat.shiftLeft_eq, ← Nat.shiftLeft_and_distrib]
  have : E &&& 2047 = E := by
    have := Nat.and_two_pow_sub_one_eq_mod E 11
    simp only [Nat.reducePow, Nat.reduceSub] at this
    rw [this]; omega
  rw [this]

theorem or_fields (E frac : Nat) (hfrac : frac < 2 ^ 52) :
    (E * 2 ^ 52) ||| frac = E * 2 ^ 52 + frac := by
  rw [Nat.mul_comm, ← Nat.two_pow_add_eq_or_of_lt hfrac]

end DDS.GenBits
