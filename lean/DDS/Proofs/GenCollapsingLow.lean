/-
  DDS.Proofs.GenCollapsingLow — the REGENERATED `CollapsingLowestDenseStore`
  (`DDS/Generated/CodeDense.lean`, translated from
  `/repo/ddsketch/store/collapsing_lowest_dense_store.go` on every run) equals the HAND-WRITTEN model
  `DDS.DStore` of kind `.low n` (`DDS/Model/Dense.lean`), method by method, for ALL inputs.

  Every theorem has the form  `generated fuel (toLow n s) args = toRes (toLow n) (model s args)`
  (`GenDenseBase`): the model says `some t` ⇒ the generated code returns `.ok (toLow n t)`; the model
  says `none` (Go would panic) ⇒ the generated code returns `.panic`; `.nofuel` is never returned when
  the stated fuel bound holds.  The only hypothesis on the store is `s.kind = .low n` (the model
  dispatches on `kind`; the generated `maxNumBins : Int` is `(n : Int)`).  `adjust`, `Copy`, `Clear`
  do not look at `maxNumBins`, so they are stated for every `m : Int`.

    getNewLength_rel  any fuel                    (`min` with `maxNumBins`; result through `id`)
    adjust_rel        fuel ≥ s.bins.size + 2      (the summing loop `adjust.loop1` = the model's
                                                   `sumRange` fold, `adjust_loop`; it stops after at
                                                   most `size + 1` reads even on a longer range)
    extendRange_rel   fuel ≥ lowFuel n s = s.bins.size + n + 2   (the array grows to ≤ size + n)
    normalize_rel     fuel ≥ lowFuel n s          (result `(toLow n t, arrayIndex)`)
    addWithCount_rel, add_rel, addBin_rel         fuel ≥ lowFuel n s
    mergeWith_rel     fuel ≥ mergeFuel n s o = max (lowFuel n s) (width of o's window + 1);
                      the model is `DStore.mergeSame`; the argument may have any limit `m'`.
                      The two loops and the final `if idx == o.maxIndex` step of the generated code
                      are the three segments of the model's single fold (`merge_loop2`, `merge_loop1`,
                      `merge_tail`).
    copy_eq, clear_rel, new_eq                    no fuel
  plus the kind-preservation lemmas of the model (`adjust_kind`, `extendRange_kind`, …) and
  `…_gen` forms quantified over EVERY generated store with `0 ≤ maxNumBins` (`forall_low`).

  No disagreement between generated code and model was found: every statement is an equation for
  all inputs (given the fuel bound).  Two differences are invisible in the result: (1) the generated
  merge loops read `s.bins[…]` before `o.bins[…]`, the model reads `o.bins` first — both panic iff one
  of the reads fails (`optL_comm`/`optR_comm`); (2) the generated merge splits the index range in
  three (`< s.minIndex`, `< o.maxIndex`, `== o.maxIndex`), the model tests `idx < s.minIndex` at each
  step of one fold.  A negative `maxNumBins` has no counterpart in the model (`low (n : Nat)`) and is
  outside these statements.

  Core Lean only (Mathlib tactics come in through `GenDenseBase`'s import of `DDS.Proofs.Num`).
-/
import DDS.Proofs.GenDenseBase

namespace DDS.GenLow

open DDS DDS.GoSem DDS.DStore DDS.GenDense

/-! ### small helpers -/

theorem bind_ok_self {α : Type} (r : Res α) : (r.bind fun x => Res.ok x) = r := by
  cases r <;> rfl

theorem optL_comm {α β σ ρ : Type} (A : Option α) (B : Option β) (K : α → β → Loop σ ρ) :
    optL A (fun a => optL B (fun b => K a b)) = optL B (fun b => optL A (fun a => K a b)) := by
  cases A <;> cases B <;> rfl

theorem optR_comm {α β γ : Type} (A : Option α) (B : Option β) (K : α → β → Res γ) :
    optR A (fun a => optR B (fun b => K a b)) = optR B (fun b => optR A (fun a => K a b)) := by
  cases A <;> cases B <;> rfl

theorem rd_some_lt (a : Array Rat) (i : Int) (c : Rat) (h : rd a i = some c) : 0 ≤ i ∧ i < a.size := by
  unfold rd at h
  split at h
  · assumption
  · cases h

/-! ### `getNewLength` -/

theorem getNewLength_rel (fuel : Nat) (n : Nat) (s : DStore) (a b : Int) (hk : s.kind = .low n) :
    Gen.Dense.CollapsingLowestDenseStore.getNewLength fuel (toLow (n : Int) s) a b
      = toRes id (s.getNewLength a b) := by
  unfold Gen.Dense.CollapsingLowestDenseStore.getNewLength DStore.getNewLength
  rw [GenDense.getNewLength_rel, hk]
  cases denseNewLength a b with
  | none => rfl
  | some d => simp [goMin_eq]

/-! ### `adjust` -/

/-- the summing loop of `adjust` in lockstep with the model's `sumRange` fold.  The run ends after
    at most `size + 1` iterations (out-of-range read) even when the range is longer. -/
theorem adjust_loop (newMin : Int) (m : Int) (s : DStore) (n : Nat) :
    ∀ (fuel : Nat) (acc : Rat) (i : Int), (newMin - i).toNat = n →
      (n + 1 ≤ fuel ∨ (i - s.offset < 0 ∧ 1 ≤ fuel) ∨
        (0 ≤ i - s.offset ∧ ((s.bins.size : Int) - (i - s.offset)).toNat + 2 ≤ fuel)) →
      Gen.Dense.CollapsingLowestDenseStore.adjust.loop1 newMin (toLow m s) fuel acc i =
        match (irange i n).foldlM (fun acc idx => (rd s.bins (idx - s.offset)).map (acc + ·)) acc with
        | some r => .done (r, i + n)
        | none => .panic := by
  induction n with
  | zero =>
    intro fuel acc i hn hf
    obtain ⟨f, rfl⟩ : ∃ f, fuel = f + 1 := ⟨fuel - 1, by omega⟩
    unfold Gen.Dense.CollapsingLowestDenseStore.adjust.loop1
    have hc : ¬ (i < newMin) := by omega
    simp only [hc, decide_false, Bool.false_eq_true, if_false, irange_zero, List.foldlM_nil,
      Option.pure_def, Int.natCast_zero, Int.add_zero]
  | succ n ih =>
    intro fuel acc i hn hf
    obtain ⟨f, rfl⟩ : ∃ f, fuel = f + 1 := ⟨fuel - 1, by omega⟩
    unfold Gen.Dense.CollapsingLowestDenseStore.adjust.loop1
    have hc : i < newMin := by omega
    simp only [hc, decide_true, if_true, toLow_DenseStore, toGen_bins, toGen_offset, idx_toList,
      irange_succ_left, List.foldlM_cons]
    cases hrd : rd s.bins (i - s.offset) with
    | none => rfl
    | some c =>
      have hlt := rd_some_lt _ _ _ hrd
      simp only [optL_some, Option.map_some, Option.bind_eq_bind, Option.bind_some]
      rw [ih f (acc + c) (i + 1) (by omega) (by omega)]
      simp only [Int.natCast_add, Int.natCast_one]
      rw [show i + 1 + (n : Int) = i + ((n : Int) + 1) by omega]

/-- `resetBins` only touches `bins` -/
theorem resetBins_meta (s t : DStore) (a b : Int) (h : s.resetBins a b = some t) :
    t.kind = s.kind ∧ t.isCollapsed = s.isCollapsed := by
  unfold DStore.resetBins at h
  simp only at h
  split at h
  · cases h; exact ⟨rfl, rfl⟩
  · split at h
    · cases h; exact ⟨rfl, rfl⟩
    · cases h

theorem shiftCounts_meta (s t : DStore) (shift : Int) (h : s.shiftCounts shift = some t) :
    t.kind = s.kind ∧ t.isCollapsed = s.isCollapsed := by
  unfold DStore.shiftCounts at h
  simp only at h
  split at h
  · cases h
  · simp only [Option.map_eq_some_iff] at h
    obtain ⟨u, hu, rfl⟩ := h
    split at hu
    · have := resetBins_meta _ u _ _ hu; exact this
    · have := resetBins_meta _ u _ _ hu; exact this

theorem centerCounts_meta (s t : DStore) (a b : Int) (h : s.centerCounts a b = some t) :
    t.kind = s.kind ∧ t.isCollapsed = s.isCollapsed := by
  unfold DStore.centerCounts at h
  simp only [Option.bind_eq_bind, Option.bind_eq_some_iff] at h
  obtain ⟨u, hu, h2⟩ := h
  cases h2
  exact shiftCounts_meta s u _ hu

theorem toGen_mk (k : DKind) (c : Bool) (b : Array Rat) (cnt : Rat) (off mn mx : Int) :
    ({ bins := b.toList, count := cnt, offset := off, minIndex := mn, maxIndex := mx } : GS)
      = toGen { kind := k, bins := b, count := cnt, offset := off, minIndex := mn, maxIndex := mx,
                isCollapsed := c } := rfl

theorem shiftCounts_rel' (fuel : Nat) (g : GS) (t : DStore) (shift : Int) (hg : g = toGen t)
    (hf : t.bins.size + 2 ≤ fuel) :
    Gen.Dense.DenseStore.shiftCounts fuel g shift = toRes toGen (t.shiftCounts shift) := by
  rw [hg, shiftCounts_rel fuel t shift hf]

theorem adjust_rel (fuel : Nat) (m : Int) (n : Nat) (s : DStore) (a b : Int) (hk : s.kind = .low n)
    (hf : s.bins.size + 2 ≤ fuel) :
    Gen.Dense.CollapsingLowestDenseStore.adjust fuel (toLow m s) a b = toRes (toLow m) (s.adjust a b) := by
  unfold Gen.Dense.CollapsingLowestDenseStore.adjust DStore.adjust
  simp only [hk, toLow_DenseStore, toLow_maxNumBins, toLow_isCollapsed, toGen_bins, toGen_offset,
    toGen_minIndex, toGen_maxIndex, toGen_count, len_toList]
  rw [show s.len = (s.bins.size : Int) from rfl]
  by_cases hw : b - a + 1 > (s.bins.size : Int)
  · rw [if_pos (by simpa using hw), if_pos hw]
    unfold DStore.collapseLow
    by_cases h1 : b - s.bins.size + 1 ≥ s.maxIndex
    · rw [if_pos (by simpa using h1), if_pos h1]
      have hnn : ¬ ((s.bins.size : Int) < 0) := by omega
      simp only [mkSlice_eq, if_neg hnn, Int.toNat_natCast, optR_some, set_toList]
      cases setAt (Array.replicate s.bins.size (0:Rat)) 0 s.count <;> rfl
    · rw [if_neg (by simpa using h1), if_neg h1]
      simp only []
      by_cases h2 : s.offset - (b - s.bins.size + 1) < 0
      · rw [if_pos (by simpa using h2), if_pos h2]
        rw [adjust_loop _ m s (b - ↑s.bins.size + 1 - 1 - s.minIndex + 1).toNat fuel 0 s.minIndex
          (by omega) (by omega)]
        unfold DStore.sumRange
        rw [idxRange_eq]
        cases List.foldlM (fun acc idx => Option.map (fun x => acc + x) (rd s.bins (idx - s.offset))) 0
          (irange s.minIndex (b - ↑s.bins.size + 1 - 1 - s.minIndex + 1).toNat) with
        | none => rfl
        | some r =>
          simp only [Loop.elim_done, Option.bind_eq_bind, Option.bind_some]
          rw [resetBins_rel fuel s _ _ (Or.inl hf)]
          cases hrs : s.resetBins s.minIndex (b - ↑s.bins.size + 1 - 1) with
          | none => rfl
          | some t =>
            have hts := resetBins_size s t _ _ hrs
            have htm := resetBins_meta s t _ _ hrs
            simp only [toRes_some, Res.bind_ok, toGen_bins, toGen_offset, toGen_count, toGen_maxIndex,
              addAt_toList, Option.bind_some]
            cases had : addAt t.bins (b - ↑s.bins.size + 1 - t.offset) r with
            | none => rfl
            | some b1 =>
              have hbs := addAt_size _ _ _ _ had
              simp only [Option.map_some, optR_some, Option.bind_some]
              rw [toGen_mk t.kind t.isCollapsed, shiftCounts_rel fuel _ _ (by simp only; omega)]
              exact toRes_bind _ _ _ _ _ (fun t => rfl)
      · rw [if_neg (by simpa using h2), if_neg h2]
        rw [shiftCounts_rel fuel s _ hf]
        cases s.shiftCounts (s.offset - (b - ↑s.bins.size + 1)) <;> rfl
  · rw [if_neg (by simpa using hw), if_neg hw, centerCounts_rel fuel s a b hf]
    cases hcc : s.centerCounts a b with
    | none => rfl
    | some t =>
      have := centerCounts_meta s t a b hcc
      simp only [toRes_some, Res.bind_ok, toLow, this.2]

/-! ### `extendRange` -/

theorem grow_meta (s t : DStore) (k : Int) (h : s.grow k = some t) :
    t.kind = s.kind ∧ t.isCollapsed = s.isCollapsed := by
  unfold DStore.grow at h
  split at h
  · cases h
  · cases h; exact ⟨rfl, rfl⟩

theorem extendRange_low (s : DStore) (n : Nat) (hk : s.kind = .low n) (a b : Int) :
    s.extendRange a b =
      if s.count = 0 then
        (s.getNewLength (min a s.minIndex) (max b s.maxIndex)).bind fun L =>
          (s.grow L).bind fun t =>
            if max b s.maxIndex - min a s.minIndex + 1 > L then
              adjust { t with offset := max b s.maxIndex - L + 1, minIndex := max b s.maxIndex - L + 1,
                              maxIndex := max b s.maxIndex, isCollapsed := true }
                (max b s.maxIndex - L + 1) (max b s.maxIndex)
            else
              adjust { t with offset := min a s.minIndex, minIndex := min a s.minIndex,
                              maxIndex := max b s.maxIndex } (min a s.minIndex) (max b s.maxIndex)
      else if min a s.minIndex ≥ s.offset ∧ max b s.maxIndex < s.offset + s.len then
        some { s with minIndex := min a s.minIndex, maxIndex := max b s.maxIndex }
      else
        (s.getNewLength (min a s.minIndex) (max b s.maxIndex)).bind fun L =>
          (if L > s.len then s.grow (L - s.len) else some s).bind fun t =>
            t.adjust (min a s.minIndex) (max b s.maxIndex) := by
  unfold DStore.extendRange
  simp only [hk]
  by_cases h0 : s.count = 0
  · simp only [h0, if_true]
    cases s.getNewLength (min a s.minIndex) (max b s.maxIndex) with
    | none => rfl
    | some L =>
      simp only [Option.bind_eq_bind, Option.bind_some]
      cases hg : s.grow L with
      | none => rfl
      | some t =>
        simp only [Option.bind_some]
        split <;> rfl
  · simp only [h0, if_false]
    split
    · rfl
    · cases s.getNewLength (min a s.minIndex) (max b s.maxIndex) with
      | none => rfl
      | some L =>
        simp only [Option.bind_eq_bind, Option.bind_some]
        split <;> rfl

def lowFuel (n : Nat) (s : DStore) : Nat := s.bins.size + n + 2

theorem getNewLength_le (s : DStore) (n : Nat) (hk : s.kind = .low n) (a b L : Int)
    (h : s.getNewLength a b = some L) : L ≤ n := by
  unfold DStore.getNewLength at h
  rw [hk] at h
  cases hd : denseNewLength a b with
  | none => rw [hd] at h; cases h
  | some d =>
    rw [hd] at h
    simp only [Option.bind_eq_bind, Option.bind_some, Option.pure_def, Option.some.injEq] at h
    omega

theorem adjust_rel' (fuel : Nat) (m : Int) (n : Nat) (g : GLow) (t : DStore) (a b : Int)
    (hg : g = toLow m t) (hk : t.kind = .low n) (hf : t.bins.size + 2 ≤ fuel) :
    (Gen.Dense.CollapsingLowestDenseStore.adjust fuel g a b).bind (fun x => Res.ok x)
      = toRes (toLow m) (t.adjust a b) := by
  rw [bind_ok_self, hg, adjust_rel fuel m n t a b hk hf]

theorem extendRange_rel (fuel : Nat) (n : Nat) (s : DStore) (a b : Int) (hk : s.kind = .low n)
    (hf : lowFuel n s ≤ fuel) :
    Gen.Dense.CollapsingLowestDenseStore.extendRange fuel (toLow (n : Int) s) a b
      = toRes (toLow (n : Int)) (s.extendRange a b) := by
  rw [extendRange_low s n hk]
  unfold Gen.Dense.CollapsingLowestDenseStore.extendRange
  unfold lowFuel at hf
  simp only [goMin_eq, goMax_eq, toLow_DenseStore, toGen_minIndex, toGen_maxIndex, isEmpty_eq,
    getNewLength_rel fuel n s _ _ hk]
  rw [show s.len = (s.bins.size : Int) from rfl]
  by_cases h0 : s.count = 0
  · have he : s.isEmpty = true := by simp [DStore.isEmpty, h0]
    rw [if_pos he, if_pos h0]
    cases hL : s.getNewLength (min a s.minIndex) (max b s.maxIndex) with
    | none => rfl
    | some L =>
      have hLn := getNewLength_le s n hk _ _ _ hL
      simp only [toRes_some, id, Res.bind_ok, Option.bind_some, mkSlice_eq, DStore.grow]
      by_cases hneg : L < 0
      · rw [if_pos hneg, if_pos hneg]; rfl
      · rw [if_neg hneg, if_neg hneg]
        simp only [optR_some, Option.bind_some]
        by_cases hwide : max b s.maxIndex - min a s.minIndex + 1 > L
        · rw [if_pos (by simpa using hwide), if_pos hwide]
          exact adjust_rel' fuel _ n _ _ _ _ (by simp [toLow, toGen]) hk
            (by simp only [Array.size_append, Array.size_replicate]; omega)
        · rw [if_neg (by simpa using hwide), if_neg hwide]
          exact adjust_rel' fuel _ n _ _ _ _ (by simp [toLow, toGen]) hk
            (by simp only [Array.size_append, Array.size_replicate]; omega)
  · have he : ¬ (s.isEmpty = true) := by simp [DStore.isEmpty, h0]
    rw [if_neg he, if_neg h0]
    simp only [toGen_offset, toGen_bins, len_toList]
    by_cases hin : min a s.minIndex ≥ s.offset ∧ max b s.maxIndex < s.offset + s.bins.size
    · rw [if_pos (by simpa using hin), if_pos hin]
      rfl
    · rw [if_neg (by simpa using hin), if_neg hin]
      cases hL : s.getNewLength (min a s.minIndex) (max b s.maxIndex) with
      | none => rfl
      | some L =>
        have hLn := getNewLength_le s n hk _ _ _ hL
        simp only [toRes_some, id, Res.bind_ok, Option.bind_some]
        by_cases hgt : L > s.bins.size
        · rw [if_pos (by simpa using hgt), if_pos hgt]
          simp only [DStore.grow]
          rw [if_neg (by omega)]
          simp only [Option.bind_some]
          exact adjust_rel' fuel _ n _ _ _ _ (by simp [toLow, toGen]) hk
            (by simp only [Array.size_append, Array.size_replicate]; omega)
        · rw [if_neg (by simpa using hgt), if_neg hgt]
          simp only [Option.bind_some]
          exact adjust_rel' fuel _ n _ _ _ _ rfl hk (by omega)

/-! ### `normalize`, `AddWithCount`, `Add`, `AddBin`, `Copy`, `Clear`, constructor -/

theorem normalize_rel (fuel : Nat) (n : Nat) (s : DStore) (i : Int) (hk : s.kind = .low n)
    (hf : lowFuel n s ≤ fuel) :
    Gen.Dense.CollapsingLowestDenseStore.normalize fuel (toLow (n : Int) s) i
      = toRes (fun p : DStore × Int => (toLow (n : Int) p.1, p.2)) (s.normalize i) := by
  unfold Gen.Dense.CollapsingLowestDenseStore.normalize DStore.normalize
  simp only [hk, toLow_DenseStore, toGen_minIndex, toGen_maxIndex, toGen_offset]
  by_cases h1 : i < s.minIndex
  · simp only [h1, decide_true, if_true]
    by_cases hc : s.isCollapsed = true
    · have hc' : (toLow (n : Int) s).isCollapsed = true := hc
      rw [if_pos hc', if_pos hc]; rfl
    · have hc' : ¬ ((toLow (n : Int) s).isCollapsed = true) := hc
      rw [if_neg hc', if_neg hc, extendRange_rel fuel n s i i hk hf]
      cases s.extendRange i i with
      | none => rfl
      | some t =>
        simp only [toRes_some, Res.bind_ok, Option.bind_eq_bind, Option.bind_some]
        by_cases hc2 : t.isCollapsed = true
        · have hc2' : (toLow (n : Int) t).isCollapsed = true := hc2
          rw [if_pos hc2', if_pos hc2]; rfl
        · have hc2' : ¬ ((toLow (n : Int) t).isCollapsed = true) := hc2
          rw [if_neg hc2', if_neg hc2]; rfl
  · simp only [h1, decide_false, Bool.false_eq_true, if_false]
    by_cases h2 : s.maxIndex < i
    · have h2' : i > s.maxIndex := h2
      simp only [h2, decide_true, if_true]
      rw [extendRange_rel fuel n s i i hk hf]
      cases s.extendRange i i <;> rfl
    · have h2' : ¬ (i > s.maxIndex) := h2
      simp only [h2, decide_false, Bool.false_eq_true, if_false]
      rfl

theorem addWithCount_rel (fuel : Nat) (n : Nat) (s : DStore) (i : Int) (c : Rat) (hk : s.kind = .low n)
    (hf : lowFuel n s ≤ fuel) :
    Gen.Dense.CollapsingLowestDenseStore.AddWithCount fuel (toLow (n : Int) s) i c
      = toRes (toLow (n : Int)) (s.addWithCount i c) := by
  unfold Gen.Dense.CollapsingLowestDenseStore.AddWithCount DStore.addWithCount
  by_cases h0 : c = 0
  · rw [if_pos (by simpa using h0), if_pos h0]; rfl
  · rw [if_neg (by simpa using h0), if_neg h0, normalize_rel fuel n s i hk hf]
    cases s.normalize i with
    | none => rfl
    | some p =>
      obtain ⟨t, ai⟩ := p
      simp only [toRes_some, Res.bind_ok, toLow_DenseStore, toGen_bins, addAt_toList, Option.bind_eq_bind,
        Option.bind_some]
      cases addAt t.bins ai c <;> rfl

theorem add_rel (fuel : Nat) (n : Nat) (s : DStore) (i : Int) (hk : s.kind = .low n)
    (hf : lowFuel n s ≤ fuel) :
    Gen.Dense.CollapsingLowestDenseStore.Add fuel (toLow (n : Int) s) i
      = toRes (toLow (n : Int)) (s.addWithCount i 1) := by
  unfold Gen.Dense.CollapsingLowestDenseStore.Add
  rw [bind_ok_self, addWithCount_rel fuel n s i 1 hk hf]

theorem addBin_rel (fuel : Nat) (n : Nat) (s : DStore) (bin : Gen.Dense.Bin) (hk : s.kind = .low n)
    (hf : lowFuel n s ≤ fuel) :
    Gen.Dense.CollapsingLowestDenseStore.AddBin fuel (toLow (n : Int) s) bin
      = toRes (toLow (n : Int)) (s.addWithCount bin.index bin.count) := by
  unfold Gen.Dense.CollapsingLowestDenseStore.AddBin Gen.Dense.Bin.Index Gen.Dense.Bin.Count
  by_cases h0 : bin.count = 0
  · simp only [h0]
    unfold DStore.addWithCount
    rw [if_pos rfl]; rfl
  · simp only
    rw [if_neg (by simpa using h0), bind_ok_self, addWithCount_rel fuel n s _ _ hk hf]

theorem copy_eq (m : Int) (s : DStore) :
    Gen.Dense.CollapsingLowestDenseStore.Copy (toLow m s) = toLow m s := by
  simp [Gen.Dense.CollapsingLowestDenseStore.Copy, GoSem.copySlice, GoSem.len, toLow, toGen]

theorem clear_rel (fuel : Nat) (m : Int) (s : DStore) :
    Gen.Dense.CollapsingLowestDenseStore.Clear fuel (toLow m s) = .ok (toLow m s.clear) := by
  unfold Gen.Dense.CollapsingLowestDenseStore.Clear
  rw [toLow_DenseStore, GenDense.clear_rel]
  rfl

theorem new_eq (n : Nat) :
    Gen.Dense.NewCollapsingLowestDenseStore (n : Int) = toLow (n : Int) (DStore.new (.low n)) := rfl


/-! ### kinds are preserved -/

theorem collapseLow_kind (s t : DStore) (nm : Int) (h : s.collapseLow nm = some t) : t.kind = s.kind := by
  unfold DStore.collapseLow at h
  split at h
  · simp only [Option.bind_eq_bind, Option.bind_eq_some_iff, Option.pure_def, Option.some.injEq] at h
    obtain ⟨b, _, rfl⟩ := h; rfl
  · simp only at h
    split at h
    · simp only [Option.bind_eq_bind, Option.bind_eq_some_iff] at h
      obtain ⟨r, _, u, hu, b1, _, h4⟩ := h
      rw [(shiftCounts_meta _ _ _ h4).1]; exact (resetBins_meta _ _ _ _ hu).1
    · simp only [Option.bind_eq_bind, Option.bind_eq_some_iff, Option.pure_def, Option.some.injEq] at h
      obtain ⟨u, hu, rfl⟩ := h
      exact (shiftCounts_meta _ _ _ hu).1

theorem adjust_kind (s t : DStore) (n : Nat) (a b : Int) (hk : s.kind = .low n)
    (h : s.adjust a b = some t) : t.kind = .low n := by
  unfold DStore.adjust at h
  simp only [hk] at h
  split at h
  · simp only [Option.bind_eq_bind, Option.bind_eq_some_iff, Option.pure_def, Option.some.injEq] at h
    obtain ⟨u, hu, rfl⟩ := h
    simp only
    rw [collapseLow_kind _ _ _ hu, hk]
  · rw [(centerCounts_meta _ _ _ _ h).1, hk]

theorem extendRange_kind (s t : DStore) (n : Nat) (a b : Int) (hk : s.kind = .low n)
    (h : s.extendRange a b = some t) : t.kind = .low n := by
  rw [extendRange_low s n hk] at h
  split at h
  · simp only [Option.bind_eq_some_iff] at h
    obtain ⟨L, _, u, hu, h3⟩ := h
    have huk : u.kind = .low n := by rw [(grow_meta s u L hu).1, hk]
    split at h3
    · exact adjust_kind _ _ n _ _ (by exact huk) h3
    · exact adjust_kind _ _ n _ _ (by exact huk) h3
  · split at h
    · cases h; exact hk
    · simp only [Option.bind_eq_some_iff] at h
      obtain ⟨L, _, u, hu, h3⟩ := h
      refine adjust_kind _ _ n _ _ ?_ h3
      split at hu
      · rw [(grow_meta s u _ hu).1, hk]
      · cases hu; exact hk

theorem normalize_kind (s t : DStore) (n : Nat) (i ai : Int) (hk : s.kind = .low n)
    (h : s.normalize i = some (t, ai)) : t.kind = .low n := by
  unfold DStore.normalize at h
  simp only [hk] at h
  split at h
  · split at h
    · cases h; exact hk
    · simp only [Option.bind_eq_bind, Option.bind_eq_some_iff] at h
      obtain ⟨u, hu, h2⟩ := h
      have := extendRange_kind s u n i i hk hu
      split at h2 <;> (cases h2; exact this)
  · split at h
    · simp only [Option.bind_eq_bind, Option.bind_eq_some_iff, Option.pure_def, Option.some.injEq,
        Prod.mk.injEq] at h
      obtain ⟨u, hu, h2, _⟩ := h
      rw [← h2]; exact extendRange_kind s u n i i hk hu
    · cases h; exact hk

theorem addWithCount_kind (s t : DStore) (n : Nat) (i : Int) (c : Rat) (hk : s.kind = .low n)
    (h : s.addWithCount i c = some t) : t.kind = .low n := by
  unfold DStore.addWithCount at h
  split at h
  · cases h; exact hk
  · simp only [Option.bind_eq_bind, Option.bind_eq_some_iff] at h
    obtain ⟨⟨u, ai⟩, hu, b, _, h3⟩ := h
    cases h3
    exact normalize_kind s u n i ai hk hu


/-! ### `MergeWith` (same-type fast path) -/

theorem irange_add (lo : Int) (a b : Nat) : irange lo (a + b) = irange lo a ++ irange (lo + a) b := by
  induction b with
  | zero => simp [irange_zero]
  | succ b ih =>
    rw [← Nat.add_assoc, irange_succ_right, ih, irange_succ_right, List.append_assoc]
    simp only [Int.natCast_add, Int.add_assoc]

/-- one step of the model's merge fold for the lowest-collapsing store -/
def lowStep (o : DStore) (off mn : Int) (b : Array Rat) (j : Int) : Option (Array Rat) :=
  (rd o.bins (j - o.offset)).bind fun c => if j < mn then addAt b 0 c else addAt b (j - off) c

/-- first loop of `MergeWith`: indexes below `s.minIndex` go to bin 0 -/
theorem merge_loop2 (m m' : Int) (o : DStore) (n : Nat) :
    ∀ (fuel : Nat) (s : DStore) (idx : Int),
      (min s.minIndex (o.maxIndex + 1) - idx).toNat = n → n + 1 ≤ fuel →
      Gen.Dense.CollapsingLowestDenseStore.MergeWith.loop2 (toLow m' o) fuel (toLow m s) idx =
        match (irange idx n).foldlM (lowStep o s.offset s.minIndex) s.bins with
        | some b => .done (toLow m { s with bins := b }, idx + n)
        | none => .panic := by
  induction n with
  | zero =>
    intro fuel s idx hn hf
    obtain ⟨f, rfl⟩ : ∃ f, fuel = f + 1 := ⟨fuel - 1, by omega⟩
    unfold Gen.Dense.CollapsingLowestDenseStore.MergeWith.loop2
    have hc : ¬ ((decide (idx < (toLow m s).DenseStore.minIndex) &&
        decide (idx ≤ (toLow m' o).DenseStore.maxIndex)) = true) := by
      rw [Bool.and_eq_true, decide_eq_true_eq, decide_eq_true_eq]
      simp only [toLow_DenseStore, toGen_minIndex, toGen_maxIndex]; omega
    rw [if_neg hc]
    simp only [irange_zero, List.foldlM_nil, Option.pure_def, Int.natCast_zero, Int.add_zero]
  | succ n ih =>
    intro fuel s idx hn hf
    obtain ⟨f, rfl⟩ : ∃ f, fuel = f + 1 := ⟨fuel - 1, by omega⟩
    unfold Gen.Dense.CollapsingLowestDenseStore.MergeWith.loop2
    have h1 : idx < s.minIndex := by omega
    have hc : (decide (idx < (toLow m s).DenseStore.minIndex) &&
        decide (idx ≤ (toLow m' o).DenseStore.maxIndex)) = true := by
      rw [Bool.and_eq_true, decide_eq_true_eq, decide_eq_true_eq]
      simp only [toLow_DenseStore, toGen_minIndex, toGen_maxIndex]; omega
    rw [if_pos hc]
    simp only [toLow_DenseStore, toGen_offset, toGen_bins, irange_succ_left, List.foldlM_cons]
    rw [optL_comm, idx_toList]
    unfold lowStep
    cases hrd : rd o.bins (idx - o.offset) with
    | none => rfl
    | some c =>
      simp only [optL_some, Option.bind_eq_bind, Option.bind_some, if_pos h1]
      rw [addAt_toList_L]
      cases hadd : addAt s.bins 0 c with
      | none => rfl
      | some b' =>
        simp only [Option.map_some, optL_some, Option.bind_some, Int.natCast_add, Int.natCast_one]
        rw [show idx + ((n : Int) + 1) = idx + 1 + (n : Int) by omega]
        exact ih f { s with bins := b' } (idx + 1) (by simp only; omega) (by omega)

/-- second loop of `MergeWith`: indexes in `[s.minIndex, o.maxIndex)` go to their own bin -/
theorem merge_loop1 (m m' : Int) (o : DStore) (n : Nat) :
    ∀ (fuel : Nat) (s : DStore) (idx : Int), (o.maxIndex - idx).toNat = n →
      (idx < o.maxIndex → s.minIndex ≤ idx) → n + 1 ≤ fuel →
      Gen.Dense.CollapsingLowestDenseStore.MergeWith.loop1 (toLow m' o) fuel (toLow m s) idx =
        match (irange idx n).foldlM (lowStep o s.offset s.minIndex) s.bins with
        | some b => .done (toLow m { s with bins := b }, idx + n)
        | none => .panic := by
  induction n with
  | zero =>
    intro fuel s idx hn hge hf
    obtain ⟨f, rfl⟩ : ∃ f, fuel = f + 1 := ⟨fuel - 1, by omega⟩
    unfold Gen.Dense.CollapsingLowestDenseStore.MergeWith.loop1
    have hc : ¬ (idx < o.maxIndex) := by omega
    simp only [toLow_DenseStore, toGen_maxIndex, hc, decide_false, Bool.false_eq_true, if_false,
      irange_zero, List.foldlM_nil, Option.pure_def, Int.natCast_zero, Int.add_zero]
  | succ n ih =>
    intro fuel s idx hn hge hf
    obtain ⟨f, rfl⟩ : ∃ f, fuel = f + 1 := ⟨fuel - 1, by omega⟩
    unfold Gen.Dense.CollapsingLowestDenseStore.MergeWith.loop1
    have hc : idx < o.maxIndex := by omega
    have h1 : ¬ (idx < s.minIndex) := by have := hge hc; omega
    simp only [toLow_DenseStore, toGen_maxIndex, hc, decide_true, if_true, toGen_offset, toGen_bins,
      irange_succ_left, List.foldlM_cons]
    rw [optL_comm, idx_toList]
    unfold lowStep
    cases hrd : rd o.bins (idx - o.offset) with
    | none => rfl
    | some c =>
      simp only [optL_some, Option.bind_eq_bind, Option.bind_some, if_neg h1]
      rw [addAt_toList_L]
      cases hadd : addAt s.bins (idx - s.offset) c with
      | none => rfl
      | some b' =>
        simp only [Option.map_some, optL_some, Option.bind_some, Int.natCast_add, Int.natCast_one]
        rw [show idx + ((n : Int) + 1) = idx + 1 + (n : Int) by omega]
        exact ih f { s with bins := b' } (idx + 1) (by omega) (by intro _; simp only; omega) (by omega)


/-- the part of the generated `MergeWith` after the range has been extended (the text of the
    generated definition, both branches) -/
def genMergeTail (fuel : Nat) (o s : GLow) : Res GLow :=
  let idx := ((o).DenseStore).minIndex
  Loop.elim (Gen.Dense.CollapsingLowestDenseStore.MergeWith.loop2 o fuel s idx) (fun (s, idx) =>
  Loop.elim (Gen.Dense.CollapsingLowestDenseStore.MergeWith.loop1 o fuel s idx) (fun (s, idx) =>
  if (idx == ((o).DenseStore).maxIndex) then
  GoSem.optR (GoSem.idx ((s).DenseStore).bins (idx - ((s).DenseStore).offset)) (fun t1 =>
  GoSem.optR (GoSem.idx ((o).DenseStore).bins (idx - ((o).DenseStore).offset)) (fun t2 =>
  GoSem.optR (GoSem.set ((s).DenseStore).bins (idx - ((s).DenseStore).offset) (t1 + t2)) (fun t3 =>
  let s := { s with DenseStore := { (s).DenseStore with bins := t3 } }
  let s := { s with DenseStore := { (s).DenseStore with count := (((s).DenseStore).count + ((o).DenseStore).count) } }
  .ok s)))
  else
  let s := { s with DenseStore := { (s).DenseStore with count := (((s).DenseStore).count + ((o).DenseStore).count) } }
  .ok s))

theorem mergeWith_unfold (fuel : Nat) (s o : GLow) :
    Gen.Dense.CollapsingLowestDenseStore.MergeWith fuel s o =
      if Gen.Dense.DenseStore.IsEmpty o.DenseStore then .ok s
      else if (decide (o.DenseStore.minIndex < s.DenseStore.minIndex) ||
               decide (s.DenseStore.maxIndex < o.DenseStore.maxIndex)) then
        Res.bind (Gen.Dense.CollapsingLowestDenseStore.extendRange fuel s o.DenseStore.minIndex
          o.DenseStore.maxIndex) (genMergeTail fuel o)
      else genMergeTail fuel o s := rfl

theorem merge_tail (fuel : Nat) (m m' : Int) (s o : DStore)
    (hf : (o.maxIndex - o.minIndex + 1).toNat + 1 ≤ fuel) :
    genMergeTail fuel (toLow m' o) (toLow m s) = toRes (toLow m)
      (((idxRange o.minIndex o.maxIndex).foldlM (lowStep o s.offset s.minIndex) s.bins).bind fun b =>
        some { s with bins := b, count := s.count + o.count }) := by
  unfold genMergeTail
  rw [idxRange_eq, show (toLow m' o).DenseStore.minIndex = o.minIndex from rfl]
  simp only []
  obtain ⟨k, hk⟩ : ∃ k : Nat, k = (min s.minIndex (o.maxIndex + 1) - o.minIndex).toNat := ⟨_, rfl⟩
  rw [merge_loop2 m m' o k fuel s o.minIndex hk.symm (by omega)]
  by_cases he : o.minIndex + k ≤ o.maxIndex
  · obtain ⟨n1, hn1⟩ : ∃ n1 : Nat, n1 = (o.maxIndex - (o.minIndex + k)).toNat := ⟨_, rfl⟩
    have hW : (o.maxIndex - o.minIndex + 1).toNat = k + (n1 + 1) := by omega
    rw [hW, irange_add, irange_succ_right]
    simp only [List.foldlM_append]
    cases h2 : List.foldlM (lowStep o s.offset s.minIndex) s.bins (irange o.minIndex k) with
    | none => rfl
    | some b2 =>
      simp only [Loop.elim_done, Option.bind_eq_bind, Option.bind_some]
      rw [merge_loop1 m m' o n1 fuel { s with bins := b2 } (o.minIndex + k) hn1.symm
        (by intro _; simp only; omega) (by omega)]
      simp only
      cases h3 : List.foldlM (lowStep o s.offset s.minIndex) b2 (irange (o.minIndex + ↑k) n1) with
      | none => rfl
      | some b3 =>
        simp only [Loop.elim_done, Option.bind_some]
        have hidx : (o.minIndex + ↑k + ↑n1 == (toLow m' o).DenseStore.maxIndex) = true := by
          rw [beq_iff_eq]; show _ = o.maxIndex; omega
        rw [if_pos hidx]
        simp only [toLow_DenseStore, toLow_maxNumBins, toLow_isCollapsed, toGen_bins, toGen_offset,
          toGen_count, toGen_minIndex, toGen_maxIndex, List.foldlM_cons, List.foldlM_nil]
        rw [optR_comm, idx_toList]
        unfold lowStep
        cases hrd : rd o.bins (o.minIndex + ↑k + ↑n1 - o.offset) with
        | none => rfl
        | some c =>
          have h1 : ¬ (o.minIndex + ↑k + ↑n1 < s.minIndex) := by omega
          simp only [optR_some, Option.bind_eq_bind, Option.bind_some, if_neg h1, Option.pure_def]
          rw [addAt_toList]
          cases addAt b3 (o.minIndex + ↑k + ↑n1 - s.offset) c <;> rfl
  · have hW : (o.maxIndex - o.minIndex + 1).toNat = k := by omega
    rw [hW]
    cases h2 : List.foldlM (lowStep o s.offset s.minIndex) s.bins (irange o.minIndex k) with
    | none => rfl
    | some b2 =>
      simp only [Loop.elim_done, Option.bind_some]
      rw [merge_loop1 m m' o 0 fuel { s with bins := b2 } (o.minIndex + k) (by omega)
        (by intro _; simp only; omega) (by omega)]
      simp only [irange_zero, List.foldlM_nil, Option.pure_def, Loop.elim_done, Int.natCast_zero,
        Int.add_zero]
      have hidx : ¬ ((o.minIndex + ↑k == (toLow m' o).DenseStore.maxIndex) = true) := by
        rw [beq_iff_eq]; show ¬ (_ = o.maxIndex); omega
      rw [if_neg hidx]
      rfl

/-- fuel for `MergeWith`: the `extendRange` call and the loops over `[o.minIndex, o.maxIndex]` -/
def mergeFuel (n : Nat) (s o : DStore) : Nat :=
  max (lowFuel n s) ((o.maxIndex - o.minIndex + 1).toNat + 1)

/-- `MergeWith` of two lowest-collapsing stores (the same-type fast path): the two loops and the
    final step of the generated code are the model's single fold -/
theorem mergeWith_rel (fuel : Nat) (n : Nat) (m' : Int) (s o : DStore) (hk : s.kind = .low n)
    (hf : mergeFuel n s o ≤ fuel) :
    Gen.Dense.CollapsingLowestDenseStore.MergeWith fuel (toLow (n : Int) s) (toLow m' o)
      = toRes (toLow (n : Int)) (s.mergeSame o) := by
  rw [mergeWith_unfold]
  unfold DStore.mergeSame
  unfold mergeFuel at hf
  rw [toLow_DenseStore, isEmpty_eq]
  by_cases he : o.isEmpty = true
  · rw [if_pos he, if_pos he]; rfl
  · rw [if_neg he, if_neg he]
    by_cases hc : o.minIndex < s.minIndex ∨ o.maxIndex > s.maxIndex
    · have hc' : (decide ((toGen o).minIndex < (toLow (n : Int) s).DenseStore.minIndex) ||
          decide ((toLow (n : Int) s).DenseStore.maxIndex < (toGen o).maxIndex)) = true := by
        rw [Bool.or_eq_true, decide_eq_true_eq, decide_eq_true_eq]; exact hc
      rw [if_pos hc', if_pos hc]
      rw [show (toGen o).minIndex = o.minIndex from rfl, show (toGen o).maxIndex = o.maxIndex from rfl,
        extendRange_rel fuel n s _ _ hk (by omega)]
      cases hx : s.extendRange o.minIndex o.maxIndex with
      | none => rfl
      | some s1 =>
        have hk1 := extendRange_kind s s1 n _ _ hk hx
        simp only [toRes_some, Res.bind_ok, Option.bind_eq_bind, Option.bind_some, hk1]
        exact (merge_tail fuel (n : Int) m' s1 o (by omega)).trans (by rw [idxRange_eq, hk1]; rfl)
    · have hc' : ¬ ((decide ((toGen o).minIndex < (toLow (n : Int) s).DenseStore.minIndex) ||
          decide ((toLow (n : Int) s).DenseStore.maxIndex < (toGen o).maxIndex)) = true) := by
        rw [Bool.or_eq_true, decide_eq_true_eq, decide_eq_true_eq]; exact hc
      rw [if_neg hc', if_neg hc]
      simp only [hk, Option.pure_def, Option.bind_eq_bind, Option.bind_some]
      exact (merge_tail fuel (n : Int) m' s o (by omega)).trans (by rw [idxRange_eq, hk]; rfl)

/-! ### the same for EVERY generated store with a non-negative limit -/

theorem addWithCount_gen (fuel : Nat) (g : GLow) (hn : 0 ≤ g.maxNumBins) (i : Int) (c : Rat)
    (hf : g.DenseStore.bins.length + g.maxNumBins.toNat + 2 ≤ fuel) :
    Gen.Dense.CollapsingLowestDenseStore.AddWithCount fuel g i c
      = toRes (toLow g.maxNumBins) ((ofLow g).addWithCount i c) := by
  have := addWithCount_rel fuel g.maxNumBins.toNat (ofLow g) i c rfl
    (by unfold lowFuel; simpa [ofLow, ofGen] using hf)
  rwa [show ((g.maxNumBins.toNat : Nat) : Int) = g.maxNumBins by omega, toLow_ofLow] at this

theorem mergeWith_gen (fuel : Nat) (g o : GLow) (hn : 0 ≤ g.maxNumBins)
    (hf : max (g.DenseStore.bins.length + g.maxNumBins.toNat + 2)
      ((o.DenseStore.maxIndex - o.DenseStore.minIndex + 1).toNat + 1) ≤ fuel) :
    Gen.Dense.CollapsingLowestDenseStore.MergeWith fuel g o
      = toRes (toLow g.maxNumBins) ((ofLow g).mergeSame (ofLow o)) := by
  have := mergeWith_rel fuel g.maxNumBins.toNat o.maxNumBins (ofLow g) (ofLow o) rfl
    (by unfold mergeFuel lowFuel; simpa [ofLow, ofGen] using hf)
  rwa [show ((g.maxNumBins.toNat : Nat) : Int) = g.maxNumBins by omega, toLow_ofLow, toLow_ofLow] at this

/-! ### enough fuel exists; the statements through `RRel` -/

theorem addWithCount_ex (n : Nat) (s : DStore) (i : Int) (c : Rat) (hk : s.kind = .low n) :
    ∃ f0, ∀ fuel, f0 ≤ fuel →
      Gen.Dense.CollapsingLowestDenseStore.AddWithCount fuel (toLow (n : Int) s) i c
        = toRes (toLow (n : Int)) (s.addWithCount i c) :=
  ⟨_, fun fuel hf => addWithCount_rel fuel n s i c hk hf⟩

theorem mergeWith_ex (n : Nat) (m' : Int) (s o : DStore) (hk : s.kind = .low n) :
    ∃ f0, ∀ fuel, f0 ≤ fuel →
      Gen.Dense.CollapsingLowestDenseStore.MergeWith fuel (toLow (n : Int) s) (toLow m' o)
        = toRes (toLow (n : Int)) (s.mergeSame o) :=
  ⟨_, fun fuel hf => mergeWith_rel fuel n m' s o hk hf⟩

theorem addWithCount_RRel (fuel : Nat) (n : Nat) (s : DStore) (i : Int) (c : Rat) (hk : s.kind = .low n)
    (hf : lowFuel n s ≤ fuel) :
    RRel (toLow (n : Int)) (s.addWithCount i c)
      (Gen.Dense.CollapsingLowestDenseStore.AddWithCount fuel (toLow (n : Int) s) i c) :=
  addWithCount_rel fuel n s i c hk hf

theorem mergeWith_RRel (fuel : Nat) (n : Nat) (m' : Int) (s o : DStore) (hk : s.kind = .low n)
    (hf : mergeFuel n s o ≤ fuel) :
    RRel (toLow (n : Int)) (s.mergeSame o)
      (Gen.Dense.CollapsingLowestDenseStore.MergeWith fuel (toLow (n : Int) s) (toLow m' o)) :=
  mergeWith_rel fuel n m' s o hk hf

end DDS.GenLow
