/-
  DDS.Proofs.GenSketch7 — the REGENERATED iteration / construction / decoding entry points of the sketch
  (`DDS/Generated/CodeSketchIter.lean`, namespace `DDS.Gen.SketchIter`, translated from
  `/repo/ddsketch/ddsketch.go` on every run) against the HAND-WRITTEN model (`DDS/Model/Sketch.lean`,
  `DDS/Model/ChangeMapping.lean`), over the model instances `MapI MapEnv`, `StoreI Store`
  (`DDS/Proofs/GenSketch.lean`) and `MapI (Option MapEnv)` (`DDS/Proofs/GenSketch5.lean`).

  1. `DDSketch.ForEach` (ddsketch.go:287; state-passing callback `f : σ → value → count → Res (σ × stop)`).
     `visit f l st` is the stop-aware fold of a visitor over a list of (value, weight) pairs: it calls `f` on the
     elements in order, threads the state, and does not look at the rest of the list once `f` answered `true`.
     * `ForEach_eq_visit` (ANY instances, any fuel — no loop on fuel): `ForEach fuel g st f` is
       `visit f (genList g) st` with the flag dropped, where `genList g` is: the pair `(0, zeroCount)` if
       `zeroCount != 0` (IEEE: also when it is NaN or infinite), THEN the bins of the POSITIVE store with
       `Value(index)`, THEN the bins of the NEGATIVE store with `-Value(index)`.  That is also the order of the
       model's `Sketch.forEachList` (zero bucket, positive, negative).
     * `genList_model`: for a model sketch whose `forEachList env s = some l`, `genList (toGen env s)` is
       `zeroExtra s.zero ++ liftL l` (`liftL`: the rational weights as floats; `zeroExtra z = []` for a finite `z`).
     * `ForEach_model` (zero count finite): `ForEach fuel (toGen env s) st f = dropFlag (visit f (liftL l) st)`.
     * stopping (C12): `visit_stop_head`, `visit_append_stopped`: once the visitor answers `true` the result does
       not depend on what follows; `visit_logged`: with the calls recorded in the state, the log is a prefix
       `l.take k` of the enumeration, the whole of it when the flag is `false`, and ending with the call that
       answered `true` when the flag is `true`; `visit_log_pred` for a stop PREDICATE `p`: the calls are exactly
       `takeThrough p l` (the elements before the first one satisfying `p`, and that one).
  2. `DDSketch.GetSum` (ddsketch.go:265): `GetSum_eq_fold` (any instances): the float fold
     `sum += value * count` over `genList g` from `0`; `GetSum_model` (zero count finite):
     `s.getSum env = some x → GetSum fuel (toGen env s) = .ok x`.

  3. constructors and `DecodeDDSketch`: `NewFromProvider_eq/_ok/_panic` (any instances: provider called twice,
     positive store first; a panicking provider propagates), `NewFromProvider_model`, `NewExact_model`
     (`= .ok (toGen env (Sketch.new …))`, `.ok (toGenX env (XSketch.new …))`, provider `provider k` handing out
     `Store.new k`), `GetStores_model`; `DecodeDDSketch_eqO/_eqE` (a fresh sketch, then the plain decoder of
     `GenSketch5`), `DecodeDDSketch_relO` (nil or non-nil mapping argument, `M := Option MapEnv`) and
     `DecodeDDSketch_relE` (`M := MapEnv`): `DecRelO/DecRelE` against
     `(Sketch.new m k).decodeAndMergeWith`, fuel `≥ len b + 9`; `DecodeDDSketch_panic`.
  4a. `DDSketchWithExactSummaryStatistics.ChangeMapping`: `XChangeMapping_eq` (the plain `ChangeMapping` of
     `GenSketch6` on the embedded sketch with two empty sparse targets from the provider; statistics copied and
     rescaled), `XChangeMapping_rel` (= `xchangeMapping`, general path, under `GenSketch6.allExit`),
     `XChangeMapping_identity`, `XChangeMapping_nofuel`.
  4b. the decoder in STATE-PASSING form (`Gen.SketchIter.DDSketch.decodeAndMergeWith`, the threaded state `σ`
     is what the fallback closure assigns): `loop1S_rel`, `decodeAndMergeWithS_rel` — against
     `Sketch.decodeLoop` with ANY auxiliary state `aux`, for any fallback meeting `FbSpecS R` (a relation `R`
     between `aux` and the threaded state), any mapping type meeting `GenSketch5.MapLaw`; model fuel `≥ len b`,
     generated fuel `≥ len b + 9`.  `xfb_spec`: the closure of the exact variant (count / sum / min / max
     blocks update the statistics) meets `FbSpecS XR` against `Sketch.fallback` with `stats := some …`.
     `XDecodeAndMergeWith_rel_gen`, `XDecodeAndMergeWith_rel` (`M := MapEnv`), `DecodeExact_eqO`,
     `DecodeExact_relO` (`DecodeDDSketchWithExactSummaryStatistics`, `M := Option MapEnv`): `XDecRel` against
     `XSketch.decodeAndMergeWith`: success ⇒ nil error and the model's sketch AND statistics; refusal `e` ⇒
     returns normally with `decErrX e` ("missing exact summary statistics" for `.missingStats`, else `decErr e`)
     — for an error of the loop itself the statement allows `decErr e`, which differs from `decErrX e` only
     for `e = .missingStats`, an error the loop never produces (NOT proved here: the disjunction in `XDecRel`).
     HYPOTHESIS `F64LESpec`: `DecodeFloat64LE` (encoding.go:128) reads `Codec.decF64LE` — `GoSem.leU64` against
     `Codec.leValue` is not proved in this file (nor elsewhere yet); everything in 4b that touches a sum / min /
     max block takes it as a hypothesis.

  DISAGREEMENT (model scope, `ForEach_disagree`, `GetSum_disagree`): the Go test is `s.zeroCount != 0`, true for
  `+Inf` and NaN; the model's `forEachList` emits the zero bucket only for a FINITE non-zero zero count.  With
  `zeroCount = +Inf` (reachable in Go by `AddWithCount(0, +Inf)`, which the model puts outside its scope: its
  `addWithCount` answers `none` for a non-finite weight) the generated `ForEach` calls the visitor once with
  `(0, +Inf)` and `GetSum` is NaN (`0 * Inf`), while the model enumerates nothing and sums to `0`.  Agreement is
  proved under `s.zero` finite; the general statement (`genList_model`) has the extra head `zeroExtra s.zero`.

  Core Lean only.
-/
import DDS.Generated.CodeSketchIter
import DDS.Proofs.GenSketch5
import DDS.Proofs.GenSketch6

set_option linter.unusedVariables false
set_option linter.unusedSectionVars false

namespace DDS.GenSketch7

open DDS DDS.GoSem DDS.Gen.Sketch DDS.GenSketch

/-! ### 1. `ForEach` -/

/-- the stop-aware fold of a visitor over (value, weight) pairs: state threaded, the flag says whether the
    visitor asked to stop; nothing after the element on which it answered `true` is looked at -/
def visit {σ : Type} (f : σ → F64 → F64 → Res (σ × Bool)) : List (F64 × F64) → σ → Res (σ × Bool)
  | [], st => .ok (st, false)
  | p :: rest, st => Res.bind (f st p.1 p.2) (fun r => if r.2 then .ok (r.1, true) else visit f rest r.1)

@[simp] theorem visit_nil {σ : Type} (f : σ → F64 → F64 → Res (σ × Bool)) (st : σ) :
    visit f [] st = .ok (st, false) := rfl

theorem visit_cons {σ : Type} (f : σ → F64 → F64 → Res (σ × Bool)) (p : F64 × F64) (rest : List (F64 × F64))
    (st : σ) :
    visit f (p :: rest) st =
      Res.bind (f st p.1 p.2) (fun r => if r.2 then .ok (r.1, true) else visit f rest r.1) := rfl

/-- a visitor answering `true` on the head: the tail is irrelevant -/
theorem visit_stop_head {σ : Type} (f : σ → F64 → F64 → Res (σ × Bool)) (v c : F64) (rest : List (F64 × F64))
    (st st' : σ) (h : f st v c = .ok (st', true)) : visit f ((v, c) :: rest) st = .ok (st', true) := by
  rw [visit_cons, h]; rfl

/-- a visitor answering `false` on the head: go on with the tail from the new state -/
theorem visit_go_head {σ : Type} (f : σ → F64 → F64 → Res (σ × Bool)) (v c : F64) (rest : List (F64 × F64))
    (st st' : σ) (h : f st v c = .ok (st', false)) : visit f ((v, c) :: rest) st = visit f rest st' := by
  rw [visit_cons, h]; rfl

theorem visit_append {σ : Type} (f : σ → F64 → F64 → Res (σ × Bool)) (l t : List (F64 × F64)) :
    ∀ st : σ, visit f (l ++ t) st =
      Res.bind (visit f l st) (fun r => if r.2 then .ok (r.1, true) else visit f t r.1) := by
  induction l with
  | nil => intro st; rfl
  | cons p rest ih =>
    intro st
    rw [List.cons_append, visit_cons, visit_cons]
    cases hf : f st p.1 p.2 with
    | panic => rfl
    | nofuel => rfl
    | ok r =>
      obtain ⟨st', b⟩ := r
      cases b with
      | true => rfl
      | false =>
        simp only [Res.bind_ok, Bool.false_eq_true, if_false]
        exact ih st'

/-- once stopped, what follows in the enumeration is irrelevant -/
theorem visit_append_stopped {σ : Type} (f : σ → F64 → F64 → Res (σ × Bool)) (l t : List (F64 × F64))
    (st st' : σ) (h : visit f l st = .ok (st', true)) : visit f (l ++ t) st = .ok (st', true) := by
  rw [visit_append, h]; rfl

theorem visit_append_go {σ : Type} (f : σ → F64 → F64 → Res (σ × Bool)) (l t : List (F64 × F64))
    (st st' : σ) (h : visit f l st = .ok (st', false)) : visit f (l ++ t) st = visit f t st' := by
  rw [visit_append, h]; rfl

/-- drop the flag -/
def dropFlag {σ : Type} (r : Res (σ × Bool)) : Res σ := Res.bind r (fun r => .ok r.1)

section Generic
variable {M S : Type} [MapI M] [StoreI S] [Inhabited M] [Inhabited S]

/-- what the generated `ForEach` enumerates, in its order: `(0, zeroCount)` if `zeroCount != 0`, the positive
    store's bins, the negative store's bins with negated values -/
def genList (g : DDSketch M S) : List (F64 × F64) :=
  (if F64.ne g.zeroCount (.fin 0) then [(F64.fin 0, g.zeroCount)] else []) ++
  (StoreI.ForEachList g.positiveValueStore).map (fun p => (MapI.Value g.IndexMapping p.1, p.2)) ++
  (StoreI.ForEachList g.negativeValueStore).map (fun p => (F64.neg (MapI.Value g.IndexMapping p.1), p.2))

def resL2 {σ : Type} : Res (σ × Bool) → Loop (Bool × σ) σ
  | .ok r => .done (r.2, r.1)
  | .panic => .panic
  | .nofuel => .nofuel

def resL1 {σ : Type} : Res (σ × Bool) → Loop σ σ
  | .ok r => .done r.1
  | .panic => .panic
  | .nofuel => .nofuel

theorem loop2_eq {σ : Type} (f : σ → F64 → F64 → Res (σ × Bool)) (g : DDSketch M S) :
    ∀ (l : List (Int × F64)) (st : σ),
      Gen.SketchIter.DDSketch.ForEach.loop2 f g l false st =
        resL2 (visit f (l.map (fun p => (MapI.Value g.IndexMapping p.1, p.2))) st) := by
  intro l
  induction l with
  | nil => intro st; rfl
  | cons p rest ih =>
    intro st
    obtain ⟨i, c⟩ := p
    rw [List.map_cons, visit_cons]
    unfold Gen.SketchIter.DDSketch.ForEach.loop2
    cases hf : f st (MapI.Value g.IndexMapping i) c with
    | panic => rfl
    | nofuel => rfl
    | ok r =>
      obtain ⟨st', b⟩ := r
      cases b with
      | true => rfl
      | false =>
        simp only [Res.bindL_ok, Res.bind_ok, Bool.false_eq_true, if_false]
        exact ih st'

theorem loop1_eq {σ : Type} (f : σ → F64 → F64 → Res (σ × Bool)) (g : DDSketch M S) :
    ∀ (l : List (Int × F64)) (st : σ),
      Gen.SketchIter.DDSketch.ForEach.loop1 f g l st =
        resL1 (visit f (l.map (fun p => (F64.neg (MapI.Value g.IndexMapping p.1), p.2))) st) := by
  intro l
  induction l with
  | nil => intro st; rfl
  | cons p rest ih =>
    intro st
    obtain ⟨i, c⟩ := p
    rw [List.map_cons, visit_cons]
    unfold Gen.SketchIter.DDSketch.ForEach.loop1
    cases hf : f st (F64.neg (MapI.Value g.IndexMapping i)) c with
    | panic => rfl
    | nofuel => rfl
    | ok r =>
      obtain ⟨st', b⟩ := r
      cases b with
      | true => rfl
      | false =>
        simp only [Res.bindL_ok, Res.bind_ok, Bool.false_eq_true, if_false]
        exact ih st'

/-- the two store loops of `ForEach`, one after the other -/
theorem stores_eq {σ : Type} (f : σ → F64 → F64 → Res (σ × Bool)) (g : DDSketch M S) (st : σ) :
    Loop.elim (Gen.SketchIter.DDSketch.ForEach.loop2 f g (StoreI.ForEachList g.positiveValueStore) false st)
      (fun (stopped, st) =>
        if stopped then .ok st
        else Loop.elim (Gen.SketchIter.DDSketch.ForEach.loop1 f g (StoreI.ForEachList g.negativeValueStore) st)
          (fun st => .ok st)) =
    dropFlag (visit f
      ((StoreI.ForEachList g.positiveValueStore).map (fun p => (MapI.Value g.IndexMapping p.1, p.2)) ++
       (StoreI.ForEachList g.negativeValueStore).map (fun p => (F64.neg (MapI.Value g.IndexMapping p.1), p.2)))
      st) := by
  rw [loop2_eq, visit_append]
  cases h2 : visit f ((StoreI.ForEachList g.positiveValueStore).map
      (fun p => (MapI.Value g.IndexMapping p.1, p.2))) st with
  | panic => rfl
  | nofuel => rfl
  | ok r =>
    obtain ⟨st', b⟩ := r
    cases b with
    | true => rfl
    | false =>
      simp only [resL2, Loop.elim_done, Bool.false_eq_true, if_false, Res.bind_ok]
      rw [loop1_eq]
      cases h1 : visit f ((StoreI.ForEachList g.negativeValueStore).map
          (fun p => (F64.neg (MapI.Value g.IndexMapping p.1), p.2))) st' with
      | panic => rfl
      | nofuel => rfl
      | ok r => rfl

/-- **`ForEach_eq_visit`**: the regenerated `DDSketch.ForEach`, ANY instances of the two interfaces, any
    state type, any visitor, any fuel (there is no loop on fuel): the stop-aware fold over `genList g` -/
theorem ForEach_eq_visit {σ : Type} (fuel : Nat) (g : DDSketch M S) (st : σ)
    (f : σ → F64 → F64 → Res (σ × Bool)) :
    Gen.SketchIter.DDSketch.ForEach fuel g st f = dropFlag (visit f (genList g) st) := by
  unfold Gen.SketchIter.DDSketch.ForEach genList
  by_cases hz : F64.ne g.zeroCount (.fin 0) = true
  · simp only [hz, if_true]
    rw [List.append_assoc, List.singleton_append, visit_cons]
    cases hf : f st (F64.fin 0) g.zeroCount with
    | panic => rfl
    | nofuel => rfl
    | ok r =>
      obtain ⟨st', b⟩ := r
      cases b with
      | true => rfl
      | false =>
        simp only [Res.bind_ok, Bool.false_eq_true, if_false]
        exact stores_eq f g st'
  · simp only [hz, Bool.false_eq_true, if_false, List.nil_append]
    exact stores_eq f g st

/-- the exact-summary variant's `ForEach` (ddsketch.go:656) is the plain one on the embedded sketch -/
theorem XForEach_eq {σ : Type} (fuel : Nat) (x : DDSketchWithExactSummaryStatistics M S) (st : σ)
    (f : σ → F64 → F64 → Res (σ × Bool)) :
    Gen.SketchIter.DDSketchWithExactSummaryStatistics.ForEach fuel x st f =
      dropFlag (visit f (genList x.DDSketch) st) := by
  unfold Gen.SketchIter.DDSketchWithExactSummaryStatistics.ForEach
  rw [ForEach_eq_visit]
  cases visit f (genList x.DDSketch) st <;> rfl

end Generic

/-! #### over the model instances -/

/-- the model's rational weights as the floats the visitor receives -/
def liftL (l : List (F64 × Rat)) : List (F64 × F64) := l.map (fun p => (p.1, F64.fin p.2))

/-- what the generated code enumerates in front of the model's list when the zero count is not finite -/
def zeroExtra : F64 → List (F64 × F64)
  | .fin _ => []
  | z => [(F64.fin 0, z)]

theorem zeroExtra_finite (z : F64) (h : z.isFinite = true) : zeroExtra z = [] := by
  cases z <;> first | rfl | simp [F64.isFinite] at h

theorem ne_fin_zero (q : Rat) : F64.ne (.fin q) (.fin 0) = !(decide (q = 0)) := by
  simp [F64.ne, F64.eq, beq_eq_decide]

/-- **`genList_model`**: on a model sketch (any store kinds) the generated enumeration is the model's
    `forEachList`, weights as floats, preceded by `(0, zero)` when the zero count is `±Inf` or NaN -/
theorem genList_model (env : MapEnv) (s : Sketch) (l : List (F64 × Rat)) (hl : s.forEachList env = some l) :
    genList (toGen env s) = zeroExtra s.zero ++ liftL l := by
  obtain ⟨m, pos, neg, zero⟩ := s
  unfold Sketch.forEachList at hl
  simp only [] at hl ⊢
  cases hp : pos.binsList with
  | none => simp [hp] at hl
  | some p =>
    cases hn : neg.binsList with
    | none => simp [hp, hn] at hl
    | some n =>
      simp only [hp, hn, Option.bind_eq_bind, Option.bind_some, Option.pure_def, Option.some.injEq] at hl
      subst hl
      have ep : StoreI.ForEachList pos = p.map (fun b => (b.1, F64.fin b.2)) := by
        show (pos.binsList.getD []).map _ = _
        rw [hp]; rfl
      have en : StoreI.ForEachList neg = n.map (fun b => (b.1, F64.fin b.2)) := by
        show (neg.binsList.getD []).map _ = _
        rw [hn]; rfl
      unfold genList liftL
      simp only [toGen_zero, toGen_pos, toGen_neg, toGen_mapping, ep, en, List.map_map, List.map_append,
        map_value]
      cases zero with
      | fin q =>
        simp only [zeroExtra, List.nil_append, ne_fin_zero]
        by_cases h0 : q = 0
        · simp [h0, Function.comp_def]
        · simp [h0, Function.comp_def]
      | pinf => simp [zeroExtra, F64.ne, F64.eq, Function.comp_def]
      | ninf => simp [zeroExtra, F64.ne, F64.eq, Function.comp_def]
      | nan => simp [zeroExtra, F64.ne, F64.eq, Function.comp_def]

/-- **`ForEach_model`**: the regenerated `ForEach` on `toGen env s` is the stop-aware fold of the visitor over
    the model's `Sketch.forEachList env s` (zero bucket if non-zero, positive bins, negative bins with negated
    values), for every visitor, state and fuel; needs the zero count finite (see `ForEach_disagree`) -/
theorem ForEach_model {σ : Type} (env : MapEnv) (s : Sketch) (l : List (F64 × Rat))
    (hl : s.forEachList env = some l) (hz : s.zero.isFinite = true) (fuel : Nat) (st : σ)
    (f : σ → F64 → F64 → Res (σ × Bool)) :
    Gen.SketchIter.DDSketch.ForEach fuel (toGen env s) st f = dropFlag (visit f (liftL l) st) := by
  rw [ForEach_eq_visit, genList_model env s l hl, zeroExtra_finite _ hz, List.nil_append]

/-- the same without the finiteness hypothesis: one more call in front -/
theorem ForEach_model_gen {σ : Type} (env : MapEnv) (s : Sketch) (l : List (F64 × Rat))
    (hl : s.forEachList env = some l) (fuel : Nat) (st : σ) (f : σ → F64 → F64 → Res (σ × Bool)) :
    Gen.SketchIter.DDSketch.ForEach fuel (toGen env s) st f =
      dropFlag (visit f (zeroExtra s.zero ++ liftL l) st) := by
  rw [ForEach_eq_visit, genList_model env s l hl]

theorem XForEach_model {σ : Type} (env : MapEnv) (x : XSketch) (l : List (F64 × Rat))
    (hl : x.sk.forEachList env = some l) (hz : x.sk.zero.isFinite = true) (fuel : Nat) (st : σ)
    (f : σ → F64 → F64 → Res (σ × Bool)) :
    Gen.SketchIter.DDSketchWithExactSummaryStatistics.ForEach fuel (toGenX env x) st f =
      dropFlag (visit f (liftL l) st) := by
  rw [XForEach_eq, toGenX_sk, genList_model env x.sk l hl, zeroExtra_finite _ hz, List.nil_append]

/-! #### stopping: the calls the visitor receives -/

/-- the visitor instrumented with a log of its calls -/
def logged {σ : Type} (f : σ → F64 → F64 → Res (σ × Bool)) :
    σ × List (F64 × F64) → F64 → F64 → Res ((σ × List (F64 × F64)) × Bool) :=
  fun st v c => Res.bind (f st.1 v c) (fun r => .ok ((r.1, st.2 ++ [(v, c)]), r.2))

/-- instrumenting does not change what the visitor computes -/
theorem visit_logged_fst {σ : Type} (f : σ → F64 → F64 → Res (σ × Bool)) (l : List (F64 × F64)) :
    ∀ (st : σ) (log : List (F64 × F64)),
      Res.bind (visit (logged f) l (st, log)) (fun r => .ok (r.1.1, r.2)) = visit f l st := by
  induction l with
  | nil => intro st log; rfl
  | cons p rest ih =>
    intro st log
    rw [visit_cons, visit_cons]
    unfold logged
    cases hf : f st p.1 p.2 with
    | panic => rfl
    | nofuel => rfl
    | ok r =>
      obtain ⟨st', b⟩ := r
      cases b with
      | true => rfl
      | false =>
        simp only [Res.bind_ok, Bool.false_eq_true, if_false]
        exact ih st' _

/-- **`visit_logged`** (C12, stopping): the calls made are a PREFIX `l.take k` of the enumeration, in order;
    if the fold ends with the flag `false` every element was visited; if it ends with `true` the last call made
    is the one that answered `true` (and nothing after it was visited) -/
theorem visit_logged {σ : Type} (f : σ → F64 → F64 → Res (σ × Bool)) (l : List (F64 × F64)) :
    ∀ (st st' : σ) (log log' : List (F64 × F64)) (b : Bool),
      visit (logged f) l (st, log) = .ok ((st', log'), b) →
      ∃ k, k ≤ l.length ∧ log' = log ++ l.take k ∧
        (b = false → k = l.length) ∧
        (b = true → ∃ (j : Nat) (hj : j < l.length) (st1 : σ), k = j + 1 ∧
           visit f (l.take j) st = .ok (st1, false) ∧ f st1 l[j].1 l[j].2 = .ok (st', true)) := by
  induction l with
  | nil =>
    intro st st' log log' b h
    simp only [visit_nil, Res.ok.injEq, Prod.mk.injEq] at h
    obtain ⟨⟨rfl, rfl⟩, rfl⟩ := h
    exact ⟨0, Nat.le_refl _, by simp, fun _ => rfl, fun h => (by cases h)⟩
  | cons p rest ih =>
    intro st st' log log' b h
    rw [visit_cons] at h
    unfold logged at h
    cases hf : f st p.1 p.2 with
    | panic => rw [hf] at h; cases h
    | nofuel => rw [hf] at h; cases h
    | ok r =>
      obtain ⟨st1, b1⟩ := r
      rw [hf] at h
      cases b1 with
      | true =>
        simp only [Res.bind_ok, if_true, Res.ok.injEq, Prod.mk.injEq] at h
        obtain ⟨⟨rfl, rfl⟩, rfl⟩ := h
        refine ⟨1, by simp, by simp, fun h => (by cases h), fun _ => ⟨0, by simp, st, rfl, rfl, ?_⟩⟩
        exact hf
      | false =>
        simp only [Res.bind_ok, Bool.false_eq_true, if_false] at h
        obtain ⟨k, hk, hlog, hfalse, htrue⟩ := ih st1 st' _ log' b h
        refine ⟨k + 1, by simp; omega, by rw [hlog]; simp, fun hb => by rw [hfalse hb]; rfl, fun hb => ?_⟩
        obtain ⟨j, hj, st2, hkj, hv, hfj⟩ := htrue hb
        refine ⟨j + 1, by simp; omega, st2, by omega, ?_, ?_⟩
        · rw [List.take_succ_cons, visit_cons, hf]
          simp only [Res.bind_ok, Bool.false_eq_true, if_false]
          exact hv
        · simpa using hfj

/-- the elements before the first one satisfying `p`, and that one -/
def takeThrough (p : F64 → F64 → Bool) : List (F64 × F64) → List (F64 × F64)
  | [] => []
  | x :: rest => if p x.1 x.2 then [x] else x :: takeThrough p rest

/-- **`visit_log_pred`**: a visitor that stops according to a predicate `p` of (value, weight) is called
    exactly on `takeThrough p l`: in order, each bin once, up to and including the first bin on which it answers
    `true`, never again -/
theorem visit_log_pred (p : F64 → F64 → Bool) (l : List (F64 × F64)) :
    ∀ log : List (F64 × F64),
      visit (fun (log : List (F64 × F64)) v c => .ok (log ++ [(v, c)], p v c)) l log =
        .ok (log ++ takeThrough p l, l.any (fun x => p x.1 x.2)) := by
  induction l with
  | nil => intro log; simp [takeThrough]
  | cons x rest ih =>
    intro log
    rw [visit_cons]
    simp only [Res.bind_ok, takeThrough, List.any_cons]
    cases hp : p x.1 x.2 with
    | true => simp
    | false =>
      simp only [Bool.false_eq_true, if_false, Bool.false_or]
      rw [ih]
      simp

theorem takeThrough_prefix (p : F64 → F64 → Bool) (l : List (F64 × F64)) : takeThrough p l <+: l := by
  induction l with
  | nil => exact List.prefix_refl _
  | cons x rest ih =>
    unfold takeThrough
    split
    · exact ⟨rest, rfl⟩
    · exact List.prefix_cons_inj x |>.mpr ih

theorem takeThrough_all (p : F64 → F64 → Bool) (l : List (F64 × F64))
    (h : ∀ x ∈ l, p x.1 x.2 = false) : takeThrough p l = l := by
  induction l with
  | nil => rfl
  | cons x rest ih =>
    unfold takeThrough
    rw [h x (List.mem_cons_self), ih (fun y hy => h y (List.mem_cons_of_mem _ hy))]
    rfl

/-- `ForEach` with a predicate visitor on a model sketch: the calls are `takeThrough p` of the model's list -/
theorem ForEach_model_calls (env : MapEnv) (s : Sketch) (l : List (F64 × Rat))
    (hl : s.forEachList env = some l) (hz : s.zero.isFinite = true) (fuel : Nat) (p : F64 → F64 → Bool) :
    Gen.SketchIter.DDSketch.ForEach fuel (toGen env s) ([] : List (F64 × F64))
      (fun log v c => .ok (log ++ [(v, c)], p v c)) = .ok (takeThrough p (liftL l)) := by
  rw [ForEach_model env s l hl hz, visit_log_pred]
  simp [dropFlag]

/-! ### 2. `GetSum` -/

/-- a visitor that never stops and never fails is a `foldl` -/
theorem visit_pure {σ : Type} (h : σ → F64 → F64 → σ) (l : List (F64 × F64)) :
    ∀ st : σ, visit (fun st v c => .ok (h st v c, false)) l st =
      .ok (l.foldl (fun a p => h a p.1 p.2) st, false) := by
  induction l with
  | nil => intro st; rfl
  | cons p rest ih =>
    intro st
    rw [visit_cons]
    simp only [Res.bind_ok, Bool.false_eq_true, if_false, List.foldl_cons]
    exact ih _

/-- **`GetSum_eq_fold`**: the regenerated `DDSketch.GetSum`, ANY instances, any fuel: `sum += value * count`
    in float arithmetic over `genList g`, in that order, from `0` -/
theorem GetSum_eq_fold {M S : Type} [MapI M] [StoreI S] [Inhabited M] [Inhabited S] (fuel : Nat)
    (g : DDSketch M S) :
    Gen.SketchIter.DDSketch.GetSum fuel g =
      .ok ((genList g).foldl (fun a p => F64.add a (F64.mul p.1 p.2)) (F64.fin 0)) := by
  unfold Gen.SketchIter.DDSketch.GetSum
  simp only []
  rw [ForEach_eq_visit, visit_pure (fun sum v c => F64.add sum (F64.mul v c))]
  rfl

theorem foldl_liftL (l : List (F64 × Rat)) (a : F64) :
    (liftL l).foldl (fun a p => F64.add a (F64.mul p.1 p.2)) a =
      l.foldl (fun acc p => F64.add acc (F64.mul p.1 (.fin p.2))) a := by
  unfold liftL
  rw [List.foldl_map]

/-- **`GetSum_model`**: the regenerated `GetSum` on `toGen env s` is the model's `Sketch.getSum env s` (same
    enumeration order, same float operations); needs the zero count finite (see `GetSum_disagree`) -/
theorem GetSum_model (env : MapEnv) (s : Sketch) (x : F64) (hs : s.getSum env = some x)
    (hz : s.zero.isFinite = true) (fuel : Nat) :
    Gen.SketchIter.DDSketch.GetSum fuel (toGen env s) = .ok x := by
  unfold Sketch.getSum at hs
  cases hl : s.forEachList env with
  | none => simp [hl] at hs
  | some l =>
    simp only [hl, Option.bind_eq_bind, Option.bind_some, Option.pure_def, Option.some.injEq] at hs
    rw [GetSum_eq_fold, genList_model env s l hl, zeroExtra_finite _ hz, List.nil_append, foldl_liftL, hs]

/-- as an equation between the two sides, whenever the model's `ForEach` does not panic -/
theorem GetSum_model' (env : MapEnv) (s : Sketch) (l : List (F64 × Rat)) (hl : s.forEachList env = some l)
    (hz : s.zero.isFinite = true) (fuel : Nat) :
    (s.getSum env).map Res.ok = some (Gen.SketchIter.DDSketch.GetSum fuel (toGen env s)) := by
  have : s.getSum env = some (l.foldl (fun acc p => F64.add acc (F64.mul p.1 (.fin p.2))) (.fin 0)) := by
    unfold Sketch.getSum; rw [hl]; rfl
  rw [GetSum_model env s _ this hz fuel, this]; rfl

/-! #### the disagreement: a non-finite zero count -/

/-- the empty sparse sketch with `zeroCount = +Inf` (in Go: `AddWithCount(0, math.Inf(1))` on an empty sketch) -/
def skInf : Sketch := { mapping := none, pos := .sp [], neg := .sp [], zero := .pinf }

/-- the model enumerates nothing and sums to 0 … -/
theorem skInf_model (env : MapEnv) : skInf.forEachList env = some [] ∧ skInf.getSum env = some (.fin 0) :=
  ⟨rfl, rfl⟩

/-- … the generated `ForEach` calls the visitor once, with `(0, +Inf)` (Go: `s.zeroCount != 0` holds) -/
theorem ForEach_disagree (env : MapEnv) (fuel : Nat) :
    Gen.SketchIter.DDSketch.ForEach fuel (toGen env skInf) ([] : List (F64 × F64))
      (fun log v c => .ok (log ++ [(v, c)], false)) = .ok [(F64.fin 0, F64.pinf)] := by
  rw [ForEach_model_gen env skInf [] rfl]
  rfl

/-- … and the generated `GetSum` is NaN (`0 * Inf`) -/
theorem GetSum_disagree (env : MapEnv) (fuel : Nat) :
    Gen.SketchIter.DDSketch.GetSum fuel (toGen env skInf) = .ok F64.nan := by
  rw [GetSum_eq_fold, genList_model env skInf [] rfl]
  rfl

/-! ### 3. constructors and `DecodeDDSketch` -/

/-- the Go `store.Provider` of a store kind: every call hands out a fresh empty store -/
def provider (k : StoreKind) : Unit → Res Store := fun _ => .ok (Store.new k)

section Ctor
variable {M S : Type} [MapI M] [StoreI S] [Inhabited M] [Inhabited S]

/-- `NewDDSketchFromStoreProvider` (ddsketch.go:64), any instances: two calls of the provider, then `NewDDSketch`
    (positive store first); a panicking provider propagates -/
theorem NewFromProvider_eq (fuel : Nat) (m : M) (p : Unit → Res S) :
    Gen.SketchIter.NewDDSketchFromStoreProvider fuel m p =
      Res.bind (p ()) (fun a => Res.bind (p ()) (fun b => .ok (NewDDSketch m a b))) := rfl

theorem NewFromProvider_ok (fuel : Nat) (m : M) (p : Unit → Res S) (a : S) (h : p () = .ok a) :
    Gen.SketchIter.NewDDSketchFromStoreProvider fuel m p =
      .ok { IndexMapping := m, positiveValueStore := a, negativeValueStore := a, zeroCount := .fin 0 } := by
  rw [NewFromProvider_eq, h]; rfl

theorem NewFromProvider_panic (fuel : Nat) (m : M) (p : Unit → Res S) (h : p () = .panic) :
    Gen.SketchIter.NewDDSketchFromStoreProvider fuel m p = .panic := by
  rw [NewFromProvider_eq, h]; rfl

end Ctor

/-- **`NewFromProvider_model`**: the regenerated constructor is the model's `Sketch.new` -/
theorem NewFromProvider_model (fuel : Nat) (env : MapEnv) (k : StoreKind) :
    Gen.SketchIter.NewDDSketchFromStoreProvider fuel env (provider k) =
      .ok (toGen env (Sketch.new (some env.id) k)) := rfl

theorem ofModel_new : GenStat.ofModel Summary.new = Gen.Stat.NewSummaryStatistics :=
  ((GenStat.toModel_eq_iff _ _).mp GenStat.new_eq).symm

/-- **`NewExact_model`**: `NewDDSketchWithExactSummaryStatistics` (ddsketch.go:566) is the model's `XSketch.new` -/
theorem NewExact_model (fuel : Nat) (env : MapEnv) (k : StoreKind) :
    Gen.SketchIter.NewDDSketchWithExactSummaryStatistics fuel env (provider k) =
      .ok (toGenX env (XSketch.new (some env.id) k)) := by
  unfold Gen.SketchIter.NewDDSketchWithExactSummaryStatistics
  rw [NewFromProvider_model]
  simp only [Res.bind_ok, toGenX, XSketch.new, ofModel_new]

/-- the four store getters are the fields -/
theorem GetStores_model (env : MapEnv) (s : Sketch) (x : XSketch) :
    Gen.SketchIter.DDSketch.GetPositiveValueStore (toGen env s) = s.pos ∧
    Gen.SketchIter.DDSketch.GetNegativeValueStore (toGen env s) = s.neg ∧
    Gen.SketchIter.DDSketchWithExactSummaryStatistics.GetPositiveValueStore (toGenX env x) = x.sk.pos ∧
    Gen.SketchIter.DDSketchWithExactSummaryStatistics.GetNegativeValueStore (toGenX env x) = x.sk.neg :=
  ⟨rfl, rfl, rfl, rfl⟩

/-- `DecodeDDSketch` (ddsketch.go:403) with a possibly nil mapping argument (`M := Option MapEnv`): a fresh
    sketch from the provider, then the plain decoder of `GenSketch5` -/
theorem DecodeDDSketch_eqO (fuel : Nat) (b : List (BitVec 8)) (k : StoreKind) (m : Option MapEnv) :
    Gen.SketchIter.DecodeDDSketch fuel b (provider k) m =
      DDSketch.DecodeAndMergeWith fuel (toGenO m (Sketch.new (m.map (fun e => e.id)) k)) b := by
  unfold Gen.SketchIter.DecodeDDSketch provider
  simp only [Res.bind_ok]
  rw [bind_pair_id]
  rfl

theorem DecodeDDSketch_eqE (fuel : Nat) (b : List (BitVec 8)) (k : StoreKind) (env : MapEnv) :
    Gen.SketchIter.DecodeDDSketch fuel b (provider k) env =
      DDSketch.DecodeAndMergeWith fuel (toGen env (Sketch.new (some env.id) k)) b := by
  unfold Gen.SketchIter.DecodeDDSketch provider
  simp only [Res.bind_ok]
  rw [bind_pair_id]
  rfl

/-- **`DecodeDDSketch_relO`** (fuel `≥ len b + 9`): against the model's `Sketch.decodeAndMergeWith` on
    `Sketch.new`: model `some (.ok s')` ⇒ `.ok (g', nil)` with `ofGenO g' = s'`; model `some (.error e)` ⇒
    `.ok (g', decErr e)` (Go error value of the refusal, never nil; "missing index mapping" with a nil mapping
    argument and no mapping block in the input); model `none` ⇒ nothing claimed -/
theorem DecodeDDSketch_relO (fuel : Nat) (b : List (BitVec 8)) (k : StoreKind) (m : Option MapEnv)
    (hf : b.length + 9 ≤ fuel) :
    DecRelO ((Sketch.new (m.map (fun e => e.id)) k).decodeAndMergeWith (GenEncoding.nb b))
      (Gen.SketchIter.DecodeDDSketch fuel b (provider k) m) := by
  rw [DecodeDDSketch_eqO]
  exact DecodeAndMergeWith_relO m _ rfl fuel b hf

/-- the same with a mapping object as argument (`M := MapEnv`) -/
theorem DecodeDDSketch_relE (fuel : Nat) (b : List (BitVec 8)) (k : StoreKind) (env : MapEnv)
    (hf : b.length + 9 ≤ fuel) :
    DecRelE ((Sketch.new (some env.id) k).decodeAndMergeWith (GenEncoding.nb b))
      (Gen.SketchIter.DecodeDDSketch fuel b (provider k) env) := by
  rw [DecodeDDSketch_eqE]
  exact DecodeAndMergeWith_rel env _ rfl fuel b hf

/-- a panicking provider: `DecodeDDSketch` panics (any instances) -/
theorem DecodeDDSketch_panic {M S : Type} [MapI M] [StoreI S] [Inhabited M] [Inhabited S] (fuel : Nat)
    (b : List (BitVec 8)) (p : Unit → Res S) (m : M) (h : p () = .panic) :
    Gen.SketchIter.DecodeDDSketch fuel b p m = .panic := by
  unfold Gen.SketchIter.DecodeDDSketch; rw [h]; rfl

/-! ### 4a. `DDSketchWithExactSummaryStatistics.ChangeMapping` -/

open DDS.ChangeMapping in
/-- the exact variant's `ChangeMapping` (ddsketch.go:711), targets from the sparse provider: the plain
    `ChangeMapping` of `GenSketch6` on the embedded sketch, the statistics copied and rescaled -/
theorem XChangeMapping_eq (old new : MapEnv) (x : XSketch) (scale : F64) (fuel : Nat) :
    Gen.SketchIter.DDSketchWithExactSummaryStatistics.ChangeMapping fuel (toGenX old x) new (provider .sparse)
        scale =
      Res.bind (DDSketch.ChangeMapping fuel (toGen old x.sk) new (Store.sp []) (Store.sp []) scale)
        (fun r => .ok { DDSketch := r.2.2, summaryStatistics := GenStat.ofModel (x.st.rescale scale) }) := by
  unfold Gen.SketchIter.DDSketchWithExactSummaryStatistics.ChangeMapping provider
  simp only [Res.bind_ok, toGenX_sk, toGenX_st, GenStat.copy_eq, GenStat.rescale_ofModel]
  rfl

open DDS.ChangeMapping in
/-- **`XChangeMapping_rel`**: general path: whenever the model's `xchangeMapping` answers `some t` and no inner
    loop runs out of fuel (`allExit`, `GenSketch6`), the generated code returns `t` on the new mapping object -/
theorem XChangeMapping_rel (old new : MapEnv) (x t : XSketch) (scale : F64) (fuel : Nat)
    (p n : List (Int × Rat)) (hp : x.sk.pos.binsList = some p) (hn : x.sk.neg.binsList = some n)
    (hne : (F64.eq scale F64.one && old.id.equals new.id) = false)
    (hexp : allExit old new scale fuel (p.map (·.1)) = true)
    (hexn : allExit old new scale fuel (n.map (·.1)) = true)
    (hm : xchangeMapping old new x scale fuel = some t) :
    Gen.SketchIter.DDSketchWithExactSummaryStatistics.ChangeMapping fuel (toGenX old x) new (provider .sparse)
        scale = .ok (toGenX new t) := by
  unfold xchangeMapping at hm
  cases hc : changeMapping old new x.sk scale fuel with
  | none => simp [hc] at hm
  | some sk =>
    simp only [hc, Option.bind_eq_bind, Option.bind_some, Option.pure_def, Option.some.injEq] at hm
    subst hm
    rw [XChangeMapping_eq, ChangeMapping_rel old new x.sk sk scale fuel p n hp hn hne hexp hexn hc]
    rfl

open DDS.ChangeMapping in
/-- the identity shortcut (scale exactly 1, `Equals` mappings): a copy of the sketch on the OLD mapping object,
    the statistics rescaled by the factor all the same — generated code and model -/
theorem XChangeMapping_identity (old new : MapEnv) (x : XSketch) (scale : F64) (fuel : Nat)
    (hs : F64.eq scale F64.one = true) (hm : old.id.equals new.id = true) :
    Gen.SketchIter.DDSketchWithExactSummaryStatistics.ChangeMapping fuel (toGenX old x) new (provider .sparse)
        scale = .ok (toGenX old { sk := x.sk, st := x.st.rescale scale }) ∧
    xchangeMapping old new x scale fuel = some { sk := x.sk, st := x.st.rescale scale } := by
  obtain ⟨h1, h2⟩ := ChangeMapping_identity old new x.sk scale fuel (Store.sp []) (Store.sp []) hs hm
  constructor
  · rw [XChangeMapping_eq, h1]; rfl
  · unfold xchangeMapping; rw [h2]; rfl

open DDS.ChangeMapping in
/-- out of fuel on the general path: the generated code says so -/
theorem XChangeMapping_nofuel (old new : MapEnv) (x : XSketch) (scale : F64) (fuel : Nat)
    (p n : List (Int × Rat)) (hp : x.sk.pos.binsList = some p) (hn : x.sk.neg.binsList = some n)
    (hne : (F64.eq scale F64.one && old.id.equals new.id) = false)
    (hex : (allExit old new scale fuel (p.map (·.1)) && allExit old new scale fuel (n.map (·.1))) = false) :
    Gen.SketchIter.DDSketchWithExactSummaryStatistics.ChangeMapping fuel (toGenX old x) new (provider .sparse)
        scale = .nofuel := by
  rw [XChangeMapping_eq, ChangeMapping_nofuel old new x.sk scale fuel _ _ p n hp hn hne hex]; rfl

/-! ### 4b. the decoder in state-passing form and the exact variant's `DecodeAndMergeWith` -/

section Dec
open DDS.Gen.Encoding DDS.GenEncoding DDS.Codec

variable {M : Type} [MapI M] [Inhabited M]

/-- what a STATE-PASSING `fallbackDecode` has to do against the model's `Sketch.fallback`, for a relation `R`
    between the model's auxiliary state and the threaded Go state: a refusal `e` of the model is the Go error
    `decErr e`; a success is a nil error, a slice with exactly the model's remaining bytes, and `R` again -/
def FbSpecS {σ : Type} (R : Sketch.DecAux → σ → Prop)
    (fb : σ → List (BitVec 8) → Flag → Res (σ × List (BitVec 8) × GoErr)) : Prop :=
  ∀ (aux : Sketch.DecAux) (st : σ) (b : List (BitVec 8)) (flag : Flag), R aux st →
    match Sketch.fallback aux flag.byte.toNat (nb b) with
    | .error e => ∃ st' b', fb st b flag = .ok (st', b', decErr e)
    | .ok (aux', rest) => ∃ st' b', fb st b flag = .ok (st', b', GoErr.nil) ∧ R aux' st' ∧
        nb b' = rest ∧ b'.length ≤ b.length

def LoopRelS {σ : Type} (idOf : M → Option MapId) (R : Sketch.DecAux → σ → Prop) :
    Option (Except SkErr (Sketch × Sketch.DecAux)) →
    Loop (List (BitVec 8) × DDSketch M Store × σ) (σ × DDSketch M Store × GoErr) → Prop
  | none, _ => True
  | some (.error e), r => ∃ st' g', r = .ret (st', g', decErr e)
  | some (.ok (s', aux')), r => ∃ st' g', r = .done ([], g', st') ∧ ofGenI idOf g' = s' ∧ R aux' st'

theorem loop1S_nil {σ : Type} (fb : σ → List (BitVec 8) → Flag → Res (σ × List (BitVec 8) × GoErr))
    (fuel : Nat) (g : DDSketch M Store) (st : σ) :
    Gen.SketchIter.DDSketch.decodeAndMergeWith.loop1 fb (fuel + 1) [] g st = .done ([], g, st) := rfl

/-- **`loop1S_rel`**: the state-passing decoder loop is the model's `Sketch.decodeLoop` with ANY auxiliary
    state, block by block; model fuel `≥ len b`, generated fuel `≥ len b + 9` -/
theorem loop1S_rel {σ : Type} {idOf : M → Option MapId} (law : MapLaw idOf) (R : Sketch.DecAux → σ → Prop)
    (fb : σ → List (BitVec 8) → Flag → Res (σ × List (BitVec 8) × GoErr)) (hfb : FbSpecS R fb) :
    ∀ (n fuel : Nat) (b : List (BitVec 8)) (g : DDSketch M Store) (aux : Sketch.DecAux) (st : σ),
      R aux st → b.length ≤ n → b.length + 9 ≤ fuel →
      LoopRelS idOf R (Sketch.decodeLoop n (ofGenI idOf g) aux (nb b))
        (Gen.SketchIter.DDSketch.decodeAndMergeWith.loop1 fb fuel b g st) := by
  intro n
  induction n with
  | zero =>
    intro fuel b g aux st hR hn hf
    have : b = [] := List.length_eq_zero_iff.mp (by omega)
    subst this
    obtain ⟨fuel, rfl⟩ : ∃ k, fuel = k + 1 := ⟨fuel - 1, by omega⟩
    rw [nb_nil, Sketch.decodeLoop_nil, loop1S_nil]
    exact ⟨st, g, rfl, rfl, hR⟩
  | succ n ih =>
    intro fuel b g aux st hR hn hf
    obtain ⟨fuel, rfl⟩ : ∃ k, fuel = k + 1 := ⟨fuel - 1, by omega⟩
    cases b with
    | nil =>
      rw [nb_nil, Sketch.decodeLoop_nil, loop1S_nil]
      exact ⟨st, g, rfl, rfl, hR⟩
    | cons x tl =>
      simp only [List.length_cons] at hn hf
      have hf9 : 9 ≤ fuel := by omega
      have hlen : decide ((0 : Int) < GoSem.len (x :: tl)) = true := by
        rw [decide_eq_true_eq]; unfold GoSem.len; rw [List.length_cons]; omega
      rw [nb_cons]
      simp only [Gen.SketchIter.DDSketch.decodeAndMergeWith.loop1, hlen, if_true, DecodeFlag_cons,
        Res.bindL_ok, nil_bne_nil, Bool.false_eq_true, if_false, type_beq, flag_beq,
        FlagTypePositiveStore_byte, FlagTypeNegativeStore_byte, FlagTypeIndexMapping_byte,
        FlagZeroCountVarFloat_byte]
      by_cases h1 : Wire.flagType x.toNat = Consts.flagTypePositiveStore
      · simp only [h1, decide_true, if_true]
        rw [Sketch.loop_pos n _ _ _ _ h1]
        cases hd : Sketch.decodeStore (ofGenI idOf g).pos (Wire.flagSub x.toNat) (nb tl) with
        | none => trivial
        | some r =>
          cases r with
          | error e =>
            rw [storeDecode_err g.positiveValueStore tl ⟨x⟩ e hd]
            simp only [decErr_ne_nil, if_true]
            exact ⟨_, _, rfl⟩
          | ok r =>
            obtain ⟨p, rest⟩ := r
            have hsuf := decodeStore_suffix _ _ _ _ _ hd
            rw [storeDecode_ok g.positiveValueStore p tl ⟨x⟩ rest hd]
            simp only [nil_bne_nil, Bool.false_eq_true, if_false]
            have hl := bn_suffix_length hsuf
            have := ih fuel (bn rest) { g with positiveValueStore := p } aux st hR (by omega) (by omega)
            rw [nb_bn_suffix hsuf] at this
            exact this
      · simp only [h1, decide_false, Bool.false_eq_true, if_false]
        by_cases h2 : Wire.flagType x.toNat = Consts.flagTypeNegativeStore
        · simp only [h2, decide_true, if_true]
          rw [Sketch.loop_neg n _ _ _ _ h2]
          cases hd : Sketch.decodeStore (ofGenI idOf g).neg (Wire.flagSub x.toNat) (nb tl) with
          | none => trivial
          | some r =>
            cases r with
            | error e =>
              rw [storeDecode_err g.negativeValueStore tl ⟨x⟩ e hd]
              simp only [decErr_ne_nil, if_true]
              exact ⟨_, _, rfl⟩
            | ok r =>
              obtain ⟨p, rest⟩ := r
              have hsuf := decodeStore_suffix _ _ _ _ _ hd
              rw [storeDecode_ok g.negativeValueStore p tl ⟨x⟩ rest hd]
              simp only [nil_bne_nil, Bool.false_eq_true, if_false]
              have hl := bn_suffix_length hsuf
              have := ih fuel (bn rest) { g with negativeValueStore := p } aux st hR (by omega) (by omega)
              rw [nb_bn_suffix hsuf] at this
              exact this
        · simp only [h2, decide_false, Bool.false_eq_true, if_false]
          by_cases h3 : Wire.flagType x.toNat = Consts.flagTypeIndexMapping
          · simp only [h3, decide_true, if_true]
            rcases mapping_block_step law tl ⟨x⟩ n (ofGenI idOf g) aux h3 with
              ⟨e, b', m, hmod, hdec⟩ | ⟨id, bs2, m, hsuf, hlt, hdec, hid, hmod⟩
            · rw [hmod, hdec]
              simp only [decErr_ne_nil, if_true]
              exact ⟨_, _, rfl⟩
            · rw [hmod, hdec]
              simp only [nil_bne_nil, Bool.false_eq_true, if_false, law.isNil_eq]
              have hl := bn_suffix_length hsuf
              have e1 : ofGenI idOf { g with IndexMapping := m }
                  = { ofGenI idOf g with mapping := some id } := by
                unfold ofGenI; simp only [hid]
              have hrec := ih fuel (bn bs2) { g with IndexMapping := m } aux st hR (by omega) (by omega)
              rw [nb_bn_suffix hsuf, e1] at hrec
              have hs : (ofGenI idOf g).mapping = idOf g.IndexMapping := rfl
              rw [hs]
              cases hcur : idOf g.IndexMapping with
              | none =>
                simp only [Option.isNone_none, Bool.not_true, Bool.false_and, Bool.false_eq_true, if_false]
                exact hrec
              | some cur =>
                rw [law.equals_eq g.IndexMapping m cur id hcur hid]
                simp only [Option.isNone_some, Bool.not_false, Bool.true_and]
                by_cases heq : cur.equals id = true
                · simp only [heq, Bool.not_true, Bool.false_eq_true, if_false, if_true]
                  exact hrec
                · simp only [heq, Bool.not_false, if_true]
                  exact ⟨_, _, rfl⟩
          · simp only [h3, decide_false, Bool.false_eq_true, if_false]
            have h0 : Wire.flagType x.toNat = Consts.flagTypeSketchFeatures := by
              have := (flag_split x.toNat).2
              revert h1 h2 h3
              simp only [show Consts.flagTypePositiveStore = 1 from rfl,
                show Consts.flagTypeNegativeStore = 3 from rfl, show Consts.flagTypeIndexMapping = 2 from rfl,
                show Consts.flagTypeSketchFeatures = 0 from rfl]
              omega
            by_cases h4 : x.toNat = Sketch.zeroFlag
            · have h4' : x.toNat = Wire.mkFlag Consts.flagTypeSketchFeatures Consts.subFlagZeroCountVarFloat := h4
              simp only [h4', decide_true, if_true]
              rw [show Wire.mkFlag Consts.flagTypeSketchFeatures Consts.subFlagZeroCountVarFloat
                = Sketch.zeroFlag from rfl, Sketch.loop_zero]
              cases hd : decVarfloat64 (nb tl) with
              | error e =>
                rw [GenStoreDecode.F_err fuel hf9 tl e hd]
                simp only [Sketch.liftDec, Res.bindL_ok, GenStoreDecode.heof, if_true]
                exact ⟨_, _, rfl⟩
              | ok r =>
                obtain ⟨z, rest⟩ := r
                obtain ⟨b', hb1, hb2, hb3⟩ := GenStoreDecode.F_ok fuel hf9 tl z rest hd
                rw [hb1]
                simp only [Sketch.liftDec, Res.bindL_ok, nil_bne_nil, Bool.false_eq_true, if_false]
                have hrec := ih fuel b' { g with zeroCount := F64.add g.zeroCount z } aux st hR
                  (by omega) (by omega)
                rw [hb2] at hrec
                exact hrec
            · have h4' : ¬ x.toNat = Wire.mkFlag Consts.flagTypeSketchFeatures Consts.subFlagZeroCountVarFloat := h4
              simp only [h4', decide_false, Bool.false_eq_true, if_false]
              rw [Sketch.loop_fallback n _ _ _ _ h0 h4]
              have hspec := hfb aux st tl ⟨x⟩ hR
              cases hfm : Sketch.fallback aux x.toNat (nb tl) with
              | error e =>
                have hfm' : Sketch.fallback aux (⟨x⟩ : Flag).byte.toNat (nb tl) = .error e := hfm
                rw [hfm'] at hspec
                simp only at hspec
                obtain ⟨st', b', hb⟩ := hspec
                rw [hb]
                simp only [Res.bindL_ok, decErr_ne_nil, if_true]
                exact ⟨_, _, rfl⟩
              | ok r =>
                obtain ⟨aux', rest⟩ := r
                have hfm' : Sketch.fallback aux (⟨x⟩ : Flag).byte.toNat (nb tl) = .ok (aux', rest) := hfm
                rw [hfm'] at hspec
                simp only at hspec
                obtain ⟨st', b', hb1, hR', hb2, hb3⟩ := hspec
                rw [hb1]
                simp only [Res.bindL_ok, nil_bne_nil, Bool.false_eq_true, if_false]
                have hrec := ih fuel b' g aux' st' hR' (by omega) (by omega)
                rw [hb2] at hrec
                exact hrec

/-- the state-passing `decodeAndMergeWith` (ddsketch.go:438) against the model's loop, any auxiliary state -/
def DecRelS {σ : Type} (idOf : M → Option MapId) (R : Sketch.DecAux → σ → Prop) :
    Option (Except SkErr (Sketch × Sketch.DecAux)) → Res (σ × DDSketch M Store × GoErr) → Prop
  | none, _ => True
  | some (.error e), r => ∃ st' g', r = .ok (st', g', decErr e)
  | some (.ok (s', aux')), r => ∃ st' g', ofGenI idOf g' = s' ∧ R aux' st' ∧
      r = .ok (st', g', if s'.mapping.isNone then decErr .missingMapping else GoErr.nil)

theorem decodeAndMergeWithS_rel {σ : Type} {idOf : M → Option MapId} (law : MapLaw idOf)
    (R : Sketch.DecAux → σ → Prop)
    (fb : σ → List (BitVec 8) → Flag → Res (σ × List (BitVec 8) × GoErr)) (hfb : FbSpecS R fb)
    (fuel : Nat) (g : DDSketch M Store) (b : List (BitVec 8)) (aux : Sketch.DecAux) (st : σ) (hR : R aux st)
    (hf : b.length + 9 ≤ fuel) :
    DecRelS idOf R (Sketch.decodeLoop ((nb b).length + 1) (ofGenI idOf g) aux (nb b))
      (Gen.SketchIter.DDSketch.decodeAndMergeWith fuel g b st fb) := by
  have h := loop1S_rel law R fb hfb ((nb b).length + 1) fuel b g aux st hR (by rw [nb_length]; omega) hf
  unfold Gen.SketchIter.DDSketch.decodeAndMergeWith
  cases hm : Sketch.decodeLoop ((nb b).length + 1) (ofGenI idOf g) aux (nb b) with
  | none => trivial
  | some r =>
    rw [hm] at h
    cases r with
    | error e =>
      obtain ⟨st', g', hg⟩ := h
      simp only [hg, Loop.elim_ret]
      exact ⟨st', g', rfl⟩
    | ok r =>
      obtain ⟨s', aux'⟩ := r
      obtain ⟨st', g', hg, hs, hR'⟩ := h
      simp only [hg, Loop.elim_done, law.isNil_eq]
      have hmap : s'.mapping = idOf g'.IndexMapping := by rw [← hs]; rfl
      refine ⟨st', g', hs, hR', ?_⟩
      rw [hmap]
      cases hi : (idOf g'.IndexMapping).isNone <;> rfl

/-! #### the exact variant: the fallback closure decodes the statistics blocks -/

/-- the interface of `DecodeFloat64LE` (encoding.go:128) against the model's `Codec.decF64LE`: TAKEN AS A
    HYPOTHESIS by the theorems below (not proved in this file: `GoSem.leU64` against `Codec.leValue`) -/
def F64LESpec : Prop := ∀ (fuel : Nat) (b : List (BitVec 8)),
  DecodeFloat64LE fuel b =
    match decF64LE (nb b) with
    | .error _ => .ok (b, F64.fin 0, GoErr.eof)
    | .ok (v, _) => .ok (b.drop 8, F64.ofBits (UInt64.ofNat v), GoErr.nil)

/-- the model's fallback by flag byte, any auxiliary state -/
theorem fallback_byte (aux : Sketch.DecAux) (f : Nat) (bs : Bytes) :
    Sketch.fallback aux f bs =
      if f = 160 then
        (match Sketch.liftDec (decVarfloat64 bs) with
         | .error e => .error e
         | .ok (c, r) => .ok ({ aux with stats := aux.stats.map (fun st => st.addToCount c) }, r))
      else if f = 132 then
        (match Sketch.liftDec (decF64LE bs) with
         | .error e => .error e
         | .ok (v, r) =>
           .ok ({ aux with stats := aux.stats.map (fun st => st.addToSum (F64.ofBits (UInt64.ofNat v))) }, r))
      else if f = 136 ∨ f = 140 then
        (match Sketch.liftDec (decF64LE bs) with
         | .error e => .error e
         | .ok (v, r) =>
           .ok ({ aux with stats := aux.stats.map (fun st => st.add (F64.ofBits (UInt64.ofNat v)) (.fin 0)) }, r))
      else .error .unknownFlag := by
  by_cases h160 : f = 160
  · subst h160
    rw [if_pos rfl]
    exact Sketch.fallback_count _ bs
  by_cases h132 : f = 132
  · subst h132
    rw [if_neg (by decide), if_pos rfl]
    exact Sketch.fallback_sum _ bs
  by_cases h136 : f = 136
  · subst h136
    rw [if_neg (by decide), if_neg (by decide), if_pos (by decide)]
    exact Sketch.fallback_min _ bs
  by_cases h140 : f = 140
  · subst h140
    rw [if_neg (by decide), if_neg (by decide), if_pos (by decide)]
    exact Sketch.fallback_max _ bs
  rw [if_neg h160, if_neg h132, if_neg (by omega)]
  obtain ⟨hf, ht⟩ := flag_split f
  unfold Sketch.fallback
  simp only [show Consts.flagTypeSketchFeatures = 0 from rfl, show Consts.subFlagCount = 40 from rfl,
    show Consts.subFlagSum = 33 from rfl, show Consts.subFlagMin = 34 from rfl,
    show Consts.subFlagMax = 35 from rfl]
  by_cases h0 : Wire.flagType f = 0
  · rw [if_neg (by omega), if_neg (by omega), if_neg (by omega), if_neg (by omega)]
  · rw [if_pos h0]

/-- the function literal of `DDSketchWithExactSummaryStatistics.DecodeAndMergeWith` (ddsketch.go:770) -/
def xfb (fuel : Nat) : DDSketchWithExactSummaryStatistics M Store → List (BitVec 8) → Flag →
    Res (DDSketchWithExactSummaryStatistics M Store × List (BitVec 8) × GoErr) :=
  fun s b flag =>
  if (flag == FlagCount) then
  Res.bind (DecodeVarfloat64 fuel b) (fun (b, count, err) =>
  if (err != GoErr.nil) then
  .ok (s, b, err)
  else
  let t1 := Gen.Stat.SummaryStatistics.AddToCount (s).summaryStatistics count
  let s := { s with summaryStatistics := t1 }
  .ok (s, b, GoErr.nil))
  else
  if (flag == FlagSum) then
  Res.bind (DecodeFloat64LE fuel b) (fun (b, sum, err) =>
  if (err != GoErr.nil) then
  .ok (s, b, err)
  else
  let t2 := Gen.Stat.SummaryStatistics.AddToSum (s).summaryStatistics sum
  let s := { s with summaryStatistics := t2 }
  .ok (s, b, GoErr.nil))
  else
  if ((flag == FlagMin) || (flag == FlagMax)) then
  Res.bind (DecodeFloat64LE fuel b) (fun (b, stat, err) =>
  if (err != GoErr.nil) then
  .ok (s, b, err)
  else
  let t3 := Gen.Stat.SummaryStatistics.Add (s).summaryStatistics stat (F64.fin (0 : Rat))
  let s := { s with summaryStatistics := t3 }
  .ok (s, b, GoErr.nil))
  else
  .ok (s, b, errUnknownFlag)

/-- the threaded Go state (the whole exact-variant structure; only its statistics matter) carries the model's
    statistics -/
def XR (aux : Sketch.DecAux) (st : DDSketchWithExactSummaryStatistics M Store) : Prop :=
  aux.stats = some (GenStat.toModel st.summaryStatistics)

theorem xfb_spec (hle : F64LESpec) (fuel : Nat) (hf : 9 ≤ fuel) :
    FbSpecS (XR (M := M)) (xfb (M := M) fuel) := by
  intro aux st b flag hR
  unfold XR at hR
  rw [fallback_byte]
  unfold xfb
  simp only [flag_beq, FlagCount_nat, FlagSum_nat, FlagMin_nat, FlagMax_nat]
  by_cases h160 : flag.byte.toNat = 160
  · simp only [h160, if_true, decide_true]
    cases hd : decVarfloat64 (nb b) with
    | error e =>
      rw [GenStoreDecode.F_err fuel hf b e hd]
      simp only [Sketch.liftDec, Res.bind_ok, GenStoreDecode.heof, if_true]
      exact ⟨_, _, rfl⟩
    | ok p =>
      obtain ⟨c, rest⟩ := p
      obtain ⟨b', h1, h2, h3⟩ := GenStoreDecode.F_ok fuel hf b c rest hd
      rw [h1]
      simp only [Sketch.liftDec, Res.bind_ok, nil_bne_nil, Bool.false_eq_true, if_false]
      refine ⟨_, b', rfl, ?_, h2, by omega⟩
      unfold XR; rw [hR]; rfl
  · simp only [h160, if_false, decide_false, Bool.false_eq_true]
    by_cases h132 : flag.byte.toNat = 132
    · simp only [h132, if_true, decide_true]
      rw [hle]
      cases hd : decF64LE (nb b) with
      | error e =>
        simp only [Sketch.liftDec, Res.bind_ok, GenStoreDecode.heof, if_true]
        exact ⟨_, _, rfl⟩
      | ok p =>
        obtain ⟨v, rest⟩ := p
        simp only [Sketch.liftDec, Res.bind_ok, nil_bne_nil, Bool.false_eq_true, if_false]
        have hrest : rest = (nb b).drop 8 := by
          unfold decF64LE at hd
          split at hd
          · cases hd
          · simp only [Except.ok.injEq, Prod.mk.injEq] at hd; exact hd.2.symm
        refine ⟨_, b.drop 8, rfl, ?_, by rw [hrest]; exact nb_drop b 8, by simp⟩
        unfold XR; rw [hR]; rfl
    · simp only [h132, if_false, decide_false, Bool.false_eq_true]
      by_cases hs : flag.byte.toNat = 136 ∨ flag.byte.toNat = 140
      · have hs' : (decide (flag.byte.toNat = 136) || decide (flag.byte.toNat = 140)) = true := by
          rw [Bool.or_eq_true, decide_eq_true_eq, decide_eq_true_eq]; exact hs
        simp only [hs, hs', if_true]
        rw [hle]
        cases hd : decF64LE (nb b) with
        | error e =>
          simp only [Sketch.liftDec, Res.bind_ok, GenStoreDecode.heof, if_true]
          exact ⟨_, _, rfl⟩
        | ok p =>
          obtain ⟨v, rest⟩ := p
          simp only [Sketch.liftDec, Res.bind_ok, nil_bne_nil, Bool.false_eq_true, if_false]
          have hrest : rest = (nb b).drop 8 := by
            unfold decF64LE at hd
            split at hd
            · cases hd
            · simp only [Except.ok.injEq, Prod.mk.injEq] at hd; exact hd.2.symm
          refine ⟨_, b.drop 8, rfl, ?_, by rw [hrest]; exact nb_drop b 8, by simp⟩
          unfold XR; rw [hR]
          simp only [Option.map_some, GenStat.add_eq]
      · have hs' : (decide (flag.byte.toNat = 136) || decide (flag.byte.toNat = 140)) = false := by
          rw [Bool.or_eq_false_iff, decide_eq_false_iff_not, decide_eq_false_iff_not]; omega
        simp only [hs, hs', if_false, Bool.false_eq_true]
        exact ⟨_, _, rfl⟩

/-- the Go error value of each refusal of the exact variant's decoder -/
def decErrX : SkErr → GoErr
  | .missingStats => GoErr.named "missing exact summary statistics"
  | e => decErr e

theorem decErrX_ne_nil (e : SkErr) : decErrX e ≠ GoErr.nil := by cases e <;> decide

/-- the model `XSketch` a generated exact-variant structure stands for -/
def ofGenXI (idOf : M → Option MapId) (g : DDSketchWithExactSummaryStatistics M Store) : XSketch :=
  { sk := ofGenI idOf g.DDSketch, st := GenStat.toModel g.summaryStatistics }

def XDecRel (idOf : M → Option MapId) :
    Option (Except SkErr XSketch) → Res (DDSketchWithExactSummaryStatistics M Store × GoErr) → Prop
  | none, _ => True
  | some (.error e), r => ∃ g', r = .ok (g', decErrX e) ∨ r = .ok (g', decErr e)
  | some (.ok x'), r => ∃ g', r = .ok (g', GoErr.nil) ∧ ofGenXI idOf g' = x'

theorem XDecode_unfold (fuel : Nat) (g : DDSketchWithExactSummaryStatistics M Store) (bb : List (BitVec 8)) :
    Gen.SketchIter.DDSketchWithExactSummaryStatistics.DecodeAndMergeWith fuel g bb =
      Res.bind (Gen.SketchIter.DDSketch.decodeAndMergeWith fuel g.DDSketch bb g (xfb fuel))
        (fun (s, t4, err) =>
          let s := { s with DDSketch := t4 }
          if (err != GoErr.nil) then .ok (s, err)
          else if ((F64.eq (Gen.Stat.SummaryStatistics.Count s.summaryStatistics) (F64.fin (0 : Rat)))
              && (!(DDSketch.IsEmpty s.DDSketch))) then
            .ok (s, (GoErr.named "missing exact summary statistics"))
          else .ok (s, GoErr.nil)) := rfl

/-- **`XDecodeAndMergeWith_rel_gen`** (fuel `≥ len b + 9`; `F64LESpec` as hypothesis): the regenerated
    `DDSketchWithExactSummaryStatistics.DecodeAndMergeWith` against the model's `XSketch.decodeAndMergeWith`:
    the statistics blocks are decoded by the closure and merged into the receiver's statistics; an input
    without exact statistics for a non-empty result is refused with "missing exact summary statistics" -/
theorem XDecodeAndMergeWith_rel_gen {idOf : M → Option MapId} (law : MapLaw idOf) (hle : F64LESpec)
    (fuel : Nat) (g : DDSketchWithExactSummaryStatistics M Store) (b : List (BitVec 8))
    (hf : b.length + 9 ≤ fuel) :
    XDecRel idOf ((ofGenXI idOf g).decodeAndMergeWith (nb b))
      (Gen.SketchIter.DDSketchWithExactSummaryStatistics.DecodeAndMergeWith fuel g b) := by
  have h := decodeAndMergeWithS_rel law (XR (M := M)) (xfb fuel) (xfb_spec hle fuel (by omega)) fuel
    g.DDSketch b { stats := some (GenStat.toModel g.summaryStatistics) } g rfl hf
  rw [XDecode_unfold]
  unfold XSketch.decodeAndMergeWith
  show XDecRel idOf (match Sketch.decodeLoop ((nb b).length + 1) (ofGenI idOf g.DDSketch)
      { stats := some (GenStat.toModel g.summaryStatistics) } (nb b) with
    | none => none
    | some (.error e) => some (.error e)
    | some (.ok (sk, aux)) =>
      if sk.mapping.isNone then some (.error .missingMapping)
      else
        let st := aux.stats.getD (GenStat.toModel g.summaryStatistics)
        if F64.eq st.count (.fin 0) && !sk.isEmpty then some (.error .missingStats)
        else some (.ok { sk := sk, st := st })) _
  cases hm : Sketch.decodeLoop ((nb b).length + 1) (ofGenI idOf g.DDSketch)
      { stats := some (GenStat.toModel g.summaryStatistics) } (nb b) with
  | none => trivial
  | some r =>
    rw [hm] at h
    cases r with
    | error e =>
      obtain ⟨st', g', hg⟩ := h
      rw [hg]
      simp only [Res.bind_ok, decErr_ne_nil, if_true]
      exact ⟨_, Or.inr rfl⟩
    | ok r =>
      obtain ⟨s', aux'⟩ := r
      obtain ⟨st', g', hs, hR', hg⟩ := h
      rw [hg]
      unfold XR at hR'
      simp only [Res.bind_ok]
      cases hi : s'.mapping.isNone with
      | true =>
        simp only [if_true, decErr_ne_nil]
        exact ⟨_, Or.inl rfl⟩
      | false =>
        simp only [Bool.false_eq_true, if_false, nil_bne_nil, hR', Option.getD_some]
        have hemp : DDSketch.IsEmpty g' = s'.isEmpty := by rw [← hs]; rfl
        rw [hemp]
        by_cases hc : (F64.eq (GenStat.toModel st'.summaryStatistics).count (.fin 0) && !s'.isEmpty) = true
        · rw [if_pos hc]
          have hc2 : (F64.eq (Gen.Stat.SummaryStatistics.Count st'.summaryStatistics) (.fin 0)
              && !s'.isEmpty) = true := hc
          simp only [hc2, if_true]
          exact ⟨_, Or.inl rfl⟩
        · rw [if_neg hc]
          have hc2 : (F64.eq (Gen.Stat.SummaryStatistics.Count st'.summaryStatistics) (.fin 0)
              && !s'.isEmpty) = false := by
            have : (F64.eq (GenStat.toModel st'.summaryStatistics).count (.fin 0) && !s'.isEmpty) = false := by
              simpa using hc
            exact this
          simp only [hc2, Bool.false_eq_true, if_false]
          refine ⟨_, rfl, ?_⟩
          unfold ofGenXI
          simp only [hs]

/-! #### instances: a receiver with a mapping object, `DecodeDDSketchWithExactSummaryStatistics` -/

theorem decErrX_eq (e : SkErr) (h : e ≠ .missingStats) : decErrX e = decErr e := by
  cases e <;> first | rfl | exact absurd rfl h

/-- **`XDecodeAndMergeWith_rel`**: on `toGenX env x` (`x.sk.mapping = some env.id`), through `ofGenX` -/
theorem XDecodeAndMergeWith_rel (hle : F64LESpec) (env : MapEnv) (x : XSketch)
    (hm : x.sk.mapping = some env.id) (fuel : Nat) (b : List (BitVec 8)) (hf : b.length + 9 ≤ fuel) :
    XDecRel (fun e : MapEnv => some e.id) (x.decodeAndMergeWith (nb b))
      (Gen.SketchIter.DDSketchWithExactSummaryStatistics.DecodeAndMergeWith fuel (toGenX env x) b) := by
  have h := XDecodeAndMergeWith_rel_gen mapEnv_law hle fuel (toGenX env x) b hf
  have e : ofGenXI (fun e : MapEnv => some e.id) (toGenX env x) = x := by
    unfold ofGenXI
    rw [toGenX_sk, toGenX_st, ofGenI_mapEnv, ofGen_toGen env x.sk hm, GenStat.toModel_ofModel]
  rw [e] at h
  exact h

/-- `DecodeDDSketchWithExactSummaryStatistics` (ddsketch.go:755), possibly nil mapping argument: a fresh
    exact-variant sketch from the provider (`XSketch.new`), then `DecodeAndMergeWith` -/
theorem DecodeExact_eqO (fuel : Nat) (b : List (BitVec 8)) (k : StoreKind) (m : Option MapEnv) :
    Gen.SketchIter.DecodeDDSketchWithExactSummaryStatistics fuel b (provider k) m =
      Gen.SketchIter.DDSketchWithExactSummaryStatistics.DecodeAndMergeWith fuel
        { DDSketch := toGenO m (Sketch.new (m.map (fun e => e.id)) k),
          summaryStatistics := Gen.Stat.NewSummaryStatistics } b := by
  unfold Gen.SketchIter.DecodeDDSketchWithExactSummaryStatistics provider
  simp only [Res.bind_ok]
  rw [bind_pair_id]
  rfl

/-- **`DecodeExact_relO`** (fuel `≥ len b + 9`): against `(XSketch.new m k).decodeAndMergeWith` -/
theorem DecodeExact_relO (hle : F64LESpec) (fuel : Nat) (b : List (BitVec 8)) (k : StoreKind)
    (m : Option MapEnv) (hf : b.length + 9 ≤ fuel) :
    XDecRel (fun o : Option MapEnv => o.map (fun e => e.id))
      ((XSketch.new (m.map (fun e => e.id)) k).decodeAndMergeWith (nb b))
      (Gen.SketchIter.DecodeDDSketchWithExactSummaryStatistics fuel b (provider k) m) := by
  rw [DecodeExact_eqO]
  have h := XDecodeAndMergeWith_rel_gen optMapEnv_law hle fuel
    { DDSketch := toGenO m (Sketch.new (m.map (fun e => e.id)) k),
      summaryStatistics := Gen.Stat.NewSummaryStatistics } b hf
  have e : ofGenXI (fun o : Option MapEnv => o.map (fun e => e.id))
      { DDSketch := toGenO m (Sketch.new (m.map (fun e => e.id)) k),
        summaryStatistics := Gen.Stat.NewSummaryStatistics } = XSketch.new (m.map (fun e => e.id)) k := by
    unfold ofGenXI XSketch.new
    simp only [GenStat.new_eq]
    congr 1
  rw [e] at h
  exact h

end Dec

end DDS.GenSketch7
