/-
  DDS.Proofs.GenMapId — the REGENERATED identity unit of the three index mappings
  (`DDS/Generated/CodeMapId.lean`, translated on every run from `Equals` and `Encode` of
  `ddsketch/mapping/{logarithmic,linearly_interpolated,cubically_interpolated}_mapping.go`)
  against the hand-written identity `DDS.MapId` of `DDS/Model/Sketch.lean`:

  (a) `toIdLog` / `toIdLin` / `toIdCub` read the identity `(kind, gamma, indexOffset)` off a
      generated structure (the kind is the structure's type);
  (b) `X.Equals a b = (toIdX a).equals (toIdX b)` for ALL floats (`log_equals_eq`, `lin_equals_eq`,
      `cub_equals_eq`).  `Equals` is translated for an argument of the receiver's own kind; for an
      argument of another kind Go's type assertion fails and the answer is `false`, which is what the
      model's kind comparison says (`equals_other_kind`);
  (c) `X.Encode fuel m b = .ok (b ++ bn (encBlock (toIdX m).toBlock))` for EVERY `fuel`
      (`EncodeFloat64LE` has no loop: it never runs out of fuel, never panics) — the flag byte and
      the two little-endian float64 are, byte for byte, the model's mapping block
      (`log_encode_eq`, `lin_encode_eq`, `cub_encode_eq`);
  (d) `EncodeFloat64LE_eq`: the regenerated `EncodeFloat64LE` appends `Codec.encF64LE` of the bit
      pattern (no such equivalence in `GenEncoding`, so it is proved here).
-/
import DDS.Generated.CodeMapId
import DDS.Proofs.GenBits
import DDS.Proofs.GenEncoding
import DDS.Proofs.MapId

set_option linter.unusedVariables false

namespace DDS.GenMapId

open DDS DDS.GoSem DDS.Gen.MapId DDS.Gen.Encoding DDS.GenEncoding DDS.Codec

/-! ## (a) the identity of a generated mapping -/

def toIdLog (m : LogarithmicMapping) : MapId :=
  { kind := .log, gamma := m.gamma, indexOffset := m.indexOffset }
def toIdLin (m : LinearlyInterpolatedMapping) : MapId :=
  { kind := .linear, gamma := m.gamma, indexOffset := m.indexOffset }
def toIdCub (m : CubicallyInterpolatedMapping) : MapId :=
  { kind := .cubic, gamma := m.gamma, indexOffset := m.indexOffset }

/-! ## (b) `Equals` -/

/-- the copy of `withinTolerance` in the identity unit is the one of the bits unit (same text) -/
theorem withinTolerance_copy (x y t : F64) :
    DDS.Gen.MapId.withinTolerance x y t = DDS.Gen.Bits.withinTolerance x y t := rfl

/-- the tolerance literal the three generated `Equals` pass is the float `1e-12` of the model -/
theorem tolLit_eq :
    F64.fin (4951760157141521 / 4951760157141521099596496896 : Rat) = GenBits.tol :=
  MapId.tol_eq.symm

/-- the generated tolerance test with the literal of the generated `Equals` is the model's -/
theorem withinTolerance_eq (x y : F64) :
    DDS.Gen.MapId.withinTolerance x y
        (F64.fin (4951760157141521 / 4951760157141521099596496896 : Rat))
      = MapId.withinTolerance x y := by
  rw [withinTolerance_copy, tolLit_eq, GenBits.withinTolerance_eq]

/-- **`LogarithmicMapping.Equals` is the model's `MapId.equals`, for all floats** -/
theorem log_equals_eq (a b : LogarithmicMapping) :
    LogarithmicMapping.Equals a b = (toIdLog a).equals (toIdLog b) := by
  simp only [LogarithmicMapping.Equals, withinTolerance_eq, MapId.equals, toIdLog, beq_self_eq_true,
    Bool.true_and]

/-- **`LinearlyInterpolatedMapping.Equals` is the model's `MapId.equals`, for all floats** -/
theorem lin_equals_eq (a b : LinearlyInterpolatedMapping) :
    LinearlyInterpolatedMapping.Equals a b = (toIdLin a).equals (toIdLin b) := by
  simp only [LinearlyInterpolatedMapping.Equals, withinTolerance_eq, MapId.equals, toIdLin,
    beq_self_eq_true, Bool.true_and]

/-- **`CubicallyInterpolatedMapping.Equals` is the model's `MapId.equals`, for all floats** -/
theorem cub_equals_eq (a b : CubicallyInterpolatedMapping) :
    CubicallyInterpolatedMapping.Equals a b = (toIdCub a).equals (toIdCub b) := by
  simp only [CubicallyInterpolatedMapping.Equals, withinTolerance_eq, MapId.equals, toIdCub,
    beq_self_eq_true, Bool.true_and]

/-- across kinds (not translated: in Go the type assertion `other.(*XMapping)` fails and `Equals`
    returns `false`) the model answers `false` as well, whatever the parameters -/
theorem equals_other_kind (l : LogarithmicMapping) (n : LinearlyInterpolatedMapping)
    (c : CubicallyInterpolatedMapping) :
    (toIdLog l).equals (toIdLin n) = false ∧ (toIdLin n).equals (toIdLog l) = false ∧
    (toIdLog l).equals (toIdCub c) = false ∧ (toIdCub c).equals (toIdLog l) = false ∧
    (toIdLin n).equals (toIdCub c) = false ∧ (toIdCub c).equals (toIdLin n) = false := by
  have hk : ∀ a b : MapId, (a.kind == b.kind) = false → a.equals b = false := by
    intro a b h
    unfold MapId.equals
    rw [h]; rfl
  exact ⟨hk _ _ rfl, hk _ _ rfl, hk _ _ rfl, hk _ _ rfl, hk _ _ rfl, hk _ _ rfl⟩

/-! ## (d) `EncodeFloat64LE` -/

theorem bn_append (a b : List Nat) : bn (a ++ b) = bn a ++ bn b := by simp [bn]

/-- `binary.LittleEndian.PutUint64` writes the model's eight bytes -/
theorem le64_eq (v : BitVec 64) : GoSem.le64 v = bn (encF64LE v.toNat) := by
  unfold GoSem.le64 encF64LE bn
  rw [List.map_map]
  apply List.map_congr_left
  intro i _
  apply BitVec.eq_of_toNat_eq
  rw [Function.comp_apply, Props.C18Bits.f64le_byte_bits, BitVec.toNat_ofNat]
  omega

theorem putU64At_end (b : List (BitVec 8)) (v : BitVec 64) :
    GoSem.putU64At (b ++ List.replicate 8 0#8) (GoSem.len (b ++ List.replicate 8 0#8) - 8) v
      = some (b ++ GoSem.le64 v) := by
  unfold GoSem.putU64At GoSem.len
  have hl : (b ++ List.replicate 8 (0#8 : BitVec 8)).length = b.length + 8 := by simp
  rw [hl]
  have hlo : ((b.length + 8 : Nat) : Int) - 8 = (b.length : Int) := by omega
  rw [hlo]
  have hc : ¬ ((b.length : Int) < 0 ∨ ((b.length + 8 : Nat) : Int) < (b.length : Int) + 8) := by omega
  rw [if_neg hc, Int.toNat_natCast, List.take_left' rfl,
    List.drop_of_length_le (Nat.le_of_eq hl), List.append_nil]

/-- **`EncodeFloat64LE` appends the model's little-endian bytes of the bit pattern** — for every
    fuel (no loop), every float (NaN, infinities included), never `.panic`/`.nofuel` -/
theorem EncodeFloat64LE_eq (fuel : Nat) (b : List (BitVec 8)) (v : F64) :
    EncodeFloat64LE fuel b v = .ok (b ++ bn (encF64LE v.toBits.toNat)) := by
  unfold EncodeFloat64LE
  show GoSem.optR (GoSem.putU64At (b ++ List.replicate 8 0#8)
      (GoSem.len (b ++ List.replicate 8 0#8) - 8) (GoSem.float64bits v)) _ = _
  rw [putU64At_end, optR_some, le64_eq]
  rfl

theorem encF64LE_bytes (b : Nat) : ∀ x ∈ encF64LE b, x < 256 := by
  intro x hx
  simp only [encF64LE, List.mem_map] at hx
  obtain ⟨i, _, rfl⟩ := hx
  exact Nat.mod_lt _ (by decide)

theorem EncodeFloat64LE_spec (fuel : Nat) (b : List (BitVec 8)) (v : F64) :
    ∃ bs, EncodeFloat64LE fuel b v = .ok (b ++ bs) ∧ nb bs = encF64LE v.toBits.toNat :=
  ⟨_, EncodeFloat64LE_eq fuel b v, nb_bn _ (encF64LE_bytes _)⟩

/-! ## (c) `Encode` -/

/-- what the three generated `Encode` have in common: flag byte, gamma, indexOffset -/
theorem encode_common (fuel : Nat) (f : Flag) (sub : Nat) (g o : F64) (b : List (BitVec 8))
    (hf : f.byte.toNat = Wire.mkFlag Consts.flagTypeIndexMapping sub) :
    Res.bind (EncodeFloat64LE fuel (EncodeFlag b f) g) (fun b =>
      Res.bind (EncodeFloat64LE fuel b o) (fun b => .ok b))
      = .ok (b ++ bn (Wire.encBlock (.mapping sub g.toBits.toNat o.toBits.toNat))) := by
  rw [EncodeFloat64LE_eq, Res.bind_ok, EncodeFloat64LE_eq, Res.bind_ok]
  show Res.ok (b ++ [f.byte] ++ _ ++ _) = Res.ok (b ++ bn (_ :: (_ ++ _)))
  rw [← cons_bn f.byte _ _ hf, bn_append]
  simp only [List.append_assoc, List.cons_append, List.nil_append]

/-- **`LogarithmicMapping.Encode` appends the model's mapping block, for every fuel** -/
theorem log_encode_eq (fuel : Nat) (m : LogarithmicMapping) (b : List (BitVec 8)) :
    LogarithmicMapping.Encode fuel m b = .ok (b ++ bn (Wire.encBlock (toIdLog m).toBlock)) :=
  encode_common fuel _ _ m.gamma m.indexOffset b FlagIndexMappingBaseLogarithmic_byte

/-- **`LinearlyInterpolatedMapping.Encode` appends the model's mapping block, for every fuel** -/
theorem lin_encode_eq (fuel : Nat) (m : LinearlyInterpolatedMapping) (b : List (BitVec 8)) :
    LinearlyInterpolatedMapping.Encode fuel m b = .ok (b ++ bn (Wire.encBlock (toIdLin m).toBlock)) :=
  encode_common fuel _ _ m.gamma m.indexOffset b FlagIndexMappingBaseLinear_byte

/-- **`CubicallyInterpolatedMapping.Encode` appends the model's mapping block, for every fuel** -/
theorem cub_encode_eq (fuel : Nat) (m : CubicallyInterpolatedMapping) (b : List (BitVec 8)) :
    CubicallyInterpolatedMapping.Encode fuel m b = .ok (b ++ bn (Wire.encBlock (toIdCub m).toBlock)) :=
  encode_common fuel _ _ m.gamma m.indexOffset b FlagIndexMappingBaseCubic_byte

/-- the bytes of a mapping block of an identity are bytes: `nb ∘ bn` is the identity on them -/
theorem encBlock_toBlock_bytes (m : MapId) : ∀ x ∈ Wire.encBlock m.toBlock, x < 256 := by
  intro x hx
  simp only [MapId.toBlock, Wire.encBlock, List.mem_cons, List.mem_append] at hx
  rcases hx with rfl | hx | hx
  · have := MapId.subFlag_le m.kind
    unfold Wire.mkFlag
    rw [show Consts.flagTypeIndexMapping = 2 from rfl, show Consts.numBitsForType = 2 from rfl]
    omega
  · exact encF64LE_bytes _ x hx
  · exact encF64LE_bytes _ x hx

theorem nb_bn_encBlock (m : MapId) :
    nb (bn (Wire.encBlock m.toBlock)) = Wire.encBlock m.toBlock :=
  nb_bn _ (encBlock_toBlock_bytes m)

/-- in the `∃ bs` form of `GenEncoding`, against the model's `List Nat` bytes -/
theorem log_encode_spec (fuel : Nat) (m : LogarithmicMapping) (b : List (BitVec 8)) :
    ∃ bs, LogarithmicMapping.Encode fuel m b = .ok (b ++ bs) ∧
      nb bs = Wire.encBlock (toIdLog m).toBlock :=
  ⟨_, log_encode_eq fuel m b, nb_bn_encBlock _⟩

theorem lin_encode_spec (fuel : Nat) (m : LinearlyInterpolatedMapping) (b : List (BitVec 8)) :
    ∃ bs, LinearlyInterpolatedMapping.Encode fuel m b = .ok (b ++ bs) ∧
      nb bs = Wire.encBlock (toIdLin m).toBlock :=
  ⟨_, lin_encode_eq fuel m b, nb_bn_encBlock _⟩

theorem cub_encode_spec (fuel : Nat) (m : CubicallyInterpolatedMapping) (b : List (BitVec 8)) :
    ∃ bs, CubicallyInterpolatedMapping.Encode fuel m b = .ok (b ++ bs) ∧
      nb bs = Wire.encBlock (toIdCub m).toBlock :=
  ⟨_, cub_encode_eq fuel m b, nb_bn_encBlock _⟩

end DDS.GenMapId
