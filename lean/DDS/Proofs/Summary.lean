/-
  DDS.Proofs.Summary — the "exact field" reading of `stat.SummaryStatistics` (`DDS.Model.Summary`):
  when every float operation is exact, the Kahan compensation stays 0 and the summary is the exact
  count / sum / min / max of the absorbed `(value, weight)` pairs.
-/
import DDS.Proofs.Num
import DDS.Model.Summary
import DDS.Model.Sketch

set_option linter.unusedVariables false

namespace DDS

/-! ## exact float operations -/

namespace F64

theorem isRep_zero : isRep 0 = true := by
  unfold isRep; rw [roundF64_zero]; exact beq_self_eq_true _

theorem sub_zero_exact (p : Rat) (h : isRep p = true) : F64.sub (.fin p) (.fin 0) = .fin p := by
  have := sub_exact p 0 (by rwa [sub_zero])
  rwa [sub_zero] at this

theorem add_zero_exact (p : Rat) (h : isRep p = true) : F64.add (.fin p) (.fin 0) = .fin p := by
  have := add_exact p 0 (by rwa [add_zero])
  rwa [add_zero] at this

theorem sub_self_fin (p : Rat) : F64.sub (.fin p) (.fin p) = .fin 0 := by
  have := sub_exact p p (by rw [sub_self]; exact isRep_zero)
  rwa [sub_self] at this

theorem sub_add_cancel_exact (sm p : Rat) (h : isRep p = true) :
    F64.sub (.fin (sm + p)) (.fin sm) = .fin p := by
  have := sub_exact (sm + p) sm (by rwa [add_sub_cancel_left])
  rwa [add_sub_cancel_left] at this

theorem zero_mul_fin (w : Rat) : F64.mul (.fin 0) (.fin w) = .fin 0 := by
  have := mul_exact 0 w (by rw [zero_mul]; exact isRep_zero)
  rwa [zero_mul] at this

theorem mul_zero_fin (w : Rat) : F64.mul (.fin w) (.fin 0) = .fin 0 := by
  have := mul_exact w 0 (by rw [mul_zero]; exact isRep_zero)
  rwa [mul_zero] at this

theorem isRep_nat (n : Nat) (h : n ≤ 2 ^ 53) : isRep (n : Rat) = true := by
  unfold isRep; rw [roundF64_nat n h]; exact beq_self_eq_true _

theorem lt_irrefl' (a : F64) : F64.lt a a = false := by
  cases a <;> simp [F64.lt]

theorem lt_pinf_left (a : F64) : F64.lt .pinf a = false := by
  cases a <;> rfl

theorem lt_ninf_right (a : F64) : F64.lt a .ninf = false := by
  cases a <;> rfl

theorem lt_nan_right (a : F64) : F64.lt a .nan = false := by
  cases a <;> rfl

theorem lt_nan_left (a : F64) : F64.lt .nan a = false := by
  cases a <;> rfl

end F64

namespace Summary

open F64

/-! ## vocabulary -/

/-- the comparison `Add` makes for the minimum: `if value < min then value else min` -/
def minStep (v m : F64) : F64 := if F64.lt v m then v else m

/-- the comparison `Add` makes for the maximum: `if value > max then value else max` -/
def maxStep (v m : F64) : F64 := if F64.lt m v then v else m

/-- total weight of a list of `(value, weight)` pairs -/
def cnt (l : List (Rat × Rat)) : Rat := (l.map (fun p => p.2)).sum

/-- weighted sum of a list of `(value, weight)` pairs -/
def tot (l : List (Rat × Rat)) : Rat := (l.map (fun p => p.1 * p.2)).sum

def minFrom (m : F64) (l : List (Rat × Rat)) : F64 := l.foldl (fun m p => minStep (.fin p.1) m) m
def maxFrom (m : F64) (l : List (Rat × Rat)) : F64 := l.foldl (fun m p => maxStep (.fin p.1) m) m

/-- least value of the list (`+∞` if empty) -/
def minOf (l : List (Rat × Rat)) : F64 := minFrom .pinf l
/-- greatest value of the list (`−∞` if empty) -/
def maxOf (l : List (Rat × Rat)) : F64 := maxFrom .ninf l

/-- absorb a list of `(value, weight)` pairs -/
def addAll (s : Summary) (l : List (Rat × Rat)) : Summary :=
  l.foldl (fun s p => s.add (.fin p.1) (.fin p.2)) s

/-- absorb a list of arbitrary float pairs -/
def addAllF (s : Summary) (l : List (F64 × F64)) : Summary :=
  l.foldl (fun s p => s.add p.1 p.2) s

/-- THE exact summary of a multiset of `(value, weight)` pairs -/
def exactOf (l : List (Rat × Rat)) : Summary :=
  { count := .fin (cnt l), sum := .fin (tot l), sumCompensation := .fin 0, simpleSum := .fin (tot l),
    min := minOf l, max := maxOf l }

/-- representability of everything `addAll` computes, starting from count `c` and sum `sm`:
    every partial count, every product, every partial sum -/
def RepFrom (c sm : Rat) : List (Rat × Rat) → Prop
  | [] => True
  | p :: rest => isRep (c + p.2) = true ∧ isRep (p.1 * p.2) = true ∧ isRep (sm + p.1 * p.2) = true ∧
      RepFrom (c + p.2) (sm + p.1 * p.2) rest

/-- … starting from the empty summary -/
def RepOK (l : List (Rat × Rat)) : Prop := RepFrom 0 0 l

@[simp] theorem cnt_nil : cnt [] = 0 := rfl
@[simp] theorem tot_nil : tot [] = 0 := rfl
@[simp] theorem cnt_cons (p : Rat × Rat) (l : List (Rat × Rat)) : cnt (p :: l) = p.2 + cnt l := by
  simp [cnt]
@[simp] theorem tot_cons (p : Rat × Rat) (l : List (Rat × Rat)) :
    tot (p :: l) = p.1 * p.2 + tot l := by
  simp [tot]
theorem cnt_append (a b : List (Rat × Rat)) : cnt (a ++ b) = cnt a + cnt b := by
  simp [cnt]
theorem tot_append (a b : List (Rat × Rat)) : tot (a ++ b) = tot a + tot b := by
  simp [tot]

/-! ## one exact step -/

theorem sumWithCompensation_exact (s : Summary) (sm p : Rat) (hsum : s.sum = .fin sm)
    (hcomp : s.sumCompensation = .fin 0) (hp : isRep p = true) (hs : isRep (sm + p) = true) :
    s.sumWithCompensation (.fin p) = { s with sum := .fin (sm + p), sumCompensation := .fin 0 } := by
  unfold sumWithCompensation
  simp only [hsum, hcomp]
  rw [sub_zero_exact p hp, add_exact sm p hs, sub_add_cancel_exact sm p hp, sub_self_fin]

/-- compensation stays 0 when the additions are exact -/
theorem add_exact_state (c sm v w : Rat) (mn mx : F64) (h1 : isRep (c + w) = true)
    (h2 : isRep (v * w) = true) (h3 : isRep (sm + v * w) = true) :
    (Summary.mk (.fin c) (.fin sm) (.fin 0) (.fin sm) mn mx).add (.fin v) (.fin w) =
      Summary.mk (.fin (c + w)) (.fin (sm + v * w)) (.fin 0) (.fin (sm + v * w))
        (minStep (.fin v) mn) (maxStep (.fin v) mx) := by
  unfold Summary.add addToCount addToSum
  simp only [mul_exact v w h2, add_exact c w h1]
  rw [sumWithCompensation_exact _ sm (v * w) rfl rfl h2 h3]
  simp only [add_exact sm (v * w) h3, minStep, maxStep]
  split <;> split <;> rfl

/-- min and max involve no float arithmetic at all -/
theorem add_min_max (s : Summary) (v w : F64) :
    (s.add v w).min = minStep v s.min ∧ (s.add v w).max = maxStep v s.max := by
  unfold Summary.add addToCount addToSum sumWithCompensation minStep maxStep
  simp only
  split <;> split <;> exact ⟨rfl, rfl⟩

/-! ## folds -/

theorem addAll_exact_from (l : List (Rat × Rat)) (c sm : Rat) (mn mx : F64) (h : RepFrom c sm l) :
    addAll (Summary.mk (.fin c) (.fin sm) (.fin 0) (.fin sm) mn mx) l =
      Summary.mk (.fin (c + cnt l)) (.fin (sm + tot l)) (.fin 0) (.fin (sm + tot l))
        (minFrom mn l) (maxFrom mx l) := by
  induction l generalizing c sm mn mx with
  | nil => simp [addAll, minFrom, maxFrom]
  | cons p rest ih =>
    obtain ⟨h1, h2, h3, h4⟩ := h
    show addAll ((Summary.mk (.fin c) (.fin sm) (.fin 0) (.fin sm) mn mx).add (.fin p.1) (.fin p.2)) rest = _
    rw [add_exact_state c sm p.1 p.2 mn mx h1 h2 h3, ih _ _ _ _ h4]
    simp only [cnt_cons, tot_cons, add_assoc]
    rfl

theorem addAll_new_exact (l : List (Rat × Rat)) (h : RepOK l) : addAll Summary.new l = exactOf l := by
  have := addAll_exact_from l 0 0 .pinf .ninf h
  simp only [zero_add] at this
  exact this

theorem repFrom_isRep_sum (l : List (Rat × Rat)) (c sm : Rat) (h : RepFrom c sm l)
    (hsm : isRep sm = true) : isRep (sm + tot l) = true := by
  induction l generalizing c sm with
  | nil => simpa using hsm
  | cons p rest ih =>
    obtain ⟨h1, h2, h3, h4⟩ := h
    have := ih _ _ h4 h3
    rwa [tot_cons, ← add_assoc]

theorem repFrom_isRep_cnt (l : List (Rat × Rat)) (c sm : Rat) (h : RepFrom c sm l)
    (hc : isRep c = true) : isRep (c + cnt l) = true := by
  induction l generalizing c sm with
  | nil => simpa using hc
  | cons p rest ih =>
    obtain ⟨h1, h2, h3, h4⟩ := h
    have := ih _ _ h4 h1
    rwa [cnt_cons, ← add_assoc]

theorem getSum_exact (c : F64) (sm : Rat) (mn mx : F64) (h : isRep sm = true) :
    (Summary.mk c (.fin sm) (.fin 0) (.fin sm) mn mx).getSum = .fin sm := by
  unfold getSum
  simp only [add_zero_exact sm h, F64.isNaN]
  rfl

/-- natural values and weights whose totals stay `≤ 2^53` satisfy the hypotheses -/
theorem repFrom_nat (l : List (Nat × Nat)) (c sm : Nat)
    (h1 : c + (l.map (fun p => p.2)).sum ≤ 2 ^ 53)
    (h2 : sm + (l.map (fun p => p.1 * p.2)).sum ≤ 2 ^ 53) :
    RepFrom (c : Rat) (sm : Rat) (l.map (fun p => ((p.1 : Rat), (p.2 : Rat)))) := by
  induction l generalizing c sm with
  | nil => trivial
  | cons p rest ih =>
    simp only [List.map_cons, List.sum_cons] at h1 h2
    have hpr : p.1 * p.2 ≤ 2 ^ 53 := by omega
    refine ⟨?_, ?_, ?_, ?_⟩
    · show isRep ((c : Rat) + (p.2 : Rat)) = true
      rw [← Nat.cast_add]; exact isRep_nat _ (by omega)
    · show isRep ((p.1 : Rat) * (p.2 : Rat)) = true
      rw [← Nat.cast_mul]; exact isRep_nat _ hpr
    · show isRep ((sm : Rat) + (p.1 : Rat) * (p.2 : Rat)) = true
      rw [← Nat.cast_mul, ← Nat.cast_add]; exact isRep_nat _ (by omega)
    · show RepFrom ((c : Rat) + (p.2 : Rat)) ((sm : Rat) + (p.1 : Rat) * (p.2 : Rat)) _
      rw [← Nat.cast_mul, ← Nat.cast_add, ← Nat.cast_add]
      exact ih _ _ (by omega) (by omega)

/-! ## minimum and maximum of a list -/

theorem minStep_fin_fin (v m : Rat) : minStep (.fin v) (.fin m) = .fin (if v < m then v else m) := by
  unfold minStep; simp only [F64.lt, decide_eq_true_eq]; split <;> rfl

theorem maxStep_fin_fin (v m : Rat) : maxStep (.fin v) (.fin m) = .fin (if m < v then v else m) := by
  unfold maxStep; simp only [F64.lt, decide_eq_true_eq]; split <;> rfl

theorem minStep_fin_pinf (v : Rat) : minStep (.fin v) .pinf = .fin v := rfl
theorem maxStep_fin_ninf (v : Rat) : maxStep (.fin v) .ninf = .fin v := rfl

theorem minFrom_cons (m : F64) (p : Rat × Rat) (l : List (Rat × Rat)) :
    minFrom m (p :: l) = minFrom (minStep (.fin p.1) m) l := rfl
theorem maxFrom_cons (m : F64) (p : Rat × Rat) (l : List (Rat × Rat)) :
    maxFrom m (p :: l) = maxFrom (maxStep (.fin p.1) m) l := rfl

theorem minFrom_append (m : F64) (a b : List (Rat × Rat)) :
    minFrom m (a ++ b) = minFrom (minFrom m a) b := by
  unfold minFrom; rw [List.foldl_append]
theorem maxFrom_append (m : F64) (a b : List (Rat × Rat)) :
    maxFrom m (a ++ b) = maxFrom (maxFrom m a) b := by
  unfold maxFrom; rw [List.foldl_append]

theorem minFrom_fin (m0 : Rat) (l : List (Rat × Rat)) :
    ∃ m, minFrom (.fin m0) l = .fin m ∧ m ≤ m0 ∧ (∀ p ∈ l, m ≤ p.1) ∧
      (m = m0 ∨ ∃ p ∈ l, p.1 = m) := by
  induction l generalizing m0 with
  | nil => exact ⟨m0, rfl, le_refl _, by simp, Or.inl rfl⟩
  | cons p rest ih =>
    rw [minFrom_cons, minStep_fin_fin]
    obtain ⟨m, hm, h1, h2, h3⟩ := ih (if p.1 < m0 then p.1 else m0)
    refine ⟨m, hm, ?_, ?_, ?_⟩
    · split at h1 <;> linarith
    · intro x hx
      rcases List.mem_cons.mp hx with rfl | hx
      · split at h1 <;> linarith
      · exact h2 x hx
    · rcases h3 with h3 | ⟨x, hx, hxm⟩
      · split at h3
        · right; exact ⟨p, List.mem_cons_self .., h3.symm⟩
        · left; exact h3
      · right; exact ⟨x, List.mem_cons_of_mem _ hx, hxm⟩

theorem maxFrom_fin (m0 : Rat) (l : List (Rat × Rat)) :
    ∃ m, maxFrom (.fin m0) l = .fin m ∧ m0 ≤ m ∧ (∀ p ∈ l, p.1 ≤ m) ∧
      (m = m0 ∨ ∃ p ∈ l, p.1 = m) := by
  induction l generalizing m0 with
  | nil => exact ⟨m0, rfl, le_refl _, by simp, Or.inl rfl⟩
  | cons p rest ih =>
    rw [maxFrom_cons, maxStep_fin_fin]
    obtain ⟨m, hm, h1, h2, h3⟩ := ih (if m0 < p.1 then p.1 else m0)
    refine ⟨m, hm, ?_, ?_, ?_⟩
    · split at h1 <;> linarith
    · intro x hx
      rcases List.mem_cons.mp hx with rfl | hx
      · split at h1 <;> linarith
      · exact h2 x hx
    · rcases h3 with h3 | ⟨x, hx, hxm⟩
      · split at h3
        · right; exact ⟨p, List.mem_cons_self .., h3.symm⟩
        · left; exact h3
      · right; exact ⟨x, List.mem_cons_of_mem _ hx, hxm⟩

/-- the minimum of a non-empty list is its least value -/
theorem minOf_spec (l : List (Rat × Rat)) (hl : l ≠ []) :
    ∃ m, minOf l = .fin m ∧ (∃ p ∈ l, p.1 = m) ∧ ∀ p ∈ l, m ≤ p.1 := by
  cases l with
  | nil => exact absurd rfl hl
  | cons p rest =>
    obtain ⟨m, hm, h1, h2, h3⟩ := minFrom_fin p.1 rest
    refine ⟨m, hm, ?_, ?_⟩
    · rcases h3 with h3 | ⟨x, hx, hxm⟩
      · exact ⟨p, List.mem_cons_self .., h3.symm⟩
      · exact ⟨x, List.mem_cons_of_mem _ hx, hxm⟩
    · intro x hx
      rcases List.mem_cons.mp hx with rfl | hx
      · exact h1
      · exact h2 x hx

theorem maxOf_spec (l : List (Rat × Rat)) (hl : l ≠ []) :
    ∃ m, maxOf l = .fin m ∧ (∃ p ∈ l, p.1 = m) ∧ ∀ p ∈ l, p.1 ≤ m := by
  cases l with
  | nil => exact absurd rfl hl
  | cons p rest =>
    obtain ⟨m, hm, h1, h2, h3⟩ := maxFrom_fin p.1 rest
    refine ⟨m, hm, ?_, ?_⟩
    · rcases h3 with h3 | ⟨x, hx, hxm⟩
      · exact ⟨p, List.mem_cons_self .., h3.symm⟩
      · exact ⟨x, List.mem_cons_of_mem _ hx, hxm⟩
    · intro x hx
      rcases List.mem_cons.mp hx with rfl | hx
      · exact h1
      · exact h2 x hx

/-- … and it is characterised by that -/
theorem minOf_eq_of (l : List (Rat × Rat)) (m : Rat) (h1 : ∃ p ∈ l, p.1 = m)
    (h2 : ∀ p ∈ l, m ≤ p.1) : minOf l = .fin m := by
  obtain ⟨p, hp, hpm⟩ := h1
  obtain ⟨m', hm', ⟨x, hx, hxm⟩, h4⟩ := minOf_spec l (List.ne_nil_of_mem hp)
  have a1 : m' ≤ m := hpm ▸ h4 p hp
  have a2 : m ≤ m' := hxm ▸ h2 x hx
  rw [hm', le_antisymm a2 a1]

theorem maxOf_eq_of (l : List (Rat × Rat)) (m : Rat) (h1 : ∃ p ∈ l, p.1 = m)
    (h2 : ∀ p ∈ l, p.1 ≤ m) : maxOf l = .fin m := by
  obtain ⟨p, hp, hpm⟩ := h1
  obtain ⟨m', hm', ⟨x, hx, hxm⟩, h4⟩ := maxOf_spec l (List.ne_nil_of_mem hp)
  have a1 : m ≤ m' := hpm ▸ h4 p hp
  have a2 : m' ≤ m := hxm ▸ h2 x hx
  rw [hm', le_antisymm a2 a1]

theorem minOf_nil : minOf [] = .pinf := rfl
theorem maxOf_nil : maxOf [] = .ninf := rfl

theorem minOf_cases (l : List (Rat × Rat)) : minOf l = .pinf ∨ ∃ a, minOf l = .fin a := by
  by_cases h : l = []
  · left; rw [h]; rfl
  · right; obtain ⟨m, hm, _⟩ := minOf_spec l h; exact ⟨m, hm⟩

theorem maxOf_cases (l : List (Rat × Rat)) : maxOf l = .ninf ∨ ∃ a, maxOf l = .fin a := by
  by_cases h : l = []
  · left; rw [h]; rfl
  · right; obtain ⟨m, hm, _⟩ := maxOf_spec l h; exact ⟨m, hm⟩

/-- min ≤ max for a non-empty list -/
theorem maxOf_not_lt_minOf (l : List (Rat × Rat)) (hl : l ≠ []) :
    F64.lt (maxOf l) (minOf l) = false := by
  obtain ⟨a, ha, ⟨p, hp, hpa⟩, h2⟩ := minOf_spec l hl
  obtain ⟨b, hb, _, h4⟩ := maxOf_spec l hl
  rw [ha, hb]
  have : a ≤ b := le_trans (h2 p hp) (h4 p hp)
  simp only [F64.lt, decide_eq_false_iff_not, not_lt]; exact this

theorem minStep_ninf (x : F64) : minStep x .ninf = .ninf := by
  unfold minStep; rw [lt_ninf_right]; rfl
theorem minStep_nan (x : F64) : minStep x .nan = .nan := by
  unfold minStep; rw [lt_nan_right]; rfl
theorem maxStep_pinf (x : F64) : maxStep x .pinf = .pinf := by
  unfold maxStep; rw [lt_pinf_left]; rfl
theorem maxStep_nan (x : F64) : maxStep x .nan = .nan := by
  unfold maxStep; rw [lt_nan_left]; rfl

/-- associativity of the min step when the accumulated minimum is `+∞` or finite -/
theorem minStep_assoc (v : Rat) (A m : F64) (hA : A = .pinf ∨ ∃ a, A = .fin a) :
    minStep (.fin v) (minStep A m) = minStep (minStep (.fin v) A) m := by
  rcases hA with rfl | ⟨a, rfl⟩
  · cases m <;> simp [minStep, F64.lt]
  · cases m with
    | fin b =>
      simp only [minStep_fin_fin]
      congr 1
      split_ifs <;> first | rfl | (exfalso; linarith)
    | pinf => rw [minStep_fin_pinf, minStep_fin_fin, minStep_fin_pinf]
    | ninf => simp only [minStep_ninf]
    | nan => simp only [minStep_nan]

theorem maxStep_assoc (v : Rat) (A m : F64) (hA : A = .ninf ∨ ∃ a, A = .fin a) :
    maxStep (.fin v) (maxStep A m) = maxStep (maxStep (.fin v) A) m := by
  rcases hA with rfl | ⟨a, rfl⟩
  · cases m <;> simp [maxStep, F64.lt]
  · cases m with
    | fin b =>
      simp only [maxStep_fin_fin]
      congr 1
      split_ifs <;> first | rfl | (exfalso; linarith)
    | pinf => simp only [maxStep_pinf]
    | ninf => rw [maxStep_fin_ninf, maxStep_fin_fin, maxStep_fin_ninf]
    | nan => simp only [maxStep_nan]

/-- folding from `m` is one comparison of `m` with the minimum of the list -/
theorem minFrom_eq_step (m : F64) (l : List (Rat × Rat)) : minFrom m l = minStep (minOf l) m := by
  induction l using List.reverseRecOn with
  | nil => show m = minStep .pinf m; unfold minStep; rw [lt_pinf_left]; rfl
  | append_singleton r p ih =>
    unfold minOf
    rw [minFrom_append, minFrom_append, ih]
    show minStep (.fin p.1) (minStep (minOf r) m) = minStep (minStep (.fin p.1) (minFrom .pinf r)) m
    exact minStep_assoc p.1 (minOf r) m (minOf_cases r)

theorem maxFrom_eq_step (m : F64) (l : List (Rat × Rat)) : maxFrom m l = maxStep (maxOf l) m := by
  induction l using List.reverseRecOn with
  | nil => show m = maxStep .ninf m; unfold maxStep; rw [lt_ninf_right]; rfl
  | append_singleton r p ih =>
    unfold maxOf
    rw [maxFrom_append, maxFrom_append, ih]
    show maxStep (.fin p.1) (maxStep (maxOf r) m) = maxStep (maxStep (.fin p.1) (maxFrom .ninf r)) m
    exact maxStep_assoc p.1 (maxOf r) m (maxOf_cases r)

theorem minOf_append (a b : List (Rat × Rat)) : minOf (a ++ b) = minStep (minOf b) (minOf a) := by
  unfold minOf; rw [minFrom_append]; exact minFrom_eq_step _ _

theorem maxOf_append (a b : List (Rat × Rat)) : maxOf (a ++ b) = maxStep (maxOf b) (maxOf a) := by
  unfold maxOf; rw [maxFrom_append]; exact maxFrom_eq_step _ _

/-! ## sums of non-negative weights -/

theorem cnt_nonneg (l : List (Rat × Rat)) (h : ∀ p ∈ l, 0 ≤ p.2) : 0 ≤ cnt l := by
  induction l with
  | nil => simp
  | cons p rest ih =>
    rw [cnt_cons]
    have := h p (List.mem_cons_self ..)
    have := ih (fun q hq => h q (List.mem_cons_of_mem _ hq))
    linarith

theorem cnt_eq_zero_iff (l : List (Rat × Rat)) (h : ∀ p ∈ l, 0 ≤ p.2) :
    cnt l = 0 ↔ ∀ p ∈ l, p.2 = 0 := by
  induction l with
  | nil => simp
  | cons p rest ih =>
    rw [cnt_cons]
    have h0 := h p (List.mem_cons_self ..)
    have hr : ∀ q ∈ rest, 0 ≤ q.2 := fun q hq => h q (List.mem_cons_of_mem _ hq)
    have h1 := cnt_nonneg rest hr
    constructor
    · intro hs
      have hp : p.2 = 0 := by linarith
      have hc : cnt rest = 0 := by linarith
      intro q hq
      rcases List.mem_cons.mp hq with rfl | hq
      · exact hp
      · exact (ih hr).mp hc q hq
    · intro hall
      have hp := hall p (List.mem_cons_self ..)
      have hc := (ih hr).mpr (fun q hq => hall q (List.mem_cons_of_mem _ hq))
      linarith

/-! ## mergeWith, reweight, rescale -/

theorem mergeWith_exact_state (c1 s1 c2 s2 : Rat) (mn1 mx1 mn2 mx2 : F64)
    (hc : isRep (c1 + c2) = true) (hs2 : isRep s2 = true) (hs : isRep (s1 + s2) = true) :
    (Summary.mk (.fin c1) (.fin s1) (.fin 0) (.fin s1) mn1 mx1).mergeWith
        (Summary.mk (.fin c2) (.fin s2) (.fin 0) (.fin s2) mn2 mx2) =
      Summary.mk (.fin (c1 + c2)) (.fin (s1 + s2)) (.fin 0) (.fin (s1 + s2))
        (minStep mn2 mn1) (maxStep mx2 mx1) := by
  unfold Summary.mergeWith
  simp only [add_exact c1 c2 hc]
  rw [sumWithCompensation_exact _ s1 s2 rfl rfl hs2 hs]
  simp only
  rw [sumWithCompensation_exact _ (s1 + s2) 0 rfl rfl isRep_zero (by rwa [add_zero])]
  simp only [add_zero, add_exact s1 s2 hs, minStep, maxStep]
  split <;> split <;> rfl

theorem reweight_exact_state (c sm w : Rat) (mn mx : F64) (hc : isRep (c * w) = true)
    (hs : isRep (sm * w) = true) :
    (Summary.mk (.fin c) (.fin sm) (.fin 0) (.fin sm) mn mx).reweight (.fin w) =
      if w = 0 then Summary.new
      else Summary.mk (.fin (c * w)) (.fin (sm * w)) (.fin 0) (.fin (sm * w)) mn mx := by
  unfold Summary.reweight
  simp only [mul_exact c w hc, mul_exact sm w hs, zero_mul_fin, F64.eq, beq_iff_eq]
  split
  · rename_i h; subst h; simp [Summary.new]
  · rfl

theorem rescale_exact_state (c : F64) (sm f : Rat) (mn mx : F64) (hs : isRep (sm * f) = true) :
    (Summary.mk c (.fin sm) (.fin 0) (.fin sm) mn mx).rescale (.fin f) =
      if 0 < f then
        Summary.mk c (.fin (sm * f)) (.fin 0) (.fin (sm * f)) (F64.mul mn (.fin f)) (F64.mul mx (.fin f))
      else if f < 0 then
        Summary.mk c (.fin (sm * f)) (.fin 0) (.fin (sm * f)) (F64.mul mx (.fin f)) (F64.mul mn (.fin f))
      else if F64.ne c (.fin 0) = true then
        Summary.mk c (.fin 0) (.fin 0) (.fin 0) (.fin 0) (.fin 0)
      else Summary.mk c (.fin 0) (.fin 0) (.fin 0) mn mx := by
  unfold Summary.rescale
  simp only [mul_exact sm f hs, zero_mul_fin, F64.lt, decide_eq_true_eq]
  split
  · rfl
  · split
    · rfl
    · have : f = 0 := by rename_i h1 h2; linarith [not_lt.mp h1, not_lt.mp h2]
      subst this
      simp only [mul_zero]

/-! ## the lists a reweighting / rescaling corresponds to -/

/-- every value multiplied by `f` -/
def scaleVals (f : Rat) (l : List (Rat × Rat)) : List (Rat × Rat) := l.map (fun p => (p.1 * f, p.2))
/-- every weight multiplied by `w` -/
def scaleWts (w : Rat) (l : List (Rat × Rat)) : List (Rat × Rat) := l.map (fun p => (p.1, p.2 * w))

theorem cnt_scaleVals (f : Rat) (l : List (Rat × Rat)) : cnt (scaleVals f l) = cnt l := by
  induction l with
  | nil => rfl
  | cons p r ih => simp only [scaleVals, List.map_cons, cnt_cons] at ih ⊢; rw [ih]

theorem tot_scaleVals (f : Rat) (l : List (Rat × Rat)) : tot (scaleVals f l) = tot l * f := by
  induction l with
  | nil => simp [scaleVals]
  | cons p r ih => simp only [scaleVals, List.map_cons, tot_cons] at ih ⊢; rw [ih]; ring

theorem cnt_scaleWts (w : Rat) (l : List (Rat × Rat)) : cnt (scaleWts w l) = cnt l * w := by
  induction l with
  | nil => simp [scaleWts]
  | cons p r ih => simp only [scaleWts, List.map_cons, cnt_cons] at ih ⊢; rw [ih]; ring

theorem tot_scaleWts (w : Rat) (l : List (Rat × Rat)) : tot (scaleWts w l) = tot l * w := by
  induction l with
  | nil => simp [scaleWts]
  | cons p r ih => simp only [scaleWts, List.map_cons, tot_cons] at ih ⊢; rw [ih]; ring

theorem minFrom_scaleWts (w : Rat) (m : F64) (l : List (Rat × Rat)) :
    minFrom m (scaleWts w l) = minFrom m l := by
  induction l generalizing m with
  | nil => rfl
  | cons p r ih => exact ih _

theorem maxFrom_scaleWts (w : Rat) (m : F64) (l : List (Rat × Rat)) :
    maxFrom m (scaleWts w l) = maxFrom m l := by
  induction l generalizing m with
  | nil => rfl
  | cons p r ih => exact ih _

theorem mem_scaleVals {f : Rat} {l : List (Rat × Rat)} {q : Rat × Rat} (h : q ∈ scaleVals f l) :
    ∃ p ∈ l, q.1 = p.1 * f := by
  obtain ⟨p, hp, rfl⟩ := List.mem_map.mp h
  exact ⟨p, hp, rfl⟩

theorem minOf_scaleVals_nonneg (f : Rat) (hf : 0 ≤ f) (l : List (Rat × Rat)) (a : Rat)
    (h : minOf l = .fin a) : minOf (scaleVals f l) = .fin (a * f) := by
  have hl : l ≠ [] := by rintro rfl; cases h
  obtain ⟨m, hm, ⟨p, hp, hpm⟩, h2⟩ := minOf_spec l hl
  rw [h] at hm; injection hm with hm; subst hm
  apply minOf_eq_of
  · exact ⟨(p.1 * f, p.2), List.mem_map.mpr ⟨p, hp, rfl⟩, by rw [hpm]⟩
  · intro q hq
    obtain ⟨p', hp', e⟩ := mem_scaleVals hq
    rw [e]; exact mul_le_mul_of_nonneg_right (h2 p' hp') hf

theorem maxOf_scaleVals_nonneg (f : Rat) (hf : 0 ≤ f) (l : List (Rat × Rat)) (b : Rat)
    (h : maxOf l = .fin b) : maxOf (scaleVals f l) = .fin (b * f) := by
  have hl : l ≠ [] := by rintro rfl; cases h
  obtain ⟨m, hm, ⟨p, hp, hpm⟩, h2⟩ := maxOf_spec l hl
  rw [h] at hm; injection hm with hm; subst hm
  apply maxOf_eq_of
  · exact ⟨(p.1 * f, p.2), List.mem_map.mpr ⟨p, hp, rfl⟩, by rw [hpm]⟩
  · intro q hq
    obtain ⟨p', hp', e⟩ := mem_scaleVals hq
    rw [e]; exact mul_le_mul_of_nonneg_right (h2 p' hp') hf

theorem minOf_scaleVals_neg (f : Rat) (hf : f ≤ 0) (l : List (Rat × Rat)) (b : Rat)
    (h : maxOf l = .fin b) : minOf (scaleVals f l) = .fin (b * f) := by
  have hl : l ≠ [] := by rintro rfl; cases h
  obtain ⟨m, hm, ⟨p, hp, hpm⟩, h2⟩ := maxOf_spec l hl
  rw [h] at hm; injection hm with hm; subst hm
  apply minOf_eq_of
  · exact ⟨(p.1 * f, p.2), List.mem_map.mpr ⟨p, hp, rfl⟩, by rw [hpm]⟩
  · intro q hq
    obtain ⟨p', hp', e⟩ := mem_scaleVals hq
    rw [e]; exact mul_le_mul_of_nonpos_right (h2 p' hp') hf

theorem maxOf_scaleVals_neg (f : Rat) (hf : f ≤ 0) (l : List (Rat × Rat)) (a : Rat)
    (h : minOf l = .fin a) : maxOf (scaleVals f l) = .fin (a * f) := by
  have hl : l ≠ [] := by rintro rfl; cases h
  obtain ⟨m, hm, ⟨p, hp, hpm⟩, h2⟩ := minOf_spec l hl
  rw [h] at hm; injection hm with hm; subst hm
  apply maxOf_eq_of
  · exact ⟨(p.1 * f, p.2), List.mem_map.mpr ⟨p, hp, rfl⟩, by rw [hpm]⟩
  · intro q hq
    obtain ⟨p', hp', e⟩ := mem_scaleVals hq
    rw [e]; exact mul_le_mul_of_nonpos_right (h2 p' hp') hf

theorem cnt_pos (l : List (Rat × Rat)) (hl : l ≠ []) (h : ∀ p ∈ l, 0 < p.2) : 0 < cnt l := by
  cases l with
  | nil => exact absurd rfl hl
  | cons p r =>
    rw [cnt_cons]
    have := h p (List.mem_cons_self ..)
    have := cnt_nonneg r (fun q hq => (h q (List.mem_cons_of_mem _ hq)).le)
    linarith

/-! ## extremes are absorbed values, for arbitrary floats -/

theorem addAllF_min_max (s : Summary) (l : List (F64 × F64)) :
    ((addAllF s l).min = s.min ∨ ∃ p ∈ l, (addAllF s l).min = p.1) ∧
    ((addAllF s l).max = s.max ∨ ∃ p ∈ l, (addAllF s l).max = p.1) := by
  induction l generalizing s with
  | nil => exact ⟨Or.inl rfl, Or.inl rfl⟩
  | cons p r ih =>
    obtain ⟨h1, h2⟩ := ih (s.add p.1 p.2)
    obtain ⟨a1, a2⟩ := add_min_max s p.1 p.2
    have e : addAllF s (p :: r) = addAllF (s.add p.1 p.2) r := rfl
    rw [e]
    constructor
    · rcases h1 with h1 | ⟨x, hx, hxm⟩
      · rw [h1, a1]; unfold minStep; split
        · right; exact ⟨p, List.mem_cons_self .., rfl⟩
        · left; rfl
      · right; exact ⟨x, List.mem_cons_of_mem _ hx, hxm⟩
    · rcases h2 with h2 | ⟨x, hx, hxm⟩
      · rw [h2, a2]; unfold maxStep; split
        · right; exact ⟨p, List.mem_cons_self .., rfl⟩
        · left; rfl
      · right; exact ⟨x, List.mem_cons_of_mem _ hx, hxm⟩

end Summary

/-! ## clamping in the sketch with exact summary statistics -/

namespace XSketch

theorem clampTo_bounds (x : XSketch) (u : F64) (hmm : F64.lt x.st.max x.st.min = false) :
    F64.lt (x.clampTo u) x.st.min = false ∧ F64.gt (x.clampTo u) x.st.max = false := by
  unfold clampTo F64.gt
  split
  · exact ⟨F64.lt_irrefl' _, hmm⟩
  · rename_i h1
    split
    · exact ⟨hmm, F64.lt_irrefl' _⟩
    · rename_i h2
      exact ⟨by simpa using h1, by simpa [F64.gt] using h2⟩

theorem clampTo_id (x : XSketch) (u : F64) (h1 : F64.lt u x.st.min = false)
    (h2 : F64.gt u x.st.max = false) : x.clampTo u = u := by
  unfold clampTo; rw [h1, h2]; rfl

theorem quantile_eq (env : MapEnv) (x : XSketch) (q : F64) :
    x.quantile env q = match x.sk.quantile env q with
      | .ok u => .ok (x.clampTo u)
      | .error e => .error e := by
  unfold quantile
  cases x.sk.quantile env q <;> rfl

end XSketch
end DDS
