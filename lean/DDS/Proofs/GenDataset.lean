/-
  DDS.Proofs.GenDataset — the REGENERATED `dataset.Dataset` (`DDS/Generated/CodeDataset.lean`,
  translated from `/repo/dataset/dataset.go` on every run) equals the HAND-WRITTEN model
  `DDS.Dataset` (`DDS/Model/Dataset.lean`), method by method, on the model's domain: datasets all
  of whose values are finite floats.

  * `toGen` embeds a model dataset (values : List Rat) into the generated structure
    (Values : List F64) by `F64.fin`; `ofGen` is its partial inverse, total on `AllFin` datasets
    (`toGen_ofGen`), so a statement `∀ d, P (toGen d)` is a statement about every generated dataset
    with finite values (`forall_gen`).
  * `sortFloat64s_fin`: on finite values Go's `sort.Float64s` order (`!float64Less b a`, NaNs
    first) is `decide (a ≤ b)`, and the two stable merge sorts produce the same list.
  * the queries return `Res (Dataset × F64)` in the generated code and `Dataset × QRes` in the
    model; `qres` is the translation (`.val v ↦ .ok (_, fin v)`, `.nan ↦ .ok (_, nan)`,
    `.panic ↦ .panic`; the state that the model still carries along a panic is dropped).
  * every generated method takes a `fuel` argument and none has a fuel-consuming loop (the two
    `range` loops recurse on the list): all theorems hold for EVERY fuel, `nofuel` is never returned
    (`qres_ne_nofuel`, `sum_eq`, `merge_eq`).

  No disagreement between the generated code and the model was found on the model's domain: all the
  equations below are unconditional in `d : DDS.Dataset`, the query `q : F64` (any float, NaN and
  infinities included) and `fuel`.

  Core Lean only.
-/
import DDS.Generated.CodeDataset
import DDS.Model.Dataset
import DDS.Proofs.GenStat

namespace DDS.GenDataset

open DDS DDS.GoSem

/-- the generated structure -/
abbrev GD := DDS.Gen.Dataset.Dataset

/-! ### the embedding -/

/-- model dataset ↦ generated dataset: finite values become `F64.fin` -/
def toGen (d : Dataset) : GD :=
  { Values := d.values.map F64.fin, Count := d.count, sorted := d.sorted }

/-- the rational of a finite float (0 elsewhere: outside the model) -/
def finVal : F64 → Rat
  | .fin q => q
  | _ => 0

/-- generated dataset ↦ model dataset; inverse of `toGen` on `AllFin` datasets -/
def ofGen (g : GD) : Dataset :=
  { values := g.Values.map finVal, count := g.Count, sorted := g.sorted }

/-- the model's domain: every stored value is a finite float -/
def AllFin (g : GD) : Prop := ∀ x ∈ g.Values, x.isFinite = true

@[simp] theorem toGen_Values (d : Dataset) : (toGen d).Values = d.values.map F64.fin := rfl
@[simp] theorem toGen_Count (d : Dataset) : (toGen d).Count = d.count := rfl
@[simp] theorem toGen_sorted (d : Dataset) : (toGen d).sorted = d.sorted := rfl

theorem finVal_fin (q : Rat) : finVal (.fin q) = q := rfl

theorem fin_finVal {x : F64} (h : x.isFinite = true) : F64.fin (finVal x) = x := by
  cases x <;> first | rfl | cases h

theorem map_finVal_map_fin (l : List Rat) : (l.map F64.fin).map finVal = l := by
  induction l with
  | nil => rfl
  | cons a l ih => simp only [List.map_cons, ih, finVal_fin]

theorem map_fin_map_finVal (l : List F64) (h : ∀ x ∈ l, x.isFinite = true) :
    (l.map finVal).map F64.fin = l := by
  induction l with
  | nil => rfl
  | cons a l ih =>
    simp only [List.map_cons]
    rw [fin_finVal (h a (List.mem_cons_self ..)), ih (fun x hx => h x (List.mem_cons_of_mem _ hx))]

theorem ofGen_toGen (d : Dataset) : ofGen (toGen d) = d := by
  cases d with | mk v c s =>
  simp only [ofGen, toGen, map_finVal_map_fin]

theorem toGen_ofGen (g : GD) (h : AllFin g) : toGen (ofGen g) = g := by
  cases g with | mk v c s =>
  simp only [ofGen, toGen, map_fin_map_finVal v h]

theorem allFin_toGen (d : Dataset) : AllFin (toGen d) := by
  intro x hx
  simp only [toGen_Values, List.mem_map] at hx
  obtain ⟨a, _, rfl⟩ := hx
  rfl

theorem toGen_injective {a b : Dataset} (h : toGen a = toGen b) : a = b := by
  have := congrArg ofGen h
  rwa [ofGen_toGen, ofGen_toGen] at this

/-- the generated datasets in the model's domain are exactly the images of model datasets -/
theorem allFin_iff (g : GD) : AllFin g ↔ ∃ d, g = toGen d :=
  ⟨fun h => ⟨ofGen g, (toGen_ofGen g h).symm⟩, fun ⟨d, e⟩ => e ▸ allFin_toGen d⟩

/-- a statement about `toGen d` for every model dataset is a statement about every generated
    dataset with finite values -/
theorem forall_gen {P : GD → Prop} (h : ∀ d : Dataset, P (toGen d)) (g : GD) (hg : AllFin g) : P g := by
  rw [← toGen_ofGen g hg]; exact h _

/-! ### `NewDataset`, `Add` -/

theorem new_eq : Gen.Dataset.NewDataset = toGen Dataset.new := rfl

theorem add_eq (d : Dataset) (v : Rat) :
    Gen.Dataset.Dataset.Add (toGen d) (.fin v) = toGen (d.add v) := by
  simp only [Gen.Dataset.Dataset.Add, toGen, Dataset.add, List.map_append, List.map_cons,
    List.map_nil, F64.one]

/-- `Add` keeps the domain -/
theorem allFin_add (g : GD) (h : AllFin g) (v : Rat) : AllFin (Gen.Dataset.Dataset.Add g (.fin v)) := by
  intro x hx
  simp only [Gen.Dataset.Dataset.Add, List.mem_append, List.mem_cons, List.not_mem_nil, or_false] at hx
  rcases hx with hx | rfl
  · exact h x hx
  · rfl

/-- a sequence of `Add`s of finite values -/
theorem foldl_add_eq (l : List Rat) (d : Dataset) :
    l.foldl (fun g v => Gen.Dataset.Dataset.Add g (.fin v)) (toGen d) = toGen (l.foldl Dataset.add d) := by
  induction l generalizing d with
  | nil => rfl
  | cons x l ih => simp only [List.foldl_cons]; rw [add_eq, ih]

/-! ### `sort` -/

/-- on finite floats the `sort.Float64s` order is `≤` -/
theorem leF_fin (a b : Rat) : (!float64Less (.fin b) (.fin a)) = decide (a ≤ b) := by
  unfold float64Less
  simp only [F64.lt, F64.isNaN, Bool.false_and, Bool.or_false]
  by_cases h : a ≤ b
  · have : ¬ b < a := Rat.not_lt.mpr h
    simp [h, this]
  · have : b < a := Rat.not_le.mp h
    simp [h, this]

/-- KEY LEMMA: `sort.Float64s` on finite floats is the model's merge sort by `≤` -/
theorem sortFloat64s_fin (l : List Rat) :
    sortFloat64s (l.map F64.fin) = (l.mergeSort (fun a b => decide (a ≤ b))).map F64.fin := by
  unfold sortFloat64s
  exact (List.map_mergeSort (s := fun a b : F64 => !float64Less b a)
    (fun a _ b _ => (leF_fin a b).symm)).symm

theorem sort_eq (d : Dataset) : Gen.Dataset.Dataset.sort (toGen d) = toGen d.sort := by
  unfold Gen.Dataset.Dataset.sort Dataset.sort
  cases hs : d.sorted
  · simp only [toGen_sorted, hs, Bool.false_eq_true, if_false, toGen_Values, sortFloat64s_fin]
    simp only [toGen, hs]
  · simp only [toGen_sorted, hs, if_true]

theorem allFin_sort (g : GD) (h : AllFin g) : AllFin (Gen.Dataset.Dataset.sort g) := by
  obtain ⟨d, rfl⟩ := (allFin_iff g).mp h
  rw [sort_eq]; exact allFin_toGen _

/-! ### results of queries -/

/-- the generated reading of a model answer -/
def qres : Dataset × Dataset.QRes → Res (GD × F64)
  | (d, .nan) => .ok (toGen d, .nan)
  | (d, .val v) => .ok (toGen d, .fin v)
  | (_, .panic) => .panic

theorem qres_nan {p : Dataset × Dataset.QRes} (h : p.2 = .nan) : qres p = .ok (toGen p.1, .nan) := by
  obtain ⟨d, r⟩ := p; cases h; rfl

theorem qres_val {p : Dataset × Dataset.QRes} {v : Rat} (h : p.2 = .val v) :
    qres p = .ok (toGen p.1, .fin v) := by
  obtain ⟨d, r⟩ := p; cases h; rfl

theorem qres_panic {p : Dataset × Dataset.QRes} (h : p.2 = .panic) : qres p = .panic := by
  obtain ⟨d, r⟩ := p; cases h; rfl

theorem qres_ne_nofuel (p : Dataset × Dataset.QRes) : qres p ≠ .nofuel := by
  obtain ⟨d, r⟩ := p; cases r <;> simp [qres]

theorem qres_eq_panic_iff (p : Dataset × Dataset.QRes) : qres p = .panic ↔ p.2 = .panic := by
  obtain ⟨d, r⟩ := p; cases r <;> simp [qres]

theorem qres_eq_ok_fin_iff (p : Dataset × Dataset.QRes) (g : GD) (v : Rat) :
    qres p = .ok (g, .fin v) ↔ g = toGen p.1 ∧ p.2 = .val v := by
  obtain ⟨d, r⟩ := p
  cases r <;> simp [qres, eq_comm]

theorem qres_eq_ok_nan_iff (p : Dataset × Dataset.QRes) (g : GD) :
    qres p = .ok (g, .nan) ↔ g = toGen p.1 ∧ p.2 = .nan := by
  obtain ⟨d, r⟩ := p
  cases r <;> simp [qres, eq_comm]

/-- an `.ok` answer is NaN or finite, never an infinity -/
theorem qres_ok_cases (p : Dataset × Dataset.QRes) (g : GD) (x : F64) (h : qres p = .ok (g, x)) :
    g = toGen p.1 ∧ (x = .nan ∧ p.2 = .nan ∨ ∃ v, x = .fin v ∧ p.2 = .val v) := by
  obtain ⟨d, r⟩ := p
  cases r with
  | nan => simp only [qres, Res.ok.injEq, Prod.mk.injEq] at h; exact ⟨h.1.symm, .inl ⟨h.2.symm, rfl⟩⟩
  | val v => simp only [qres, Res.ok.injEq, Prod.mk.injEq] at h; exact ⟨h.1.symm, .inr ⟨v, h.2.symm, rfl⟩⟩
  | panic => simp [qres] at h

/-- only the answer (the state dropped) -/
def ans {α β} : Res (α × β) → Res β
  | .ok p => .ok p.2
  | .panic => .panic
  | .nofuel => .nofuel

/-- the generated reading of a model answer, state dropped -/
def qans : Dataset.QRes → Res F64
  | .nan => .ok .nan
  | .val v => .ok (.fin v)
  | .panic => .panic

theorem ans_qres (p : Dataset × Dataset.QRes) : ans (qres p) = qans p.2 := by
  obtain ⟨d, r⟩ := p; cases r <;> rfl

theorem qans_injective {a b : Dataset.QRes} (h : qans a = qans b) : a = b := by
  cases a <;> cases b <;> simp [qans] at h <;> first | rfl | (rw [h])

/-! ### indexing, float → int -/

theorem idx_map_fin (l : List Rat) (i : Int) :
    idx (l.map F64.fin) i = (Dataset.at? l i).map F64.fin := by
  unfold idx Dataset.at?
  by_cases h : i < 0
  · rw [if_pos h, if_neg (by omega)]; rfl
  · rw [if_neg h, if_pos (by omega), List.getElem?_map]

/-- a checked read of the slice, the state carried along -/
theorem index_eq (d : Dataset) (i : Int) :
    optR (idx (toGen d).Values i) (fun t1 => Res.ok (toGen d, t1)) =
      qres (d, match Dataset.at? d.values i with | some v => .val v | none => .panic) := by
  rw [toGen_Values, idx_map_fin]
  cases Dataset.at? d.values i <;> rfl

/-- `int(x)` of an integral finite float is that integer (never the undefined case) -/
theorem truncToInt_intCast (n : Int) : F64.truncToInt (.fin (n : Rat)) = some n := by
  unfold F64.truncToInt
  simp only
  split
  · rw [Rat.floor_intCast]
  · rw [← Rat.intCast_neg, Rat.floor_intCast, Int.neg_neg]

theorem truncToInt_floor_fin (r : Rat) : F64.truncToInt (F64.floor (.fin r)) = some r.floor :=
  truncToInt_intCast _

theorem fceil_fin (r : Rat) : fceil (.fin r) = .fin ((r.ceil : Int) : Rat) := by
  unfold fceil
  simp only [F64.neg, F64.floor]
  rw [Rat.ceil_eq_neg_floor_neg, Rat.intCast_neg]

theorem truncToInt_fceil_fin (r : Rat) : F64.truncToInt (fceil (.fin r)) = some r.ceil := by
  rw [fceil_fin]; exact truncToInt_intCast _

theorem truncToInt_floor_nonfin (x : F64) (h : ∀ r, x ≠ .fin r) : F64.truncToInt (F64.floor x) = none := by
  cases x with
  | fin r => exact absurd rfl (h r)
  | _ => rfl

theorem truncToInt_fceil_nonfin (x : F64) (h : ∀ r, x ≠ .fin r) : F64.truncToInt (fceil x) = none := by
  cases x with
  | fin r => exact absurd rfl (h r)
  | _ => rfl

/-! ### the guard -/

theorem guard_eq (d : Dataset) (q : F64) :
    ((((F64.lt q (F64.fin (0 : Rat))) || (F64.lt (F64.fin (1 : Rat)) q)) || (F64.isNaN q)) ||
      (F64.eq (toGen d).Count (F64.fin (0 : Rat)))) = d.rejects q := by
  unfold Dataset.rejects F64.gt
  rw [toGen_Count]
  generalize F64.lt q (.fin 0) = a
  generalize F64.lt (.fin 1) q = b
  generalize F64.isNaN q = c
  generalize F64.eq d.count (.fin 0) = e
  cases a <;> cases b <;> cases c <;> cases e <;> rfl

/-! ### `LowerQuantile`, `Quantile`, `UpperQuantile` -/

theorem lower_tail (d : Dataset) (rk : F64) :
    optR (F64.truncToInt (F64.floor rk)) (fun t2 =>
      optR (idx (toGen d).Values t2) (fun t1 => Res.ok (toGen d, t1))) =
    qres (match rk with
      | .fin r => (d, match Dataset.at? d.values r.floor with | some v => .val v | none => .panic)
      | _ => (d, .panic)) := by
  cases rk with
  | fin r => rw [truncToInt_floor_fin, optR_some]; exact index_eq d _
  | _ => rfl

theorem upper_tail (d : Dataset) (rk : F64) :
    optR (F64.truncToInt (fceil rk)) (fun t2 =>
      optR (idx (toGen d).Values t2) (fun t1 => Res.ok (toGen d, t1))) =
    qres (match rk with
      | .fin r => (d, match Dataset.at? d.values r.ceil with | some v => .val v | none => .panic)
      | _ => (d, .panic)) := by
  cases rk with
  | fin r => rw [truncToInt_fceil_fin, optR_some]; exact index_eq d _
  | _ => rfl

/-- `LowerQuantile`: same guard, same sort, same float rank, same checked conversion and index -/
theorem lowerQuantile_eq (fuel : Nat) (d : Dataset) (q : F64) :
    Gen.Dataset.Dataset.LowerQuantile fuel (toGen d) q = qres (d.lowerQuantile q) := by
  unfold Gen.Dataset.Dataset.LowerQuantile Dataset.lowerQuantile
  rw [guard_eq]
  by_cases h : d.rejects q = true
  · rw [if_pos h, if_pos h]; rfl
  · rw [if_neg h, if_neg h]
    simp only [sort_eq]
    exact lower_tail d.sort (d.sort.rank q)

theorem upperQuantile_eq (fuel : Nat) (d : Dataset) (q : F64) :
    Gen.Dataset.Dataset.UpperQuantile fuel (toGen d) q = qres (d.upperQuantile q) := by
  unfold Gen.Dataset.Dataset.UpperQuantile Dataset.upperQuantile
  rw [guard_eq]
  by_cases h : d.rejects q = true
  · rw [if_pos h, if_pos h]; rfl
  · rw [if_neg h, if_neg h]
    simp only [sort_eq]
    exact upper_tail d.sort (d.sort.rank q)

/-- `Quantile` is `LowerQuantile` (for every receiver, in the domain or not) -/
theorem quantile_eq_lower (fuel : Nat) (g : GD) (q : F64) :
    Gen.Dataset.Dataset.Quantile fuel g q = Gen.Dataset.Dataset.LowerQuantile fuel g q := by
  unfold Gen.Dataset.Dataset.Quantile
  cases Gen.Dataset.Dataset.LowerQuantile fuel g q <;> rfl

theorem quantile_eq (fuel : Nat) (d : Dataset) (q : F64) :
    Gen.Dataset.Dataset.Quantile fuel (toGen d) q = qres (d.lowerQuantile q) := by
  rw [quantile_eq_lower, lowerQuantile_eq]

/-! ### `Min`, `Max` -/

theorem at?_zero (l : List Rat) : Dataset.at? l 0 = l.head? := by
  unfold Dataset.at?
  rw [if_pos (by omega), List.head?_eq_getElem?]; rfl

theorem at?_last (l : List Rat) : Dataset.at? l (len l - 1) = l.getLast? := by
  unfold Dataset.at? len
  cases l with
  | nil => rfl
  | cons a t =>
    rw [if_pos (by simp only [List.length_cons]; omega), List.getLast?_eq_getElem?]
    congr 1
    simp only [List.length_cons]; omega

theorem len_map_fin (l : List Rat) : len (l.map F64.fin) = len l := by
  unfold len; rw [List.length_map]

theorem min_eq (fuel : Nat) (d : Dataset) :
    Gen.Dataset.Dataset.Min fuel (toGen d) = qres d.min := by
  unfold Gen.Dataset.Dataset.Min Dataset.min
  simp only [sort_eq]
  rw [index_eq, at?_zero]
  rfl

theorem max_eq (fuel : Nat) (d : Dataset) :
    Gen.Dataset.Dataset.Max fuel (toGen d) = qres d.max := by
  unfold Gen.Dataset.Dataset.Max Dataset.max
  simp only [sort_eq]
  rw [toGen_Values, len_map_fin, ← toGen_Values, index_eq, at?_last]
  rfl

/-! ### `Sum` (Kahan fold through the regenerated statistics) -/

theorem sum_loop (l : List F64) (s : Gen.Stat.SummaryStatistics) :
    Gen.Dataset.Dataset.Sum.loop1 l s =
      .done (l.foldl (fun s v => Gen.Stat.SummaryStatistics.Add s v (.fin 1)) s) := by
  induction l generalizing s with
  | nil => rfl
  | cons v l ih => simp only [Gen.Dataset.Dataset.Sum.loop1, List.foldl_cons]; exact ih _

theorem stat_fold_eq (l : List Rat) (s : Gen.Stat.SummaryStatistics) :
    GenStat.toModel ((l.map F64.fin).foldl (fun s v => Gen.Stat.SummaryStatistics.Add s v (.fin 1)) s) =
      l.foldl (fun (s : Summary) v => s.add (.fin v) F64.one) (GenStat.toModel s) := by
  induction l generalizing s with
  | nil => rfl
  | cons v l ih =>
    simp only [List.map_cons, List.foldl_cons]
    rw [ih, GenStat.add_eq]; rfl

/-- `Sum()`: the loop is the model's fold, for every fuel -/
theorem sum_eq (fuel : Nat) (d : Dataset) :
    Gen.Dataset.Dataset.Sum fuel (toGen d) = .ok d.sum := by
  unfold Gen.Dataset.Dataset.Sum Dataset.sum
  simp only [sum_loop, Loop.elim_done, toGen_Values]
  rw [GenStat.sum_eq, stat_fold_eq, GenStat.new_eq]

/-! ### `Merge` -/

theorem merge_loop (l : List F64) (g : GD) :
    Gen.Dataset.Dataset.Merge.loop1 l g = .done (l.foldl Gen.Dataset.Dataset.Add g) := by
  induction l generalizing g with
  | nil => rfl
  | cons v l ih => simp only [Gen.Dataset.Dataset.Merge.loop1, List.foldl_cons]; exact ih _

/-- `Merge(o)` is `Add` of every value of `o` in order, for EVERY pair of generated datasets (finite
    or not) and every fuel -/
theorem merge_foldl (fuel : Nat) (g o : GD) :
    Gen.Dataset.Dataset.Merge fuel g o = .ok (o.Values.foldl Gen.Dataset.Dataset.Add g) := by
  unfold Gen.Dataset.Dataset.Merge
  rw [merge_loop, Loop.elim_done]

theorem merge_eq (fuel : Nat) (d o : Dataset) :
    Gen.Dataset.Dataset.Merge fuel (toGen d) (toGen o) = .ok (toGen (d.merge o)) := by
  rw [merge_foldl, toGen_Values, List.foldl_map]
  unfold Dataset.merge
  rw [← foldl_add_eq]

/-! ### fuel is irrelevant -/

/-- no method of the generated dataset looks at its fuel -/
theorem fuel_irrelevant (f₁ f₂ : Nat) (g o : GD) (q : F64) :
    Gen.Dataset.Dataset.LowerQuantile f₁ g q = Gen.Dataset.Dataset.LowerQuantile f₂ g q ∧
    Gen.Dataset.Dataset.Quantile f₁ g q = Gen.Dataset.Dataset.Quantile f₂ g q ∧
    Gen.Dataset.Dataset.UpperQuantile f₁ g q = Gen.Dataset.Dataset.UpperQuantile f₂ g q ∧
    Gen.Dataset.Dataset.Min f₁ g = Gen.Dataset.Dataset.Min f₂ g ∧
    Gen.Dataset.Dataset.Max f₁ g = Gen.Dataset.Dataset.Max f₂ g ∧
    Gen.Dataset.Dataset.Sum f₁ g = Gen.Dataset.Dataset.Sum f₂ g ∧
    Gen.Dataset.Dataset.Merge f₁ g o = Gen.Dataset.Dataset.Merge f₂ g o :=
  ⟨rfl, rfl, rfl, rfl, rfl, rfl, rfl⟩

/-- … and none of them ever runs out of it (on the domain) -/
theorem never_nofuel (fuel : Nat) (d o : Dataset) (q : F64) :
    Gen.Dataset.Dataset.LowerQuantile fuel (toGen d) q ≠ .nofuel ∧
    Gen.Dataset.Dataset.Quantile fuel (toGen d) q ≠ .nofuel ∧
    Gen.Dataset.Dataset.UpperQuantile fuel (toGen d) q ≠ .nofuel ∧
    Gen.Dataset.Dataset.Min fuel (toGen d) ≠ .nofuel ∧
    Gen.Dataset.Dataset.Max fuel (toGen d) ≠ .nofuel ∧
    Gen.Dataset.Dataset.Sum fuel (toGen d) ≠ .nofuel ∧
    Gen.Dataset.Dataset.Merge fuel (toGen d) (toGen o) ≠ .nofuel := by
  rw [lowerQuantile_eq, quantile_eq, upperQuantile_eq, min_eq, max_eq, sum_eq, merge_eq]
  exact ⟨qres_ne_nofuel _, qres_ne_nofuel _, qres_ne_nofuel _, qres_ne_nofuel _, qres_ne_nofuel _,
    by simp, by simp⟩

end DDS.GenDataset
