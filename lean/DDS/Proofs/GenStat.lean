/-
  DDS.Proofs.GenStat — the REGENERATED `stat.SummaryStatistics` (`DDS/Generated/CodeStat.lean`,
  translated from `/repo/ddsketch/stat/summary.go` on every run) equals the HAND-WRITTEN model
  `DDS.Summary` (`DDS/Model/Summary.lean`), function by function, for all inputs.

  `toModel` / `ofModel` are the field-by-field bijection between the two structures; every
  generated function commutes with it.  Hence every theorem about `DDS.Summary`
  (`DDS/Proofs/Summary.lean`, `DDS/Props/C10.lean`) is a theorem about the generated code
  (`DDS/Props/C10Gen.lean` restates the main ones).

  The only place where the two differ in *meaning* is `s.MergeWith(s)` (argument aliases the
  receiver): see the section "self merge" at the end.

  Core Lean only.
-/
import DDS.Generated.CodeStat
import DDS.Model.Summary

namespace DDS.GenStat

open DDS DDS.GoSem DDS.Gen.Stat

/-! ### the bijection -/

/-- generated structure ↦ model structure, field by field -/
def toModel (s : SummaryStatistics) : Summary :=
  { count := s.count, sum := s.sum, sumCompensation := s.sumCompensation,
    simpleSum := s.simpleSum, min := s.min, max := s.max }

/-- model structure ↦ generated structure, field by field -/
def ofModel (m : Summary) : SummaryStatistics :=
  { count := m.count, sum := m.sum, sumCompensation := m.sumCompensation,
    simpleSum := m.simpleSum, min := m.min, max := m.max }

@[simp] theorem ofModel_toModel (s : SummaryStatistics) : ofModel (toModel s) = s := rfl
@[simp] theorem toModel_ofModel (m : Summary) : toModel (ofModel m) = m := rfl

theorem toModel_injective {a b : SummaryStatistics} (h : toModel a = toModel b) : a = b := by
  have := congrArg ofModel h
  simpa using this

theorem ofModel_injective {a b : Summary} (h : ofModel a = ofModel b) : a = b := by
  have := congrArg toModel h
  simpa using this

theorem toModel_eq_iff (s : SummaryStatistics) (m : Summary) : toModel s = m ↔ s = ofModel m :=
  ⟨fun h => by rw [← h]; rfl, fun h => by rw [h]; rfl⟩

@[simp] theorem toModel_count (s : SummaryStatistics) : (toModel s).count = s.count := rfl
@[simp] theorem toModel_sum (s : SummaryStatistics) : (toModel s).sum = s.sum := rfl
@[simp] theorem toModel_sumCompensation (s : SummaryStatistics) :
    (toModel s).sumCompensation = s.sumCompensation := rfl
@[simp] theorem toModel_simpleSum (s : SummaryStatistics) : (toModel s).simpleSum = s.simpleSum := rfl
@[simp] theorem toModel_min (s : SummaryStatistics) : (toModel s).min = s.min := rfl
@[simp] theorem toModel_max (s : SummaryStatistics) : (toModel s).max = s.max := rfl

theorem toModel_ite (c : Prop) [Decidable c] (a b : SummaryStatistics) :
    toModel (if c then a else b) = if c then toModel a else toModel b := by
  split <;> rfl

/-! ### small facts about the Go-semantics prelude -/

theorem inf_pos : GoSem.inf (1 : Int) = F64.pinf := by decide
theorem inf_neg : GoSem.inf (-1 : Int) = F64.ninf := by decide

theorem isInf_zero (x : F64) : GoSem.isInf x (0 : Int) = (x == F64.pinf || x == F64.ninf) := by
  unfold GoSem.isInf
  simp

theorem eq_pinf (x : F64) : F64.eq x F64.pinf = (x == F64.pinf) := by
  cases x <;> simp [F64.eq]

theorem eq_ninf (x : F64) : F64.eq x F64.ninf = (x == F64.ninf) := by
  cases x <;> simp [F64.eq]

theorem ne_pinf (x : F64) : F64.ne x F64.pinf = (x != F64.pinf) := by
  unfold F64.ne; rw [eq_pinf]; rfl

theorem ne_ninf (x : F64) : F64.ne x F64.ninf = (x != F64.ninf) := by
  unfold F64.ne; rw [eq_ninf]; rfl

/-! ### constructors -/

theorem new_eq : toModel NewSummaryStatistics = Summary.new := by
  unfold NewSummaryStatistics Summary.new toModel
  simp only [inf_pos, inf_neg]

/-- the relation between the model's `Option Summary` and the generated `(struct, error)` pair:
    `none` ⇔ error ≠ nil; `some m` ⇔ the struct maps to `m` and the error is nil -/
def FromDataRel : Option Summary → SummaryStatistics × GoErr → Prop
  | none, r => r.2 ≠ GoErr.nil
  | some m, r => toModel r.1 = m ∧ r.2 = GoErr.nil

/-- `NewSummaryStatisticsFromData`: the generated function and the model take the same branch.
    Error ≠ nil exactly when the model returns `none`; otherwise the structures correspond. -/
theorem fromData_rel (count sum min max : F64) :
    FromDataRel (Summary.fromData count sum min max)
      (NewSummaryStatisticsFromData count sum min max) := by
  unfold NewSummaryStatisticsFromData Summary.fromData
  simp only [inf_pos, inf_neg, ne_pinf, ne_ninf, F64.ge, F64.gt]
  by_cases h1 : F64.le (.fin 0) count = true
  · by_cases h2 : (F64.lt (.fin 0) count && F64.lt max min) = true
    · simp [h1, h2, FromDataRel]
    · by_cases h3 : (F64.eq count (.fin 0) && (min != .pinf || max != .ninf)) = true
      · simp [h1, h2, h3, FromDataRel]
      · simp [h1, h2, h3, FromDataRel, toModel]
  · simp [h1, FromDataRel]

/-- the same, spelled out with a `match` -/
theorem fromData_eq (count sum min max : F64) :
    match Summary.fromData count sum min max with
    | none => (NewSummaryStatisticsFromData count sum min max).2 ≠ GoErr.nil
    | some m => toModel (NewSummaryStatisticsFromData count sum min max).1 = m ∧
                (NewSummaryStatisticsFromData count sum min max).2 = GoErr.nil := by
  have h := fromData_rel count sum min max
  cases hm : Summary.fromData count sum min max with
  | none => rw [hm] at h; exact h
  | some m => rw [hm] at h; exact h

theorem fromData_none_iff (count sum min max : F64) :
    Summary.fromData count sum min max = none ↔
      (NewSummaryStatisticsFromData count sum min max).2 ≠ GoErr.nil := by
  have h := fromData_eq count sum min max
  cases hm : Summary.fromData count sum min max with
  | none => rw [hm] at h; exact ⟨fun _ => h, fun _ => rfl⟩
  | some m =>
    rw [hm] at h
    exact ⟨fun e => (by cases e), fun e => absurd h.2 e⟩

theorem fromData_some (count sum min max : F64) (m : Summary)
    (hm : Summary.fromData count sum min max = some m) :
    NewSummaryStatisticsFromData count sum min max = (ofModel m, GoErr.nil) := by
  have h := fromData_eq count sum min max
  rw [hm] at h
  have h1 := (toModel_eq_iff _ _).mp h.1
  exact Prod.ext h1 h.2

/-- the converse direction: a nil error comes with the model's answer -/
theorem fromData_of_nil (count sum min max : F64)
    (h : (NewSummaryStatisticsFromData count sum min max).2 = GoErr.nil) :
    Summary.fromData count sum min max =
      some (toModel (NewSummaryStatisticsFromData count sum min max).1) := by
  have h' := fromData_eq count sum min max
  cases hm : Summary.fromData count sum min max with
  | none => rw [hm] at h'; exact absurd h h'
  | some m => rw [hm] at h'; rw [h'.1]

/-! ### getters -/

theorem count_eq (s : SummaryStatistics) : SummaryStatistics.Count s = (toModel s).count := rfl
theorem min_eq (s : SummaryStatistics) : SummaryStatistics.Min s = (toModel s).min := rfl
theorem max_eq (s : SummaryStatistics) : SummaryStatistics.Max s = (toModel s).max := rfl

theorem sum_eq (s : SummaryStatistics) : SummaryStatistics.Sum s = (toModel s).getSum := by
  unfold SummaryStatistics.Sum Summary.getSum
  simp only [isInf_zero, toModel_sum, toModel_sumCompensation, toModel_simpleSum]
  rfl

/-! ### updates

  Proof pattern: open the structure, case on the Boolean conditions the code tests, and let `simp`
  evaluate both sides. -/

theorem sumWithCompensation_eq (s : SummaryStatistics) (v : F64) :
    toModel (SummaryStatistics.sumWithCompensation s v) = (toModel s).sumWithCompensation v := rfl

theorem addToCount_eq (s : SummaryStatistics) (a : F64) :
    toModel (SummaryStatistics.AddToCount s a) = (toModel s).addToCount a := rfl

theorem addToSum_eq (s : SummaryStatistics) (a : F64) :
    toModel (SummaryStatistics.AddToSum s a) = (toModel s).addToSum a := rfl

theorem add_eq (s : SummaryStatistics) (v c : F64) :
    toModel (SummaryStatistics.Add s v c) = (toModel s).add v c := by
  cases s with | mk cn sm sc ss mn mx
  cases h1 : F64.lt v mn <;> cases h2 : F64.lt mx v <;>
  simp [SummaryStatistics.Add, SummaryStatistics.AddToCount, SummaryStatistics.AddToSum,
    SummaryStatistics.sumWithCompensation, Summary.add, Summary.addToCount, Summary.addToSum,
    Summary.sumWithCompensation, toModel, h1, h2]

theorem mergeWith_eq (s o : SummaryStatistics) :
    toModel (SummaryStatistics.MergeWith s o) = (toModel s).mergeWith (toModel o) := by
  cases s with | mk cn sm sc ss mn mx
  cases o with | mk cn' sm' sc' ss' mn' mx'
  cases h1 : F64.lt mn' mn <;> cases h2 : F64.lt mx mx' <;>
  simp [SummaryStatistics.MergeWith, SummaryStatistics.sumWithCompensation, Summary.mergeWith,
    Summary.sumWithCompensation, toModel, h1, h2]

theorem reweight_eq (s : SummaryStatistics) (f : F64) :
    toModel (SummaryStatistics.Reweight s f) = (toModel s).reweight f := by
  cases s with | mk cn sm sc ss mn mx
  cases h1 : F64.eq f (.fin 0) <;>
  simp [SummaryStatistics.Reweight, Summary.reweight, toModel, h1, inf_pos, inf_neg]

theorem rescale_eq (s : SummaryStatistics) (f : F64) :
    toModel (SummaryStatistics.Rescale s f) = (toModel s).rescale f := by
  cases s with | mk cn sm sc ss mn mx
  cases h1 : F64.lt (.fin 0) f <;> cases h2 : F64.lt f (.fin 0) <;> cases h3 : F64.ne cn (.fin 0) <;>
  simp [SummaryStatistics.Rescale, Summary.rescale, toModel, h1, h2, h3]

theorem clear_eq (s : SummaryStatistics) :
    toModel (SummaryStatistics.Clear s) = (toModel s).clear := by
  unfold SummaryStatistics.Clear Summary.clear Summary.new toModel
  simp only [inf_pos, inf_neg]

theorem copy_eq (s : SummaryStatistics) : SummaryStatistics.Copy s = s := rfl

theorem copy_toModel (s : SummaryStatistics) : toModel (SummaryStatistics.Copy s) = toModel s := rfl

/-! ### the same equations read from the model side (`ofModel`) -/

theorem add_ofModel (m : Summary) (v c : F64) :
    SummaryStatistics.Add (ofModel m) v c = ofModel (m.add v c) :=
  toModel_injective (by rw [add_eq]; rfl)

theorem mergeWith_ofModel (m o : Summary) :
    SummaryStatistics.MergeWith (ofModel m) (ofModel o) = ofModel (m.mergeWith o) :=
  toModel_injective (by rw [mergeWith_eq]; rfl)

theorem reweight_ofModel (m : Summary) (f : F64) :
    SummaryStatistics.Reweight (ofModel m) f = ofModel (m.reweight f) :=
  toModel_injective (by rw [reweight_eq]; rfl)

theorem rescale_ofModel (m : Summary) (f : F64) :
    SummaryStatistics.Rescale (ofModel m) f = ofModel (m.rescale f) :=
  toModel_injective (by rw [rescale_eq]; rfl)

/-! ### folds -/

/-- absorb a list of (value, weight) pairs of arbitrary floats with the generated `Add` -/
def genAddAllF (s : SummaryStatistics) (l : List (F64 × F64)) : SummaryStatistics :=
  l.foldl (fun s p => SummaryStatistics.Add s p.1 p.2) s

theorem genAddAllF_eq (s : SummaryStatistics) (l : List (F64 × F64)) :
    toModel (genAddAllF s l) = l.foldl (fun s p => s.add p.1 p.2) (toModel s) := by
  unfold genAddAllF
  induction l generalizing s with
  | nil => rfl
  | cons p r ih => simp only [List.foldl_cons]; rw [ih, add_eq]

/-- absorb a list of finite (value, weight) pairs with the generated `Add` -/
def genAddAll (s : SummaryStatistics) (l : List (Rat × Rat)) : SummaryStatistics :=
  l.foldl (fun s p => SummaryStatistics.Add s (.fin p.1) (.fin p.2)) s

theorem genAddAll_eq (s : SummaryStatistics) (l : List (Rat × Rat)) :
    toModel (genAddAll s l) = l.foldl (fun s p => s.add (.fin p.1) (.fin p.2)) (toModel s) := by
  unfold genAddAll
  induction l generalizing s with
  | nil => rfl
  | cons p r ih => simp only [List.foldl_cons]; rw [ih, add_eq]

/-! ### self merge

  In Go, `s.MergeWith(s)` passes the receiver as the argument: `o` ALIASES `s`, so
  `o.sumCompensation` in the second `sumWithCompensation` call is read AFTER the first call has
  overwritten it.  The model has a separate definition `Summary.mergeWithSelf` for that.  The
  generated `MergeWith s o` is a pure function of two values (`GoSem`: "aliasing is not modelled"),
  so `MergeWith s s` is `Summary.mergeWith m m`, which reads the OLD compensation in the second
  call.  Precisely:

  * `mergeWith_self_eq`     : `toModel (MergeWith s s) = (toModel s).mergeWith (toModel s)`;
  * `mergeWith_self_fields` : it agrees with `mergeWithSelf` on count, simpleSum, min, max;
  * `mergeWith_self_ne`     : it does NOT agree on (sum, sumCompensation) in general — concrete
     input sum = 1, sumCompensation = 2^-60: the aliased Go code ends with compensation 0,
     the functional reading with −2^-60;
  * `genMergeWithSelf_eq`   : the aliased behaviour written with the generated pieces
     (`sumWithCompensation` called on the CURRENT state) is `mergeWithSelf`;
  * `mergeWith_self_agree`  : both agree whenever the first compensated addition leaves the
     compensation unchanged (in particular for every exact summary, compensation 0, with exact sum
     — the case of `C10`).

  So the functional translation of `MergeWith` is NOT evidence for `mergeWithSelf`; that definition
  stays tied to the Go source only through the differential tests of C10Self. -/

theorem mergeWith_self_eq (s : SummaryStatistics) :
    toModel (SummaryStatistics.MergeWith s s) = (toModel s).mergeWith (toModel s) :=
  mergeWith_eq s s

theorem lt_irrefl (a : F64) : F64.lt a a = false := by
  cases a <;> simp [F64.lt, Rat.lt_irrefl]

theorem mergeWith_self_fields (m : Summary) :
    (m.mergeWith m).count = m.mergeWithSelf.count ∧
    (m.mergeWith m).simpleSum = m.mergeWithSelf.simpleSum ∧
    (m.mergeWith m).min = m.mergeWithSelf.min ∧
    (m.mergeWith m).max = m.mergeWithSelf.max := by
  cases m
  simp [Summary.mergeWith, Summary.mergeWithSelf, Summary.sumWithCompensation, lt_irrefl]

/-- the witness: sum 1, compensation 2^-60 -/
def selfWitness : SummaryStatistics :=
  { count := .fin 1, sum := .fin 1, sumCompensation := .fin (1 / 1152921504606846976),
    simpleSum := .fin 1, min := .fin 1, max := .fin 1 }

theorem mergeWith_self_ne :
    (toModel (SummaryStatistics.MergeWith selfWitness selfWitness)).sumCompensation
        = .fin (-1 / 1152921504606846976) ∧
    (toModel selfWitness).mergeWithSelf.sumCompensation = .fin 0 ∧
    toModel (SummaryStatistics.MergeWith selfWitness selfWitness)
        ≠ (toModel selfWitness).mergeWithSelf := by
  refine ⟨by decide +kernel, by decide +kernel, by decide +kernel⟩

/-- `s.MergeWith(s)` with the aliasing made explicit, from the generated pieces: each read of
    `o.f` is a read of the CURRENT receiver -/
def genMergeWithSelf (s : SummaryStatistics) : SummaryStatistics :=
  let s := { s with count := F64.add s.count s.count }
  let s := SummaryStatistics.sumWithCompensation s s.sum
  let s := SummaryStatistics.sumWithCompensation s s.sumCompensation
  let s := { s with simpleSum := F64.add s.simpleSum s.simpleSum }
  let s := if F64.lt s.min s.min then { s with min := s.min } else s
  let s := if F64.lt s.max s.max then { s with max := s.max } else s
  s

theorem genMergeWithSelf_eq (s : SummaryStatistics) :
    toModel (genMergeWithSelf s) = (toModel s).mergeWithSelf := by
  unfold genMergeWithSelf Summary.mergeWithSelf
  simp only [lt_irrefl, Bool.false_eq_true, if_false]
  rfl

/-- the functional and the aliased reading agree when the first compensated addition does not
    change the compensation -/
theorem mergeWith_self_agree (m : Summary)
    (h : (m.sumWithCompensation m.sum).sumCompensation = m.sumCompensation) :
    m.mergeWith m = m.mergeWithSelf := by
  cases m with | mk cn sm sc ss mn mx
  simp only [Summary.sumWithCompensation] at h
  simp [Summary.mergeWith, Summary.mergeWithSelf, Summary.sumWithCompensation, lt_irrefl, h]

example : ((toModel NewSummaryStatistics).sumWithCompensation (toModel NewSummaryStatistics).sum).sumCompensation
    = (toModel NewSummaryStatistics).sumCompensation := by decide +kernel

end DDS.GenStat
