/-
  DDS.Proofs.Rebin — lemmas for property C17 (`ChangeMapping`): re-binning a histogram from one
  bin grid onto another.

  Part A: the transcribed float loop `ChangeMapping.spreadBin` for ALL floats (sign of the weights,
          real overlap of the visited bins).
  Part B: the ideal re-binning over a linear ordered field.
  Part C: `spreadBin` under exact float operations = the ideal re-binning.
-/
import DDS.Proofs.Num
import DDS.Model.ChangeMapping
import Mathlib.Algebra.BigOperators.Intervals
import Mathlib.Algebra.BigOperators.Ring.Finset
import Mathlib.Data.Int.Interval
import Mathlib.Data.Int.SuccPred
import Mathlib.Data.Int.LeastGreatest
import Mathlib.Data.Int.Log
import Mathlib.Algebra.Order.Interval.Finset.SuccPred
import Mathlib.Algebra.Order.Field.Basic
import Mathlib.Algebra.Order.BigOperators.Group.List
import Mathlib.Tactic.Linarith
import Mathlib.Tactic.Ring
import Mathlib.Tactic.FieldSimp
import Mathlib.Tactic.Positivity
import Mathlib.Tactic.NormNum
import Mathlib.Tactic.IntervalCases

set_option linter.unusedVariables false
set_option linter.unusedSectionVars false
set_option linter.unnecessarySeqFocus false

namespace DDS
namespace Rebin

open ChangeMapping

/-! ## Part A — the float loop, for all floats -/

/-- the float intersection length of target bin `j` with `[inLow, inHigh)` as the loop computes it -/
def fInter (new : MapEnv) (inLow inHigh : F64) (j : Int) : F64 :=
  F64.sub (fminG (new.lowerBound (j + 1)) inHigh) (fmaxG (new.lowerBound j) inLow)

/-- the float weight the loop gives to target bin `j` -/
def fWeight (new : MapEnv) (inLow inHigh count : F64) (j : Int) : F64 :=
  F64.mul (F64.div (fInter new inLow inHigh j) (F64.sub inHigh inLow)) count

/-- structure of the output of the loop, for all floats and any oracle -/
theorem spreadBin_mem (new : MapEnv) (inLow inHigh count : F64) :
    ∀ (fuel : Nat) (j0 : Int) (j : Int) (w : F64),
      (j, w) ∈ spreadBin new inLow inHigh count fuel j0 →
      j0 ≤ j ∧ j < j0 + fuel ∧ F64.lt (new.lowerBound j) inHigh = true ∧
        F64.le (fInter new inLow inHigh j) (.fin 0) = false ∧
        w = fWeight new inLow inHigh count j := by
  intro fuel
  induction fuel with
  | zero => intro j0 j w h; simp [spreadBin] at h
  | succ n ih =>
    intro j0 j w h
    rw [spreadBin] at h
    split at h
    · rename_i hlt
      simp only at h
      split at h
      · obtain ⟨h1, h2, h3⟩ := ih _ _ _ h
        exact ⟨by omega, by push_cast; omega, h3⟩
      · rename_i hle
        rcases List.mem_cons.mp h with h | h
        · obtain ⟨rfl, rfl⟩ := Prod.mk.inj h
          refine ⟨le_rfl, by push_cast; omega, hlt, ?_, rfl⟩
          simpa [fInter] using hle
        · obtain ⟨h1, h2, h3⟩ := ih _ _ _ h
          exact ⟨by omega, by push_cast; omega, h3⟩
    · simp at h

/-! ### `fminG` / `fmaxG` -/

theorem fminG_fin {oh ih : F64} {h : Rat} (e : fminG oh ih = .fin h) :
    (ih = .pinf ∨ ∃ b, ih = .fin b ∧ h ≤ b) ∧ (oh = .pinf ∨ ∃ b, oh = .fin b ∧ h ≤ b) := by
  cases oh <;> cases ih <;> simp [fminG, F64.isNaN, F64.lt] at e ⊢
  all_goals first
    | (subst e; exact le_rfl)
    | (split_ifs at e with hlt <;> injection e with e <;> subst e <;>
        first
          | exact ⟨hlt.le, le_rfl⟩ | exact ⟨le_rfl, hlt.le⟩
          | exact ⟨not_lt.mp hlt, le_rfl⟩)

theorem fminG_pinf {oh ih : F64} (e : fminG oh ih = .pinf) : ih = .pinf ∧ oh = .pinf := by
  cases oh <;> cases ih <;> simp [fminG, F64.isNaN, F64.lt] at e ⊢
  split_ifs at e

theorem fmaxG_fin {ol il : F64} {l : Rat} (e : fmaxG ol il = .fin l) :
    (il = .ninf ∨ ∃ a, il = .fin a ∧ a ≤ l) ∧ (ol = .ninf ∨ ∃ a, ol = .fin a ∧ a ≤ l) := by
  cases ol <;> cases il <;> simp [fmaxG, F64.isNaN, F64.lt] at e ⊢
  all_goals first
    | (subst e; exact le_rfl)
    | (split_ifs at e with hlt <;> injection e with e <;> subst e <;>
        first
          | exact ⟨hlt.le, le_rfl⟩ | exact ⟨le_rfl, hlt.le⟩
          | exact ⟨not_lt.mp hlt, le_rfl⟩)

theorem fmaxG_ninf {ol il : F64} (e : fmaxG ol il = .ninf) : il = .ninf ∧ ol = .ninf := by
  cases ol <;> cases il <;> simp [fmaxG, F64.isNaN, F64.lt] at e ⊢
  split_ifs at e

/-! ### one iteration of the loop -/

theorem rv_pos_imp {x : Rat} (h : 0 < F64.rv x) : 0 < x := by
  by_contra hc; exact absurd (F64.rv_nonpos (not_lt.mp hc)) (not_le.mpr h)

theorem sub_fin_fin (h l : Rat) : F64.sub (.fin h) (.fin l) = F64.roundF64 (h - l) := by
  show F64.roundF64 (h + -l) = _
  rw [sub_eq_add_neg]

/-- a float subtraction of finite numbers that is not `≤ 0` is `+∞` or a positive number -/
theorem sub_not_le_zero {h l : Rat} (hle : F64.le (F64.sub (.fin h) (.fin l)) (.fin 0) = false) :
    0 < F64.rv (h - l) ∧
    ((pow2 1024 ≤ F64.rv (h - l) ∧ F64.sub (.fin h) (.fin l) = .pinf) ∨
      F64.sub (.fin h) (.fin l) = .fin (F64.rv (h - l))) := by
  have hp := pow2_pos 1024
  rw [sub_fin_fin, F64.roundF64_eq] at hle ⊢
  split_ifs at hle ⊢ with h1 h2
  · exact ⟨by linarith, Or.inl ⟨h1, rfl⟩⟩
  · simp [F64.le, F64.lt] at hle
  · simp only [F64.le, F64.lt, F64.eq, Bool.or_eq_false_iff, decide_eq_false_iff_not,
      beq_eq_false_iff_ne] at hle
    exact ⟨lt_of_le_of_ne (not_lt.mp hle.1) (Ne.symm hle.2), Or.inr rfl⟩

theorem rv_one : F64.rv 1 = 1 := by
  have := F64.rv_int 1 (by norm_num); simpa using this

theorem inter_fin_case {h l : Rat} {ih il oh : F64}
    (hih : ih = .pinf ∨ ∃ b, ih = .fin b ∧ h ≤ b) (hoh : oh = .pinf ∨ ∃ b, oh = .fin b ∧ h ≤ b)
    (hil : il = .ninf ∨ ∃ a, il = .fin a ∧ a ≤ l)
    (hle : F64.le (F64.sub (.fin h) (.fin l)) (.fin 0) = false) :
    F64.lt il oh = true ∧
      (F64.div (F64.sub (.fin h) (.fin l)) (F64.sub ih il) = .nan ∨
        ∃ q, F64.div (F64.sub (.fin h) (.fin l)) (F64.sub ih il) = .fin q ∧ 0 ≤ q ∧ q ≤ 1) := by
  obtain ⟨hpos, hcase⟩ := sub_not_le_zero hle
  have hhl : l < h := by linarith [rv_pos_imp hpos]
  have hp := pow2_pos 1024
  constructor
  · rcases hil with rfl | ⟨a, rfl, ha⟩ <;> rcases hoh with rfl | ⟨b, rfl, hb⟩ <;>
      simp [F64.lt] <;> linarith
  · rcases hih with rfl | ⟨b, rfl, hb⟩
    · have hs : F64.sub .pinf il = .pinf := by
        rcases hil with rfl | ⟨a, rfl, ha⟩ <;> rfl
      rw [hs]
      rcases hcase with ⟨_, e⟩ | e <;> rw [e]
      · left; rfl
      · right; exact ⟨0, rfl, le_rfl, by norm_num⟩
    · rcases hil with rfl | ⟨a, rfl, ha⟩
      · have hs : F64.sub (.fin b) .ninf = .pinf := rfl
        rw [hs]
        rcases hcase with ⟨_, e⟩ | e <;> rw [e]
        · left; rfl
        · right; exact ⟨0, rfl, le_rfl, by norm_num⟩
      · have hmono : F64.rv (h - l) ≤ F64.rv (b - a) := F64.rv_mono (by linarith)
        rw [sub_fin_fin b a, F64.roundF64_eq]
        rcases hcase with ⟨hbig, e⟩ | e <;> rw [e]
        · rw [if_pos (le_trans hbig hmono)]; left; rfl
        · split_ifs with h1 h2
          · right; exact ⟨0, rfl, le_rfl, by norm_num⟩
          · exfalso; linarith
          · have hs : 0 < F64.rv (b - a) := lt_of_lt_of_le hpos hmono
            have hq0 : 0 ≤ F64.rv (h - l) / F64.rv (b - a) := div_nonneg hpos.le hs.le
            have hq1 : F64.rv (h - l) / F64.rv (b - a) ≤ 1 := (div_le_one hs).mpr hmono
            obtain ⟨hfin, habs⟩ := F64.roundF64_fin_of_abs_le rv_one
              (by rw [← pow2_zero]; exact pow2_strictMono (by norm_num))
              (x := F64.rv (h - l) / F64.rv (b - a)) (by rw [abs_of_nonneg hq0]; exact hq1)
            right
            refine ⟨F64.rv (F64.rv (h - l) / F64.rv (b - a)), ?_, F64.rv_nonneg hq0,
              (abs_le.mp habs).2⟩
            show (if F64.rv (b - a) = 0 then F64.nan else _) = _
            rw [if_neg hs.ne']; exact hfin

/-- One iteration, for ALL floats: if the intersection is not `≤ 0` then either it is NaN, or the
    two bins really overlap (`inLow < outHigh`) and the proportion is NaN or in `[0, 1]`. -/
theorem iter_cases (oh ih ol il : F64)
    (hle : F64.le (F64.sub (fminG oh ih) (fmaxG ol il)) (.fin 0) = false) :
    F64.sub (fminG oh ih) (fmaxG ol il) = .nan ∨
      (F64.lt il oh = true ∧
        (F64.div (F64.sub (fminG oh ih) (fmaxG ol il)) (F64.sub ih il) = .nan ∨
          ∃ q, F64.div (F64.sub (fminG oh ih) (fmaxG ol il)) (F64.sub ih il) = .fin q ∧
            0 ≤ q ∧ q ≤ 1)) := by
  generalize hH : fminG oh ih = H at hle ⊢
  generalize hL : fmaxG ol il = L at hle ⊢
  cases H <;> cases L
  case fin.fin h l =>
    right
    obtain ⟨h1, h2⟩ := fminG_fin hH
    obtain ⟨h3, _⟩ := fmaxG_fin hL
    exact inter_fin_case h1 h2 h3 hle
  case fin.ninf h =>
    right
    obtain ⟨h1, h2⟩ := fminG_fin hH
    obtain ⟨rfl, _⟩ := fmaxG_ninf hL
    constructor
    · rcases h2 with rfl | ⟨b, rfl, hb⟩ <;> rfl
    · left; rcases h1 with rfl | ⟨b, rfl, hb⟩ <;> rfl
  case pinf.fin l =>
    right
    obtain ⟨rfl, rfl⟩ := fminG_pinf hH
    obtain ⟨h3, _⟩ := fmaxG_fin hL
    rcases h3 with rfl | ⟨a, rfl, ha⟩
    · exact ⟨rfl, Or.inl rfl⟩
    · exact ⟨rfl, Or.inl rfl⟩
  case pinf.ninf =>
    right
    obtain ⟨rfl, rfl⟩ := fminG_pinf hH
    obtain ⟨rfl, _⟩ := fmaxG_ninf hL
    exact ⟨rfl, Or.inl rfl⟩
  all_goals first
    | (left; rfl)
    | (exfalso; revert hle; decide)
    | (exfalso; simp [F64.sub, F64.neg, F64.add, F64.le, F64.lt, F64.eq] at hle)

/-! ### consequences for the whole loop, ALL floats -/

theorem div_nan_left (y : F64) : F64.div .nan y = .nan := by cases y <;> rfl
theorem mul_nan_left (y : F64) : F64.mul .nan y = .nan := by cases y <;> rfl

theorem mul_not_neg {p count : F64} (hp : p = .nan ∨ ∃ q, p = .fin q ∧ 0 ≤ q ∧ q ≤ 1)
    (hc : F64.lt count (.fin 0) = false) : F64.lt (F64.mul p count) (.fin 0) = false := by
  rcases hp with rfl | ⟨q, rfl, hq0, hq1⟩
  · rw [mul_nan_left]; rfl
  · cases count with
    | fin c =>
      have hc0 : 0 ≤ c := by simpa [F64.lt] using hc
      have hp := pow2_pos 1024
      have hnn := F64.rv_nonneg (mul_nonneg hq0 hc0)
      show F64.lt (F64.roundF64 (q * c)) (.fin 0) = false
      rw [F64.roundF64_eq]
      split_ifs with h1 h2
      · rfl
      · exfalso; linarith
      · simpa [F64.lt] using hnn
    | pinf =>
      show F64.lt (if 0 < q then F64.pinf else if q < 0 then .ninf else .nan) _ = false
      split_ifs with h1 h2
      · rfl
      · exfalso; linarith
      · rfl
    | ninf => simp [F64.lt] at hc
    | nan => rfl

/-- **never a bin of negative weight** — for ALL floats (NaN and infinities included), any oracle
    `new`, any `count` that is not negative: no weight produced by the loop is `< 0`. -/
theorem spreadBin_weights_not_neg (new : MapEnv) (inLow inHigh count : F64)
    (hc : F64.lt count (.fin 0) = false) (fuel : Nat) (j0 j : Int) (w : F64)
    (hmem : (j, w) ∈ spreadBin new inLow inHigh count fuel j0) :
    F64.lt w (.fin 0) = false := by
  obtain ⟨_, _, _, hle, rfl⟩ := spreadBin_mem new inLow inHigh count fuel j0 j w hmem
  unfold fWeight
  unfold fInter at hle ⊢
  rcases iter_cases _ _ _ _ hle with e | ⟨_, hp⟩
  · rw [e, div_nan_left, mul_nan_left]; rfl
  · exact mul_not_neg hp hc

/-- **only to overlapping bins** — for ALL floats: every index `j` produced has
    `lowerBound j < inHigh`, and `inLow < lowerBound (j+1)` unless the weight is NaN. -/
theorem spreadBin_indexes_overlap (new : MapEnv) (inLow inHigh count : F64)
    (fuel : Nat) (j0 j : Int) (w : F64)
    (hmem : (j, w) ∈ spreadBin new inLow inHigh count fuel j0) :
    F64.lt (new.lowerBound j) inHigh = true ∧
      (w = .nan ∨ F64.lt inLow (new.lowerBound (j + 1)) = true) := by
  obtain ⟨_, _, hlt, hle, rfl⟩ := spreadBin_mem new inLow inHigh count fuel j0 j w hmem
  refine ⟨hlt, ?_⟩
  unfold fWeight
  unfold fInter at hle ⊢
  rcases iter_cases _ _ _ _ hle with e | ⟨h, _⟩
  · left; rw [e, div_nan_left, mul_nan_left]
  · right; exact h

/-! ### finite inputs -/

theorem fminG_nan {x y : F64} (e : fminG x y = .nan) : x.isNaN = true ∨ y.isNaN = true := by
  cases x <;> cases y <;> simp [fminG, F64.isNaN] at e ⊢ <;> split_ifs at e

theorem fmaxG_nan {x y : F64} (e : fmaxG x y = .nan) : x.isNaN = true ∨ y.isNaN = true := by
  cases x <;> cases y <;> simp [fmaxG, F64.isNaN] at e ⊢ <;> split_ifs at e

/-- with finite `inLow = a`, `inHigh = b`, a finite float size `s = fl(b − a)` and non-NaN bounds
    of the target bin, an intersection that is not `≤ 0` is a positive finite float `x ≤ s`,
    the bounds of the intersection are finite and `inLow < outHigh` -/
theorem iter_fin {oh ol : F64} {a b s : Rat} (hoh : oh.isNaN = false) (hol : ol.isNaN = false)
    (hs : F64.sub (.fin b) (.fin a) = .fin s)
    (hle : F64.le (F64.sub (fminG oh (.fin b)) (fmaxG ol (.fin a))) (.fin 0) = false) :
    ∃ h l, fminG oh (.fin b) = .fin h ∧ fmaxG ol (.fin a) = .fin l ∧ l < h ∧
      F64.sub (fminG oh (.fin b)) (fmaxG ol (.fin a)) = .fin (F64.rv (h - l)) ∧
      0 < F64.rv (h - l) ∧ F64.rv (h - l) ≤ s ∧ F64.lt (.fin a) oh = true := by
  generalize hH : fminG oh (.fin b) = H at hle ⊢
  generalize hL : fmaxG ol (.fin a) = L at hle ⊢
  cases H <;> cases L
  case fin.fin h l =>
    obtain ⟨h1, h2⟩ := fminG_fin hH
    obtain ⟨h3, _⟩ := fmaxG_fin hL
    have hb : h ≤ b := by
      rcases h1 with e | ⟨b', e, hb'⟩
      · cases e
      · cases e; exact hb'
    have ha : a ≤ l := by
      rcases h3 with e | ⟨a', e, ha'⟩
      · cases e
      · cases e; exact ha'
    obtain ⟨hpos, hcase⟩ := sub_not_le_zero hle
    have hhl : l < h := by linarith [rv_pos_imp hpos]
    have hmono : F64.rv (h - l) ≤ F64.rv (b - a) := F64.rv_mono (by linarith)
    rw [sub_fin_fin] at hs
    obtain ⟨hs1, _, hs3⟩ := F64.roundF64_fin_iff.mp hs
    refine ⟨h, l, rfl, rfl, hhl, ?_, hpos, by rw [hs1]; exact hmono, ?_⟩
    · rcases hcase with ⟨hbig, _⟩ | e
      · exfalso; linarith
      · exact e
    · rcases h2 with rfl | ⟨b', rfl, hb'⟩
      · rfl
      · simp only [F64.lt, decide_eq_true_eq]; linarith
  case nan.fin | nan.pinf | nan.ninf | nan.nan =>
    rcases fminG_nan hH with e | e
    · rw [hoh] at e; cases e
    · cases e
  case fin.nan | pinf.nan | ninf.nan =>
    rcases fmaxG_nan hL with e | e
    · rw [hol] at e; cases e
    · cases e
  case pinf.fin | pinf.pinf | pinf.ninf => have := (fminG_pinf hH).1; cases this
  case fin.ninf | ninf.ninf => have := (fmaxG_ninf hL).1; cases this
  all_goals (exfalso; revert hle; simp [F64.sub, F64.neg, F64.add, F64.le, F64.lt, F64.eq])

theorem rv_pos_of_gt {x : Rat} (h : pow2 (-1075) < x) : 0 < F64.rv x := by
  have hx : 0 < x := lt_trans (pow2_pos _) h
  rw [F64.rv_of_pos hx]
  unfold F64.rpv
  apply mul_pos _ (pow2_pos _)
  have hy : 1 / 2 < x / pow2 (F64.quantumExp x) := by
    by_cases hn : -1022 ≤ F64.floorLog2 x
    · have h1 := F64.scaled_ge hx hn
      have h2 : pow2 0 ≤ pow2 52 := pow2_mono (by norm_num)
      rw [pow2_zero] at h2
      linarith
    · rw [F64.quantumExp_of_subnormal (not_le.mp hn), lt_div_iff₀ (pow2_pos _)]
      have : pow2 (-1074) = 2 * pow2 (-1075) := by
        rw [show (-1074 : Int) = -1075 + 1 by norm_num, pow2_succ]
      rw [this]; linarith
  have hspec := F64.roundHalfEven_spec (x / pow2 (F64.quantumExp x))
    (div_nonneg hx.le (pow2_pos _).le)
  have := (abs_le.mp hspec).1
  linarith

/-- the finite form of one visited bin: the weight is `fl(fl(x / s) · c)` with `0 < x ≤ s` -/
theorem spreadBin_mem_fin (new : MapEnv) (a b s c : Rat)
    (hnan : ∀ j, (new.lowerBound j).isNaN = false)
    (hs : F64.sub (.fin b) (.fin a) = .fin s)
    (fuel : Nat) (j0 j : Int) (w : F64)
    (hmem : (j, w) ∈ spreadBin new (.fin a) (.fin b) (.fin c) fuel j0) :
    ∃ x, fInter new (.fin a) (.fin b) j = .fin x ∧ 0 < x ∧ x ≤ s ∧
      0 ≤ F64.rv (x / s) ∧ F64.rv (x / s) ≤ 1 ∧
      w = F64.roundF64 (F64.rv (x / s) * c) ∧
      F64.lt (.fin a) (new.lowerBound (j + 1)) = true := by
  obtain ⟨_, _, hlt, hle, rfl⟩ := spreadBin_mem new _ _ _ fuel j0 j w hmem
  unfold fInter at hle
  obtain ⟨h, l, _, _, _, he, hpos, hxs, hov⟩ := iter_fin (hnan (j + 1)) (hnan j) hs hle
  have hs0 : 0 < s := lt_of_lt_of_le hpos hxs
  have hq0 : 0 ≤ F64.rv (h - l) / s := div_nonneg hpos.le hs0.le
  have hq1 : F64.rv (h - l) / s ≤ 1 := (div_le_one hs0).mpr hxs
  obtain ⟨hfin, habs⟩ := F64.roundF64_fin_of_abs_le rv_one
    (by rw [← pow2_zero]; exact pow2_strictMono (by norm_num))
    (x := F64.rv (h - l) / s) (by rw [abs_of_nonneg hq0]; exact hq1)
  refine ⟨F64.rv (h - l), he, hpos, hxs, F64.rv_nonneg hq0, (abs_le.mp habs).2, ?_, hov⟩
  unfold fWeight fInter
  rw [he, hs]
  show F64.mul (if s = 0 then F64.nan else F64.roundF64 (F64.rv (h - l) / s)) _ = _
  rw [if_neg hs0.ne', hfin]
  rfl

/-- finite inputs, non-NaN oracle, count `≥ 0`: every weight is `≥ 0` (possibly `+∞` if the count
    itself is beyond the float range), and the bins really overlap -/
theorem spreadBin_weights_nonneg (new : MapEnv) (a b s c : Rat)
    (hnan : ∀ j, (new.lowerBound j).isNaN = false)
    (hs : F64.sub (.fin b) (.fin a) = .fin s) (hc : 0 ≤ c)
    (fuel : Nat) (j0 j : Int) (w : F64)
    (hmem : (j, w) ∈ spreadBin new (.fin a) (.fin b) (.fin c) fuel j0) :
    F64.le (.fin 0) w = true := by
  obtain ⟨x, _, _, _, hq0, _, rfl, _⟩ := spreadBin_mem_fin new a b s c hnan hs fuel j0 j w hmem
  have hp := pow2_pos 1024
  have hnn := F64.rv_nonneg (mul_nonneg hq0 hc)
  rw [F64.roundF64_eq]
  split_ifs with h1 h2
  · rfl
  · exfalso; linarith
  · simp only [F64.le, F64.lt, F64.eq, Bool.or_eq_true, decide_eq_true_eq, beq_iff_eq]
    rcases hnn.lt_or_eq with h | h
    · left; exact h
    · right; exact h

/-- … and `> 0` when neither the quotient nor the product underflows to zero
    (exact results above `2^-1075`) on the visited bins -/
theorem spreadBin_weights_pos (new : MapEnv) (a b s c : Rat)
    (hnan : ∀ j, (new.lowerBound j).isNaN = false)
    (hs : F64.sub (.fin b) (.fin a) = .fin s)
    (fuel : Nat) (j0 : Int)
    (hmul : ∀ j x, j0 ≤ j → j < j0 + fuel → fInter new (.fin a) (.fin b) j = .fin x → 0 < x →
      pow2 (-1075) < F64.rv (x / s) * c)
    (j : Int) (w : F64)
    (hmem : (j, w) ∈ spreadBin new (.fin a) (.fin b) (.fin c) fuel j0) :
    F64.lt (.fin 0) w = true := by
  obtain ⟨x, hx, hx0, _, hq0, _, rfl, _⟩ := spreadBin_mem_fin new a b s c hnan hs fuel j0 j w hmem
  obtain ⟨hj1, hj2, _⟩ := spreadBin_mem new _ _ _ fuel j0 j _ hmem
  have hp := pow2_pos 1024
  have hpos := rv_pos_of_gt (hmul j x hj1 hj2 hx hx0)
  rw [F64.roundF64_eq]
  split_ifs with h1 h2
  · rfl
  · exfalso; linarith
  · simpa [F64.lt] using hpos

/-- finite inputs and a non-NaN oracle: both overlap inequalities hold -/
theorem spreadBin_indexes_overlap_fin (new : MapEnv) (a b s c : Rat)
    (hnan : ∀ j, (new.lowerBound j).isNaN = false)
    (hs : F64.sub (.fin b) (.fin a) = .fin s)
    (fuel : Nat) (j0 j : Int) (w : F64)
    (hmem : (j, w) ∈ spreadBin new (.fin a) (.fin b) (.fin c) fuel j0) :
    F64.lt (new.lowerBound j) (.fin b) = true ∧
      F64.lt (.fin a) (new.lowerBound (j + 1)) = true := by
  obtain ⟨_, _, _, _, _, _, _, hov⟩ := spreadBin_mem_fin new a b s c hnan hs fuel j0 j w hmem
  exact ⟨(spreadBin_mem new _ _ _ fuel j0 j w hmem).2.2.1, hov⟩

/-! ### `Summary.rescale` -/

theorem lt_asymm' {f : F64} (h : F64.lt f (.fin 0) = true) : F64.lt (.fin 0) f = false := by
  cases f <;> simp [F64.lt] at h ⊢
  exact h.le

theorem rescale_count (s : Summary) (f : F64) : (s.rescale f).count = s.count := by
  unfold Summary.rescale
  simp only
  split_ifs <;> rfl

theorem rescale_sum (s : Summary) (f : F64) :
    (s.rescale f).sum = F64.mul s.sum f ∧
      (s.rescale f).sumCompensation = F64.mul s.sumCompensation f ∧
      (s.rescale f).simpleSum = F64.mul s.simpleSum f := by
  unfold Summary.rescale
  simp only
  split_ifs <;> exact ⟨rfl, rfl, rfl⟩

theorem rescale_pos (s : Summary) (f : F64) (hf : F64.lt (.fin 0) f = true) :
    (s.rescale f).min = F64.mul s.min f ∧ (s.rescale f).max = F64.mul s.max f := by
  unfold Summary.rescale
  simp only
  rw [if_pos hf]
  exact ⟨rfl, rfl⟩

theorem rescale_neg (s : Summary) (f : F64) (hf : F64.lt f (.fin 0) = true) :
    (s.rescale f).min = F64.mul s.max f ∧ (s.rescale f).max = F64.mul s.min f := by
  unfold Summary.rescale
  simp only
  rw [if_neg (by rw [lt_asymm' hf]; simp), if_pos hf]
  exact ⟨rfl, rfl⟩

/-! ## Part B — the ideal re-binning over a linear ordered field -/

section Ideal

variable {K : Type*} [Field K] [LinearOrder K] [IsStrictOrderedRing K]

/-- `x` clamped to `[lo, hi]` -/
def clamp (lo hi x : K) : K := max lo (min x hi)

/-- CDF of the uniform distribution on `[lo, hi)`: the weight of a source bin is assumed to be
    uniformly spread inside the bin -/
def ucdf (lo hi x : K) : K := (clamp lo hi x - lo) / (hi - lo)

/-- ideal proportion of the source bin `[lo, hi)` that goes to the target bin
    `[b₂ j, b₂ (j+1))` -/
def prop (b₂ : ℤ → K) (lo hi : K) (j : ℤ) : K :=
  max 0 (min (b₂ (j + 1)) hi - max (b₂ j) lo) / (hi - lo)

theorem clamp_mem {lo hi : K} (h : lo ≤ hi) (x : K) : lo ≤ clamp lo hi x ∧ clamp lo hi x ≤ hi :=
  ⟨le_max_left _ _, max_le h (min_le_right _ _)⟩

theorem clamp_of_le {lo hi x : K} (h : lo ≤ hi) (hx : x ≤ lo) : clamp lo hi x = lo := by
  unfold clamp; rw [min_eq_left (le_trans hx h), max_eq_left hx]

theorem clamp_of_ge {lo hi x : K} (h : lo ≤ hi) (hx : hi ≤ x) : clamp lo hi x = hi := by
  unfold clamp; rw [min_eq_right hx, max_eq_right h]

theorem clamp_mono (lo hi : K) {x y : K} (hxy : x ≤ y) : clamp lo hi x ≤ clamp lo hi y :=
  max_le_max le_rfl (min_le_min hxy le_rfl)

theorem ucdf_nonneg {lo hi : K} (h : lo < hi) (x : K) : 0 ≤ ucdf lo hi x :=
  div_nonneg (sub_nonneg.mpr (clamp_mem h.le x).1) (sub_nonneg.mpr h.le)

theorem ucdf_le_one {lo hi : K} (h : lo < hi) (x : K) : ucdf lo hi x ≤ 1 := by
  unfold ucdf
  rw [div_le_one (sub_pos.mpr h)]
  linarith [(clamp_mem h.le x).2]

theorem ucdf_of_le {lo hi x : K} (h : lo < hi) (hx : x ≤ lo) : ucdf lo hi x = 0 := by
  unfold ucdf; rw [clamp_of_le h.le hx, sub_self, zero_div]

theorem ucdf_of_ge {lo hi x : K} (h : lo < hi) (hx : hi ≤ x) : ucdf lo hi x = 1 := by
  unfold ucdf; rw [clamp_of_ge h.le hx, div_self (sub_pos.mpr h).ne']

theorem ucdf_mono {lo hi : K} (h : lo < hi) {x y : K} (hxy : x ≤ y) :
    ucdf lo hi x ≤ ucdf lo hi y := by
  unfold ucdf
  exact div_le_div_of_nonneg_right (sub_le_sub_right (clamp_mono lo hi hxy) lo)
    (sub_pos.mpr h).le

/-- inside the bin the CDF is the linear interpolation -/
theorem ucdf_of_mem {lo hi x : K} (h1 : lo ≤ x) (h2 : x ≤ hi) :
    ucdf lo hi x = (x - lo) / (hi - lo) := by
  unfold ucdf clamp; rw [min_eq_left h2, max_eq_right h1]

/-- the overlap length is the increment of the clamp -/
theorem overlap_eq_clamp_sub {lo hi A B : K} (h : lo < hi) (hAB : A ≤ B) :
    max 0 (min B hi - max A lo) = clamp lo hi B - clamp lo hi A := by
  unfold clamp
  rcases le_total B lo with h1 | h1
  · rw [min_eq_left (le_trans h1 h.le), max_eq_left h1, min_eq_left (le_trans (le_trans hAB h1) h.le),
      max_eq_left (le_trans hAB h1), sub_self, max_eq_left]
    linarith [le_max_right A lo]
  · rcases le_total hi A with h2 | h2
    · rw [min_eq_right h2, min_eq_right (le_trans h2 hAB), sub_self, max_eq_left]
      linarith [le_max_left A lo, min_le_right B hi]
    · rw [min_eq_left h2, max_comm lo A, max_eq_right (show lo ≤ min B hi from le_min h1 h.le),
        max_eq_right]
      exact sub_nonneg.mpr (max_le (le_min hAB h2) (le_min h1 h.le))

theorem prop_eq_ucdf_sub {b₂ : ℤ → K} {lo hi : K} (h : lo < hi) {j : ℤ}
    (hb : b₂ j ≤ b₂ (j + 1)) :
    prop b₂ lo hi j = ucdf lo hi (b₂ (j + 1)) - ucdf lo hi (b₂ j) := by
  unfold prop ucdf
  rw [overlap_eq_clamp_sub h hb, ← sub_div]
  congr 1; ring

theorem prop_nonneg (b₂ : ℤ → K) {lo hi : K} (h : lo < hi) (j : ℤ) : 0 ≤ prop b₂ lo hi j :=
  div_nonneg (le_max_left _ _) (sub_pos.mpr h).le

theorem prop_le_one (b₂ : ℤ → K) {lo hi : K} (h : lo < hi) (j : ℤ) : prop b₂ lo hi j ≤ 1 := by
  unfold prop
  rw [div_le_one (sub_pos.mpr h)]
  apply max_le (sub_pos.mpr h).le
  linarith [min_le_right (b₂ (j + 1)) hi, le_max_right (b₂ j) lo]

theorem prop_pos_iff (b₂ : ℤ → K) {lo hi : K} (h : lo < hi) (j : ℤ) :
    0 < prop b₂ lo hi j ↔ max (b₂ j) lo < min (b₂ (j + 1)) hi := by
  unfold prop
  rw [div_pos_iff_of_pos_right (sub_pos.mpr h), lt_max_iff]
  simp

/-- weight only goes to overlapping bins: the proportion is positive iff the open intervals
    `(b₂ j, b₂ (j+1))` and `(lo, hi)` intersect -/
theorem prop_pos_iff_overlap (b₂ : ℤ → K) {lo hi : K} (h : lo < hi) (j : ℤ) :
    0 < prop b₂ lo hi j ↔ ∃ x, (b₂ j < x ∧ x < b₂ (j + 1)) ∧ (lo < x ∧ x < hi) := by
  rw [prop_pos_iff b₂ h]
  constructor
  · intro hlt
    refine ⟨(max (b₂ j) lo + min (b₂ (j + 1)) hi) / 2, ⟨?_, ?_⟩, ?_, ?_⟩
    · have := le_max_left (b₂ j) lo
      rw [lt_div_iff₀ (by norm_num : (0:K) < 2)]; linarith
    · have := min_le_left (b₂ (j + 1)) hi
      rw [div_lt_iff₀ (by norm_num : (0:K) < 2)]; linarith
    · have := le_max_right (b₂ j) lo
      rw [lt_div_iff₀ (by norm_num : (0:K) < 2)]; linarith
    · have := min_le_right (b₂ (j + 1)) hi
      rw [div_lt_iff₀ (by norm_num : (0:K) < 2)]; linarith
  · rintro ⟨x, ⟨h1, h2⟩, h3, h4⟩
    exact (max_lt h1 h3).trans (lt_min h2 h4)

/-- for a non-degenerate target bin: positive proportion iff `b₂ j < hi ∧ lo < b₂ (j+1)` -/
theorem prop_pos_iff_lt (b₂ : ℤ → K) {lo hi : K} (h : lo < hi) (j : ℤ)
    (hb : b₂ j < b₂ (j + 1)) :
    0 < prop b₂ lo hi j ↔ b₂ j < hi ∧ lo < b₂ (j + 1) := by
  rw [prop_pos_iff b₂ h, max_lt_iff, lt_min_iff, lt_min_iff]
  constructor
  · rintro ⟨⟨_, h2⟩, h3, _⟩; exact ⟨h2, h3⟩
  · rintro ⟨h1, h2⟩; exact ⟨⟨hb, h1⟩, h2, h⟩

theorem prop_eq_zero_of_le (b₂ : ℤ → K) {lo hi : K} (h : lo < hi) (j : ℤ)
    (hj : b₂ (j + 1) ≤ lo ∨ hi ≤ b₂ j) : prop b₂ lo hi j = 0 := by
  have h0 := prop_nonneg b₂ h j
  by_contra hne
  have hpos : 0 < prop b₂ lo hi j := lt_of_le_of_ne h0 (Ne.symm hne)
  rw [prop_pos_iff b₂ h, max_lt_iff, lt_min_iff, lt_min_iff] at hpos
  rcases hj with hj | hj
  · exact absurd hpos.2.1 (not_lt.mpr hj)
  · exact absurd hpos.1.2 (not_lt.mpr hj)

/-! ### telescoping sums over integer intervals -/

theorem sum_Ico_telescope (f : ℤ → K) {m n : ℤ} (h : m ≤ n) :
    ∑ j ∈ Finset.Ico m n, (f (j + 1) - f j) = f n - f m := by
  induction n, h using Int.leInduction with
  | base => simp
  | succ n hmn ih =>
    rw [← Finset.insert_Ico_right_eq_Ico_add_one hmn, Finset.sum_insert (by simp), ih]
    ring

theorem prop_sum_Ico {b₂ : ℤ → K} (hb : Monotone b₂) {lo hi : K} (h : lo < hi) {m n : ℤ}
    (hmn : m ≤ n) :
    ∑ j ∈ Finset.Ico m n, prop b₂ lo hi j = ucdf lo hi (b₂ n) - ucdf lo hi (b₂ m) := by
  rw [← sum_Ico_telescope (fun j => ucdf lo hi (b₂ j)) hmn]
  exact Finset.sum_congr rfl fun j _ => prop_eq_ucdf_sub h (hb (by omega))

/-- **conservation for one source bin**: the proportions over the target bins `m..J`, where bin
    `m` starts at or below `lo` and bin `J` ends at or above `hi`, add up to `1` -/
theorem prop_sum_eq_one {b₂ : ℤ → K} (hb : Monotone b₂) {lo hi : K} (h : lo < hi) {m J : ℤ}
    (hm : b₂ m ≤ lo) (hJ : hi ≤ b₂ (J + 1)) :
    ∑ j ∈ Finset.Icc m J, prop b₂ lo hi j = 1 := by
  have hmJ : m ≤ J + 1 := by
    by_contra hc
    have := hb (not_le.mp hc).le
    linarith
  rw [← Finset.Ico_add_one_right_eq_Icc, prop_sum_Ico hb h hmJ, ucdf_of_ge h hJ, ucdf_of_le h hm,
    sub_zero]

/-! ### grids -/

/-- a bin grid: strictly increasing positive bounds `b` (bin `i` is `[b i, b (i+1))`) and an index
    function consistent with them -/
structure Grid (K : Type*) [Field K] [LinearOrder K] [IsStrictOrderedRing K] where
  b : ℤ → K
  idx : K → ℤ
  strictMono : StrictMono b
  pos : ∀ i, 0 < b i
  idx_le : ∀ v, 0 < v → b (idx v) ≤ v
  lt_idx_succ : ∀ v, 0 < v → v < b (idx v + 1)

/-- the last target bin that starts below `hi` exists as soon as some bound reaches `hi` -/
theorem exists_last_bin {b₂ : ℤ → K} (hb : StrictMono b₂) {hi : K} {m : ℤ} (hm : b₂ m < hi)
    (hex : ∃ J', hi ≤ b₂ (J' + 1)) : ∃ J, m ≤ J ∧ b₂ J < hi ∧ hi ≤ b₂ (J + 1) := by
  have hbdd : ∃ z0 : ℤ, ∀ z, hi ≤ b₂ (z + 1) → z0 ≤ z := by
    refine ⟨m, fun z hz => ?_⟩
    have : b₂ m < b₂ (z + 1) := lt_of_lt_of_le hm hz
    have := hb.lt_iff_lt.mp this
    omega
  obtain ⟨J, hJ, hmin⟩ := Int.exists_least_of_bdd hbdd hex
  refine ⟨J, ?_, ?_, hJ⟩
  · have : b₂ m < b₂ (J + 1) := lt_of_lt_of_le hm hJ
    have := hb.lt_iff_lt.mp this
    omega
  · by_contra hc
    have := hmin (J - 1) (by rw [sub_add_cancel]; exact not_lt.mp hc)
    omega

/-- the range visited by the loop `for j := m; b₂ j < hi; j++` is exactly `m..J` -/
theorem visited_iff {b₂ : ℤ → K} (hb : StrictMono b₂) {hi : K} {J : ℤ}
    (hJ1 : b₂ J < hi) (hJ2 : hi ≤ b₂ (J + 1)) (m j : ℤ) :
    (m ≤ j ∧ b₂ j < hi) ↔ j ∈ Finset.Icc m J := by
  rw [Finset.mem_Icc]
  constructor
  · rintro ⟨h1, h2⟩
    refine ⟨h1, ?_⟩
    have := hb.lt_iff_lt.mp (lt_of_lt_of_le h2 hJ2)
    omega
  · rintro ⟨h1, h2⟩
    exact ⟨h1, lt_of_le_of_lt (hb.monotone h2) hJ1⟩

/-- conservation for one source bin, in terms of a grid: the loop starts at `idx lo` and visits
    exactly the bins `j ≥ idx lo` with `b j < hi`; their proportions add up to `1` -/
theorem Grid.prop_sum_eq_one (G : Grid K) {lo hi : K} (hlo : 0 < lo) (h : lo < hi) {J : ℤ}
    (hJ : hi ≤ G.b (J + 1)) :
    ∑ j ∈ Finset.Icc (G.idx lo) J, prop G.b lo hi j = 1 :=
  Rebin.prop_sum_eq_one G.strictMono.monotone h (G.idx_le lo hlo) hJ

/-! ### re-binning a finite histogram -/

/-- scaled bounds of source bin `i` -/
def sLo (b₁ : ℤ → K) (scale : K) (i : ℤ) : K := b₁ i * scale
def sHi (b₁ : ℤ → K) (scale : K) (i : ℤ) : K := b₁ (i + 1) * scale

theorem sLo_lt_sHi {b₁ : ℤ → K} (hb₁ : StrictMono b₁) {scale : K} (hs : 0 < scale) (i : ℤ) :
    sLo b₁ scale i < sHi b₁ scale i :=
  mul_lt_mul_of_pos_right (hb₁ (by omega)) hs

theorem sHi_le_sLo {b₁ : ℤ → K} (hb₁ : StrictMono b₁) {scale : K} (hs : 0 < scale) {i k : ℤ}
    (hik : i < k) : sHi b₁ scale i ≤ sLo b₁ scale k :=
  mul_le_mul_of_nonneg_right (hb₁.monotone (by omega)) hs.le

/-- total weight of a histogram given as a list of `(index, weight)` -/
def total (src : List (ℤ × K)) : K := (src.map Prod.snd).sum

/-- weight of bin `j` in a histogram given as a list -/
def weightAt (src : List (ℤ × K)) (j : ℤ) : K := (src.map fun p => if p.1 = j then p.2 else 0).sum

/-- the ideal re-binned histogram: weight of target bin `j` -/
def rebin (b₁ b₂ : ℤ → K) (scale : K) (src : List (ℤ × K)) (j : ℤ) : K :=
  (src.map fun p => prop b₂ (sLo b₁ scale p.1) (sHi b₁ scale p.1) j * p.2).sum

/-- the piecewise-linear CDF of the scaled source (weight uniformly spread inside each bin) -/
def srcCdf (b₁ : ℤ → K) (scale : K) (src : List (ℤ × K)) (x : K) : K :=
  (src.map fun p => p.2 * ucdf (sLo b₁ scale p.1) (sHi b₁ scale p.1) x).sum

@[simp] theorem total_nil : total ([] : List (ℤ × K)) = 0 := rfl
@[simp] theorem total_cons (p : ℤ × K) (t : List (ℤ × K)) : total (p :: t) = p.2 + total t := by
  simp [total]
theorem total_append (l t : List (ℤ × K)) : total (l ++ t) = total l + total t := by
  simp [total]

@[simp] theorem rebin_nil (b₁ b₂ : ℤ → K) (scale : K) (j : ℤ) : rebin b₁ b₂ scale [] j = 0 := rfl
@[simp] theorem rebin_cons (b₁ b₂ : ℤ → K) (scale : K) (p : ℤ × K) (t : List (ℤ × K)) (j : ℤ) :
    rebin b₁ b₂ scale (p :: t) j =
      prop b₂ (sLo b₁ scale p.1) (sHi b₁ scale p.1) j * p.2 + rebin b₁ b₂ scale t j := by
  simp [rebin]

@[simp] theorem srcCdf_nil (b₁ : ℤ → K) (scale : K) (x : K) : srcCdf b₁ scale [] x = 0 := rfl
@[simp] theorem srcCdf_cons (b₁ : ℤ → K) (scale : K) (p : ℤ × K) (t : List (ℤ × K)) (x : K) :
    srcCdf b₁ scale (p :: t) x =
      p.2 * ucdf (sLo b₁ scale p.1) (sHi b₁ scale p.1) x + srcCdf b₁ scale t x := by
  simp [srcCdf]
theorem srcCdf_append (b₁ : ℤ → K) (scale : K) (l t : List (ℤ × K)) (x : K) :
    srcCdf b₁ scale (l ++ t) x = srcCdf b₁ scale l x + srcCdf b₁ scale t x := by
  simp [srcCdf]

/-- every target weight is `≥ 0` -/
theorem rebin_nonneg {b₁ b₂ : ℤ → K} (hb₁ : StrictMono b₁) {scale : K} (hs : 0 < scale)
    {src : List (ℤ × K)} (hc : ∀ p ∈ src, 0 ≤ p.2) (j : ℤ) : 0 ≤ rebin b₁ b₂ scale src j := by
  induction src with
  | nil => simp
  | cons p t ih =>
    rw [rebin_cons]
    exact add_nonneg
      (mul_nonneg (prop_nonneg b₂ (sLo_lt_sHi hb₁ hs p.1) j) (hc p (List.mem_cons_self ..)))
      (ih fun q hq => hc q (List.mem_cons_of_mem _ hq))

/-- partial sums of the target = increments of the source CDF -/
theorem rebin_sum_Ico {b₁ b₂ : ℤ → K} (hb₁ : StrictMono b₁) (hb₂ : Monotone b₂) {scale : K}
    (hs : 0 < scale) (src : List (ℤ × K)) {m n : ℤ} (hmn : m ≤ n) :
    ∑ j ∈ Finset.Ico m n, rebin b₁ b₂ scale src j =
      srcCdf b₁ scale src (b₂ n) - srcCdf b₁ scale src (b₂ m) := by
  induction src with
  | nil => simp
  | cons p t ih =>
    simp only [rebin_cons, srcCdf_cons, Finset.sum_add_distrib, ih, ← Finset.sum_mul]
    rw [prop_sum_Ico hb₂ (sLo_lt_sHi hb₁ hs p.1) hmn]
    ring

theorem srcCdf_eq_zero {b₁ : ℤ → K} (hb₁ : StrictMono b₁) {scale : K} (hs : 0 < scale)
    {src : List (ℤ × K)} {x : K} (hx : ∀ p ∈ src, x ≤ sLo b₁ scale p.1) :
    srcCdf b₁ scale src x = 0 := by
  induction src with
  | nil => simp
  | cons p t ih =>
    rw [srcCdf_cons, ucdf_of_le (sLo_lt_sHi hb₁ hs p.1) (hx p (List.mem_cons_self ..)),
      ih fun q hq => hx q (List.mem_cons_of_mem _ hq)]
    ring

theorem srcCdf_eq_total {b₁ : ℤ → K} (hb₁ : StrictMono b₁) {scale : K} (hs : 0 < scale)
    {src : List (ℤ × K)} {x : K} (hx : ∀ p ∈ src, sHi b₁ scale p.1 ≤ x) :
    srcCdf b₁ scale src x = total src := by
  induction src with
  | nil => simp
  | cons p t ih =>
    rw [srcCdf_cons, ucdf_of_ge (sLo_lt_sHi hb₁ hs p.1) (hx p (List.mem_cons_self ..)),
      ih fun q hq => hx q (List.mem_cons_of_mem _ hq), total_cons]
    ring

theorem srcCdf_nonneg {b₁ : ℤ → K} (hb₁ : StrictMono b₁) {scale : K} (hs : 0 < scale)
    {src : List (ℤ × K)} (hc : ∀ p ∈ src, 0 ≤ p.2) (x : K) : 0 ≤ srcCdf b₁ scale src x := by
  induction src with
  | nil => simp
  | cons p t ih =>
    rw [srcCdf_cons]
    exact add_nonneg
      (mul_nonneg (hc p (List.mem_cons_self ..)) (ucdf_nonneg (sLo_lt_sHi hb₁ hs p.1) x))
      (ih fun q hq => hc q (List.mem_cons_of_mem _ hq))

theorem srcCdf_le_total {b₁ : ℤ → K} (hb₁ : StrictMono b₁) {scale : K} (hs : 0 < scale)
    {src : List (ℤ × K)} (hc : ∀ p ∈ src, 0 ≤ p.2) (x : K) :
    srcCdf b₁ scale src x ≤ total src := by
  induction src with
  | nil => simp
  | cons p t ih =>
    rw [srcCdf_cons, total_cons]
    have h1 := ucdf_le_one (sLo_lt_sHi hb₁ hs p.1) x
    have h2 := hc p (List.mem_cons_self ..)
    have h3 := ih fun q hq => hc q (List.mem_cons_of_mem _ hq)
    nlinarith

theorem srcCdf_mono {b₁ : ℤ → K} (hb₁ : StrictMono b₁) {scale : K} (hs : 0 < scale)
    {src : List (ℤ × K)} (hc : ∀ p ∈ src, 0 ≤ p.2) {x y : K} (hxy : x ≤ y) :
    srcCdf b₁ scale src x ≤ srcCdf b₁ scale src y := by
  induction src with
  | nil => simp
  | cons p t ih =>
    rw [srcCdf_cons, srcCdf_cons]
    exact add_le_add
      (mul_le_mul_of_nonneg_left (ucdf_mono (sLo_lt_sHi hb₁ hs p.1) hxy)
        (hc p (List.mem_cons_self ..)))
      (ih fun q hq => hc q (List.mem_cons_of_mem _ hq))

/-- **the key lemma for quantiles**: the cumulated target weight below the bin edge `b₂ j`
    is the piecewise-linear source CDF at that edge -/
theorem rebin_cdf {b₁ b₂ : ℤ → K} (hb₁ : StrictMono b₁) (hb₂ : Monotone b₂) {scale : K}
    (hs : 0 < scale) (src : List (ℤ × K)) {m j : ℤ}
    (hm : ∀ p ∈ src, b₂ m ≤ sLo b₁ scale p.1) (hmj : m ≤ j) :
    ∑ k ∈ Finset.Ico m j, rebin b₁ b₂ scale src k = srcCdf b₁ scale src (b₂ j) := by
  rw [rebin_sum_Ico hb₁ hb₂ hs src hmj, srcCdf_eq_zero hb₁ hs hm, sub_zero]

/-- **conservation**: the total weight of the target equals the total weight of the source -/
theorem rebin_total {b₁ b₂ : ℤ → K} (hb₁ : StrictMono b₁) (hb₂ : Monotone b₂) {scale : K}
    (hs : 0 < scale) (src : List (ℤ × K)) {m J : ℤ} (hmJ : m ≤ J + 1)
    (hm : ∀ p ∈ src, b₂ m ≤ sLo b₁ scale p.1) (hJ : ∀ p ∈ src, sHi b₁ scale p.1 ≤ b₂ (J + 1)) :
    ∑ j ∈ Finset.Icc m J, rebin b₁ b₂ scale src j = total src := by
  rw [← Finset.Ico_add_one_right_eq_Icc, rebin_cdf hb₁ hb₂ hs src hm hmJ,
    srcCdf_eq_total hb₁ hs hJ]

/-- outside of the covering range the target is empty -/
theorem rebin_eq_zero {b₁ b₂ : ℤ → K} (hb₁ : StrictMono b₁) (hb₂ : Monotone b₂) {scale : K}
    (hs : 0 < scale) {src : List (ℤ × K)} {m J : ℤ}
    (hm : ∀ p ∈ src, b₂ m ≤ sLo b₁ scale p.1) (hJ : ∀ p ∈ src, sHi b₁ scale p.1 ≤ b₂ (J + 1))
    {j : ℤ} (hj : j ∉ Finset.Icc m J) : rebin b₁ b₂ scale src j = 0 := by
  rw [Finset.mem_Icc, not_and_or, not_le, not_le] at hj
  induction src with
  | nil => simp
  | cons p t ih =>
    rw [rebin_cons, ih (fun q hq => hm q (List.mem_cons_of_mem _ hq))
      (fun q hq => hJ q (List.mem_cons_of_mem _ hq)), add_zero,
      prop_eq_zero_of_le b₂ (sLo_lt_sHi hb₁ hs p.1) j ?_, zero_mul]
    rcases hj with hj | hj
    · left; exact le_trans (hb₂ (by omega)) (hm p (List.mem_cons_self ..))
    · right; exact le_trans (hJ p (List.mem_cons_self ..)) (hb₂ (by omega))

/-- a covering range exists for every finite non-empty-or-empty source when the target grid is
    a grid whose bounds are unbounded above -/
theorem exists_cover (b₁ : ℤ → K) (hpos₁ : ∀ i, 0 < b₁ i) (G : Grid K)
    (hunb : ∀ x : K, ∃ J, x ≤ G.b (J + 1)) {scale : K} (hs : 0 < scale) (src : List (ℤ × K)) :
    ∃ m J : ℤ, m ≤ J + 1 ∧ (∀ p ∈ src, G.b m ≤ sLo b₁ scale p.1) ∧
      (∀ p ∈ src, sHi b₁ scale p.1 ≤ G.b (J + 1)) := by
  induction src with
  | nil => exact ⟨0, 0, by omega, by simp, by simp⟩
  | cons p t ih =>
    obtain ⟨m, J, hmJ, hm, hJ⟩ := ih
    obtain ⟨J', hJ'⟩ := hunb (sHi b₁ scale p.1)
    have hlo : 0 < sLo b₁ scale p.1 := mul_pos (hpos₁ _) hs
    refine ⟨min m (G.idx (sLo b₁ scale p.1)), max J J', ?_, ?_, ?_⟩
    · have := min_le_left m (G.idx (sLo b₁ scale p.1)); have := le_max_left J J'; omega
    · intro q hq
      rcases List.mem_cons.mp hq with rfl | hq
      · exact le_trans (G.strictMono.monotone (min_le_right _ _)) (G.idx_le _ hlo)
      · exact le_trans (G.strictMono.monotone (min_le_left _ _)) (hm q hq)
    · intro q hq
      rcases List.mem_cons.mp hq with rfl | hq
      · exact le_trans hJ' (G.strictMono.monotone (by have := le_max_right J J'; omega))
      · exact le_trans (hJ q hq) (G.strictMono.monotone (by have := le_max_left J J'; omega))

/-! ### identity -/

theorem prop_self {b : ℤ → K} (hb : StrictMono b) (i j : ℤ) :
    prop b (b i) (b (i + 1)) j = if j = i then 1 else 0 := by
  have h : b i < b (i + 1) := hb (by omega)
  split_ifs with hji
  · subst hji
    unfold prop
    rw [min_self, max_self, max_eq_right (sub_pos.mpr h).le, div_self (sub_pos.mpr h).ne']
  · apply prop_eq_zero_of_le b h
    rcases lt_or_gt_of_ne hji with hlt | hgt
    · left; exact hb.monotone (by omega)
    · right; exact hb.monotone (by omega)

/-- **identity**: re-binning onto the same grid with scale `1` returns the source histogram -/
theorem identity_rebin {b : ℤ → K} (hb : StrictMono b) (src : List (ℤ × K)) (j : ℤ) :
    rebin b b 1 src j = weightAt src j := by
  unfold rebin weightAt sLo sHi
  congr 1
  apply List.map_congr_left
  intro p _
  rw [mul_one, mul_one, prop_self hb]
  by_cases h : p.1 = j
  · rw [if_pos h.symm, if_pos h, one_mul]
  · rw [if_neg (fun e => h e.symm), if_neg h, zero_mul]

/-! ### quantiles -/

/-- the first bin of a list whose cumulated weight exceeds `r` -/
theorem exists_first_exceed (l : List (ℤ × K)) (r : K) (h0 : 0 ≤ r) (hr : r < total l) :
    ∃ pre x post, l = pre ++ x :: post ∧ total pre ≤ r ∧ r < total pre + x.2 := by
  induction l generalizing r with
  | nil => simp at hr; exact absurd hr (not_lt.mpr h0)
  | cons x t ih =>
    by_cases hx : r < x.2
    · exact ⟨[], x, t, rfl, by simpa using h0, by simpa using hx⟩
    · rw [total_cons] at hr
      obtain ⟨pre, y, post, e, h1, h2⟩ := ih (r - x.2) (by linarith [not_lt.mp hx]) (by linarith)
      refine ⟨x :: pre, y, post, by rw [e]; rfl, ?_, ?_⟩
      · rw [total_cons]; linarith
      · rw [total_cons]; linarith

/-- bracket of the source CDF by the cumulated weights around one source bin of a sorted list -/
theorem srcCdf_ge_of_sHi_le {b₁ : ℤ → K} (hb₁ : StrictMono b₁) {scale : K} (hs : 0 < scale)
    {pre post : List (ℤ × K)} {p : ℤ × K}
    (hsorted : (pre ++ p :: post).Pairwise (fun u v => u.1 < v.1))
    (hc : ∀ q ∈ pre ++ p :: post, 0 ≤ q.2) {x : K} (hx : sHi b₁ scale p.1 ≤ x) :
    total pre + p.2 ≤ srcCdf b₁ scale (pre ++ p :: post) x := by
  rw [List.pairwise_append] at hsorted
  obtain ⟨_, hpp, hcross⟩ := hsorted
  rw [srcCdf_append, srcCdf_cons]
  have h1 : srcCdf b₁ scale pre x = total pre := by
    apply srcCdf_eq_total hb₁ hs
    intro q hq
    have : q.1 < p.1 := hcross q hq p (List.mem_cons_self ..)
    exact le_trans (le_trans (sHi_le_sLo hb₁ hs this) (sLo_lt_sHi hb₁ hs p.1).le) hx
  have h2 : 0 ≤ srcCdf b₁ scale post x :=
    srcCdf_nonneg hb₁ hs (fun q hq => hc q (by simp [hq])) x
  rw [h1, ucdf_of_ge (sLo_lt_sHi hb₁ hs p.1) hx]
  linarith

theorem srcCdf_le_of_le_sLo {b₁ : ℤ → K} (hb₁ : StrictMono b₁) {scale : K} (hs : 0 < scale)
    {pre post : List (ℤ × K)} {p : ℤ × K}
    (hsorted : (pre ++ p :: post).Pairwise (fun u v => u.1 < v.1))
    (hc : ∀ q ∈ pre ++ p :: post, 0 ≤ q.2) {x : K} (hx : x ≤ sLo b₁ scale p.1) :
    srcCdf b₁ scale (pre ++ p :: post) x ≤ total pre := by
  rw [List.pairwise_append, List.pairwise_cons] at hsorted
  obtain ⟨_, ⟨hpost, _⟩, _⟩ := hsorted
  rw [srcCdf_append, srcCdf_cons]
  have h1 : srcCdf b₁ scale pre x ≤ total pre :=
    srcCdf_le_total hb₁ hs (fun q hq => hc q (by simp [hq])) x
  have h2 : srcCdf b₁ scale post x = 0 := by
    apply srcCdf_eq_zero hb₁ hs
    intro q hq
    exact le_trans hx (le_trans (sLo_lt_sHi hb₁ hs p.1).le (sHi_le_sLo hb₁ hs (hpost q hq)))
  rw [h2, ucdf_of_le (sLo_lt_sHi hb₁ hs p.1) hx]
  linarith

/-- the source bin that answers rank `r` overlaps any interval `(x, y)` on which the source CDF
    crosses `r` -/
theorem srcCdf_bracket {b₁ : ℤ → K} (hb₁ : StrictMono b₁) {scale : K} (hs : 0 < scale)
    {src : List (ℤ × K)} (hsorted : src.Pairwise (fun u v => u.1 < v.1))
    (hc : ∀ q ∈ src, 0 ≤ q.2) {r x y : K} (h0 : 0 ≤ r)
    (hx : srcCdf b₁ scale src x ≤ r) (hy : r < srcCdf b₁ scale src y) :
    ∃ pre p post, src = pre ++ p :: post ∧ total pre ≤ r ∧ r < total pre + p.2 ∧
      x < sHi b₁ scale p.1 ∧ sLo b₁ scale p.1 < y := by
  have hr : r < total src := lt_of_lt_of_le hy (srcCdf_le_total hb₁ hs hc y)
  obtain ⟨pre, p, post, rfl, h1, h2⟩ := exists_first_exceed src r h0 hr
  refine ⟨pre, p, post, rfl, h1, h2, ?_, ?_⟩
  · by_contra hcon
    have := srcCdf_ge_of_sHi_le hb₁ hs hsorted hc (not_lt.mp hcon)
    linarith
  · by_contra hcon
    have := srcCdf_le_of_le_sLo hb₁ hs hsorted hc (not_lt.mp hcon)
    linarith

/-- **quantile bin**: if target bin `j` is the first whose cumulated weight exceeds `r`, then the
    source bin `i` that answers rank `r` (`C_{i-1} ≤ r < C_i`) overlaps target bin `j` -/
theorem rebin_quantile_bin {b₁ b₂ : ℤ → K} (hb₁ : StrictMono b₁) (hb₂ : Monotone b₂) {scale : K}
    (hs : 0 < scale) {src : List (ℤ × K)} (hsorted : src.Pairwise (fun u v => u.1 < v.1))
    (hc : ∀ q ∈ src, 0 ≤ q.2) {m j : ℤ} (hm : ∀ p ∈ src, b₂ m ≤ sLo b₁ scale p.1) (hmj : m ≤ j)
    {r : K} (h0 : 0 ≤ r)
    (hbelow : ∑ k ∈ Finset.Ico m j, rebin b₁ b₂ scale src k ≤ r)
    (habove : r < ∑ k ∈ Finset.Icc m j, rebin b₁ b₂ scale src k) :
    ∃ pre p post, src = pre ++ p :: post ∧ total pre ≤ r ∧ r < total pre + p.2 ∧
      b₂ j < sHi b₁ scale p.1 ∧ sLo b₁ scale p.1 < b₂ (j + 1) := by
  rw [rebin_cdf hb₁ hb₂ hs src hm hmj] at hbelow
  rw [← Finset.Ico_add_one_right_eq_Icc, rebin_cdf hb₁ hb₂ hs src hm (by omega)] at habove
  exact srcCdf_bracket hb₁ hs hsorted hc h0 hbelow habove

/-- **combined accuracy**: representatives of two overlapping bins are within the product of the
    two grid ratios -/
theorem overlap_accuracy {b₁ b₂ : ℤ → K} {scale ρ₁ ρ₂ : K} (hs : 0 < scale)
    {i j : ℤ} (hb₁ : 0 < b₁ i) (hb₂ : 0 < b₂ j)
    (hρ₁ : b₁ (i + 1) ≤ ρ₁ * b₁ i) (hρ₂ : b₂ (j + 1) ≤ ρ₂ * b₂ j)
    (hov1 : b₂ j < sHi b₁ scale i) (hov2 : sLo b₁ scale i < b₂ (j + 1))
    {rep₁ rep₂ : K} (h1 : b₁ i ≤ rep₁) (h1' : rep₁ ≤ b₁ (i + 1))
    (h2 : b₂ j ≤ rep₂) (h2' : rep₂ ≤ b₂ (j + 1)) :
    rep₂ < ρ₁ * ρ₂ * (scale * rep₁) ∧ scale * rep₁ < ρ₁ * ρ₂ * rep₂ := by
  unfold sHi at hov1
  unfold sLo at hov2
  have hρ₁0 : 0 < ρ₁ := by
    by_contra hc
    have : ρ₁ * b₁ i ≤ 0 := mul_nonpos_of_nonpos_of_nonneg (not_lt.mp hc) hb₁.le
    linarith
  have hρ₂0 : 0 < ρ₂ := by
    by_contra hc
    have : ρ₂ * b₂ j ≤ 0 := mul_nonpos_of_nonpos_of_nonneg (not_lt.mp hc) hb₂.le
    linarith
  constructor
  · calc rep₂ ≤ b₂ (j + 1) := h2'
      _ ≤ ρ₂ * b₂ j := hρ₂
      _ < ρ₂ * (b₁ (i + 1) * scale) := mul_lt_mul_of_pos_left hov1 hρ₂0
      _ ≤ ρ₂ * (ρ₁ * b₁ i * scale) :=
          mul_le_mul_of_nonneg_left (mul_le_mul_of_nonneg_right hρ₁ hs.le) hρ₂0.le
      _ ≤ ρ₂ * (ρ₁ * rep₁ * scale) :=
          mul_le_mul_of_nonneg_left (mul_le_mul_of_nonneg_right
            (mul_le_mul_of_nonneg_left h1 hρ₁0.le) hs.le) hρ₂0.le
      _ = ρ₁ * ρ₂ * (scale * rep₁) := by ring
  · calc scale * rep₁ ≤ scale * b₁ (i + 1) := mul_le_mul_of_nonneg_left h1' hs.le
      _ ≤ scale * (ρ₁ * b₁ i) := mul_le_mul_of_nonneg_left hρ₁ hs.le
      _ = ρ₁ * (b₁ i * scale) := by ring
      _ < ρ₁ * b₂ (j + 1) := mul_lt_mul_of_pos_left hov2 hρ₁0
      _ ≤ ρ₁ * (ρ₂ * b₂ j) := mul_le_mul_of_nonneg_left hρ₂ hρ₁0.le
      _ ≤ ρ₁ * (ρ₂ * rep₂) :=
          mul_le_mul_of_nonneg_left (mul_le_mul_of_nonneg_left h2 hρ₂0.le) hρ₁0.le
      _ = ρ₁ * ρ₂ * rep₂ := by ring

/-- two overlapping non-degenerate intervals have a common interior point -/
theorem overlap_point {A B lo hi : K} (hAB : A < B) (h : lo < hi) (h1 : A < hi) (h2 : lo < B) :
    ∃ x, (A < x ∧ x < B) ∧ (lo < x ∧ x < hi) := by
  have hlt : max A lo < min B hi := max_lt (lt_min hAB h1) (lt_min h2 h)
  have two : (0:K) < 2 := by norm_num
  refine ⟨(max A lo + min B hi) / 2, ⟨?_, ?_⟩, ?_, ?_⟩
  · have := le_max_left A lo
    rw [lt_div_iff₀ two]; linarith
  · have := min_le_left B hi
    rw [div_lt_iff₀ two]; linarith
  · have := le_max_right A lo
    rw [lt_div_iff₀ two]; linarith
  · have := min_le_right B hi
    rw [div_lt_iff₀ two]; linarith

/-- **combined accuracy, `α` form**: if the representative of source bin `i` is `α₁`-accurate for
    the points inside the bin and the representative of target bin `j` is `α₂`-accurate, and the
    scaled source bin overlaps the target bin, then
    `(1-α₂)/(1+α₁) ≤ rep₂ / (scale·rep₁) ≤ (1+α₂)/(1-α₁)` (stated without division) -/
theorem overlap_accuracy_alpha {b₁ b₂ : ℤ → K} {scale α₁ α₂ : K} (hs : 0 < scale) {i j : ℤ}
    (hb₁ : b₁ i < b₁ (i + 1)) (hb₂ : b₂ j < b₂ (j + 1))
    (hα₁ : 0 ≤ α₁) (hα₁' : α₁ ≤ 1) (hα₂ : 0 ≤ α₂) (hα₂' : α₂ ≤ 1) {rep₁ rep₂ : K}
    (hacc₁ : ∀ v, b₁ i < v → v < b₁ (i + 1) → |rep₁ - v| ≤ α₁ * v)
    (hacc₂ : ∀ v, b₂ j < v → v < b₂ (j + 1) → |rep₂ - v| ≤ α₂ * v)
    (hov1 : b₂ j < sHi b₁ scale i) (hov2 : sLo b₁ scale i < b₂ (j + 1)) :
    (1 - α₂) * (scale * rep₁) ≤ (1 + α₁) * rep₂ ∧
      (1 - α₁) * rep₂ ≤ (1 + α₂) * (scale * rep₁) := by
  have hlh : sLo b₁ scale i < sHi b₁ scale i := mul_lt_mul_of_pos_right hb₁ hs
  obtain ⟨x, ⟨hx1, hx2⟩, hx3, hx4⟩ := overlap_point hb₂ hlh hov1 hov2
  unfold sLo at hx3
  unfold sHi at hx4
  have e1 := abs_le.mp (hacc₁ (x / scale) (by rwa [lt_div_iff₀ hs]) (by rwa [div_lt_iff₀ hs]))
  have e2 := abs_le.mp (hacc₂ x hx1 hx2)
  have hxs : scale * (x / scale) = x := by field_simp
  have a1 : scale * rep₁ ≤ (1 + α₁) * x := by
    have := mul_le_mul_of_nonneg_left e1.2 hs.le
    calc scale * rep₁ = scale * (rep₁ - x / scale) + scale * (x / scale) := by ring
      _ ≤ scale * (α₁ * (x / scale)) + scale * (x / scale) := by linarith
      _ = (1 + α₁) * (scale * (x / scale)) := by ring
      _ = _ := by rw [hxs]
  have a2 : (1 - α₁) * x ≤ scale * rep₁ := by
    have := mul_le_mul_of_nonneg_left e1.1 hs.le
    calc (1 - α₁) * x = (1 - α₁) * (scale * (x / scale)) := by rw [hxs]
      _ = scale * (-(α₁ * (x / scale))) + scale * (x / scale) := by ring
      _ ≤ scale * (rep₁ - x / scale) + scale * (x / scale) := by linarith
      _ = scale * rep₁ := by ring
  have b1 : rep₂ ≤ (1 + α₂) * x := by linarith [e2.2]
  have b2 : (1 - α₂) * x ≤ rep₂ := by linarith [e2.1]
  constructor
  · calc (1 - α₂) * (scale * rep₁) ≤ (1 - α₂) * ((1 + α₁) * x) :=
          mul_le_mul_of_nonneg_left a1 (by linarith)
      _ = (1 + α₁) * ((1 - α₂) * x) := by ring
      _ ≤ (1 + α₁) * rep₂ := mul_le_mul_of_nonneg_left b2 (by linarith)
  · calc (1 - α₁) * rep₂ ≤ (1 - α₁) * ((1 + α₂) * x) :=
          mul_le_mul_of_nonneg_left b1 (by linarith)
      _ = (1 + α₂) * ((1 - α₁) * x) := by ring
      _ ≤ (1 + α₂) * (scale * rep₁) := mul_le_mul_of_nonneg_left a2 (by linarith)

/-- **quantile accuracy (`ρ` form)**: the value the re-binned histogram answers for rank `r`
    (a representative of the first target bin whose cumulated weight exceeds `r`) and the scaled
    value the source answers for the same rank are within the factor `ρ₁ ρ₂` of each other -/
theorem rebin_quantile_accuracy {b₁ b₂ : ℤ → K} (hb₁ : StrictMono b₁) (hb₂ : Monotone b₂)
    (hpos₁ : ∀ i, 0 < b₁ i) (hpos₂ : ∀ j, 0 < b₂ j) {scale ρ₁ ρ₂ : K} (hs : 0 < scale)
    (hρ₁ : ∀ i, b₁ (i + 1) ≤ ρ₁ * b₁ i) (hρ₂ : ∀ j, b₂ (j + 1) ≤ ρ₂ * b₂ j)
    {rep₁ rep₂ : ℤ → K}
    (hrep₁ : ∀ i, b₁ i ≤ rep₁ i ∧ rep₁ i ≤ b₁ (i + 1))
    (hrep₂ : ∀ j, b₂ j ≤ rep₂ j ∧ rep₂ j ≤ b₂ (j + 1))
    {src : List (ℤ × K)} (hsorted : src.Pairwise (fun u v => u.1 < v.1))
    (hc : ∀ q ∈ src, 0 ≤ q.2) {m j : ℤ} (hm : ∀ p ∈ src, b₂ m ≤ sLo b₁ scale p.1) (hmj : m ≤ j)
    {r : K} (h0 : 0 ≤ r)
    (hbelow : ∑ k ∈ Finset.Ico m j, rebin b₁ b₂ scale src k ≤ r)
    (habove : r < ∑ k ∈ Finset.Icc m j, rebin b₁ b₂ scale src k) :
    ∃ pre p post, src = pre ++ p :: post ∧ total pre ≤ r ∧ r < total pre + p.2 ∧
      1 / (ρ₁ * ρ₂) < rep₂ j / (scale * rep₁ p.1) ∧ rep₂ j / (scale * rep₁ p.1) < ρ₁ * ρ₂ := by
  obtain ⟨pre, p, post, e, h1, h2, hov1, hov2⟩ :=
    rebin_quantile_bin hb₁ hb₂ hs hsorted hc hm hmj h0 hbelow habove
  refine ⟨pre, p, post, e, h1, h2, ?_⟩
  obtain ⟨g1, g2⟩ := overlap_accuracy hs (hpos₁ p.1) (hpos₂ j) (hρ₁ p.1) (hρ₂ j) hov1 hov2
    (hrep₁ p.1).1 (hrep₁ p.1).2 (hrep₂ j).1 (hrep₂ j).2
  have hden : 0 < scale * rep₁ p.1 := mul_pos hs (lt_of_lt_of_le (hpos₁ p.1) (hrep₁ p.1).1)
  have hrep2 : 0 < rep₂ j := lt_of_lt_of_le (hpos₂ j) (hrep₂ j).1
  have hρ : 0 < ρ₁ * ρ₂ := by
    by_contra hcon
    have : ρ₁ * ρ₂ * rep₂ j ≤ 0 := mul_nonpos_of_nonpos_of_nonneg (not_lt.mp hcon) hrep2.le
    linarith
  constructor
  · rw [div_lt_div_iff₀ hρ hden]; linarith
  · rw [div_lt_iff₀ hden]; exact g1

/-- **quantile accuracy (`α` form)** -/
theorem rebin_quantile_accuracy_alpha {b₁ b₂ : ℤ → K} (hb₁ : StrictMono b₁) (hb₂ : StrictMono b₂)
    {scale α₁ α₂ : K} (hs : 0 < scale)
    (hα₁ : 0 ≤ α₁) (hα₁' : α₁ ≤ 1) (hα₂ : 0 ≤ α₂) (hα₂' : α₂ ≤ 1) {rep₁ rep₂ : ℤ → K}
    (hacc₁ : ∀ i v, b₁ i < v → v < b₁ (i + 1) → |rep₁ i - v| ≤ α₁ * v)
    (hacc₂ : ∀ j v, b₂ j < v → v < b₂ (j + 1) → |rep₂ j - v| ≤ α₂ * v)
    {src : List (ℤ × K)} (hsorted : src.Pairwise (fun u v => u.1 < v.1))
    (hc : ∀ q ∈ src, 0 ≤ q.2) {m j : ℤ} (hm : ∀ p ∈ src, b₂ m ≤ sLo b₁ scale p.1) (hmj : m ≤ j)
    {r : K} (h0 : 0 ≤ r)
    (hbelow : ∑ k ∈ Finset.Ico m j, rebin b₁ b₂ scale src k ≤ r)
    (habove : r < ∑ k ∈ Finset.Icc m j, rebin b₁ b₂ scale src k) :
    ∃ pre p post, src = pre ++ p :: post ∧ total pre ≤ r ∧ r < total pre + p.2 ∧
      (1 - α₂) * (scale * rep₁ p.1) ≤ (1 + α₁) * rep₂ j ∧
      (1 - α₁) * rep₂ j ≤ (1 + α₂) * (scale * rep₁ p.1) := by
  obtain ⟨pre, p, post, e, h1, h2, hov1, hov2⟩ :=
    rebin_quantile_bin hb₁ hb₂.monotone hs hsorted hc hm hmj h0 hbelow habove
  exact ⟨pre, p, post, e, h1, h2,
    overlap_accuracy_alpha hs (hb₁ (by omega)) (hb₂ (by omega)) hα₁ hα₁' hα₂ hα₂'
      (hacc₁ p.1) (hacc₂ j) hov1 hov2⟩

end Ideal

/-! ### a concrete family of grids over `ℚ`: powers of a natural number -/

/-- the grid `b i = n ^ i` with `idx = ⌊log_n ·⌋` -/
def natGrid (n : ℕ) (hn : 1 < n) : Grid ℚ where
  b := fun i => (n : ℚ) ^ i
  idx := fun v => Int.log n v
  strictMono := zpow_right_strictMono₀ (by exact_mod_cast hn)
  pos := fun i => zpow_pos (by exact_mod_cast (by omega : 0 < n)) i
  idx_le := fun v hv => Int.zpow_log_le_self hn hv
  lt_idx_succ := fun v _ => Int.lt_zpow_succ_log_self hn v

theorem natGrid_unbounded (n : ℕ) (hn : 1 < n) (x : ℚ) : ∃ J, x ≤ (natGrid n hn).b (J + 1) :=
  ⟨Int.log n x, (Int.lt_zpow_succ_log_self hn x).le⟩

/-! ## Part C — the float loop under exact operations is the ideal re-binning -/

/-- the float operation producing the exact result `x` is exact -/
def Exact (x : ℚ) : Prop := F64.roundF64 x = .fin x

/-- the target bins visited from `j0` up to the last bin `J` that starts below `inHigh` -/
def visited (j0 J : ℤ) : List ℤ := (List.range (J + 1 - j0).toNat).map fun (k : ℕ) => j0 + (k : ℤ)

theorem visited_of_gt {j0 J : ℤ} (h : J < j0) : visited j0 J = [] := by
  unfold visited
  rw [show (J + 1 - j0).toNat = 0 by omega]; rfl

theorem visited_cons {j0 J : ℤ} (h : j0 ≤ J) : visited j0 J = j0 :: visited (j0 + 1) J := by
  unfold visited
  obtain ⟨n, hn⟩ : ∃ n : ℕ, (J + 1 - j0).toNat = n + 1 := ⟨(J - j0).toNat, by omega⟩
  rw [hn, show (J + 1 - (j0 + 1)).toNat = n by omega, List.range_succ_eq_map, List.map_cons,
    List.map_map]
  refine congrArg₂ _ (by simp) (List.map_congr_left fun k _ => ?_)
  simp only [Function.comp_apply, Nat.succ_eq_add_one]
  push_cast; ring

theorem mem_visited {j0 J j : ℤ} : j ∈ visited j0 J ↔ j0 ≤ j ∧ j ≤ J := by
  unfold visited
  simp only [List.mem_map, List.mem_range]
  constructor
  · rintro ⟨k, hk, rfl⟩; omega
  · rintro ⟨h1, h2⟩; exact ⟨(j - j0).toNat, by omega, by omega⟩

theorem fmaxG_fin_fin (x y : ℚ) : fmaxG (.fin x) (.fin y) = .fin (max x y) := by
  unfold fmaxG
  simp only [F64.isNaN, Bool.or_self, Bool.false_eq_true, if_false, F64.lt, decide_eq_true_eq]
  split_ifs with h
  · rw [max_eq_right h.le]
  · rw [max_eq_left (not_lt.mp h)]

theorem fminG_fin_fin (x y : ℚ) : fminG (.fin x) (.fin y) = .fin (min x y) := by
  unfold fminG
  simp only [F64.isNaN, Bool.or_self, Bool.false_eq_true, if_false, F64.lt, decide_eq_true_eq]
  split_ifs with h
  · rw [min_eq_right h.le]
  · rw [min_eq_left (not_lt.mp h)]

/-- **`spreadBin` = ideal proportions** when every float operation of the loop is exact, the oracle
    bounds are finite and strictly increasing, and `fuel` covers the visited range `j0..J`. -/
theorem spreadBin_spec (new : MapEnv) (b : ℤ → ℚ) (hlb : ∀ j, new.lowerBound j = .fin (b j))
    (hb : StrictMono b) {lo hi c : ℚ} (h : lo < hi) {J : ℤ}
    (hJ1 : ∀ j, j ≤ J → b j < hi) (hJ2 : hi ≤ b (J + 1))
    (hsize : Exact (hi - lo)) {m : ℤ}
    (hinter : ∀ j, m ≤ j → j ≤ J → Exact (min (b (j + 1)) hi - max (b j) lo))
    (hdiv : ∀ j, m ≤ j → j ≤ J → 0 < prop b lo hi j → Exact (prop b lo hi j))
    (hmul : ∀ j, m ≤ j → j ≤ J → 0 < prop b lo hi j → Exact (prop b lo hi j * c)) :
    ∀ (fuel : ℕ) (j0 : ℤ), m ≤ j0 → j0 ≤ J + 1 → (J + 1 - j0).toNat ≤ fuel →
      spreadBin new (.fin lo) (.fin hi) (.fin c) fuel j0 =
        (visited j0 J).filterMap fun j =>
          if 0 < prop b lo hi j then some (j, F64.fin (prop b lo hi j * c)) else none := by
  intro fuel
  induction fuel with
  | zero =>
    intro j0 hm0 h1 h2
    rw [visited_of_gt (by omega)]; rfl
  | succ n ih =>
    intro j0 hm0 h1 h2
    rw [spreadBin]
    by_cases hj : j0 ≤ J
    · have hguard : F64.lt (new.lowerBound j0) (.fin hi) = true := by
        rw [hlb]; simpa [F64.lt] using hJ1 j0 hj
      rw [if_pos hguard, visited_cons hj, List.filterMap_cons]
      simp only
      rw [hlb j0, hlb (j0 + 1), fmaxG_fin_fin, fminG_fin_fin, sub_fin_fin, hinter j0 hm0 hj]
      have hsz : 0 < hi - lo := sub_pos.mpr h
      have hprop : prop b lo hi j0 = max 0 (min (b (j0 + 1)) hi - max (b j0) lo) / (hi - lo) := rfl
      by_cases hx : min (b (j0 + 1)) hi - max (b j0) lo ≤ 0
      · have hle : F64.le (.fin (min (b (j0 + 1)) hi - max (b j0) lo)) (.fin 0) = true := by
          simp only [F64.le, F64.lt, F64.eq, Bool.or_eq_true, decide_eq_true_eq, beq_iff_eq]
          exact hx.lt_or_eq
        have hp0 : ¬ 0 < prop b lo hi j0 := by
          rw [hprop, max_eq_left hx, zero_div]; exact lt_irrefl 0
        rw [if_pos hle, if_neg hp0]
        exact ih (j0 + 1) (by omega) (by omega) (by omega)
      · have hx' := not_le.mp hx
        have hle : ¬ F64.le (.fin (min (b (j0 + 1)) hi - max (b j0) lo)) (.fin 0) = true := by
          simp only [F64.le, F64.lt, F64.eq, Bool.or_eq_true, decide_eq_true_eq, beq_iff_eq]
          rintro (h' | h') <;> linarith
        have hpe : prop b lo hi j0 = (min (b (j0 + 1)) hi - max (b j0) lo) / (hi - lo) := by
          rw [hprop, max_eq_right hx'.le]
        have hp0 : 0 < prop b lo hi j0 := by rw [hpe]; exact div_pos hx' hsz
        rw [if_neg hle, if_pos hp0, sub_fin_fin, hsize]
        have hdv : F64.div (.fin (min (b (j0 + 1)) hi - max (b j0) lo)) (.fin (hi - lo))
            = .fin (prop b lo hi j0) := by
          show (if hi - lo = 0 then F64.nan else _) = _
          rw [if_neg hsz.ne', ← hpe]; exact hdiv j0 hm0 hj hp0
        have hml : F64.mul (.fin (prop b lo hi j0)) (.fin c) = .fin (prop b lo hi j0 * c) :=
          hmul j0 hm0 hj hp0
        rw [hdv, hml, ih (j0 + 1) (by omega) (by omega) (by omega)]
    · have hj' : j0 = J + 1 := by omega
      have hguard : ¬ F64.lt (new.lowerBound j0) (.fin hi) = true := by
        rw [hlb, hj']; simpa [F64.lt] using hJ2
      rw [if_neg hguard, visited_of_gt (by omega)]; rfl

/-- the rational value of a finite float (0 otherwise) -/
def ratOfF : F64 → ℚ
  | .fin q => q
  | _ => 0

theorem visited_sum_prop {b : ℤ → ℚ} (hb : Monotone b) {lo hi : ℚ} (h : lo < hi) (J : ℤ) :
    ∀ (n : ℕ) (j0 : ℤ), (J + 1 - j0).toNat = n → j0 ≤ J + 1 →
      ((visited j0 J).map (prop b lo hi)).sum = ucdf lo hi (b (J + 1)) - ucdf lo hi (b j0) := by
  intro n
  induction n with
  | zero =>
    intro j0 h1 h2
    have : j0 = J + 1 := by omega
    rw [visited_of_gt (by omega), this]; simp
  | succ n ih =>
    intro j0 h1 h2
    rw [visited_cons (by omega), List.map_cons, List.sum_cons, ih (j0 + 1) (by omega) (by omega),
      prop_eq_ucdf_sub h (hb (by omega))]
    ring

theorem filterMap_weights_sum (f : ℤ → ℚ) (hf : ∀ j, 0 ≤ f j) (c : ℚ) (l : List ℤ) :
    ((l.filterMap fun j => if 0 < f j then some (j, F64.fin (f j * c)) else none).map
        fun p => ratOfF p.2).sum = (l.map f).sum * c := by
  induction l with
  | nil => simp
  | cons j t ih =>
    by_cases hj : 0 < f j
    · have e : (fun j => if 0 < f j then some (j, F64.fin (f j * c)) else none) j
          = some (j, F64.fin (f j * c)) := if_pos hj
      rw [List.filterMap_cons_some (f := fun j => if 0 < f j then some (j, F64.fin (f j * c)) else none) (l := t) e, List.map_cons, List.sum_cons, ih, List.map_cons,
        List.sum_cons]
      show f j * c + _ = _
      ring
    · have e : (fun j => if 0 < f j then some (j, F64.fin (f j * c)) else none) j = none :=
        if_neg hj
      have : f j = 0 := le_antisymm (not_lt.mp hj) (hf j)
      rw [List.filterMap_cons_none (f := fun j => if 0 < f j then some (j, F64.fin (f j * c)) else none) (l := t) e, ih, List.map_cons, List.sum_cons, this]
      ring

/-- **conservation for the float loop** under exact operations: starting at a bin whose lower bound
    is `≤ inLow` (what a consistent `index` returns), the weights add up to the count exactly -/
theorem spreadBin_spec_total (new : MapEnv) (b : ℤ → ℚ) (hlb : ∀ j, new.lowerBound j = .fin (b j))
    (hb : StrictMono b) {lo hi c : ℚ} (h : lo < hi) {J : ℤ}
    (hJ1 : ∀ j, j ≤ J → b j < hi) (hJ2 : hi ≤ b (J + 1))
    (hsize : Exact (hi - lo))
    (hinter : ∀ j, new.index (.fin lo) ≤ j → j ≤ J → Exact (min (b (j + 1)) hi - max (b j) lo))
    (hdiv : ∀ j, new.index (.fin lo) ≤ j → j ≤ J → 0 < prop b lo hi j → Exact (prop b lo hi j))
    (hmul : ∀ j, new.index (.fin lo) ≤ j → j ≤ J → 0 < prop b lo hi j →
      Exact (prop b lo hi j * c))
    (hidx : b (new.index (.fin lo)) ≤ lo)
    (fuel : ℕ) (hfuel : (J + 1 - new.index (.fin lo)).toNat ≤ fuel) :
    ((spreadBin new (.fin lo) (.fin hi) (.fin c) fuel (new.index (.fin lo))).map
        fun p => ratOfF p.2).sum = c := by
  have hj0 : new.index (.fin lo) ≤ J + 1 := by
    have : b (new.index (.fin lo)) < b (J + 1) := by linarith
    exact (hb.lt_iff_lt.mp this).le
  rw [spreadBin_spec new b hlb hb h hJ1 hJ2 hsize hinter hdiv hmul fuel _ le_rfl hj0 hfuel,
    filterMap_weights_sum _ (prop_nonneg b h) c,
    visited_sum_prop hb.monotone h J _ _ rfl hj0, ucdf_of_ge h hJ2, ucdf_of_le h hidx]
  ring

/-- per-bin conservation lifts to the whole store -/
theorem spreadStore_total (old new : MapEnv) (scale : F64) (bins : List (Int × Rat)) (fuel : ℕ)
    (hbin : ∀ p ∈ bins,
      ((spreadBin new (F64.mul (old.lowerBound p.1) scale) (F64.mul (old.lowerBound (p.1 + 1)) scale)
          (.fin p.2) fuel (new.index (F64.mul (old.lowerBound p.1) scale))).map
        fun q => ratOfF q.2).sum = p.2) :
    ((spreadStore old new scale bins fuel).map fun q => ratOfF q.2).sum
      = (bins.map Prod.snd).sum := by
  unfold spreadStore
  induction bins with
  | nil => simp
  | cons p t ih =>
    rw [List.flatMap_cons, List.map_append, List.sum_append, List.map_cons, List.sum_cons,
      ih fun q hq => hbin q (List.mem_cons_of_mem _ hq)]
    congr 1
    exact hbin p (List.mem_cons_self ..)

end Rebin
end DDS
