/-
  DDS.Proofs.Lift3 — helper lemmas for `DDS.Props.Lift3`: the decoders (binary format and
  protobuf) into stores of EVERY kind.

  * `addList` / `addList_good`: adding a list of rational bins, in order, to a `Good` store of
    any kind never panics, keeps `Good` and the kind, and the canonical content becomes
    "merge the bins, then clamp by the rule of the store" — clamping at every step is clamping
    once (`clamp_add_clamp`).  Zero-weight bins may carry ANY index (`AddWithCount(i, 0)` returns
    before looking at the index in every store kind): `BinsOK`.
  * `addBins_finBins`, `addBins_denotes`: the same for the float bins a decoder reads.
  * `applyBlocks_bins_any`, `applyBlocks_sketchBlocks_good`, `encodesTo_applyBlocks_good`,
    `encodesTo_decode_good`: the block fold / the byte-level decoder on the blocks of
    `Sketch.encode`, into a receiver whose stores are `Good` (any kinds, empty or not).
  * `encodesTo_decode_new`, `encodesTo_decode_merge`: the two shapes used by the headline
    theorems (new receiver of kind `k`; non-empty receiver with the same mapping).
    `encOK_keys32`: the encoder's precondition already makes every index an int32.
  * `PB.protoBins`, `PB.MsgOK`, `PB.mergeWithProto_eq_addList`, `PB.mergeWithProto_good`:
    `store.MergeWithProto` into a `Good` store is `addList` on the bins of the message.
  * `PB.storeToProto_good`: the message `ToProto` builds for a `Good` store of any kind (dense
    kinds: contiguous counts of the window; sparse / paginated: sparse entries) is admissible and
    denotes the canonical content of the store.
  * `PB.msgOK_of_b`, `binsOK_of_b`: executable checkers for concrete data.
-/
import DDS.Props.Lift
import DDS.Proofs.RoundTrip
import DDS.Proofs.Proto

namespace DDS.Lift

open DDS DDS.Wire DDS.RoundTrip

/-! ## small facts -/

/-- a good collapsing store has at least one bin -/
theorem good_clampOK (st : Store) (h : Good st) : ClampOK st.clamp := by
  cases st with
  | d s =>
    rcases good_d_cases h with ⟨hk, _, _⟩ | ⟨N, hk, hi, _⟩ | ⟨N, hk, hi, _⟩
    · rw [clamp_plain hk]; trivial
    · rw [clamp_low hk]; exact hi.hN
    · rw [clamp_high hk]; exact hi.hN
  | sp c => trivial
  | pg s => trivial

theorem clamp_apply_nil (cl : Clamp) : cl.apply [] = [] := by
  cases cl <;> rfl

/-- `AddWithCount(i, 0)` is a no-op on every store kind, whatever the index -/
theorem store_add_zero (st : Store) (i : Int) : st.addWithCount i 0 = some st := by
  cases st with
  | d s => simp [Store.addWithCount, DStore.addWithCount]
  | sp c => simp [Store.addWithCount]
  | pg s => simp [Store.addWithCount, PStore.addWithCount]

theorem lookup_nonneg' (L : List (Int × Rat)) (h : ∀ p ∈ L, 0 ≤ p.2) (j : Int) :
    0 ≤ Content.lookup L j := by
  induction L with
  | nil => simp
  | cons q L ih =>
    have h1 := h q (by simp)
    have h2 := ih (fun p hp => h p (by simp [hp]))
    rw [Content.lookup_cons]
    split <;> linarith

theorem lookup_pos_of_mem_nonneg (L : List (Int × Rat)) (h : ∀ p ∈ L, 0 ≤ p.2)
    (p : Int × Rat) (hp : p ∈ L) (hpos : 0 < p.2) : 0 < Content.lookup L p.1 := by
  induction L with
  | nil => simp at hp
  | cons q L ih =>
    have h1 := h q (by simp)
    have h2 := lookup_nonneg' L (fun r hr => h r (by simp [hr])) p.1
    rw [Content.lookup_cons]
    rcases List.mem_cons.1 hp with rfl | hp'
    · rw [if_pos rfl]; linarith
    · have := ih (fun r hr => h r (by simp [hr])) hp'
      split <;> linarith

/-! ## adding a list of bins to a good store of any kind -/

/-- add rational bins to a store, in order (`none` = the store panics) -/
def addList (st : Store) : List (Int × Rat) → Option Store
  | [] => some st
  | p :: l =>
    match st.addWithCount p.1 p.2 with
    | none => none
    | some st' => addList st' l

/-- the float bins `finBins L` go through `addF` exactly as the rational bins `L` go through
    `AddWithCount` -/
theorem addBins_finBins (st : Store) (L : List (Int × Rat)) :
    Sketch.addBins st (finBins L) = addList st L := by
  induction L generalizing st with
  | nil => rfl
  | cons p L ih =>
    simp only [finBins, List.map_cons, Sketch.addBins, Sketch.addF, addList] at ih ⊢
    cases st.addWithCount p.1 p.2 with
    | none => rfl
    | some st' => exact ih st'

theorem addList_append (st : Store) (a b : List (Int × Rat)) :
    addList st (a ++ b) = (match addList st a with | none => none | some st' => addList st' b) := by
  induction a generalizing st with
  | nil => rfl
  | cons p a ih =>
    simp only [List.cons_append, addList]
    cases st.addWithCount p.1 p.2 with
    | none => rfl
    | some st' => exact ih st'

/-- admissible bins: non-negative weights; an int32 index unless the weight is zero (a
    zero-weight bin is skipped before its index is looked at) -/
def BinsOK (L : List (Int × Rat)) : Prop := ∀ p ∈ L, 0 ≤ p.2 ∧ (p.2 ≠ 0 → I32 p.1)

theorem binsOK_of_keys32 (L : List (Int × Rat)) (hnn : ∀ p ∈ L, 0 ≤ p.2)
    (h32 : ∀ p ∈ L, I32 p.1) : BinsOK L := fun p hp => ⟨hnn p hp, fun _ => h32 p hp⟩

theorem binsOK_wf (c : Content) (hc : c.WF) (h32 : ∀ p ∈ c, I32 p.1) : BinsOK c :=
  binsOK_of_keys32 c (nonneg_of_wf c hc) h32

theorem BinsOK.nonneg {L : List (Int × Rat)} (h : BinsOK L) : ∀ p ∈ L, 0 ≤ p.2 :=
  fun p hp => (h p hp).1

theorem BinsOK.append {a b : List (Int × Rat)} (ha : BinsOK a) (hb : BinsOK b) : BinsOK (a ++ b) :=
  fun p hp => (List.mem_append.1 hp).elim (ha p) (hb p)

/-- one `AddWithCount` with an admissible bin, relative to an un-clamped "exact" content `E` -/
theorem good_add_rel (st : Store) (h : Good st) (E : Content) (hE : E.WF)
    (hc : contentOf st = st.clamp.apply E) (i : Int) (w : Rat) (hw : 0 ≤ w)
    (hi : w ≠ 0 → I32 i) :
    ∃ st', st.addWithCount i w = some st' ∧ Good st' ∧ st'.kind = st.kind ∧
      contentOf st' = st.clamp.apply (E.add i w) := by
  by_cases h0 : w = 0
  · subst h0
    exact ⟨st, store_add_zero st i, h, rfl, by rw [Content.add_zero_weight]; exact hc⟩
  · obtain ⟨st', h1, h2, h3, h4⟩ := good_add st h i (hi h0) w hw
    refine ⟨st', h1, h2, h3, ?_⟩
    rw [h4, hc, clamp_add_clamp _ (good_clampOK st h) E hE i w hw]

/-- **adding bins to a store of any kind.**  `E` is any canonical content whose clamped form the
    store holds (for instance its own content, `good_fixed`): after the adds the store holds the
    clamped form of `E` merged with the bins. -/
theorem addList_good (L : List (Int × Rat)) (hL : BinsOK L) (st : Store) (h : Good st)
    (E : Content) (hE : E.WF) (hc : contentOf st = st.clamp.apply E) :
    ∃ st', addList st L = some st' ∧ Good st' ∧ st'.kind = st.kind ∧
      contentOf st' = st.clamp.apply (E.merge L) := by
  induction L generalizing st E with
  | nil => exact ⟨st, rfl, h, rfl, hc⟩
  | cons p L ih =>
    obtain ⟨hp1, hp2⟩ := hL p (by simp)
    obtain ⟨st1, a1, a2, a3, a4⟩ := good_add_rel st h E hE hc p.1 p.2 hp1 hp2
    have hcl : st1.clamp = st.clamp := clamp_of_kind a3
    obtain ⟨st2, b1, b2, b3, b4⟩ := ih (fun q hq => hL q (by simp [hq])) st1 a2 (E.add p.1 p.2)
      (Content.wf_add E p.1 p.2 hE hp1) (by rw [hcl]; exact a4)
    refine ⟨st2, ?_, b2, by rw [b3, a3], ?_⟩
    · simp only [addList, a1]; exact b1
    · rw [b4, hcl, Content.merge_cons]

/-- the bins a `Denotes` statement speaks of are admissible when the denoted content has int32
    keys, and merging them is merging the content -/
theorem denotes_binsOK {fb : List (Int × F64)} {c : Content} (h : Denotes fb c) (hc : c.WF)
    (h32 : ∀ p ∈ c, I32 p.1) :
    ∃ L, fb = finBins L ∧ BinsOK L ∧ ∀ a : Content, a.WF → a.merge L = a.merge c := by
  obtain ⟨L, rfl, hnn, hl⟩ := h
  refine ⟨L, rfl, ?_, ?_⟩
  · intro p hp
    refine ⟨hnn p hp, fun h0 => ?_⟩
    have hpos : 0 < p.2 := lt_of_le_of_ne (hnn p hp) (Ne.symm h0)
    have := lookup_pos_of_mem_nonneg L hnn p hp hpos
    rw [hl] at this
    obtain ⟨q, hq, hqp⟩ := lookup_ne_zero_mem c p.1 (ne_of_gt this)
    rw [← hqp]; exact h32 q hq
  · intro a ha
    apply Content.ext _ _ (Content.wf_merge_of_nonneg a L ha hnn) (Content.wf_merge a c ha hc)
    intro j
    rw [Content.lookup_merge, Content.lookup_merge, hl]

/-- decoded float bins that denote the content `c`, added to a good store of any kind -/
theorem addBins_denotes (st : Store) (h : Good st) {fb : List (Int × F64)} {c : Content}
    (hd : Denotes fb c) (hc : c.WF) (h32 : ∀ p ∈ c, I32 p.1)
    (E : Content) (hE : E.WF) (hcE : contentOf st = st.clamp.apply E) :
    ∃ st', Sketch.addBins st fb = some st' ∧ Good st' ∧ st'.kind = st.kind ∧
      contentOf st' = st.clamp.apply (E.merge c) := by
  obtain ⟨L, rfl, hL, hm⟩ := denotes_binsOK hd hc h32
  obtain ⟨st', a1, a2, a3, a4⟩ := addList_good L hL st h E hE hcE
  exact ⟨st', by rw [addBins_finBins]; exact a1, a2, a3, by rw [a4, hm E hE]⟩

/-! ## the block fold into good stores -/


theorem setSide_getSide (s : Sketch) (side : Side) : setSide s side (getSide s side) = s := by
  cases side <;> rfl

/-- a run of bins blocks of one side folds to "add that side's bins, in stream order"
    (ANY store kind; the forward direction of `Sketch.applyBlocks_interp`) -/
theorem applyBlocks_bins_any (side : Side) (bl : List Block) (hb : ∀ b ∈ bl, IsBins side b)
    (s : Sketch) (aux : Sketch.DecAux) (st' : Store)
    (h : Sketch.addBins (getSide s side) (sideBins (interp bl) side) = some st') :
    Sketch.applyBlocks s aux bl = some (.ok (setSide s side st', aux)) := by
  induction bl generalizing s with
  | nil =>
    rw [sideBins_nil] at h
    simp only [Sketch.addBins, Option.some.injEq] at h
    subst h
    rw [setSide_getSide]; rfl
  | cons b bl ih =>
    obtain ⟨p, rfl⟩ := hb b (by simp)
    have happ := sideBins_append [.bins side p] bl side
    rw [List.singleton_append, (interp_single_bins side p).1] at happ
    rw [happ, Sketch.addBins_append] at h
    cases h1 : Sketch.addBins (getSide s side) (payloadBins p) with
    | none => rw [h1] at h; simp at h
    | some st1 =>
      rw [h1] at h
      simp only at h
      simp only [Sketch.applyBlocks, applyBlock_bins, h1]
      rw [ih (fun b hb' => hb b (by simp [hb'])) (setSide s side st1)
        (by rw [getSide_setSide]; exact h), setSide_setSide]

/-- the blocks of `Sketch.encode` folded into a receiver `r` whose two stores are `Good` (of any
    kinds, not necessarily the same, empty or not): the mapping is set, the zero bucket added, and
    each store holds the clamped form of its exact content merged with the encoded content.
    `Ep`, `En`: canonical contents whose clamped forms the receiver's stores hold. -/
theorem applyBlocks_sketchBlocks_good (m : MapId) (hm : MapOK m) (om : Bool) (z : Rat) (hz : WOK z)
    (pb nb : List Block) (cp cn : Content) (hcp : cp.WF) (hcn : cn.WF)
    (h32p : ∀ p ∈ cp, I32 p.1) (h32n : ∀ p ∈ cn, I32 p.1)
    (hpb : ∀ b ∈ pb, IsBins .pos b) (hnb : ∀ b ∈ nb, IsBins .neg b)
    (hdp : Denotes (sideBins (interp pb) .pos) cp) (hdn : Denotes (sideBins (interp nb) .neg) cn)
    (r : Sketch) (hm0 : if om then r.mapping = some m else Accepts r.mapping m)
    (Gp : Good r.pos) (Gn : Good r.neg) (Ep En : Content) (hEp : Ep.WF) (hEn : En.WF)
    (hcEp : contentOf r.pos = r.pos.clamp.apply Ep) (hcEn : contentOf r.neg = r.neg.clamp.apply En)
    (aux : Sketch.DecAux) :
    ∃ t, Sketch.applyBlocks r aux (sketchBlocks m om z pb nb) = some (.ok (t, aux)) ∧
      t.mapping = some m ∧ t.zero = zeroAfter r.zero z ∧
      Good t.pos ∧ Good t.neg ∧ t.pos.kind = r.pos.kind ∧ t.neg.kind = r.neg.kind ∧
      contentOf t.pos = r.pos.clamp.apply (Ep.merge cp) ∧
      contentOf t.neg = r.neg.clamp.apply (En.merge cn) := by
  unfold sketchBlocks
  rw [List.append_assoc, List.append_assoc,
    applyBlocks_append_ok _ _ _ _ _ _ (applyBlocks_zero r aux z hz)]
  -- the mapping block
  obtain ⟨r2, hmap, m2, z2, p2, n2⟩ : ∃ r2,
      Sketch.applyBlocks { r with zero := zeroAfter r.zero z } aux (mapBlocks m om) = some (.ok (r2, aux)) ∧
      r2.mapping = some m ∧ r2.zero = zeroAfter r.zero z ∧ r2.pos = r.pos ∧ r2.neg = r.neg := by
    unfold mapBlocks
    cases om with
    | true =>
      simp only [if_true] at hm0
      exact ⟨_, rfl, hm0, rfl, rfl, rfl⟩
    | false =>
      simp only [Bool.false_eq_true, if_false] at hm0 ⊢
      exact ⟨_, applyBlocks_mapping _ aux m hm hm0, rfl, rfl, rfl, rfl⟩
  rw [applyBlocks_append_ok _ _ _ _ _ _ hmap]
  -- the positive bins
  obtain ⟨p', a1, a2, a3, a4⟩ := addBins_denotes r.pos Gp hdp hcp h32p Ep hEp hcEp
  have hpos := applyBlocks_bins_any .pos pb hpb r2 aux p' (by
    show Sketch.addBins r2.pos _ = _
    rw [p2]; exact a1)
  rw [applyBlocks_append_ok _ _ _ _ _ _ hpos]
  -- the negative bins
  obtain ⟨n', b1, b2, b3, b4⟩ := addBins_denotes r.neg Gn hdn hcn h32n En hEn hcEn
  have hneg := applyBlocks_bins_any .neg nb hnb (setSide r2 .pos p') aux n' (by
    show Sketch.addBins r2.neg _ = _
    rw [n2]; exact b1)
  exact ⟨_, hneg, m2, z2, a2, b2, a3, b3, a4, b4⟩

/-- every index of a content an encodable store refines is an int32 -/
theorem encOK_keys32 (st : Store) (c : Content) (hr : st.Refines c) (h : EncOK st) :
    ∀ p ∈ c, I32 p.1 := by
  cases st with
  | sp c' =>
    have hcc : c' = c := Option.some.inj hr.bins
    subst hcc
    exact h.1
  | pg s =>
    have hcc : PStore.content s = c := Option.some.inj hr.bins
    rw [← hcc]
    exact pag_keys32 s h.inv
  | d s =>
    have hd : DenseOK s := h
    obtain ⟨hb, hwf, hlk⟩ := hd.content_spec
    have hcc : c = DStore.content s := by
      have := hr.bins
      rw [show (Store.d s).binsList = s.binsList from rfl, hb] at this
      exact (Option.some.inj this).symm
    subst hcc
    intro p hp
    have hpos : 0 < DStore.wt s p.1 := by
      rw [← hlk, Content.lookup_pos_of_mem _ hwf p hp]; exact hwf.2 p hp
    have hin : ¬ (p.1 < s.minIndex ∨ s.maxIndex < p.1) := fun hc => by
      rw [hd.outside _ hc] at hpos; exact absurd hpos (by decide)
    have h0 : s.count ≠ 0 := fun h0 => by
      have := hd.emptyWin h0
      exact hin (by omega)
    obtain ⟨r1, r2⟩ := hd.range h0
    unfold PStore.Idx32 at r1 r2
    exact ⟨by omega, by omega⟩

/-- the fold of the encoded blocks over any receiver with `Good` stores that accepts the
    mapping -/
theorem encodesTo_applyBlocks_good {s : Sketch} {cp cn : Content} {m : MapId} {z : Rat} {om : Bool}
    {s' : Sketch} {bl : List Block} (h : EncodesTo s cp cn m z om s' bl)
    (h32p : ∀ p ∈ cp, I32 p.1) (h32n : ∀ p ∈ cn, I32 p.1)
    (hm : MapOK m) (hz : WOK z) (r : Sketch)
    (hm0 : if om then r.mapping = some m else Accepts r.mapping m)
    (Gp : Good r.pos) (Gn : Good r.neg) (Ep En : Content) (hEp : Ep.WF) (hEn : En.WF)
    (hcEp : contentOf r.pos = r.pos.clamp.apply Ep) (hcEn : contentOf r.neg = r.neg.clamp.apply En)
    (aux : Sketch.DecAux) :
    ∃ t, Sketch.applyBlocks r aux bl = some (.ok (t, aux)) ∧
      t.mapping = some m ∧ t.zero = zeroAfter r.zero z ∧
      Good t.pos ∧ Good t.neg ∧ t.pos.kind = r.pos.kind ∧ t.neg.kind = r.neg.kind ∧
      contentOf t.pos = r.pos.clamp.apply (Ep.merge cp) ∧
      contentOf t.neg = r.neg.clamp.apply (En.merge cn) := by
  obtain ⟨pb, nb, rfl, _, rr, _, _, w1, w2, d1, d2⟩ := h
  exact applyBlocks_sketchBlocks_good m hm om z hz pb nb cp cn rr.pos.wf rr.neg.wf h32p h32n
    (fun b hb => (w1 b hb).2.2) (fun b hb => (w2 b hb).2.2) d1 d2 r hm0 Gp Gn Ep En hEp hEn
    hcEp hcEn aux

/-- decoding the encoded bytes into any receiver with `Good` stores that accepts the mapping -/
theorem encodesTo_decode_good {s : Sketch} {cp cn : Content} {m : MapId} {z : Rat} {om : Bool}
    {s' : Sketch} {bl : List Block} (h : EncodesTo s cp cn m z om s' bl)
    (h32p : ∀ p ∈ cp, I32 p.1) (h32n : ∀ p ∈ cn, I32 p.1)
    (hm : MapOK m) (hz : WOK z) (r : Sketch)
    (hm0 : if om then r.mapping = some m else Accepts r.mapping m)
    (Gp : Good r.pos) (Gn : Good r.neg) (Ep En : Content) (hEp : Ep.WF) (hEn : En.WF)
    (hcEp : contentOf r.pos = r.pos.clamp.apply Ep)
    (hcEn : contentOf r.neg = r.neg.clamp.apply En) :
    ∃ t, Sketch.decodeAndMergeWith r (encBlocks bl) = some (.ok t) ∧
      t.mapping = some m ∧ t.zero = zeroAfter r.zero z ∧
      Good t.pos ∧ Good t.neg ∧ t.pos.kind = r.pos.kind ∧ t.neg.kind = r.neg.kind ∧
      contentOf t.pos = r.pos.clamp.apply (Ep.merge cp) ∧
      contentOf t.neg = r.neg.clamp.apply (En.merge cn) := by
  obtain ⟨t, h1, h2, rest⟩ := encodesTo_applyBlocks_good h h32p h32n hm hz r hm0 Gp Gn Ep En hEp hEn
    hcEp hcEn { stats := none }
  exact ⟨t, decodeAndMergeWith_encBlocks r t _ bl h.wf h1 (by rw [h2]; rfl), h2, rest⟩

/-- a good store has an admissible kind -/
theorem good_kindOK (st : Store) (h : Good st) : KindOK st.kind := by
  cases st with
  | d s =>
    rcases good_d_cases h with ⟨hk, _, _⟩ | ⟨N, hk, hi, _⟩ | ⟨N, hk, hi, _⟩
    · rw [kind_plain hk]; trivial
    · rw [kind_low hk]; exact hi.hN
    · rw [kind_high hk]; exact hi.hN
  | sp c => trivial
  | pg s => trivial

/-- what a good store holds is the clamped form of what it holds -/
theorem good_fixed' (st : Store) (h : Good st) : contentOf st = st.clamp.apply (contentOf st) :=
  (good_fixed st h).symm

/-- decoding an encoding into a NEW sketch on stores of kind `k` (with a mapping `m0` the
    encoding is compatible with: the same one when the mapping is omitted, none or an equal one
    otherwise) -/
theorem encodesTo_decode_new (k : StoreKind) (hk : KindOK k) {s : Sketch} {cp cn : Content}
    {m : MapId} {z : Rat} {om : Bool} {s' : Sketch} {bl : List Block}
    (h : EncodesTo s cp cn m z om s' bl)
    (h32p : ∀ p ∈ cp, I32 p.1) (h32n : ∀ p ∈ cn, I32 p.1) (hm : MapOK m) (hz : WOK z)
    (m0 : Option MapId) (hm0 : if om then m0 = some m else Accepts m0 m) :
    ∃ t, Sketch.decodeAndMergeWith (Sketch.new m0 k) (encBlocks bl) = some (.ok t) ∧
      t.mapping = some m ∧ t.zero = .fin z ∧ Good t.pos ∧ Good t.neg ∧
      t.pos.kind = k ∧ t.neg.kind = k ∧
      contentOf t.pos = (clampOfKind k).apply cp ∧ contentOf t.neg = (clampOfKind k).apply cn := by
  obtain ⟨g, c0, k0⟩ := good_new k hk
  have hwf := (id h : EncodesTo s cp cn m z om s' bl)
  obtain ⟨pb, nb, _, _, rr, _⟩ := hwf
  have hc0 : contentOf (Store.new k) = (Store.new k).clamp.apply [] := by
    rw [c0, clamp_apply_nil]
  obtain ⟨t, t1, t2, t3, t4, t5, t6, t7, t8, t9⟩ := encodesTo_decode_good h h32p h32n hm hz
    (Sketch.new m0 k) hm0 g g [] [] Content.wf_nil Content.wf_nil hc0 hc0
  refine ⟨t, t1, t2, ?_, t4, t5, t6.trans k0, t7.trans k0, ?_, ?_⟩
  · rw [t3]; exact zeroAfter_zero z hz
  · rw [t8, Content.merge_nil_left cp rr.pos.wf]
    show (Store.new k).clamp.apply cp = _
    rw [clamp_new]
  · rw [t9, Content.merge_nil_left cn rr.neg.wf]
    show (Store.new k).clamp.apply cn = _
    rw [clamp_new]

/-- decoding an encoding into a receiver that has the same (finite) mapping, good stores of any
    kinds and a finite zero bucket: a merge -/
theorem encodesTo_decode_merge {s : Sketch} {cp cn : Content}
    {m : MapId} {z : Rat} {om : Bool} {s' : Sketch} {bl : List Block}
    (h : EncodesTo s cp cn m z om s' bl)
    (h32p : ∀ p ∈ cp, I32 p.1) (h32n : ∀ p ∈ cn, I32 p.1) (hm : MapOK m) (hmf : MapFinite m)
    (hz : WOK z) (r : Sketch) (hrm : r.mapping = some m) (Gp : Good r.pos) (Gn : Good r.neg)
    (z₀ : Rat) (hrz : r.zero = .fin z₀) (hadd : F64.add (.fin z₀) (.fin z) = .fin (z₀ + z))
    (Ep En : Content) (hEp : Ep.WF) (hEn : En.WF)
    (hcEp : contentOf r.pos = r.pos.clamp.apply Ep)
    (hcEn : contentOf r.neg = r.neg.clamp.apply En) :
    ∃ t, Sketch.decodeAndMergeWith r (encBlocks bl) = some (.ok t) ∧
      t.mapping = some m ∧ t.zero = .fin (z₀ + z) ∧ Good t.pos ∧ Good t.neg ∧
      t.pos.kind = r.pos.kind ∧ t.neg.kind = r.neg.kind ∧
      contentOf t.pos = r.pos.clamp.apply (Ep.merge cp) ∧
      contentOf t.neg = r.neg.clamp.apply (En.merge cn) := by
  obtain ⟨t, t1, t2, t3, rest⟩ := encodesTo_decode_good h h32p h32n hm hz r
    (by
      rw [hrm]
      cases om
      · simpa using accepts_self m hmf
      · simp) Gp Gn Ep En hEp hEn hcEp hcEn
  refine ⟨t, t1, t2, ?_, rest⟩
  rw [t3, hrz]; exact zeroAfter_exact z₀ z hadd

/-! ## `store.MergeWithProto` into a good store of any kind -/

open DDS.Proto in
/-- a monadic fold of "add the weight of this item at its key" is `addList` on the items' bins,
    when every weight is defined -/
theorem foldlM_add_eq_addList {α} (items : List α) (key : α → Int) (wt : α → Option Rat)
    (hw : ∀ e ∈ items, (wt e).isSome = true) (st : Store) :
    items.foldlM (fun (s : Store) e => (wt e).bind (fun w => s.addWithCount (key e) w)) st =
      addList st (items.map (fun e => (key e, (wt e).getD 0))) := by
  induction items generalizing st with
  | nil => rfl
  | cons e items ih =>
    obtain ⟨w, hw1⟩ := Option.isSome_iff_exists.mp (hw e (by simp))
    rw [List.foldlM_cons, List.map_cons, addList, hw1]
    simp only [Option.bind_some, Option.getD_some, Option.bind_eq_bind]
    cases st.addWithCount (key e) w with
    | none => rfl
    | some st' => exact ih (fun x hx => hw x (by simp [hx])) st'

theorem lookup_map_bins {α} (items : List α) (key : α → Int) (g : α → Rat) (j : Int) :
    Content.lookup (items.map (fun e => (key e, g e))) j =
      (items.map (fun e => if key e = j then g e else 0)).sum := by
  induction items with
  | nil => rfl
  | cons e items ih =>
    rw [List.map_cons, Content.lookup_cons, List.map_cons, List.sum_cons, ih]

namespace PB
open DDS.Proto

/-- the `(index, weight)` bins a `Store` message carries, in the order `MergeWithProto` adds
    them: the canonical (last entry per key, sorted) sparse entries, then the contiguous counts
    (entry number `i` at index `i + contiguousBinIndexOffset`); an undecodable weight reads 0 -/
def protoBins (pb : PbStore) : List (Int × Rat) :=
  (normBinCounts pb.binCounts).map (fun e => (e.1, (weightOf e.2).getD 0)) ++
    (pb.contiguous.zipIdx).map (fun cv => ((cv.2 : Int) + pb.contiguousOffset, (weightOf cv.1).getD 0))

/-- index by index, the bins of a message weigh what `C09.mergeWithProto_adds` says -/
theorem lookup_protoBins (pb : PbStore) (j : Int) :
    Content.lookup (protoBins pb) j =
      binWeight (normBinCounts pb.binCounts) j +
        contigWeight pb.contiguous pb.contiguousOffset j := by
  unfold protoBins binWeight contigWeight
  have happ : ∀ a b : List (Int × Rat), Content.lookup (a ++ b) j =
      Content.lookup a j + Content.lookup b j := by
    intro a b
    induction a with
    | nil => simp
    | cons p a ih =>
      rw [List.cons_append, Content.lookup_cons, Content.lookup_cons, ih]
      split <;> ring
  rw [happ, lookup_map_bins _ (fun e : Int × Nat => e.1) (fun e => (weightOf e.2).getD 0),
    lookup_map_bins _ (fun cv : Nat × Nat => (cv.2 : Int) + pb.contiguousOffset)
      (fun cv => (weightOf cv.1).getD 0)]

/-- every weight of the message is a finite non-negative float, and every bin with a non-zero
    weight has an int32 index -/
def MsgOK (pb : PbStore) : Prop :=
  (∀ e ∈ pb.binCounts, ∃ w, weightOf e.2 = some w ∧ 0 ≤ w ∧ (w ≠ 0 → I32 e.1)) ∧
  (∀ cv ∈ pb.contiguous.zipIdx, ∃ w, weightOf cv.1 = some w ∧ 0 ≤ w ∧
    (w ≠ 0 → I32 ((cv.2 : Int) + pb.contiguousOffset)))

theorem binsOK_protoBins (pb : PbStore) (h : MsgOK pb) : BinsOK (protoBins pb) := by
  apply BinsOK.append
  · intro p hp
    obtain ⟨e, he, rfl⟩ := List.mem_map.1 hp
    obtain ⟨w, h1, h2, h3⟩ := h.1 e (mem_normBinCounts _ _ he)
    simp only [h1, Option.getD_some]
    exact ⟨h2, h3⟩
  · intro p hp
    obtain ⟨cv, hcv, rfl⟩ := List.mem_map.1 hp
    obtain ⟨w, h1, h2, h3⟩ := h.2 cv hcv
    simp only [h1, Option.getD_some]
    exact ⟨h2, h3⟩

/-- `MergeWithProto` is `addList` on the bins of the message -/
theorem mergeWithProto_eq_addList (pb : PbStore) (h : MsgOK pb) (st : Store) :
    mergeWithProto st pb = addList st (protoBins pb) := by
  rw [mergeWithProto_eq, protoBins, addList_append]
  have e1 := foldlM_add_eq_addList (normBinCounts pb.binCounts) (fun e : Int × Nat => e.1)
    (fun e => weightOf e.2) (fun e he => by
      obtain ⟨w, h1, _⟩ := h.1 e (mem_normBinCounts _ _ he)
      rw [h1]; rfl) st
  have e2 := fun st1 => foldlM_add_eq_addList pb.contiguous.zipIdx
    (fun cv : Nat × Nat => (cv.2 : Int) + pb.contiguousOffset) (fun cv => weightOf cv.1)
    (fun cv hcv => by
      obtain ⟨w, h1, _⟩ := h.2 cv hcv
      rw [h1]; rfl) st1
  have e1' : (normBinCounts pb.binCounts).foldlM binStep st = _ := e1
  rw [e1']
  cases addList st ((normBinCounts pb.binCounts).map (fun e => (e.1, (weightOf e.2).getD 0))) with
  | none => rfl
  | some st1 => exact e2 st1

/-- **`MergeWithProto` into a store of any kind**: never panics, keeps `Good` and the kind; the
    store then holds the clamped form of its exact content merged with the bins of the message -/
theorem mergeWithProto_good (pb : PbStore) (h : MsgOK pb) (st : Store) (hg : Good st)
    (E : Content) (hE : E.WF) (hcE : contentOf st = st.clamp.apply E) :
    ∃ st', mergeWithProto st pb = some st' ∧ Good st' ∧ st'.kind = st.kind ∧
      contentOf st' = st.clamp.apply (E.merge (protoBins pb)) := by
  rw [mergeWithProto_eq_addList pb h]
  exact addList_good _ (binsOK_protoBins pb h) st hg E hE hcE

/-- the message `ToProto` builds for a sparse store with float weights -/
theorem msgOK_content (c : Content) (hwf : c.WF) (hc : ∀ p ∈ c, F64.isRep p.2 = true)
    (h32 : ∀ p ∈ c, I32 p.1) :
    MsgOK { binCounts := c.map (fun p => (p.1, ratBits p.2)) } ∧
    protoBins { binCounts := c.map (fun p => (p.1, ratBits p.2)) } = c := by
  constructor
  · refine ⟨?_, by simp⟩
    intro e he
    obtain ⟨p, hp, rfl⟩ := List.mem_map.1 he
    exact ⟨p.2, weightOf_ratBits p.2 (hc p hp), nonneg_of_wf c hwf p hp, fun _ => h32 p hp⟩
  · unfold protoBins
    simp only [List.zipIdx_nil, List.map_nil, List.append_nil]
    rw [normBinCounts_of_increasing _ (by
      rw [List.pairwise_map]; exact sorted_pairwise c hwf.1), List.map_map]
    conv => rhs; rw [← List.map_id c]
    apply List.map_congr_left
    intro p hp
    simp only [Function.comp, weightOf_ratBits p.2 (hc p hp), Option.getD_some, id]

/-! ### the message `ToProto` builds for a good store of any kind -/

/-- what `ToProto` / `Encode` read of a dense-family store: the window facts shared by the three
    dense kinds -/
structure DenseWin (s : DStore) : Prop where
  nonneg : ∀ j, 0 ≤ DStore.wt s j
  outside : ∀ i, (i < s.minIndex ∨ s.maxIndex < i) → DStore.wt s i = 0
  window : s.count ≠ 0 → s.offset ≤ s.minIndex ∧ s.minIndex ≤ s.maxIndex ∧
    s.maxIndex < s.offset + s.len
  emptyWin : s.count = 0 → s.maxIndex < s.minIndex

theorem denseWin_of_good (s : DStore) (h : Good (.d s)) : DenseWin s := by
  rcases good_d_cases h with ⟨_, hi, _⟩ | ⟨N, _, hi, _⟩ | ⟨N, _, hi, _⟩
  · exact ⟨hi.wt_nonneg, hi.outside, fun h0 => let ⟨a, b, c, _, _⟩ := hi.window h0; ⟨a, b, c⟩,
      fun h0 => by obtain ⟨_, a, b⟩ := hi.empty h0; rw [a, b]; decide⟩
  · exact ⟨hi.wt_nonneg, hi.outside, hi.window,
      fun h0 => by obtain ⟨_, a, b, _⟩ := hi.empty h0; rw [a, b]; decide⟩
  · exact ⟨hi.wt_nonneg, hi.outside, hi.window,
      fun h0 => by obtain ⟨_, a, b, _⟩ := hi.empty h0; rw [a, b]; decide⟩

theorem DenseWin.inWindow {s : DStore} (hd : DenseWin s) (idx : Int) (h1 : s.minIndex ≤ idx)
    (h2 : idx < s.minIndex + ((s.maxIndex - s.minIndex + 1).toNat : Int)) :
    0 ≤ idx - s.offset ∧ idx - s.offset < s.bins.size := by
  by_cases h0 : s.count = 0
  · have := hd.emptyWin h0
    omega
  · obtain ⟨w1, w2, w3⟩ := hd.window h0
    unfold DStore.len at w3
    omega

theorem DenseWin.content_spec {s : DStore} (hd : DenseWin s) :
    s.binsList = some (DStore.content s) ∧ (DStore.content s).WF ∧
      ∀ j, (DStore.content s).lookup j = DStore.wt s j :=
  DStore.content_spec_gen s hd.nonneg hd.outside hd.inWindow

theorem normBinCounts_nil : normBinCounts [] = [] :=
  normBinCounts_of_increasing [] List.Pairwise.nil

theorem protoBins_empty : protoBins {} = [] := by
  unfold protoBins
  show (normBinCounts []).map _ ++ _ = _
  rw [normBinCounts_nil]; rfl

theorem msgOK_empty : MsgOK {} := ⟨by simp, by simp⟩

/-- the contiguous counts of a message, position by position -/
theorem contig_seqBins (ws : List Rat) (hrep : ∀ w ∈ ws, F64.isRep w = true) (k : Nat) (off : Int) :
    ((ws.map ratBits).zipIdx k).map (fun cv => ((cv.2 : Int) + off, (weightOf cv.1).getD 0)) =
      seqBins ((k : Int) + off) ws := by
  induction ws generalizing k with
  | nil => rfl
  | cons a ws ih =>
    rw [List.map_cons, List.zipIdx_cons, List.map_cons, seqBins,
      ih (fun w hw => hrep w (by simp [hw])) (k + 1)]
    simp only [weightOf_ratBits a (hrep a (by simp)), Option.getD_some]
    congr 2
    push_cast; omega

theorem contig_msgOK (ws : List Rat) (hrep : ∀ w ∈ ws, F64.isRep w = true)
    (hnn : ∀ w ∈ ws, 0 ≤ w) (k : Nat) (off : Int)
    (h32 : ∀ p ∈ seqBins ((k : Int) + off) ws, p.2 ≠ 0 → I32 p.1) :
    ∀ cv ∈ (ws.map ratBits).zipIdx k, ∃ w, weightOf cv.1 = some w ∧ 0 ≤ w ∧
      (w ≠ 0 → I32 ((cv.2 : Int) + off)) := by
  induction ws generalizing k with
  | nil => intro cv hcv; simp at hcv
  | cons a ws ih =>
    intro cv hcv
    rw [List.map_cons, List.zipIdx_cons, List.mem_cons] at hcv
    rcases hcv with rfl | hcv
    · exact ⟨a, weightOf_ratBits a (hrep a (by simp)), hnn a (by simp),
        fun h0 => h32 ((k : Int) + off, a) (by simp [seqBins]) h0⟩
    · refine ih (fun w hw => hrep w (by simp [hw])) (fun w hw => hnn w (by simp [hw])) (k + 1) ?_ cv hcv
      intro p hp
      apply h32 p
      rw [seqBins]
      have e : (((k + 1 : Nat) : Int) + off) = (k : Int) + off + 1 := by push_cast; omega
      rw [e] at hp
      exact List.mem_cons_of_mem _ hp

/-- the message of a dense-family store: contiguous counts of the window, denoting the weights -/
theorem storeToProto_dense (s : DStore) (hd : DenseWin s)
    (hrep : ∀ j, F64.isRep (DStore.wt s j) = true) (h32 : ∀ j, DStore.wt s j ≠ 0 → I32 j) :
    ∃ pb, storeToProto (.d s) = some pb ∧ MsgOK pb ∧ (∀ p ∈ protoBins pb, 0 ≤ p.2) ∧
      ∀ j, Content.lookup (protoBins pb) j = DStore.wt s j := by
  by_cases h0 : s.count = 0
  · have he : s.isEmpty = true := (DStore.isEmpty_iff_count s).2 h0
    refine ⟨{}, by simp [storeToProto, he], msgOK_empty, by rw [protoBins_empty]; simp, fun j => ?_⟩
    have := hd.emptyWin h0
    rw [protoBins_empty, hd.outside j (by omega)]; rfl
  · have hne : s.isEmpty = false := by
      cases h : s.isEmpty with
      | false => rfl
      | true => exact absurd ((DStore.isEmpty_iff_count s).1 h) h0
    obtain ⟨n, hn⟩ : ∃ n, n = (s.maxIndex - s.minIndex + 1).toNat := ⟨_, rfl⟩
    have hcounts : (DStore.idxRange s.minIndex s.maxIndex).mapM
        (fun i => DStore.rd s.bins (i - s.offset)) = some ((DStore.irange s.minIndex n).map (DStore.wt s)) := by
      rw [DStore.idxRange_eq, ← hn]
      apply mapM_eq_some_map
      intro i hi
      simp only [DStore.irange, List.mem_map, List.mem_range] at hi
      obtain ⟨k, hk, rfl⟩ := hi
      exact DStore.rd_eq _ _ (hd.inWindow _ (by omega) (by omega))
    have hrep' : ∀ w ∈ (DStore.irange s.minIndex n).map (DStore.wt s), F64.isRep w = true := by
      intro w hw; obtain ⟨i, _, rfl⟩ := List.mem_map.1 hw; exact hrep i
    have hnn' : ∀ w ∈ (DStore.irange s.minIndex n).map (DStore.wt s), 0 ≤ w := by
      intro w hw; obtain ⟨i, _, rfl⟩ := List.mem_map.1 hw; exact hd.nonneg i
    have hseq := contig_seqBins _ hrep' 0 s.minIndex
    simp only [Nat.cast_zero, zero_add] at hseq
    rw [seqBins_irange] at hseq
    have hpb : protoBins
        { contiguous := ((DStore.irange s.minIndex n).map (DStore.wt s)).map ratBits,
          contiguousOffset := s.minIndex } =
        (DStore.irange s.minIndex n).map (fun i => (i, DStore.wt s i)) := by
      unfold protoBins
      simp only
      rw [normBinCounts_nil, List.map_nil, List.nil_append, hseq]
    refine ⟨{ contiguous := ((DStore.irange s.minIndex n).map (DStore.wt s)).map ratBits,
              contiguousOffset := s.minIndex }, ?_, ⟨by simp, ?_⟩, ?_, fun j => ?_⟩
    · simp only [storeToProto, hne, Bool.false_eq_true, ↓reduceIte, hcounts, Option.bind_eq_bind,
        Option.bind_some, Option.pure_def]
    · apply contig_msgOK _ hrep' hnn' 0 s.minIndex
      simp only [Nat.cast_zero, zero_add]
      rw [seqBins_irange]
      intro p hp
      obtain ⟨i, _, rfl⟩ := List.mem_map.1 hp
      exact h32 i
    · rw [hpb]
      intro p hp
      obtain ⟨i, _, rfl⟩ := List.mem_map.1 hp
      exact hd.nonneg i
    · rw [hpb, lookup_irange_map]
      obtain ⟨w1, w2, w3⟩ := hd.window h0
      split
      · rfl
      · rename_i hj
        exact (hd.outside j (by omega)).symm

theorem isRep_zero : F64.isRep 0 = true := wOK_zero.1

/-- **the message `ToProto` builds for a good store of ANY kind** (float weights) is admissible
    and its bins denote, index by index, the canonical content of the store -/
theorem storeToProto_good (st : Store) (h : Good st)
    (hrep : ∀ p ∈ contentOf st, F64.isRep p.2 = true) :
    ∃ pb, storeToProto st = some pb ∧ MsgOK pb ∧ (∀ p ∈ protoBins pb, 0 ≤ p.2) ∧
      ∀ j, Content.lookup (protoBins pb) j = (contentOf st).lookup j := by
  have hwf := good_wf st h
  have h32 := good_keys32 st h
  cases st with
  | sp c =>
    obtain ⟨ok, eb⟩ := msgOK_content c hwf hrep h32
    exact ⟨_, rfl, ok, by rw [eb]; exact nonneg_of_wf c hwf, fun j => by rw [eb]; rfl⟩
  | pg s =>
    by_cases he : s.isEmpty = true
    · have hc : contentOf (.pg s) = [] := good_empty _ h he
      refine ⟨{}, by simp [storeToProto, he], msgOK_empty, by rw [protoBins_empty]; simp, fun j => ?_⟩
      rw [protoBins_empty, hc]
    · have hc : contentOf (.pg s) = s.binsList := rfl
      obtain ⟨ok, eb⟩ := msgOK_content s.binsList (hc ▸ hwf) (hc ▸ hrep) (hc ▸ h32)
      exact ⟨_, by simp [storeToProto, he], ok, by rw [eb]; exact nonneg_of_wf _ (hc ▸ hwf),
        fun j => by rw [eb, hc]⟩
  | d s =>
    have hd := denseWin_of_good s h
    obtain ⟨_, _, hlk⟩ := hd.content_spec
    have hcc : contentOf (.d s) = DStore.content s := rfl
    have hrep' : ∀ j, F64.isRep (DStore.wt s j) = true := by
      intro j
      by_cases h0 : DStore.wt s j = 0
      · rw [h0]; exact isRep_zero
      · rw [← hlk] at h0
        obtain ⟨p, hp, hpj⟩ := lookup_ne_zero_mem _ j h0
        rw [← hlk, ← hpj, Content.lookup_pos_of_mem _ (hcc ▸ hwf) p hp]
        exact hrep p (hcc ▸ hp)
    have h32' : ∀ j, DStore.wt s j ≠ 0 → I32 j := by
      intro j h0
      rw [← hlk] at h0
      obtain ⟨p, hp, hpj⟩ := lookup_ne_zero_mem _ j h0
      rw [← hpj]; exact h32 p (hcc ▸ hp)
    obtain ⟨pb, a1, a2, a3, a4⟩ := storeToProto_dense s hd hrep' h32'
    exact ⟨pb, a1, a2, a3, fun j => by rw [a4, hcc, hlk]⟩

/-- merging bins that weigh like a canonical content is merging that content -/
theorem merge_of_lookup (a : Content) (ha : a.WF) (L : List (Int × Rat)) (hnn : ∀ p ∈ L, 0 ≤ p.2)
    (c : Content) (hc : c.WF) (hl : ∀ j, Content.lookup L j = c.lookup j) :
    a.merge L = a.merge c := by
  apply Content.ext _ _ (Content.wf_merge_of_nonneg a L ha hnn) (Content.wf_merge a c ha hc)
  intro j
  rw [Content.lookup_merge, Content.lookup_merge, hl]

/-- executable form of `MsgOK`, for concrete messages -/
def msgOKb (pb : PbStore) : Bool :=
  pb.binCounts.all (fun e =>
    match weightOf e.2 with
    | some w => decide (0 ≤ w) && (decide (w = 0) || decide (I32 e.1))
    | none => false) &&
  pb.contiguous.zipIdx.all (fun cv =>
    match weightOf cv.1 with
    | some w => decide (0 ≤ w) && (decide (w = 0) || decide (I32 ((cv.2 : Int) + pb.contiguousOffset)))
    | none => false)

theorem msgOK_of_b (pb : PbStore) (h : msgOKb pb = true) : MsgOK pb := by
  unfold msgOKb at h
  rw [Bool.and_eq_true, List.all_eq_true, List.all_eq_true] at h
  constructor
  · intro e he
    have := h.1 e he
    cases hw : weightOf e.2 with
    | none => rw [hw] at this; simp at this
    | some w =>
      rw [hw] at this
      simp only [Bool.and_eq_true, Bool.or_eq_true, decide_eq_true_eq] at this
      exact ⟨w, rfl, this.1, fun h0 => this.2.resolve_left h0⟩
  · intro cv hcv
    have := h.2 cv hcv
    cases hw : weightOf cv.1 with
    | none => rw [hw] at this; simp at this
    | some w =>
      rw [hw] at this
      simp only [Bool.and_eq_true, Bool.or_eq_true, decide_eq_true_eq] at this
      exact ⟨w, rfl, this.1, fun h0 => this.2.resolve_left h0⟩

end PB

/-- executable form of `BinsOK`, for concrete bin lists -/
def binsOKb (L : List (Int × Rat)) : Bool :=
  L.all (fun p => decide (0 ≤ p.2) && (decide (p.2 = 0) || decide (I32 p.1)))

theorem binsOK_of_b (L : List (Int × Rat)) (h : binsOKb L = true) : BinsOK L := by
  unfold binsOKb at h
  rw [List.all_eq_true] at h
  intro p hp
  have := h p hp
  simp only [Bool.and_eq_true, Bool.or_eq_true, decide_eq_true_eq] at this
  exact ⟨this.1, fun h0 => this.2.resolve_left h0⟩

end DDS.Lift
