/-
  DDS.Proofs.GenDenseSketch — the sketch over the REGENERATED dense stores (`DDS/Generated/CodeDense.lean`):
  the regenerated sketch (`DDS/Generated/CodeSketch.lean`) instantiated with the regenerated `DenseStore`
  behaves exactly like the same regenerated sketch over the hand-written model's stores
  (`instance : StoreI Store`, `DDS/Proofs/GenSketch.lean`) of kind `.dense`.

  1. `GDS` — the regenerated `DenseStore` wrapped; `instance : StoreI GDS`: every method runs the regenerated
     function with a fuel computed from the state (`extendFuel`, `mergeFuel`, `reweightFuel`, `encodeFuel` of the
     model image `ofGen g`).  Conventions of `instance : StoreI Store` / `GenPagSketch`: a panicking (or
     fuel-starved) mutator leaves the receiver unchanged; a non-finite weight leaves the receiver unchanged;
     `TotalCount` is `.fin` of the rational total; `KeyAtRank` at `-Inf` is rank 0, at `+Inf`/NaN the maximum index
     (0 when empty).  NOT covered by any theorem here: `Encode` (regenerated code, fuel `encodeFuel`),
     `DecodeAndMergeWith` (the regenerated generic `store.DecodeAndMergeWith`, heuristic fuel), `ForEachList`
     (defined through the model image).
  2. `DSim x st`: `∃ d, x.g = toGen d ∧ st = .d d ∧ d.kind = .plain` — EXACT: the dense model is structurally the
     code (`GenDense.*_rel`), so no invariant, no content abstraction and NO condition on the indexes is needed
     (`Adm = True`): where the Go code panics (the far-index finding `C04Gen.gen_addWithCount_far_panics`) the
     model panics too and both instances leave the receiver unchanged.
     Method lemmas `dsim_*`, `denseStoreSim : StoreSim GDS Store`.
  3. `dense_history_observers`: from `NewDDSketch m NewDenseStore NewDenseStore`, after ANY history of
     `AddWithCount` calls (no side condition at all), the errors and every observer agree with the regenerated
     sketch over the model stores `Store.new .dense`; `dense_*_param` abbreviations of the generic parametricity
     theorems.
  4. The same for the regenerated `CollapsingLowestDenseStore` (namespace `DDS.GenLowSketch`, second half of the
     file): `GLS n` (bin limit as a type index; `Add`, `AddWithCount`, `MergeWith`, `Copy`, `Clear` are the
     store's own regenerated methods, the others the promoted methods of the embedded `DenseStore`, as in Go),
     `LSim x st`: `∃ d, x.g = toLow n d ∧ st = .d d ∧ d.kind = .low n` (exact again, every index admissible),
     `lsim_*`, `lowStoreSim n : StoreSim (GLS n) Store`, `low_runAdds`, `low_history_observers`.
  5. The same for the regenerated `CollapsingHighestDenseStore` (namespace `DDS.GenHighSketch`, last part of the
     file): `GHS n`, `HSim`, `hsim_*`, `highStoreSim n`, `high_runAdds`, `high_history_observers`.

  No fuel hypothesis appears in the statements.  Core Lean only.
-/
import DDS.Proofs.GenStoreSim
import DDS.Proofs.GenDense
import DDS.Proofs.GenDenseEncode
import DDS.Proofs.GenCollapsingLow
import DDS.Proofs.GenCollapsingHigh

namespace DDS.GenDenseSketch

open DDS DDS.GoSem DDS.DStore DDS.GenDense DDS.Gen.Dense DDS.GenStoreSim
open DDS.GenPagSketch (okOr okOr_ok runAdds)

/-- the regenerated dense store -/
structure GDS where
  g : GS

instance : Inhabited GDS := ⟨⟨NewDenseStore⟩⟩

/-! ### the methods -/

def gAdd (x : GDS) (i : Int) : GDS :=
  ⟨okOr (DenseStore.Add (extendFuel (ofGen x.g) i i) x.g i) x.g⟩

def gAddWithCount (x : GDS) (i : Int) (c : F64) : GDS :=
  match ratOfF64 c with
  | some w => ⟨okOr (DenseStore.AddWithCount (extendFuel (ofGen x.g) i i) x.g i w) x.g⟩
  | none => x

def gCopy (x : GDS) : GDS := ⟨DenseStore.Copy x.g⟩

def gClear (x : GDS) : GDS := ⟨okOr (DenseStore.Clear 1 x.g) x.g⟩

def gIsEmpty (x : GDS) : Bool := DenseStore.IsEmpty x.g

def gTotalCount (x : GDS) : F64 := .fin (DenseStore.TotalCount x.g)

def gMinIndex (x : GDS) : Int × GoErr := DenseStore.MinIndex x.g

def gMaxIndex (x : GDS) : Int × GoErr := DenseStore.MaxIndex x.g

def gKeyAtRankQ (x : GDS) (r : Rat) : Int := okOr (DenseStore.KeyAtRank 1 x.g r) 0

/-- float rank: `-Inf` behaves as rank 0 (the store clamps negative ranks), `+Inf` and NaN are never below a
    cumulative count: the maximum index (as `Sketch.storeKeyAtRank`) -/
def gKeyAtRank (x : GDS) (r : F64) : Int :=
  match r with
  | .fin q => gKeyAtRankQ x q
  | .ninf => gKeyAtRankQ x 0
  | _ => (gMaxIndex x).1

def gMergeWith (x o : GDS) : GDS :=
  ⟨okOr (DenseStore.MergeWith (mergeFuel (ofGen x.g) (ofGen o.g)) x.g o.g) x.g⟩

def gReweight (x : GDS) (w : F64) : GDS × GoErr :=
  if F64.le w (.fin 0) then (x, GenSketch.errStoreReweight)
  else match w with
    | .fin q =>
      match DenseStore.Reweight (reweightFuel (ofGen x.g)) x.g q with
      | .ok (g', e) => (⟨g'⟩, e)
      | _ => (x, GoErr.nil)
    | _ => (x, GoErr.nil)

def gEncode (x : GDS) (b : List (BitVec 8)) (t : Gen.Encoding.FlagType) : GDS × List (BitVec 8) :=
  (x, okOr (DenseStore.Encode (GenDenseEncode.encodeFuel (ofGen x.g)) x.g b t) b)

def gForEachList (x : GDS) : List (Int × F64) :=
  ((ofGen x.g).binsList.getD []).map (fun p => (p.1, F64.fin p.2))

/-- the methods the generic `store.DecodeAndMergeWith` calls -/
@[reducible] def baseI : StoreI GDS where
  Add := gAdd
  AddWithCount := gAddWithCount
  Copy := gCopy
  Clear := gClear
  IsEmpty := gIsEmpty
  MaxIndex := gMaxIndex
  MinIndex := gMinIndex
  TotalCount := gTotalCount
  KeyAtRank := gKeyAtRank
  MergeWith := gMergeWith
  Reweight := gReweight
  Encode := gEncode
  ForEachList := gForEachList
  DecodeAndMergeWith x b _ := (x, b, GoErr.nil)

/-- `DenseStore.DecodeAndMergeWith` is the generic `store.DecodeAndMergeWith` -/
def gDecode (x : GDS) (b : List (BitVec 8)) (sub : Gen.Encoding.SubFlag) : GDS × List (BitVec 8) × GoErr :=
  match @Gen.StoreDecode.DecodeAndMergeWith GDS baseI (3 * b.length + 64) x b sub with
  | .ok r => r
  | _ => (x, b, GoErr.nil)

instance (priority := low) gdStoreI : StoreI GDS where
  Add := gAdd
  AddWithCount := gAddWithCount
  Copy := gCopy
  Clear := gClear
  IsEmpty := gIsEmpty
  MaxIndex := gMaxIndex
  MinIndex := gMinIndex
  TotalCount := gTotalCount
  KeyAtRank := gKeyAtRank
  MergeWith := gMergeWith
  Reweight := gReweight
  Encode := gEncode
  ForEachList := gForEachList
  DecodeAndMergeWith := gDecode

@[simp] theorem gds_add (x : GDS) (i : Int) : StoreI.Add x i = gAdd x i := rfl
@[simp] theorem gds_addWithCount (x : GDS) (i : Int) (c : F64) :
    StoreI.AddWithCount x i c = gAddWithCount x i c := rfl
@[simp] theorem gds_copy (x : GDS) : StoreI.Copy x = gCopy x := rfl
@[simp] theorem gds_clear (x : GDS) : StoreI.Clear x = gClear x := rfl
@[simp] theorem gds_isEmpty (x : GDS) : StoreI.IsEmpty x = gIsEmpty x := rfl
@[simp] theorem gds_maxIndex (x : GDS) : StoreI.MaxIndex x = gMaxIndex x := rfl
@[simp] theorem gds_minIndex (x : GDS) : StoreI.MinIndex x = gMinIndex x := rfl
@[simp] theorem gds_totalCount (x : GDS) : StoreI.TotalCount x = gTotalCount x := rfl
@[simp] theorem gds_keyAtRank (x : GDS) (r : F64) : StoreI.KeyAtRank x r = gKeyAtRank x r := rfl
@[simp] theorem gds_mergeWith (x o : GDS) : StoreI.MergeWith x o = gMergeWith x o := rfl
@[simp] theorem gds_reweight (x : GDS) (w : F64) : StoreI.Reweight x w = gReweight x w := rfl

/-! ### fuel of the model image -/

theorem extendFuel_ofGen (d : DStore) (a b : Int) : extendFuel (ofGen (toGen d)) a b = extendFuel d a b := rfl

theorem mergeFuel_ofGen (d o : DStore) : mergeFuel (ofGen (toGen d)) (ofGen (toGen o)) = mergeFuel d o := rfl

theorem reweightFuel_ofGen (d : DStore) : reweightFuel (ofGen (toGen d)) = reweightFuel d := rfl

/-! ### the simulation relation: exact -/

/-- the regenerated store is the image of the plain dense model store the model side holds -/
def DSim (x : GDS) (st : Store) : Prop :=
  ∃ d : DStore, x.g = toGen d ∧ st = .d d ∧ d.kind = .plain

theorem dsim_new : DSim ⟨NewDenseStore⟩ (Store.new .dense) :=
  ⟨DStore.new .plain, newDenseStore_eq, rfl, rfl⟩

theorem errMin_eq : Gen.Dense.errUndefinedMinIndex = GenSketch.errUndefinedMinIndex := rfl
theorem errMax_eq : Gen.Dense.errUndefinedMaxIndex = GenSketch.errUndefinedMaxIndex := rfl

/-! ### observers -/

theorem dsim_isEmpty {x : GDS} {st : Store} (h : DSim x st) :
    (StoreI.IsEmpty x : Bool) = StoreI.IsEmpty st := by
  obtain ⟨d, hx, rfl, _⟩ := h
  simp only [gds_isEmpty, gIsEmpty, hx, isEmpty_eq, GenSketch.store_isEmpty, Store.isEmpty]

theorem dsim_totalCount {x : GDS} {st : Store} (h : DSim x st) :
    (StoreI.TotalCount x : F64) = StoreI.TotalCount st := by
  obtain ⟨d, hx, rfl, _⟩ := h
  simp only [gds_totalCount, gTotalCount, hx, GenDense.totalCount_eq, GenSketch.store_totalCount, Store.totalCount]

theorem dsim_minIndex {x : GDS} {st : Store} (h : DSim x st) :
    (StoreI.MinIndex x : Int × GoErr) = StoreI.MinIndex st := by
  obtain ⟨d, hx, rfl, _⟩ := h
  simp only [gds_minIndex, gMinIndex, hx, minIndex_eq, GenSketch.store_minIndex, GenSketch.storeMinIndex,
    Store.minIndex?, errMin_eq]
  cases d.minIndex? <;> rfl

theorem dsim_maxIndex {x : GDS} {st : Store} (h : DSim x st) :
    (StoreI.MaxIndex x : Int × GoErr) = StoreI.MaxIndex st := by
  obtain ⟨d, hx, rfl, _⟩ := h
  simp only [gds_maxIndex, gMaxIndex, hx, maxIndex_eq, GenSketch.store_maxIndex, GenSketch.storeMaxIndex,
    Store.maxIndex?, errMax_eq]
  cases d.maxIndex? <;> rfl

theorem dsim_keyAtRank {x : GDS} {st : Store} (h : DSim x st) (r : F64) :
    (StoreI.KeyAtRank x r : Int) = StoreI.KeyAtRank st r := by
  obtain ⟨d, hx, rfl, _⟩ := h
  simp only [gds_keyAtRank, gKeyAtRank, gKeyAtRankQ, gMaxIndex, GenSketch.store_keyAtRank,
    Sketch.storeKeyAtRank, hx, keyAtRank_eq, okOr_ok, maxIndex_eq, Store.keyAtRank, Store.maxIndex?]
  cases r with
  | fin q => rfl
  | ninf => rfl
  | pinf => cases d.maxIndex? <;> rfl
  | nan => cases d.maxIndex? <;> rfl

/-! ### mutators -/

/-- the regenerated `AddWithCount` on the image of a plain store, with the instance's fuel, against the model -/
theorem gAddWithCount_fin (d : DStore) (hk : d.kind = .plain) (i : Int) (w : Rat) :
    DSim (gAddWithCount ⟨toGen d⟩ i (.fin w)) (((Store.d d).addWithCount i w).getD (.d d)) := by
  simp only [gAddWithCount, ratOfF64, extendFuel_ofGen, Store.addWithCount]
  rw [addWithCount_rel _ d i w hk (Nat.le_refl _)]
  cases hm : d.addWithCount i w with
  | none => exact ⟨d, rfl, rfl, hk⟩
  | some d' => exact ⟨d', rfl, rfl, addWithCount_kind d d' i w hk hm⟩

/-- `AddWithCount(i, c)`: every index, every count -/
theorem dsim_addWithCount {x : GDS} {st : Store} (h : DSim x st) (i : Int) (c : F64) :
    DSim (StoreI.AddWithCount x i c : GDS) (StoreI.AddWithCount st i c) := by
  obtain ⟨d, hx, rfl, hk⟩ := id h
  obtain ⟨g⟩ := x
  simp only at hx
  subst hx
  cases c with
  | fin w => exact gAddWithCount_fin d hk i w
  | pinf => exact h
  | ninf => exact h
  | nan => exact h

/-- `Add(i)`: every index -/
theorem dsim_add {x : GDS} {st : Store} (h : DSim x st) (i : Int) :
    DSim (StoreI.Add x i : GDS) (StoreI.Add st i) := by
  obtain ⟨d, hx, rfl, hk⟩ := h
  obtain ⟨g⟩ := x
  simp only at hx
  subst hx
  simp only [gds_add, gAdd, extendFuel_ofGen, GenSketch.store_add, Store.addWithCount]
  rw [add_rel _ d i hk (Nat.le_refl _)]
  cases hm : d.addWithCount i 1 with
  | none => exact ⟨d, rfl, rfl, hk⟩
  | some d' => exact ⟨d', rfl, rfl, addWithCount_kind d d' i 1 hk hm⟩

theorem dsim_clear {x : GDS} {st : Store} (h : DSim x st) :
    DSim (StoreI.Clear x : GDS) (StoreI.Clear st) := by
  obtain ⟨d, hx, rfl, hk⟩ := h
  refine ⟨d.clear, ?_, rfl, hk⟩
  simp only [gds_clear, gClear, hx, clear_rel, okOr_ok]

theorem dsim_copy {x : GDS} {st : Store} (h : DSim x st) :
    DSim (StoreI.Copy x : GDS) (StoreI.Copy st) := by
  obtain ⟨d, hx, rfl, hk⟩ := h
  refine ⟨d, ?_, rfl, hk⟩
  simp only [gds_copy, gCopy, hx, copy_eq]

/-- the model's same-kind merge keeps the kind -/
theorem mergeSame_kind (s t o : DStore) (hk : s.kind = .plain) (h : s.mergeSame o = some t) :
    t.kind = .plain := by
  unfold DStore.mergeSame at h
  split at h
  · cases h; exact hk
  · by_cases hc : o.minIndex < s.minIndex ∨ o.maxIndex > s.maxIndex
    · simp only [hc, if_true, Option.bind_eq_bind] at h
      cases hx : s.extendRange o.minIndex o.maxIndex with
      | none => rw [hx] at h; cases h
      | some s1 =>
        have hk1 := extendRange_kind s s1 _ _ hk hx
        simp only [hx, Option.bind_some, hk1, Option.pure_def, Option.bind_eq_some_iff] at h
        obtain ⟨b, _, h3⟩ := h
        cases h3
        rfl
    · simp only [hc, if_false, hk, Option.pure_def, Option.bind_eq_bind, Option.bind_some,
        Option.bind_eq_some_iff] at h
      obtain ⟨b, _, h3⟩ := h
      cases h3
      rfl

/-- the dispatch of `Store.mergeWith` on two plain dense stores is the same-kind merge -/
theorem store_mergeWith_plain (a b : DStore) (ha : a.kind = .plain) (hb : b.kind = .plain) :
    (Store.d a).mergeWith (.d b) = (a.mergeSame b).map .d := by
  unfold Store.mergeWith
  simp only [ha, hb]
  by_cases he : b.isEmpty = true
  · simp only [he, if_true]
    unfold DStore.mergeSame
    rw [if_pos he]; rfl
  · simp only [he, Bool.false_eq_true, if_false, if_true]

/-- same-kind `MergeWith` -/
theorem dsim_mergeWith {x y : GDS} {st so : Store} (h : DSim x st) (h' : DSim y so) :
    DSim (StoreI.MergeWith x y : GDS) (StoreI.MergeWith st so) := by
  obtain ⟨d, hx, rfl, hk⟩ := h
  obtain ⟨o, hy, rfl, hko⟩ := h'
  obtain ⟨g⟩ := x
  obtain ⟨g'⟩ := y
  simp only at hx hy
  subst hx hy
  simp only [gds_mergeWith, gMergeWith, mergeFuel_ofGen, GenSketch.store_mergeWith,
    store_mergeWith_plain d o hk hko]
  rw [mergeWith_rel _ d o hk (Nat.le_refl _)]
  cases hm : d.mergeSame o with
  | none => exact ⟨d, rfl, rfl, hk⟩
  | some d' => exact ⟨d', rfl, rfl, mergeSame_kind d d' o hk hm⟩

/-- `Reweight(w)`, every float factor: the same error, related receivers -/
theorem dsim_reweight {x : GDS} {st : Store} (h : DSim x st) (w : F64) :
    (StoreI.Reweight x w).2 = (StoreI.Reweight st w).2 ∧
      DSim (StoreI.Reweight x w).1 (StoreI.Reweight st w).1 := by
  simp only [gds_reweight, gReweight, GenSketch.store_reweight, GenSketch.storeReweight]
  by_cases hle : F64.le w (.fin 0) = true
  · simp only [hle, if_true]; exact ⟨trivial, h⟩
  · simp only [hle, Bool.false_eq_true, if_false]
    cases w with
    | fin q =>
      have hq : ¬ q ≤ 0 := by
        intro hq; rw [GenSketch.le_fin_zero] at hle; exact hle (by simpa using hq)
      have hpos : 0 < q := Rat.not_le.mp hq
      obtain ⟨d, hx, rfl, hk⟩ := id h
      obtain ⟨g⟩ := x
      simp only at hx
      subst hx
      by_cases h1 : q = 1
      · subst h1
        simp only [GenDense.reweight_one]
        have : (Store.d d).reweight 1 = some (.ok (.d d)) := by
          unfold Store.reweight; rw [if_neg hq, if_pos rfl]
        simp only [this]
        exact ⟨trivial, h⟩
      · simp only [reweightFuel_ofGen]
        rw [reweight_rel _ d q hpos h1 (Nat.le_refl _)]
        have hm : (Store.d d).reweight q = (d.reweight q).map (fun t => .ok (.d t)) := by
          unfold Store.reweight; rw [if_neg hq, if_neg h1]
        rw [hm]
        cases hr : d.reweight q with
        | none => exact ⟨rfl, d, rfl, rfl, hk⟩
        | some d' => exact ⟨rfl, d', rfl, rfl, (reweight_kind d d' q hr).trans hk⟩
    | pinf => exact ⟨rfl, h⟩
    | ninf => exact absurd rfl hle
    | nan => exact ⟨rfl, h⟩

/-! ### the `StoreSim` instance and the sketch-level corollaries -/

/-- the regenerated dense store simulates the model's plain dense store; EVERY index is admissible -/
def denseStoreSim : StoreSim GDS Store where
  R := DSim
  Adm := fun _ => True
  isEmpty := dsim_isEmpty
  totalCount := dsim_totalCount
  minIndex := dsim_minIndex
  maxIndex := dsim_maxIndex
  keyAtRank := dsim_keyAtRank
  addWithCount := fun h i _ c _ => dsim_addWithCount h i c
  add := fun h i _ => dsim_add h i
  clear := dsim_clear
  copy := dsim_copy
  mergeWith := dsim_mergeWith
  reweight := dsim_reweight

section sketch

open DDS.Gen.Sketch

variable {M : Type} [MapI M] [Inhabited M]

omit [Inhabited M] in
theorem dense_routed (m : M) (v : F64) : RoutedG denseStoreSim m v := ⟨fun _ => trivial, fun _ => trivial⟩

/-- **the dense sketch on regenerated code**: after ANY history of `AddWithCount` calls from
    `NewDDSketch(m, NewDenseStore(), NewDenseStore())` the errors returned and every observer of the regenerated
    sketch over the regenerated `DenseStore` agree with the regenerated sketch over the model stores — no side
    condition -/
theorem dense_history_observers (m : M) (l : List (F64 × F64)) :
    let a := runAdds (NewDDSketch m (⟨NewDenseStore⟩ : GDS) ⟨NewDenseStore⟩) l
    let b := runAdds (NewDDSketch m (Store.new .dense) (Store.new .dense)) l
    a.2 = b.2 ∧ DDSketch.GetCount a.1 = DDSketch.GetCount b.1 ∧ DDSketch.IsEmpty a.1 = DDSketch.IsEmpty b.1 ∧
    (∀ q, DDSketch.GetValueAtQuantile a.1 q = DDSketch.GetValueAtQuantile b.1 q) ∧
    DDSketch.GetMinValue a.1 = DDSketch.GetMinValue b.1 ∧ DDSketch.GetMaxValue a.1 = DDSketch.GetMaxValue b.1 :=
  history_observers_paramG denseStoreSim m dsim_new dsim_new l (fun p _ => dense_routed m p.1)

/-- a single `AddWithCount`, unconditional -/
theorem dense_AddWithCount_param {a : DDSketch M GDS} {b : DDSketch M Store} (h : SkSimG denseStoreSim a b)
    (v c : F64) :
    (DDSketch.AddWithCount a v c).2 = (DDSketch.AddWithCount b v c).2 ∧
      SkSimG denseStoreSim (DDSketch.AddWithCount a v c).1 (DDSketch.AddWithCount b v c).1 :=
  AddWithCount_paramG denseStoreSim h v c (fun _ => trivial) (fun _ => trivial)

end sketch

end DDS.GenDenseSketch

/-! ## the lowest-collapsing store -/

namespace DDS.GenLowSketch

open DDS DDS.GoSem DDS.DStore DDS.Gen.Dense DDS.GenStoreSim
open DDS.GenDense (GS GLow toGen ofGen toLow ofLow toRes toRes_some toRes_none toLow_DenseStore reweightFuel)
open DDS.GenPagSketch (okOr okOr_ok runAdds)

/-- the regenerated `CollapsingLowestDenseStore`; the bin limit is a type index (`MergeWith` of the interface is
    between stores of one sketch family; the regenerated fast path accepts any limit on the argument) -/
structure GLS (n : Nat) where
  g : GLow

variable {n : Nat}

instance : Inhabited (GLS n) := ⟨⟨NewCollapsingLowestDenseStore (n : Int)⟩⟩

/-! ### the methods: `Add`, `AddWithCount`, `MergeWith`, `Copy`, `Clear` are the store's own, the others are the
    promoted methods of the embedded `DenseStore` -/

def gAdd (x : GLS n) (i : Int) : GLS n :=
  ⟨okOr (CollapsingLowestDenseStore.Add (GenLow.lowFuel n (ofLow x.g)) x.g i) x.g⟩

def gAddWithCount (x : GLS n) (i : Int) (c : F64) : GLS n :=
  match ratOfF64 c with
  | some w => ⟨okOr (CollapsingLowestDenseStore.AddWithCount (GenLow.lowFuel n (ofLow x.g)) x.g i w) x.g⟩
  | none => x

def gCopy (x : GLS n) : GLS n := ⟨CollapsingLowestDenseStore.Copy x.g⟩

def gClear (x : GLS n) : GLS n := ⟨okOr (CollapsingLowestDenseStore.Clear 1 x.g) x.g⟩

def gIsEmpty (x : GLS n) : Bool := DenseStore.IsEmpty x.g.DenseStore

def gTotalCount (x : GLS n) : F64 := .fin (DenseStore.TotalCount x.g.DenseStore)

def gMinIndex (x : GLS n) : Int × GoErr := DenseStore.MinIndex x.g.DenseStore

def gMaxIndex (x : GLS n) : Int × GoErr := DenseStore.MaxIndex x.g.DenseStore

def gKeyAtRankQ (x : GLS n) (r : Rat) : Int := okOr (DenseStore.KeyAtRank 1 x.g.DenseStore r) 0

def gKeyAtRank (x : GLS n) (r : F64) : Int :=
  match r with
  | .fin q => gKeyAtRankQ x q
  | .ninf => gKeyAtRankQ x 0
  | _ => (gMaxIndex x).1

def gMergeWith (x o : GLS n) : GLS n :=
  ⟨okOr (CollapsingLowestDenseStore.MergeWith (GenLow.mergeFuel n (ofLow x.g) (ofLow o.g)) x.g o.g) x.g⟩

/-- `Reweight` is the embedded `DenseStore`'s: it rewrites the embedded store only -/
def gReweight (x : GLS n) (w : F64) : GLS n × GoErr :=
  if F64.le w (.fin 0) then (x, GenSketch.errStoreReweight)
  else match w with
    | .fin q =>
      match DenseStore.Reweight (reweightFuel (ofGen x.g.DenseStore)) x.g.DenseStore q with
      | .ok (g', e) => (⟨{ x.g with DenseStore := g' }⟩, e)
      | _ => (x, GoErr.nil)
    | _ => (x, GoErr.nil)

def gEncode (x : GLS n) (b : List (BitVec 8)) (t : Gen.Encoding.FlagType) : GLS n × List (BitVec 8) :=
  (x, okOr (DenseStore.Encode (GenDenseEncode.encodeFuel (ofGen x.g.DenseStore)) x.g.DenseStore b t) b)

def gForEachList (x : GLS n) : List (Int × F64) :=
  ((ofLow x.g).binsList.getD []).map (fun p => (p.1, F64.fin p.2))

@[reducible] def baseI : StoreI (GLS n) where
  Add := gAdd
  AddWithCount := gAddWithCount
  Copy := gCopy
  Clear := gClear
  IsEmpty := gIsEmpty
  MaxIndex := gMaxIndex
  MinIndex := gMinIndex
  TotalCount := gTotalCount
  KeyAtRank := gKeyAtRank
  MergeWith := gMergeWith
  Reweight := gReweight
  Encode := gEncode
  ForEachList := gForEachList
  DecodeAndMergeWith x b _ := (x, b, GoErr.nil)

def gDecode (x : GLS n) (b : List (BitVec 8)) (sub : Gen.Encoding.SubFlag) : GLS n × List (BitVec 8) × GoErr :=
  match @Gen.StoreDecode.DecodeAndMergeWith (GLS n) baseI (3 * b.length + 64) x b sub with
  | .ok r => r
  | _ => (x, b, GoErr.nil)

instance (priority := low) glStoreI : StoreI (GLS n) where
  Add := gAdd
  AddWithCount := gAddWithCount
  Copy := gCopy
  Clear := gClear
  IsEmpty := gIsEmpty
  MaxIndex := gMaxIndex
  MinIndex := gMinIndex
  TotalCount := gTotalCount
  KeyAtRank := gKeyAtRank
  MergeWith := gMergeWith
  Reweight := gReweight
  Encode := gEncode
  ForEachList := gForEachList
  DecodeAndMergeWith := gDecode

@[simp] theorem gls_add (x : GLS n) (i : Int) : StoreI.Add x i = gAdd x i := rfl
@[simp] theorem gls_addWithCount (x : GLS n) (i : Int) (c : F64) :
    StoreI.AddWithCount x i c = gAddWithCount x i c := rfl
@[simp] theorem gls_copy (x : GLS n) : StoreI.Copy x = gCopy x := rfl
@[simp] theorem gls_clear (x : GLS n) : StoreI.Clear x = gClear x := rfl
@[simp] theorem gls_isEmpty (x : GLS n) : StoreI.IsEmpty x = gIsEmpty x := rfl
@[simp] theorem gls_maxIndex (x : GLS n) : StoreI.MaxIndex x = gMaxIndex x := rfl
@[simp] theorem gls_minIndex (x : GLS n) : StoreI.MinIndex x = gMinIndex x := rfl
@[simp] theorem gls_totalCount (x : GLS n) : StoreI.TotalCount x = gTotalCount x := rfl
@[simp] theorem gls_keyAtRank (x : GLS n) (r : F64) : StoreI.KeyAtRank x r = gKeyAtRank x r := rfl
@[simp] theorem gls_mergeWith (x o : GLS n) : StoreI.MergeWith x o = gMergeWith x o := rfl
@[simp] theorem gls_reweight (x : GLS n) (w : F64) : StoreI.Reweight x w = gReweight x w := rfl

/-! ### fuel of the model image -/

theorem lowFuel_ofLow (m : Int) (d : DStore) : GenLow.lowFuel n (ofLow (toLow m d)) = GenLow.lowFuel n d := rfl

theorem mergeFuel_ofLow (m m' : Int) (d o : DStore) :
    GenLow.mergeFuel n (ofLow (toLow m d)) (ofLow (toLow m' o)) = GenLow.mergeFuel n d o := rfl

/-! ### the simulation relation: exact -/

/-- the regenerated store is the image of the model store of kind `.low n` the model side holds -/
def LSim (x : GLS n) (st : Store) : Prop :=
  ∃ d : DStore, x.g = toLow (n : Int) d ∧ st = .d d ∧ d.kind = .low n

theorem lsim_new : LSim (⟨NewCollapsingLowestDenseStore (n : Int)⟩ : GLS n) (Store.new (.low n)) :=
  ⟨DStore.new (.low n), GenLow.new_eq n, rfl, rfl⟩

theorem lsim_isEmpty {x : GLS n} {st : Store} (h : LSim x st) :
    (StoreI.IsEmpty x : Bool) = StoreI.IsEmpty st := by
  obtain ⟨d, hx, rfl, _⟩ := h
  simp only [gls_isEmpty, gIsEmpty, hx, toLow_DenseStore, GenDense.isEmpty_eq, GenSketch.store_isEmpty,
    Store.isEmpty]

theorem lsim_totalCount {x : GLS n} {st : Store} (h : LSim x st) :
    (StoreI.TotalCount x : F64) = StoreI.TotalCount st := by
  obtain ⟨d, hx, rfl, _⟩ := h
  simp only [gls_totalCount, gTotalCount, hx, toLow_DenseStore, GenDense.totalCount_eq,
    GenSketch.store_totalCount, Store.totalCount]

theorem lsim_minIndex {x : GLS n} {st : Store} (h : LSim x st) :
    (StoreI.MinIndex x : Int × GoErr) = StoreI.MinIndex st := by
  obtain ⟨d, hx, rfl, _⟩ := h
  simp only [gls_minIndex, gMinIndex, hx, toLow_DenseStore, GenDense.minIndex_eq, GenSketch.store_minIndex,
    GenSketch.storeMinIndex, Store.minIndex?, GenDenseSketch.errMin_eq]
  cases d.minIndex? <;> rfl

theorem lsim_maxIndex {x : GLS n} {st : Store} (h : LSim x st) :
    (StoreI.MaxIndex x : Int × GoErr) = StoreI.MaxIndex st := by
  obtain ⟨d, hx, rfl, _⟩ := h
  simp only [gls_maxIndex, gMaxIndex, hx, toLow_DenseStore, GenDense.maxIndex_eq, GenSketch.store_maxIndex,
    GenSketch.storeMaxIndex, Store.maxIndex?, GenDenseSketch.errMax_eq]
  cases d.maxIndex? <;> rfl

theorem lsim_keyAtRank {x : GLS n} {st : Store} (h : LSim x st) (r : F64) :
    (StoreI.KeyAtRank x r : Int) = StoreI.KeyAtRank st r := by
  obtain ⟨d, hx, rfl, _⟩ := h
  simp only [gls_keyAtRank, gKeyAtRank, gKeyAtRankQ, gMaxIndex, GenSketch.store_keyAtRank,
    Sketch.storeKeyAtRank, hx, toLow_DenseStore, GenDense.keyAtRank_eq, okOr_ok, GenDense.maxIndex_eq,
    Store.keyAtRank, Store.maxIndex?]
  cases r with
  | fin q => rfl
  | ninf => rfl
  | pinf => cases d.maxIndex? <;> rfl
  | nan => cases d.maxIndex? <;> rfl

/-! ### mutators -/

theorem lsim_addWithCount {x : GLS n} {st : Store} (h : LSim x st) (i : Int) (c : F64) :
    LSim (StoreI.AddWithCount x i c : GLS n) (StoreI.AddWithCount st i c) := by
  obtain ⟨d, hx, rfl, hk⟩ := id h
  obtain ⟨g⟩ := x
  simp only at hx
  subst hx
  cases c with
  | fin w =>
    simp only [gls_addWithCount, gAddWithCount, ratOfF64, lowFuel_ofLow, GenSketch.store_addWithCount,
      GenSketch.storeAddF, Sketch.addF, Store.addWithCount]
    rw [GenLow.addWithCount_rel _ n d i w hk (Nat.le_refl _)]
    cases hm : d.addWithCount i w with
    | none => exact ⟨d, rfl, rfl, hk⟩
    | some d' => exact ⟨d', rfl, rfl, GenLow.addWithCount_kind d d' n i w hk hm⟩
  | pinf => exact h
  | ninf => exact h
  | nan => exact h

theorem lsim_add {x : GLS n} {st : Store} (h : LSim x st) (i : Int) :
    LSim (StoreI.Add x i : GLS n) (StoreI.Add st i) := by
  obtain ⟨d, hx, rfl, hk⟩ := h
  obtain ⟨g⟩ := x
  simp only at hx
  subst hx
  simp only [gls_add, gAdd, lowFuel_ofLow, GenSketch.store_add, Store.addWithCount]
  rw [GenLow.add_rel _ n d i hk (Nat.le_refl _)]
  cases hm : d.addWithCount i 1 with
  | none => exact ⟨d, rfl, rfl, hk⟩
  | some d' => exact ⟨d', rfl, rfl, GenLow.addWithCount_kind d d' n i 1 hk hm⟩

theorem lsim_clear {x : GLS n} {st : Store} (h : LSim x st) :
    LSim (StoreI.Clear x : GLS n) (StoreI.Clear st) := by
  obtain ⟨d, hx, rfl, hk⟩ := h
  refine ⟨d.clear, ?_, rfl, hk⟩
  simp only [gls_clear, gClear, hx, GenLow.clear_rel, okOr_ok]

theorem lsim_copy {x : GLS n} {st : Store} (h : LSim x st) :
    LSim (StoreI.Copy x : GLS n) (StoreI.Copy st) := by
  obtain ⟨d, hx, rfl, hk⟩ := h
  refine ⟨d, ?_, rfl, hk⟩
  simp only [gls_copy, gCopy, hx, GenLow.copy_eq]

/-- the model's same-kind merge keeps the kind -/
theorem mergeSame_kind (s t o : DStore) (hk : s.kind = .low n) (h : s.mergeSame o = some t) :
    t.kind = .low n := by
  unfold DStore.mergeSame at h
  split at h
  · cases h; exact hk
  · by_cases hc : o.minIndex < s.minIndex ∨ o.maxIndex > s.maxIndex
    · simp only [hc, if_true, Option.bind_eq_bind] at h
      cases hx : s.extendRange o.minIndex o.maxIndex with
      | none => rw [hx] at h; cases h
      | some s1 =>
        have hk1 := GenLow.extendRange_kind s s1 n _ _ hk hx
        simp only [hx, Option.bind_some, hk1, Option.pure_def, Option.bind_eq_some_iff] at h
        obtain ⟨b, _, h3⟩ := h
        cases h3
        rfl
    · simp only [hc, if_false, hk, Option.pure_def, Option.bind_eq_bind, Option.bind_some,
        Option.bind_eq_some_iff] at h
      obtain ⟨b, _, h3⟩ := h
      cases h3
      rfl

/-- the dispatch of `Store.mergeWith` on two lowest-collapsing stores is the same-kind merge -/
theorem store_mergeWith_low (a b : DStore) (m : Nat) (ha : a.kind = .low n) (hb : b.kind = .low m) :
    (Store.d a).mergeWith (.d b) = (a.mergeSame b).map .d := by
  unfold Store.mergeWith
  simp only [ha, hb]
  by_cases he : b.isEmpty = true
  · simp only [he, if_true]
    unfold DStore.mergeSame
    rw [if_pos he]; rfl
  · simp only [he, Bool.false_eq_true, if_false, if_true]

theorem lsim_mergeWith {x y : GLS n} {st so : Store} (h : LSim x st) (h' : LSim y so) :
    LSim (StoreI.MergeWith x y : GLS n) (StoreI.MergeWith st so) := by
  obtain ⟨d, hx, rfl, hk⟩ := h
  obtain ⟨o, hy, rfl, hko⟩ := h'
  obtain ⟨g⟩ := x
  obtain ⟨g'⟩ := y
  simp only at hx hy
  subst hx hy
  simp only [gls_mergeWith, gMergeWith, mergeFuel_ofLow, GenSketch.store_mergeWith,
    store_mergeWith_low d o n hk hko]
  rw [GenLow.mergeWith_rel _ n (n : Int) d o hk (Nat.le_refl _)]
  cases hm : d.mergeSame o with
  | none => exact ⟨d, rfl, rfl, hk⟩
  | some d' => exact ⟨d', rfl, rfl, mergeSame_kind d d' o hk hm⟩

/-- `reweight` only rewrites bins and count -/
theorem reweight_collapsed (s t : DStore) (w : Rat) (h : s.reweight w = some t) :
    t.isCollapsed = s.isCollapsed := by
  unfold DStore.reweight at h
  simp only [Option.bind_eq_bind, Option.bind_eq_some_iff] at h
  obtain ⟨b, _, h2⟩ := h
  cases h2; rfl

theorem lsim_reweight {x : GLS n} {st : Store} (h : LSim x st) (w : F64) :
    (StoreI.Reweight x w).2 = (StoreI.Reweight st w).2 ∧
      LSim (StoreI.Reweight x w).1 (StoreI.Reweight st w).1 := by
  simp only [gls_reweight, gReweight, GenSketch.store_reweight, GenSketch.storeReweight]
  by_cases hle : F64.le w (.fin 0) = true
  · simp only [hle, if_true]; exact ⟨trivial, h⟩
  · simp only [hle, Bool.false_eq_true, if_false]
    cases w with
    | fin q =>
      have hq : ¬ q ≤ 0 := by
        intro hq; rw [GenSketch.le_fin_zero] at hle; exact hle (by simpa using hq)
      have hpos : 0 < q := Rat.not_le.mp hq
      obtain ⟨d, hx, rfl, hk⟩ := id h
      obtain ⟨g⟩ := x
      simp only at hx
      subst hx
      by_cases h1 : q = 1
      · subst h1
        simp only [toLow_DenseStore, GenDense.reweight_one]
        have : (Store.d d).reweight 1 = some (.ok (.d d)) := by
          unfold Store.reweight; rw [if_neg hq, if_pos rfl]
        simp only [this]
        exact ⟨trivial, h⟩
      · simp only [toLow_DenseStore, GenDenseSketch.reweightFuel_ofGen]
        rw [GenDense.reweight_rel _ d q hpos h1 (Nat.le_refl _)]
        have hm : (Store.d d).reweight q = (d.reweight q).map (fun t => .ok (.d t)) := by
          unfold Store.reweight; rw [if_neg hq, if_neg h1]
        rw [hm]
        cases hr : d.reweight q with
        | none => exact ⟨rfl, d, rfl, rfl, hk⟩
        | some d' =>
          refine ⟨rfl, d', ?_, rfl, (GenDense.reweight_kind d d' q hr).trans hk⟩
          simp only [toRes_some, toLow, reweight_collapsed d d' q hr]
    | pinf => exact ⟨rfl, h⟩
    | ninf => exact absurd rfl hle
    | nan => exact ⟨rfl, h⟩

/-! ### the `StoreSim` instance and the sketch-level corollaries -/

/-- the regenerated lowest-collapsing store simulates the model's store of kind `.low n`; every index is
    admissible -/
def lowStoreSim (n : Nat) : StoreSim (GLS n) Store where
  R := LSim
  Adm := fun _ => True
  isEmpty := lsim_isEmpty
  totalCount := lsim_totalCount
  minIndex := lsim_minIndex
  maxIndex := lsim_maxIndex
  keyAtRank := lsim_keyAtRank
  addWithCount := fun h i _ c _ => lsim_addWithCount h i c
  add := fun h i _ => lsim_add h i
  clear := lsim_clear
  copy := lsim_copy
  mergeWith := lsim_mergeWith
  reweight := lsim_reweight

section sketch

open DDS.Gen.Sketch

variable {M : Type} [MapI M] [Inhabited M]

omit [Inhabited M] in
theorem low_routed (m : M) (v : F64) : RoutedG (lowStoreSim n) m v := ⟨fun _ => trivial, fun _ => trivial⟩

/-- after ANY history of `AddWithCount` calls from
    `NewDDSketch(m, NewCollapsingLowestDenseStore(n), NewCollapsingLowestDenseStore(n))` the two sketches are
    related (stores exactly the images of the model's) and the errors agree — no side condition -/
theorem low_runAdds (n : Nat) (m : M) (l : List (F64 × F64)) :
    let a := runAdds (NewDDSketch m (⟨NewCollapsingLowestDenseStore (n : Int)⟩ : GLS n)
      ⟨NewCollapsingLowestDenseStore (n : Int)⟩) l
    let b := runAdds (NewDDSketch m (Store.new (.low n)) (Store.new (.low n))) l
    a.2 = b.2 ∧ SkSimG (lowStoreSim n) a.1 b.1 :=
  runAdds_paramG (lowStoreSim n) l (skSimG_new (lowStoreSim n) m lsim_new lsim_new)
    (fun p _ => low_routed m p.1)

/-- … and every observer agrees -/
theorem low_history_observers (n : Nat) (m : M) (l : List (F64 × F64)) :
    let a := runAdds (NewDDSketch m (⟨NewCollapsingLowestDenseStore (n : Int)⟩ : GLS n)
      ⟨NewCollapsingLowestDenseStore (n : Int)⟩) l
    let b := runAdds (NewDDSketch m (Store.new (.low n)) (Store.new (.low n))) l
    a.2 = b.2 ∧ DDSketch.GetCount a.1 = DDSketch.GetCount b.1 ∧ DDSketch.IsEmpty a.1 = DDSketch.IsEmpty b.1 ∧
    (∀ q, DDSketch.GetValueAtQuantile a.1 q = DDSketch.GetValueAtQuantile b.1 q) ∧
    DDSketch.GetMinValue a.1 = DDSketch.GetMinValue b.1 ∧ DDSketch.GetMaxValue a.1 = DDSketch.GetMaxValue b.1 :=
  history_observers_paramG (lowStoreSim n) m lsim_new lsim_new l (fun p _ => low_routed m p.1)

end sketch

end DDS.GenLowSketch

/-! ## the highest-collapsing store -/

namespace DDS.GenHighSketch

open DDS DDS.GoSem DDS.DStore DDS.Gen.Dense DDS.GenStoreSim
open DDS.GenDense (GS GHigh toGen ofGen toHigh ofHigh toRes toRes_some toRes_none toHigh_DenseStore reweightFuel)
open DDS.GenPagSketch (okOr okOr_ok runAdds)

/-- the regenerated `CollapsingHighestDenseStore`; the bin limit is a type index (`MergeWith` of the interface is
    between stores of one sketch family; the regenerated fast path accepts any limit on the argument) -/
structure GHS (n : Nat) where
  g : GHigh

variable {n : Nat}

instance : Inhabited (GHS n) := ⟨⟨NewCollapsingHighestDenseStore (n : Int)⟩⟩

/-! ### the methods: `Add`, `AddWithCount`, `MergeWith`, `Copy`, `Clear` are the store's own, the others are the
    promoted methods of the embedded `DenseStore` -/

def gAdd (x : GHS n) (i : Int) : GHS n :=
  ⟨okOr (CollapsingHighestDenseStore.Add (GenDense.extendFuel (ofHigh x.g) i i) x.g i) x.g⟩

def gAddWithCount (x : GHS n) (i : Int) (c : F64) : GHS n :=
  match ratOfF64 c with
  | some w => ⟨okOr (CollapsingHighestDenseStore.AddWithCount (GenDense.extendFuel (ofHigh x.g) i i) x.g i w) x.g⟩
  | none => x

def gCopy (x : GHS n) : GHS n := ⟨CollapsingHighestDenseStore.Copy x.g⟩

def gClear (x : GHS n) : GHS n := ⟨okOr (CollapsingHighestDenseStore.Clear 1 x.g) x.g⟩

def gIsEmpty (x : GHS n) : Bool := DenseStore.IsEmpty x.g.DenseStore

def gTotalCount (x : GHS n) : F64 := .fin (DenseStore.TotalCount x.g.DenseStore)

def gMinIndex (x : GHS n) : Int × GoErr := DenseStore.MinIndex x.g.DenseStore

def gMaxIndex (x : GHS n) : Int × GoErr := DenseStore.MaxIndex x.g.DenseStore

def gKeyAtRankQ (x : GHS n) (r : Rat) : Int := okOr (DenseStore.KeyAtRank 1 x.g.DenseStore r) 0

def gKeyAtRank (x : GHS n) (r : F64) : Int :=
  match r with
  | .fin q => gKeyAtRankQ x q
  | .ninf => gKeyAtRankQ x 0
  | _ => (gMaxIndex x).1

def gMergeWith (x o : GHS n) : GHS n :=
  ⟨okOr (CollapsingHighestDenseStore.MergeWith (GenHigh.mergeFuel (ofHigh x.g) (ofHigh o.g)) x.g o.g) x.g⟩

/-- `Reweight` is the embedded `DenseStore`'s: it rewrites the embedded store only -/
def gReweight (x : GHS n) (w : F64) : GHS n × GoErr :=
  if F64.le w (.fin 0) then (x, GenSketch.errStoreReweight)
  else match w with
    | .fin q =>
      match DenseStore.Reweight (reweightFuel (ofGen x.g.DenseStore)) x.g.DenseStore q with
      | .ok (g', e) => (⟨{ x.g with DenseStore := g' }⟩, e)
      | _ => (x, GoErr.nil)
    | _ => (x, GoErr.nil)

def gEncode (x : GHS n) (b : List (BitVec 8)) (t : Gen.Encoding.FlagType) : GHS n × List (BitVec 8) :=
  (x, okOr (DenseStore.Encode (GenDenseEncode.encodeFuel (ofGen x.g.DenseStore)) x.g.DenseStore b t) b)

def gForEachList (x : GHS n) : List (Int × F64) :=
  ((ofHigh x.g).binsList.getD []).map (fun p => (p.1, F64.fin p.2))

@[reducible] def baseI : StoreI (GHS n) where
  Add := gAdd
  AddWithCount := gAddWithCount
  Copy := gCopy
  Clear := gClear
  IsEmpty := gIsEmpty
  MaxIndex := gMaxIndex
  MinIndex := gMinIndex
  TotalCount := gTotalCount
  KeyAtRank := gKeyAtRank
  MergeWith := gMergeWith
  Reweight := gReweight
  Encode := gEncode
  ForEachList := gForEachList
  DecodeAndMergeWith x b _ := (x, b, GoErr.nil)

def gDecode (x : GHS n) (b : List (BitVec 8)) (sub : Gen.Encoding.SubFlag) : GHS n × List (BitVec 8) × GoErr :=
  match @Gen.StoreDecode.DecodeAndMergeWith (GHS n) baseI (3 * b.length + 64) x b sub with
  | .ok r => r
  | _ => (x, b, GoErr.nil)

instance (priority := low) ghStoreI : StoreI (GHS n) where
  Add := gAdd
  AddWithCount := gAddWithCount
  Copy := gCopy
  Clear := gClear
  IsEmpty := gIsEmpty
  MaxIndex := gMaxIndex
  MinIndex := gMinIndex
  TotalCount := gTotalCount
  KeyAtRank := gKeyAtRank
  MergeWith := gMergeWith
  Reweight := gReweight
  Encode := gEncode
  ForEachList := gForEachList
  DecodeAndMergeWith := gDecode

@[simp] theorem ghs_add (x : GHS n) (i : Int) : StoreI.Add x i = gAdd x i := rfl
@[simp] theorem ghs_addWithCount (x : GHS n) (i : Int) (c : F64) :
    StoreI.AddWithCount x i c = gAddWithCount x i c := rfl
@[simp] theorem ghs_copy (x : GHS n) : StoreI.Copy x = gCopy x := rfl
@[simp] theorem ghs_clear (x : GHS n) : StoreI.Clear x = gClear x := rfl
@[simp] theorem ghs_isEmpty (x : GHS n) : StoreI.IsEmpty x = gIsEmpty x := rfl
@[simp] theorem ghs_maxIndex (x : GHS n) : StoreI.MaxIndex x = gMaxIndex x := rfl
@[simp] theorem ghs_minIndex (x : GHS n) : StoreI.MinIndex x = gMinIndex x := rfl
@[simp] theorem ghs_totalCount (x : GHS n) : StoreI.TotalCount x = gTotalCount x := rfl
@[simp] theorem ghs_keyAtRank (x : GHS n) (r : F64) : StoreI.KeyAtRank x r = gKeyAtRank x r := rfl
@[simp] theorem ghs_mergeWith (x o : GHS n) : StoreI.MergeWith x o = gMergeWith x o := rfl
@[simp] theorem ghs_reweight (x : GHS n) (w : F64) : StoreI.Reweight x w = gReweight x w := rfl

/-! ### fuel of the model image -/

theorem extendFuel_ofHigh (m : Int) (d : DStore) (a b : Int) :
    GenDense.extendFuel (ofHigh (toHigh m d)) a b = GenDense.extendFuel d a b := rfl

theorem mergeFuel_ofHigh (m m' : Int) (d o : DStore) :
    GenHigh.mergeFuel (ofHigh (toHigh m d)) (ofHigh (toHigh m' o)) = GenHigh.mergeFuel d o := rfl

/-! ### the simulation relation: exact -/

/-- the regenerated store is the image of the model store of kind `.high n` the model side holds -/
def HSim (x : GHS n) (st : Store) : Prop :=
  ∃ d : DStore, x.g = toHigh (n : Int) d ∧ st = .d d ∧ d.kind = .high n

theorem hsim_new : HSim (⟨NewCollapsingHighestDenseStore (n : Int)⟩ : GHS n) (Store.new (.high n)) :=
  ⟨DStore.new (.high n), GenHigh.new_eq n, rfl, rfl⟩

theorem hsim_isEmpty {x : GHS n} {st : Store} (h : HSim x st) :
    (StoreI.IsEmpty x : Bool) = StoreI.IsEmpty st := by
  obtain ⟨d, hx, rfl, _⟩ := h
  simp only [ghs_isEmpty, gIsEmpty, hx, toHigh_DenseStore, GenDense.isEmpty_eq, GenSketch.store_isEmpty,
    Store.isEmpty]

theorem hsim_totalCount {x : GHS n} {st : Store} (h : HSim x st) :
    (StoreI.TotalCount x : F64) = StoreI.TotalCount st := by
  obtain ⟨d, hx, rfl, _⟩ := h
  simp only [ghs_totalCount, gTotalCount, hx, toHigh_DenseStore, GenDense.totalCount_eq,
    GenSketch.store_totalCount, Store.totalCount]

theorem hsim_minIndex {x : GHS n} {st : Store} (h : HSim x st) :
    (StoreI.MinIndex x : Int × GoErr) = StoreI.MinIndex st := by
  obtain ⟨d, hx, rfl, _⟩ := h
  simp only [ghs_minIndex, gMinIndex, hx, toHigh_DenseStore, GenDense.minIndex_eq, GenSketch.store_minIndex,
    GenSketch.storeMinIndex, Store.minIndex?, GenDenseSketch.errMin_eq]
  cases d.minIndex? <;> rfl

theorem hsim_maxIndex {x : GHS n} {st : Store} (h : HSim x st) :
    (StoreI.MaxIndex x : Int × GoErr) = StoreI.MaxIndex st := by
  obtain ⟨d, hx, rfl, _⟩ := h
  simp only [ghs_maxIndex, gMaxIndex, hx, toHigh_DenseStore, GenDense.maxIndex_eq, GenSketch.store_maxIndex,
    GenSketch.storeMaxIndex, Store.maxIndex?, GenDenseSketch.errMax_eq]
  cases d.maxIndex? <;> rfl

theorem hsim_keyAtRank {x : GHS n} {st : Store} (h : HSim x st) (r : F64) :
    (StoreI.KeyAtRank x r : Int) = StoreI.KeyAtRank st r := by
  obtain ⟨d, hx, rfl, _⟩ := h
  simp only [ghs_keyAtRank, gKeyAtRank, gKeyAtRankQ, gMaxIndex, GenSketch.store_keyAtRank,
    Sketch.storeKeyAtRank, hx, toHigh_DenseStore, GenDense.keyAtRank_eq, okOr_ok, GenDense.maxIndex_eq,
    Store.keyAtRank, Store.maxIndex?]
  cases r with
  | fin q => rfl
  | ninf => rfl
  | pinf => cases d.maxIndex? <;> rfl
  | nan => cases d.maxIndex? <;> rfl

/-! ### mutators -/

theorem hsim_addWithCount {x : GHS n} {st : Store} (h : HSim x st) (i : Int) (c : F64) :
    HSim (StoreI.AddWithCount x i c : GHS n) (StoreI.AddWithCount st i c) := by
  obtain ⟨d, hx, rfl, hk⟩ := id h
  obtain ⟨g⟩ := x
  simp only at hx
  subst hx
  cases c with
  | fin w =>
    simp only [ghs_addWithCount, gAddWithCount, ratOfF64, extendFuel_ofHigh, GenSketch.store_addWithCount,
      GenSketch.storeAddF, Sketch.addF, Store.addWithCount]
    rw [GenHigh.addWithCount_rel _ n d i w hk (Nat.le_refl _)]
    cases hm : d.addWithCount i w with
    | none => exact ⟨d, rfl, rfl, hk⟩
    | some d' => exact ⟨d', rfl, rfl, GenHigh.addWithCount_kind n d d' i w hk hm⟩
  | pinf => exact h
  | ninf => exact h
  | nan => exact h

theorem hsim_add {x : GHS n} {st : Store} (h : HSim x st) (i : Int) :
    HSim (StoreI.Add x i : GHS n) (StoreI.Add st i) := by
  obtain ⟨d, hx, rfl, hk⟩ := h
  obtain ⟨g⟩ := x
  simp only at hx
  subst hx
  simp only [ghs_add, gAdd, extendFuel_ofHigh, GenSketch.store_add, Store.addWithCount]
  rw [GenHigh.add_rel _ n d i hk (Nat.le_refl _)]
  cases hm : d.addWithCount i 1 with
  | none => exact ⟨d, rfl, rfl, hk⟩
  | some d' => exact ⟨d', rfl, rfl, GenHigh.addWithCount_kind n d d' i 1 hk hm⟩

theorem hsim_clear {x : GHS n} {st : Store} (h : HSim x st) :
    HSim (StoreI.Clear x : GHS n) (StoreI.Clear st) := by
  obtain ⟨d, hx, rfl, hk⟩ := h
  refine ⟨d.clear, ?_, rfl, hk⟩
  simp only [ghs_clear, gClear, hx, GenHigh.clear_rel, okOr_ok]

theorem hsim_copy {x : GHS n} {st : Store} (h : HSim x st) :
    HSim (StoreI.Copy x : GHS n) (StoreI.Copy st) := by
  obtain ⟨d, hx, rfl, hk⟩ := h
  refine ⟨d, ?_, rfl, hk⟩
  simp only [ghs_copy, gCopy, hx, GenHigh.copy_eq]

/-- the dispatch of `Store.mergeWith` on two highest-collapsing stores is the same-kind merge -/
theorem store_mergeWith_high (a b : DStore) (m : Nat) (ha : a.kind = .high n) (hb : b.kind = .high m) :
    (Store.d a).mergeWith (.d b) = (a.mergeSame b).map .d := by
  unfold Store.mergeWith
  simp only [ha, hb]
  by_cases he : b.isEmpty = true
  · simp only [he, if_true]
    unfold DStore.mergeSame
    rw [if_pos he]; rfl
  · simp only [he, Bool.false_eq_true, if_false, if_true]

theorem hsim_mergeWith {x y : GHS n} {st so : Store} (h : HSim x st) (h' : HSim y so) :
    HSim (StoreI.MergeWith x y : GHS n) (StoreI.MergeWith st so) := by
  obtain ⟨d, hx, rfl, hk⟩ := h
  obtain ⟨o, hy, rfl, hko⟩ := h'
  obtain ⟨g⟩ := x
  obtain ⟨g'⟩ := y
  simp only at hx hy
  subst hx hy
  simp only [ghs_mergeWith, gMergeWith, mergeFuel_ofHigh, GenSketch.store_mergeWith,
    store_mergeWith_high d o n hk hko]
  rw [GenHigh.mergeWith_rel _ n (n : Int) d o hk (Nat.le_refl _)]
  cases hm : d.mergeSame o with
  | none => exact ⟨d, rfl, rfl, hk⟩
  | some d' => exact ⟨d', rfl, rfl, GenHigh.mergeSame_kind n d d' o hk hm⟩

/-- `reweight` only rewrites bins and count -/
theorem reweight_collapsed (s t : DStore) (w : Rat) (h : s.reweight w = some t) :
    t.isCollapsed = s.isCollapsed := by
  unfold DStore.reweight at h
  simp only [Option.bind_eq_bind, Option.bind_eq_some_iff] at h
  obtain ⟨b, _, h2⟩ := h
  cases h2; rfl

theorem hsim_reweight {x : GHS n} {st : Store} (h : HSim x st) (w : F64) :
    (StoreI.Reweight x w).2 = (StoreI.Reweight st w).2 ∧
      HSim (StoreI.Reweight x w).1 (StoreI.Reweight st w).1 := by
  simp only [ghs_reweight, gReweight, GenSketch.store_reweight, GenSketch.storeReweight]
  by_cases hle : F64.le w (.fin 0) = true
  · simp only [hle, if_true]; exact ⟨trivial, h⟩
  · simp only [hle, Bool.false_eq_true, if_false]
    cases w with
    | fin q =>
      have hq : ¬ q ≤ 0 := by
        intro hq; rw [GenSketch.le_fin_zero] at hle; exact hle (by simpa using hq)
      have hpos : 0 < q := Rat.not_le.mp hq
      obtain ⟨d, hx, rfl, hk⟩ := id h
      obtain ⟨g⟩ := x
      simp only at hx
      subst hx
      by_cases h1 : q = 1
      · subst h1
        simp only [toHigh_DenseStore, GenDense.reweight_one]
        have : (Store.d d).reweight 1 = some (.ok (.d d)) := by
          unfold Store.reweight; rw [if_neg hq, if_pos rfl]
        simp only [this]
        exact ⟨trivial, h⟩
      · simp only [toHigh_DenseStore, GenDenseSketch.reweightFuel_ofGen]
        rw [GenDense.reweight_rel _ d q hpos h1 (Nat.le_refl _)]
        have hm : (Store.d d).reweight q = (d.reweight q).map (fun t => .ok (.d t)) := by
          unfold Store.reweight; rw [if_neg hq, if_neg h1]
        rw [hm]
        cases hr : d.reweight q with
        | none => exact ⟨rfl, d, rfl, rfl, hk⟩
        | some d' =>
          refine ⟨rfl, d', ?_, rfl, (GenDense.reweight_kind d d' q hr).trans hk⟩
          simp only [toRes_some, toHigh, reweight_collapsed d d' q hr]
    | pinf => exact ⟨rfl, h⟩
    | ninf => exact absurd rfl hle
    | nan => exact ⟨rfl, h⟩

/-! ### the `StoreSim` instance and the sketch-level corollaries -/

/-- the regenerated highest-collapsing store simulates the model's store of kind `.high n`; every index is
    admissible -/
def highStoreSim (n : Nat) : StoreSim (GHS n) Store where
  R := HSim
  Adm := fun _ => True
  isEmpty := hsim_isEmpty
  totalCount := hsim_totalCount
  minIndex := hsim_minIndex
  maxIndex := hsim_maxIndex
  keyAtRank := hsim_keyAtRank
  addWithCount := fun h i _ c _ => hsim_addWithCount h i c
  add := fun h i _ => hsim_add h i
  clear := hsim_clear
  copy := hsim_copy
  mergeWith := hsim_mergeWith
  reweight := hsim_reweight

section sketch

open DDS.Gen.Sketch

variable {M : Type} [MapI M] [Inhabited M]

omit [Inhabited M] in
theorem high_routed (m : M) (v : F64) : RoutedG (highStoreSim n) m v := ⟨fun _ => trivial, fun _ => trivial⟩

/-- after ANY history of `AddWithCount` calls from
    `NewDDSketch(m, NewCollapsingHighestDenseStore(n), NewCollapsingHighestDenseStore(n))` the two sketches are
    related (stores exactly the images of the model's) and the errors agree — no side condition -/
theorem high_runAdds (n : Nat) (m : M) (l : List (F64 × F64)) :
    let a := runAdds (NewDDSketch m (⟨NewCollapsingHighestDenseStore (n : Int)⟩ : GHS n)
      ⟨NewCollapsingHighestDenseStore (n : Int)⟩) l
    let b := runAdds (NewDDSketch m (Store.new (.high n)) (Store.new (.high n))) l
    a.2 = b.2 ∧ SkSimG (highStoreSim n) a.1 b.1 :=
  runAdds_paramG (highStoreSim n) l (skSimG_new (highStoreSim n) m hsim_new hsim_new)
    (fun p _ => high_routed m p.1)

/-- … and every observer agrees -/
theorem high_history_observers (n : Nat) (m : M) (l : List (F64 × F64)) :
    let a := runAdds (NewDDSketch m (⟨NewCollapsingHighestDenseStore (n : Int)⟩ : GHS n)
      ⟨NewCollapsingHighestDenseStore (n : Int)⟩) l
    let b := runAdds (NewDDSketch m (Store.new (.high n)) (Store.new (.high n))) l
    a.2 = b.2 ∧ DDSketch.GetCount a.1 = DDSketch.GetCount b.1 ∧ DDSketch.IsEmpty a.1 = DDSketch.IsEmpty b.1 ∧
    (∀ q, DDSketch.GetValueAtQuantile a.1 q = DDSketch.GetValueAtQuantile b.1 q) ∧
    DDSketch.GetMinValue a.1 = DDSketch.GetMinValue b.1 ∧ DDSketch.GetMaxValue a.1 = DDSketch.GetMaxValue b.1 :=
  history_observers_paramG (highStoreSim n) m hsim_new hsim_new l (fun p _ => high_routed m p.1)

end sketch

end DDS.GenHighSketch
