/-
  DDS.Proofs.Num — machine-checked lemmas about the exact rational model of IEEE-754 binary64
  rounding (`DDS.Model.Num`).
-/
import Mathlib.Tactic.Linarith
import Mathlib.Tactic.Ring
import Mathlib.Tactic.FieldSimp
import Mathlib.Tactic.Positivity
import Mathlib.Tactic.NormNum
import Mathlib.Data.Rat.Floor
import Mathlib.Algebra.Order.Field.Rat
import Mathlib.Algebra.Order.Floor.Ring
import DDS.Model.Num
import DDS.Model.Codec
import DDS.Model.Dense

set_option linter.unusedVariables false

namespace DDS

/-! ## `pow2` -/

theorem pow2_eq_zpow (e : Int) : pow2 e = (2:Rat)^e := by
  unfold pow2
  split
  · rename_i h
    obtain ⟨n, rfl⟩ := Int.eq_ofNat_of_zero_le h
    simp
  · rename_i h
    have : e = -((-e).toNat : Int) := by omega
    generalize (-e).toNat = n at this
    subst this
    simp

theorem pow2_pos (e : Int) : 0 < pow2 e := by
  rw [pow2_eq_zpow]; exact zpow_pos (by norm_num) e

theorem pow2_ne_zero (e : Int) : pow2 e ≠ 0 := (pow2_pos e).ne'

theorem pow2_add (a b : Int) : pow2 (a + b) = pow2 a * pow2 b := by
  simp only [pow2_eq_zpow]; exact zpow_add₀ (by norm_num) a b

theorem pow2_sub (a b : Int) : pow2 (a - b) = pow2 a / pow2 b := by
  simp only [pow2_eq_zpow]; exact zpow_sub₀ (by norm_num) a b

theorem pow2_zero : pow2 0 = 1 := by simp [pow2_eq_zpow]

theorem pow2_one : pow2 1 = 2 := by simp [pow2_eq_zpow]

theorem pow2_succ (a : Int) : pow2 (a + 1) = 2 * pow2 a := by
  rw [pow2_add, pow2_one, mul_comm]

theorem pow2_ofNat (n : Nat) : pow2 (n : Int) = (2:Rat)^n := by
  simp [pow2_eq_zpow]

theorem pow2_strictMono {a b : Int} (h : a < b) : pow2 a < pow2 b := by
  simp only [pow2_eq_zpow]; exact zpow_lt_zpow_right₀ (by norm_num) h

theorem pow2_mono {a b : Int} (h : a ≤ b) : pow2 a ≤ pow2 b := by
  simp only [pow2_eq_zpow]; exact zpow_le_zpow_right₀ (by norm_num) h

theorem pow2_lt_iff {a b : Int} : pow2 a < pow2 b ↔ a < b := by
  constructor
  · intro h; by_contra hc; exact absurd (pow2_mono (not_lt.mp hc)) (not_le.mpr h)
  · exact pow2_strictMono

theorem pow2_le_iff {a b : Int} : pow2 a ≤ pow2 b ↔ a ≤ b := by
  constructor
  · intro h; by_contra hc; exact absurd (pow2_strictMono (not_le.mp hc)) (not_lt.mpr h)
  · exact pow2_mono

namespace F64

/-! ## `floorLog2` -/

theorem floorLog2_spec (x : Rat) (hx : 0 < x) :
    pow2 (floorLog2 x) ≤ x ∧ x < pow2 (floorLog2 x + 1) := by
  have hnum : 0 < x.num := Rat.num_pos.mpr hx
  have hn0 : x.num.toNat ≠ 0 := by omega
  have hd0 : x.den ≠ 0 := x.den_nz
  have hn1 := Nat.log2_self_le hn0
  have hn2 := @Nat.lt_log2_self x.num.toNat
  have hd1 := Nat.log2_self_le hd0
  have hd2 := @Nat.lt_log2_self x.den
  have hxeq : x = (x.num.toNat : Rat) / (x.den : Rat) := by
    have h1 : ((x.num.toNat : Nat) : Rat) = ((x.num : Int) : Rat) := by
      have : ((x.num.toNat : Nat) : Int) = x.num := Int.toNat_of_nonneg hnum.le
      exact_mod_cast congrArg (Int.cast (R := Rat)) this
    rw [h1]; exact (Rat.num_div_den x).symm
  have hdpos : (0:Rat) < (x.den : Rat) := by exact_mod_cast Nat.pos_of_ne_zero hd0
  -- cast the Nat facts to Rat
  have hn1' : (2:Rat) ^ x.num.toNat.log2 ≤ (x.num.toNat : Rat) := by exact_mod_cast hn1
  have hn2' : (x.num.toNat : Rat) < (2:Rat) ^ (x.num.toNat.log2 + 1) := by exact_mod_cast hn2
  have hd1' : (2:Rat) ^ x.den.log2 ≤ (x.den : Rat) := by exact_mod_cast hd1
  have hd2' : (x.den : Rat) < (2:Rat) ^ (x.den.log2 + 1) := by exact_mod_cast hd2
  -- bounds
  have hlow : pow2 ((x.num.toNat.log2 : Int) - (x.den.log2 : Int) - 1) < x := by
    have : (x.num.toNat.log2 : Int) - (x.den.log2 : Int) - 1
        = (x.num.toNat.log2 : Int) - ((x.den.log2 + 1 : Nat) : Int) := by push_cast; ring
    rw [this, pow2_sub, pow2_ofNat, pow2_ofNat]
    conv_rhs => rw [hxeq]
    rw [div_lt_div_iff₀ (by positivity) hdpos]
    calc (2:Rat) ^ x.num.toNat.log2 * (x.den : Rat)
        < (2:Rat) ^ x.num.toNat.log2 * (2:Rat) ^ (x.den.log2 + 1) :=
          mul_lt_mul_of_pos_left hd2' (by positivity)
      _ ≤ (x.num.toNat : Rat) * (2:Rat) ^ (x.den.log2 + 1) :=
          mul_le_mul_of_nonneg_right hn1' (by positivity)
  have hhigh : x < pow2 ((x.num.toNat.log2 : Int) - (x.den.log2 : Int) + 1) := by
    have : (x.num.toNat.log2 : Int) - (x.den.log2 : Int) + 1
        = ((x.num.toNat.log2 + 1 : Nat) : Int) - (x.den.log2 : Int) := by push_cast; ring
    rw [this, pow2_sub, pow2_ofNat, pow2_ofNat]
    conv_lhs => rw [hxeq]
    rw [div_lt_div_iff₀ hdpos (by positivity)]
    calc (x.num.toNat : Rat) * (2:Rat) ^ x.den.log2
        < (2:Rat) ^ (x.num.toNat.log2 + 1) * (2:Rat) ^ x.den.log2 :=
          mul_lt_mul_of_pos_right hn2' (by positivity)
      _ ≤ (2:Rat) ^ (x.num.toNat.log2 + 1) * (x.den : Rat) :=
          mul_le_mul_of_nonneg_left hd1' (by positivity)
  unfold floorLog2
  simp only
  generalize (x.num.toNat.log2 : Int) - (x.den.log2 : Int) = e0 at hlow hhigh
  split
  · rename_i h1
    split
    · rename_i h2
      exact absurd hhigh (not_lt.mpr h2)
    · rename_i h2
      exact ⟨h1, not_le.mp h2⟩
  · rename_i h1
    refine ⟨hlow.le, ?_⟩
    have : e0 - 1 + 1 = e0 := by ring
    rw [this]; exact not_le.mp h1

/-- uniqueness of the binade -/
theorem floorLog2_unique {x : Rat} {e : Int} (h1 : pow2 e ≤ x) (h2 : x < pow2 (e + 1)) :
    floorLog2 x = e := by
  have hx : 0 < x := lt_of_lt_of_le (pow2_pos e) h1
  obtain ⟨s1, s2⟩ := floorLog2_spec x hx
  have a : e < floorLog2 x + 1 := pow2_lt_iff.mp (lt_of_le_of_lt h1 s2)
  have b : floorLog2 x < e + 1 := pow2_lt_iff.mp (lt_of_le_of_lt s1 h2)
  omega

theorem floorLog2_mono {x y : Rat} (hx : 0 < x) (hxy : x ≤ y) : floorLog2 x ≤ floorLog2 y := by
  obtain ⟨s1, _⟩ := floorLog2_spec x hx
  obtain ⟨_, t2⟩ := floorLog2_spec y (lt_of_lt_of_le hx hxy)
  have : floorLog2 x < floorLog2 y + 1 := pow2_lt_iff.mp (lt_of_le_of_lt (le_trans s1 hxy) t2)
  omega

theorem floorLog2_pow2 (e : Int) : floorLog2 (pow2 e) = e :=
  floorLog2_unique le_rfl (pow2_strictMono (by omega))

/-! ## `roundHalfEven` -/

theorem roundHalfEven_spec (x : Rat) (hx : 0 ≤ x) :
    |((roundHalfEven x : Int) : Rat) - x| ≤ 1/2 := by
  have h1 := Rat.floor_le x
  have h2 := Rat.lt_floor_add_one x
  push_cast at h2
  unfold roundHalfEven
  simp only
  rw [abs_le]
  split
  · constructor <;> linarith
  · split
    · push_cast; constructor <;> linarith
    · split
      · constructor <;> linarith
      · push_cast; constructor <;> linarith

theorem roundHalfEven_int (n : Int) (hn : 0 ≤ n) : roundHalfEven (n : Rat) = n := by
  unfold roundHalfEven
  simp [Rat.floor_intCast]

theorem roundHalfEven_floor_le (x : Rat) : x.floor ≤ roundHalfEven x := by
  unfold roundHalfEven; simp only; split_ifs <;> omega

theorem roundHalfEven_le_floor_add_one (x : Rat) : roundHalfEven x ≤ x.floor + 1 := by
  unfold roundHalfEven; simp only; split_ifs <;> omega

theorem roundHalfEven_mono' {x y : Rat} (hxy : x ≤ y) : roundHalfEven x ≤ roundHalfEven y := by
  have hf := Rat.floor_monotone hxy
  rcases hf.lt_or_eq with hlt | heq
  · calc roundHalfEven x ≤ x.floor + 1 := roundHalfEven_le_floor_add_one x
      _ ≤ y.floor := hlt
      _ ≤ roundHalfEven y := roundHalfEven_floor_le y
  · unfold roundHalfEven
    simp only
    rw [heq]
    split_ifs <;> first | omega | (exfalso; linarith)

theorem roundHalfEven_mono {x y : Rat} (hx : 0 ≤ x) (hxy : x ≤ y) :
    roundHalfEven x ≤ roundHalfEven y := roundHalfEven_mono' hxy


/-! ## `roundPos`: the value before the overflow test -/

/-- the value computed by `roundPos` before the overflow test -/
def rpv (x : Rat) : Rat :=
  (roundHalfEven (x / pow2 (quantumExp x)) : Rat) * pow2 (quantumExp x)

theorem roundPos_eq (x : Rat) :
    roundPos x = if pow2 1024 ≤ rpv x then .pinf else .fin (rpv x) := rfl

theorem quantumExp_ge (x : Rat) : -1074 ≤ quantumExp x := by
  unfold quantumExp; simp only; split <;> omega

theorem quantumExp_of_normal {x : Rat} (h : -1022 ≤ floorLog2 x) :
    quantumExp x = floorLog2 x - 52 := by
  unfold quantumExp; simp only; split <;> omega

theorem quantumExp_of_subnormal {x : Rat} (h : floorLog2 x < -1022) :
    quantumExp x = -1074 := by
  unfold quantumExp; simp only; split <;> omega

theorem quantumExp_mono {x y : Rat} (hx : 0 < x) (hxy : x ≤ y) : quantumExp x ≤ quantumExp y := by
  have := floorLog2_mono hx hxy
  unfold quantumExp; simp only; split <;> split <;> omega

theorem pow2_52 : pow2 52 = (((2:Int)^52 : Int) : Rat) := by
  rw [show (52:Int) = ((52:Nat):Int) from rfl, pow2_ofNat]; norm_num

theorem pow2_53 : pow2 53 = (((2:Int)^53 : Int) : Rat) := by
  rw [show (53:Int) = ((53:Nat):Int) from rfl, pow2_ofNat]; norm_num

theorem rpv_nonneg {x : Rat} (hx : 0 ≤ x) : 0 ≤ rpv x := by
  unfold rpv
  apply mul_nonneg _ (pow2_pos _).le
  have h0 : (0:Rat) ≤ x / pow2 (quantumExp x) := div_nonneg hx (pow2_pos _).le
  have := roundHalfEven_mono' h0
  rw [show ((0:Rat)) = ((0:Int):Rat) by simp, roundHalfEven_int 0 le_rfl] at this
  exact_mod_cast this

/-- scaled significand is below `2^53` -/
theorem scaled_lt {x : Rat} (hx : 0 < x) : x / pow2 (quantumExp x) < pow2 53 := by
  rw [div_lt_iff₀ (pow2_pos _), ← pow2_add]
  obtain ⟨_, h2⟩ := floorLog2_spec x hx
  refine lt_of_lt_of_le h2 (pow2_mono ?_)
  unfold quantumExp; simp only; split <;> omega

theorem scaled_ge {x : Rat} (hx : 0 < x) (hn : -1022 ≤ floorLog2 x) :
    pow2 52 ≤ x / pow2 (quantumExp x) := by
  rw [le_div_iff₀ (pow2_pos _), ← pow2_add, quantumExp_of_normal hn]
  obtain ⟨h1, _⟩ := floorLog2_spec x hx
  simpa using h1

theorem scaled_lt_sub {x : Rat} (hx : 0 < x) (hn : floorLog2 x < -1022) :
    x / pow2 (quantumExp x) < pow2 52 := by
  rw [div_lt_iff₀ (pow2_pos _), ← pow2_add, quantumExp_of_subnormal hn]
  obtain ⟨_, h2⟩ := floorLog2_spec x hx
  exact lt_of_lt_of_le h2 (pow2_mono (by omega))

/-- the rounded significand is at most `2^53` -/
theorem sig_le {x : Rat} (hx : 0 < x) : roundHalfEven (x / pow2 (quantumExp x)) ≤ 2^53 := by
  have := roundHalfEven_mono' (scaled_lt hx).le
  rw [pow2_53, roundHalfEven_int _ (by norm_num)] at this
  exact this

theorem sig_ge {x : Rat} (hx : 0 < x) (hn : -1022 ≤ floorLog2 x) :
    2^52 ≤ roundHalfEven (x / pow2 (quantumExp x)) := by
  have := roundHalfEven_mono' (scaled_ge hx hn)
  rw [pow2_52, roundHalfEven_int _ (by norm_num)] at this
  exact this

theorem sig_le_sub {x : Rat} (hx : 0 < x) (hn : floorLog2 x < -1022) :
    roundHalfEven (x / pow2 (quantumExp x)) ≤ 2^52 := by
  have := roundHalfEven_mono' (scaled_lt_sub hx hn).le
  rw [pow2_52, roundHalfEven_int _ (by norm_num)] at this
  exact this

theorem sig_nonneg {x : Rat} (hx : 0 ≤ x) : 0 ≤ roundHalfEven (x / pow2 (quantumExp x)) := by
  have h0 : (0:Rat) ≤ x / pow2 (quantumExp x) := div_nonneg hx (pow2_pos _).le
  have := roundHalfEven_mono' h0
  rwa [show ((0:Rat)) = ((0:Int):Rat) by simp, roundHalfEven_int 0 le_rfl] at this

/-- `rpv x ≤ 2^(qe+53)`: the result stays in the closed binade -/
theorem rpv_le {x : Rat} (hx : 0 < x) : rpv x ≤ pow2 (quantumExp x + 53) := by
  unfold rpv
  rw [pow2_add, mul_comm (pow2 (quantumExp x))]
  apply mul_le_mul_of_nonneg_right _ (pow2_pos _).le
  rw [pow2_53]; exact_mod_cast sig_le hx

theorem rpv_ge {x : Rat} (hx : 0 < x) (hn : -1022 ≤ floorLog2 x) :
    pow2 (floorLog2 x) ≤ rpv x := by
  unfold rpv
  have : floorLog2 x = 52 + quantumExp x := by rw [quantumExp_of_normal hn]; ring
  rw [this, pow2_add]
  apply mul_le_mul_of_nonneg_right _ (pow2_pos _).le
  rw [pow2_52]; exact_mod_cast sig_ge hx hn

theorem rpv_le_sub {x : Rat} (hx : 0 < x) (hn : floorLog2 x < -1022) :
    rpv x ≤ pow2 (-1022) := by
  unfold rpv
  rw [quantumExp_of_subnormal hn, show (-1022:Int) = 52 + -1074 by norm_num, pow2_add]
  apply mul_le_mul_of_nonneg_right _ (pow2_pos _).le
  have := sig_le_sub hx hn
  rw [quantumExp_of_subnormal hn] at this
  rw [pow2_52]; exact_mod_cast this

theorem rpv_mono {x y : Rat} (hx : 0 < x) (hxy : x ≤ y) : rpv x ≤ rpv y := by
  have hy : 0 < y := lt_of_lt_of_le hx hxy
  have hq := quantumExp_mono hx hxy
  rcases hq.lt_or_eq with hlt | heq
  · -- different quanta: `y` is normal and in a higher binade
    have hny : -1022 ≤ floorLog2 y := by
      by_contra hc
      rw [quantumExp_of_subnormal (not_le.mp hc)] at hlt
      have := quantumExp_ge x; omega
    have h1 := rpv_le hx
    have h2 := rpv_ge hy hny
    refine le_trans h1 (le_trans (pow2_mono ?_) h2)
    rw [quantumExp_of_normal hny] at hlt; omega
  · unfold rpv
    rw [heq]
    apply mul_le_mul_of_nonneg_right _ (pow2_pos _).le
    have : x / pow2 (quantumExp y) ≤ y / pow2 (quantumExp y) :=
      div_le_div_of_nonneg_right hxy (pow2_pos _).le
    exact_mod_cast roundHalfEven_mono' this

/-- a positive value on its own grid is a fixed point -/
theorem rpv_of_grid {x : Rat} (hx : 0 < x) (N : Int) (h : x = (N : Rat) * pow2 (quantumExp x)) :
    rpv x = x := by
  have hN : 0 ≤ N := by
    by_contra hc
    have : (N : Rat) < 0 := by exact_mod_cast not_le.mp hc
    have := mul_neg_of_neg_of_pos this (pow2_pos (quantumExp x))
    linarith
  have hdiv : x / pow2 (quantumExp x) = (N : Rat) := by
    rw [div_eq_iff (pow2_ne_zero _)]; exact h
  unfold rpv
  rw [hdiv, roundHalfEven_int N hN]; exact h.symm

/-- `m * 2^k` with `0 < m < 2^53` and `k ≥ -1074` lies on its own grid -/
theorem grid_of_dyadic {m : Int} {k : Int} (hm0 : 0 < m) (hm : m < 2^53) (hk : -1074 ≤ k) :
    ∃ N : Int, (m : Rat) * pow2 k = (N : Rat) * pow2 (quantumExp ((m : Rat) * pow2 k)) := by
  have hx : (0:Rat) < (m : Rat) * pow2 k := mul_pos (by exact_mod_cast hm0) (pow2_pos k)
  obtain ⟨h1, _⟩ := floorLog2_spec _ hx
  have hlt : (m : Rat) * pow2 k < pow2 (53 + k) := by
    rw [pow2_add, pow2_53]
    apply mul_lt_mul_of_pos_right _ (pow2_pos k)
    exact_mod_cast hm
  have he : floorLog2 ((m : Rat) * pow2 k) < 53 + k := pow2_lt_iff.mp (lt_of_le_of_lt h1 hlt)
  have hq : quantumExp ((m : Rat) * pow2 k) ≤ k := by
    unfold quantumExp; simp only; split <;> omega
  generalize quantumExp ((m : Rat) * pow2 k) = qe at hq
  obtain ⟨d, rfl⟩ : ∃ d : Nat, k = qe + d := ⟨(k - qe).toNat, by omega⟩
  refine ⟨m * 2 ^ d, ?_⟩
  rw [pow2_add, pow2_ofNat]; push_cast; ring

theorem rpv_dyadic {m : Int} {k : Int} (hm0 : 0 < m) (hm : m ≤ 2^53) (hk : -1074 ≤ k) :
    rpv ((m : Rat) * pow2 k) = (m : Rat) * pow2 k := by
  rcases hm.lt_or_eq with hlt | heq
  · obtain ⟨N, hN⟩ := grid_of_dyadic hm0 hlt hk
    exact rpv_of_grid (mul_pos (by exact_mod_cast hm0) (pow2_pos k)) N hN
  · have : (m : Rat) * pow2 k = ((2^52 : Int) : Rat) * pow2 (k + 1) := by
      rw [heq, pow2_succ]; push_cast; ring
    rw [this]
    obtain ⟨N, hN⟩ := grid_of_dyadic (m := 2^52) (k := k + 1) (by norm_num) (by norm_num) (by omega)
    exact rpv_of_grid (mul_pos (by norm_num) (pow2_pos _)) N hN

/-! ## `roundF64`: signed value and normal form -/

/-- the signed value computed by `roundF64` before the overflow tests -/
def rv (x : Rat) : Rat := if x = 0 then 0 else if 0 < x then rpv x else -rpv (-x)

theorem rv_zero : rv 0 = 0 := by simp [rv]

theorem rv_of_pos {x : Rat} (hx : 0 < x) : rv x = rpv x := by
  simp [rv, hx.ne', hx]

theorem rv_of_neg {x : Rat} (hx : x < 0) : rv x = -rpv (-x) := by
  simp [rv, hx.ne, not_lt.mpr hx.le]

theorem rv_neg (x : Rat) : rv (-x) = -rv x := by
  rcases lt_trichotomy x 0 with h | h | h
  · rw [rv_of_neg h, rv_of_pos (by linarith : 0 < -x)]; simp
  · subst h; simp [rv_zero]
  · rw [rv_of_pos h, rv_of_neg (by linarith : -x < 0)]; simp

theorem rv_nonneg {x : Rat} (hx : 0 ≤ x) : 0 ≤ rv x := by
  rcases hx.lt_or_eq with h | h
  · rw [rv_of_pos h]; exact rpv_nonneg hx
  · subst h; simp [rv_zero]

theorem rv_nonpos {x : Rat} (hx : x ≤ 0) : rv x ≤ 0 := by
  have := rv_nonneg (x := -x) (by linarith)
  rw [rv_neg] at this; linarith

theorem rv_mono {x y : Rat} (hxy : x ≤ y) : rv x ≤ rv y := by
  rcases lt_trichotomy x 0 with hx | hx | hx
  · rcases lt_trichotomy y 0 with hy | hy | hy
    · rw [rv_of_neg hx, rv_of_neg hy]
      have := rpv_mono (x := -y) (y := -x) (by linarith) (by linarith)
      linarith
    · exact le_trans (rv_nonpos hx.le) (rv_nonneg hy.ge)
    · exact le_trans (rv_nonpos hx.le) (rv_nonneg hy.le)
  · subst hx; rw [rv_zero]; exact rv_nonneg hxy
  · rw [rv_of_pos hx, rv_of_pos (lt_of_lt_of_le hx hxy)]
    exact rpv_mono hx hxy

/-- normal form of `roundF64` -/
theorem roundF64_eq (x : Rat) :
    roundF64 x = if pow2 1024 ≤ rv x then .pinf
                 else if rv x ≤ -pow2 1024 then .ninf else .fin (rv x) := by
  have hp := pow2_pos 1024
  rcases lt_trichotomy x 0 with hx | hx | hx
  · have h1 : ¬ (0 < x) := not_lt.mpr hx.le
    have hnn := rpv_nonneg (x := -x) (by linarith)
    rw [rv_of_neg hx]
    unfold roundF64
    rw [if_neg hx.ne, if_neg h1, roundPos_eq]
    by_cases hov : pow2 1024 ≤ rpv (-x)
    · rw [if_pos hov, if_neg (by linarith), if_pos (by linarith)]
    · rw [if_neg hov, if_neg (by linarith), if_neg (by linarith)]
  · subst hx
    rw [rv_zero]
    unfold roundF64
    rw [if_pos rfl, if_neg (by linarith), if_neg (by linarith)]
  · have hnn := rpv_nonneg hx.le
    rw [rv_of_pos hx]
    unfold roundF64
    rw [if_neg hx.ne', if_pos hx, roundPos_eq]
    by_cases hov : pow2 1024 ≤ rpv x
    · rw [if_pos hov, if_pos hov]
    · rw [if_neg hov, if_neg hov, if_neg (by linarith)]

theorem roundF64_fin_iff {x r : Rat} :
    roundF64 x = .fin r ↔ r = rv x ∧ -pow2 1024 < rv x ∧ rv x < pow2 1024 := by
  rw [roundF64_eq]
  split_ifs with h1 h2
  · simp; intro _ _; linarith
  · simp; intro _ h; linarith
  · simp only [F64.fin.injEq]
    constructor
    · intro h; exact ⟨h.symm, not_le.mp h2, not_le.mp h1⟩
    · intro h; exact h.1.symm

theorem roundF64_of_bounds {x : Rat} (h1 : -pow2 1024 < rv x) (h2 : rv x < pow2 1024) :
    roundF64 x = .fin (rv x) := roundF64_fin_iff.mpr ⟨rfl, h1, h2⟩


/-! ## R1: monotonicity -/

theorem roundF64_mono {x y : Rat} (hxy : x ≤ y) {a b : Rat}
    (hx : roundF64 x = .fin a) (hy : roundF64 y = .fin b) : a ≤ b := by
  rw [(roundF64_fin_iff.mp hx).1, (roundF64_fin_iff.mp hy).1]
  exact rv_mono hxy

/-! ## R2: representable values -/

theorem rv_dyadic (m : Int) (k : Int) (hm : |m| ≤ 2^53) (hk : -1074 ≤ k) :
    rv ((m : Rat) * pow2 k) = (m : Rat) * pow2 k := by
  have habs := abs_le.mp hm
  rcases lt_trichotomy m 0 with h | h | h
  · have hpos : (0:Rat) < ((-m : Int) : Rat) * pow2 k :=
      mul_pos (by exact_mod_cast (by omega : 0 < -m)) (pow2_pos k)
    have h1 := rpv_dyadic (m := -m) (k := k) (by omega) (by omega) hk
    have h2 : (m : Rat) * pow2 k = -(((-m : Int) : Rat) * pow2 k) := by push_cast; ring
    rw [h2, rv_neg, rv_of_pos hpos, h1]
  · subst h; simp [rv_zero]
  · have hpos : (0:Rat) < (m : Rat) * pow2 k := mul_pos (by exact_mod_cast h) (pow2_pos k)
    rw [rv_of_pos hpos]; exact rpv_dyadic h (by omega) hk

theorem roundF64_dyadic (m : Int) (e : Int) (hm : |m| ≤ 2^53) (he : -1074 ≤ e)
    (hlt : |(m : Rat)| * pow2 e < pow2 1024) :
    roundF64 ((m : Rat) * pow2 e) = .fin ((m : Rat) * pow2 e) := by
  have h := rv_dyadic m e hm he
  have habs : |(m : Rat) * pow2 e| < pow2 1024 := by
    rw [abs_mul, abs_of_pos (pow2_pos e)]; exact hlt
  have := abs_lt.mp habs
  rw [roundF64_fin_iff, h]
  exact ⟨rfl, this.1, this.2⟩

theorem roundF64_int (n : Int) (hn : |n| ≤ 2^53) : roundF64 (n : Rat) = .fin (n : Rat) := by
  have h := roundF64_dyadic n 0 hn (by norm_num) (by
    rw [pow2_zero, mul_one]
    have h1 : |(n : Rat)| ≤ pow2 53 := by
      rw [pow2_53]; exact_mod_cast hn
    exact lt_of_le_of_lt h1 (pow2_strictMono (by norm_num)))
  rwa [pow2_zero, mul_one] at h

/-- core-friendly form of `roundF64_int` (no `|·|`) -/
theorem roundF64_int' (n : Int) (h1 : -2^53 ≤ n) (h2 : n ≤ 2^53) :
    roundF64 (n : Rat) = .fin (n : Rat) :=
  roundF64_int n (abs_le.mpr ⟨h1, h2⟩)

theorem roundF64_nat (n : Nat) (hn : n ≤ 2^53) : roundF64 (n : Rat) = .fin (n : Rat) := by
  have := roundF64_int' (n : Int) (by omega) (by exact_mod_cast hn)
  simpa using this

theorem isRep_dyadic (m : Int) (e : Int) (hm : |m| ≤ 2^53) (he : -1074 ≤ e)
    (hlt : |(m : Rat)| * pow2 e < pow2 1024) : isRep ((m : Rat) * pow2 e) = true := by
  unfold isRep; rw [roundF64_dyadic m e hm he hlt]; exact beq_self_eq_true _

theorem isRep_int (n : Int) (hn : |n| ≤ 2^53) : isRep (n : Rat) = true := by
  unfold isRep; rw [roundF64_int n hn]; exact beq_self_eq_true _

/-! ## R3: idempotence -/

/-- every rounded value is `m * 2^k` with `|m| ≤ 2^53`, `k ≥ -1074` -/
theorem rv_is_dyadic (x : Rat) :
    ∃ m k : Int, |m| ≤ 2^53 ∧ -1074 ≤ k ∧ rv x = (m : Rat) * pow2 k := by
  rcases lt_trichotomy x 0 with h | h | h
  · have hx : 0 < -x := by linarith
    refine ⟨-roundHalfEven (-x / pow2 (quantumExp (-x))), quantumExp (-x), ?_, quantumExp_ge _, ?_⟩
    · rw [abs_neg, abs_of_nonneg (sig_nonneg hx.le)]; exact sig_le hx
    · rw [rv_of_neg h, rpv]; push_cast; ring
  · subst h; exact ⟨0, 0, by norm_num, by norm_num, by simp [rv_zero]⟩
  · refine ⟨roundHalfEven (x / pow2 (quantumExp x)), quantumExp x, ?_, quantumExp_ge _, ?_⟩
    · rw [abs_of_nonneg (sig_nonneg h.le)]; exact sig_le h
    · rw [rv_of_pos h, rpv]

theorem rv_idem (x : Rat) : rv (rv x) = rv x := by
  obtain ⟨m, k, hm, hk, h⟩ := rv_is_dyadic x
  rw [h]; exact rv_dyadic m k hm hk

theorem roundF64_idem (x r : Rat) (h : roundF64 x = .fin r) : roundF64 r = .fin r := by
  obtain ⟨h1, h2, h3⟩ := roundF64_fin_iff.mp h
  subst h1
  rw [roundF64_fin_iff, rv_idem]
  exact ⟨rfl, h2, h3⟩

theorem isRep_of_roundF64 {x r : Rat} (h : roundF64 x = .fin r) : isRep r = true := by
  unfold isRep; rw [roundF64_idem x r h]; exact beq_self_eq_true _

/-! ## R4: sign symmetry, zero -/

theorem roundF64_neg (x : Rat) : roundF64 (-x) = F64.neg (roundF64 x) := by
  have hp := pow2_pos 1024
  rw [roundF64_eq, roundF64_eq, rv_neg]
  by_cases h1 : pow2 1024 ≤ rv x
  · rw [if_pos h1, if_neg (by linarith), if_pos (by linarith)]; rfl
  · rw [if_neg h1]
    by_cases h2 : rv x ≤ -pow2 1024
    · rw [if_pos h2, if_pos (by linarith)]; rfl
    · rw [if_neg h2, if_neg (by linarith), if_neg (by linarith)]; rfl

theorem roundF64_zero : roundF64 0 = .fin 0 := by
  unfold roundF64; simp

theorem roundF64_nonneg {x r : Rat} (hx : 0 ≤ x) (h : roundF64 x = .fin r) : 0 ≤ r := by
  rw [(roundF64_fin_iff.mp h).1]; exact rv_nonneg hx

theorem roundF64_nonpos {x r : Rat} (hx : x ≤ 0) (h : roundF64 x = .fin r) : r ≤ 0 := by
  rw [(roundF64_fin_iff.mp h).1]; exact rv_nonpos hx

/-! ## R5: error bounds -/

/-- absolute error: half a quantum -/
theorem rpv_abs_err {x : Rat} (hx : 0 < x) : |rpv x - x| ≤ pow2 (quantumExp x) / 2 := by
  have hq := pow2_pos (quantumExp x)
  have h := roundHalfEven_spec (x / pow2 (quantumExp x)) (div_nonneg hx.le hq.le)
  have : rpv x - x
      = ((roundHalfEven (x / pow2 (quantumExp x)) : Rat) - x / pow2 (quantumExp x))
          * pow2 (quantumExp x) := by
    unfold rpv; field_simp
  rw [this, abs_mul, abs_of_pos hq]
  calc _ ≤ 1/2 * pow2 (quantumExp x) := mul_le_mul_of_nonneg_right h hq.le
    _ = _ := by ring

theorem rpv_rel_err {x : Rat} (hx : pow2 (-1022) ≤ x) : |rpv x - x| ≤ x * pow2 (-53) := by
  have hpos : 0 < x := lt_of_lt_of_le (pow2_pos _) hx
  obtain ⟨h1, h2⟩ := floorLog2_spec x hpos
  have hn : -1022 ≤ floorLog2 x := by
    have := pow2_lt_iff.mp (lt_of_le_of_lt hx h2); omega
  refine le_trans (rpv_abs_err hpos) ?_
  rw [quantumExp_of_normal hn]
  have : floorLog2 x - 52 = floorLog2 x + -53 + 1 := by ring
  rw [this, pow2_succ, pow2_add]
  have := mul_le_mul_of_nonneg_right h1 (pow2_pos (-53)).le
  linarith

theorem rv_rel_err {x : Rat} (hx : pow2 (-1022) ≤ |x|) : |rv x - x| ≤ |x| * pow2 (-53) := by
  rcases le_or_gt 0 x with h | h
  · rw [abs_of_nonneg h] at hx ⊢
    have hpos : 0 < x := lt_of_lt_of_le (pow2_pos _) hx
    rw [rv_of_pos hpos]; exact rpv_rel_err hx
  · rw [abs_of_neg h] at hx ⊢
    rw [rv_of_neg h]
    have := rpv_rel_err hx
    rwa [show -rpv (-x) - x = -(rpv (-x) - -x) by ring, abs_neg]

theorem roundF64_rel_err (x r : Rat) (hx : pow2 (-1022) ≤ |x|) (h : roundF64 x = .fin r) :
    |r - x| ≤ |x| * pow2 (-53) := by
  rw [(roundF64_fin_iff.mp h).1]; exact rv_rel_err hx

/-- finiteness from a representable bound -/
theorem roundF64_fin_of_abs_le {x B : Rat} (hB : rv B = B) (hB2 : B < pow2 1024) (hx : |x| ≤ B) :
    roundF64 x = .fin (rv x) ∧ |rv x| ≤ B := by
  have h := abs_le.mp hx
  have h1 : rv x ≤ B := hB ▸ rv_mono h.2
  have h2 : -B ≤ rv x := by
    have := rv_mono h.1; rwa [rv_neg, hB] at this
  exact ⟨roundF64_of_bounds (by linarith) (by linarith), abs_le.mpr ⟨h2, h1⟩⟩

/-! ## exact operations -/

theorem roundF64_of_isRep {x : Rat} (h : isRep x = true) : roundF64 x = .fin x := by
  unfold isRep at h; exact eq_of_beq h

theorem add_exact (a b : Rat) (h : isRep (a + b) = true) :
    F64.add (.fin a) (.fin b) = .fin (a + b) := roundF64_of_isRep h

theorem sub_exact (a b : Rat) (h : isRep (a - b) = true) :
    F64.sub (.fin a) (.fin b) = .fin (a - b) := by
  show roundF64 (a + -b) = _
  rw [← sub_eq_add_neg]; exact roundF64_of_isRep h

theorem mul_exact (a b : Rat) (h : isRep (a * b) = true) :
    F64.mul (.fin a) (.fin b) = .fin (a * b) := roundF64_of_isRep h

theorem add_int (a b : Int) (h : |a + b| ≤ 2^53) :
    F64.add (.fin a) (.fin b) = .fin ((a + b : Int) : Rat) := by
  show roundF64 ((a : Rat) + (b : Rat)) = _
  rw [← Int.cast_add]; exact roundF64_int _ h

theorem sub_int (a b : Int) (h : |a - b| ≤ 2^53) :
    F64.sub (.fin a) (.fin b) = .fin ((a - b : Int) : Rat) := by
  show roundF64 ((a : Rat) + -(b : Rat)) = _
  rw [← sub_eq_add_neg, ← Int.cast_sub]; exact roundF64_int _ h

theorem mul_int (a b : Int) (h : |a * b| ≤ 2^53) :
    F64.mul (.fin a) (.fin b) = .fin ((a * b : Int) : Rat) := by
  show roundF64 ((a : Rat) * (b : Rat)) = _
  rw [← Int.cast_mul]; exact roundF64_int _ h


/-! ## bounds used by the consequences below -/

theorem rv_int (n : Int) (hn : |n| ≤ 2^53) : rv (n : Rat) = (n : Rat) := by
  have := rv_dyadic n 0 hn (by norm_num)
  rwa [pow2_zero, mul_one] at this

theorem rv_pow2 (k : Int) (hk : -1074 ≤ k) : rv (pow2 k) = pow2 k := by
  have := rv_dyadic 1 k (by norm_num) hk
  simpa using this

/-- rounding a value of `[2^j, 2^k]` inside the normal range: finite, stays in `[2^j, 2^k]`,
    relative error `2^-53` -/
theorem roundF64_pos_bounds {x : Rat} {j k : Int} (hj : -1022 ≤ j) (hk : k ≤ 1023)
    (h1 : pow2 j ≤ x) (h2 : x ≤ pow2 k) :
    ∃ r, roundF64 x = .fin r ∧ pow2 j ≤ r ∧ r ≤ pow2 k ∧
      x * (1 - pow2 (-53)) ≤ r ∧ r ≤ x * (1 + pow2 (-53)) := by
  have hjk : j ≤ k := pow2_le_iff.mp (le_trans h1 h2)
  have hpos : 0 < x := lt_of_lt_of_le (pow2_pos j) h1
  have hlo : pow2 j ≤ rv x := by
    have := rv_mono h1; rwa [rv_pow2 j (by omega)] at this
  have hhi : rv x ≤ pow2 k := by
    have := rv_mono h2; rwa [rv_pow2 k (by omega)] at this
  have hk' : pow2 k < pow2 1024 := pow2_strictMono (by omega)
  have hj' := pow2_pos j
  have hnorm : pow2 (-1022) ≤ |x| := by
    rw [abs_of_pos hpos]; exact le_trans (pow2_mono hj) h1
  have herr := rv_rel_err hnorm
  rw [abs_of_pos hpos] at herr
  have := abs_le.mp herr
  refine ⟨rv x, roundF64_of_bounds (by linarith) (by linarith), hlo, hhi, ?_, ?_⟩ <;> linarith

/-! ## the rank lemma -/

theorem rat_ceil_eq (x : Rat) : x.ceil = ⌈x⌉ := by
  rw [Rat.ceil_eq_neg_floor_neg]; rfl

/-- Rounding a product `q * n` (`0 ≤ q ≤ 1`, `0 ≤ n ≤ 2^53`) lies between the neighbouring
    integers.  `⌊·⌋ / ⌈·⌉` are Mathlib's `Int.floor / Int.ceil` on `ℚ`, which are definitionally
    (`⌊x⌋ = x.floor` by `rfl`) resp. provably (`rat_ceil_eq`) core's `Rat.floor / Rat.ceil`. -/
theorem mul_between_floor_ceil (q : Rat) (n : Int) (hq0 : 0 ≤ q) (hq1 : q ≤ 1) (hn0 : 0 ≤ n)
    (hn : n ≤ 2^53) :
    ∃ r : Rat, F64.mul (.fin q) (.fin n) = .fin r ∧
      ((⌊q * n⌋ : Int) : Rat) ≤ r ∧ r ≤ ((⌈q * n⌉ : Int) : Rat) := by
  have hnr : (0:Rat) ≤ (n : Rat) := by exact_mod_cast hn0
  have hnr' : (n : Rat) ≤ ((2^53 : Int) : Rat) := by exact_mod_cast hn
  have hx0 : 0 ≤ q * n := mul_nonneg hq0 hnr
  have hx1 : q * n ≤ ((2^53 : Int) : Rat) := by
    calc q * n ≤ 1 * n := mul_le_mul_of_nonneg_right hq1 hnr
      _ = n := one_mul _
      _ ≤ _ := hnr'
  have hB : rv (((2^53 : Int)) : Rat) = (((2^53 : Int)) : Rat) := rv_int _ (by norm_num)
  have hB2 : (((2^53 : Int)) : Rat) < pow2 1024 := by
    rw [← pow2_53]; exact pow2_strictMono (by norm_num)
  obtain ⟨hfin, _⟩ := roundF64_fin_of_abs_le hB hB2 (x := q * n) (by rw [abs_of_nonneg hx0]; exact hx1)
  refine ⟨rv (q * n), hfin, ?_, ?_⟩
  · have hf0 : 0 ≤ ⌊q * n⌋ := Int.floor_nonneg.mpr hx0
    have hf1 : ⌊q * n⌋ ≤ 2^53 := by
      have : ((⌊q * n⌋ : Int) : Rat) ≤ ((2^53 : Int) : Rat) := le_trans (Int.floor_le _) hx1
      exact_mod_cast this
    have := rv_mono (Int.floor_le (q * n))
    rwa [rv_int _ (abs_le.mpr ⟨by omega, hf1⟩)] at this
  · have hc0 : 0 ≤ ⌈q * n⌉ := Int.ceil_nonneg hx0
    have hc1 : ⌈q * n⌉ ≤ 2^53 := Int.ceil_le.mpr hx1
    have := rv_mono (Int.le_ceil (q * n))
    rwa [rv_int _ (abs_le.mpr ⟨by omega, hc1⟩)] at this

/-- the same with core's `Rat.floor` / `Rat.ceil` -/
theorem mul_between_floor_ceil' (q : Rat) (n : Int) (hq0 : 0 ≤ q) (hq1 : q ≤ 1) (hn0 : 0 ≤ n)
    (hn : n ≤ 2^53) :
    ∃ r : Rat, F64.mul (.fin q) (.fin n) = .fin r ∧
      (((q * n).floor : Int) : Rat) ≤ r ∧ r ≤ (((q * n).ceil : Int) : Rat) := by
  rw [rat_ceil_eq]; exact mul_between_floor_ceil q n hq0 hq1 hn0 hn

end F64

/-! ## bit patterns -/

namespace F64

/-- `ofBits` on the natural number of the pattern -/
def decodeNat (n : Nat) : F64 :=
  let sign : Nat := n / 2 ^ 63
  let ex : Nat := (n / 2 ^ 52) % 2048
  let frac : Nat := n % 2 ^ 52
  if ex = 2047 then
    if frac = 0 then (if sign = 0 then .pinf else .ninf) else .nan
  else
    let mag : Rat :=
      if ex = 0 then ((frac : Nat) : Rat) * pow2 (-1074)
      else (((2 ^ 52 + frac : Nat)) : Rat) * pow2 (((ex : Nat) : Int) - 1075)
    .fin (if sign = 0 then mag else -mag)

theorem ofBits_eq (b : UInt64) : ofBits b = decodeNat b.toNat := rfl

/-- decoding a pattern given by its three fields (finite case) -/
theorem decodeNat_fields (s ex frac : Nat) (hs : s < 2) (hex : ex < 2047) (hfrac : frac < 2^52) :
    decodeNat (s * 2^63 + ex * 2^52 + frac) =
      .fin (if s = 0 then
              (if ex = 0 then (frac : Rat) * pow2 (-1074)
               else ((2^52 + frac : Nat) : Rat) * pow2 ((ex : Int) - 1075))
            else
              -(if ex = 0 then (frac : Rat) * pow2 (-1074)
               else ((2^52 + frac : Nat) : Rat) * pow2 ((ex : Int) - 1075))) := by
  have h1 : (s * 2^63 + ex * 2^52 + frac) / 2^63 = s := by omega
  have h2 : (s * 2^63 + ex * 2^52 + frac) / 2^52 % 2048 = ex := by omega
  have h3 : (s * 2^63 + ex * 2^52 + frac) % 2^52 = frac := by omega
  unfold decodeNat
  simp only [h1, h2, h3]
  rw [if_neg (by omega)]

theorem floor_natCast (n : Nat) : ((n : Rat)).floor = (n : Int) := by
  have := Rat.floor_intCast (n : Int)
  simpa using this

/-- bits of a positive subnormal -/
theorem bitsOfPos_sub (frac : Nat) (h1 : 1 ≤ frac) (h2 : frac < 2^52) :
    bitsOfPos ((frac : Rat) * pow2 (-1074)) = frac := by
  have hfpos : (0:Rat) < (frac : Rat) := by exact_mod_cast h1
  have hx : (0:Rat) < (frac : Rat) * pow2 (-1074) := mul_pos hfpos (pow2_pos _)
  have hlt : (frac : Rat) * pow2 (-1074) < pow2 (-1022) := by
    rw [show (-1022:Int) = 52 + -1074 by norm_num, pow2_add, pow2_52]
    apply mul_lt_mul_of_pos_right _ (pow2_pos _)
    exact_mod_cast h2
  have hfl : floorLog2 ((frac : Rat) * pow2 (-1074)) < -1022 :=
    pow2_lt_iff.mp (lt_of_le_of_lt (floorLog2_spec _ hx).1 hlt)
  unfold bitsOfPos
  simp only
  rw [quantumExp_of_subnormal hfl, mul_div_assoc, div_self (pow2_ne_zero _), mul_one,
    floor_natCast, Int.toNat_natCast, if_pos h2]

/-- bits of a positive normal number -/
theorem bitsOfPos_normal (ex frac : Nat) (h1 : 1 ≤ ex) (h2 : frac < 2^52) :
    bitsOfPos (((2^52 + frac : Nat) : Rat) * pow2 ((ex : Int) - 1075)) = ex * 2^52 + frac := by
  obtain ⟨k, hk⟩ : ∃ k : Int, k = (ex : Int) - 1075 := ⟨_, rfl⟩
  obtain ⟨M, hM⟩ : ∃ M : Nat, M = 2^52 + frac := ⟨_, rfl⟩
  rw [← hk, ← hM]
  have hM1 : ((2^52 : Int) : Rat) ≤ (M : Rat) := by
    have : (2^52 : Int) ≤ (M : Int) := by omega
    exact_mod_cast this
  have hM2 : (M : Rat) < ((2^53 : Int) : Rat) := by
    have : (M : Int) < (2^53 : Int) := by omega
    exact_mod_cast this
  have hlo : pow2 (52 + k) ≤ (M : Rat) * pow2 k := by
    rw [pow2_add, pow2_52]; exact mul_le_mul_of_nonneg_right hM1 (pow2_pos _).le
  have hhi : (M : Rat) * pow2 k < pow2 (52 + k + 1) := by
    rw [show 52 + k + 1 = 53 + k by ring, pow2_add, pow2_53]
    exact mul_lt_mul_of_pos_right hM2 (pow2_pos _)
  have hfl : floorLog2 ((M : Rat) * pow2 k) = 52 + k := floorLog2_unique hlo hhi
  have hq : quantumExp ((M : Rat) * pow2 k) = k := by
    rw [quantumExp_of_normal (by rw [hfl]; omega), hfl]; ring
  unfold bitsOfPos
  simp only
  rw [hq, mul_div_assoc, div_self (pow2_ne_zero _), mul_one, floor_natCast, Int.toNat_natCast,
    if_neg (by omega)]
  have : (k + 52 + 1023).toNat = ex := by omega
  rw [this]; omega

/-- classification of positive representable numbers -/
theorem rep_pos_cases {x : Rat} (hx : 0 < x) (hr : rpv x = x) (hlt : x < pow2 1024) :
    (∃ frac : Nat, 1 ≤ frac ∧ frac < 2^52 ∧ x = (frac : Rat) * pow2 (-1074)) ∨
    (∃ ex frac : Nat, 1 ≤ ex ∧ ex ≤ 2046 ∧ frac < 2^52 ∧
        x = ((2^52 + frac : Nat) : Rat) * pow2 ((ex : Int) - 1075)) := by
  obtain ⟨N, hN⟩ : ∃ N : Int, N = roundHalfEven (x / pow2 (quantumExp x)) := ⟨_, rfl⟩
  have hxN : x = (N : Rat) * pow2 (quantumExp x) := by rw [hN]; exact hr.symm
  have hN0 : 0 < N := by
    by_contra hc
    have : (N : Rat) ≤ 0 := by exact_mod_cast not_lt.mp hc
    have := mul_nonpos_of_nonpos_of_nonneg this (pow2_pos (quantumExp x)).le
    linarith
  have hdiv : x / pow2 (quantumExp x) = (N : Rat) := by
    rw [div_eq_iff (pow2_ne_zero _)]; exact hxN
  have hN53 : N < 2^53 := by
    have := scaled_lt hx
    rw [hdiv, pow2_53] at this
    exact_mod_cast this
  by_cases hn : -1022 ≤ floorLog2 x
  · right
    have hN52 : 2^52 ≤ N := by
      have := scaled_ge hx hn
      rw [hdiv, pow2_52] at this
      exact_mod_cast this
    have hfl : floorLog2 x < 1024 := pow2_lt_iff.mp (lt_of_le_of_lt (floorLog2_spec x hx).1 hlt)
    refine ⟨(floorLog2 x + 1023).toNat, (N - 2^52).toNat, by omega, by omega, by omega, ?_⟩
    have h1 : ((2^52 + (N - 2^52).toNat : Nat) : Rat) = (N : Rat) := by
      have : ((2^52 + (N - 2^52).toNat : Nat) : Int) = N := by omega
      exact_mod_cast congrArg (Int.cast (R := Rat)) this
    have h2 : (((floorLog2 x + 1023).toNat : Nat) : Int) - 1075 = quantumExp x := by
      rw [quantumExp_of_normal hn]; omega
    rw [h1, h2]; exact hxN
  · left
    have hn' := not_le.mp hn
    have hN52 : N < 2^52 := by
      have := scaled_lt_sub hx hn'
      rw [hdiv, pow2_52] at this
      exact_mod_cast this
    refine ⟨N.toNat, by omega, by omega, ?_⟩
    have h1 : ((N.toNat : Nat) : Rat) = (N : Rat) := by
      have : ((N.toNat : Nat) : Int) = N := by omega
      exact_mod_cast congrArg (Int.cast (R := Rat)) this
    rw [h1, ← quantumExp_of_subnormal hn']; exact hxN

theorem rpv_of_isRep_pos {q : Rat} (hq : 0 < q) (h : isRep q = true) :
    rpv q = q ∧ q < pow2 1024 := by
  obtain ⟨h1, _, h3⟩ := roundF64_fin_iff.mp (roundF64_of_isRep h)
  rw [rv_of_pos hq] at h1 h3
  exact ⟨h1.symm, by rwa [← h1] at h3⟩

/-- positive representable numbers decode from their own bits -/
theorem decode_bitsOfPos {q : Rat} (hq : 0 < q) (h : isRep q = true) (s : Nat) (hs : s < 2) :
    bitsOfPos q < 2^63 ∧
    decodeNat (s * 2^63 + bitsOfPos q) = .fin (if s = 0 then q else -q) := by
  obtain ⟨hr, hlt⟩ := rpv_of_isRep_pos hq h
  rcases rep_pos_cases hq hr hlt with ⟨frac, h1, h2, rfl⟩ | ⟨ex, frac, h1, h2, h3, rfl⟩
  · rw [bitsOfPos_sub frac h1 h2]
    refine ⟨by omega, ?_⟩
    have := decodeNat_fields s 0 frac hs (by norm_num) h2
    simp only [Nat.zero_mul, Nat.add_zero, if_true] at this
    exact this
  · rw [bitsOfPos_normal ex frac h1 h3]
    refine ⟨by omega, ?_⟩
    have := decodeNat_fields s ex frac hs (by omega) h3
    rw [if_neg (by omega : ¬ ex = 0), Nat.add_assoc] at this
    exact this

theorem isRep_neg {q : Rat} (h : isRep q = true) : isRep (-q) = true := by
  unfold isRep
  rw [roundF64_neg, roundF64_of_isRep h]
  exact beq_self_eq_true _

theorem toBits_ofBits_rep (q : Rat) (h : isRep q = true) : ofBits (toBits (.fin q)) = .fin q := by
  rcases lt_trichotomy q 0 with hq | hq | hq
  · have hq' : 0 < -q := by linarith
    obtain ⟨hb, hd⟩ := decode_bitsOfPos hq' (isRep_neg h) 1 (by norm_num)
    rw [ofBits_eq]
    unfold toBits
    simp only
    rw [if_neg hq.ne, if_neg (not_lt.mpr hq.le)]
    have : (UInt64.ofNat (2^63 + bitsOfPos (-q))).toNat = 1 * 2^63 + bitsOfPos (-q) := by
      simp; omega
    rw [this, hd]; simp
  · subst hq
    rw [ofBits_eq]
    unfold toBits
    simp only [if_true]
    have := decodeNat_fields 0 0 0 (by norm_num) (by norm_num) (by norm_num)
    simpa using this
  · obtain ⟨hb, hd⟩ := decode_bitsOfPos hq h 0 (by norm_num)
    rw [ofBits_eq]
    unfold toBits
    simp only
    rw [if_neg hq.ne', if_pos hq]
    have : (UInt64.ofNat (bitsOfPos q)).toNat = 0 * 2^63 + bitsOfPos q := by
      simp; omega
    rw [this, hd]; simp

/-- Every bit pattern that is neither a NaN nor `-0` survives decode/encode.
    Patterns are `UInt64`, as in the model; "not NaN" is `ofBits b ≠ .nan`
    (exponent field all ones with a non-zero fraction), "not −0" is `b ≠ 0x8000000000000000`. -/
theorem ofBits_toBits_fin (b : UInt64) (hnan : ofBits b ≠ .nan) (hnz : b ≠ 0x8000000000000000) :
    toBits (ofBits b) = b := by
  obtain ⟨n, hn⟩ : ∃ n, n = b.toNat := ⟨_, rfl⟩
  have hlt : n < 2^64 := hn ▸ b.toNat_lt
  have hb : b = UInt64.ofNat n := by rw [hn, UInt64.ofNat_toNat]
  have hnz' : n ≠ 2^63 := by
    intro hc; apply hnz; rw [hb, hc]; rfl
  obtain ⟨s, hs⟩ : ∃ s, s = n / 2^63 := ⟨_, rfl⟩
  obtain ⟨ex, hex⟩ : ∃ ex, ex = n / 2^52 % 2048 := ⟨_, rfl⟩
  obtain ⟨frac, hfrac⟩ : ∃ frac, frac = n % 2^52 := ⟨_, rfl⟩
  have hdec : n = s * 2^63 + ex * 2^52 + frac := by omega
  have hs2 : s < 2 := by omega
  have hex2 : ex < 2048 := by omega
  have hfrac2 : frac < 2^52 := by omega
  rw [ofBits_eq, ← hn] at hnan ⊢
  by_cases hinf : ex = 2047
  · -- infinities
    have hd : decodeNat n = if frac = 0 then (if s = 0 then .pinf else .ninf) else .nan := by
      unfold decodeNat; simp only [← hs, ← hex, ← hfrac, hinf, if_true]
    rw [hd] at hnan ⊢
    by_cases hf : frac = 0
    · rw [if_pos hf]
      by_cases hs0 : s = 0
      · rw [if_pos hs0, hb, hdec, hs0, hinf, hf]; rfl
      · have : s = 1 := by omega
        rw [if_neg hs0, hb, hdec, this, hinf, hf]; rfl
    · rw [if_neg hf] at hnan; exact absurd rfl hnan
  · have hex3 : ex < 2047 := by omega
    have hd := decodeNat_fields s ex frac hs2 hex3 hfrac2
    rw [← hdec] at hd
    rw [hd, hb]
    by_cases hz : ex = 0 ∧ frac = 0
    · obtain ⟨hz1, hz2⟩ := hz
      have hs0 : s = 0 := by
        by_contra hc; apply hnz'; rw [hdec, hz1, hz2]; omega
      have : n = 0 := by omega
      rw [this, hs0, hz1, hz2]
      simp [toBits]
    · -- non-zero magnitude
      obtain ⟨mag, hmag⟩ : ∃ mag : Rat, mag = (if ex = 0 then (frac : Rat) * pow2 (-1074)
               else ((2^52 + frac : Nat) : Rat) * pow2 ((ex : Int) - 1075)) := ⟨_, rfl⟩
      rw [← hmag]
      have hbits : 0 < mag ∧ bitsOfPos mag = ex * 2^52 + frac := by
        by_cases he0 : ex = 0
        · have hf1 : 1 ≤ frac := by omega
          rw [hmag, if_pos he0, bitsOfPos_sub frac hf1 hfrac2, he0]
          exact ⟨mul_pos (by exact_mod_cast hf1) (pow2_pos _), by omega⟩
        · rw [hmag, if_neg he0, bitsOfPos_normal ex frac (by omega) hfrac2]
          refine ⟨mul_pos ?_ (pow2_pos _), rfl⟩
          have : 0 < 2^52 + frac := by omega
          exact_mod_cast this
      obtain ⟨hmpos, hbm⟩ := hbits
      by_cases hs0 : s = 0
      · rw [if_pos hs0]
        unfold toBits
        simp only
        have hn' : ex * 2^52 + frac = n := by omega
        rw [if_neg hmpos.ne', if_pos hmpos, hbm, hn']
      · have hs1 : s = 1 := by omega
        rw [if_neg hs0]
        unfold toBits
        simp only
        have hn' : 2^63 + (ex * 2^52 + frac) = n := by omega
        rw [if_neg (by linarith : ¬ (-mag = 0)), if_neg (by linarith : ¬ (0 < -mag)), neg_neg, hbm,
          hn']

end F64

/-! ## varfloat exactness -/

theorem varfloatExact_nat (n : Nat) (hn : n < 2^53) : Codec.VarfloatExact (n : Rat) = true := by
  have h : F64.add (.fin (n : Rat)) F64.one = .fin ((n : Rat) + 1) := by
    show F64.roundF64 ((n : Rat) + 1) = _
    have := F64.roundF64_nat (n + 1) (by omega)
    rwa [Nat.cast_add, Nat.cast_one] at this
  unfold Codec.VarfloatExact
  rw [h]
  simp

/-! ## the dense store's growth function -/

theorem growthIncrement_eq :
    F64.ofBits (UInt64.ofNat Consts.arrayLengthGrowthIncrementBits)
      = .fin (3602879701896397 / 36028797018963968) := by
  simp [F64.ofBits, Consts.arrayLengthGrowthIncrementBits, pow2_eq_zpow]
  norm_num

theorem pow2_neg53 : pow2 (-53) = 1 / 2^53 := by
  simp [pow2_eq_zpow, zpow_neg]

theorem denseNewLength_ge (a b : Int) (hab : a ≤ b) (hspan : b - a < 2^33) :
    ∃ L, DStore.denseNewLength a b = some L ∧ b - a + 1 ≤ L := by
  unfold DStore.denseNewLength
  simp only [growthIncrement_eq, Consts.arrayLengthOverhead]
  -- the float conversion of `desired + overhead - 1` is exact
  obtain ⟨X, hX⟩ : ∃ X : Int, X = b - a + 1 + ((64 : Nat) : Int) - 1 := ⟨_, rfl⟩
  rw [← hX]
  have hX1 : 64 ≤ X := by omega
  have hX2 : X ≤ 2^33 + 63 := by omega
  have hXr1 : (64:Rat) ≤ (X : Rat) := by exact_mod_cast hX1
  have hXr2 : (X : Rat) ≤ 2^33 + 63 := by exact_mod_cast hX2
  have hofInt : F64.ofInt X = .fin (X : Rat) :=
    F64.roundF64_int X (abs_le.mpr ⟨by omega, by omega⟩)
  rw [hofInt]
  -- abbreviations
  obtain ⟨c, hc⟩ : ∃ c : Rat, c = 3602879701896397 / 36028797018963968 := ⟨_, rfl⟩
  rw [← hc]
  have hc0 : c ≠ 0 := by rw [hc]; norm_num
  have hcpos : 0 < c := by rw [hc]; norm_num
  have hc1 : (1:Rat)/16 ≤ c := by rw [hc]; norm_num
  have hc2 : c ≤ 1 := by rw [hc]; norm_num
  have hc3 : 1 / c ≤ 10 := by rw [hc]; norm_num
  have hp0 : pow2 0 = 1 := pow2_zero
  have hp38 : pow2 38 = 2^38 := by
    rw [show (38:Int) = ((38:Nat):Int) from rfl, pow2_ofNat]
  have hp39 : pow2 39 = 2^39 := by
    rw [show (39:Int) = ((39:Nat):Int) from rfl, pow2_ofNat]
  have hpm4 : pow2 (-4) = 1/16 := by
    simp [pow2_eq_zpow, zpow_neg]; norm_num
  obtain ⟨u, hu⟩ : ∃ u : Rat, u = pow2 (-53) := ⟨_, rfl⟩
  have hu' : u = 1 / 2^53 := by rw [hu, pow2_neg53]
  have hu0 : 0 < u := by rw [hu]; exact pow2_pos _
  have hu1 : u ≤ 1 := by rw [hu']; norm_num
  -- step 1: division
  have hA1 : pow2 0 ≤ (X : Rat) / c := by
    rw [hp0, le_div_iff₀ hcpos]; linarith
  have hA2 : (X : Rat) / c ≤ pow2 38 := by
    rw [hp38, div_eq_mul_one_div]
    calc (X : Rat) * (1 / c) ≤ (2^33 + 63) * 10 :=
          mul_le_mul hXr2 hc3 (by positivity) (by positivity)
      _ ≤ 2^38 := by norm_num
  obtain ⟨r1, hr1, hr1lo, hr1hi, hr1e, _⟩ :=
    F64.roundF64_pos_bounds (by norm_num) (by norm_num) hA1 hA2
  have hdiv : F64.div (.fin (X : Rat)) (.fin c) = .fin r1 := by
    show (if c = 0 then F64.nan else F64.roundF64 ((X : Rat) / c)) = _
    rw [if_neg hc0, hr1]
  rw [hdiv]
  -- step 2: addition of one
  have hB1 : pow2 0 ≤ r1 + 1 := by rw [hp0] at hr1lo ⊢; linarith
  have hB2 : r1 + 1 ≤ pow2 39 := by rw [hp38] at hr1hi; rw [hp39]; linarith
  obtain ⟨r2, hr2, hr2lo, hr2hi, hr2e, _⟩ :=
    F64.roundF64_pos_bounds (by norm_num) (by norm_num) hB1 hB2
  have hadd : F64.add (.fin r1) F64.one = .fin r2 := hr2
  rw [hadd]
  -- step 3: multiplication
  have hr2pos : 0 < r2 := lt_of_lt_of_le (pow2_pos 0) hr2lo
  have hC1 : pow2 (-4) ≤ r2 * c := by
    rw [hpm4]; rw [hp0] at hr2lo
    calc (1:Rat)/16 = 1 * (1/16) := by ring
      _ ≤ r2 * c := mul_le_mul hr2lo hc1 (by norm_num) hr2pos.le
  have hC2 : r2 * c ≤ pow2 39 := by
    calc r2 * c ≤ pow2 39 * 1 := mul_le_mul hr2hi hc2 hcpos.le (pow2_pos _).le
      _ = pow2 39 := mul_one _
  obtain ⟨r3, hr3, hr3lo, _, hr3e, _⟩ :=
    F64.roundF64_pos_bounds (by norm_num) (by norm_num) hC1 hC2
  have hmul : F64.mul (.fin r2) (.fin c) = .fin r3 := hr3
  rw [hmul]
  have hr3pos : 0 ≤ r3 := le_trans (pow2_pos _).le hr3lo
  refine ⟨r3.floor, by simp [F64.truncToInt, hr3pos], ?_⟩
  rw [Rat.le_floor_iff]
  -- error analysis
  rw [← hu] at hr1e hr2e hr3e
  have hXpos : (0:Rat) < X := by linarith
  have h1u : 0 ≤ 1 - u := by linarith
  have hr1pos : 0 ≤ r1 := by rw [hp0] at hr1lo; linarith
  have e2 : (X : Rat) / c * (1 - u) * (1 - u) ≤ r2 := by
    have : r1 * (1 - u) ≤ (r1 + 1) * (1 - u) := by nlinarith
    have := mul_le_mul_of_nonneg_right hr1e h1u
    linarith
  have e3 : (X : Rat) / c * (1 - u) * (1 - u) * c * (1 - u) ≤ r3 := by
    have := mul_le_mul_of_nonneg_right (mul_le_mul_of_nonneg_right e2 hcpos.le) h1u
    linarith
  have e3' : (X : Rat) * ((1 - u) * (1 - u) * (1 - u)) ≤ r3 := by
    have : (X : Rat) / c * (1 - u) * (1 - u) * c * (1 - u)
        = (X : Rat) * ((1 - u) * (1 - u) * (1 - u)) := by field_simp
    rwa [this] at e3
  have hbern : 1 - 3 * u ≤ (1 - u) * (1 - u) * (1 - u) := by nlinarith [mul_pos hu0 hu0]
  have e4 : (X : Rat) * (1 - 3 * u) ≤ r3 :=
    le_trans (mul_le_mul_of_nonneg_left hbern hXpos.le) e3'
  have hsmall : (X : Rat) * (3 * u) ≤ 1 := by
    rw [hu']
    calc (X : Rat) * (3 * (1 / 2^53)) ≤ (2^33 + 63) * (3 * (1 / 2^53)) :=
          mul_le_mul_of_nonneg_right hXr2 (by positivity)
      _ ≤ 1 := by norm_num
  have : ((b - a + 1 : Int) : Rat) = (X : Rat) - 63 := by rw [hX]; push_cast; ring
  rw [this]
  nlinarith

end DDS
