/-
  DDS.Proofs.GenMapping — the index mappings REGENERATED from the Go source
  (`DDS.Generated.CodeMapping`, namespace `DDS.Gen.Mapping`) equal the hand-written model
  (`DDS.Model.Mapping`) when both are read over the real numbers (`DDS.Proofs.RealInst`).

  The generated code folds Go constant expressions exactly (`MOps.ofRat (7/10)` where the model
  writes `ofInt 7 / ofInt 10`, `MOps.ofRat (-459/1225)` for `B*B - 3*A*C`, …): the two are not
  syntactically equal for a lawless `F`, they are equal over `ℝ`.

  For each kind `K ∈ {log, linear, cubic}`:
    * `toGenK p`        — the generated struct corresponding to the model parameters `p`;
    * `newK_withGamma`  — `NewK…MappingWithGamma γ o = (toGenK ⟨K, γ, o⟩, nil)` for `1 < γ`,
      `newK_withGamma_err` — error `≠ nil` for `γ ≤ 1`;
    * `newK_ofAlpha`    — `NewK…Mapping α = (toGenK (ofAlpha K α), nil)` for `0 < α < 1`,
      `newK_ofAlpha_err`  — error `≠ nil` for `α ≤ 0 ∨ 1 ≤ α`;
    * `K_index`, `K_lowerBound`, `K_value`, `K_relativeAccuracy`, `K_approxLog`, `K_approxInvLog`,
      `K_minIndexable`, `K_maxIndexable` — the generated methods on `toGenK p` are the model's
      functions on `p` (for every `p` of kind `K`, every `v : ℝ`, every `i : ℤ`).
-/
import DDS.Generated.CodeMapping
import DDS.Proofs.RealInst
import DDS.Proofs.MappingReal

namespace DDS.GenMapping

open DDS DDS.GoSem DDS.Gen.Mapping DDS.RealMap

/-! ## the generated structs corresponding to model parameters -/

/-- the generated `LogarithmicMapping` holding what the Go constructor stores for `p` -/
noncomputable def toGenLog (p : Mapping.Params ℝ) : LogarithmicMapping ℝ :=
  { gamma := p.gamma, indexOffset := p.indexOffset, multiplier := Mapping.multiplier p,
    minIndexableValue := Mapping.minIndexable p, maxIndexableValue := Mapping.maxIndexable p }

/-- the generated `LinearlyInterpolatedMapping` holding what the Go constructor stores for `p` -/
noncomputable def toGenLinear (p : Mapping.Params ℝ) : LinearlyInterpolatedMapping ℝ :=
  { gamma := p.gamma, indexOffset := p.indexOffset, multiplier := Mapping.multiplier p,
    minIndexableValue := Mapping.minIndexable p, maxIndexableValue := Mapping.maxIndexable p }

/-- the generated `CubicallyInterpolatedMapping` holding what the Go constructor stores for `p` -/
noncomputable def toGenCubic (p : Mapping.Params ℝ) : CubicallyInterpolatedMapping ℝ :=
  { gamma := p.gamma, indexOffset := p.indexOffset, multiplier := Mapping.multiplier p,
    minIndexableValue := Mapping.minIndexable p, maxIndexableValue := Mapping.maxIndexable p }

section fields
variable (p : Mapping.Params ℝ)
@[simp] lemma toGenLog_gamma : (toGenLog p).gamma = p.gamma := rfl
@[simp] lemma toGenLog_indexOffset : (toGenLog p).indexOffset = p.indexOffset := rfl
@[simp] lemma toGenLog_multiplier : (toGenLog p).multiplier = Mapping.multiplier p := rfl
@[simp] lemma toGenLog_min : (toGenLog p).minIndexableValue = Mapping.minIndexable p := rfl
@[simp] lemma toGenLog_max : (toGenLog p).maxIndexableValue = Mapping.maxIndexable p := rfl
@[simp] lemma toGenLinear_gamma : (toGenLinear p).gamma = p.gamma := rfl
@[simp] lemma toGenLinear_indexOffset : (toGenLinear p).indexOffset = p.indexOffset := rfl
@[simp] lemma toGenLinear_multiplier : (toGenLinear p).multiplier = Mapping.multiplier p := rfl
@[simp] lemma toGenLinear_min : (toGenLinear p).minIndexableValue = Mapping.minIndexable p := rfl
@[simp] lemma toGenLinear_max : (toGenLinear p).maxIndexableValue = Mapping.maxIndexable p := rfl
@[simp] lemma toGenCubic_gamma : (toGenCubic p).gamma = p.gamma := rfl
@[simp] lemma toGenCubic_indexOffset : (toGenCubic p).indexOffset = p.indexOffset := rfl
@[simp] lemma toGenCubic_multiplier : (toGenCubic p).multiplier = Mapping.multiplier p := rfl
@[simp] lemma toGenCubic_min : (toGenCubic p).minIndexableValue = Mapping.minIndexable p := rfl
@[simp] lemma toGenCubic_max : (toGenCubic p).maxIndexableValue = Mapping.maxIndexable p := rfl
end fields

/-! ## auxiliary facts -/

/-- the model's `goFloor`, as the generated `Index` methods spell it -/
lemma goFloor_unfold (x : ℝ) :
    (if MOps.le (MOps.ofInt 0 : ℝ) x then MOps.trunc x else MOps.trunc x - (1 : Int))
      = Mapping.goFloor x := rfl

/-- the guard of the `…WithGamma` constructors over `ℝ` -/
lemma gammaGuard (γ : ℝ) : MOps.le γ (MOps.ofInt 1 : ℝ) = decide (γ ≤ 1) := by
  simp

/-- the guard of the constructors taking a relative accuracy over `ℝ` -/
lemma alphaGuard (α : ℝ) :
    (MOps.le α (MOps.ofInt 0 : ℝ) || MOps.le (MOps.ofInt 1 : ℝ) α) = decide (α ≤ 0 ∨ 1 ≤ α) := by
  simp

lemma alphaGuard_false {α : ℝ} (h0 : 0 < α) (h1 : α < 1) :
    (MOps.le α (MOps.ofInt 0 : ℝ) || MOps.le (MOps.ofInt 1 : ℝ) α) = false := by
  rw [alphaGuard]; simp [not_le.2 h0, not_le.2 h1]

lemma alphaGuard_true {α : ℝ} (h : α ≤ 0 ∨ 1 ≤ α) :
    (MOps.le α (MOps.ofInt 0 : ℝ) || MOps.le (MOps.ofInt 1 : ℝ) α) = true := by
  rw [alphaGuard]; simp [h]

/-! ## the logarithmic mapping -/

section log

theorem newLog_withGamma (γ o : ℝ) (hγ : 1 < γ) :
    NewLogarithmicMappingWithGamma γ o = (toGenLog ⟨.log, γ, o⟩, GoErr.nil) := by
  unfold NewLogarithmicMappingWithGamma
  rw [gammaGuard, decide_eq_false (not_le.2 hγ)]
  simp [toGenLog, Mapping.multiplier, Mapping.minIndexable, Mapping.maxIndexable,
    Mapping.expLike, Mapping.adjustedGamma]

theorem newLog_withGamma_err (γ o : ℝ) (hγ : γ ≤ 1) :
    (NewLogarithmicMappingWithGamma γ o).2 ≠ GoErr.nil := by
  unfold NewLogarithmicMappingWithGamma
  rw [gammaGuard, decide_eq_true hγ]
  simp

theorem newLog_ofAlpha (α : ℝ) (h0 : 0 < α) (h1 : α < 1) :
    NewLogarithmicMapping α = (toGenLog (Mapping.ofAlpha .log α), GoErr.nil) := by
  have hγ := gamma_ofAlpha_gt_one .log h0 h1
  have hw := newLog_withGamma _ (Mapping.defaultOffset .log (Mapping.gammaOfAlpha .log α)) hγ
  unfold NewLogarithmicMapping
  rw [alphaGuard_false h0 h1]
  simp only [Mapping.ofAlpha, Mapping.gammaOfAlpha, Mapping.defaultOffset, Mapping.one] at hw
  simp only [Bool.false_eq_true, if_false, hw]
  rfl

theorem newLog_ofAlpha_err (α : ℝ) (h : α ≤ 0 ∨ 1 ≤ α) :
    (NewLogarithmicMapping α).2 ≠ GoErr.nil := by
  unfold NewLogarithmicMapping
  rw [alphaGuard_true h]
  simp

variable (p : Mapping.Params ℝ) (hk : p.kind = .log)
include hk

theorem log_index (v : ℝ) : LogarithmicMapping.Index (toGenLog p) v = Mapping.index p v := by
  unfold LogarithmicMapping.Index Mapping.index
  simp only [toGenLog_multiplier, toGenLog_indexOffset, Mapping.approxLog, hk]
  rfl

theorem log_lowerBound (i : ℤ) :
    LogarithmicMapping.LowerBound (toGenLog p) i = Mapping.lowerBound p i := by
  unfold LogarithmicMapping.LowerBound Mapping.lowerBound
  simp only [toGenLog_multiplier, toGenLog_indexOffset, Mapping.approxInvLog, hk]

theorem log_relativeAccuracy :
    LogarithmicMapping.RelativeAccuracy (toGenLog p) = Mapping.relativeAccuracy p := by
  unfold LogarithmicMapping.RelativeAccuracy Mapping.relativeAccuracy
  simp [hk]

theorem log_value (i : ℤ) : LogarithmicMapping.Value (toGenLog p) i = Mapping.value p i := by
  unfold LogarithmicMapping.Value Mapping.value
  rw [log_lowerBound p hk, log_relativeAccuracy p hk]; simp

theorem log_approxLog (x : ℝ) : (MOps.log x : ℝ) = Mapping.approxLog p x := by
  simp [Mapping.approxLog, hk]

theorem log_approxInvLog (x : ℝ) : (MOps.exp x : ℝ) = Mapping.approxInvLog p x := by
  simp [Mapping.approxInvLog, hk]

omit hk in
theorem log_minIndexable :
    LogarithmicMapping.MinIndexableValue (toGenLog p) = Mapping.minIndexable p := rfl

omit hk in
theorem log_maxIndexable :
    LogarithmicMapping.MaxIndexableValue (toGenLog p) = Mapping.maxIndexable p := rfl

end log

/-! ## the linearly interpolated mapping -/

section linear

theorem newLinear_withGamma (γ o : ℝ) (hγ : 1 < γ) :
    NewLinearlyInterpolatedMappingWithGamma γ o = (toGenLinear ⟨.linear, γ, o⟩, GoErr.nil) := by
  unfold NewLinearlyInterpolatedMappingWithGamma
  rw [gammaGuard, decide_eq_false (not_le.2 hγ)]
  simp [toGenLinear, Mapping.multiplier, Mapping.minIndexable, Mapping.maxIndexable,
    Mapping.expLike, Mapping.adjustedGamma]

theorem newLinear_withGamma_err (γ o : ℝ) (hγ : γ ≤ 1) :
    (NewLinearlyInterpolatedMappingWithGamma γ o).2 ≠ GoErr.nil := by
  unfold NewLinearlyInterpolatedMappingWithGamma
  rw [gammaGuard, decide_eq_true hγ]
  simp

theorem newLinear_ofAlpha (α : ℝ) (h0 : 0 < α) (h1 : α < 1) :
    NewLinearlyInterpolatedMapping α = (toGenLinear (Mapping.ofAlpha .linear α), GoErr.nil) := by
  have hγ := gamma_ofAlpha_gt_one .linear h0 h1
  have hw := newLinear_withGamma _
    (Mapping.defaultOffset .linear (Mapping.gammaOfAlpha .linear α)) hγ
  unfold NewLinearlyInterpolatedMapping
  rw [alphaGuard_false h0 h1]
  simp only [Mapping.ofAlpha, Mapping.gammaOfAlpha, Mapping.defaultOffset, Mapping.one] at hw
  simp only [Bool.false_eq_true, if_false, hw]
  rfl

theorem newLinear_ofAlpha_err (α : ℝ) (h : α ≤ 0 ∨ 1 ≤ α) :
    (NewLinearlyInterpolatedMapping α).2 ≠ GoErr.nil := by
  unfold NewLinearlyInterpolatedMapping
  rw [alphaGuard_true h]
  simp

variable (p : Mapping.Params ℝ) (hk : p.kind = .linear)
include hk

/-- the receiver is not used by `approximateLog`: the statement holds for every `m` -/
theorem linear_approxLog (m : LinearlyInterpolatedMapping ℝ) (x : ℝ) :
    LinearlyInterpolatedMapping.approximateLog m x = Mapping.approxLog p x := by
  unfold LinearlyInterpolatedMapping.approximateLog Mapping.approxLog
  simp [hk]

/-- the receiver is not used by `approximateInverseLog`: the statement holds for every `m` -/
theorem linear_approxInvLog (m : LinearlyInterpolatedMapping ℝ) (x : ℝ) :
    LinearlyInterpolatedMapping.approximateInverseLog m x = Mapping.approxInvLog p x := by
  unfold LinearlyInterpolatedMapping.approximateInverseLog Mapping.approxInvLog
  simp [hk]

theorem linear_index (v : ℝ) :
    LinearlyInterpolatedMapping.Index (toGenLinear p) v = Mapping.index p v := by
  unfold LinearlyInterpolatedMapping.Index Mapping.index
  simp only [toGenLinear_multiplier, toGenLinear_indexOffset, linear_approxLog p hk]
  rfl

theorem linear_lowerBound (i : ℤ) :
    LinearlyInterpolatedMapping.LowerBound (toGenLinear p) i = Mapping.lowerBound p i := by
  unfold LinearlyInterpolatedMapping.LowerBound Mapping.lowerBound
  simp only [toGenLinear_multiplier, toGenLinear_indexOffset, linear_approxInvLog p hk]

theorem linear_relativeAccuracy :
    LinearlyInterpolatedMapping.RelativeAccuracy (toGenLinear p) = Mapping.relativeAccuracy p := by
  unfold LinearlyInterpolatedMapping.RelativeAccuracy Mapping.relativeAccuracy
  simp [hk]

theorem linear_value (i : ℤ) :
    LinearlyInterpolatedMapping.Value (toGenLinear p) i = Mapping.value p i := by
  unfold LinearlyInterpolatedMapping.Value Mapping.value
  rw [linear_lowerBound p hk, linear_relativeAccuracy p hk]; simp

omit hk in
theorem linear_minIndexable :
    LinearlyInterpolatedMapping.MinIndexableValue (toGenLinear p) = Mapping.minIndexable p := rfl

omit hk in
theorem linear_maxIndexable :
    LinearlyInterpolatedMapping.MaxIndexableValue (toGenLinear p) = Mapping.maxIndexable p := rfl

end linear

/-! ## the cubically interpolated mapping -/

section cubic

theorem newCubic_withGamma (γ o : ℝ) (hγ : 1 < γ) :
    NewCubicallyInterpolatedMappingWithGamma γ o = (toGenCubic ⟨.cubic, γ, o⟩, GoErr.nil) := by
  unfold NewCubicallyInterpolatedMappingWithGamma
  rw [gammaGuard, decide_eq_false (not_le.2 hγ)]
  simp [toGenCubic, Mapping.multiplier, Mapping.minIndexable, Mapping.maxIndexable,
    Mapping.expLike, Mapping.adjustedGamma]

theorem newCubic_withGamma_err (γ o : ℝ) (hγ : γ ≤ 1) :
    (NewCubicallyInterpolatedMappingWithGamma γ o).2 ≠ GoErr.nil := by
  unfold NewCubicallyInterpolatedMappingWithGamma
  rw [gammaGuard, decide_eq_true hγ]
  simp

theorem newCubic_ofAlpha (α : ℝ) (h0 : 0 < α) (h1 : α < 1) :
    NewCubicallyInterpolatedMapping α = (toGenCubic (Mapping.ofAlpha .cubic α), GoErr.nil) := by
  have hγ := gamma_ofAlpha_gt_one .cubic h0 h1
  have hw := newCubic_withGamma _
    (Mapping.defaultOffset .cubic (Mapping.gammaOfAlpha .cubic α)) hγ
  unfold NewCubicallyInterpolatedMapping
  rw [alphaGuard_false h0 h1]
  simp only [Mapping.ofAlpha, Mapping.gammaOfAlpha, Mapping.defaultOffset, Mapping.one] at hw
  simp only [Bool.false_eq_true, if_false, hw]
  rfl

theorem newCubic_ofAlpha_err (α : ℝ) (h : α ≤ 0 ∨ 1 ≤ α) :
    (NewCubicallyInterpolatedMapping α).2 ≠ GoErr.nil := by
  unfold NewCubicallyInterpolatedMapping
  rw [alphaGuard_true h]
  simp

variable (p : Mapping.Params ℝ) (hk : p.kind = .cubic)
include hk

/-- the receiver is not used by `approximateLog`: the statement holds for every `m` -/
theorem cubic_approxLog (m : CubicallyInterpolatedMapping ℝ) (x : ℝ) :
    CubicallyInterpolatedMapping.approximateLog m x = Mapping.approxLog p x := by
  unfold CubicallyInterpolatedMapping.approximateLog Mapping.approxLog
  simp only [hk, Mapping.cA, Mapping.cB, Mapping.cC, Consts.cubicA, Consts.cubicB, Consts.cubicC,
    add_def, sub_def, mul_def, ofRat_def, ofInt_def, one_def]
  push_cast
  ring

/-- the receiver is not used by `approximateInverseLog`: the statement holds for every `m` -/
theorem cubic_approxInvLog (m : CubicallyInterpolatedMapping ℝ) (x : ℝ) :
    CubicallyInterpolatedMapping.approximateInverseLog m x = Mapping.approxInvLog p x := by
  unfold CubicallyInterpolatedMapping.approximateInverseLog Mapping.approxInvLog
  simp only [hk, Mapping.cB, Consts.cubicA, Consts.cubicB, Consts.cubicC,
    add_def, sub_def, mul_def, div_def, neg_def, ofRat_def, ofInt_def, one_def, two_def]
  congr 1
  push_cast
  norm_num
  ring

theorem cubic_index (v : ℝ) :
    CubicallyInterpolatedMapping.Index (toGenCubic p) v = Mapping.index p v := by
  unfold CubicallyInterpolatedMapping.Index Mapping.index
  simp only [toGenCubic_multiplier, toGenCubic_indexOffset, cubic_approxLog p hk]
  rfl

theorem cubic_lowerBound (i : ℤ) :
    CubicallyInterpolatedMapping.LowerBound (toGenCubic p) i = Mapping.lowerBound p i := by
  unfold CubicallyInterpolatedMapping.LowerBound Mapping.lowerBound
  simp only [toGenCubic_multiplier, toGenCubic_indexOffset, cubic_approxInvLog p hk]

theorem cubic_relativeAccuracy :
    CubicallyInterpolatedMapping.RelativeAccuracy (toGenCubic p) = Mapping.relativeAccuracy p := by
  unfold CubicallyInterpolatedMapping.RelativeAccuracy Mapping.relativeAccuracy
  simp [hk]

theorem cubic_value (i : ℤ) :
    CubicallyInterpolatedMapping.Value (toGenCubic p) i = Mapping.value p i := by
  unfold CubicallyInterpolatedMapping.Value Mapping.value
  rw [cubic_lowerBound p hk, cubic_relativeAccuracy p hk]; simp

omit hk in
theorem cubic_minIndexable :
    CubicallyInterpolatedMapping.MinIndexableValue (toGenCubic p) = Mapping.minIndexable p := rfl

omit hk in
theorem cubic_maxIndexable :
    CubicallyInterpolatedMapping.MaxIndexableValue (toGenCubic p) = Mapping.maxIndexable p := rfl

end cubic

/-! ## the hypotheses are satisfiable -/

example (o : ℝ) : NewLogarithmicMappingWithGamma (2:ℝ) o = (toGenLog ⟨.log, 2, o⟩, GoErr.nil) :=
  newLog_withGamma 2 o (by norm_num)

example (o : ℝ) :
    NewLinearlyInterpolatedMappingWithGamma (2:ℝ) o = (toGenLinear ⟨.linear, 2, o⟩, GoErr.nil) :=
  newLinear_withGamma 2 o (by norm_num)

example (o : ℝ) :
    NewCubicallyInterpolatedMappingWithGamma (2:ℝ) o = (toGenCubic ⟨.cubic, 2, o⟩, GoErr.nil) :=
  newCubic_withGamma 2 o (by norm_num)

example : NewCubicallyInterpolatedMapping (1 / 100 : ℝ)
    = (toGenCubic (Mapping.ofAlpha .cubic (1 / 100)), GoErr.nil) :=
  newCubic_ofAlpha _ (by norm_num) (by norm_num)

example : (NewLogarithmicMapping (1 : ℝ)).2 ≠ GoErr.nil :=
  newLog_ofAlpha_err 1 (Or.inr le_rfl)

example (v : ℝ) (i : ℤ) (o : ℝ) :
    CubicallyInterpolatedMapping.Index (toGenCubic ⟨.cubic, 2, o⟩) v = Mapping.index ⟨.cubic, 2, o⟩ v ∧
    CubicallyInterpolatedMapping.Value (toGenCubic ⟨.cubic, 2, o⟩) i = Mapping.value ⟨.cubic, 2, o⟩ i :=
  ⟨cubic_index _ rfl v, cubic_value _ rfl i⟩

end DDS.GenMapping
