/-
  DDS.Proofs.GenPagBase — the regenerated buffered-paginated store (`DDS/Generated/CodePaginated.lean`)
  against the hand-written model `DDS.PStore`: page arithmetic, `page`, constructor, `IsEmpty`, `TotalCount`,
  `Clear`, `Copy`.

  Proved (for ALL stores, capacities, integers; no store invariant is assumed anywhere):
  * bit arithmetic of `GoSem.andInt` for all integers, negative included:
      `andInt_mask    : andInt i (2^k - 1) = i % 2^k`,
      `andInt_neg_pow : andInt x (-(2^k)) = x / 2^k * 2^k`, `andInt_neg8` its `k = 3` instance;
  * `gen_pageIndex`, `gen_lineIndex`, `gen_index`, `gen_newPagesLen`: the generated page arithmetic on
    `toGen s cap` is the model's.
-/
import DDS.Proofs.GenPagDefs

namespace DDS.GenPag

open DDS DDS.GoSem DDS.GenDense

/-! ### `andInt` -/

theorem nat_or_mask (a k : Nat) : a ||| (2 ^ k - 1) = 2 ^ k * (a / 2 ^ k) + (2 ^ k - 1) := by
  apply Nat.eq_of_testBit_eq
  intro i
  have hlt : 2 ^ k - 1 < 2 ^ k := Nat.sub_lt (Nat.two_pow_pos k) (by decide)
  rw [Nat.testBit_or, Nat.testBit_two_pow_mul_add _ hlt, Nat.testBit_two_pow_sub_one, Nat.testBit_div_two_pow]
  by_cases h : i < k
  · simp [h]
  · have : i - k + k = i := by omega
    simp [h, this]

theorem cast_two_pow (k : Nat) : (2 : Int) ^ k = ((2 ^ k : Nat) : Int) := by simp

theorem cast_mask (k : Nat) : (2 : Int) ^ k - 1 = ((2 ^ k - 1 : Nat) : Int) := by
  have := Nat.two_pow_pos k
  rw [Int.natCast_sub (by omega)]; simp

/-- `i & (2^k - 1) = i mod 2^k`, all integers -/
theorem andInt_mask (i : Int) (k : Nat) : GoSem.andInt i ((2 : Int) ^ k - 1) = i % (2 : Int) ^ k := by
  rw [cast_mask, cast_two_pow]
  have hp := Nat.two_pow_pos k
  cases i with
  | ofNat a =>
    show ((a &&& (2 ^ k - 1) : Nat) : Int) = _
    rw [Nat.and_two_pow_sub_one_eq_mod]; rfl
  | negSucc a =>
    show (((2 ^ k - 1) - ((2 ^ k - 1) &&& a) : Nat) : Int) = _
    rw [Nat.and_comm, Nat.and_two_pow_sub_one_eq_mod, Int.emod_negSucc]
    have hm : a % 2 ^ k < 2 ^ k := Nat.mod_lt _ hp
    rw [Int.natAbs_natCast, Int.subNatNat_eq_coe]
    omega

/-- `x & -(2^k) = ⌊x / 2^k⌋ * 2^k`, all integers -/
theorem andInt_neg_pow (x : Int) (k : Nat) :
    GoSem.andInt x (-((2 : Int) ^ k)) = x / (2 : Int) ^ k * (2 : Int) ^ k := by
  have hp := Nat.two_pow_pos k
  have hneg : -((2 : Int) ^ k) = Int.negSucc (2 ^ k - 1) := by
    rw [Int.negSucc_eq]; have := cast_mask k; omega
  rw [hneg, cast_two_pow]
  cases x with
  | ofNat a =>
    show ((a - (a &&& (2 ^ k - 1)) : Nat) : Int) = _
    rw [Nat.and_two_pow_sub_one_eq_mod]
    have h1 := Nat.div_add_mod a (2 ^ k)
    have h2 : (Int.ofNat a) / ((2 ^ k : Nat) : Int) = ((a / 2 ^ k : Nat) : Int) := rfl
    rw [h2, ← Int.natCast_mul]
    congr 1
    rw [Nat.mul_comm]; omega
  | negSucc a =>
    show Int.negSucc (a ||| (2 ^ k - 1)) = _
    rw [nat_or_mask, Int.negSucc_ediv _ (by exact_mod_cast hp)]
    have h2 : (Int.ediv (a : Int) ((2 ^ k : Nat) : Int)) = ((a / 2 ^ k : Nat) : Int) := rfl
    rw [h2, Int.negSucc_eq]
    generalize a / 2 ^ k = q
    generalize 2 ^ k = P at hp ⊢
    have : ((P * q + (P - 1) : Nat) : Int) = (P : Int) * q + (P - 1) := by
      rw [Int.natCast_add, Int.natCast_mul, Int.natCast_sub (by omega)]; simp
    rw [this]
    rw [Int.neg_mul, Int.add_mul, Int.mul_comm]
    omega

/-- `x & -8 = ⌊x / 8⌋ * 8`, all integers -/
theorem andInt_neg8 (x : Int) : GoSem.andInt x (-8) = x / 8 * 8 := by
  have := andInt_neg_pow x 3
  simpa using this

/-! ### page arithmetic -/

theorem cast_pageLen (s : PStore) : ((s.pageLen : Nat) : Int) = (2 : Int) ^ s.pageLenLog2 := by
  simp [PStore.pageLen]

theorem pageLen_pos (s : PStore) : 0 < s.pageLen := Nat.two_pow_pos _

theorem gen_pageIndex (s : PStore) (cap : Int) (i : Int) :
    Gen.Paginated.BufferedPaginatedStore.pageIndex (toGen s cap) i = s.pageIndex i := by
  simp [Gen.Paginated.BufferedPaginatedStore.pageIndex, GoSem.shrInt, PStore.pageIndex, PStore.pageLen]

theorem gen_lineIndex (s : PStore) (cap : Int) (i : Int) :
    Gen.Paginated.BufferedPaginatedStore.lineIndex (toGen s cap) i = ((s.lineIndex i : Nat) : Int) := by
  have hp : (0 : Int) < (2 : Int) ^ s.pageLenLog2 := Int.pow_pos (by decide)
  simp only [Gen.Paginated.BufferedPaginatedStore.lineIndex, toGen_pageLenMask, andInt_mask, PStore.lineIndex,
    cast_pageLen]
  rw [Int.toNat_of_nonneg (Int.emod_nonneg _ (by omega))]

theorem lineIndex_lt (s : PStore) (i : Int) : s.lineIndex i < s.pageLen := by
  have hp : (0 : Int) < (2 : Int) ^ s.pageLenLog2 := Int.pow_pos (by decide)
  have := Int.emod_lt_of_pos i hp
  have h0 := Int.emod_nonneg i (show (2 : Int) ^ s.pageLenLog2 ≠ 0 by omega)
  have hc := cast_pageLen s
  unfold PStore.lineIndex
  rw [hc]; omega

theorem gen_index (s : PStore) (cap : Int) (p l : Int) (hl : 0 ≤ l) :
    Gen.Paginated.BufferedPaginatedStore.index (toGen s cap) p l = s.index p l.toNat := by
  simp only [Gen.Paginated.BufferedPaginatedStore.index, toGen_pageLenLog2, Int.toNat_natCast, PStore.index,
    cast_pageLen]
  omega

theorem gen_index_nat (s : PStore) (cap : Int) (p : Int) (l : Nat) :
    Gen.Paginated.BufferedPaginatedStore.index (toGen s cap) p (l : Int) = s.index p l := by
  rw [gen_index _ _ _ _ (by omega)]; simp

theorem gen_newPagesLen (g : GP) (r : Int) :
    Gen.Paginated.BufferedPaginatedStore.newPagesLen g r = PStore.newPagesLen r := by
  simp only [Gen.Paginated.BufferedPaginatedStore.newPagesLen, PStore.newPagesLen, andInt_neg8]
  congr 2; omega

/-- the `pageLen` local of the generated functions -/
theorem gen_pageLen (s : PStore) (cap : Int) :
    (1 : Int) * (2 : Int) ^ (Int.toNat (toGen s cap).pageLenLog2) = ((s.pageLen : Nat) : Int) := by
  simp [PStore.pageLen]

end DDS.GenPag
