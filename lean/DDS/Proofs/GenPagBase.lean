/-
  DDS.Proofs.GenPagBase — the regenerated buffered-paginated store (`DDS/Generated/CodePaginated.lean`)
  against the hand-written model `DDS.PStore`: page arithmetic, `page`, constructor, `IsEmpty`, `TotalCount`,
  `Clear`, `Copy`.

  Proved for ALL stores `s`, capacities `cap`, integers (no store invariant is assumed anywhere):
  * bit arithmetic of `GoSem.andInt`, negative arguments included:
      `andInt_mask    : andInt i (2^k - 1) = i % 2^k`,
      `andInt_neg_pow : andInt x (-(2^k)) = x / 2^k * 2^k`, `andInt_neg8` its `k = 3` instance;
  * `gen_pageIndex`, `gen_lineIndex`, `gen_index`(`_nat`), `gen_newPagesLen`, `gen_pageLen`: the generated page
    arithmetic on `toGen s cap` is the model's; `lineIndex_lt`;
  * `page_spec : PageSpec` — the interface statement of GenPagDefs is TRUE AS STATED: with `pageFuel s p ≤ fuel`
    the generated `page` equals `toRes … (s.page p e)`, panics exactly when the model answers `none`, never runs
    out of fuel.  (The only loop clears `addedLen ≤ minPageIndex - p + 8` slots of a left extension, so it needs
    `addedLen + 1 ≤ (minPageIndex - p + 9).toNat + 1 = pageFuel s p`; every other branch needs no fuel at all.)
    Building blocks: `page_unfold` (the four copies of the final read-and-materialise step folded into `fetch`),
    `fetch_spec` (`fetch` = the model's last step `mfetch`), `page_loop1`, `page_spec_in`, `page_spec_out`.
  * `new_spec : NewBufferedPaginatedStore = toGen PStore.new 4`;
    `isEmpty_spec`, `totalCount_spec` (`= .ok s.isEmpty`, `= .ok s.totalCount`; the `fuel` argument is unused);
    `clear_spec : Clear fuel (toGen s cap) = .ok (toGen s.clear cap)`;
    `copy_spec : Copy fuel (toGen s cap) = .ok (toGen s s.buffer.length)` (the copy's capacity is its length;
    `Copy` materialises the non-empty pages only, an empty page stays nil, so the pages are equal).
  No disagreement between generated code and model was found in these functions.
-/
import DDS.Proofs.GenPagDefs

namespace DDS.GenPag

open DDS DDS.GoSem DDS.GenDense

/-! ### `andInt` -/

theorem nat_or_mask (a k : Nat) : a ||| (2 ^ k - 1) = 2 ^ k * (a / 2 ^ k) + (2 ^ k - 1) := by
  apply Nat.eq_of_testBit_eq
  intro i
  have hlt : 2 ^ k - 1 < 2 ^ k := Nat.sub_lt (Nat.two_pow_pos k) (by decide)
  rw [Nat.testBit_or, Nat.testBit_two_pow_mul_add _ hlt, Nat.testBit_two_pow_sub_one, Nat.testBit_div_two_pow]
  by_cases h : i < k
  · simp [h]
  · have : i - k + k = i := by omega
    simp [h, this]

theorem cast_two_pow (k : Nat) : (2 : Int) ^ k = ((2 ^ k : Nat) : Int) := by simp

theorem cast_mask (k : Nat) : (2 : Int) ^ k - 1 = ((2 ^ k - 1 : Nat) : Int) := by
  have := Nat.two_pow_pos k
  rw [Int.natCast_sub (by omega)]; simp

/-- `i & (2^k - 1) = i mod 2^k`, all integers -/
theorem andInt_mask (i : Int) (k : Nat) : GoSem.andInt i ((2 : Int) ^ k - 1) = i % (2 : Int) ^ k := by
  rw [cast_mask, cast_two_pow]
  have hp := Nat.two_pow_pos k
  cases i with
  | ofNat a =>
    show ((a &&& (2 ^ k - 1) : Nat) : Int) = _
    rw [Nat.and_two_pow_sub_one_eq_mod]; rfl
  | negSucc a =>
    show (((2 ^ k - 1) - ((2 ^ k - 1) &&& a) : Nat) : Int) = _
    rw [Nat.and_comm, Nat.and_two_pow_sub_one_eq_mod, Int.emod_negSucc]
    have hm : a % 2 ^ k < 2 ^ k := Nat.mod_lt _ hp
    rw [Int.natAbs_natCast, Int.subNatNat_eq_coe]
    omega

/-- `x & -(2^k) = ⌊x / 2^k⌋ * 2^k`, all integers -/
theorem andInt_neg_pow (x : Int) (k : Nat) :
    GoSem.andInt x (-((2 : Int) ^ k)) = x / (2 : Int) ^ k * (2 : Int) ^ k := by
  have hp := Nat.two_pow_pos k
  have hneg : -((2 : Int) ^ k) = Int.negSucc (2 ^ k - 1) := by
    rw [Int.negSucc_eq]; have := cast_mask k; omega
  rw [hneg, cast_two_pow]
  cases x with
  | ofNat a =>
    show ((a - (a &&& (2 ^ k - 1)) : Nat) : Int) = _
    rw [Nat.and_two_pow_sub_one_eq_mod]
    have h1 := Nat.div_add_mod a (2 ^ k)
    have h2 : (Int.ofNat a) / ((2 ^ k : Nat) : Int) = ((a / 2 ^ k : Nat) : Int) := rfl
    rw [h2, ← Int.natCast_mul]
    congr 1
    rw [Nat.mul_comm]; omega
  | negSucc a =>
    show Int.negSucc (a ||| (2 ^ k - 1)) = _
    rw [nat_or_mask, Int.negSucc_ediv _ (by exact_mod_cast hp)]
    have h2 : (Int.ediv (a : Int) ((2 ^ k : Nat) : Int)) = ((a / 2 ^ k : Nat) : Int) := rfl
    rw [h2, Int.negSucc_eq]
    generalize a / 2 ^ k = q
    generalize 2 ^ k = P at hp ⊢
    have : ((P * q + (P - 1) : Nat) : Int) = (P : Int) * q + (P - 1) := by
      rw [Int.natCast_add, Int.natCast_mul, Int.natCast_sub (by omega)]; simp
    rw [this]
    rw [Int.neg_mul, Int.add_mul, Int.mul_comm]
    omega

/-- `x & -8 = ⌊x / 8⌋ * 8`, all integers -/
theorem andInt_neg8 (x : Int) : GoSem.andInt x (-8) = x / 8 * 8 := by
  have := andInt_neg_pow x 3
  simpa using this

/-! ### page arithmetic -/

theorem cast_pageLen (s : PStore) : ((s.pageLen : Nat) : Int) = (2 : Int) ^ s.pageLenLog2 := by
  simp [PStore.pageLen]

theorem pageLen_pos (s : PStore) : 0 < s.pageLen := Nat.two_pow_pos _

theorem gen_pageIndex (s : PStore) (cap : Int) (i : Int) :
    Gen.Paginated.BufferedPaginatedStore.pageIndex (toGen s cap) i = s.pageIndex i := by
  simp [Gen.Paginated.BufferedPaginatedStore.pageIndex, GoSem.shrInt, PStore.pageIndex, PStore.pageLen]

theorem gen_lineIndex (s : PStore) (cap : Int) (i : Int) :
    Gen.Paginated.BufferedPaginatedStore.lineIndex (toGen s cap) i = ((s.lineIndex i : Nat) : Int) := by
  have hp : (0 : Int) < (2 : Int) ^ s.pageLenLog2 := Int.pow_pos (by decide)
  simp only [Gen.Paginated.BufferedPaginatedStore.lineIndex, toGen_pageLenMask, andInt_mask, PStore.lineIndex,
    cast_pageLen]
  rw [Int.toNat_of_nonneg (Int.emod_nonneg _ (by omega))]

theorem lineIndex_lt (s : PStore) (i : Int) : s.lineIndex i < s.pageLen := by
  have hp : (0 : Int) < (2 : Int) ^ s.pageLenLog2 := Int.pow_pos (by decide)
  have := Int.emod_lt_of_pos i hp
  have h0 := Int.emod_nonneg i (show (2 : Int) ^ s.pageLenLog2 ≠ 0 by omega)
  have hc := cast_pageLen s
  unfold PStore.lineIndex
  rw [hc]; omega

theorem gen_index (s : PStore) (cap : Int) (p l : Int) (hl : 0 ≤ l) :
    Gen.Paginated.BufferedPaginatedStore.index (toGen s cap) p l = s.index p l.toNat := by
  simp only [Gen.Paginated.BufferedPaginatedStore.index, toGen_pageLenLog2, Int.toNat_natCast, PStore.index,
    cast_pageLen]
  omega

theorem gen_index_nat (s : PStore) (cap : Int) (p : Int) (l : Nat) :
    Gen.Paginated.BufferedPaginatedStore.index (toGen s cap) p (l : Int) = s.index p l := by
  rw [gen_index _ _ _ _ (by omega)]; simp

theorem gen_newPagesLen (g : GP) (r : Int) :
    Gen.Paginated.BufferedPaginatedStore.newPagesLen g r = PStore.newPagesLen r := by
  simp only [Gen.Paginated.BufferedPaginatedStore.newPagesLen, PStore.newPagesLen, andInt_neg8]
  congr 2; omega

/-- the `pageLen` local of the generated functions -/
theorem gen_pageLen (s : PStore) (cap : Int) :
    (1 : Int) * (2 : Int) ^ (Int.toNat (toGen s cap).pageLenLog2) = ((s.pageLen : Nat) : Int) := by
  simp [PStore.pageLen]

/-! ### `pages` bridging -/

theorem len_pagesL (s : PStore) : GoSem.len (pagesL s) = (s.pages.size : Int) := by
  simp [GoSem.len, pagesL]

theorem length_pagesL (s : PStore) : (pagesL s).length = s.pages.size := by
  simp [pagesL]

theorem idx_pagesL (s : PStore) (k : Int) (h0 : 0 ≤ k) (h1 : k < (s.pages.size : Int)) :
    GoSem.idx (pagesL s) k = some (s.pages.getD k.toNat #[]).toList := by
  have : k.toNat < s.pages.size := by omega
  unfold GoSem.idx pagesL
  rw [if_neg (by omega)]
  simp [this]

theorem idx_pagesL_none (s : PStore) (k : Int) (h : ¬ (0 ≤ k ∧ k < (s.pages.size : Int))) :
    GoSem.idx (pagesL s) k = none := by
  unfold GoSem.idx pagesL
  by_cases h0 : k < 0
  · rw [if_pos h0]
  · rw [if_neg h0]
    have : s.pages.size ≤ k.toNat := by omega
    simp [this]

theorem set_pagesL (s : PStore) (k : Int) (v : Array Rat) (h0 : 0 ≤ k) (h1 : k < (s.pages.size : Int)) :
    GoSem.set (pagesL s) k v.toList = some (pagesL { s with pages := s.pages.setIfInBounds k.toNat v }) := by
  unfold GoSem.set
  rw [if_neg (by rw [length_pagesL]; omega)]
  simp [pagesL, List.map_set]

theorem toGen_pages_eq (s : PStore) (cap : Int) (a : Array (Array Rat)) :
    ({ toGen s cap with pages := pagesL { s with pages := a } } : GP) = toGen { s with pages := a } cap := rfl

/-- the tail of every `ensureExists` branch of the generated `page`: read the slot, materialise an empty page -/
def fetch (L : Int) (g : GP) (p : Int) : Res (GP × List Rat) :=
  GoSem.optR (GoSem.idx g.pages (p - g.minPageIndex)) (fun page =>
    if ((GoSem.len page) == (0 : Int)) then
      GoSem.optR (GoSem.mkSlice L (0 : Rat)) (fun t2 =>
        GoSem.optR (GoSem.set g.pages (p - g.minPageIndex) (page ++ t2)) (fun t3 =>
          .ok ({ g with pages := t3 }, page ++ t2)))
    else .ok (g, page))

/-- its model counterpart: the last step of `PStore.page` -/
def mfetch (s : PStore) (p : Int) : Option (PStore × Option Nat) :=
  let k := p - s.minPageIndex
  if 0 ≤ k ∧ k < (s.pages.size : Int) then some (s.materialize k.toNat, some k.toNat) else none

theorem fetch_spec (s : PStore) (cap : Int) (p : Int) :
    fetch (s.pageLen : Int) (toGen s cap) p
      = toRes (fun (r : PStore × Option Nat) => (toGen r.1 cap, pageOf r.1 r.2)) (mfetch s p) := by
  unfold fetch mfetch
  simp only [toGen_pages, toGen_minPageIndex]
  by_cases h : 0 ≤ p - s.minPageIndex ∧ p - s.minPageIndex < (s.pages.size : Int)
  · rw [if_pos h, idx_pagesL _ _ h.1 h.2, toRes_some, optR_some]
    have hk : (p - s.minPageIndex).toNat < s.pages.size := by omega
    unfold PStore.materialize
    generalize hpg : s.pages.getD (p - s.minPageIndex).toNat #[] = pg
    by_cases hz : pg.size = 0
    · rw [if_pos hz]
      have hl : (GoSem.len pg.toList == (0 : Int)) = true := by
        rw [len_toList, hz]; rfl
      rw [if_pos hl]
      have hnil : pg.toList = [] := List.eq_nil_of_length_eq_zero (by rw [Array.length_toList]; exact hz)
      have hmk : GoSem.mkSlice (s.pageLen : Int) (0 : Rat) = some s.zeroPage.toList := by
        unfold GoSem.mkSlice
        rw [if_neg (by omega)]
        simp [PStore.zeroPage]
      rw [hmk, optR_some, hnil, List.nil_append, set_pagesL _ _ _ h.1 h.2, optR_some]
      simp only [pageOf, Array.getD_eq_getD_getElem?, Array.getElem?_setIfInBounds_self_of_lt hk, Option.getD_some]
      rfl
    · rw [if_neg hz]
      have hl : ¬ (GoSem.len pg.toList == (0 : Int)) = true := by
        rw [len_toList]; simp only [beq_iff_eq]; omega
      rw [if_neg hl]
      simp only [pageOf, hpg]
  · rw [if_neg h, idx_pagesL_none _ _ h]; rfl

open Gen.Paginated in
/-- the generated `page`, with its four copies of the final read-and-materialise step folded into `fetch` -/
theorem page_unfold (fuel : Nat) (g : GP) (p : Int) (e : Bool) :
    BufferedPaginatedStore.page fuel g p e =
      (let L := ((1 : Int) * (2 : Int) ^ (Int.toNat g.pageLenLog2))
      if ((decide (g.minPageIndex ≤ p)) && (decide (p < (g.minPageIndex + (GoSem.len g.pages))))) then
        GoSem.optR (GoSem.idx g.pages (p - g.minPageIndex)) (fun page =>
          if (e && ((GoSem.len page) == (0 : Int))) then
            GoSem.optR (GoSem.mkSlice L (0 : Rat)) (fun t9 =>
              GoSem.optR (GoSem.set g.pages (p - g.minPageIndex) (page ++ t9)) (fun t10 =>
                .ok ({ g with pages := t10 }, page ++ t9)))
          else .ok (g, page))
      else if (!e) then .ok (g, [])
      else if (decide (p < g.minPageIndex)) then
        if (g.minPageIndex == (9223372036854775807 : Int)) then
          let g1 : GP := if ((GoSem.len g.pages) == (0 : Int)) then
              { g with pages := (g.pages ++ (List.replicate (Int.toNat (BufferedPaginatedStore.newPagesLen g (1 : Int))) ([] : List Rat))) }
            else g
          fetch L { g1 with minPageIndex := (p - (Int.tdiv (GoSem.len g1.pages) (2 : Int))) } p
        else
          let addedLen := (BufferedPaginatedStore.newPagesLen g (((g.minPageIndex - p) + (1 : Int)) + (GoSem.len g.pages))) - (GoSem.len g.pages)
          GoSem.optR (GoSem.mkSlice addedLen ([] : List Rat)) (fun t4 =>
            GoSem.optR (GoSem.copyWithin (g.pages ++ t4) addedLen (0 : Int) (GoSem.len (g.pages ++ t4))) (fun t6 =>
              Loop.elim (BufferedPaginatedStore.page.loop1 addedLen fuel { g with pages := t6 } (0 : Int)) (fun si =>
                fetch L { si.1 with minPageIndex := (si.1.minPageIndex - addedLen) } p)))
      else
        GoSem.optR (GoSem.mkSlice ((BufferedPaginatedStore.newPagesLen g ((p - g.minPageIndex) + (1 : Int))) - (GoSem.len g.pages)) ([] : List Rat)) (fun t7 =>
          fetch L { g with pages := (g.pages ++ t7) } p)) := by
  rfl

open Gen.Paginated in
/-- the only loop of `page`: clear the slots `i … addedLen-1` -/
theorem page_loop1 (added : Int) (mid : List (List Rat)) :
    ∀ (pre post : List (List Rat)) (g : GP) (i : Int) (fuel : Nat),
      g.pages = pre ++ mid ++ post → (pre.length : Int) = i → (mid.length : Int) = added - i →
      mid.length + 1 ≤ fuel →
      BufferedPaginatedStore.page.loop1 added fuel g i
        = .done ({ g with pages := pre ++ List.replicate mid.length [] ++ post }, added) := by
  induction mid with
  | nil =>
    intro pre post g i fuel hp hi hm hf
    obtain ⟨f, rfl⟩ : ∃ f, fuel = f + 1 := ⟨fuel - 1, by omega⟩
    simp only [List.length_nil, Int.natCast_zero] at hm
    have : i = added := by omega
    subst this
    unfold BufferedPaginatedStore.page.loop1
    rw [if_neg (by simp)]
    simp only [List.length_nil, List.replicate_zero]
    rw [← hp]
  | cons x m ih =>
    intro pre post g i fuel hp hi hm hf
    obtain ⟨f, rfl⟩ : ∃ f, fuel = f + 1 := ⟨fuel - 1, by omega⟩
    simp only [List.length_cons] at hm hf
    unfold BufferedPaginatedStore.page.loop1
    rw [if_pos (by simp; omega)]
    have hset : GoSem.set g.pages i ([] : List Rat) = some ((pre ++ [[]]) ++ m ++ post) := by
      unfold GoSem.set
      rw [if_neg (by rw [hp]; simp; omega)]
      rw [hp, ← hi]
      simp
    rw [hset, optL_some]
    rw [ih (pre ++ [[]]) post _ (i + 1) f rfl (by simp; omega) (by omega) (by omega)]
    simp [List.replicate_succ]

theorem materialize_size_ne (s : PStore) (k : Nat) (hk : k < s.pages.size) :
    ((s.materialize k).pages.getD k #[]).size ≠ 0 := by
  unfold PStore.materialize
  by_cases hz : (s.pages.getD k #[]).size = 0
  · rw [if_pos hz]
    simp only [Array.getD_eq_getD_getElem?, Array.getElem?_setIfInBounds_self_of_lt hk, Option.getD_some]
    have := pageLen_pos s
    simp [PStore.zeroPage]; omega
  · rw [if_neg hz]; exact hz

theorem mpage_none (s : PStore) (p : Int) (e : Bool) (h : s.slot? p = none) :
    s.page p e =
      if !e then some (s, none)
      else
        match (if p < s.minPageIndex then
            if s.minPageIndex = maxInt then
              let s1 := if s.pages.size = 0 then { s with pages := Array.replicate (PStore.newPagesLen 1).toNat #[] } else s
              some { s1 with minPageIndex := p - Int.tdiv (s1.pages.size : Int) 2 }
            else
              let addedLen := PStore.newPagesLen (s.minPageIndex - p + 1 + (s.pages.size : Int)) - (s.pages.size : Int)
              if addedLen < 0 then none
              else some { s with pages := Array.replicate addedLen.toNat #[] ++ s.pages,
                                 minPageIndex := s.minPageIndex - addedLen }
          else
            let added := PStore.newPagesLen (p - s.minPageIndex + 1) - (s.pages.size : Int)
            if added < 0 then none else some { s with pages := s.pages ++ Array.replicate added.toNat #[] } : Option PStore) with
        | none => none
        | some s' => mfetch s' p := by
  unfold PStore.page
  rw [h]
  rfl

theorem mpage_some (s : PStore) (p : Int) (e : Bool) (k : Nat) (h : s.slot? p = some k) :
    s.page p e = some (if e then s.materialize k else s,
      if ((if e then s.materialize k else s).pages.getD k #[]).size = 0 then none else some k) := by
  unfold PStore.page
  rw [h]

theorem newPagesLen_le (r : Int) : PStore.newPagesLen r ≤ r + 7 := by
  unfold PStore.newPagesLen; omega

theorem pagesL_mk (b : List Int) (t : Nat) (a : Array (Array Rat)) (m : Int) (l : Nat) :
    pagesL { buffer := b, trigger := t, pages := a, minPageIndex := m, pageLenLog2 := l } = a.toList.map Array.toList := rfl

/-- in-range slot -/
theorem page_spec_in (s : PStore) (cap : Int) (p : Int) (e : Bool) (fuel : Nat)
    (h : s.minPageIndex ≤ p ∧ p < s.minPageIndex + (s.pages.size : Int)) :
    Gen.Paginated.BufferedPaginatedStore.page fuel (toGen s cap) p e
      = toRes (fun (r : PStore × Option Nat) => (toGen r.1 cap, pageOf r.1 r.2)) (s.page p e) := by
  have hslot : s.slot? p = some (p - s.minPageIndex).toNat := by
    unfold PStore.slot?; rw [if_pos ⟨h.1, h.2⟩]
  have hk : (p - s.minPageIndex).toNat < s.pages.size := by omega
  rw [page_unfold, mpage_some _ _ _ _ hslot]
  simp only [toGen_minPageIndex, toGen_pages, len_pagesL]
  rw [if_pos (by simp [h.1, h.2])]
  cases e with
  | true =>
    have := fetch_spec s cap p
    unfold fetch mfetch at this
    simp only [toGen_minPageIndex, toGen_pages, gen_pageLen] at this ⊢
    rw [if_pos (by omega)] at this
    simp only [Bool.true_and, if_true]
    rw [this, if_neg (materialize_size_ne s _ hk)]
  | false =>
    rw [idx_pagesL _ _ (by omega) (by omega)]
    simp only [Bool.false_and, optR_some, toRes_some, Bool.false_eq_true, if_false]
    congr 2
    by_cases hz : (s.pages.getD (p - s.minPageIndex).toNat #[]).size = 0
    · rw [if_pos hz]
      exact List.eq_nil_of_length_eq_zero (by rw [Array.length_toList]; exact hz)
    · rw [if_neg hz]; rfl

section branches
open Gen.Paginated
variable (fuel : Nat) (g : GP) (p : Int)

/-- the range test of the generated `page` -/
def inRange (g : GP) (p : Int) : Bool :=
  (decide (g.minPageIndex ≤ p)) && (decide (p < (g.minPageIndex + (GoSem.len g.pages))))

theorem page_out_false (hc : inRange g p = false) :
    BufferedPaginatedStore.page fuel g p false = .ok (g, []) := by
  rw [page_unfold]; unfold inRange at hc
  simp only [hc, Bool.false_eq_true, if_false, if_true, Bool.not_false]

theorem page_out_max_empty (hc : inRange g p = false) (hlt : p < g.minPageIndex)
    (hmax : g.minPageIndex = 9223372036854775807) (hz : GoSem.len g.pages = 0) :
    BufferedPaginatedStore.page fuel g p true
      = fetch ((1 : Int) * (2 : Int) ^ (Int.toNat g.pageLenLog2))
          { g with pages := g.pages ++ List.replicate (PStore.newPagesLen 1).toNat ([] : List Rat),
                   minPageIndex := p - Int.tdiv (GoSem.len (g.pages ++ List.replicate (PStore.newPagesLen 1).toNat ([] : List Rat))) 2 } p := by
  rw [page_unfold]; unfold inRange at hc
  have hlt' : decide (p < g.minPageIndex) = true := by simpa using hlt
  have hmax' : (g.minPageIndex == 9223372036854775807) = true := by simpa using hmax
  have hz' : (GoSem.len g.pages == 0) = true := by simpa using hz
  simp only [hc, hlt', hmax', hz', gen_newPagesLen, Bool.false_eq_true, if_false, if_true, Bool.not_true]

theorem page_out_max_nonempty (hc : inRange g p = false) (hlt : p < g.minPageIndex)
    (hmax : g.minPageIndex = 9223372036854775807) (hz : GoSem.len g.pages ≠ 0) :
    BufferedPaginatedStore.page fuel g p true
      = fetch ((1 : Int) * (2 : Int) ^ (Int.toNat g.pageLenLog2))
          { g with minPageIndex := p - Int.tdiv (GoSem.len g.pages) 2 } p := by
  rw [page_unfold]; unfold inRange at hc
  have hlt' : decide (p < g.minPageIndex) = true := by simpa using hlt
  have hmax' : (g.minPageIndex == 9223372036854775807) = true := by simpa using hmax
  have hz' : (GoSem.len g.pages == 0) = false := by simpa using hz
  simp only [hc, hlt', hmax', hz', gen_newPagesLen, Bool.false_eq_true, if_false, if_true, Bool.not_true]

theorem page_out_left (hc : inRange g p = false) (hlt : p < g.minPageIndex)
    (hmax : g.minPageIndex ≠ 9223372036854775807) :
    BufferedPaginatedStore.page fuel g p true
      = (let addedLen := PStore.newPagesLen (((g.minPageIndex - p) + (1 : Int)) + (GoSem.len g.pages)) - (GoSem.len g.pages)
        GoSem.optR (GoSem.mkSlice addedLen ([] : List Rat)) (fun t4 =>
          GoSem.optR (GoSem.copyWithin (g.pages ++ t4) addedLen (0 : Int) (GoSem.len (g.pages ++ t4))) (fun t6 =>
            Loop.elim (BufferedPaginatedStore.page.loop1 addedLen fuel { g with pages := t6 } (0 : Int)) (fun si =>
              fetch ((1 : Int) * (2 : Int) ^ (Int.toNat g.pageLenLog2))
                { si.1 with minPageIndex := (si.1.minPageIndex - addedLen) } p)))) := by
  rw [page_unfold]; unfold inRange at hc
  have hlt' : decide (p < g.minPageIndex) = true := by simpa using hlt
  have hmax' : (g.minPageIndex == 9223372036854775807) = false := by simpa using hmax
  simp only [hc, hlt', hmax', gen_newPagesLen, Bool.false_eq_true, if_false, if_true, Bool.not_true]

theorem page_out_right (hc : inRange g p = false) (hlt : ¬ p < g.minPageIndex) :
    BufferedPaginatedStore.page fuel g p true
      = GoSem.optR (GoSem.mkSlice (PStore.newPagesLen ((p - g.minPageIndex) + (1 : Int)) - (GoSem.len g.pages)) ([] : List Rat)) (fun t7 =>
          fetch ((1 : Int) * (2 : Int) ^ (Int.toNat g.pageLenLog2)) { g with pages := (g.pages ++ t7) } p) := by
  rw [page_unfold]; unfold inRange at hc
  have hlt' : decide (p < g.minPageIndex) = false := by simpa using hlt
  simp only [hc, hlt', gen_newPagesLen, Bool.false_eq_true, if_false, Bool.not_true]

end branches

theorem toGen_upd (s s' : PStore) (cap : Int) (pg : List (List Rat)) (m : Int)
    (hb : s'.buffer = s.buffer) (ht : s'.trigger = s.trigger) (hl : s'.pageLenLog2 = s.pageLenLog2)
    (hp : pg = pagesL s') (hm : m = s'.minPageIndex) :
    ({ buffer := (toGen s cap).buffer, bufferCap := (toGen s cap).bufferCap,
       bufferCompactionTriggerLen := (toGen s cap).bufferCompactionTriggerLen,
       pages := pg, minPageIndex := m,
       pageLenLog2 := (toGen s cap).pageLenLog2, pageLenMask := (toGen s cap).pageLenMask } : GP) = toGen s' cap := by
  unfold toGen; simp only [hb, ht, hl, hp, hm]

theorem fetch_upd (s s' : PStore) (cap p L : Int) (pg : List (List Rat)) (m : Int)
    (hL : L = (s'.pageLen : Int))
    (hb : s'.buffer = s.buffer) (ht : s'.trigger = s.trigger) (hl : s'.pageLenLog2 = s.pageLenLog2)
    (hp : pg = pagesL s') (hm : m = s'.minPageIndex) :
    fetch L
      ({ buffer := (toGen s cap).buffer, bufferCap := (toGen s cap).bufferCap,
         bufferCompactionTriggerLen := (toGen s cap).bufferCompactionTriggerLen,
         pages := pg, minPageIndex := m,
         pageLenLog2 := (toGen s cap).pageLenLog2, pageLenMask := (toGen s cap).pageLenMask } : GP) p
      = toRes (fun (r : PStore × Option Nat) => (toGen r.1 cap, pageOf r.1 r.2)) (mfetch s' p) := by
  rw [toGen_upd s s' cap pg m hb ht hl hp hm, hL]; exact fetch_spec s' cap p

theorem fetch_spec' (s : PStore) (cap : Int) (p : Int) (L : Int) (hL : L = (s.pageLen : Int)) :
    fetch L (toGen s cap) p
      = toRes (fun (r : PStore × Option Nat) => (toGen r.1 cap, pageOf r.1 r.2)) (mfetch s p) := by
  subst hL; exact fetch_spec s cap p

theorem inRange_toGen (s : PStore) (cap : Int) (p : Int) :
    inRange (toGen s cap) p = decide (s.minPageIndex ≤ p ∧ p < s.minPageIndex + (s.pages.size : Int)) := by
  unfold inRange
  simp only [toGen_minPageIndex, toGen_pages, len_pagesL]
  by_cases h1 : s.minPageIndex ≤ p <;> by_cases h2 : p < s.minPageIndex + (s.pages.size : Int) <;> simp [h1, h2]

theorem pagesL_nil (s : PStore) (h : s.pages.size = 0) : pagesL s = [] := by
  unfold pagesL
  have : s.pages = #[] := Array.eq_empty_of_size_eq_zero h
  rw [this]; rfl

/-- out-of-range slot -/
theorem page_spec_out (s : PStore) (cap : Int) (p : Int) (e : Bool) (fuel : Nat) (hf : pageFuel s p ≤ fuel)
    (h : ¬ (s.minPageIndex ≤ p ∧ p < s.minPageIndex + (s.pages.size : Int))) :
    Gen.Paginated.BufferedPaginatedStore.page fuel (toGen s cap) p e
      = toRes (fun (r : PStore × Option Nat) => (toGen r.1 cap, pageOf r.1 r.2)) (s.page p e) := by
  have hslot : s.slot? p = none := by
    unfold PStore.slot?; rw [if_neg (by omega)]
  have hc : inRange (toGen s cap) p = false := by
    rw [inRange_toGen]; simpa using h
  rw [mpage_none _ _ _ hslot]
  cases e with
  | false => rw [page_out_false _ _ _ hc]; rfl
  | true =>
    simp only [Bool.not_true, Bool.false_eq_true, if_false]
    by_cases hlt : p < s.minPageIndex
    · rw [if_pos hlt]
      by_cases hmax : s.minPageIndex = maxInt
      · rw [if_pos hmax]
        by_cases hz : s.pages.size = 0
        · rw [page_out_max_empty _ _ _ hc hlt hmax (by rw [toGen_pages, len_pagesL, hz]; rfl)]
          simp only [hz, if_true]
          refine fetch_upd s _ cap p _ _ _ (gen_pageLen s cap) rfl rfl rfl ?_ ?_
          · simp [pagesL, Array.eq_empty_of_size_eq_zero hz]
          · simp [pagesL_nil s hz, GoSem.len]
        · rw [page_out_max_nonempty _ _ _ hc hlt hmax (by rw [toGen_pages, len_pagesL]; omega)]
          simp only [hz, if_false]
          refine fetch_upd s _ cap p _ _ _ (gen_pageLen s cap) rfl rfl rfl rfl ?_
          simp [len_pagesL]
      · rw [if_neg hmax, page_out_left _ _ _ hc hlt hmax]
        simp only [toGen_minPageIndex, toGen_pages, len_pagesL]
        generalize hadd : PStore.newPagesLen (s.minPageIndex - p + 1 + (s.pages.size : Int)) - (s.pages.size : Int) = added
        have hle := newPagesLen_le (s.minPageIndex - p + 1 + (s.pages.size : Int))
        by_cases hneg : added < 0
        · rw [if_pos hneg]
          have : GoSem.mkSlice added ([] : List Rat) = none := by unfold GoSem.mkSlice; rw [if_pos hneg]
          rw [this]; rfl
        · rw [if_neg hneg]
          have hmk : GoSem.mkSlice added ([] : List Rat) = some (List.replicate added.toNat []) := by
            unfold GoSem.mkSlice; rw [if_neg hneg]
          rw [hmk, optR_some]
          have hcw : GoSem.copyWithin (pagesL s ++ List.replicate added.toNat ([] : List Rat)) added 0
                (GoSem.len (pagesL s ++ List.replicate added.toNat ([] : List Rat)))
              = some ((pagesL s ++ List.replicate added.toNat ([] : List Rat)).take added.toNat ++ pagesL s) := by
            unfold GoSem.copyWithin GoSem.len
            rw [if_neg (by simp only [List.length_append, List.length_replicate, length_pagesL]; omega)]
            simp only [List.length_append, List.length_replicate, length_pagesL, Int.toNat_zero, List.drop_zero,
              Nat.sub_zero]
            have h1 : ((s.pages.size + added.toNat : Nat) : Int).toNat = s.pages.size + added.toNat := by omega
            rw [h1]
            have h2 : min (s.pages.size + added.toNat - added.toNat) (s.pages.size + added.toNat) = s.pages.size := by
              omega
            rw [h2]
            have h3 : (pagesL s ++ List.replicate added.toNat ([] : List Rat)).take s.pages.size = pagesL s := by
              rw [← length_pagesL s]; exact List.take_left' rfl
            have h4 : (pagesL s ++ List.replicate added.toNat ([] : List Rat)).drop (added.toNat + s.pages.size) = [] := by
              apply List.drop_eq_nil_of_le
              simp [length_pagesL]; omega
            rw [h3, h4, List.append_nil]
          rw [hcw, optR_some]
          have hfuel : added.toNat + 1 ≤ fuel := by
            unfold pageFuel at hf
            rw [if_neg (by omega)] at hf
            omega
          have hlen : ((pagesL s ++ List.replicate added.toNat ([] : List Rat)).take added.toNat).length = added.toNat := by
            simp [length_pagesL]
          rw [page_loop1 added ((pagesL s ++ List.replicate added.toNat ([] : List Rat)).take added.toNat) [] (pagesL s) _ 0 fuel (by simp) rfl (by rw [hlen]; omega) (by rw [hlen]; exact hfuel)]
          simp only [Loop.elim_done, hlen, List.nil_append]
          refine fetch_upd s _ cap p _ _ _ (gen_pageLen s cap) rfl rfl rfl ?_ rfl
          simp [pagesL]
    · rw [if_neg hlt, page_out_right _ _ _ hc hlt]
      simp only [toGen_minPageIndex, toGen_pages, len_pagesL]
      generalize hadd : PStore.newPagesLen (p - s.minPageIndex + 1) - (s.pages.size : Int) = added
      by_cases hneg : added < 0
      · rw [if_pos hneg]
        have : GoSem.mkSlice added ([] : List Rat) = none := by unfold GoSem.mkSlice; rw [if_pos hneg]
        rw [this]; rfl
      · rw [if_neg hneg]
        have hmk : GoSem.mkSlice added ([] : List Rat) = some (List.replicate added.toNat []) := by
          unfold GoSem.mkSlice; rw [if_neg hneg]
        rw [hmk, optR_some]
        refine fetch_upd s _ cap p _ _ _ (gen_pageLen s cap) rfl rfl rfl ?_ rfl
        simp [pagesL]

/-- **`page`** = the model's `page`, for every store, capacity, page index and flag; `pageFuel s p` suffices
    (the statement of `PageSpec` is true as stated) -/
theorem page_spec : PageSpec := by
  intro s cap p e fuel hf
  by_cases h : s.minPageIndex ≤ p ∧ p < s.minPageIndex + (s.pages.size : Int)
  · exact page_spec_in s cap p e fuel h
  · exact page_spec_out s cap p e fuel hf h

/-! ### constructor, `IsEmpty`, `TotalCount` -/

section observers
open Gen.Paginated

theorem new_spec : NewBufferedPaginatedStore = toGen PStore.new 4 := by
  rfl

/-! ### `IsEmpty` -/

theorem isEmpty_loop2 (l : List Rat) (u : Unit) :
    BufferedPaginatedStore.IsEmpty.loop2 l u = if l.all (fun c => !(c > 0)) then .done () else .ret false := by
  induction l with
  | nil => rfl
  | cons c r ih =>
    unfold BufferedPaginatedStore.IsEmpty.loop2
    by_cases hc : (0 : Rat) < c
    · simp [hc]
    · simp [hc, ih]

theorem isEmpty_loop1 (ls : List (List Rat)) (u : Unit) :
    BufferedPaginatedStore.IsEmpty.loop1 ls u
      = if ls.all (fun l => l.all (fun c => !(c > 0))) then .done () else .ret false := by
  induction ls with
  | nil => rfl
  | cons l r ih =>
    unfold BufferedPaginatedStore.IsEmpty.loop1
    dsimp only
    rw [isEmpty_loop2]
    by_cases hl : l.all (fun c => !(c > 0)) = true
    · simp only [hl, if_true, List.all_cons, Bool.true_and]
      exact ih
    · simp only [hl, List.all_cons, Bool.false_and, Bool.false_eq_true, if_false]
      rfl

theorem isEmpty_spec (s : PStore) (cap : Int) (fuel : Nat) :
    BufferedPaginatedStore.IsEmpty fuel (toGen s cap) = .ok s.isEmpty := by
  unfold BufferedPaginatedStore.IsEmpty PStore.isEmpty
  dsimp only
  rw [isEmpty_loop1]
  have hp : (toGen s cap).pages.all (fun l => l.all (fun c => !(c > 0)))
      = s.pages.all (fun pg => pg.all (fun c => !(c > 0))) := by
    rw [toGen_pages]
    unfold pagesL
    rw [← Array.all_toList, List.all_map]
    congr 1
    funext pg; exact Array.all_toList
  rw [hp]
  by_cases hb : s.buffer = []
  · have h1 : ¬ ((0 : Int) < GoSem.len (toGen s cap).buffer) := by
      rw [toGen_buffer, hb]; simp [GoSem.len]
    rw [decide_eq_false h1, hb]
    simp only [Bool.false_eq_true, if_false, List.isEmpty_nil, Bool.true_and]
    cases s.pages.all (fun pg => pg.all (fun c => !(c > 0))) <;> rfl
  · have h1 : ((0 : Int) < GoSem.len (toGen s cap).buffer) := by
      rw [toGen_buffer]; unfold GoSem.len
      have := List.length_pos_iff.mpr hb; omega
    rw [decide_eq_true h1, if_pos rfl]
    have : s.buffer.isEmpty = false := by simpa using hb
    rw [this]; rfl

/-! ### `TotalCount` -/

theorem totalCount_loop2 (l : List Rat) (acc : Rat) :
    BufferedPaginatedStore.TotalCount.loop2 l acc = .done (l.foldl (· + ·) acc) := by
  induction l generalizing acc with
  | nil => rfl
  | cons c r ih => unfold BufferedPaginatedStore.TotalCount.loop2; exact ih _

theorem totalCount_loop1 (ls : List (List Rat)) (acc : Rat) :
    BufferedPaginatedStore.TotalCount.loop1 ls acc = .done (ls.foldl (fun acc l => l.foldl (· + ·) acc) acc) := by
  induction ls generalizing acc with
  | nil => rfl
  | cons c r ih =>
    unfold BufferedPaginatedStore.TotalCount.loop1
    rw [totalCount_loop2]; exact ih _

theorem totalCount_spec (s : PStore) (cap : Int) (fuel : Nat) :
    BufferedPaginatedStore.TotalCount fuel (toGen s cap) = .ok s.totalCount := by
  unfold BufferedPaginatedStore.TotalCount PStore.totalCount
  simp only [toGen_buffer, toGen_pages, totalCount_loop1, Loop.elim_done, GoSem.len]
  congr 1
  unfold pagesL
  rw [List.foldl_map, ← Array.foldl_toList]
  congr 1
  · funext acc pg; rw [Array.foldl_toList]

end observers

section mutators
open Gen.Paginated

/-! ### `Clear` -/

theorem clear_loop1 (rest : List (List Rat)) :
    ∀ (pre : List (List Rat)) (g : GP) (i : Int), g.pages = pre ++ rest → (pre.length : Int) = i →
      BufferedPaginatedStore.Clear.loop1 rest i g
        = .done { g with pages := pre ++ rest.map (fun _ => ([] : List Rat)) } := by
  induction rest with
  | nil =>
    intro pre g i hp hi
    unfold BufferedPaginatedStore.Clear.loop1
    simp only [List.map_nil]; rw [← hp]
  | cons x r ih =>
    intro pre g i hp hi
    unfold BufferedPaginatedStore.Clear.loop1
    have hidx : GoSem.idx g.pages i = some x := by
      unfold GoSem.idx; rw [if_neg (by omega), hp, ← hi]; simp
    have hsl : GoSem.sliceTo x 0 = some [] := by
      unfold GoSem.sliceTo; rw [if_neg (by omega)]; simp
    have hset : GoSem.set g.pages i ([] : List Rat) = some ((pre ++ [[]]) ++ r) := by
      unfold GoSem.set
      rw [if_neg (by rw [hp]; simp; omega), hp, ← hi]
      simp
    rw [hidx, optL_some, hsl, optL_some, hset, optL_some]
    rw [ih (pre ++ [[]]) _ (i + 1) rfl (by simp; omega)]
    simp

theorem clear_spec (s : PStore) (cap : Int) (fuel : Nat) :
    BufferedPaginatedStore.Clear fuel (toGen s cap) = .ok (toGen s.clear cap) := by
  unfold BufferedPaginatedStore.Clear
  have hsl : GoSem.sliceTo (toGen s cap).buffer 0 = some [] := by
    unfold GoSem.sliceTo; rw [if_neg (by omega)]; simp
  rw [hsl, optR_some]
  dsimp only
  rw [clear_loop1 (toGen s cap).pages [] _ 0 ?_ rfl]
  · simp only [Loop.elim_done, List.nil_append]
    congr 1
    unfold PStore.clear toGen pagesL
    simp only [maxInt, Array.toList_map, List.map_map]
    congr 1
  · rfl

/-! ### `Copy` -/

theorem copySlice_replicate {α : Type} (l : List α) (z : α) : GoSem.copySlice (List.replicate l.length z) l = l := by
  unfold GoSem.copySlice
  simp

theorem copy_loop1 (rest : List (List Rat)) :
    ∀ (pre : List (List Rat)) (i : Int), (pre.length : Int) = i →
      BufferedPaginatedStore.Copy.loop1 rest i (pre ++ List.replicate rest.length ([] : List Rat))
        = .done (pre ++ rest) := by
  induction rest with
  | nil => intro pre i hi; rfl
  | cons x r ih =>
    intro pre i hi
    unfold BufferedPaginatedStore.Copy.loop1
    by_cases hx : (0 : Int) < GoSem.len x
    · rw [if_pos (by simpa using hx)]
      have hmk : GoSem.mkSlice (GoSem.len x) (0 : Rat) = some (List.replicate x.length 0) := by
        unfold GoSem.mkSlice GoSem.len; rw [if_neg (by omega)]; simp
      have hset : GoSem.set (pre ++ List.replicate (x :: r).length ([] : List Rat)) i x
          = some ((pre ++ [x]) ++ List.replicate r.length ([] : List Rat)) := by
        unfold GoSem.set
        rw [if_neg (by simp; omega), ← hi]
        simp [List.replicate_succ]
      rw [hmk, optL_some]
      dsimp only
      rw [copySlice_replicate, hset, optL_some, ih (pre ++ [x]) (i + 1) (by simp; omega)]
      simp
    · rw [if_neg (by simpa using hx)]
      have hnil : x = [] := by
        unfold GoSem.len at hx
        exact List.eq_nil_of_length_eq_zero (by omega)
      subst hnil
      have : pre ++ List.replicate ([] :: r).length ([] : List Rat) = (pre ++ [[]]) ++ List.replicate r.length [] := by
        simp [List.replicate_succ]
      rw [this, ih (pre ++ [[]]) (i + 1) (by simp; omega)]
      simp

theorem copy_spec (s : PStore) (cap : Int) (fuel : Nat) :
    BufferedPaginatedStore.Copy fuel (toGen s cap) = .ok (toGen s (s.buffer.length : Int)) := by
  unfold BufferedPaginatedStore.Copy
  have hmk : GoSem.mkSlice (GoSem.len (toGen s cap).buffer) (0 : Int) = some (List.replicate s.buffer.length 0) := by
    unfold GoSem.mkSlice GoSem.len; rw [if_neg (by omega)]; simp
  have hmk2 : GoSem.mkSlice (GoSem.len (toGen s cap).pages) ([] : List Rat)
      = some ([] ++ List.replicate (pagesL s).length []) := by
    unfold GoSem.mkSlice GoSem.len; rw [if_neg (by omega)]; simp
  rw [hmk, optR_some]
  dsimp only
  rw [hmk2, optR_some, toGen_pages, copy_loop1 _ [] 0 rfl, toGen_buffer, copySlice_replicate]
  simp only [Loop.elim_done, List.nil_append, GoSem.len]
  rfl

end mutators

end DDS.GenPag
