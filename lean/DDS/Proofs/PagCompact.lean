/-
  DDS.Proofs.PagCompact — `PStore.compact` preserves the abstraction.

  The abstraction of a paginated store is determined by the function
      j ↦ (weight the page lines carry at index j) + (number of occurrences of j in the buffer)
  (`lookup_abs`), because `abs` is built with `Content.add` and is therefore in weak canonical form
  (`NZ`: increasing keys, non-zero weights — extensional, `ext_nz`).  `compact` moves buffered
  entries into page lines of the same index, or keeps them; allocating / extending / materialising
  pages moves no weight.  Core Lean only.
-/
import DDS.Proofs.SpecSketch

namespace DDS
namespace Content

/-! ## weak canonical form: extensionality without positivity -/

/-- strictly increasing keys, non-zero weights -/
def NZ (m : Content) : Prop := Sorted m ∧ ∀ p ∈ m, p.2 ≠ 0

theorem nz_nil : NZ [] := ⟨trivial, by simp⟩

theorem nz_cons (p : Int × Rat) (rest : Content) :
    NZ (p :: rest) ↔ p.2 ≠ 0 ∧ (∀ q ∈ rest, p.1 < q.1) ∧ NZ rest := by
  simp only [NZ, sorted_cons, List.mem_cons, forall_eq_or_imp]
  constructor
  · rintro ⟨⟨h1, h2⟩, h3, h4⟩; exact ⟨h3, h1, h2, h4⟩
  · rintro ⟨h3, h1, h2, h4⟩; exact ⟨⟨h1, h2⟩, h3, h4⟩

theorem nonzero_add (m : Content) (i : Int) (w : Rat) (h : ∀ p ∈ m, p.2 ≠ 0) :
    ∀ p ∈ m.add i w, p.2 ≠ 0 := by
  induction m with
  | nil =>
    rw [add_nil]; split
    · simp
    · simp; grind
  | cons q rest ih =>
    have hq : q.2 ≠ 0 := h q (List.mem_cons_self ..)
    have hr : ∀ p ∈ rest, p.2 ≠ 0 := fun p hp => h p (List.mem_cons_of_mem _ hp)
    rw [add_cons]
    split
    · exact h
    · split
      · intro p hp
        rcases List.mem_cons.1 hp with rfl | hp
        · simp only; grind
        · exact h p hp
      · split
        · split
          · exact hr
          · intro p hp
            rcases List.mem_cons.1 hp with rfl | hp
            · simp only; grind
            · exact hr p hp
        · intro p hp
          rcases List.mem_cons.1 hp with rfl | hp
          · exact hq
          · exact ih hr p hp

theorem nz_add (m : Content) (i : Int) (w : Rat) (h : NZ m) : NZ (m.add i w) :=
  ⟨sorted_add m i w h.1, nonzero_add m i w h.2⟩

theorem nz_merge (a : Content) (l : List (Int × Rat)) (h : NZ a) : NZ (a.merge l) := by
  induction l generalizing a with
  | nil => exact h
  | cons q l ih => rw [merge_cons]; exact ih _ (nz_add a q.1 q.2 h)

theorem ext_nz (a b : Content) (ha : NZ a) (hb : NZ b) (h : ∀ j, a.lookup j = b.lookup j) :
    a = b := by
  induction a generalizing b with
  | nil =>
    cases b with
    | nil => rfl
    | cons q rb =>
      have := h q.1
      have h1 := lookup_of_mem_sorted _ hb.1 q (List.mem_cons_self ..)
      have h2 := hb.2 q (List.mem_cons_self ..)
      simp only [lookup_nil] at this
      grind
  | cons p ra ih =>
    cases b with
    | nil =>
      have := h p.1
      have h1 := lookup_of_mem_sorted _ ha.1 p (List.mem_cons_self ..)
      have h2 := ha.2 p (List.mem_cons_self ..)
      simp only [lookup_nil] at this
      grind
    | cons q rb =>
      obtain ⟨hp, hpl, hra⟩ := (nz_cons p ra).1 ha
      obtain ⟨hq, hql, hrb⟩ := (nz_cons q rb).1 hb
      have ha0 := lookup_eq_zero_of_lt ra p.1 hpl
      have hb0 := lookup_eq_zero_of_lt rb q.1 hql
      have hk : p.1 = q.1 := by
        rcases Int.lt_trichotomy p.1 q.1 with hlt | heq | hgt
        · exfalso
          have h1 := h p.1
          have : lookup rb p.1 = 0 :=
            lookup_eq_zero_of_lt rb p.1 (fun x hx => Int.lt_trans hlt (hql x hx))
          have hne : q.1 ≠ p.1 := by omega
          simp only [lookup_cons, if_true, ha0, this, if_neg hne] at h1
          grind
        · exact heq
        · exfalso
          have h1 := h q.1
          have : lookup ra q.1 = 0 :=
            lookup_eq_zero_of_lt ra q.1 (fun x hx => Int.lt_trans hgt (hpl x hx))
          have hne : p.1 ≠ q.1 := by omega
          simp only [lookup_cons, if_true, hb0, this, if_neg hne] at h1
          grind
      have hw : p.2 = q.2 := by
        have h1 := h p.1
        rw [hk] at ha0
        simp only [lookup_cons, hk, if_true, ha0, hb0] at h1
        grind
      have hpq : p = q := Prod.ext hk hw
      subst hpq
      congr 1
      apply ih rb hra hrb
      intro j
      have h1 := h j
      simp only [lookup_cons] at h1
      grind

/-- adding the same multiset of `(index, weight)` pairs — of ANY sign — in a different order yields
    the same content, from any start in weak canonical form -/
theorem foldl_add_perm_nz (a : Content) (ha : NZ a) {l₁ l₂ : List (Int × Rat)} (h : l₁.Perm l₂) :
    l₁.foldl (fun acc p => acc.add p.1 p.2) a = l₂.foldl (fun acc p => acc.add p.1 p.2) a := by
  show a.merge l₁ = a.merge l₂
  apply ext_nz _ _ (nz_merge a l₁ ha) (nz_merge a l₂ ha)
  intro j
  rw [lookup_merge, lookup_merge, lookup_perm h j]

theorem lookup_all_zero (l : List (Int × Rat)) (h : ∀ p ∈ l, p.2 = 0) (j : Int) : lookup l j = 0 := by
  induction l with
  | nil => rfl
  | cons p l ih =>
    have h1 := h p (List.mem_cons_self ..)
    have h2 := ih (fun q hq => h q (List.mem_cons_of_mem _ hq))
    simp only [lookup_cons, h1, h2]; grind

end Content

namespace PagCompact
open Content PStore

/-! ## page lines, list level -/

/-- the lines of the page with page index `P`, from line `l0` on (`n` = page length) -/
def linesAt (n : Nat) (P : Int) (pg : List Rat) (l0 : Nat) : List (Int × Rat) :=
  (pg.zipIdx l0).map fun (c, l) => (P * (n : Int) + (l : Int), c)

/-- the lines of the pages `L`, the first of which sits at slot `k0` (`mp` = `minPageIndex`) -/
def plines (n : Nat) (mp : Int) (L : List (Array Rat)) (k0 : Nat) : List (Int × Rat) :=
  (L.zipIdx k0).flatMap fun (pg, off) => linesAt n (mp + (off : Int)) pg.toList 0

theorem pageLines_eq (s : PStore) : s.pageLines = plines s.pageLen s.minPageIndex s.pages.toList 0 := rfl

@[simp] theorem linesAt_nil (n : Nat) (P : Int) (l0 : Nat) : linesAt n P [] l0 = [] := rfl

theorem linesAt_cons (n : Nat) (P : Int) (c : Rat) (pg : List Rat) (l0 : Nat) :
    linesAt n P (c :: pg) l0 = (P * (n : Int) + (l0 : Int), c) :: linesAt n P pg (l0 + 1) := by
  simp [linesAt, List.zipIdx_cons]

@[simp] theorem plines_nil (n : Nat) (mp : Int) (k0 : Nat) : plines n mp [] k0 = [] := rfl

theorem plines_cons (n : Nat) (mp : Int) (pg : Array Rat) (L : List (Array Rat)) (k0 : Nat) :
    plines n mp (pg :: L) k0 = linesAt n (mp + (k0 : Int)) pg.toList 0 ++ plines n mp L (k0 + 1) := by
  simp [plines, List.zipIdx_cons]

theorem plines_append (n : Nat) (mp : Int) (L₁ L₂ : List (Array Rat)) (k0 : Nat) :
    plines n mp (L₁ ++ L₂) k0 = plines n mp L₁ k0 ++ plines n mp L₂ (k0 + L₁.length) := by
  simp [plines, List.zipIdx_append]

/-- moving the origin: slot numbers up by `d`, `minPageIndex` down by `d` -/
theorem plines_shift (n : Nat) (mp : Int) (L : List (Array Rat)) (k0 d : Nat) :
    plines n (mp - (d : Int)) L (k0 + d) = plines n mp L k0 := by
  induction L generalizing k0 with
  | nil => rfl
  | cons pg L ih =>
    rw [plines_cons, plines_cons, show k0 + d + 1 = (k0 + 1) + d by omega, ih]
    congr 2
    omega

theorem plines_all_empty (n : Nat) (mp : Int) (L : List (Array Rat)) (k0 : Nat)
    (h : ∀ pg ∈ L, pg.size = 0) : plines n mp L k0 = [] := by
  induction L generalizing k0 with
  | nil => rfl
  | cons pg L ih =>
    have : pg = #[] := Array.size_eq_zero_iff.1 (h pg (List.mem_cons_self ..))
    subst this
    rw [plines_cons, ih _ (fun q hq => h q (List.mem_cons_of_mem _ hq))]
    rfl

theorem plines_replicate_empty (n : Nat) (mp : Int) (m k0 : Nat) :
    plines n mp (List.replicate m #[]) k0 = [] :=
  plines_all_empty n mp _ k0 (by intro pg hpg; rw [(List.mem_replicate.1 hpg).2]; rfl)

/-- `line += v` inside one page -/
theorem lookup_linesAt_set (n : Nat) (P : Int) (pg : List Rat) (l0 line : Nat) (v : Rat)
    (h : line < pg.length) (j : Int) :
    lookup (linesAt n P (pg.set line v) l0) j =
      lookup (linesAt n P pg l0) j +
        (if P * (n : Int) + ((l0 + line : Nat) : Int) = j then v - pg[line] else 0) := by
  induction pg generalizing l0 line with
  | nil => simp at h
  | cons c pg ih =>
    cases line with
    | zero =>
      simp only [List.set_cons_zero, linesAt_cons, lookup_cons, List.getElem_cons_zero, Nat.add_zero]
      grind
    | succ line =>
      simp only [List.set_cons_succ, linesAt_cons, lookup_cons, List.getElem_cons_succ]
      rw [ih (l0 + 1) line (by simpa using h)]
      rw [show l0 + 1 + line = l0 + (line + 1) by omega]
      grind

/-- replacing the page at slot `k` -/
theorem lookup_plines_set (n : Nat) (mp : Int) (L : List (Array Rat)) (k0 k : Nat) (pg' : Array Rat)
    (h : k < L.length) (j : Int) :
    lookup (plines n mp (L.set k pg') k0) j =
      lookup (plines n mp L k0) j
        - lookup (linesAt n (mp + ((k0 + k : Nat) : Int)) L[k].toList 0) j
        + lookup (linesAt n (mp + ((k0 + k : Nat) : Int)) pg'.toList 0) j := by
  induction L generalizing k0 k with
  | nil => simp at h
  | cons pg L ih =>
    cases k with
    | zero =>
      simp only [List.set_cons_zero, plines_cons, lookup_append, List.getElem_cons_zero, Nat.add_zero]
      grind
    | succ k =>
      simp only [List.set_cons_succ, plines_cons, lookup_append, List.getElem_cons_succ]
      rw [ih (k0 + 1) k (by simpa using h)]
      rw [show k0 + 1 + k = k0 + (k + 1) by omega]
      grind

theorem lookup_linesAt_zeros (n : Nat) (P : Int) (m l0 : Nat) (j : Int) :
    lookup (linesAt n P (List.replicate m 0) l0) j = 0 := by
  apply lookup_all_zero
  intro p hp
  simp only [linesAt, List.mem_map] at hp
  obtain ⟨⟨c, l⟩, hcl, rfl⟩ := hp
  have := (List.mem_zipIdx hcl).2.2
  simp at this
  exact this

/-! ## store level -/

/-- weight the page lines carry at index `j` -/
def plk (s : PStore) (j : Int) : Rat := lookup s.pageLines j

/-- number of occurrences of `j` in a list of buffered indexes, as a weight -/
def cnt (l : List Int) (j : Int) : Rat := lookup (l.map (fun i => (i, (1 : Rat)))) j

@[simp] theorem cnt_nil (j : Int) : cnt [] j = 0 := rfl

theorem cnt_cons (i : Int) (l : List Int) (j : Int) :
    cnt (i :: l) j = (if i = j then 1 else 0) + cnt l j := by
  simp [cnt]

theorem cnt_append (l₁ l₂ : List Int) (j : Int) : cnt (l₁ ++ l₂) j = cnt l₁ j + cnt l₂ j := by
  simp [cnt, lookup_append]

theorem cnt_perm {l₁ l₂ : List Int} (h : l₁.Perm l₂) (j : Int) : cnt l₁ j = cnt l₂ j :=
  lookup_perm (h.map _) j

theorem cnt_reverse (l : List Int) (j : Int) : cnt l.reverse j = cnt l j :=
  cnt_perm (List.reverse_perm l) j

theorem abs_eq_merge (s : PStore) :
    s.abs = (Content.merge [] s.pageLines).merge (s.buffer.map (fun i => (i, (1 : Rat)))) := by
  unfold PStore.abs Content.merge
  rw [List.foldl_map]

theorem nz_abs (s : PStore) : NZ s.abs := by
  rw [abs_eq_merge]; exact nz_merge _ _ (nz_merge _ _ nz_nil)

/-- the abstraction, pointwise -/
theorem lookup_abs (s : PStore) (j : Int) : lookup s.abs j = plk s j + cnt s.buffer j := by
  rw [abs_eq_merge, lookup_merge, lookup_merge, lookup_nil]
  unfold plk cnt
  grind

/-- two stores with the same pointwise weights have the same abstraction -/
theorem abs_ext (s t : PStore) (h : ∀ j, plk s j + cnt s.buffer j = plk t j + cnt t.buffer j) :
    s.abs = t.abs :=
  ext_nz _ _ (nz_abs s) (nz_abs t) (fun j => by rw [lookup_abs, lookup_abs, h j])

/-- the invariant `compact` relies on: `minPageIndex = maxInt` is the "no page in use" sentinel -/
structure PInv (s : PStore) : Prop where
  le : s.minPageIndex ≤ maxInt
  sentinel : s.minPageIndex = maxInt → ∀ pg ∈ s.pages, pg.size = 0

theorem pinv_new : PInv PStore.new := ⟨Int.le_refl _, fun _ pg h => by simp [PStore.new] at h⟩

theorem pinv_clear (s : PStore) : PInv s.clear :=
  ⟨Int.le_refl _, fun _ pg h => by
    simp only [PStore.clear, Array.mem_map] at h
    obtain ⟨_, _, rfl⟩ := h
    rfl⟩

theorem pinv_of_lt (s : PStore) (h : s.minPageIndex < maxInt) : PInv s :=
  ⟨Int.le_of_lt h, fun h' => by omega⟩

theorem plk_all_empty (s : PStore) (h : ∀ pg ∈ s.pages, pg.size = 0) (j : Int) : plk s j = 0 := by
  unfold plk
  rw [pageLines_eq, plines_all_empty _ _ _ _ (fun pg hpg => h pg (Array.mem_def.2 hpg))]
  rfl

theorem getD_toList (a : Array (Array Rat)) (k : Nat) (h : k < a.size) :
    a.getD k #[] = a.toList[k]'(by simpa using h) := by
  rw [Array.getD_eq_getD_getElem?, Array.getElem?_eq_getElem h]
  simp

/-- putting a page of zeros into an empty slot moves no weight -/
theorem materialize_plk (s : PStore) (k : Nat) (j : Int) : plk (s.materialize k) j = plk s j := by
  unfold materialize
  split
  · rename_i hsz
    by_cases hk : k < s.pages.size
    · unfold plk
      simp only [pageLines_eq]
      show lookup (plines s.pageLen s.minPageIndex (s.pages.setIfInBounds k s.zeroPage).toList 0) j = _
      rw [Array.toList_setIfInBounds, lookup_plines_set _ _ _ _ _ _ (by simpa using hk)]
      have h1 : s.pages.toList[k]'(by simpa using hk) = #[] := by
        rw [← getD_toList _ _ hk]; exact Array.size_eq_zero_iff.1 hsz
      rw [h1]
      have h2 : s.zeroPage.toList = List.replicate s.pageLen 0 := by
        simp [zeroPage]
      rw [h2, lookup_linesAt_zeros]
      simp only [linesAt_nil, lookup_nil]
      grind
    · have : s.pages.setIfInBounds k s.zeroPage = s.pages :=
        Array.setIfInBounds_eq_of_size_le (by omega)
      simp only [this]
  · rfl

theorem materialize_frame (s : PStore) (k : Nat) :
    (s.materialize k).minPageIndex = s.minPageIndex ∧
      (s.materialize k).pageLenLog2 = s.pageLenLog2 ∧
      (s.materialize k).pages.size = s.pages.size := by
  unfold materialize
  split
  · exact ⟨rfl, rfl, by simp⟩
  · exact ⟨rfl, rfl, rfl⟩

/-- `pages[k][line] += c` adds `c` at the index of that line -/
theorem addAtPage_spec (s s' : PStore) (k line : Nat) (c : Rat) (h : s.addAtPage k line c = some s') :
    (∀ j, plk s' j = plk s j + (if s.index (s.minPageIndex + (k : Int)) line = j then c else 0)) ∧
      s'.minPageIndex = s.minPageIndex ∧ s'.pageLenLog2 = s.pageLenLog2 := by
  unfold addAtPage at h
  simp only at h
  split at h
  · rename_i hk
    obtain ⟨hk1, hk2⟩ := hk
    simp only [Option.some.injEq] at h
    subst h
    refine ⟨?_, rfl, rfl⟩
    intro j
    unfold plk
    simp only [pageLines_eq]
    show lookup (plines s.pageLen s.minPageIndex (s.pages.setIfInBounds k _).toList 0) j = _
    have hpg : s.pages.getD k #[] = s.pages.toList[k]'(by simpa using hk1) := getD_toList _ _ hk1
    rw [Array.toList_setIfInBounds, lookup_plines_set _ _ _ _ _ _ (by simpa using hk1),
      Array.toList_setIfInBounds, hpg]
    have hl : line < (s.pages.toList[k]'(by simpa using hk1)).toList.length := by
      rw [← hpg]; simpa using hk2
    rw [lookup_linesAt_set _ _ _ _ _ _ hl]
    have hv : (s.pages.toList[k]'(by simpa using hk1)).getD line 0
        = (s.pages.toList[k]'(by simpa using hk1)).toList[line]'hl := by
      rw [Array.getD_eq_getD_getElem?, Array.getElem?_eq_getElem (by simpa using hl)]
      simp
    rw [hv]
    simp only [index, Nat.zero_add]
    grind
  · simp at h

/-! ## `page`: allocating, extending and materialising pages moves no weight -/

structure PageOK (s s' : PStore) (p : Int) (k? : Option Nat) : Prop where
  plk : ∀ j, plk s' j = plk s j
  len : s'.pageLenLog2 = s.pageLenLog2
  inv : PInv s'
  slot : ∀ k, k? = some k → s'.minPageIndex + (k : Int) = p

theorem pinv_materialize (s : PStore) (k : Nat) (h : s.minPageIndex < maxInt) :
    PInv (s.materialize k) :=
  pinv_of_lt _ (by rw [(materialize_frame s k).1]; exact h)

/-- the common tail of `page`: materialise the slot of page `p` -/
theorem page_finish (s0 s2 s' : PStore) (p : Int) (k? : Option Nat)
    (hplk : ∀ j, plk s2 j = plk s0 j) (hlen : s2.pageLenLog2 = s0.pageLenLog2)
    (hlt : s2.minPageIndex < maxInt)
    (h : (if 0 ≤ p - s2.minPageIndex ∧ p - s2.minPageIndex < (s2.pages.size : Int) then
            some (s2.materialize (p - s2.minPageIndex).toNat, some (p - s2.minPageIndex).toNat)
          else none) = some (s', k?)) : PageOK s0 s' p k? := by
  split at h
  · rename_i hk
    simp only [Option.some.injEq, Prod.mk.injEq] at h
    obtain ⟨rfl, rfl⟩ := h
    refine ⟨fun j => by rw [materialize_plk, hplk], by rw [(materialize_frame _ _).2.1, hlen],
      pinv_materialize _ _ hlt, ?_⟩
    intro k hk'
    simp only [Option.some.injEq] at hk'
    rw [(materialize_frame _ _).1, ← hk']
    omega
  · simp at h

theorem page_spec (s s' : PStore) (p : Int) (ens : Bool) (k? : Option Nat) (hinv : PInv s)
    (hp : p < maxInt) (h : s.page p ens = some (s', k?)) : PageOK s s' p k? := by
  unfold page at h
  cases hs : s.slot? p with
  | some k =>
    simp only [hs] at h
    unfold slot? at hs
    split at hs
    · rename_i hc
      simp only [Option.some.injEq] at hs
      have hlt : s.minPageIndex < maxInt := by omega
      cases ens with
      | true =>
        simp only [↓reduceIte, Option.some.injEq, Prod.mk.injEq] at h
        obtain ⟨rfl, hk⟩ := h
        refine ⟨fun j => materialize_plk s k j, (materialize_frame s k).2.1,
          pinv_materialize s k hlt, ?_⟩
        intro k' hk'
        rw [hk'] at hk
        split at hk
        · simp at hk
        · simp only [Option.some.injEq] at hk
          rw [(materialize_frame s k).1]; omega
      | false =>
        simp only [Bool.false_eq_true, ↓reduceIte, Option.some.injEq, Prod.mk.injEq] at h
        obtain ⟨rfl, hk⟩ := h
        refine ⟨fun j => rfl, rfl, hinv, ?_⟩
        intro k' hk'
        rw [hk'] at hk
        split at hk
        · simp at hk
        · simp only [Option.some.injEq] at hk
          omega
    · simp at hs
  | none =>
    simp only [hs] at h
    cases ens with
    | false =>
      simp only [Bool.not_false, ↓reduceIte, Option.some.injEq, Prod.mk.injEq] at h
      obtain ⟨rfl, rfl⟩ := h
      exact ⟨fun j => rfl, rfl, hinv, fun k hk => by simp at hk⟩
    | true =>
      simp only [Bool.not_true, Bool.false_eq_true, ↓reduceIte] at h
      by_cases hlt : p < s.minPageIndex
      · simp only [if_pos hlt] at h
        by_cases hsent : s.minPageIndex = maxInt
        · simp only [if_pos hsent] at h
          have hempty := hinv.sentinel hsent
          -- the sentinel state: every page is empty, before and after
          by_cases hsz : s.pages.size = 0
          · simp only [if_pos hsz] at h
            refine page_finish s
              { s with pages := Array.replicate (newPagesLen 1).toNat #[],
                       minPageIndex := p - Int.tdiv ((Array.replicate (newPagesLen 1).toNat (#[] : Array Rat)).size : Int) 2 }
              s' p k? ?_ rfl ?_ h
            · intro j
              rw [plk_all_empty s hempty, plk_all_empty]
              intro pg hpg
              simp only [Array.mem_replicate] at hpg
              rw [hpg.2]; rfl
            · show p - Int.tdiv _ 2 < maxInt
              have : 0 ≤ Int.tdiv ((Array.replicate (newPagesLen 1).toNat (#[] : Array Rat)).size : Int) 2 :=
                Int.tdiv_nonneg (by omega) (by omega)
              omega
          · simp only [if_neg hsz] at h
            refine page_finish s
              { s with minPageIndex := p - Int.tdiv (s.pages.size : Int) 2 } s' p k? ?_ rfl ?_ h
            · intro j
              rw [plk_all_empty s hempty, plk_all_empty]
              exact hempty
            · show p - Int.tdiv _ 2 < maxInt
              have : 0 ≤ Int.tdiv (s.pages.size : Int) 2 := Int.tdiv_nonneg (by omega) (by omega)
              omega
        · simp only [if_neg hsent] at h
          have hmlt : s.minPageIndex < maxInt := by have := hinv.le; omega
          by_cases hadd : newPagesLen (s.minPageIndex - p + 1 + (s.pages.size : Int)) - (s.pages.size : Int) < 0
          · simp only [if_pos hadd] at h
            simp at h
          · simp only [if_neg hadd] at h
            refine page_finish s
              { s with pages := Array.replicate (newPagesLen (s.minPageIndex - p + 1 + (s.pages.size : Int)) - (s.pages.size : Int)).toNat #[] ++ s.pages,
                       minPageIndex := s.minPageIndex - (newPagesLen (s.minPageIndex - p + 1 + (s.pages.size : Int)) - (s.pages.size : Int)) }
              s' p k? ?_ rfl ?_ h
            · intro j
              unfold plk
              simp only [pageLines_eq]
              show lookup (plines s.pageLen _ (Array.replicate _ #[] ++ s.pages).toList 0) j = _
              rw [Array.toList_append, Array.toList_replicate, plines_append,
                plines_replicate_empty, List.nil_append, List.length_replicate]
              have := plines_shift s.pageLen s.minPageIndex s.pages.toList 0
                (newPagesLen (s.minPageIndex - p + 1 + (s.pages.size : Int)) - (s.pages.size : Int)).toNat
              rw [Int.toNat_of_nonneg (by omega)] at this
              rw [this]
            · show s.minPageIndex - _ < maxInt
              omega
      · simp only [if_neg hlt] at h
        by_cases hadd : newPagesLen (p - s.minPageIndex + 1) - (s.pages.size : Int) < 0
        · simp only [if_pos hadd] at h
          simp at h
        · simp only [if_neg hadd] at h
          have hmlt : s.minPageIndex < maxInt := by omega
          refine page_finish s
            { s with pages := s.pages ++ Array.replicate (newPagesLen (p - s.minPageIndex + 1) - (s.pages.size : Int)).toNat #[] }
            s' p k? ?_ rfl hmlt h
          intro j
          unfold plk
          simp only [pageLines_eq]
          show lookup (plines s.pageLen _ (s.pages ++ Array.replicate _ #[]).toList 0) j = _
          rw [Array.toList_append, Array.toList_replicate, plines_append,
            plines_replicate_empty, List.append_nil]

/-! ## the loop of `compact` -/

theorem pageLen_ne_zero (s : PStore) : (s.pageLen : Int) ≠ 0 := by
  have : 0 < s.pageLen := Nat.pow_pos (by decide)
  omega

/-- page index and line index address the entry itself -/
theorem index_line (s : PStore) (i : Int) : s.index (s.pageIndex i) (s.lineIndex i) = i := by
  unfold index pageIndex lineIndex
  rw [Int.toNat_of_nonneg (Int.emod_nonneg _ (pageLen_ne_zero s))]
  exact Int.ediv_mul_add_emod _ _

theorem pageIndex_congr (s t : PStore) (h : t.pageLenLog2 = s.pageLenLog2) (i : Int) :
    t.pageIndex i = s.pageIndex i := by
  unfold pageIndex pageLen; rw [h]

theorem lineIndex_congr (s t : PStore) (h : t.pageLenLog2 = s.pageLenLog2) (i : Int) :
    t.lineIndex i = s.lineIndex i := by
  unfold lineIndex pageLen; rw [h]

theorem spanPage_spec (s : PStore) (p : Int) (l : List Int) :
    (spanPage s p l).1 ++ (spanPage s p l).2 = l ∧ (∀ i ∈ (spanPage s p l).1, s.pageIndex i = p) ∧
      (spanPage s p l).2.length ≤ l.length := by
  induction l with
  | nil => simp [spanPage]
  | cons x xs ih =>
    unfold spanPage
    split
    · rename_i hx
      obtain ⟨h1, h2, h3⟩ := ih
      refine ⟨by simp only [List.cons_append, h1], ?_, by simp only [List.length_cons]; omega⟩
      intro i hi
      rcases List.mem_cons.1 hi with rfl | hi
      · exact hx
      · exact h2 i hi
    · simp

theorem spanPage_congr (s t : PStore) (h : t.pageLenLog2 = s.pageLenLog2) (p : Int) (l : List Int) :
    spanPage t p l = spanPage s p l := by
  induction l with
  | nil => rfl
  | cons x xs ih =>
    unfold spanPage
    rw [pageIndex_congr s t h, ih]

/-- adding the entries of one page group to the lines of that page -/
theorem addGroup_spec (grp : List Int) (s s'' : PStore) (k : Nat) (p : Int)
    (hslot : s.minPageIndex + (k : Int) = p) (hgrp : ∀ i ∈ grp, s.pageIndex i = p)
    (h : grp.foldlM (fun acc i => addAtPage acc k (acc.lineIndex i) 1) s = some s'') :
    (∀ j, plk s'' j = plk s j + cnt grp j) ∧ s''.minPageIndex = s.minPageIndex ∧
      s''.pageLenLog2 = s.pageLenLog2 := by
  induction grp generalizing s with
  | nil =>
    simp only [List.foldlM_nil, Option.pure_def, Option.some.injEq] at h
    subst h
    exact ⟨fun j => by simp only [cnt_nil]; grind, rfl, rfl⟩
  | cons i grp ih =>
    simp only [List.foldlM_cons, Option.bind_eq_bind, Option.bind_eq_some_iff] at h
    obtain ⟨s1, h1, h2⟩ := h
    obtain ⟨a1, a2, a3⟩ := addAtPage_spec s s1 k (s.lineIndex i) 1 h1
    have hpi : s.pageIndex i = p := hgrp i (List.mem_cons_self ..)
    obtain ⟨b1, b2, b3⟩ := ih s1 (by rw [a2]; exact hslot)
      (fun i' hi' => by rw [pageIndex_congr s s1 a3]; exact hgrp i' (List.mem_cons_of_mem _ hi')) h2
    refine ⟨?_, by rw [b2, a2], by rw [b3, a3]⟩
    intro j
    rw [b1, a1, cnt_cons, hslot, ← hpi, index_line]
    grind

theorem compactLoop_spec (fuel : Nat) (s : PStore) (xs kept : List Int) (s' : PStore)
    (out : List Int) (hinv : PInv s) (hb : ∀ i ∈ xs, s.pageIndex i < maxInt)
    (hf : xs.length < fuel) (h : compactLoop s fuel xs kept = some (s', out)) :
    (∀ j, plk s' j + cnt out j = plk s j + cnt xs j + cnt kept j) ∧
      s'.pageLenLog2 = s.pageLenLog2 := by
  induction fuel generalizing s xs kept with
  | zero => omega
  | succ fuel ih =>
    cases xs with
    | nil =>
      unfold compactLoop at h
      simp only [Option.some.injEq, Prod.mk.injEq] at h
      obtain ⟨rfl, rfl⟩ := h
      exact ⟨fun j => by rw [cnt_reverse, cnt_nil]; grind, rfl⟩
    | cons x xs =>
      unfold compactLoop at h
      obtain ⟨sp1, sp2, sp3⟩ := spanPage_spec s (s.pageIndex x) (x :: xs)
      have hx : s.pageIndex x < maxInt := hb x (List.mem_cons_self ..)
      have hgrp1 : ∃ g, (spanPage s (s.pageIndex x) (x :: xs)).1 = x :: g := by
        unfold spanPage; simp
      generalize hspan : spanPage s (s.pageIndex x) (x :: xs) = gr at h sp1 sp2 sp3 hgrp1
      obtain ⟨grp, rest⟩ := gr
      simp only at h sp1 sp2 sp3 hgrp1
      obtain ⟨g, hg⟩ := hgrp1
      have hrestlen : rest.length < fuel := by
        have : (grp ++ rest).length = (x :: xs).length := by rw [sp1]
        rw [hg] at this
        simp only [List.length_append, List.length_cons] at this hf
        omega
      have hrest : ∀ i ∈ rest, i ∈ x :: xs := by
        intro i hi; rw [← sp1]; exact List.mem_append_right _ hi
      have hcnt : ∀ j, cnt (x :: xs) j = cnt grp j + cnt rest j := by
        intro j; rw [← sp1, cnt_append]
      split at h
      · simp at h
      · rename_i s1 k hpage
        obtain ⟨p1, p2, p3, p4⟩ := page_spec s s1 _ _ _ hinv hx hpage
        have hslot := p4 k rfl
        split at h
        · simp at h
        · rename_i s2 hfold
          simp only [hspan] at hfold h
          obtain ⟨q1, q2, q3⟩ := addGroup_spec grp s1 s2 k _ hslot
            (fun i hi => by rw [pageIndex_congr s s1 p2]; exact sp2 i hi) hfold
          have hinv2 : PInv s2 := pinv_of_lt _ (by rw [q2]; omega)
          have hlen2 : s2.pageLenLog2 = s.pageLenLog2 := by rw [q3, p2]
          obtain ⟨r1, r2⟩ := ih s2 rest kept hinv2
            (fun i hi => by rw [pageIndex_congr s s2 hlen2]; exact hb i (hrest i hi)) hrestlen h
          refine ⟨?_, by rw [r2, hlen2]⟩
          intro j
          rw [r1, q1, p1, hcnt]
          grind
      · rename_i s1 hpage
        obtain ⟨p1, p2, p3, p4⟩ := page_spec s s1 _ _ _ hinv hx hpage
        simp only [hspan] at h
        obtain ⟨r1, r2⟩ := ih s1 rest (grp.reverse ++ kept) p3
          (fun i hi => by rw [pageIndex_congr s s1 p2]; exact hb i (hrest i hi)) hrestlen h
        refine ⟨?_, by rw [r2, p2]⟩
        intro j
        rw [r1, p1, hcnt, cnt_append, cnt_reverse]
        grind

/-- **`compact` preserves the abstraction** — when it does not panic, for a store that respects
    the sentinel convention and whose buffered entries lie on pages below the sentinel -/
theorem compact_abs (s s' : PStore) (hinv : PInv s) (hb : ∀ i ∈ s.buffer, s.pageIndex i < maxInt)
    (h : s.compact = some s') : s'.abs = s.abs := by
  unfold compact at h
  simp only [Option.bind_eq_bind, Option.bind_eq_some_iff] at h
  obtain ⟨⟨s1, kept⟩, hloop, h⟩ := h
  simp only [Option.pure_def, Option.some.injEq] at h
  subst h
  have hperm : (sortInts s.buffer).Perm s.buffer := List.mergeSort_perm _ _
  obtain ⟨r1, _⟩ := compactLoop_spec _ s (sortInts s.buffer) [] s1 kept hinv
    (fun i hi => hb i (hperm.mem_iff.1 hi)) (Nat.lt_succ_self _) hloop
  apply abs_ext
  intro j
  have := r1 j
  rw [cnt_perm hperm j, cnt_nil] at this
  show plk s1 j + cnt kept j = _
  rw [this]
  grind

end PagCompact
end DDS
