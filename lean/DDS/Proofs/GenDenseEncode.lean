/-
  DDS.Proofs.GenDenseEncode — the REGENERATED binary encoder of the dense stores
  (`DDS.Gen.Dense.DenseStore.Encode`, `encodeDensely`, `encodeSparsely` in
  `DDS/Generated/CodeDense.lean`, translated from `/repo/ddsketch/store/dense_store.go` on every run;
  the two collapsing stores use it through the embedded `DenseStore`) writes exactly the bytes of the
  blocks that the HAND-WRITTEN model `DDS.Sketch.encodeDense` produces.

  1. codecs and sizes that had no equivalence theorem yet: `EncodeVarfloat64_eq`,
     `Uvarint64Size_eq`, `Varint64Size_eq/_ofInt`, `Varfloat64Size_eq`; the two size tables
     (`uvarint64Sizes`, `varfloat64Sizes`: `Res` values computed by the translated initialisers on
     `GoSem.initFuel`) are evaluated once by the kernel (`uvarint64Sizes_eval`, `varfloat64Sizes_eval`).
  2. `encodeDensely_eq`: flag, `numBins`, `minIndex`, stride 1, every count of the window.
  3. `encodeSparsely_eq`: flag, `numNonEmptyBins`, (index delta from the previous non-empty index
     starting at 0, count) for every non-zero count of the window.
  4. `sizeLoop`: the size loop `Encode.loop1` computes the model's three quantities.
  5. `Encode_rel` (main theorem, `minIndex ≤ maxIndex`), `Encode_inverted` (a non-empty store whose
     window is inverted), `Encode_empty`, and their union `Encode_rel'`; the directions `Encode_ok`,
     `Encode_panic`, `Encode_ok_iff` (panic ⇔ model `none`; never `.nofuel`), the `List Nat` form
     `Encode_nb`, the two flag types `Encode_pos` / `Encode_neg`.
     Corollaries with the model's C06 theorems: `DDS/Props/C06Gen.lean`.

  FUEL.  `encodeFuel s = (s.maxIndex - s.minIndex + 1).toNat + 10`: the width of the window for the
  loops, plus what a codec called from inside the last iteration still needs (9).

  HYPOTHESES of the main theorem (`EncRange s`, asked only of a non-empty store in `Encode_rel'`),
  none about the bins themselves:
  * `-(2^63) ≤ s.minIndex`, `s.maxIndex < 2^63`: Go converts with `int64(s.minIndex)` and (first
    sparse delta, from 0) `int64(index)`; the model's `varint64Size/encVarint64` take the unbounded
    `Int`.  Outside the range Go wraps around and the model does not.
  * `s.maxIndex - s.minIndex < 2^63`: the deltas `int64(index - previousIndex)` and
    `uint64(s.maxIndex - s.minIndex) + 1` (the model writes `counts.length`, unbounded).
  * `s.minIndex ≤ s.maxIndex` (only `Encode_rel`; the other case is `Encode_inverted`).
  No hypothesis about the weights: `F64.fin w` crosses into the float codecs for every rational.

  DISAGREEMENTS: none within these hypotheses (same layout chosen, same bytes, same panic).  Two
  observations, neither a defect of the Go code:
  * inverted window of a non-empty store: the dense SIZES differ (model `numBins = 1`, Go
    `uint64(maxIndex - minIndex) + 1`), the outcome does not (`Encode_inverted`);
  * outside `EncRange` the bytes differ (section 6): an artefact of `GoSem`'s unbounded `int`.
-/
import DDS.Proofs.GenDenseBase
import DDS.Proofs.GenEncoding
import DDS.Proofs.RoundTrip

namespace DDS.GenDenseEncode

open DDS DDS.GoSem DDS.Gen.Encoding DDS.Codec DDS.Props.C18Bits DDS.GenEncoding DDS.GenDense
open DDS.DStore (rd irange idxRange idxRange_eq irange_zero irange_succ_left)
open DDS.RoundTrip (deltaRec delta_foldl deltaRec_length)

/-! ### small list / byte helpers -/

theorem bn_append (a b : List Nat) : bn (a ++ b) = bn a ++ bn b := by simp [bn]

theorem idx_nat {α} (l : List α) (k : Nat) : GoSem.idx l (k : Int) = l[k]? := by
  unfold GoSem.idx
  rw [if_neg (by omega), Int.toNat_natCast]

/-! ### 1a. the size tables, evaluated once -/

/-- both tables of `encoding.go` hold these 65 numbers -/
def sizeTable : List Int :=
  [9, 9, 9, 9, 9, 9, 9, 9, 8, 8, 8, 8, 8, 8, 8, 7, 7, 7, 7, 7, 7, 7, 6, 6, 6, 6, 6, 6, 6,
   5, 5, 5, 5, 5, 5, 5, 4, 4, 4, 4, 4, 4, 4, 3, 3, 3, 3, 3, 3, 3, 2, 2, 2, 2, 2, 2, 2,
   1, 1, 1, 1, 1, 1, 1, 1]

def resEq (r : Res (List Int)) (l : List Int) : Bool :=
  match r with
  | .ok l' => l' == l
  | _ => false

theorem resEq_sound {r : Res (List Int)} {l : List Int} (h : resEq r l = true) : r = .ok l := by
  cases r with
  | ok l' => simp only [resEq, beq_iff_eq] at h; rw [h]
  | panic => cases h
  | nofuel => cases h

/-- `var uvarint64Sizes = initUvarint64Sizes()` -/
theorem uvarint64Sizes_eval : uvarint64Sizes = .ok sizeTable := resEq_sound (by decide +kernel)

/-- `var varfloat64Sizes = initVarfloat64Sizes()` (through the float model: `Float64frombits(…) - 1`,
    then `+ 1` and `Float64bits` again inside `EncodeVarfloat64`) -/
theorem varfloat64Sizes_eval : varfloat64Sizes = .ok sizeTable := resEq_sound (by decide +kernel)

/-- the model's table of uvarint sizes is the same list -/
theorem sizeTable_uvarint : ∀ i, i < 65 → sizeTable[i]? = some ((uvarintSizeTable i : Nat) : Int) := by
  decide +kernel

/-- the model's table of varfloat sizes is the same list -/
theorem sizeTable_varfloat : ∀ i, i < 65 → sizeTable[i]? = some ((varfloatSizeTable i : Nat) : Int) := by
  decide +kernel

theorem lzcnt64_le (v : Nat) : lzcnt64 v ≤ 64 := by
  unfold lzcnt64; split <;> omega

theorem tzcnt64_le (v : Nat) : tzcnt64 v ≤ 64 := by
  unfold tzcnt64
  split
  · omega
  · cases h : (List.range 64).find? (fun i => decide (v / 2 ^ i % 2 = 1)) with
    | none => simp
    | some t =>
      have := List.mem_of_find?_eq_some h
      simp only [List.mem_range] at this
      simp only [Option.getD_some]
      omega

/-! ### 1b. `Uvarint64Size`, `Varint64Size` -/

/-- **1.** `Uvarint64Size` is the model's `uvarint64Size` (any fuel: the function has no loop) -/
theorem Uvarint64Size_eq (fuel : Nat) (v : BitVec 64) :
    Uvarint64Size fuel v = .ok ((uvarint64Size v.toNat : Nat) : Int) := by
  unfold Uvarint64Size GoSem.leadingZeros64
  rw [uvarint64Sizes_eval, Res.bind_ok, idx_nat, lzcnt64_bits,
    sizeTable_uvarint _ (by have := lzcnt64_le v.toNat; omega), optR_some]
  rfl

/-- **1.** `Varint64Size` on the `int64` word `v` -/
theorem Varint64Size_eq (fuel : Nat) (v : BitVec 64) :
    Varint64Size fuel v = .ok ((varint64Size v.toInt : Nat) : Int) := by
  unfold Varint64Size
  rw [Uvarint64Size_eq, Res.bind_ok, zigzag_bits]
  rfl

theorem toInt_ofInt_of_range (i : Int) (h1 : -(2:Int)^63 ≤ i) (h2 : i < (2:Int)^63) :
    (BitVec.ofInt 64 i).toInt = i := by
  rw [BitVec.toInt_ofInt]
  simp only [Int.bmod]
  omega

/-- **1.** `Varint64Size(int64(i))` for `i` in the `int64` range -/
theorem Varint64Size_ofInt (fuel : Nat) (i : Int) (h1 : -(2:Int)^63 ≤ i) (h2 : i < (2:Int)^63) :
    Varint64Size fuel (BitVec.ofInt 64 i) = .ok ((varint64Size i : Nat) : Int) := by
  rw [Varint64Size_eq, toInt_ofInt_of_range i h1 h2]

/-! ### 1c. `EncodeVarfloat64`, `Varfloat64Size` -/

theorem float64bits_one : GoSem.float64bits (F64.fin (1 : Rat)) = BitVec.ofNat 64 oneBits := by
  decide +kernel

theorem rotateLeft64_six (x : BitVec 64) : GoSem.rotateLeft64 x (6 : Int) = x.rotateLeft 6 := rfl

/-- the word that `EncodeVarfloat64(v)` / `Varfloat64Size(v)` chop up is the model's `vfWord` -/
theorem vfWord_gen (v : F64) :
    (GoSem.rotateLeft64 (GoSem.float64bits (F64.add v (F64.fin (1 : Rat)))
        - GoSem.float64bits (F64.fin (1 : Rat))) (6 : Int)).toNat
      = vfWord (F64.toBits (F64.add v F64.one)).toNat := by
  rw [rotateLeft64_six, float64bits_one, vfWord_bits]
  rfl

theorem shr56_byte (x : BitVec 64) : (BitVec.setWidth 8 (x >>> 56)).toNat = x.toNat / 2 ^ 56 := by
  rw [BitVec.toNat_setWidth, BitVec.toNat_ushiftRight, Nat.shiftRight_eq_div_pow]
  have := x.isLt
  omega

theorem shr57_byte (x : BitVec 64) : (BitVec.setWidth 8 (x >>> 57)).toNat = x.toNat / 2 ^ 57 := by
  rw [BitVec.toNat_setWidth, BitVec.toNat_ushiftRight, Nat.shiftRight_eq_div_pow]
  have := x.isLt
  omega

theorem or128_toNat (n : BitVec 8) (h : n.toNat < 128) : (n ||| 128#8).toNat = n.toNat + 128 := by
  rw [BitVec.toNat_or, show (128#8).toNat = 1 <<< 7 by decide, Nat.or_comm,
    ← Nat.shiftLeft_add_eq_or_of_lt (by omega), Nat.shiftLeft_eq]
  omega

theorem encVarfloat64_loop (k : Nat) : ∀ (fuel : Nat) (b : List (BitVec 8)) (x : BitVec 64) (i : Int),
    i = 8 - (k : Int) → k + 1 ≤ fuel →
    Loop.elim (EncodeVarfloat64.loop1 fuel x b i)
        (fun (x, b, _) => .ok (b ++ [BitVec.setWidth 8 (x >>> 56)]))
      = .ok (b ++ bn (encVF k x.toNat)) := by
  induction k with
  | zero =>
    intro fuel b x i hi hf
    obtain ⟨fuel, rfl⟩ : ∃ f, fuel = f + 1 := ⟨fuel - 1, by omega⟩
    have h8 : ¬ (i < 8) := by omega
    simp only [EncodeVarfloat64.loop1, h8, decide_false, Bool.false_eq_true, if_false,
      Loop.elim_done, encVF]
    rw [single_bn _ _ (shr56_byte x)]
  | succ k ih =>
    intro fuel b x i hi hf
    obtain ⟨fuel, rfl⟩ : ∃ f, fuel = f + 1 := ⟨fuel - 1, by omega⟩
    have h8 : i < 8 := by omega
    have hs := varfloat_step_bits x
    have hn := shr57_byte x
    have hn128 : (BitVec.setWidth 8 (x >>> 57)).toNat < 128 := by
      rw [hn]; have := x.isLt; omega
    simp only [EncodeVarfloat64.loop1, h8, decide_true, if_true]
    by_cases hz : x <<< 7 = 0#64
    · have hz' : x.toNat * 128 % W64 = 0 := by rw [← hs.2, hz]; rfl
      simp only [hz, beq_self_eq_true, if_true, Loop.elim_ret, encVF, hz']
      rw [single_bn _ _ hn]
    · have hz' : ¬ (x.toNat * 128 % W64 = 0) := by
        intro h0
        apply hz
        apply BitVec.eq_of_toNat_eq
        rw [hs.2, h0]; rfl
      have hb : ((x <<< 7) == 0#64) = false := by simpa using hz
      simp only [hb, Bool.false_eq_true, if_false, encVF, hz']
      rw [ih fuel _ _ (i + 1) (by omega) (by omega), hs.2, List.append_assoc, List.singleton_append,
        cons_bn _ _ _ (by rw [or128_toNat _ hn128, hn])]

/-- **1.** `EncodeVarfloat64` appends the model's encoding — for EVERY float (and therefore for
    `F64.fin w`, every rational weight): no exactness condition is needed to relate the bytes. -/
theorem EncodeVarfloat64_eq (fuel : Nat) (hf : 9 ≤ fuel) (b : List (BitVec 8)) (v : F64) :
    EncodeVarfloat64 fuel b v = .ok (b ++ bn (encVarfloat64 v)) := by
  unfold encVarfloat64
  rw [encVarfloatBits_eq, ← vfWord_gen]
  exact encVarfloat64_loop 8 fuel b _ 0 (by decide) hf

/-- a weight crossing into the float codec: the bytes of the model's `vfBits` -/
theorem EncodeVarfloat64_fin (fuel : Nat) (hf : 9 ≤ fuel) (b : List (BitVec 8)) (w : Rat) :
    EncodeVarfloat64 fuel b (F64.fin w) = .ok (b ++ bn (encVarfloatBits (Sketch.vfBits w))) :=
  EncodeVarfloat64_eq fuel hf b (F64.fin w)

theorem EncodeVarfloat64_spec (fuel : Nat) (hf : 9 ≤ fuel) (b : List (BitVec 8)) (v : F64) :
    ∃ bs, EncodeVarfloat64 fuel b v = .ok (b ++ bs) ∧ nb bs = encVarfloat64 v :=
  ⟨_, EncodeVarfloat64_eq fuel hf b v, nb_bn _ (Wire.encVarfloatBits_bytes _)⟩

theorem trailingZeros64_eq (x : BitVec 64) : GoSem.trailingZeros64 x = ((tzcnt64 x.toNat : Nat) : Int) := by
  unfold GoSem.trailingZeros64 tzcnt64
  have hp : (fun i => x.getLsbD i) = (fun i => decide (x.toNat / 2 ^ i % 2 = 1)) := by
    funext i
    rw [← BitVec.testBit_toNat, Nat.testBit_eq_decide_div_mod_eq]
  rw [hp]
  by_cases h0 : x.toNat = 0
  · rw [if_pos h0]
    have : (List.range 64).find? (fun i => decide (x.toNat / 2 ^ i % 2 = 1)) = none := by
      rw [List.find?_eq_none]
      intro i _
      rw [h0]
      simp
    rw [this]; rfl
  · rw [if_neg h0]

/-- **1.** `Varfloat64Size` is the model's `varfloat64Size`, for every float -/
theorem Varfloat64Size_eq (fuel : Nat) (v : F64) :
    Varfloat64Size fuel v = .ok ((varfloat64Size v : Nat) : Int) := by
  unfold Varfloat64Size
  rw [varfloat64Sizes_eval]
  simp only [Res.bind_ok]
  rw [trailingZeros64_eq, idx_nat, vfWord_gen,
    sizeTable_varfloat _ (by have := tzcnt64_le (vfWord (F64.toBits (F64.add v F64.one)).toNat); omega),
    optR_some]
  rfl

theorem Varfloat64Size_fin (fuel : Nat) (w : Rat) :
    Varfloat64Size fuel (F64.fin w) = .ok ((varfloat64SizeBits (Sketch.vfBits w) : Nat) : Int) :=
  Varfloat64Size_eq fuel (F64.fin w)

/-! ### 2. the window as the loops read it -/

/-- the counts `bins[i - offset]` for `i = idx, …, idx + n - 1`; `none`: an index outside the array -/
def readCounts (s : DStore) (idx : Int) (n : Nat) : Option (List Rat) :=
  (irange idx n).mapM (fun i => rd s.bins (i - s.offset))

/-- the width of the window `[minIndex, maxIndex]` -/
def width (s : DStore) : Nat := (s.maxIndex - s.minIndex + 1).toNat

theorem readCounts_zero (s : DStore) (idx : Int) : readCounts s idx 0 = some [] := rfl

theorem readCounts_succ (s : DStore) (idx : Int) (n : Nat) :
    readCounts s idx (n + 1) =
      (rd s.bins (idx - s.offset)).bind fun c => (readCounts s (idx + 1) n).bind fun cs => some (c :: cs) := by
  unfold readCounts
  rw [irange_succ_left, List.mapM_cons]
  rfl

theorem readCounts_length (s : DStore) (n : Nat) : ∀ (idx : Int) (cs : List Rat),
    readCounts s idx n = some cs → cs.length = n := by
  induction n with
  | zero => intro idx cs h; rw [readCounts_zero] at h; cases h; rfl
  | succ n ih =>
    intro idx cs h
    rw [readCounts_succ] at h
    cases hrd : rd s.bins (idx - s.offset) with
    | none => rw [hrd] at h; cases h
    | some c =>
      rw [hrd, Option.bind_some] at h
      cases hr : readCounts s (idx + 1) n with
      | none => rw [hr] at h; cases h
      | some cs' =>
        rw [hr, Option.bind_some] at h
        cases h
        rw [List.length_cons, ih _ _ hr]

theorem readCounts_model (s : DStore) :
    (idxRange s.minIndex s.maxIndex).mapM (fun i => rd s.bins (i - s.offset))
      = readCounts s s.minIndex (width s) := rfl

/-- the non-empty bins of the window, with their indexes -/
def nzList (idx : Int) (n : Nat) (cs : List Rat) : List (Int × Rat) :=
  ((irange idx n).zip cs).filter (fun p => p.2 ≠ 0)

theorem nzList_zero (idx : Int) (cs : List Rat) : nzList idx 0 cs = [] := by
  simp [nzList, irange_zero]

theorem nzList_succ (idx : Int) (n : Nat) (c : Rat) (cs : List Rat) :
    nzList idx (n + 1) (c :: cs) =
      if c = 0 then nzList (idx + 1) n cs else (idx, c) :: nzList (idx + 1) n cs := by
  unfold nzList
  rw [irange_succ_left, List.zip_cons_cons, List.filter_cons]
  by_cases h : c = 0 <;> simp [h]

theorem nzList_length_le (idx : Int) (n : Nat) (cs : List Rat) : (nzList idx n cs).length ≤ n := by
  unfold nzList
  refine Nat.le_trans (List.length_filter_le _ _) ?_
  rw [List.length_zip]
  have : (irange idx n).length = n := by simp [irange]
  omega

/-- the index of the last non-empty bin (`previousIndex` when a loop ends) -/
def lastIdx (prev : Int) : List (Int × Rat) → Int
  | [] => prev
  | p :: l => lastIdx p.1 l

/-! ### 2. `encodeDensely` -/

theorem encodeDensely_loop (s : DStore) (n : Nat) :
    ∀ (fuel : Nat) (b : List (BitVec 8)) (idx : Int), (s.maxIndex - idx + 1).toNat = n → n + 10 ≤ fuel →
      Gen.Dense.DenseStore.encodeDensely.loop1 (toGen s) fuel b idx =
        match readCounts s idx n with
        | some cs => .done (b ++ bn (cs.flatMap fun c => encVarfloatBits (Sketch.vfBits c)), idx + n)
        | none => .panic := by
  induction n with
  | zero =>
    intro fuel b idx hn hf
    obtain ⟨f, rfl⟩ : ∃ f, fuel = f + 1 := ⟨fuel - 1, by omega⟩
    unfold Gen.Dense.DenseStore.encodeDensely.loop1
    have hc : ¬ (idx ≤ s.maxIndex) := by omega
    simp only [toGen_maxIndex, hc, decide_false, Bool.false_eq_true, if_false, readCounts_zero,
      List.flatMap_nil, Int.natCast_zero, Int.add_zero]
    rw [show bn [] = [] from rfl, List.append_nil]
  | succ n ih =>
    intro fuel b idx hn hf
    obtain ⟨f, rfl⟩ : ∃ f, fuel = f + 1 := ⟨fuel - 1, by omega⟩
    unfold Gen.Dense.DenseStore.encodeDensely.loop1
    have hc : idx ≤ s.maxIndex := by omega
    simp only [toGen_maxIndex, toGen_offset, toGen_bins, hc, decide_true, if_true, readCounts_succ]
    rw [idx_toList]
    cases hrd : rd s.bins (idx - s.offset) with
    | none => rfl
    | some c =>
      simp only [optL_some, Option.bind_some]
      rw [EncodeVarfloat64_fin f (by omega), Res.bindL_ok, ih f _ (idx + 1) (by omega) (by omega)]
      cases readCounts s (idx + 1) n with
      | none => rfl
      | some cs =>
        simp only [Option.bind_some, List.flatMap_cons, bn_append, List.append_assoc]
        rw [show idx + 1 + (n : Int) = idx + ((n + 1 : Nat) : Int) by omega]

/-! ### 3. `encodeSparsely` -/

/-- what the sparse layout writes per non-empty bin -/
def itemBytes (p : Int × Nat) : Bytes := encVarint64 p.1 ++ encVarfloatBits p.2

theorem encodeSparsely_loop (s : DStore) (n : Nat) :
    ∀ (fuel : Nat) (b : List (BitVec 8)) (prev idx : Int), (s.maxIndex - idx + 1).toNat = n →
      n + 10 ≤ fuel → -(2:Int)^63 ≤ idx - prev → s.maxIndex - prev < (2:Int)^63 →
      s.maxIndex - idx < (2:Int)^63 →
      Gen.Dense.DenseStore.encodeSparsely.loop1 (toGen s) fuel b prev idx =
        match readCounts s idx n with
        | some cs => .done (b ++ bn ((deltaRec prev (nzList idx n cs)).flatMap itemBytes),
            lastIdx prev (nzList idx n cs), idx + n)
        | none => .panic := by
  induction n with
  | zero =>
    intro fuel b prev idx hn hf _ _ _
    obtain ⟨f, rfl⟩ : ∃ f, fuel = f + 1 := ⟨fuel - 1, by omega⟩
    unfold Gen.Dense.DenseStore.encodeSparsely.loop1
    have hc : ¬ (idx ≤ s.maxIndex) := by omega
    simp only [toGen_maxIndex, hc, decide_false, Bool.false_eq_true, if_false, readCounts_zero,
      nzList_zero, deltaRec, lastIdx, List.flatMap_nil, Int.natCast_zero, Int.add_zero]
    rw [show bn [] = [] from rfl, List.append_nil]
  | succ n ih =>
    intro fuel b prev idx hn hf h1 h2 h3
    obtain ⟨f, rfl⟩ : ∃ f, fuel = f + 1 := ⟨fuel - 1, by omega⟩
    unfold Gen.Dense.DenseStore.encodeSparsely.loop1
    have hc : idx ≤ s.maxIndex := by omega
    simp only [toGen_maxIndex, toGen_offset, toGen_bins, hc, decide_true, if_true, readCounts_succ]
    rw [idx_toList]
    cases hrd : rd s.bins (idx - s.offset) with
    | none => rfl
    | some c =>
      simp only [optL_some, Option.bind_some]
      by_cases hc0 : c = 0
      · have hb : (c != (0 : Rat)) = false := by simp [hc0]
        simp only [hb, Bool.false_eq_true, if_false]
        rw [ih f b prev (idx + 1) (by omega) (by omega) (by omega) h2 (by omega)]
        cases readCounts s (idx + 1) n with
        | none => rfl
        | some cs =>
          simp only [Option.bind_some]
          rw [nzList_succ, if_pos hc0, show idx + 1 + (n : Int) = idx + ((n + 1 : Nat) : Int) by omega]
      · have hb : (c != (0 : Rat)) = true := by simp [hc0]
        simp only [hb, if_true]
        rw [EncodeVarint64_ofInt f (by omega) b (idx - prev) h1 (by omega), Res.bindL_ok,
          EncodeVarfloat64_fin f (by omega), Res.bindL_ok,
          ih f _ idx (idx + 1) (by omega) (by omega) (by omega) h3 (by omega)]
        cases readCounts s (idx + 1) n with
        | none => rfl
        | some cs =>
          simp only [Option.bind_some]
          rw [nzList_succ, if_neg hc0, show idx + 1 + (n : Int) = idx + ((n + 1 : Nat) : Int) by omega]
          simp only [deltaRec, lastIdx, List.flatMap_cons, itemBytes, bn_append, List.append_assoc]

/-! ### 4. the size loop of `Encode` -/

/-- size of the counts in either layout -/
def countsSize (cs : List Rat) : Nat := (cs.map (fun c => varfloat64SizeBits (Sketch.vfBits c))).sum

/-- size of the `(index delta, count)` items of the sparse layout -/
def itemsSize (items : List (Int × Nat)) : Nat :=
  (items.map (fun p => varint64Size p.1 + varfloat64SizeBits p.2)).sum

theorem bv_succ (x : BitVec 64) (m : Nat) : x + 1#64 + BitVec.ofNat 64 m = x + BitVec.ofNat 64 (m + 1) := by
  rw [BitVec.ofNat_add, BitVec.add_assoc, BitVec.add_comm (BitVec.ofNat 64 m)]

theorem sizeLoop (s : DStore) (n : Nat) :
    ∀ (fuel : Nat) (dS : Int) (nN : BitVec 64) (sS prev idx : Int), (s.maxIndex - idx + 1).toNat = n →
      n + 1 ≤ fuel → -(2:Int)^63 ≤ idx - prev → s.maxIndex - prev < (2:Int)^63 →
      s.maxIndex - idx < (2:Int)^63 →
      Gen.Dense.DenseStore.Encode.loop1 (toGen s) fuel dS nN sS prev idx =
        match readCounts s idx n with
        | some cs => .done (dS + (countsSize cs : Nat),
            nN + BitVec.ofNat 64 (nzList idx n cs).length,
            sS + (itemsSize (deltaRec prev (nzList idx n cs)) : Nat),
            lastIdx prev (nzList idx n cs), idx + n)
        | none => .panic := by
  induction n with
  | zero =>
    intro fuel dS nN sS prev idx hn hf _ _ _
    obtain ⟨f, rfl⟩ : ∃ f, fuel = f + 1 := ⟨fuel - 1, by omega⟩
    unfold Gen.Dense.DenseStore.Encode.loop1
    have hc : ¬ (idx ≤ s.maxIndex) := by omega
    simp only [toGen_maxIndex, hc, decide_false, Bool.false_eq_true, if_false, readCounts_zero,
      nzList_zero, deltaRec, lastIdx, countsSize, itemsSize, List.map_nil, List.sum_nil, List.length_nil,
      Int.natCast_zero, Int.add_zero]
    rw [show BitVec.ofNat 64 0 = 0#64 from rfl, BitVec.add_zero]
  | succ n ih =>
    intro fuel dS nN sS prev idx hn hf h1 h2 h3
    obtain ⟨f, rfl⟩ : ∃ f, fuel = f + 1 := ⟨fuel - 1, by omega⟩
    unfold Gen.Dense.DenseStore.Encode.loop1
    have hc : idx ≤ s.maxIndex := by omega
    simp only [toGen_maxIndex, toGen_offset, toGen_bins, hc, decide_true, if_true, readCounts_succ]
    rw [idx_toList]
    cases hrd : rd s.bins (idx - s.offset) with
    | none => rfl
    | some c =>
      simp only [optL_some, Option.bind_some]
      rw [Varfloat64Size_fin, Res.bindL_ok]
      by_cases hc0 : c = 0
      · have hb : (c != (0 : Rat)) = false := by simp [hc0]
        simp only [hb, Bool.false_eq_true, if_false]
        rw [ih f _ nN sS prev (idx + 1) (by omega) (by omega) (by omega) h2 (by omega)]
        cases readCounts s (idx + 1) n with
        | none => rfl
        | some cs =>
          simp only [Option.bind_some]
          rw [nzList_succ, if_pos hc0, show idx + 1 + (n : Int) = idx + ((n + 1 : Nat) : Int) by omega]
          simp only [countsSize, List.map_cons, List.sum_cons, Int.natCast_add, Int.add_assoc]
      · have hb : (c != (0 : Rat)) = true := by simp [hc0]
        simp only [hb, if_true]
        rw [Varint64Size_ofInt f (idx - prev) h1 (by omega), Res.bindL_ok,
          ih f _ _ _ idx (idx + 1) (by omega) (by omega) (by omega) h3 (by omega)]
        cases readCounts s (idx + 1) n with
        | none => rfl
        | some cs =>
          simp only [Option.bind_some]
          rw [nzList_succ, if_neg hc0, show idx + 1 + (n : Int) = idx + ((n + 1 : Nat) : Int) by omega]
          simp only [deltaRec, lastIdx, countsSize, itemsSize, List.map_cons, List.sum_cons,
            List.length_cons, Int.natCast_add, Int.add_assoc, bv_succ]

/-! ### 2./3. the two encoders as blocks of the model -/

/-- fuel for `Encode` / `encodeDensely` / `encodeSparsely`: the width of the window, plus what a codec
    called inside the last iteration needs -/
def encodeFuel (s : DStore) : Nat := width s + 10

/-- the `int64` / `uint64` conversions of `Encode` do not wrap around -/
structure EncRange (s : DStore) : Prop where
  minLo : -(2:Int)^63 ≤ s.minIndex
  maxHi : s.maxIndex < (2:Int)^63
  span : s.maxIndex - s.minIndex < (2:Int)^63

/-- an `int32` window (what the stores maintain) is in range -/
theorem encRange_of_int32 (s : DStore) (h1 : -(2:Int)^31 ≤ s.minIndex) (h2 : s.minIndex < (2:Int)^31)
    (h3 : -(2:Int)^31 ≤ s.maxIndex) (h4 : s.maxIndex < (2:Int)^31) : EncRange s :=
  ⟨by omega, by omega, by omega⟩

theorem block_bytes (b : List (BitVec 8)) (fb : BitVec 8) (flag : Nat) (h : fb.toNat = flag)
    (A : Bytes) : b ++ [fb] ++ bn A = b ++ bn (flag :: A) := by
  rw [single_bn fb flag h]
  simp [bn]

theorem flatMap_vfBits (cs : List Rat) :
    (cs.map Sketch.vfBits).flatMap encVarfloatBits = cs.flatMap fun c => encVarfloatBits (Sketch.vfBits c) := by
  induction cs with
  | nil => rfl
  | cons c cs ih => simp only [List.map_cons, List.flatMap_cons, ih]

/-- **2.** `encodeDensely` writes the block `.bins side (.contiguous minIndex 1 counts)` when it is
    given `numBins = ` the width of the window; `.panic` when an index of the window is outside the array -/
theorem encodeDensely_eq (fuel : Nat) (s : DStore) (b : List (BitVec 8)) (t : FlagType) (side : Side)
    (ht : t.byte.toNat = Wire.sideType side) (numBins : BitVec 64) (hnb : numBins.toNat = width s)
    (h1 : -(2:Int)^63 ≤ s.minIndex) (h2 : s.minIndex < (2:Int)^63) (hf : encodeFuel s ≤ fuel) :
    Gen.Dense.DenseStore.encodeDensely fuel (toGen s) b t numBins =
      toRes (fun cs => b ++ bn (Wire.encBlock (.bins side (.contiguous s.minIndex 1 (cs.map Sketch.vfBits)))))
        (readCounts s s.minIndex (width s)) := by
  unfold encodeFuel at hf
  unfold Gen.Dense.DenseStore.encodeDensely
  simp only [toGen_minIndex]
  rw [EncodeUvarint64_eq fuel (by omega), Res.bind_ok, EncodeVarint64_ofInt fuel (by omega) _ _ h1 h2,
    Res.bind_ok, EncodeVarint64_eq fuel (by omega), Res.bind_ok,
    encodeDensely_loop s (width s) fuel _ s.minIndex rfl (by omega)]
  cases hr : readCounts s s.minIndex (width s) with
  | none => rfl
  | some cs =>
    have hl := readCounts_length s _ _ _ hr
    simp only [Loop.elim_done, toRes_some, EncodeFlag, Wire.encBlock, Wire.encPayload, List.length_map,
      List.append_assoc]
    rw [← bn_append, ← bn_append, ← bn_append, ← List.append_assoc b,
      block_bytes b _ _ ((storeFlag_bytes side t ht).2.2), hnb, hl, flatMap_vfBits,
      show (1#64).toInt = 1 by decide]
    rfl

/-- **3.** `encodeSparsely` writes the block `.bins side (.deltasCounts items)`, the items being the
    non-empty bins of the window as (index − previous non-empty index, count bits), from 0; when it is
    given `numNonEmptyBins = ` their number -/
theorem encodeSparsely_eq (fuel : Nat) (s : DStore) (b : List (BitVec 8)) (t : FlagType) (side : Side)
    (ht : t.byte.toNat = Wire.sideType side) (numNonEmptyBins : BitVec 64) (hr : EncRange s)
    (hnn : ∀ cs, readCounts s s.minIndex (width s) = some cs →
      numNonEmptyBins.toNat = (nzList s.minIndex (width s) cs).length)
    (hf : encodeFuel s ≤ fuel) :
    Gen.Dense.DenseStore.encodeSparsely fuel (toGen s) b t numNonEmptyBins =
      toRes (fun cs => b ++ bn (Wire.encBlock (.bins side
          (.deltasCounts (deltaRec 0 (nzList s.minIndex (width s) cs))))))
        (readCounts s s.minIndex (width s)) := by
  unfold encodeFuel at hf
  obtain ⟨r1, r2, r3⟩ := hr
  unfold Gen.Dense.DenseStore.encodeSparsely
  simp only [toGen_minIndex]
  rw [EncodeUvarint64_eq fuel (by omega), Res.bind_ok,
    encodeSparsely_loop s (width s) fuel _ 0 s.minIndex rfl (by omega) (by omega) (by omega) r3]
  cases hrc : readCounts s s.minIndex (width s) with
  | none => rfl
  | some cs =>
    simp only [Loop.elim_done, toRes_some, EncodeFlag, Wire.encBlock, Wire.encPayload, List.append_assoc]
    rw [← bn_append, ← List.append_assoc b,
      block_bytes b _ _ ((storeFlag_bytes side t ht).1), hnn cs hrc, deltaRec_length]
    rfl

/-! ### 5. the model's `encodeDense`, unfolded -/

/-- `denseEncodingSize` of the model -/
def mDense (s : DStore) (cs : List Rat) : Nat :=
  uvarint64Size (((s.maxIndex - s.minIndex).toNat + 1) % W64) + varint64Size s.minIndex + varint64Size 1
    + countsSize cs

/-- `sparseEncodingSize` of the model (deltas from `minIndex`) -/
def mSparse (s : DStore) (cs : List Rat) : Nat :=
  itemsSize (deltaRec s.minIndex (nzList s.minIndex (width s) cs))
    + uvarint64Size (nzList s.minIndex (width s) cs).length

/-- the model's encoder on a non-empty store whose window lies in the array -/
theorem encodeDense_some (s : DStore) (side : Side) (hne : s.isEmpty = false) (cs : List Rat)
    (hc : readCounts s s.minIndex (width s) = some cs) :
    Sketch.encodeDense s side = some
      (if mDense s cs ≤ mSparse s cs then
        [.bins side (.contiguous s.minIndex 1 (cs.map Sketch.vfBits))]
      else [.bins side (.deltasCounts (deltaRec 0 (nzList s.minIndex (width s) cs)))]) := by
  have hd0 := delta_foldl (nzList s.minIndex (width s) cs) 0 []
  have hdm := delta_foldl (nzList s.minIndex (width s) cs) s.minIndex []
  simp only [List.reverse_nil, List.nil_append] at hd0 hdm
  unfold Sketch.encodeDense
  simp only [hne, Bool.false_eq_true, if_false, readCounts_model, hc, Option.bind_eq_bind,
    Option.bind_some]
  by_cases hcond : mDense s cs ≤ mSparse s cs
  · rw [if_pos hcond]
    unfold mDense mSparse countsSize itemsSize at hcond
    rw [← hdm] at hcond
    exact (if_pos hcond).trans rfl
  · rw [if_neg hcond]
    unfold mDense mSparse countsSize itemsSize at hcond
    rw [← hdm] at hcond
    rw [← hd0]
    exact (if_neg hcond).trans rfl

theorem encodeDense_none (s : DStore) (side : Side) (hne : s.isEmpty = false)
    (hc : readCounts s s.minIndex (width s) = none) : Sketch.encodeDense s side = none := by
  unfold Sketch.encodeDense
  simp only [hne, Bool.false_eq_true, if_false, readCounts_model, hc, Option.bind_eq_bind,
    Option.bind_none]

theorem encodeDense_empty (s : DStore) (side : Side) (he : s.isEmpty = true) :
    Sketch.encodeDense s side = some [] := by
  unfold Sketch.encodeDense
  simp only [he, if_true]

/-! ### 5. the main theorem -/

theorem numBins_toNat (s : DStore) (hw : s.minIndex ≤ s.maxIndex) (h : s.maxIndex - s.minIndex < (2:Int)^63) :
    (BitVec.ofInt 64 (s.maxIndex - s.minIndex) + 1#64).toNat = width s := by
  unfold width
  rw [BitVec.toNat_add, BitVec.toNat_ofInt]
  simp only [BitVec.toNat_ofNat]
  omega

theorem numNonEmpty_toNat (m n : Nat) (h : m ≤ n) (hn : n < 2 ^ 64) : (0#64 + BitVec.ofNat 64 m).toNat = m := by
  rw [BitVec.zero_add, BitVec.toNat_ofNat]
  omega

theorem width_lt (s : DStore) (h : s.maxIndex - s.minIndex < (2:Int)^63) : width s < 2 ^ 64 := by
  unfold width; omega

/-- **MAIN.**  For a store of any dense kind (the encoder only reads the five fields), the flag type `t`
    of `side`, any prefix `b` and `encodeFuel s ≤ fuel`: the regenerated `DenseStore.Encode` appends
    exactly the bytes of the blocks of the hand-written `Sketch.encodeDense`; it panics exactly when the
    model says `none` (an index of the window outside the array); it never runs out of fuel. -/
theorem Encode_rel (fuel : Nat) (s : DStore) (side : Side) (t : FlagType)
    (ht : t.byte.toNat = Wire.sideType side) (b : List (BitVec 8)) (hr : EncRange s)
    (hw : s.minIndex ≤ s.maxIndex) (hf : encodeFuel s ≤ fuel) :
    Gen.Dense.DenseStore.Encode fuel (toGen s) b t
      = toRes (fun blocks => b ++ bn (Wire.encBlocks blocks)) (Sketch.encodeDense s side) := by
  unfold Gen.Dense.DenseStore.Encode
  rw [isEmpty_eq]
  by_cases he : s.isEmpty = true
  · rw [if_pos he, encodeDense_empty s side he]
    simp [toRes, Wire.encBlocks, bn]
  · have hne : s.isEmpty = false := by simpa using he
    have hr' := hr
    obtain ⟨r1, r2, r3⟩ := hr'
    have hf' : width s + 10 ≤ fuel := hf
    rw [if_neg he]
    simp only [toGen_minIndex, toGen_maxIndex]
    have hnb := numBins_toNat s hw r3
    rw [Uvarint64Size_eq, Res.bind_ok, Varint64Size_ofInt fuel _ r1 (by omega), Res.bind_ok,
      Varint64Size_eq, Res.bind_ok,
      sizeLoop s (width s) fuel _ _ _ s.minIndex s.minIndex rfl (by omega) (by omega) r3 r3]
    cases hrc : readCounts s s.minIndex (width s) with
    | none =>
      rw [encodeDense_none s side hne hrc]
      rfl
    | some cs =>
      have hlen := nzList_length_le s.minIndex (width s) cs
      have hN := numNonEmpty_toNat _ _ hlen (width_lt s r3)
      simp only [Loop.elim_done]
      rw [Uvarint64Size_eq, Res.bind_ok, encodeDense_some s side hne cs hrc, hnb, hN]
      have hW : ((s.maxIndex - s.minIndex).toNat + 1) % W64 = width s := by
        unfold width W64; omega
      have hcond : ((0 : Int) + (uvarint64Size (width s) : Nat) + (varint64Size s.minIndex : Nat)
            + (varint64Size (1#64).toInt : Nat) + (countsSize cs : Nat)
          ≤ (0 : Int) + (itemsSize (deltaRec s.minIndex (nzList s.minIndex (width s) cs)) : Nat)
            + (uvarint64Size (nzList s.minIndex (width s) cs).length : Nat))
          ↔ mDense s cs ≤ mSparse s cs := by
        unfold mDense mSparse
        rw [hW, show (1#64).toInt = 1 by decide]
        omega
      by_cases hc : mDense s cs ≤ mSparse s cs
      · rw [if_pos hc, if_pos (by simpa using hcond.2 hc),
          encodeDensely_eq fuel s b t side ht _ hnb r1 (by omega) hf, hrc]
        simp [toRes, Wire.encBlocks]
      · rw [if_neg hc, if_neg (by simpa using fun h => hc (hcond.1 h)),
          encodeSparsely_eq fuel s b t side ht _ hr (fun cs' h' => by
            rw [hrc] at h'; cases h'; exact hN) hf, hrc]
        simp [toRes, Wire.encBlocks]

/-! ### 5b. a non-empty store with an inverted window (`maxIndex < minIndex`, only with a broken
    invariant): no iteration; both sides choose the sparse layout with zero bins.  The dense SIZES
    differ there (the model takes `numBins = 1`, Go takes `uint64(maxIndex - minIndex) + 1`, a huge
    number unless the difference is −1), but both are larger than the sparse size 1. -/

theorem uvarint64Size_pos (v : Nat) (hv : v < W64) : 1 ≤ uvarint64Size v := by
  rw [uvarint64Size_eq v hv, encUvarint64_eq]
  exact encU_length_pos _ _

theorem Encode_inverted (fuel : Nat) (s : DStore) (side : Side) (t : FlagType)
    (ht : t.byte.toNat = Wire.sideType side) (b : List (BitVec 8))
    (hw : s.maxIndex < s.minIndex) (hf : 10 ≤ fuel) :
    Gen.Dense.DenseStore.Encode fuel (toGen s) b t
      = toRes (fun blocks => b ++ bn (Wire.encBlocks blocks)) (Sketch.encodeDense s side) := by
  have hw0 : width s = 0 := by unfold width; omega
  have hrc : readCounts s s.minIndex (width s) = some [] := by rw [hw0]; rfl
  unfold Gen.Dense.DenseStore.Encode
  rw [isEmpty_eq]
  by_cases he : s.isEmpty = true
  · rw [if_pos he, encodeDense_empty s side he]
    simp [toRes, Wire.encBlocks, bn]
  · have hne : s.isEmpty = false := by simpa using he
    obtain ⟨f, rfl⟩ : ∃ f, fuel = f + 1 := ⟨fuel - 1, by omega⟩
    rw [if_neg he]
    simp only [toGen_minIndex, toGen_maxIndex]
    rw [Uvarint64Size_eq, Res.bind_ok, Varint64Size_eq, Res.bind_ok, Varint64Size_eq, Res.bind_ok]
    have hc : ¬ (s.minIndex ≤ s.maxIndex) := by omega
    unfold Gen.Dense.DenseStore.Encode.loop1
    simp only [toGen_maxIndex, hc, decide_false, Bool.false_eq_true, if_false, Loop.elim_done]
    rw [Uvarint64Size_eq, Res.bind_ok, encodeDense_some s side hne [] hrc]
    have h1 := uvarint64Size_pos _ (BitVec.ofInt 64 (s.maxIndex - s.minIndex) + 1#64).isLt
    have h2 : uvarint64Size (0#64).toNat = 1 := by decide +kernel
    have h3 : varint64Size (1#64).toInt = 1 := by decide +kernel
    have hm : ¬ (mDense s [] ≤ mSparse s []) := by
      have e1 : uvarint64Size (1 % W64) = 1 := by decide +kernel
      have e2 : varint64Size 1 = 1 := by decide +kernel
      have e3 : uvarint64Size 0 = 1 := by decide +kernel
      unfold mDense mSparse
      rw [hw0, nzList_zero]
      simp only [deltaRec, itemsSize, countsSize, List.map_nil, List.sum_nil, List.length_nil]
      rw [show (s.maxIndex - s.minIndex).toNat = 0 by omega, e1, e2, e3]
      omega
    rw [if_neg hm, if_neg (by rw [h2, h3]; simp only [decide_eq_true_eq]; omega)]
    unfold Gen.Dense.DenseStore.encodeSparsely
    simp only [toGen_minIndex]
    rw [EncodeUvarint64_eq (f + 1) (by omega), Res.bind_ok]
    unfold Gen.Dense.DenseStore.encodeSparsely.loop1
    simp only [toGen_maxIndex, hc, decide_false, Bool.false_eq_true, if_false, Loop.elim_done,
      Res.bind_ok, toRes_some, hw0, nzList_zero, deltaRec, Wire.encBlocks, List.flatMap_cons,
      List.flatMap_nil, List.append_nil, Wire.encBlock, Wire.encPayload, EncodeFlag, List.length_nil]
    rw [block_bytes b _ _ ((storeFlag_bytes side t ht).1)]
    rfl

/-- an empty store: nothing is written (any fuel, no hypothesis) -/
theorem Encode_empty (fuel : Nat) (s : DStore) (t : FlagType) (b : List (BitVec 8))
    (he : s.isEmpty = true) : Gen.Dense.DenseStore.Encode fuel (toGen s) b t = .ok b := by
  unfold Gen.Dense.DenseStore.Encode
  rw [isEmpty_eq, if_pos he]

/-- **MAIN**, without the hypothesis `minIndex ≤ maxIndex`; the range hypothesis only for a non-empty
    store (an empty store is not looked at) -/
theorem Encode_rel' (fuel : Nat) (s : DStore) (side : Side) (t : FlagType)
    (ht : t.byte.toNat = Wire.sideType side) (b : List (BitVec 8))
    (hr : s.isEmpty = false → EncRange s) (hf : encodeFuel s ≤ fuel) :
    Gen.Dense.DenseStore.Encode fuel (toGen s) b t
      = toRes (fun blocks => b ++ bn (Wire.encBlocks blocks)) (Sketch.encodeDense s side) := by
  by_cases he : s.isEmpty = true
  · rw [Encode_empty fuel s t b he, encodeDense_empty s side he]
    simp [toRes, Wire.encBlocks, bn]
  · have hr := hr (by simpa using he)
    by_cases hw : s.minIndex ≤ s.maxIndex
    · exact Encode_rel fuel s side t ht b hr hw hf
    · exact Encode_inverted fuel s side t ht b (by omega) (by unfold encodeFuel at hf; omega)

/-! ### 5c. the two directions, and the bytes as natural numbers -/

/-- the model produces blocks ⇒ the regenerated encoder appends their bytes -/
theorem Encode_ok (fuel : Nat) (s : DStore) (side : Side) (t : FlagType)
    (ht : t.byte.toNat = Wire.sideType side) (b : List (BitVec 8)) (hr : s.isEmpty = false → EncRange s)
    (hf : encodeFuel s ≤ fuel) (blocks : List Block) (h : Sketch.encodeDense s side = some blocks) :
    Gen.Dense.DenseStore.Encode fuel (toGen s) b t = .ok (b ++ bn (Wire.encBlocks blocks)) := by
  rw [Encode_rel' fuel s side t ht b hr hf, h]; rfl

/-- the model says `none` (an index of the window outside the array: Go panics) ⇒ `.panic` -/
theorem Encode_panic (fuel : Nat) (s : DStore) (side : Side) (t : FlagType)
    (ht : t.byte.toNat = Wire.sideType side) (b : List (BitVec 8)) (hr : s.isEmpty = false → EncRange s)
    (hf : encodeFuel s ≤ fuel) (h : Sketch.encodeDense s side = none) :
    Gen.Dense.DenseStore.Encode fuel (toGen s) b t = .panic := by
  rw [Encode_rel' fuel s side t ht b hr hf, h]; rfl

/-- and conversely: what the regenerated encoder does determines the model's outcome -/
theorem Encode_ok_iff (fuel : Nat) (s : DStore) (side : Side) (t : FlagType)
    (ht : t.byte.toNat = Wire.sideType side) (b : List (BitVec 8)) (hr : s.isEmpty = false → EncRange s)
    (hf : encodeFuel s ≤ fuel) :
    (Gen.Dense.DenseStore.Encode fuel (toGen s) b t = .panic ↔ Sketch.encodeDense s side = none) ∧
    Gen.Dense.DenseStore.Encode fuel (toGen s) b t ≠ .nofuel := by
  rw [Encode_rel' fuel s side t ht b hr hf]
  exact ⟨toRes_eq_panic _ _, toRes_ne_nofuel _ _⟩

theorem bins_block_bytes (side : Side) (p : BinsPayload) : ∀ x ∈ Wire.encBlock (.bins side p), x < 256 := by
  intro x hx
  rcases List.mem_cons.mp hx with rfl | hx
  · cases side <;> cases p <;> (simp only [Wire.payloadSub, Wire.sideType]; decide)
  · exact Wire.encPayload_bytes p x hx

/-- every block the model's dense encoder produces is a bins block: its bytes are bytes -/
theorem encodeDense_bytes (s : DStore) (side : Side) (blocks : List Block)
    (h : Sketch.encodeDense s side = some blocks) : ∀ x ∈ Wire.encBlocks blocks, x < 256 := by
  by_cases he : s.isEmpty = true
  · rw [encodeDense_empty s side he] at h
    cases h
    intro x hx; simp [Wire.encBlocks] at hx
  · have hne : s.isEmpty = false := by simpa using he
    cases hrc : readCounts s s.minIndex (width s) with
    | none => rw [encodeDense_none s side hne hrc] at h; cases h
    | some cs =>
      rw [encodeDense_some s side hne cs hrc] at h
      cases h
      intro x hx
      split at hx <;>
      · simp only [Wire.encBlocks, List.flatMap_cons, List.flatMap_nil, List.append_nil] at hx
        exact bins_block_bytes _ _ x hx

/-- **MAIN**, in `List Nat` bytes: the appended bytes, read as numbers, are `Wire.encBlocks blocks` -/
theorem Encode_nb (fuel : Nat) (s : DStore) (side : Side) (t : FlagType)
    (ht : t.byte.toNat = Wire.sideType side) (b : List (BitVec 8)) (hr : s.isEmpty = false → EncRange s)
    (hf : encodeFuel s ≤ fuel) (blocks : List Block) (h : Sketch.encodeDense s side = some blocks) :
    ∃ out, Gen.Dense.DenseStore.Encode fuel (toGen s) b t = .ok (b ++ out) ∧
      nb out = Wire.encBlocks blocks :=
  ⟨_, Encode_ok fuel s side t ht b hr hf blocks h, nb_bn _ (encodeDense_bytes s side blocks h)⟩

/-- positive / negative store flag types -/
theorem Encode_pos (fuel : Nat) (s : DStore) (b : List (BitVec 8)) (hr : s.isEmpty = false → EncRange s)
    (hf : encodeFuel s ≤ fuel) :
    Gen.Dense.DenseStore.Encode fuel (toGen s) b FlagTypePositiveStore
      = toRes (fun blocks => b ++ bn (Wire.encBlocks blocks)) (Sketch.encodeDense s .pos) :=
  Encode_rel' fuel s .pos _ FlagTypePositiveStore_side b hr hf

theorem Encode_neg (fuel : Nat) (s : DStore) (b : List (BitVec 8)) (hr : s.isEmpty = false → EncRange s)
    (hf : encodeFuel s ≤ fuel) :
    Gen.Dense.DenseStore.Encode fuel (toGen s) b FlagTypeNegativeStore
      = toRes (fun blocks => b ++ bn (Wire.encBlocks blocks)) (Sketch.encodeDense s .neg) :=
  Encode_rel' fuel s .neg _ FlagTypeNegativeStore_side b hr hf

/-! ### 6. outside `EncRange`: the hypothesis is needed, and why this is not a defect of the Go code

  `GoSem` models Go's `int` as an unbounded `Int` (overflow of a 64-bit `int` is not modelled), so a
  generated store can hold `minIndex = 2^63`, which no Go store can.  There the generated code converts
  with `int64(…)` (wrap-around to `-2^63`, zig-zag `2^64 - 1`) and the model encodes the unbounded
  integer (zig-zag `2^64`): different bytes.  Kernel-checked on the one-bin store below. -/

def exBig : DStore :=
  { kind := .plain, bins := #[1], count := 1, offset := 2 ^ 63, minIndex := 2 ^ 63, maxIndex := 2 ^ 63,
    isCollapsed := false }

def okBytes : Res (List (BitVec 8)) → List Nat
  | .ok l => nb l
  | _ => []

example : okBytes (Gen.Dense.DenseStore.Encode 20 (toGen exBig) [] FlagTypePositiveStore)
    = [5, 1, 255, 255, 255, 255, 255, 255, 255, 255, 255, 2] := by decide +kernel
example : (Sketch.encodeDense exBig .pos).map Wire.encBlocks
    = some [5, 1, 128, 128, 128, 128, 128, 128, 128, 128, 0, 2] := by decide +kernel
example : ¬ EncRange exBig := fun h => absurd h.maxHi (by decide)

end DDS.GenDenseEncode
