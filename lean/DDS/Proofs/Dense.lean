/-
  DDS.Proofs.Dense — refinement proofs for the plain `DenseStore` model (`kind = .plain`).

  Content is observed pointwise through `wt s i = at0 s.bins (i - s.offset)`.

  * `Inv` is the invariant; it holds of `DStore.new .plain` (`inv_new`) and is preserved by
    `addWithCount`, `mergeSame`, `mergeBins`, `clear`, `reweight` (`*_ok`), hence by every
    operation history (`run_ok`).
  * `countEq` is kept as `count = bins.toList.sum`; sums are handled through
    `rsum f lo n = Σ_{lo ≤ j < lo+n} f j` and `sum_eq_window` (the array sum is the sum of the
    weights over any window containing the support), from which `sum_eq_of_wt`, `sum_point`,
    `sum_add_of_wt`, `sum_mul_of_wt` follow.
  * Deviation from the first draft of `Inv`: the tightness clauses `0 < wt s s.minIndex`,
    `0 < wt s s.maxIndex` are false for indexes outside int32 (`minIndex_counterexample`,
    `maxIndex_counterexample`; reproduced on the Go code), so they carry the alternative
    `… ∨ minIndex = maxInt32` / `… ∨ maxIndex = minInt32`.  With `Bounded32` (all weight on
    int32 indexes, preserved by every operation given int32 arguments, `run_ok32`) the exact
    statements `minIndex_spec` / `maxIndex_spec` hold.
  * `GrowthOK` abstracts the float computation `denseNewLength`: for spans below `2^33` it
    returns a length that covers the span.  It is PROVED (`DDS.DStore.growthOK` in
    `DDS.Proofs.Growth`, from `DDS.denseNewLength_ge` of `DDS.Proofs.Num`); it is kept as a hypothesis here only
    because this file uses core Lean and the float proof needs Mathlib.  The first version of
    `GrowthOK` had no span bound and was FALSE (`not_growthOK_unbounded`): the float
    computation under-allocates from spans of about `2^60` on and overflows to `+Inf` for
    astronomically large ones.  Hence every theorem about an operation that may grow the
    array carries a span hypothesis `SpanOK` (automatic for int32 indexes:
    `spanOK_of_bounded32`).

  Only core Lean is used (no Mathlib): `omega` for indexes, `grind` for `Rat` arithmetic.
-/
import DDS.Model.Dense

namespace DDS
namespace DStore

/-- hypothesis on the float computation `denseNewLength`: for spans below `2^33` it returns
    a length covering the span.  Proved outright in `DDS.Proofs.Growth` (`growthOK`). -/
def GrowthOK : Prop :=
  ∀ a b : Int, a ≤ b → b - a < 2^33 →
    ∃ L, DStore.denseNewLength a b = some L ∧ b - a + 1 ≤ L

/-- the first version of the hypothesis: no bound on the span -/
def GrowthOKUnbounded : Prop :=
  ∀ a b : Int, a ≤ b → ∃ L, DStore.denseNewLength a b = some L ∧ b - a + 1 ≤ L

/-- FINDING: the float computation of `getNewLength` under-allocates for huge spans:
    for the span `[0, 2^62]` (`2^62 + 1` indexes) it returns `2^62`. -/
theorem denseNewLength_underallocates :
    DStore.denseNewLength 0 (2^62) = some (2^62) := by decide +kernel

/-- … and for astronomically large spans the float overflows: `int(+Inf)` (modelled as a
    panic; in Go the conversion is implementation-defined and the following `make` panics) -/
theorem denseNewLength_overflows : DStore.denseNewLength 0 (2^1100) = none := by decide +kernel

/-- FINDING: the unbounded hypothesis is false, so the theorems that assumed it were vacuous -/
theorem not_growthOK_unbounded : ¬ GrowthOKUnbounded := by
  intro h
  obtain ⟨L, hL, hge⟩ := h 0 (2^62) (by decide)
  rw [denseNewLength_underallocates] at hL
  cases hL
  exact absurd hge (by decide)

/-! ## `at0` and the array primitives -/

theorem at0_out (a : Array Rat) (j : Int) (h : ¬ (0 ≤ j ∧ j < a.size)) : at0 a j = 0 := by
  simp [at0, h]

theorem at0_neg (a : Array Rat) (j : Int) (h : j < 0) : at0 a j = 0 :=
  at0_out a j (by omega)

theorem at0_ge (a : Array Rat) (j : Int) (h : (a.size : Int) ≤ j) : at0 a j = 0 :=
  at0_out a j (by omega)

theorem at0_empty (j : Int) : at0 #[] j = 0 := by
  simp [at0]

theorem at0_nat (a : Array Rat) (k : Nat) : at0 a (k : Int) = a[k]?.getD 0 := by
  unfold at0
  by_cases h : k < a.size
  · have : (0:Int) ≤ k ∧ (k:Int) < a.size := by omega
    simp [this]
  · have : ¬ ((0:Int) ≤ k ∧ (k:Int) < a.size) := by omega
    have h' : a.size ≤ k := by omega
    simp [h']

/-- case split used for every `at0` lemma -/
theorem int_cases (j : Int) : j < 0 ∨ ∃ k : Nat, j = (k : Int) := by
  by_cases h : j < 0
  · exact Or.inl h
  · exact Or.inr ⟨j.toNat, by omega⟩

@[simp] theorem size_tabulate (n : Nat) (f : Int → Rat) : (tabulate n f).size = n := by
  simp [tabulate]

theorem at0_tabulate (n : Nat) (f : Int → Rat) (j : Int) :
    at0 (tabulate n f) j = if 0 ≤ j ∧ j < n then f j else 0 := by
  rcases int_cases j with h | ⟨k, rfl⟩
  · rw [at0_neg _ _ h, if_neg (by omega)]
  · rw [at0_nat]
    by_cases hk : k < n
    · have : (0:Int) ≤ k ∧ (k:Int) < n := by omega
      simp [tabulate, hk, this]
    · have : ¬ ((0:Int) ≤ k ∧ (k:Int) < n) := by omega
      simp [tabulate, hk]

theorem at0_setIfInBounds (a : Array Rat) (k : Nat) (v : Rat) (j : Int) :
    at0 (a.setIfInBounds k v) j = if j = (k : Int) ∧ k < a.size then v else at0 a j := by
  rcases int_cases j with h | ⟨m, rfl⟩
  · rw [at0_neg _ _ h, at0_neg _ _ h, if_neg (by omega)]
  · rw [at0_nat, at0_nat, Array.getElem?_setIfInBounds]
    by_cases hk : k = m
    · subst hk
      by_cases h2 : k < a.size
      · simp [h2]
      · simp [h2]
    · have : ¬ ((m:Int) = (k:Int) ∧ k < a.size) := by omega
      simp [hk, this]

theorem at0_append_replicate (a : Array Rat) (k : Nat) (j : Int) :
    at0 (a ++ Array.replicate k 0) j = at0 a j := by
  rcases int_cases j with h | ⟨m, rfl⟩
  · rw [at0_neg _ _ h, at0_neg _ _ h]
  · rw [at0_nat, at0_nat, Array.getElem?_append]
    by_cases h2 : m < a.size
    · simp [h2]
    · have h3 : a.size ≤ m := by omega
      simp [h2, Array.getElem?_replicate]
      split <;> rfl

theorem rd_eq (a : Array Rat) (i : Int) (h : 0 ≤ i ∧ i < a.size) : rd a i = some (at0 a i) := by
  simp [rd, at0, h]

theorem rd_none (a : Array Rat) (i : Int) (h : ¬ (0 ≤ i ∧ i < a.size)) : rd a i = none := by
  simp [rd, h]

theorem addAt_eq (a : Array Rat) (i : Int) (v : Rat) (h : 0 ≤ i ∧ i < a.size) :
    ∃ b, addAt a i v = some b ∧ b.size = a.size ∧
      ∀ j, at0 b j = at0 a j + if j = i then v else 0 := by
  refine ⟨a.setIfInBounds i.toNat (a.getD i.toNat 0 + v), ?_, by simp, ?_⟩
  · simp only [addAt, h, and_self, if_true]
  intro j
  rw [at0_setIfInBounds]
  have h2 : i.toNat < a.size := by omega
  by_cases hj : j = i
  · subst hj
    have : j = (j.toNat : Int) ∧ j.toNat < a.size := by omega
    rw [if_pos this, if_pos rfl]
    simp [at0, h]
  · have : ¬ (j = (i.toNat : Int) ∧ i.toNat < a.size) := by omega
    rw [if_neg this, if_neg hj, Rat.add_zero]

theorem addAt_none (a : Array Rat) (i : Int) (v : Rat) (h : ¬ (0 ≤ i ∧ i < a.size)) :
    addAt a i v = none := by
  simp [addAt, h]

theorem setAt_eq (a : Array Rat) (i : Int) (v : Rat) (h : 0 ≤ i ∧ i < a.size) :
    ∃ b, setAt a i v = some b ∧ b.size = a.size ∧
      ∀ j, at0 b j = if j = i then v else at0 a j := by
  refine ⟨a.setIfInBounds i.toNat v, ?_, by simp, ?_⟩
  · simp only [setAt, h, and_self, if_true]
  intro j
  rw [at0_setIfInBounds]
  have h2 : i.toNat < a.size := by omega
  by_cases hj : j = i
  · subst hj
    have : j = (j.toNat : Int) ∧ j.toNat < a.size := by omega
    rw [if_pos this, if_pos rfl]
  · have : ¬ (j = (i.toNat : Int) ∧ i.toNat < a.size) := by omega
    rw [if_neg this, if_neg hj]

/-! ## finite sums over integer windows

`countEq` is kept as `count = bins.toList.sum`; all reasoning about it goes through
`rsum f lo n = Σ_{lo ≤ j < lo+n} f j` and the "window" lemma `sum_eq_window`. -/

/-- `Σ_{k<n} f (lo + k)` -/
def rsum (f : Int → Rat) (lo : Int) : Nat → Rat
  | 0 => 0
  | n+1 => rsum f lo n + f (lo + n)

theorem rsum_congr {f g : Int → Rat} (lo : Int) (n : Nat)
    (h : ∀ j, lo ≤ j → j < lo + n → f j = g j) : rsum f lo n = rsum g lo n := by
  induction n with
  | zero => rfl
  | succ n ih =>
    simp only [rsum]
    rw [ih (fun j h1 h2 => h j h1 (by omega)), h (lo + n) (by omega) (by omega)]

theorem rsum_zero {f : Int → Rat} (lo : Int) (n : Nat)
    (h : ∀ j, lo ≤ j → j < lo + n → f j = 0) : rsum f lo n = 0 := by
  induction n with
  | zero => rfl
  | succ n ih =>
    simp only [rsum]
    rw [ih (fun j h1 h2 => h j h1 (by omega)), h (lo + n) (by omega) (by omega)]
    grind

theorem rsum_append (f : Int → Rat) (lo : Int) (m n : Nat) :
    rsum f lo (m + n) = rsum f lo m + rsum f (lo + m) n := by
  induction n with
  | zero => simp only [rsum, Nat.add_zero]; grind
  | succ n ih =>
    rw [← Nat.add_assoc]
    simp only [rsum]
    rw [ih, Rat.add_assoc]
    have : lo + ((m + n : Nat) : Int) = lo + (m : Int) + (n : Int) := by omega
    rw [this]

theorem rsum_succ_left (f : Int → Rat) (lo : Int) (n : Nat) :
    rsum f lo (n + 1) = f lo + rsum f (lo + 1) n := by
  rw [Nat.add_comm, rsum_append]
  simp only [rsum, Int.natCast_zero, Int.add_zero, Int.natCast_one]
  grind

theorem rsum_shift (f : Int → Rat) (d lo : Int) (n : Nat) :
    rsum (fun j => f (j + d)) lo n = rsum f (lo + d) n := by
  induction n with
  | zero => rfl
  | succ n ih =>
    simp only [rsum]
    rw [ih]
    congr 2
    omega

theorem rsum_add (f g : Int → Rat) (lo : Int) (n : Nat) :
    rsum (fun j => f j + g j) lo n = rsum f lo n + rsum g lo n := by
  induction n with
  | zero => simp only [rsum]; grind
  | succ n ih =>
    simp only [rsum]
    rw [ih]
    grind

theorem rsum_mul (f : Int → Rat) (w : Rat) (lo : Int) (n : Nat) :
    rsum (fun j => f j * w) lo n = rsum f lo n * w := by
  induction n with
  | zero => simp only [rsum]; grind
  | succ n ih =>
    simp only [rsum]
    rw [ih]
    grind

theorem rsum_nonneg {f : Int → Rat} (lo : Int) (n : Nat) (h : ∀ j, 0 ≤ f j) :
    0 ≤ rsum f lo n := by
  induction n with
  | zero => simp only [rsum]; grind
  | succ n ih =>
    simp only [rsum]
    have := h (lo + n)
    grind

theorem rsum_point (i : Int) (w : Rat) (lo : Int) (n : Nat) :
    rsum (fun j => if j = i then w else 0) lo n = if lo ≤ i ∧ i < lo + n then w else 0 := by
  induction n with
  | zero => simp [rsum]; omega
  | succ n ih =>
    simp only [rsum]
    rw [ih]
    by_cases h1 : lo + (n:Int) = i
    · have : ¬ (lo ≤ i ∧ i < lo + (n:Int)) := by omega
      have h3 : lo ≤ i ∧ i < lo + ((n+1 : Nat) : Int) := by omega
      rw [if_neg this, if_pos h1, if_pos h3]; grind
    · rw [if_neg h1]
      by_cases h2 : lo ≤ i ∧ i < lo + (n:Int)
      · have h3 : lo ≤ i ∧ i < lo + ((n+1 : Nat) : Int) := by omega
        rw [if_pos h2, if_pos h3]; grind
      · have h3 : ¬ (lo ≤ i ∧ i < lo + ((n+1 : Nat) : Int)) := by omega
        rw [if_neg h2, if_neg h3]; grind

/-- a single positive term makes a sum of non-negative terms positive -/
theorem rsum_pos {f : Int → Rat} (lo : Int) (n : Nat) (h : ∀ j, 0 ≤ f j)
    (i : Int) (hi : lo ≤ i ∧ i < lo + n) (hp : 0 < f i) : 0 < rsum f lo n := by
  induction n with
  | zero => omega
  | succ n ih =>
    simp only [rsum]
    by_cases h1 : lo + (n:Int) = i
    · have := rsum_nonneg lo n h
      rw [h1]
      grind
    · have := ih (by omega)
      have := h (lo + n)
      grind

/-- a function vanishing outside `[lo, lo+n)` has the same sum over any wider window -/
theorem rsum_widen {f : Int → Rat} (lo : Int) (n : Nat) (lo' : Int) (n' : Nat)
    (hsupp : ∀ j, j < lo ∨ lo + n ≤ j → f j = 0) (h1 : lo' ≤ lo) (h2 : lo + n ≤ lo' + n') :
    rsum f lo' n' = rsum f lo n := by
  obtain ⟨a, ha⟩ : ∃ a : Nat, lo = lo' + a := ⟨(lo - lo').toNat, by omega⟩
  obtain ⟨c, hc⟩ : ∃ c : Nat, n' = a + n + c := ⟨n' - (a + n), by omega⟩
  subst ha hc
  rw [rsum_append, rsum_append]
  rw [rsum_zero lo' a (fun j h1 h2 => hsupp j (by omega))]
  rw [rsum_zero _ c (fun j h1 h2 => hsupp j (by omega))]
  grind

theorem list_sum_rsum (l : List Rat) (f : Int → Rat) (lo : Int)
    (h : ∀ k : Nat, k < l.length → f (lo + k) = l[k]?.getD 0) : l.sum = rsum f lo l.length := by
  induction l generalizing lo with
  | nil => rfl
  | cons x l ih =>
    rw [List.length_cons, rsum_succ_left, List.sum_cons]
    have h0 := h 0 (by simp)
    simp at h0
    rw [h0, ih (lo + 1)]
    intro k hk
    have := h (k + 1) (by simp; omega)
    simp at this
    rw [← this]
    congr 1
    omega

theorem sum_eq_rsum (a : Array Rat) (off : Int) :
    a.toList.sum = rsum (fun j => at0 a (j - off)) off a.size := by
  have := list_sum_rsum a.toList (fun j => at0 a (j - off)) off (by
    intro k hk
    have : off + (k:Int) - off = (k : Int) := by omega
    simp only [this, at0_nat]
    simp)
  simpa using this

/-- the sum of the array is the sum of the weights over any window containing the support -/
theorem sum_eq_window (a : Array Rat) (off lo : Int) (n : Nat)
    (hsupp : ∀ j, j < lo ∨ lo + n ≤ j → at0 a (j - off) = 0) :
    a.toList.sum = rsum (fun j => at0 a (j - off)) lo n := by
  rw [sum_eq_rsum a off]
  have hs0 : ∀ j, j < off ∨ off + a.size ≤ j → (fun j => at0 a (j - off)) j = 0 := by
    intro j hj
    exact at0_out _ _ (by omega)
  -- common covering window
  let L := min off lo
  let N := (max (off + a.size) (lo + n) - L).toNat
  rw [← rsum_widen off a.size L N hs0 (by omega) (by omega)]
  exact rsum_widen lo n L N hsupp (by omega) (by omega)

/-- a window covering two arrays (placed at their offsets) -/
theorem sum_cover2 (a b : Array Rat) (oa ob : Int) :
    ∃ lo n, a.toList.sum = rsum (fun j => at0 a (j - oa)) lo n ∧
            b.toList.sum = rsum (fun j => at0 b (j - ob)) lo n := by
  refine ⟨min oa ob, (max (oa + a.size) (ob + b.size) - min oa ob).toNat, ?_, ?_⟩
  · exact sum_eq_window a oa _ _ (fun j hj => at0_out _ _ (by omega))
  · exact sum_eq_window b ob _ _ (fun j hj => at0_out _ _ (by omega))

theorem sum_cover3 (a b c : Array Rat) (oa ob oc : Int) :
    ∃ lo n, a.toList.sum = rsum (fun j => at0 a (j - oa)) lo n ∧
            b.toList.sum = rsum (fun j => at0 b (j - ob)) lo n ∧
            c.toList.sum = rsum (fun j => at0 c (j - oc)) lo n := by
  refine ⟨min (min oa ob) oc,
    (max (max (oa + a.size) (ob + b.size)) (oc + c.size) - min (min oa ob) oc).toNat, ?_, ?_, ?_⟩
  · exact sum_eq_window a oa _ _ (fun j hj => at0_out _ _ (by omega))
  · exact sum_eq_window b ob _ _ (fun j hj => at0_out _ _ (by omega))
  · exact sum_eq_window c oc _ _ (fun j hj => at0_out _ _ (by omega))

/-- equal pointwise content (up to the offsets) gives equal sums -/
theorem sum_eq_of_wt (a b : Array Rat) (oa ob : Int)
    (h : ∀ j, at0 b (j - ob) = at0 a (j - oa)) : b.toList.sum = a.toList.sum := by
  obtain ⟨lo, n, h1, h2⟩ := sum_cover2 a b oa ob
  rw [h1, h2]
  exact rsum_congr lo n (fun j _ _ => h j)

theorem sum_nonneg_of (a : Array Rat) (h : ∀ j, 0 ≤ at0 a j) : 0 ≤ a.toList.sum := by
  rw [sum_eq_rsum a 0]
  exact rsum_nonneg _ _ (fun j => h _)

theorem sum_pos_of (a : Array Rat) (h : ∀ j, 0 ≤ at0 a j) (i : Int) (hp : 0 < at0 a i) :
    0 < a.toList.sum := by
  rw [sum_eq_rsum a 0]
  have hi : 0 ≤ i ∧ i < a.size := by
    apply Classical.byContradiction
    intro hc
    rw [at0_out a i hc] at hp
    exact absurd hp (by simp)
  exact rsum_pos 0 a.size (fun j => h _) i (by omega) (by simpa using hp)

theorem all_zero_of_sum_zero (a : Array Rat) (h : ∀ j, 0 ≤ at0 a j) (hs : a.toList.sum = 0) :
    ∀ j, at0 a j = 0 := by
  intro j
  apply Classical.byContradiction
  intro hne
  have h1 := h j
  have : 0 < at0 a j := by grind
  have := sum_pos_of a h j this
  grind

/-! ## the invariant -/

/-- the weight held at index `i` -/
def wt (s : DStore) (i : Int) : Rat := at0 s.bins (i - s.offset)

/-- "zero outside the window `[minIndex, maxIndex]`" -/
def ZeroOut (s : DStore) : Prop := ∀ i, (i < s.minIndex ∨ s.maxIndex < i) → wt s i = 0

/-- Invariant of the plain dense store.

  Difference from the first draft: the tightness clauses `0 < wt s s.minIndex`,
  `0 < wt s s.maxIndex` are FALSE for indexes outside the int32 range (an empty store starts
  from `minIndex = MaxInt32`, `maxIndex = MinInt32`, and `extendRange` takes `min`/`max` with
  these sentinels), so they are weakened to `… ∨ minIndex = maxInt32`, `… ∨ maxIndex = minInt32`.
  Under `Bounded32` (all weight sits on int32 indexes) the original clauses are recovered
  (`tight_min`, `tight_max`). -/
structure Inv (s : DStore) : Prop where
  plain   : s.kind = .plain
  nonneg  : ∀ j, 0 ≤ at0 s.bins j
  countEq : s.count = s.bins.toList.sum
  empty   : s.count = 0 → s.bins.size = 0 ∧ s.minIndex = maxInt32 ∧ s.maxIndex = minInt32
  window  : s.count ≠ 0 → s.offset ≤ s.minIndex ∧ s.minIndex ≤ s.maxIndex ∧
              s.maxIndex < s.offset + s.len ∧
              (0 < wt s s.minIndex ∨ s.minIndex = maxInt32) ∧
              (0 < wt s s.maxIndex ∨ s.maxIndex = minInt32)
  outside : ∀ i, (i < s.minIndex ∨ s.maxIndex < i) → wt s i = 0

/-- all the weight sits on indexes representable as int32 -/
def Bounded32 (s : DStore) : Prop := ∀ j, wt s j ≠ 0 → minInt32 ≤ j ∧ j ≤ maxInt32

/-- the window the store would have to cover after absorbing the indexes `[a, b]` spans
    fewer than `2^33` indexes: what `GrowthOK` needs.  Automatic when all indexes are int32
    (`spanOK_of_bounded32`); false e.g. for a store holding index `0` asked to absorb `2^62`
    (`addWithCount_far_panics`). -/
def SpanOK (s : DStore) (a b : Int) : Prop := max b s.maxIndex - min a s.minIndex < 2^33

/-- under the invariant and `Bounded32` the window bounds are int32 (sentinels included) -/
theorem Inv.window32 {s : DStore} (h : Inv s) (hb : Bounded32 s) :
    minInt32 ≤ s.minIndex ∧ s.minIndex ≤ maxInt32 ∧ minInt32 ≤ s.maxIndex ∧ s.maxIndex ≤ maxInt32 := by
  by_cases h0 : s.count = 0
  · obtain ⟨_, h1, h2⟩ := h.empty h0
    rw [h1, h2]; simp only [maxInt32, minInt32]; omega
  · obtain ⟨_, w2, _, w4, w5⟩ := h.window h0
    have a : minInt32 ≤ s.minIndex ∧ s.minIndex ≤ maxInt32 := by
      rcases w4 with hp | hp
      · exact hb _ (by intro hz; rw [hz] at hp; exact absurd hp (by decide))
      · rw [hp]; simp only [maxInt32, minInt32]; omega
    have b : minInt32 ≤ s.maxIndex ∧ s.maxIndex ≤ maxInt32 := by
      rcases w5 with hp | hp
      · exact hb _ (by intro hz; rw [hz] at hp; exact absurd hp (by decide))
      · rw [hp]; simp only [maxInt32, minInt32]; omega
    exact ⟨a.1, a.2, b.1, b.2⟩

/-- int32 indexes never need a span of `2^33` or more -/
theorem spanOK_of_bounded32 (s : DStore) (h : Inv s) (hb : Bounded32 s) (a b : Int)
    (ha : minInt32 ≤ a ∧ a ≤ maxInt32) (hb' : minInt32 ≤ b ∧ b ≤ maxInt32) : SpanOK s a b := by
  obtain ⟨w1, w2, w3, w4⟩ := h.window32 hb
  unfold SpanOK
  simp only [maxInt32, minInt32] at *
  omega

theorem inv_new : Inv (DStore.new .plain) where
  plain := rfl
  nonneg := by intro j; simp [DStore.new, at0_empty]
  countEq := by simp [DStore.new]
  empty := by intro _; simp [DStore.new]
  window := by intro h; exact absurd rfl h
  outside := by intro i _; simp [wt, DStore.new, at0_empty]

theorem bounded32_new : Bounded32 (DStore.new .plain) := by
  intro j h; simp [wt, DStore.new, at0_empty] at h

theorem Inv.count_nonneg {s : DStore} (h : Inv s) : 0 ≤ s.count := by
  rw [h.countEq]; exact sum_nonneg_of _ h.nonneg

theorem Inv.wt_nonneg {s : DStore} (h : Inv s) (j : Int) : 0 ≤ wt s j := h.nonneg _

theorem Inv.wt_zero_of_empty {s : DStore} (h : Inv s) (h0 : s.count = 0) (j : Int) : wt s j = 0 := by
  have := (h.empty h0).1
  exact at0_out _ _ (by omega)

/-! ## `resetBins` -/

/-- `resetBins` zeroes exactly `[a, b]` and keeps everything else -/
theorem resetBins_spec (s : DStore) (a b : Int)
    (h : b < a ∨ (s.offset ≤ a ∧ b < s.offset + s.len)) :
    ∃ nb, s.resetBins a b = some { s with bins := nb } ∧ nb.size = s.bins.size ∧
      ∀ j, at0 nb (j - s.offset) = if a ≤ j ∧ j ≤ b then 0 else wt s j := by
  by_cases hba : b < a
  · refine ⟨s.bins, ?_, rfl, ?_⟩
    · simp only [resetBins]
      rw [if_pos (by omega)]
    · intro j; rw [if_neg (by omega)]; rfl
  · have h' := h.resolve_left hba
    refine ⟨tabulate s.bins.size (fun j =>
      if a - s.offset ≤ j ∧ j ≤ b - s.offset then 0 else at0 s.bins j), ?_, size_tabulate _ _, ?_⟩
    · simp only [resetBins]
      rw [if_neg (by omega), if_pos (by unfold len at *; omega)]
    · intro j
      rw [at0_tabulate]
      unfold wt
      by_cases hj : a ≤ j ∧ j ≤ b
      · rw [if_pos hj]
        split
        · rw [if_pos (by omega)]
        · rfl
      · rw [if_neg hj]
        split
        · rw [if_neg (by omega)]
        · rw [at0_out]; assumption

/-- `resetBins` panics iff the (non-empty) range is not inside the array -/
theorem resetBins_none (s : DStore) (a b : Int) (hab : a ≤ b)
    (h : ¬ (s.offset ≤ a ∧ b < s.offset + s.len)) : s.resetBins a b = none := by
  simp only [resetBins]
  rw [if_neg (by omega), if_neg (by omega)]

theorem resetBins_isSome_iff (s : DStore) (a b : Int) :
    (s.resetBins a b).isSome ↔ (b < a ∨ (s.offset ≤ a ∧ b < s.offset + s.len)) := by
  constructor
  · intro h
    apply Classical.byContradiction
    intro hc
    rw [resetBins_none s a b (by omega) (by omega)] at h
    simp at h
  · intro h
    obtain ⟨nb, h1, _⟩ := resetBins_spec s a b h
    simp [h1]

/-! ## `shiftCounts` -/

theorem shiftCounts_spec (s : DStore) (shift : Int) (hz : ZeroOut s)
    (hmm : s.minIndex ≤ s.maxIndex) (hlo : s.offset ≤ s.minIndex)
    (hhi : s.maxIndex < s.offset + s.len)
    (h1 : 0 ≤ s.minIndex - s.offset + shift) (h2 : s.maxIndex - s.offset + shift < s.len) :
    ∃ nb, s.shiftCounts shift = some { s with bins := nb, offset := s.offset - shift } ∧
      nb.size = s.bins.size ∧ ∀ j, at0 nb (j - (s.offset - shift)) = wt s j := by
  have hz' : ∀ q, q < s.minIndex - s.offset ∨ s.maxIndex - s.offset < q → at0 s.bins q = 0 := by
    intro q hq
    have := hz (q + s.offset) (by omega)
    unfold wt at this
    rwa [show q + s.offset - s.offset = q by omega] at this
  have hlen : s.len = (s.bins.size : Int) := rfl
  simp only [shiftCounts]
  rw [if_neg (by omega)]
  -- the state after the memmove
  generalize hmv : ({ s with bins := tabulate s.bins.size (fun j =>
      if s.minIndex - s.offset + shift ≤ j ∧
          j < s.minIndex - s.offset + shift +
            min (s.len - (s.minIndex - s.offset + shift)) (s.maxIndex - s.offset + 1 - (s.minIndex - s.offset))
        then at0 s.bins (j - shift) else at0 s.bins j) } : DStore) = moved
  have hmoff : moved.offset = s.offset := by rw [← hmv]
  have hmlen : moved.len = s.len := by rw [← hmv]; simp [len]
  have hmsize : moved.bins.size = s.bins.size := by rw [← hmv]; simp
  have hmwt : ∀ p, at0 moved.bins p = if 0 ≤ p ∧ p < s.len then
      (if s.minIndex - s.offset + shift ≤ p ∧
          p < s.minIndex - s.offset + shift +
            min (s.len - (s.minIndex - s.offset + shift)) (s.maxIndex - s.offset + 1 - (s.minIndex - s.offset))
        then at0 s.bins (p - shift) else at0 s.bins p) else 0 := by
    intro p; rw [← hmv]; simp only [at0_tabulate]; rfl
  have hfin : ∀ (a b : Int) (hab : b < a ∨ (moved.offset ≤ a ∧ b < moved.offset + moved.len))
      (hrange : ∀ j, a ≤ j ∧ j ≤ b ↔
        ((0 < shift ∧ s.minIndex ≤ j ∧ j ≤ s.minIndex + shift - 1) ∨
         (shift < 0 ∧ s.maxIndex + shift + 1 ≤ j ∧ j ≤ s.maxIndex))),
      ∃ nb, Option.map (fun t : DStore => { t with offset := t.offset - shift }) (moved.resetBins a b)
          = some { s with bins := nb, offset := s.offset - shift } ∧
        nb.size = s.bins.size ∧ ∀ j, at0 nb (j - (s.offset - shift)) = wt s j := by
    intro a b hab hrange
    obtain ⟨nb, hr, hsz, hw⟩ := resetBins_spec moved a b hab
    refine ⟨nb, ?_, by rw [hsz, hmsize], ?_⟩
    · rw [hr, ← hmv]; rfl
    · intro j
      have := hw (j + shift)
      rw [hmoff] at this
      rw [show j - (s.offset - shift) = j + shift - s.offset by omega, this]
      unfold wt
      rw [hmoff, hmwt]
      have hr' := hrange (j + shift)
      by_cases hq : s.minIndex ≤ j ∧ j ≤ s.maxIndex
      · -- a position of the old window: moved, not reset
        rw [if_neg (by omega), if_pos (by omega), if_pos (by omega)]
        congr 1; omega
      · rw [hz' (j - s.offset) (by omega)]
        split
        · rfl
        · split
          · split
            · exact hz' _ (by omega)
            · exact hz' _ (by omega)
          · rfl
  by_cases hs : shift > 0
  · rw [if_pos hs]
    apply hfin
    · right; rw [hmoff, hmlen]; omega
    · intro j; omega
  · rw [if_neg hs]
    apply hfin
    · rw [hmoff, hmlen]; omega
    · intro j; omega

/-! ## `centerCounts` -/

theorem centerCounts_spec (s : DStore) (newMin newMax : Int) (hz : ZeroOut s)
    (hmm : s.minIndex ≤ s.maxIndex) (hlo : s.offset ≤ s.minIndex)
    (hhi : s.maxIndex < s.offset + s.len)
    (hfit : newMax - newMin + 1 ≤ s.len) (hsub : newMin ≤ s.minIndex ∧ s.maxIndex ≤ newMax) :
    ∃ nb off', s.centerCounts newMin newMax =
        some { s with bins := nb, offset := off', minIndex := newMin, maxIndex := newMax } ∧
      nb.size = s.bins.size ∧ off' ≤ newMin ∧ newMax < off' + s.len ∧
      ∀ j, at0 nb (j - off') = wt s j := by
  have hd : 0 ≤ newMax - newMin + 1 := by omega
  have hl : 0 ≤ s.len := by unfold len; omega
  obtain ⟨nb, hsc, hsz, hw⟩ := shiftCounts_spec s
    (s.offset + s.len / 2 - (newMin + (newMax - newMin + 1) / 2)) hz hmm hlo hhi
    (by omega) (by omega)
  refine ⟨nb, s.offset - (s.offset + s.len / 2 - (newMin + (newMax - newMin + 1) / 2)), ?_, hsz,
    by omega, by omega, hw⟩
  simp only [centerCounts]
  rw [Int.tdiv_eq_ediv_of_nonneg hd, Int.tdiv_eq_ediv_of_nonneg hl, hsc]
  rfl

/-! ## `extendRange` -/

theorem getNewLength_plain (s : DStore) (hp : s.kind = .plain) (a b : Int) :
    s.getNewLength a b = denseNewLength a b := by
  unfold getNewLength
  rw [hp]
  cases denseNewLength a b <;> rfl

theorem adjust_plain (s : DStore) (hp : s.kind = .plain) (a b : Int) :
    s.adjust a b = s.centerCounts a b := by
  unfold adjust
  rw [hp]

theorem grow_spec (s : DStore) (k : Int) (hk : 0 ≤ k) :
    s.grow k = some { s with bins := s.bins ++ Array.replicate k.toNat 0 } := by
  unfold grow
  rw [if_neg (by omega)]

/-- `adjust` of the plain store (= `centerCounts`): no panic, content preserved -/
theorem adjust_spec (t : DStore) (hp : t.kind = .plain) (hz : ZeroOut t)
    (hmm : t.minIndex ≤ t.maxIndex) (hlo : t.offset ≤ t.minIndex)
    (hhi : t.maxIndex < t.offset + t.len) (newMin newMax : Int)
    (hfit : newMax - newMin + 1 ≤ t.len) (hsub : newMin ≤ t.minIndex ∧ t.maxIndex ≤ newMax) :
    ∃ s', t.adjust newMin newMax = some s' ∧ s'.kind = .plain ∧ s'.count = t.count ∧
      s'.minIndex = newMin ∧ s'.maxIndex = newMax ∧ s'.offset ≤ newMin ∧
      newMax < s'.offset + s'.len ∧ s'.len = t.len ∧ ∀ j, wt s' j = wt t j := by
  obtain ⟨nb, off', hc, hsz, h1, h2, hw⟩ := centerCounts_spec t newMin newMax hz hmm hlo hhi hfit hsub
  refine ⟨{ t with bins := nb, offset := off', minIndex := newMin, maxIndex := newMax },
    by rw [adjust_plain t hp, hc], hp, rfl, rfl, rfl, h1, ?_, ?_, hw⟩
  · simp only [len, hsz]; exact h2
  · simp only [len, hsz]

theorem extendRange_spec (hG : GrowthOK) (s : DStore) (h : Inv s) (a b : Int) (hab : a ≤ b)
    (hsp : SpanOK s a b) :
    ∃ s', s.extendRange a b = some s' ∧ s'.kind = .plain ∧ s'.count = s.count ∧
      s'.minIndex = min a s.minIndex ∧ s'.maxIndex = max b s.maxIndex ∧
      s'.offset ≤ s'.minIndex ∧ s'.maxIndex < s'.offset + s'.len ∧
      (∀ j, wt s' j = wt s j) := by
  simp only [extendRange]
  by_cases h0 : s.count = 0
  · rw [if_pos h0, getNewLength_plain s h.plain]
    obtain ⟨hsz, hmin, hmax⟩ := h.empty h0
    obtain ⟨L, hL, hLge⟩ := hG (min a s.minIndex) (max b s.maxIndex) (by omega) hsp
    rw [hL]
    simp only [Option.bind_eq_bind, Option.bind_some]
    rw [grow_spec s L (by omega)]
    simp only [Option.bind_some, h.plain]
    have hlen : ∀ (o m M : Int) (c : Bool),
        ({ kind := DKind.plain, bins := s.bins ++ Array.replicate L.toNat 0,
           count := s.count, offset := o, minIndex := m, maxIndex := M, isCollapsed := c } : DStore).len = L := by
      intro o m M c; simp [len, hsz]; omega
    obtain ⟨s', hs', hk, hc, hmi, hma, ho1, ho2, _, hw⟩ := adjust_spec
      { kind := DKind.plain, bins := s.bins ++ Array.replicate L.toNat 0, count := s.count,
        offset := min a s.minIndex, minIndex := min a s.minIndex, maxIndex := max b s.maxIndex,
        isCollapsed := s.isCollapsed } rfl
      (by intro i _; simp only [wt, at0_append_replicate]; exact at0_out _ _ (by omega))
      (by simp only; omega) (by simp only; omega) (by rw [hlen]; simp only; omega)
      (min a s.minIndex) (max b s.maxIndex) (by rw [hlen]; omega) (by simp only; omega)
    refine ⟨s', hs', hk, hc, hmi, hma, by omega, by omega, ?_⟩
    intro j
    rw [hw]
    simp only [wt, at0_append_replicate]
    rw [at0_out _ _ (by omega), at0_out _ _ (by omega)]
  · rw [if_neg h0]
    obtain ⟨w1, w2, w3, _, _⟩ := h.window h0
    by_cases hin : min a s.minIndex ≥ s.offset ∧ max b s.maxIndex < s.offset + s.len
    · rw [if_pos hin]
      exact ⟨_, rfl, h.plain, rfl, rfl, rfl, hin.1, hin.2, fun j => rfl⟩
    · rw [if_neg hin, getNewLength_plain s h.plain]
      obtain ⟨L, hL, hLge⟩ := hG (min a s.minIndex) (max b s.maxIndex) (by omega) hsp
      rw [hL]
      simp only [Option.bind_eq_bind, Option.bind_some]
      by_cases hgt : L > s.len
      · rw [if_pos hgt, grow_spec s _ (by omega)]
        simp only [Option.bind_some]
        have hlen : ({ s with bins := s.bins ++ Array.replicate (L - s.len).toNat 0 } : DStore).len = L := by
          simp [len] at hgt ⊢; omega
        obtain ⟨s', hs', hk, hc, hmi, hma, ho1, ho2, _, hw⟩ := adjust_spec
          { s with bins := s.bins ++ Array.replicate (L - s.len).toNat 0 } h.plain
          (by intro i hi; simp only [wt, at0_append_replicate]; exact h.outside i hi)
          w2 w1 (by rw [hlen]; simp only; omega)
          (min a s.minIndex) (max b s.maxIndex) (by rw [hlen]; omega) (by simp only; omega)
        refine ⟨s', hs', hk, hc, hmi, hma, by omega, by omega, ?_⟩
        intro j
        rw [hw]
        simp only [wt, at0_append_replicate]
      · rw [if_neg hgt]
        simp only [Option.pure_def, Option.bind_some]
        obtain ⟨s', hs', hk, hc, hmi, hma, ho1, ho2, _, hw⟩ := adjust_spec s h.plain h.outside
          w2 w1 w3 (min a s.minIndex) (max b s.maxIndex) (by omega) (by omega)
        exact ⟨s', hs', hk, hc, hmi, hma, by omega, by omega, hw⟩

/-! ## `normalize` / `addWithCount` -/

theorem at0_eq_wt (s : DStore) (p : Int) : at0 s.bins p = wt s (p + s.offset) := by
  unfold wt; congr 1; omega

theorem nonneg_of_wt (s : DStore) (h : ∀ j, 0 ≤ wt s j) : ∀ p, 0 ≤ at0 s.bins p := by
  intro p; rw [at0_eq_wt]; exact h _

/-- changing one array position by `w` changes the sum by `w` -/
theorem sum_point (a b : Array Rat) (i : Int) (w : Rat) (hi : 0 ≤ i ∧ i < a.size)
    (hsz : b.size = a.size) (h : ∀ j, at0 b j = at0 a j + if j = i then w else 0) :
    b.toList.sum = a.toList.sum + w := by
  rw [sum_eq_rsum a 0, sum_eq_rsum b 0, hsz]
  rw [rsum_congr (g := fun j => at0 a (j - 0) + (if j = i then w else 0)) 0 a.size
    (fun j _ _ => by simp only [Int.sub_zero]; exact h j)]
  rw [rsum_add (fun j => at0 a (j - 0)) (fun j => if j = i then w else 0), rsum_point,
    if_pos (by omega)]

theorem normalize_spec (hG : GrowthOK) (s : DStore) (h : Inv s) (i : Int) (hsp : SpanOK s i i) :
    ∃ t, s.normalize i = some (t, i - t.offset) ∧ t.kind = .plain ∧ t.count = s.count ∧
      t.minIndex = min i s.minIndex ∧ t.maxIndex = max i s.maxIndex ∧
      t.offset ≤ t.minIndex ∧ t.maxIndex < t.offset + t.len ∧ ∀ j, wt t j = wt s j := by
  unfold normalize
  simp only [h.plain]
  by_cases hc : i < s.minIndex ∨ i > s.maxIndex
  · rw [if_pos hc]
    obtain ⟨t, ht, r⟩ := extendRange_spec hG s h i i (Int.le_refl _) hsp
    refine ⟨t, ?_, r⟩
    rw [ht]; rfl
  · rw [if_neg hc]
    have h0 : s.count ≠ 0 := by
      intro h0
      obtain ⟨_, h1, h2⟩ := h.empty h0
      simp only [maxInt32, minInt32] at h1 h2
      omega
    obtain ⟨w1, w2, w3, _, _⟩ := h.window h0
    exact ⟨s, rfl, h.plain, rfl, by omega, by omega, w1, w3, fun j => rfl⟩

theorem addWithCount_full (hG : GrowthOK) (s : DStore) (h : Inv s) (i : Int) (w : Rat) (hw : 0 ≤ w)
    (hsp : SpanOK s i i) :
    ∃ s', s.addWithCount i w = some s' ∧ Inv s' ∧
      (∀ j, wt s' j = wt s j + (if j = i then w else 0)) ∧ s'.count = s.count + w ∧
      (w ≠ 0 → s'.minIndex = min i s.minIndex ∧ s'.maxIndex = max i s.maxIndex) := by
  unfold addWithCount
  by_cases hw0 : w = 0
  · rw [if_pos hw0]
    refine ⟨s, rfl, h, ?_, by rw [hw0]; grind, fun hne => absurd hw0 hne⟩
    intro j; rw [hw0]; split <;> grind
  · rw [if_neg hw0]
    have hwpos : 0 < w := by grind
    obtain ⟨t, hn, hk, hc, hmi, hma, ho1, ho2, hwt⟩ := normalize_spec hG s h i hsp
    have hin : 0 ≤ i - t.offset ∧ i - t.offset < t.bins.size := by
      unfold len at ho2; omega
    obtain ⟨nb, hadd, hsz, hat⟩ := addAt_eq t.bins (i - t.offset) w hin
    rw [hn]
    simp only [Option.bind_eq_bind, Option.bind_some, hadd, Option.pure_def]
    have hcnn := h.count_nonneg
    have hwt' : ∀ j, wt ({ t with bins := nb, count := t.count + w } : DStore) j
        = wt s j + (if j = i then w else 0) := by
      intro j
      have e := hwt j
      simp only [wt] at e ⊢
      rw [hat, e]
      congr 1
      by_cases hj : j = i
      · rw [if_pos hj, if_pos (by omega)]
      · rw [if_neg hj, if_neg (by omega)]
    have hnn' : ∀ j, 0 ≤ wt ({ t with bins := nb, count := t.count + w } : DStore) j := by
      intro j; rw [hwt']; have := h.wt_nonneg j; split <;> grind
    refine ⟨_, rfl, ?_, hwt', by simp only [hc], fun _ => ⟨hmi, hma⟩⟩
    refine
      { plain := hk
        nonneg := nonneg_of_wt _ hnn'
        countEq := ?_
        empty := ?_
        window := ?_
        outside := ?_ }
    · -- countEq
      show t.count + w = nb.toList.sum
      rw [sum_point t.bins nb (i - t.offset) w hin hsz hat, hc, h.countEq]
      congr 1
      exact (sum_eq_of_wt s.bins t.bins s.offset t.offset hwt).symm
    · intro h0
      simp only [hc] at h0
      grind
    · intro _
      refine ⟨ho1, by simp only [hmi, hma]; omega, by simp only [len, hsz]; exact ho2, ?_, ?_⟩
      · -- lower tightness
        simp only [hwt']
        show (0 < wt s t.minIndex + (if t.minIndex = i then w else 0)) ∨ t.minIndex = maxInt32
        by_cases hlt : i < s.minIndex
        · left
          have : t.minIndex = i := by omega
          rw [if_pos this]
          have := h.wt_nonneg t.minIndex
          grind
        · have hmin : t.minIndex = s.minIndex := by omega
          by_cases h0 : s.count = 0
          · right; rw [hmin]; exact (h.empty h0).2.1
          · rcases (h.window h0).2.2.2.1 with hp | hp
            · left; rw [hmin]; split <;> grind
            · right; rw [hmin]; exact hp
      · simp only [hwt']
        show (0 < wt s t.maxIndex + (if t.maxIndex = i then w else 0)) ∨ t.maxIndex = minInt32
        by_cases hlt : s.maxIndex < i
        · left
          have : t.maxIndex = i := by omega
          rw [if_pos this]
          have := h.wt_nonneg t.maxIndex
          grind
        · have hmax : t.maxIndex = s.maxIndex := by omega
          by_cases h0 : s.count = 0
          · right; rw [hmax]; exact (h.empty h0).2.2
          · rcases (h.window h0).2.2.2.2 with hp | hp
            · left; rw [hmax]; split <;> grind
            · right; rw [hmax]; exact hp
    · intro j hj
      rw [hwt']
      have hj' : (j < t.minIndex ∨ t.maxIndex < j) := hj
      rw [h.outside j (by omega), if_neg (by omega)]
      grind

/-- no panic, invariant kept, exactly one index changes by exactly `w`
    (`hsp`: the widened window spans fewer than `2^33` indexes — `spanOK_of_bounded32`) -/
theorem addWithCount_ok (hG : GrowthOK) (s : DStore) (h : Inv s) (i : Int) (w : Rat) (hw : 0 ≤ w)
    (hsp : SpanOK s i i) :
    ∃ s', s.addWithCount i w = some s' ∧ Inv s' ∧
      (∀ j, wt s' j = wt s j + (if j = i then w else 0)) ∧ s'.count = s.count + w := by
  obtain ⟨s', h1, h2, h3, h4, _⟩ := addWithCount_full hG s h i w hw hsp
  exact ⟨s', h1, h2, h3, h4⟩

theorem addWithCount_bounded32 (hG : GrowthOK) (s : DStore) (h : Inv s) (hb : Bounded32 s)
    (i : Int) (w : Rat) (hw : 0 ≤ w) (hi : minInt32 ≤ i ∧ i ≤ maxInt32) :
    ∀ s', s.addWithCount i w = some s' → Bounded32 s' := by
  intro s' hs'
  obtain ⟨s'', h1, _, h2, _⟩ := addWithCount_ok hG s h i w hw
    (spanOK_of_bounded32 s h hb i i hi hi)
  rw [h1] at hs'
  cases hs'
  intro j hj
  rw [h2] at hj
  by_cases hji : j = i
  · rw [hji]; exact hi
  · rw [if_neg hji] at hj
    exact hb j (by grind)

/-! ## observers -/

theorem totalCount_eq (s : DStore) (_h : Inv s) : s.totalCount = s.count := rfl

/-- the count is the sum of the weights over the window -/
theorem count_eq_window (s : DStore) (h : Inv s) :
    s.count = rsum (wt s) s.minIndex (s.maxIndex - s.minIndex + 1).toNat := by
  rw [h.countEq]
  exact sum_eq_window s.bins s.offset s.minIndex _ (fun j hj => h.outside j (by omega))

theorem isEmpty_iff_count (s : DStore) : s.isEmpty = true ↔ s.count = 0 := by
  simp [isEmpty]

theorem count_zero_iff (s : DStore) (h : Inv s) : s.count = 0 ↔ ∀ j, wt s j = 0 := by
  constructor
  · exact fun h0 j => h.wt_zero_of_empty h0 j
  · intro hz
    rw [h.countEq, sum_eq_rsum s.bins s.offset]
    exact rsum_zero _ _ (fun j _ _ => hz j)

theorem isEmpty_iff (s : DStore) (h : Inv s) : s.isEmpty = true ↔ ∀ j, wt s j = 0 :=
  (isEmpty_iff_count s).trans (count_zero_iff s h)

/-- under `Bounded32` the window bounds carry weight (the clause of the first-draft invariant) -/
theorem tight_min (s : DStore) (h : Inv s) (hb : Bounded32 s) (h0 : s.count ≠ 0) :
    0 < wt s s.minIndex := by
  rcases (h.window h0).2.2.2.1 with hp | hp
  · exact hp
  · apply Classical.byContradiction
    intro hn
    apply h0
    rw [count_zero_iff s h]
    intro j
    apply Classical.byContradiction
    intro hj
    have h1 := hb j hj
    have h2 : ¬ (j < s.minIndex ∨ s.maxIndex < j) := fun hc => hj (h.outside j hc)
    have : j = s.minIndex := by omega
    rw [this] at hj
    have := h.wt_nonneg s.minIndex
    grind

theorem tight_max (s : DStore) (h : Inv s) (hb : Bounded32 s) (h0 : s.count ≠ 0) :
    0 < wt s s.maxIndex := by
  rcases (h.window h0).2.2.2.2 with hp | hp
  · exact hp
  · apply Classical.byContradiction
    intro hn
    apply h0
    rw [count_zero_iff s h]
    intro j
    apply Classical.byContradiction
    intro hj
    have h1 := hb j hj
    have h2 : ¬ (j < s.minIndex ∨ s.maxIndex < j) := fun hc => hj (h.outside j hc)
    have : j = s.maxIndex := by omega
    rw [this] at hj
    have := h.wt_nonneg s.maxIndex
    grind

theorem minIndex?_eq (s : DStore) (k : Int) (hk : s.minIndex? = some k) :
    s.count ≠ 0 ∧ k = s.minIndex := by
  unfold minIndex? at hk
  by_cases he : s.isEmpty = true
  · rw [if_pos he] at hk; cases hk
  · rw [if_neg he] at hk
    cases hk
    exact ⟨fun h0 => he ((isEmpty_iff_count s).2 h0), rfl⟩

theorem maxIndex?_eq (s : DStore) (k : Int) (hk : s.maxIndex? = some k) :
    s.count ≠ 0 ∧ k = s.maxIndex := by
  unfold maxIndex? at hk
  by_cases he : s.isEmpty = true
  · rw [if_pos he] at hk; cases hk
  · rw [if_neg he] at hk
    cases hk
    exact ⟨fun h0 => he ((isEmpty_iff_count s).2 h0), rfl⟩

/-- general form (any `Int` index): `MinIndex()` is a lower bound of the support; it carries
    weight unless it is the sentinel `MaxInt32` -/
theorem minIndex_spec' (s : DStore) (h : Inv s) (k : Int) (hk : s.minIndex? = some k) :
    (0 < wt s k ∨ k = maxInt32) ∧ ∀ j, j < k → wt s j = 0 := by
  obtain ⟨h0, rfl⟩ := minIndex?_eq s k hk
  exact ⟨(h.window h0).2.2.2.1, fun j hj => h.outside j (Or.inl hj)⟩

theorem maxIndex_spec' (s : DStore) (h : Inv s) (k : Int) (hk : s.maxIndex? = some k) :
    (0 < wt s k ∨ k = minInt32) ∧ ∀ j, k < j → wt s j = 0 := by
  obtain ⟨h0, rfl⟩ := maxIndex?_eq s k hk
  exact ⟨(h.window h0).2.2.2.2, fun j hj => h.outside j (Or.inr hj)⟩

/-- the requested statement holds when all weight sits on int32 indexes -/
theorem minIndex_spec (s : DStore) (h : Inv s) (hb : Bounded32 s) (k : Int)
    (hk : s.minIndex? = some k) : 0 < wt s k ∧ ∀ j, j < k → wt s j = 0 := by
  obtain ⟨h0, rfl⟩ := minIndex?_eq s k hk
  exact ⟨tight_min s h hb h0, fun j hj => h.outside j (Or.inl hj)⟩

theorem maxIndex_spec (s : DStore) (h : Inv s) (hb : Bounded32 s) (k : Int)
    (hk : s.maxIndex? = some k) : 0 < wt s k ∧ ∀ j, k < j → wt s j = 0 := by
  obtain ⟨h0, rfl⟩ := maxIndex?_eq s k hk
  exact ⟨tight_max s h hb h0, fun j hj => h.outside j (Or.inr hj)⟩

theorem minIndex?_none_iff (s : DStore) (h : Inv s) : s.minIndex? = none ↔ ∀ j, wt s j = 0 := by
  rw [← isEmpty_iff s h]; unfold minIndex?; split <;> simp_all

theorem maxIndex?_none_iff (s : DStore) (h : Inv s) : s.maxIndex? = none ↔ ∀ j, wt s j = 0 := by
  rw [← isEmpty_iff s h]; unfold maxIndex?; split <;> simp_all

/-! ## loops over `idxRange` -/

def irange (lo : Int) (n : Nat) : List Int := (List.range n).map (fun (k : Nat) => lo + (k : Int))

theorem idxRange_eq (lo hi : Int) : idxRange lo hi = irange lo (hi - lo + 1).toNat := rfl

theorem irange_zero (lo : Int) : irange lo 0 = [] := rfl

theorem irange_succ_left (lo : Int) (n : Nat) : irange lo (n + 1) = lo :: irange (lo + 1) n := by
  simp only [irange, List.range_succ_eq_map, List.map_cons, List.map_map]
  congr 1
  · simp
  · apply List.map_congr_left
    intro k _
    simp only [Function.comp]
    omega

theorem irange_succ_right (lo : Int) (n : Nat) : irange lo (n + 1) = irange lo n ++ [lo + n] := by
  simp [irange, List.range_succ]

/-! ## `binsList` -/

theorem bins_loop (a : Array Rat) (off : Int) (n : Nat) (lo : Int)
    (hin : ∀ idx, lo ≤ idx → idx < lo + n → 0 ≤ idx - off ∧ idx - off < a.size) :
    ∃ l, (irange lo n).foldrM (fun idx acc => do
            let c ← rd a (idx - off)
            pure (if c > 0 then (idx, c) :: acc else acc)) [] = some l ∧
      (∀ p : Int × Rat, p ∈ l ↔ (lo ≤ p.1 ∧ p.1 < lo + n ∧ 0 < p.2 ∧ p.2 = at0 a (p.1 - off))) ∧
      l.Pairwise (fun x y => x.1 < y.1) := by
  induction n generalizing lo with
  | zero =>
    refine ⟨[], rfl, ?_, List.Pairwise.nil⟩
    intro p; simp; omega
  | succ n ih =>
    obtain ⟨l, hl, hmem, hpw⟩ := ih (lo + 1) (fun idx h1 h2 => hin idx (by omega) (by omega))
    rw [irange_succ_left, List.foldrM_cons, hl]
    simp only [Option.bind_eq_bind, Option.bind_some, rd_eq a (lo - off) (hin lo (by omega) (by omega)),
      Option.pure_def]
    by_cases hpos : at0 a (lo - off) > 0
    · rw [if_pos hpos]
      refine ⟨_, rfl, ?_, ?_⟩
      · intro p
        rw [List.mem_cons, hmem]
        constructor
        · rintro (rfl | ⟨h1, h2, h3, h4⟩)
          · exact ⟨by simp, by simp; omega, hpos, rfl⟩
          · exact ⟨by omega, by omega, h3, h4⟩
        · rintro ⟨h1, h2, h3, h4⟩
          by_cases hp : p.1 = lo
          · left
            rw [hp] at h4
            exact Prod.ext hp h4
          · right; exact ⟨by omega, by omega, h3, h4⟩
      · rw [List.pairwise_cons]
        refine ⟨?_, hpw⟩
        intro p hp
        have := (hmem p).1 hp
        simp only; omega
    · rw [if_neg hpos]
      refine ⟨l, rfl, ?_, hpw⟩
      intro p
      rw [hmem]
      constructor
      · rintro ⟨h1, h2, h3, h4⟩
        exact ⟨by omega, by omega, h3, h4⟩
      · rintro ⟨h1, h2, h3, h4⟩
        by_cases hp : p.1 = lo
        · rw [hp] at h4; rw [h4] at h3; exact absurd h3 hpos
        · exact ⟨by omega, by omega, h3, h4⟩

theorem binsList_spec (s : DStore) (h : Inv s) :
    ∃ l, s.binsList = some l ∧ (∀ p ∈ l, 0 < p.2 ∧ wt s p.1 = p.2) ∧
      (∀ j, 0 < wt s j → (j, wt s j) ∈ l) ∧ l.Pairwise (fun a b => a.1 < b.1) := by
  have hin : ∀ idx, s.minIndex ≤ idx → idx < s.minIndex + ((s.maxIndex - s.minIndex + 1).toNat : Int) →
      0 ≤ idx - s.offset ∧ idx - s.offset < s.bins.size := by
    intro idx h1 h2
    have h0 : s.count ≠ 0 := by
      intro h0
      obtain ⟨_, e1, e2⟩ := h.empty h0
      simp only [maxInt32, minInt32] at e1 e2
      omega
    obtain ⟨w1, w2, w3, _, _⟩ := h.window h0
    unfold len at w3
    omega
  obtain ⟨l, hl, hmem, hpw⟩ := bins_loop s.bins s.offset _ s.minIndex hin
  refine ⟨l, ?_, ?_, ?_, hpw⟩
  · unfold binsList; rw [idxRange_eq]; exact hl
  · intro p hp
    obtain ⟨_, _, h3, h4⟩ := (hmem p).1 hp
    exact ⟨h3, h4.symm⟩
  · intro j hj
    rw [hmem]
    have : ¬ (j < s.minIndex ∨ s.maxIndex < j) := by
      intro hc; rw [h.outside j hc] at hj; exact absurd hj (by grind)
    exact ⟨by simp only; omega, by simp only; omega, hj, rfl⟩

/-! ## `keyAtRank` -/

/-- cumulative weight `Σ_{j ≤ k} wt s j` (the array starts at `offset`; nothing lies below) -/
def cum (s : DStore) (k : Int) : Rat := rsum (wt s) s.offset (k - s.offset + 1).toNat

/-- `cum` does not depend on where the summation starts, as long as it is below the array -/
theorem cum_eq (s : DStore) (k lo : Int) (hlo : lo ≤ s.offset) :
    cum s k = rsum (wt s) lo (k - lo + 1).toNat := by
  unfold cum
  obtain ⟨a, ha⟩ : ∃ a : Nat, s.offset = lo + a := ⟨(s.offset - lo).toNat, by omega⟩
  have hz : ∀ m : Nat, m ≤ a → rsum (wt s) lo m = 0 := by
    intro m hm
    exact rsum_zero _ _ (fun j h1 h2 => at0_neg _ _ (by omega))
  by_cases hk : k < s.offset
  · rw [show (k - s.offset + 1).toNat = 0 by omega]
    rw [hz _ (by omega)]; rfl
  · rw [show (k - lo + 1).toNat = a + (k - s.offset + 1).toNat by omega, rsum_append, hz a (Nat.le_refl _),
      ← ha]
    grind

theorem cum_of_lt (s : DStore) (k : Int) (hk : k < s.offset) : cum s k = 0 := by
  unfold cum
  rw [show (k - s.offset + 1).toNat = 0 by omega]; rfl

theorem cum_at (s : DStore) (m : Nat) : cum s (m + s.offset) = rsum (at0 s.bins) 0 (m + 1) := by
  unfold cum
  rw [show ((m : Int) + s.offset - s.offset + 1).toNat = m + 1 by omega]
  have := rsum_shift (at0 s.bins) (-s.offset) s.offset (m + 1)
  rw [show s.offset + -s.offset = 0 by omega] at this
  rw [← this]
  rfl

theorem keyAtRank_go_spec (s : DStore) (rank : Rat) (f : Int → Rat) (l : List Rat) (i : Int) (n : Rat)
    (hf : ∀ k : Nat, k < l.length → f (i + k) = l[k]?.getD 0) (hn : n ≤ rank) :
    (∃ m : Nat, m < l.length ∧ keyAtRank.go s rank l i n = i + m + s.offset ∧
        rank < n + rsum f i (m + 1) ∧ ∀ m' : Nat, m' ≤ m → n + rsum f i m' ≤ rank) ∨
    (n + rsum f i l.length ≤ rank ∧ keyAtRank.go s rank l i n = s.maxIndex) := by
  induction l generalizing i n with
  | nil =>
    right
    refine ⟨?_, rfl⟩
    simp only [List.length_nil, rsum]; grind
  | cons b rest ih =>
    have h0 : f i = b := by
      have := hf 0 (by simp)
      simpa using this
    simp only [keyAtRank.go]
    by_cases hgt : n + b > rank
    · left
      refine ⟨0, by simp, ?_, ?_, ?_⟩
      · rw [if_pos hgt]; simp
      · simp only [rsum, Int.natCast_zero, Int.add_zero, h0]; grind
      · intro m' hm'
        have : m' = 0 := by omega
        subst this
        simp only [rsum]; grind
    · rw [if_neg hgt]
      have hf' : ∀ k : Nat, k < rest.length → f (i + 1 + k) = rest[k]?.getD 0 := by
        intro k hk
        have := hf (k + 1) (by simp; omega)
        simp at this
        rw [← this]; congr 1; omega
      rcases ih (i + 1) (n + b) hf' (by grind) with ⟨m, hm, hgo, hlt, hall⟩ | ⟨hle, hgo⟩
      · left
        refine ⟨m + 1, by simp; omega, ?_, ?_, ?_⟩
        · rw [hgo]; push_cast; omega
        · rw [rsum_succ_left, h0]; grind
        · intro m' hm'
          cases m' with
          | zero => simp only [rsum]; grind
          | succ m'' =>
            have := hall m'' (by omega)
            rw [rsum_succ_left, h0]; grind
      · right
        refine ⟨?_, hgo⟩
        rw [List.length_cons, rsum_succ_left, h0]; grind

/-- rank lookup: the first index whose cumulative weight exceeds `max r 0`, else `maxIndex` -/
theorem keyAtRank_spec (s : DStore) (h : Inv s) (r : Rat) :
    let k := s.keyAtRank r
    let r' := if r < 0 then 0 else r
    (r' < cum s k ∧ ∀ j, j < k → cum s j ≤ r') ∨ (s.count ≤ r' ∧ k = s.maxIndex) := by
  intro k r'
  have hr' : (0 : Rat) ≤ r' := by
    show (0 : Rat) ≤ if r < 0 then 0 else r
    split <;> grind
  have hf : ∀ m : Nat, m < s.bins.toList.length → at0 s.bins (0 + m) = s.bins.toList[m]?.getD 0 := by
    intro m _
    rw [Int.zero_add, at0_nat]; simp
  rcases keyAtRank_go_spec s r' (at0 s.bins) s.bins.toList 0 0 hf hr' with
    ⟨m, hm, hgo, hlt, hall⟩ | ⟨hle, hgo⟩
  · left
    have hk : k = m + s.offset := by
      show s.keyAtRank r = _
      unfold keyAtRank
      rw [hgo]; omega
    rw [hk, cum_at]
    refine ⟨by grind, ?_⟩
    intro j hj
    by_cases hjo : j < s.offset
    · rw [cum_of_lt s j hjo]; exact hr'
    · obtain ⟨m', hm'⟩ : ∃ m' : Nat, j = m' + s.offset := ⟨(j - s.offset).toNat, by omega⟩
      rw [hm', cum_at]
      have := hall (m' + 1) (by omega)
      grind
  · right
    refine ⟨?_, by show s.keyAtRank r = _; unfold keyAtRank; exact hgo⟩
    rw [h.countEq, sum_eq_rsum s.bins 0]
    simp only [Array.length_toList] at hle
    have : rsum (fun j => at0 s.bins (j - 0)) 0 s.bins.size = rsum (at0 s.bins) 0 s.bins.size :=
      rsum_congr _ _ (fun j _ _ => by simp)
    rw [this]; grind

/-! ## `mergeSame` (both plain), `mergeBins`, `clear`, `reweight` -/

theorem Inv.window_in {s : DStore} (h : Inv s) :
    ∀ idx, s.minIndex ≤ idx → idx < s.minIndex + ((s.maxIndex - s.minIndex + 1).toNat : Int) →
      0 ≤ idx - s.offset ∧ idx - s.offset < s.bins.size := by
  intro idx h1 h2
  have h0 : s.count ≠ 0 := by
    intro h0
    obtain ⟨_, e1, e2⟩ := h.empty h0
    simp only [maxInt32, minInt32] at e1 e2
    omega
  obtain ⟨w1, w2, w3, _, _⟩ := h.window h0
  unfold len at w3
  omega

theorem sum_add_of_wt (a b c : Array Rat) (oa ob oc : Int)
    (h : ∀ j, at0 c (j - oc) = at0 a (j - oa) + at0 b (j - ob)) :
    c.toList.sum = a.toList.sum + b.toList.sum := by
  obtain ⟨lo, n, h1, h2, h3⟩ := sum_cover3 a b c oa ob oc
  rw [h1, h2, h3, ← rsum_add]
  exact rsum_congr lo n (fun j _ _ => h j)

theorem sum_mul_of_wt (a c : Array Rat) (oa oc : Int) (w : Rat)
    (h : ∀ j, at0 c (j - oc) = at0 a (j - oa) * w) :
    c.toList.sum = a.toList.sum * w := by
  obtain ⟨lo, n, h1, h2⟩ := sum_cover2 a c oa oc
  rw [h1, h2, ← rsum_mul]
  exact rsum_congr lo n (fun j _ _ => h j)

theorem merge_loop (ob : Array Rat) (oo so : Int) (n : Nat) (lo : Int) (b : Array Rat)
    (hin : ∀ idx, lo ≤ idx → idx < lo + n →
      (0 ≤ idx - oo ∧ idx - oo < ob.size) ∧ (0 ≤ idx - so ∧ idx - so < b.size)) :
    ∃ b', (irange lo n).foldlM (fun b idx => do
            let c ← rd ob (idx - oo)
            addAt b (idx - so) c) b = some b' ∧ b'.size = b.size ∧
      ∀ j, at0 b' (j - so) = at0 b (j - so) + if lo ≤ j ∧ j < lo + n then at0 ob (j - oo) else 0 := by
  induction n with
  | zero =>
    refine ⟨b, rfl, rfl, ?_⟩
    intro j; rw [if_neg (by omega)]; grind
  | succ n ih =>
    obtain ⟨b1, hb1, hsz1, hat1⟩ := ih (fun idx h1 h2 => hin idx h1 (by omega))
    obtain ⟨hi1, hi2⟩ := hin (lo + n) (by omega) (by omega)
    obtain ⟨b2, hb2, hsz2, hat2⟩ := addAt_eq b1 (lo + n - so) (at0 ob (lo + n - oo)) (by rw [hsz1]; exact hi2)
    refine ⟨b2, ?_, by rw [hsz2, hsz1], ?_⟩
    · rw [irange_succ_right, List.foldlM_append, hb1]
      simp only [Option.bind_eq_bind, Option.bind_some, List.foldlM_cons, List.foldlM_nil, rd_eq ob _ hi1, hb2,
        Option.pure_def]
    · intro j
      rw [hat2, hat1]
      by_cases hj : j = lo + n
      · subst hj
        rw [if_neg (by omega), if_pos rfl, if_pos (by omega)]; grind
      · have hc : ¬ (j - so = lo + ↑n - so) := by omega
        rw [if_neg hc]
        by_cases hj2 : lo ≤ j ∧ j < lo + (n : Int)
        · rw [if_pos hj2, if_pos (by omega)]; grind
        · rw [if_neg hj2, if_neg (by omega)]; grind

theorem mergeSame_cont (s o s1 : DStore) (hs : Inv s) (ho : Inv o) (h0 : o.count ≠ 0)
    (hk : s1.kind = .plain) (hc : s1.count = s.count)
    (hmi : s1.minIndex = min o.minIndex s.minIndex) (hma : s1.maxIndex = max o.maxIndex s.maxIndex)
    (ho1 : s1.offset ≤ s1.minIndex) (ho2 : s1.maxIndex < s1.offset + s1.len)
    (hwt : ∀ j, wt s1 j = wt s j) :
    ∃ s', (do
        let b ← (idxRange o.minIndex o.maxIndex).foldlM (fun b idx => do
            let c ← rd o.bins (idx - o.offset)
            addAt b (idx - s1.offset) c) s1.bins
        pure ({ s1 with bins := b, count := s1.count + o.count } : DStore)) = some s' ∧
      Inv s' ∧ (∀ j, wt s' j = wt s j + wt o j) ∧ s'.count = s.count + o.count := by
  have hopos : 0 < o.count := by have := ho.count_nonneg; grind
  obtain ⟨ow1, ow2, ow3, ow4, ow5⟩ := ho.window h0
  have hin : ∀ idx, o.minIndex ≤ idx → idx < o.minIndex + ((o.maxIndex - o.minIndex + 1).toNat : Int) →
      (0 ≤ idx - o.offset ∧ idx - o.offset < o.bins.size) ∧
      (0 ≤ idx - s1.offset ∧ idx - s1.offset < s1.bins.size) := by
    intro idx h1 h2
    refine ⟨ho.window_in idx h1 h2, ?_⟩
    unfold len at ho2; omega
  obtain ⟨b', hb', hsz, hat⟩ := merge_loop o.bins o.offset s1.offset _ o.minIndex s1.bins hin
  rw [idxRange_eq, hb']
  simp only [Option.bind_eq_bind, Option.bind_some, Option.pure_def]
  have hwt' : ∀ j, wt ({ s1 with bins := b', count := s1.count + o.count } : DStore) j
      = wt s j + wt o j := by
    intro j
    have e := hwt j
    simp only [wt] at e ⊢
    rw [hat, e]
    congr 1
    by_cases hj : o.minIndex ≤ j ∧ j < o.minIndex + ((o.maxIndex - o.minIndex + 1).toNat : Int)
    · rw [if_pos hj]
    · rw [if_neg hj]
      exact (ho.outside j (by omega)).symm
  have hnn' : ∀ j, 0 ≤ wt ({ s1 with bins := b', count := s1.count + o.count } : DStore) j := by
    intro j; rw [hwt']; have := hs.wt_nonneg j; have := ho.wt_nonneg j; grind
  have hcnn := hs.count_nonneg
  refine ⟨_, rfl, ?_, hwt', by simp only [hc]⟩
  refine
    { plain := hk
      nonneg := nonneg_of_wt _ hnn'
      countEq := ?_
      empty := ?_
      window := ?_
      outside := ?_ }
  · show s1.count + o.count = b'.toList.sum
    rw [sum_add_of_wt s.bins o.bins b' s.offset o.offset s1.offset hwt', hc, hs.countEq, ho.countEq]
  · intro hz
    simp only [hc] at hz
    grind
  · intro _
    refine ⟨ho1, by simp only [hmi, hma]; omega, by simp only [len, hsz]; exact ho2, ?_, ?_⟩
    · simp only [hwt']
      show (0 < wt s s1.minIndex + wt o s1.minIndex) ∨ s1.minIndex = maxInt32
      by_cases hlt : o.minIndex < s.minIndex
      · have hm : s1.minIndex = o.minIndex := by omega
        rw [hm]
        rcases ow4 with hp | hp
        · left; have := hs.wt_nonneg o.minIndex; grind
        · right; exact hp
      · have hm : s1.minIndex = s.minIndex := by omega
        rw [hm]
        by_cases hsc : s.count = 0
        · right; exact (hs.empty hsc).2.1
        · rcases (hs.window hsc).2.2.2.1 with hp | hp
          · left; have := ho.wt_nonneg s.minIndex; grind
          · right; exact hp
    · simp only [hwt']
      show (0 < wt s s1.maxIndex + wt o s1.maxIndex) ∨ s1.maxIndex = minInt32
      by_cases hlt : s.maxIndex < o.maxIndex
      · have hm : s1.maxIndex = o.maxIndex := by omega
        rw [hm]
        rcases ow5 with hp | hp
        · left; have := hs.wt_nonneg o.maxIndex; grind
        · right; exact hp
      · have hm : s1.maxIndex = s.maxIndex := by omega
        rw [hm]
        by_cases hsc : s.count = 0
        · right; exact (hs.empty hsc).2.2
        · rcases (hs.window hsc).2.2.2.2 with hp | hp
          · left; have := ho.wt_nonneg s.maxIndex; grind
          · right; exact hp
  · intro j hj
    rw [hwt']
    have hj' : (j < s1.minIndex ∨ s1.maxIndex < j) := hj
    rw [hs.outside j (by omega), ho.outside j (by omega)]
    grind

theorem mergeSame_ok (hG : GrowthOK) (s o : DStore) (hs : Inv s) (ho : Inv o)
    (hsp : SpanOK s o.minIndex o.maxIndex) :
    ∃ s', s.mergeSame o = some s' ∧ Inv s' ∧ (∀ j, wt s' j = wt s j + wt o j) ∧
      s'.count = s.count + o.count := by
  unfold mergeSame
  by_cases he : o.isEmpty = true
  · rw [if_pos he]
    have h0 := (isEmpty_iff_count o).1 he
    refine ⟨s, rfl, hs, ?_, by rw [h0]; grind⟩
    intro j; rw [ho.wt_zero_of_empty h0]; grind
  · rw [if_neg he]
    have h0 : o.count ≠ 0 := fun h0 => he ((isEmpty_iff_count o).2 h0)
    obtain ⟨ow1, ow2, ow3, ow4, ow5⟩ := ho.window h0
    by_cases hc : o.minIndex < s.minIndex ∨ o.maxIndex > s.maxIndex
    · obtain ⟨s1, hs1e, hk, hcnt, hmi, hma, ho1, ho2, hwt⟩ :=
        extendRange_spec hG s hs o.minIndex o.maxIndex ow2 hsp
      simp only [if_pos hc, hs1e, Option.bind_eq_bind, Option.bind_some, Option.pure_def, hk]
      have key := mergeSame_cont s o s1 hs ho h0 hk hcnt hmi hma ho1 ho2 hwt
      simp only [Option.bind_eq_bind, Option.pure_def, hk] at key
      exact key
    · have hsc : s.count ≠ 0 := by
        intro hsc
        obtain ⟨_, e1, e2⟩ := hs.empty hsc
        simp only [maxInt32, minInt32] at e1 e2
        omega
      obtain ⟨w1, w2, w3, _, _⟩ := hs.window hsc
      simp only [if_neg hc, Option.bind_eq_bind, Option.bind_some, Option.pure_def, hs.plain]
      have key := mergeSame_cont s o s hs ho h0 hs.plain rfl (by omega) (by omega) w1 w3 (fun j => rfl)
      simp only [Option.bind_eq_bind, Option.pure_def, hs.plain] at key
      exact key

theorem mergeSame_bounded32 (hG : GrowthOK) (s o : DStore) (hs : Inv s) (ho : Inv o)
    (bs : Bounded32 s) (bo : Bounded32 o) : ∀ s', s.mergeSame o = some s' → Bounded32 s' := by
  intro s' hs'
  obtain ⟨ow1, ow2, ow3, ow4⟩ := ho.window32 bo
  obtain ⟨s'', h1, _, h2, _⟩ := mergeSame_ok hG s o hs ho
    (spanOK_of_bounded32 s hs bs _ _ ⟨ow1, ow2⟩ ⟨ow3, ow4⟩)
  rw [h1] at hs'
  cases hs'
  intro j hj
  rw [h2] at hj
  by_cases h3 : wt s j = 0
  · exact bo j (by grind)
  · exact bs j h3

/-- the fallback merge `other.ForEach(s.AddWithCount)`; the bins have int32 indexes (what
    every store reports) and the receiver holds int32 indexes -/
theorem mergeBins_ok (hG : GrowthOK) (s : DStore) (h : Inv s) (hb : Bounded32 s)
    (l : List (Int × Rat)) (hl : ∀ p ∈ l, 0 ≤ p.2)
    (hl32 : ∀ p ∈ l, minInt32 ≤ p.1 ∧ p.1 ≤ maxInt32) :
    ∃ s', s.mergeBins l = some s' ∧ Inv s' ∧
      (∀ j, wt s' j = wt s j + ((l.filter (fun p => p.1 = j)).map (·.2)).sum) ∧
      s'.count = s.count + (l.map (·.2)).sum ∧ Bounded32 s' := by
  unfold mergeBins
  induction l generalizing s with
  | nil =>
    refine ⟨s, rfl, h, ?_, ?_, hb⟩
    · intro j; simp; grind
    · simp; grind
  | cons p l ih =>
    obtain ⟨s1, h1, hi1, hw1, hc1⟩ := addWithCount_ok hG s h p.1 p.2 (hl p (by simp))
      (spanOK_of_bounded32 s h hb _ _ (hl32 p (by simp)) (hl32 p (by simp)))
    have hb1 := addWithCount_bounded32 hG s h hb p.1 p.2 (hl p (by simp)) (hl32 p (by simp)) s1 h1
    obtain ⟨s2, h2, hi2, hw2, hc2, hb2⟩ := ih s1 hi1 hb1 (fun q hq => hl q (by simp [hq]))
      (fun q hq => hl32 q (by simp [hq]))
    refine ⟨s2, ?_, hi2, ?_, ?_, hb2⟩
    · rw [List.foldlM_cons, h1]; exact h2
    · intro j
      rw [hw2, hw1, List.filter_cons]
      by_cases hj : j = p.1
      · have : decide (p.1 = j) = true := by simp [hj]
        rw [if_pos hj, this]
        simp only [if_true, List.map_cons, List.sum_cons]
        grind
      · have : decide (p.1 = j) = false := by simp; omega
        rw [if_neg hj, this]
        simp only [Bool.false_eq_true, if_false]
        grind
    · rw [hc2, hc1, List.map_cons, List.sum_cons]; grind

theorem inv_clear (s : DStore) (h : Inv s) : Inv s.clear where
  plain := h.plain
  nonneg := by intro j; simp [clear, at0_empty]
  countEq := by simp [clear]
  empty := by intro _; simp [clear]
  window := by intro hc; exact absurd rfl hc
  outside := by intro i _; simp [wt, clear, at0_empty]

theorem clear_spec (s : DStore) (h : Inv s) : Inv s.clear ∧ ∀ j, wt s.clear j = 0 :=
  ⟨inv_clear s h, by intro j; simp [wt, clear, at0_empty]⟩

theorem clear_bounded32 (s : DStore) : Bounded32 s.clear := by
  intro j hj; simp [wt, clear, at0_empty] at hj

theorem reweight_loop (off : Int) (w : Rat) (n : Nat) (lo : Int) (b : Array Rat)
    (hin : ∀ idx, lo ≤ idx → idx < lo + n → 0 ≤ idx - off ∧ idx - off < b.size) :
    ∃ b', (irange lo n).foldlM (fun b idx => do
            let c ← rd b (idx - off)
            setAt b (idx - off) (c * w)) b = some b' ∧ b'.size = b.size ∧
      ∀ j, at0 b' (j - off) = if lo ≤ j ∧ j < lo + n then at0 b (j - off) * w else at0 b (j - off) := by
  induction n with
  | zero =>
    refine ⟨b, rfl, rfl, ?_⟩
    intro j; rw [if_neg (by omega)]
  | succ n ih =>
    obtain ⟨b1, hb1, hsz1, hat1⟩ := ih (fun idx h1 h2 => hin idx h1 (by omega))
    have hi := hin (lo + n) (by omega) (by omega)
    have hi1 : 0 ≤ lo + n - off ∧ lo + n - off < b1.size := by rw [hsz1]; exact hi
    obtain ⟨b2, hb2, hsz2, hat2⟩ := setAt_eq b1 (lo + n - off) (at0 b1 (lo + n - off) * w) hi1
    refine ⟨b2, ?_, by rw [hsz2, hsz1], ?_⟩
    · rw [irange_succ_right, List.foldlM_append, hb1]
      simp only [Option.bind_eq_bind, Option.bind_some, List.foldlM_cons, List.foldlM_nil, rd_eq b1 _ hi1, hb2,
        Option.pure_def]
    · intro j
      rw [hat2]
      by_cases hj : j = lo + n
      · rw [if_pos (by omega), if_pos (by omega), hat1, if_neg (by omega), hj]
      · rw [if_neg (by omega), hat1]
        by_cases hj2 : lo ≤ j ∧ j < lo + (n : Int)
        · rw [if_pos hj2, if_pos (by omega)]
        · rw [if_neg hj2, if_neg (by omega)]

theorem reweight_ok (s : DStore) (h : Inv s) (w : Rat) (hw : 0 < w) :
    ∃ s', s.reweight w = some s' ∧ Inv s' ∧ (∀ j, wt s' j = wt s j * w) ∧
      s'.count = s.count * w := by
  obtain ⟨b', hb', hsz, hat⟩ := reweight_loop s.offset w _ s.minIndex s.bins h.window_in
  simp only [reweight, idxRange_eq, Option.bind_eq_bind, Option.pure_def]
  simp only [Option.bind_eq_bind] at hb'
  rw [hb']
  simp only [Option.bind_some]
  have hwt' : ∀ j, wt ({ s with bins := b', count := s.count * w } : DStore) j = wt s j * w := by
    intro j
    simp only [wt]
    rw [hat]
    by_cases hj : s.minIndex ≤ j ∧ j < s.minIndex + ((s.maxIndex - s.minIndex + 1).toNat : Int)
    · rw [if_pos hj]
    · rw [if_neg hj]
      have := h.outside j (by omega)
      simp only [wt] at this
      rw [this]; grind
  have hnn' : ∀ j, 0 ≤ wt ({ s with bins := b', count := s.count * w } : DStore) j := by
    intro j; rw [hwt']; exact Rat.mul_nonneg (h.wt_nonneg j) (Rat.le_of_lt hw)
  have hcz : s.count * w = 0 → s.count = 0 := by
    intro hz
    rcases Rat.mul_eq_zero.1 hz with h1 | h1
    · exact h1
    · grind
  refine ⟨_, rfl, ?_, hwt', rfl⟩
  refine
    { plain := h.plain
      nonneg := nonneg_of_wt _ hnn'
      countEq := ?_
      empty := ?_
      window := ?_
      outside := ?_ }
  · show s.count * w = b'.toList.sum
    rw [sum_mul_of_wt s.bins b' s.offset s.offset w hwt', h.countEq]
  · intro hz
    have := h.empty (hcz hz)
    exact ⟨by show b'.size = 0; rw [hsz]; exact this.1, this.2⟩
  · intro hnz
    have h0 : s.count ≠ 0 := by
      intro h0; apply hnz; show s.count * w = 0; rw [h0]; grind
    obtain ⟨w1, w2, w3, w4, w5⟩ := h.window h0
    refine ⟨w1, w2, by simp only [len, hsz]; exact w3, ?_, ?_⟩
    · rcases w4 with hp | hp
      · left; rw [hwt']; exact Rat.mul_pos hp hw
      · right; exact hp
    · rcases w5 with hp | hp
      · left; rw [hwt']; exact Rat.mul_pos hp hw
      · right; exact hp
  · intro j hj
    rw [hwt', h.outside j hj]; grind

theorem reweight_bounded32 (s : DStore) (h : Inv s) (hb : Bounded32 s) (w : Rat) (hw : 0 < w) :
    ∀ s', s.reweight w = some s' → Bounded32 s' := by
  intro s' hs'
  obtain ⟨s'', h1, _, h2, _⟩ := reweight_ok s h w hw
  rw [h1] at hs'
  cases hs'
  intro j hj
  rw [h2] at hj
  exact hb j (by intro hz; apply hj; rw [hz]; grind)

/-! ## the finding: `MinIndex()`/`MaxIndex()` are wrong for indexes outside the int32 range

`NewDenseStore()` starts from the sentinels `minIndex = MaxInt32`, `maxIndex = MinInt32` and
`extendRange` takes `min`/`max` with them.  Adding the single index `MaxInt32 + 1` to an empty
store therefore leaves `minIndex = MaxInt32`, a bin that holds no weight: the first-draft
invariant clause `0 < wt s s.minIndex` (and the first-draft `minIndex_spec`) is false without
the int32 bound.  Symmetrically for `MinInt32 - 1` and `maxIndex`. -/

theorem minIndex_counterexample (hG : GrowthOK) :
    ∃ s', (DStore.new .plain).addWithCount (maxInt32 + 1) 1 = some s' ∧
      s'.minIndex? = some maxInt32 ∧ wt s' maxInt32 = 0 ∧ wt s' (maxInt32 + 1) = 1 := by
  obtain ⟨s', h1, h2, h3, h4, h5⟩ :=
    addWithCount_full hG (DStore.new .plain) inv_new (maxInt32 + 1) 1 (by decide) (by unfold SpanOK; decide)
  have hmin : s'.minIndex = maxInt32 := by
    rw [(h5 (by decide)).1]; simp only [DStore.new, maxInt32]; omega
  have hw0 : ∀ j, wt (DStore.new .plain) j = 0 := fun j => by simp [wt, DStore.new, at0_empty]
  refine ⟨s', h1, ?_, ?_, ?_⟩
  · unfold minIndex?
    have hne : s'.count ≠ 0 := by rw [h4]; simp only [DStore.new]; grind
    have : s'.isEmpty = false :=
      Bool.eq_false_iff.2 (fun he => hne ((isEmpty_iff_count s').1 he))
    rw [this, hmin]; rfl
  · rw [h3, hw0, if_neg (by simp only [maxInt32]; omega)]; grind
  · rw [h3, hw0, if_pos rfl]; grind

theorem maxIndex_counterexample (hG : GrowthOK) :
    ∃ s', (DStore.new .plain).addWithCount (minInt32 - 1) 1 = some s' ∧
      s'.maxIndex? = some minInt32 ∧ wt s' minInt32 = 0 ∧ wt s' (minInt32 - 1) = 1 := by
  obtain ⟨s', h1, h2, h3, h4, h5⟩ :=
    addWithCount_full hG (DStore.new .plain) inv_new (minInt32 - 1) 1 (by decide) (by unfold SpanOK; decide)
  have hmax : s'.maxIndex = minInt32 := by
    rw [(h5 (by decide)).2]; simp only [DStore.new, minInt32]; omega
  have hw0 : ∀ j, wt (DStore.new .plain) j = 0 := fun j => by simp [wt, DStore.new, at0_empty]
  refine ⟨s', h1, ?_, ?_, ?_⟩
  · unfold maxIndex?
    have hne : s'.count ≠ 0 := by rw [h4]; simp only [DStore.new]; grind
    have : s'.isEmpty = false :=
      Bool.eq_false_iff.2 (fun he => hne ((isEmpty_iff_count s').1 he))
    rw [this, hmax]; rfl
  · rw [h3, hw0, if_neg (by simp only [minInt32]; omega)]; grind
  · rw [h3, hw0, if_pos rfl]; grind

/-! ## every reachable state -/

inductive Op where
  | add (i : Int) (w : Rat)
  | clear
  | reweight (w : Rat)

/-- `Reweight` returns an error for `w ≤ 0` and is a no-op for `w = 1` (the store is unchanged) -/
def applyOp (s : DStore) : Op → Option DStore
  | .add i w => s.addWithCount i w
  | .clear => some s.clear
  | .reweight w => if w ≤ 0 ∨ w = 1 then some s else s.reweight w

/-- with int32 indexes every operation is safe and every reachable state also satisfies
    `Bounded32`, so the `MinIndex`/`MaxIndex` observers are exact (`minIndex_spec`,
    `maxIndex_spec`) -/
theorem applyOp_ok32 (hG : GrowthOK) (s : DStore) (h : Inv s) (hb : Bounded32 s) (op : Op)
    (hop : match op with | .add i w => 0 ≤ w ∧ minInt32 ≤ i ∧ i ≤ maxInt32 | _ => True) :
    ∃ s', applyOp s op = some s' ∧ Inv s' ∧ Bounded32 s' := by
  cases op with
  | add i w =>
    obtain ⟨s', h1, h2, _⟩ := addWithCount_ok hG s h i w hop.1
      (spanOK_of_bounded32 s h hb i i hop.2 hop.2)
    exact ⟨s', h1, h2, addWithCount_bounded32 hG s h hb i w hop.1 hop.2 s' h1⟩
  | clear => exact ⟨s.clear, rfl, inv_clear s h, clear_bounded32 s⟩
  | reweight w =>
    simp only [applyOp]
    by_cases hc : w ≤ 0 ∨ w = 1
    · rw [if_pos hc]; exact ⟨s, rfl, h, hb⟩
    · rw [if_neg hc]
      have hw : 0 < w := by grind
      obtain ⟨s', h1, h2, _⟩ := reweight_ok s h w hw
      exact ⟨s', h1, h2, reweight_bounded32 s h hb w hw s' h1⟩

theorem run_from32 (hG : GrowthOK) (ops : List Op) (s : DStore) (h : Inv s) (hb : Bounded32 s)
    (hops : ∀ op ∈ ops, match op with
      | .add i w => 0 ≤ w ∧ minInt32 ≤ i ∧ i ≤ maxInt32 | _ => True) :
    ∃ s', ops.foldlM applyOp s = some s' ∧ Inv s' ∧ Bounded32 s' := by
  induction ops generalizing s with
  | nil => exact ⟨s, rfl, h, hb⟩
  | cons op ops ih =>
    obtain ⟨s1, h1, hi1, hb1⟩ := applyOp_ok32 hG s h hb op (hops op (by simp))
    obtain ⟨s2, h2, hi2, hb2⟩ := ih s1 hi1 hb1 (fun q hq => hops q (by simp [hq]))
    exact ⟨s2, by rw [List.foldlM_cons, h1]; exact h2, hi2, hb2⟩

theorem run_ok32 (hG : GrowthOK) (ops : List Op)
    (hops : ∀ op ∈ ops, match op with
      | .add i w => 0 ≤ w ∧ minInt32 ≤ i ∧ i ≤ maxInt32 | _ => True) :
    ∃ s, ops.foldlM applyOp (DStore.new .plain) = some s ∧ Inv s ∧ Bounded32 s :=
  run_from32 hG ops _ inv_new bounded32_new hops

/-- (int32 indexes are needed for safety itself, not only for exactness: see
    `addWithCount_far_panics`) -/
theorem applyOp_ok (hG : GrowthOK) (s : DStore) (h : Inv s) (hb : Bounded32 s) (op : Op)
    (hop : match op with | .add i w => 0 ≤ w ∧ minInt32 ≤ i ∧ i ≤ maxInt32 | _ => True) :
    ∃ s', applyOp s op = some s' ∧ Inv s' := by
  obtain ⟨s', h1, h2, _⟩ := applyOp_ok32 hG s h hb op hop
  exact ⟨s', h1, h2⟩

theorem run_from (hG : GrowthOK) (ops : List Op) (s : DStore) (h : Inv s) (hb : Bounded32 s)
    (hops : ∀ op ∈ ops, match op with
      | .add i w => 0 ≤ w ∧ minInt32 ≤ i ∧ i ≤ maxInt32 | _ => True) :
    ∃ s', ops.foldlM applyOp s = some s' ∧ Inv s' := by
  obtain ⟨s', h1, h2, _⟩ := run_from32 hG ops s h hb hops
  exact ⟨s', h1, h2⟩

/-- every history of adds (int32 indexes, non-negative weights), clears and reweightings
    started from `NewDenseStore()` succeeds and keeps the invariant -/
theorem run_ok (hG : GrowthOK) (ops : List Op)
    (hops : ∀ op ∈ ops, match op with
      | .add i w => 0 ≤ w ∧ minInt32 ≤ i ∧ i ≤ maxInt32 | _ => True) :
    ∃ s, ops.foldlM applyOp (DStore.new .plain) = some s ∧ Inv s :=
  run_from hG ops _ inv_new bounded32_new hops

/-! ## the finding: far-apart indexes make the dense store panic

`extendRange` asks `getNewLength` for an array covering the whole span.  For the indexes `0`
and `2^62` the float computation returns `2^62` — one short (`denseNewLength_underallocates`) —
and the subsequent `centerCounts`/`shiftCounts` slice bounds are violated.  (With the real
allocator `make([]float64, 2^62)` fails first; either way the process dies.)  This is why the
safety theorems above are stated for int32 indexes. -/

/-- `centerCounts` without the assumption that the new range fits: the array is re-centred on
    the middle of `[newMin, newMax]` whenever the OLD window still fits after the shift -/
theorem centerCounts_shift (s : DStore) (newMin newMax : Int) (hz : ZeroOut s)
    (hmm : s.minIndex ≤ s.maxIndex) (hlo : s.offset ≤ s.minIndex)
    (hhi : s.maxIndex < s.offset + s.len) (hd : 0 ≤ newMax - newMin + 1)
    (h1 : 0 ≤ s.minIndex - s.offset + (s.offset + s.len / 2 - (newMin + (newMax - newMin + 1) / 2)))
    (h2 : s.maxIndex - s.offset + (s.offset + s.len / 2 - (newMin + (newMax - newMin + 1) / 2))
      < s.len) :
    ∃ nb, s.centerCounts newMin newMax =
        some { s with bins := nb, offset := newMin + (newMax - newMin + 1) / 2 - s.len / 2,
                      minIndex := newMin, maxIndex := newMax } ∧ nb.size = s.bins.size := by
  have hl : 0 ≤ s.len := by unfold len; omega
  obtain ⟨nb, hsc, hsz, _⟩ := shiftCounts_spec s
    (s.offset + s.len / 2 - (newMin + (newMax - newMin + 1) / 2)) hz hmm hlo hhi h1 h2
  refine ⟨nb, ?_, hsz⟩
  simp only [centerCounts]
  rw [Int.tdiv_eq_ediv_of_nonneg hd, Int.tdiv_eq_ediv_of_nonneg hl, hsc]
  simp only [Option.bind_eq_bind, Option.bind_some, Option.pure_def]
  congr 2
  omega

/-- a store whose only bin is index `0` panics when asked to absorb index `2^62`:
    `getNewLength` returns `2^62` for the `2^62 + 1` indexes `[0, 2^62]`, the array is
    re-centred with offset `0`, and `bins[2^62]` is out of range -/
theorem addWithCount_far_none (s : DStore) (h : Inv s) (h0 : s.count ≠ 0) (hmin : s.minIndex = 0)
    (hmax : s.maxIndex = 0) (hlen : s.len ≤ 2^61) : s.addWithCount (2^62) 1 = none := by
  -- keep the literal `2^62` opaque (`simp` would evaluate it and the kernel re-check is deep)
  obtain ⟨B, hB⟩ : ∃ B : Int, B = 2^62 := ⟨_, rfl⟩
  have hdn : denseNewLength 0 B = some B := by rw [hB]; exact denseNewLength_underallocates
  rw [← hB]
  obtain ⟨w1, w2, w3, _, _⟩ := h.window h0
  have hl0 : 0 ≤ s.len := by unfold len; omega
  have hmn : min B s.minIndex = 0 := by omega
  have hmx : max B s.maxIndex = B := by omega
  -- the grown store handed to `adjust`
  have hlen' : ({ s with bins := s.bins ++ Array.replicate (B - s.len).toNat 0 } : DStore).len
      = B := by
    simp only [len, Array.size_append, Array.size_replicate] at hlen hl0 ⊢
    omega
  obtain ⟨nb, hcc, hsz⟩ := centerCounts_shift
    { s with bins := s.bins ++ Array.replicate (B - s.len).toNat 0 } 0 B
    (by intro i hi; simp only [wt, at0_append_replicate]; exact h.outside i hi)
    w2 w1 (by rw [hlen']; simp only; omega) (by omega)
    (by rw [hlen']; simp only [hmin]; omega) (by rw [hlen']; simp only [hmax]; omega)
  have hoff : (0 : Int) + (B - 0 + 1) / 2 - B / 2 = 0 := by omega
  have hext : s.extendRange B B = some
      { s with bins := nb, offset := 0, minIndex := 0, maxIndex := B } := by
    simp only [extendRange]
    rw [if_neg h0, hmn, hmx, if_neg (by omega), getNewLength_plain s h.plain, hdn]
    simp only [Option.bind_eq_bind, Option.bind_some]
    rw [if_pos (by omega), grow_spec s _ (by omega)]
    simp only [Option.bind_some]
    rw [adjust_plain { s with bins := s.bins ++ Array.replicate (B - s.len).toNat 0 }
      h.plain, hcc, hlen', hoff]
  unfold addWithCount
  rw [if_neg (by decide)]
  unfold normalize
  simp only [h.plain]
  rw [if_pos (Or.inr (by omega)), hext]
  simp only [Option.bind_eq_bind, Option.bind_some, Option.pure_def]
  have hnb : (nb.size : Int) = B := by
    rw [hsz]; exact hlen'
  rw [addAt_none nb _ 1 (by omega)]
  rfl

/-- FINDING (concrete): add index `0`, then index `2^62`, to a fresh dense store — the second
    `Add` panics -/
theorem addWithCount_far_panics (hG : GrowthOK) :
    ∃ s, (DStore.new .plain).addWithCount 0 1 = some s ∧ Inv s ∧
      s.addWithCount (2^62) 1 = none := by
  obtain ⟨s, h1, h2, _, h4, h5⟩ :=
    addWithCount_full hG (DStore.new .plain) inv_new 0 1 (by decide) (by unfold SpanOK; decide)
  have hsz : ((DStore.new .plain).addWithCount 0 1).map (fun t => t.bins.size) = some 64 := by
    decide +kernel
  rw [h1] at hsz
  have hsz' : s.bins.size = 64 := Option.some.inj hsz
  obtain ⟨hmi, hma⟩ := h5 (by decide)
  refine ⟨s, h1, h2, addWithCount_far_none s h2 ?_ ?_ ?_ ?_⟩
  · rw [h4]; simp only [DStore.new]; decide +kernel
  · rw [hmi]; simp only [DStore.new]; decide
  · rw [hma]; simp only [DStore.new]; decide
  · simp only [len, hsz']; decide

end DStore
end DDS
