/-
  DDS.Proofs.Dense — refinement proofs for the plain `DenseStore` model (`kind = .plain`).
-/
import DDS.Model.Dense

namespace DDS
namespace DStore

/-- abstract hypothesis on the float computation `denseNewLength` -/
def GrowthOK : Prop :=
  ∀ a b : Int, a ≤ b → ∃ L, DStore.denseNewLength a b = some L ∧ b - a + 1 ≤ L

/-! ## `at0` and the array primitives -/

theorem at0_out (a : Array Rat) (j : Int) (h : ¬ (0 ≤ j ∧ j < a.size)) : at0 a j = 0 := by
  simp [at0, h]

theorem at0_neg (a : Array Rat) (j : Int) (h : j < 0) : at0 a j = 0 :=
  at0_out a j (by omega)

theorem at0_ge (a : Array Rat) (j : Int) (h : (a.size : Int) ≤ j) : at0 a j = 0 :=
  at0_out a j (by omega)

theorem at0_empty (j : Int) : at0 #[] j = 0 := by
  simp [at0]

theorem at0_nat (a : Array Rat) (k : Nat) : at0 a (k : Int) = a[k]?.getD 0 := by
  unfold at0
  by_cases h : k < a.size
  · have : (0:Int) ≤ k ∧ (k:Int) < a.size := by omega
    simp [this]
  · have : ¬ ((0:Int) ≤ k ∧ (k:Int) < a.size) := by omega
    have h' : a.size ≤ k := by omega
    simp [h']

/-- case split used for every `at0` lemma -/
theorem int_cases (j : Int) : j < 0 ∨ ∃ k : Nat, j = (k : Int) := by
  by_cases h : j < 0
  · exact Or.inl h
  · exact Or.inr ⟨j.toNat, by omega⟩

@[simp] theorem size_tabulate (n : Nat) (f : Int → Rat) : (tabulate n f).size = n := by
  simp [tabulate]

theorem at0_tabulate (n : Nat) (f : Int → Rat) (j : Int) :
    at0 (tabulate n f) j = if 0 ≤ j ∧ j < n then f j else 0 := by
  rcases int_cases j with h | ⟨k, rfl⟩
  · rw [at0_neg _ _ h, if_neg (by omega)]
  · rw [at0_nat]
    by_cases hk : k < n
    · have : (0:Int) ≤ k ∧ (k:Int) < n := by omega
      simp [tabulate, hk, this]
    · have : ¬ ((0:Int) ≤ k ∧ (k:Int) < n) := by omega
      simp [tabulate, hk]

theorem at0_setIfInBounds (a : Array Rat) (k : Nat) (v : Rat) (j : Int) :
    at0 (a.setIfInBounds k v) j = if j = (k : Int) ∧ k < a.size then v else at0 a j := by
  rcases int_cases j with h | ⟨m, rfl⟩
  · rw [at0_neg _ _ h, at0_neg _ _ h, if_neg (by omega)]
  · rw [at0_nat, at0_nat, Array.getElem?_setIfInBounds]
    by_cases hk : k = m
    · subst hk
      by_cases h2 : k < a.size
      · simp [h2]
      · simp [h2]
    · have : ¬ ((m:Int) = (k:Int) ∧ k < a.size) := by omega
      simp [hk, this]

theorem at0_append_replicate (a : Array Rat) (k : Nat) (j : Int) :
    at0 (a ++ Array.replicate k 0) j = at0 a j := by
  rcases int_cases j with h | ⟨m, rfl⟩
  · rw [at0_neg _ _ h, at0_neg _ _ h]
  · rw [at0_nat, at0_nat, Array.getElem?_append]
    by_cases h2 : m < a.size
    · simp [h2]
    · have h3 : a.size ≤ m := by omega
      simp [h2, Array.getElem?_replicate]
      split <;> rfl

theorem rd_eq (a : Array Rat) (i : Int) (h : 0 ≤ i ∧ i < a.size) : rd a i = some (at0 a i) := by
  simp [rd, at0, h]

theorem rd_none (a : Array Rat) (i : Int) (h : ¬ (0 ≤ i ∧ i < a.size)) : rd a i = none := by
  simp [rd, h]

theorem addAt_eq (a : Array Rat) (i : Int) (v : Rat) (h : 0 ≤ i ∧ i < a.size) :
    ∃ b, addAt a i v = some b ∧ b.size = a.size ∧
      ∀ j, at0 b j = at0 a j + if j = i then v else 0 := by
  refine ⟨a.setIfInBounds i.toNat (a.getD i.toNat 0 + v), ?_, by simp, ?_⟩
  · simp only [addAt, h, and_self, if_true]
  intro j
  rw [at0_setIfInBounds]
  have h2 : i.toNat < a.size := by omega
  by_cases hj : j = i
  · subst hj
    have : j = (j.toNat : Int) ∧ j.toNat < a.size := by omega
    rw [if_pos this, if_pos rfl]
    simp [at0, h]
  · have : ¬ (j = (i.toNat : Int) ∧ i.toNat < a.size) := by omega
    rw [if_neg this, if_neg hj, Rat.add_zero]

theorem addAt_none (a : Array Rat) (i : Int) (v : Rat) (h : ¬ (0 ≤ i ∧ i < a.size)) :
    addAt a i v = none := by
  simp [addAt, h]

theorem setAt_eq (a : Array Rat) (i : Int) (v : Rat) (h : 0 ≤ i ∧ i < a.size) :
    ∃ b, setAt a i v = some b ∧ b.size = a.size ∧
      ∀ j, at0 b j = if j = i then v else at0 a j := by
  refine ⟨a.setIfInBounds i.toNat v, ?_, by simp, ?_⟩
  · simp only [setAt, h, and_self, if_true]
  intro j
  rw [at0_setIfInBounds]
  have h2 : i.toNat < a.size := by omega
  by_cases hj : j = i
  · subst hj
    have : j = (j.toNat : Int) ∧ j.toNat < a.size := by omega
    rw [if_pos this, if_pos rfl]
  · have : ¬ (j = (i.toNat : Int) ∧ i.toNat < a.size) := by omega
    rw [if_neg this, if_neg hj]

/-! ## finite sums over integer windows

`countEq` is kept as `count = bins.toList.sum`; all reasoning about it goes through
`rsum f lo n = Σ_{lo ≤ j < lo+n} f j` and the "window" lemma `sum_eq_window`. -/

/-- `Σ_{k<n} f (lo + k)` -/
def rsum (f : Int → Rat) (lo : Int) : Nat → Rat
  | 0 => 0
  | n+1 => rsum f lo n + f (lo + n)

theorem rsum_congr {f g : Int → Rat} (lo : Int) (n : Nat)
    (h : ∀ j, lo ≤ j → j < lo + n → f j = g j) : rsum f lo n = rsum g lo n := by
  induction n with
  | zero => rfl
  | succ n ih =>
    simp only [rsum]
    rw [ih (fun j h1 h2 => h j h1 (by omega)), h (lo + n) (by omega) (by omega)]

theorem rsum_zero {f : Int → Rat} (lo : Int) (n : Nat)
    (h : ∀ j, lo ≤ j → j < lo + n → f j = 0) : rsum f lo n = 0 := by
  induction n with
  | zero => rfl
  | succ n ih =>
    simp only [rsum]
    rw [ih (fun j h1 h2 => h j h1 (by omega)), h (lo + n) (by omega) (by omega)]
    grind

theorem rsum_append (f : Int → Rat) (lo : Int) (m n : Nat) :
    rsum f lo (m + n) = rsum f lo m + rsum f (lo + m) n := by
  induction n with
  | zero => simp only [rsum, Nat.add_zero]; grind
  | succ n ih =>
    rw [← Nat.add_assoc]
    simp only [rsum]
    rw [ih, Rat.add_assoc]
    have : lo + ((m + n : Nat) : Int) = lo + (m : Int) + (n : Int) := by omega
    rw [this]

theorem rsum_succ_left (f : Int → Rat) (lo : Int) (n : Nat) :
    rsum f lo (n + 1) = f lo + rsum f (lo + 1) n := by
  rw [Nat.add_comm, rsum_append]
  simp only [rsum, Int.natCast_zero, Int.add_zero, Int.natCast_one]
  grind

theorem rsum_shift (f : Int → Rat) (d lo : Int) (n : Nat) :
    rsum (fun j => f (j + d)) lo n = rsum f (lo + d) n := by
  induction n with
  | zero => rfl
  | succ n ih =>
    simp only [rsum]
    rw [ih]
    congr 2
    omega

theorem rsum_add (f g : Int → Rat) (lo : Int) (n : Nat) :
    rsum (fun j => f j + g j) lo n = rsum f lo n + rsum g lo n := by
  induction n with
  | zero => simp only [rsum]; grind
  | succ n ih =>
    simp only [rsum]
    rw [ih]
    grind

theorem rsum_mul (f : Int → Rat) (w : Rat) (lo : Int) (n : Nat) :
    rsum (fun j => f j * w) lo n = rsum f lo n * w := by
  induction n with
  | zero => simp only [rsum]; grind
  | succ n ih =>
    simp only [rsum]
    rw [ih]
    grind

theorem rsum_nonneg {f : Int → Rat} (lo : Int) (n : Nat) (h : ∀ j, 0 ≤ f j) :
    0 ≤ rsum f lo n := by
  induction n with
  | zero => simp only [rsum]; grind
  | succ n ih =>
    simp only [rsum]
    have := h (lo + n)
    grind

theorem rsum_point (i : Int) (w : Rat) (lo : Int) (n : Nat) :
    rsum (fun j => if j = i then w else 0) lo n = if lo ≤ i ∧ i < lo + n then w else 0 := by
  induction n with
  | zero => simp [rsum]; omega
  | succ n ih =>
    simp only [rsum]
    rw [ih]
    by_cases h1 : lo + (n:Int) = i
    · have : ¬ (lo ≤ i ∧ i < lo + (n:Int)) := by omega
      have h3 : lo ≤ i ∧ i < lo + ((n+1 : Nat) : Int) := by omega
      rw [if_neg this, if_pos h1, if_pos h3]; grind
    · rw [if_neg h1]
      by_cases h2 : lo ≤ i ∧ i < lo + (n:Int)
      · have h3 : lo ≤ i ∧ i < lo + ((n+1 : Nat) : Int) := by omega
        rw [if_pos h2, if_pos h3]; grind
      · have h3 : ¬ (lo ≤ i ∧ i < lo + ((n+1 : Nat) : Int)) := by omega
        rw [if_neg h2, if_neg h3]; grind

/-- a single positive term makes a sum of non-negative terms positive -/
theorem rsum_pos {f : Int → Rat} (lo : Int) (n : Nat) (h : ∀ j, 0 ≤ f j)
    (i : Int) (hi : lo ≤ i ∧ i < lo + n) (hp : 0 < f i) : 0 < rsum f lo n := by
  induction n with
  | zero => omega
  | succ n ih =>
    simp only [rsum]
    by_cases h1 : lo + (n:Int) = i
    · have := rsum_nonneg lo n h
      rw [h1]
      grind
    · have := ih (by omega)
      have := h (lo + n)
      grind

/-- a function vanishing outside `[lo, lo+n)` has the same sum over any wider window -/
theorem rsum_widen {f : Int → Rat} (lo : Int) (n : Nat) (lo' : Int) (n' : Nat)
    (hsupp : ∀ j, j < lo ∨ lo + n ≤ j → f j = 0) (h1 : lo' ≤ lo) (h2 : lo + n ≤ lo' + n') :
    rsum f lo' n' = rsum f lo n := by
  obtain ⟨a, ha⟩ : ∃ a : Nat, lo = lo' + a := ⟨(lo - lo').toNat, by omega⟩
  obtain ⟨c, hc⟩ : ∃ c : Nat, n' = a + n + c := ⟨n' - (a + n), by omega⟩
  subst ha hc
  rw [rsum_append, rsum_append]
  rw [rsum_zero lo' a (fun j h1 h2 => hsupp j (by omega))]
  rw [rsum_zero _ c (fun j h1 h2 => hsupp j (by omega))]
  grind

theorem list_sum_rsum (l : List Rat) (f : Int → Rat) (lo : Int)
    (h : ∀ k : Nat, k < l.length → f (lo + k) = l[k]?.getD 0) : l.sum = rsum f lo l.length := by
  induction l generalizing lo with
  | nil => rfl
  | cons x l ih =>
    rw [List.length_cons, rsum_succ_left, List.sum_cons]
    have h0 := h 0 (by simp)
    simp at h0
    rw [h0, ih (lo + 1)]
    intro k hk
    have := h (k + 1) (by simp; omega)
    simp at this
    rw [← this]
    congr 1
    omega

theorem sum_eq_rsum (a : Array Rat) (off : Int) :
    a.toList.sum = rsum (fun j => at0 a (j - off)) off a.size := by
  have := list_sum_rsum a.toList (fun j => at0 a (j - off)) off (by
    intro k hk
    have : off + (k:Int) - off = (k : Int) := by omega
    simp only [this, at0_nat]
    simp)
  simpa using this

/-- the sum of the array is the sum of the weights over any window containing the support -/
theorem sum_eq_window (a : Array Rat) (off lo : Int) (n : Nat)
    (hsupp : ∀ j, j < lo ∨ lo + n ≤ j → at0 a (j - off) = 0) :
    a.toList.sum = rsum (fun j => at0 a (j - off)) lo n := by
  rw [sum_eq_rsum a off]
  have hs0 : ∀ j, j < off ∨ off + a.size ≤ j → (fun j => at0 a (j - off)) j = 0 := by
    intro j hj
    exact at0_out _ _ (by omega)
  -- common covering window
  let L := min off lo
  let N := (max (off + a.size) (lo + n) - L).toNat
  rw [← rsum_widen off a.size L N hs0 (by omega) (by omega)]
  exact rsum_widen lo n L N hsupp (by omega) (by omega)

/-- a window covering two arrays (placed at their offsets) -/
theorem sum_cover2 (a b : Array Rat) (oa ob : Int) :
    ∃ lo n, a.toList.sum = rsum (fun j => at0 a (j - oa)) lo n ∧
            b.toList.sum = rsum (fun j => at0 b (j - ob)) lo n := by
  refine ⟨min oa ob, (max (oa + a.size) (ob + b.size) - min oa ob).toNat, ?_, ?_⟩
  · exact sum_eq_window a oa _ _ (fun j hj => at0_out _ _ (by omega))
  · exact sum_eq_window b ob _ _ (fun j hj => at0_out _ _ (by omega))

theorem sum_cover3 (a b c : Array Rat) (oa ob oc : Int) :
    ∃ lo n, a.toList.sum = rsum (fun j => at0 a (j - oa)) lo n ∧
            b.toList.sum = rsum (fun j => at0 b (j - ob)) lo n ∧
            c.toList.sum = rsum (fun j => at0 c (j - oc)) lo n := by
  refine ⟨min (min oa ob) oc,
    (max (max (oa + a.size) (ob + b.size)) (oc + c.size) - min (min oa ob) oc).toNat, ?_, ?_, ?_⟩
  · exact sum_eq_window a oa _ _ (fun j hj => at0_out _ _ (by omega))
  · exact sum_eq_window b ob _ _ (fun j hj => at0_out _ _ (by omega))
  · exact sum_eq_window c oc _ _ (fun j hj => at0_out _ _ (by omega))

/-- equal pointwise content (up to the offsets) gives equal sums -/
theorem sum_eq_of_wt (a b : Array Rat) (oa ob : Int)
    (h : ∀ j, at0 b (j - ob) = at0 a (j - oa)) : b.toList.sum = a.toList.sum := by
  obtain ⟨lo, n, h1, h2⟩ := sum_cover2 a b oa ob
  rw [h1, h2]
  exact rsum_congr lo n (fun j _ _ => h j)

theorem sum_nonneg_of (a : Array Rat) (h : ∀ j, 0 ≤ at0 a j) : 0 ≤ a.toList.sum := by
  rw [sum_eq_rsum a 0]
  exact rsum_nonneg _ _ (fun j => h _)

theorem sum_pos_of (a : Array Rat) (h : ∀ j, 0 ≤ at0 a j) (i : Int) (hp : 0 < at0 a i) :
    0 < a.toList.sum := by
  rw [sum_eq_rsum a 0]
  have hi : 0 ≤ i ∧ i < a.size := by
    apply Classical.byContradiction
    intro hc
    rw [at0_out a i hc] at hp
    exact absurd hp (by simp)
  exact rsum_pos 0 a.size (fun j => h _) i (by omega) (by simpa using hp)

theorem all_zero_of_sum_zero (a : Array Rat) (h : ∀ j, 0 ≤ at0 a j) (hs : a.toList.sum = 0) :
    ∀ j, at0 a j = 0 := by
  intro j
  apply Classical.byContradiction
  intro hne
  have h1 := h j
  have : 0 < at0 a j := by grind
  have := sum_pos_of a h j this
  grind

/-! ## the invariant -/

/-- the weight held at index `i` -/
def wt (s : DStore) (i : Int) : Rat := at0 s.bins (i - s.offset)

/-- "zero outside the window `[minIndex, maxIndex]`" -/
def ZeroOut (s : DStore) : Prop := ∀ i, (i < s.minIndex ∨ s.maxIndex < i) → wt s i = 0

/-- Invariant of the plain dense store.

  Difference from the first draft: the tightness clauses `0 < wt s s.minIndex`,
  `0 < wt s s.maxIndex` are FALSE for indexes outside the int32 range (an empty store starts
  from `minIndex = MaxInt32`, `maxIndex = MinInt32`, and `extendRange` takes `min`/`max` with
  these sentinels), so they are weakened to `… ∨ minIndex = maxInt32`, `… ∨ maxIndex = minInt32`.
  Under `Bounded32` (all weight sits on int32 indexes) the original clauses are recovered
  (`tight_min`, `tight_max`). -/
structure Inv (s : DStore) : Prop where
  plain   : s.kind = .plain
  nonneg  : ∀ j, 0 ≤ at0 s.bins j
  countEq : s.count = s.bins.toList.sum
  empty   : s.count = 0 → s.bins.size = 0 ∧ s.minIndex = maxInt32 ∧ s.maxIndex = minInt32
  window  : s.count ≠ 0 → s.offset ≤ s.minIndex ∧ s.minIndex ≤ s.maxIndex ∧
              s.maxIndex < s.offset + s.len ∧
              (0 < wt s s.minIndex ∨ s.minIndex = maxInt32) ∧
              (0 < wt s s.maxIndex ∨ s.maxIndex = minInt32)
  outside : ∀ i, (i < s.minIndex ∨ s.maxIndex < i) → wt s i = 0

/-- all the weight sits on indexes representable as int32 -/
def Bounded32 (s : DStore) : Prop := ∀ j, wt s j ≠ 0 → minInt32 ≤ j ∧ j ≤ maxInt32

theorem inv_new : Inv (DStore.new .plain) where
  plain := rfl
  nonneg := by intro j; simp [DStore.new, at0_empty]
  countEq := by simp [DStore.new]
  empty := by intro _; simp [DStore.new]
  window := by intro h; exact absurd rfl h
  outside := by intro i _; simp [wt, DStore.new, at0_empty]

theorem bounded32_new : Bounded32 (DStore.new .plain) := by
  intro j h; simp [wt, DStore.new, at0_empty] at h

theorem Inv.count_nonneg {s : DStore} (h : Inv s) : 0 ≤ s.count := by
  rw [h.countEq]; exact sum_nonneg_of _ h.nonneg

theorem Inv.wt_nonneg {s : DStore} (h : Inv s) (j : Int) : 0 ≤ wt s j := h.nonneg _

theorem Inv.wt_zero_of_empty {s : DStore} (h : Inv s) (h0 : s.count = 0) (j : Int) : wt s j = 0 := by
  have := (h.empty h0).1
  exact at0_out _ _ (by omega)

/-! ## `resetBins` -/

/-- `resetBins` zeroes exactly `[a, b]` and keeps everything else -/
theorem resetBins_spec (s : DStore) (a b : Int)
    (h : b < a ∨ (s.offset ≤ a ∧ b < s.offset + s.len)) :
    ∃ nb, s.resetBins a b = some { s with bins := nb } ∧ nb.size = s.bins.size ∧
      ∀ j, at0 nb (j - s.offset) = if a ≤ j ∧ j ≤ b then 0 else wt s j := by
  by_cases hba : b < a
  · refine ⟨s.bins, ?_, rfl, ?_⟩
    · simp only [resetBins]
      rw [if_pos (by omega)]
    · intro j; rw [if_neg (by omega)]; rfl
  · have h' := h.resolve_left hba
    refine ⟨tabulate s.bins.size (fun j =>
      if a - s.offset ≤ j ∧ j ≤ b - s.offset then 0 else at0 s.bins j), ?_, size_tabulate _ _, ?_⟩
    · simp only [resetBins]
      rw [if_neg (by omega), if_pos (by unfold len at *; omega)]
    · intro j
      rw [at0_tabulate]
      unfold wt
      by_cases hj : a ≤ j ∧ j ≤ b
      · rw [if_pos hj]
        split
        · rw [if_pos (by omega)]
        · rfl
      · rw [if_neg hj]
        split
        · rw [if_neg (by omega)]
        · rw [at0_out]; assumption

/-- `resetBins` panics iff the (non-empty) range is not inside the array -/
theorem resetBins_none (s : DStore) (a b : Int) (hab : a ≤ b)
    (h : ¬ (s.offset ≤ a ∧ b < s.offset + s.len)) : s.resetBins a b = none := by
  simp only [resetBins]
  rw [if_neg (by omega), if_neg (by omega)]

theorem resetBins_isSome_iff (s : DStore) (a b : Int) :
    (s.resetBins a b).isSome ↔ (b < a ∨ (s.offset ≤ a ∧ b < s.offset + s.len)) := by
  constructor
  · intro h
    apply Classical.byContradiction
    intro hc
    rw [resetBins_none s a b (by omega) (by omega)] at h
    simp at h
  · intro h
    obtain ⟨nb, h1, _⟩ := resetBins_spec s a b h
    simp [h1]

/-! ## `shiftCounts` -/

theorem shiftCounts_spec (s : DStore) (shift : Int) (hz : ZeroOut s)
    (hmm : s.minIndex ≤ s.maxIndex) (hlo : s.offset ≤ s.minIndex)
    (hhi : s.maxIndex < s.offset + s.len)
    (h1 : 0 ≤ s.minIndex - s.offset + shift) (h2 : s.maxIndex - s.offset + shift < s.len) :
    ∃ nb, s.shiftCounts shift = some { s with bins := nb, offset := s.offset - shift } ∧
      nb.size = s.bins.size ∧ ∀ j, at0 nb (j - (s.offset - shift)) = wt s j := by
  have hz' : ∀ q, q < s.minIndex - s.offset ∨ s.maxIndex - s.offset < q → at0 s.bins q = 0 := by
    intro q hq
    have := hz (q + s.offset) (by omega)
    unfold wt at this
    rwa [show q + s.offset - s.offset = q by omega] at this
  have hlen : s.len = (s.bins.size : Int) := rfl
  simp only [shiftCounts]
  rw [if_neg (by omega)]
  -- the state after the memmove
  generalize hmv : ({ s with bins := tabulate s.bins.size (fun j =>
      if s.minIndex - s.offset + shift ≤ j ∧
          j < s.minIndex - s.offset + shift +
            min (s.len - (s.minIndex - s.offset + shift)) (s.maxIndex - s.offset + 1 - (s.minIndex - s.offset))
        then at0 s.bins (j - shift) else at0 s.bins j) } : DStore) = moved
  have hmoff : moved.offset = s.offset := by rw [← hmv]
  have hmlen : moved.len = s.len := by rw [← hmv]; simp [len]
  have hmsize : moved.bins.size = s.bins.size := by rw [← hmv]; simp
  have hmwt : ∀ p, at0 moved.bins p = if 0 ≤ p ∧ p < s.len then
      (if s.minIndex - s.offset + shift ≤ p ∧
          p < s.minIndex - s.offset + shift +
            min (s.len - (s.minIndex - s.offset + shift)) (s.maxIndex - s.offset + 1 - (s.minIndex - s.offset))
        then at0 s.bins (p - shift) else at0 s.bins p) else 0 := by
    intro p; rw [← hmv]; simp only [at0_tabulate]; rfl
  have hfin : ∀ (a b : Int) (hab : b < a ∨ (moved.offset ≤ a ∧ b < moved.offset + moved.len))
      (hrange : ∀ j, a ≤ j ∧ j ≤ b ↔
        ((0 < shift ∧ s.minIndex ≤ j ∧ j ≤ s.minIndex + shift - 1) ∨
         (shift < 0 ∧ s.maxIndex + shift + 1 ≤ j ∧ j ≤ s.maxIndex))),
      ∃ nb, Option.map (fun t : DStore => { t with offset := t.offset - shift }) (moved.resetBins a b)
          = some { s with bins := nb, offset := s.offset - shift } ∧
        nb.size = s.bins.size ∧ ∀ j, at0 nb (j - (s.offset - shift)) = wt s j := by
    intro a b hab hrange
    obtain ⟨nb, hr, hsz, hw⟩ := resetBins_spec moved a b hab
    refine ⟨nb, ?_, by rw [hsz, hmsize], ?_⟩
    · rw [hr, ← hmv]; rfl
    · intro j
      have := hw (j + shift)
      rw [hmoff] at this
      rw [show j - (s.offset - shift) = j + shift - s.offset by omega, this]
      unfold wt
      rw [hmoff, hmwt]
      have hr' := hrange (j + shift)
      by_cases hq : s.minIndex ≤ j ∧ j ≤ s.maxIndex
      · -- a position of the old window: moved, not reset
        rw [if_neg (by omega), if_pos (by omega), if_pos (by omega)]
        congr 1; omega
      · rw [hz' (j - s.offset) (by omega)]
        split
        · rfl
        · split
          · split
            · exact hz' _ (by omega)
            · exact hz' _ (by omega)
          · rfl
  by_cases hs : shift > 0
  · rw [if_pos hs]
    apply hfin
    · right; rw [hmoff, hmlen]; omega
    · intro j; omega
  · rw [if_neg hs]
    apply hfin
    · rw [hmoff, hmlen]; omega
    · intro j; omega

end DStore
end DDS
