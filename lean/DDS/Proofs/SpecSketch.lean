/-
  DDS.Proofs.SpecSketch — how the sketch operations act on SPEC sketches
  (`Sketch.spec m cp cn z`: both stores are plain finite maps `.sp`).

  The observation of a spec sketch is the triple (positive content, negative content, zero weight);
  every operation of the model is computed on it in closed form here, and the result is again a
  spec sketch with canonical (`WF`) contents.  Core Lean only.
-/
import DDS.Proofs.SketchDefs

namespace DDS
namespace Sketch

/-- the observation of a sketch: abstract contents of the two stores and the zero weight -/
def obs (s : Sketch) : Content × Content × F64 := (s.pos.abs, s.neg.abs, s.zero)

/-- a spec sketch with canonical contents -/
structure IsSpec (s : Sketch) : Prop where
  ex : ∃ cp cn, s.pos = .sp cp ∧ s.neg = .sp cn ∧ cp.WF ∧ cn.WF

theorem isSpec_spec (m : Option MapId) (a b : Content) (z : F64) (ha : a.WF) (hb : b.WF) :
    (spec m a b z).IsSpec := ⟨⟨a, b, rfl, rfl, ha, hb⟩⟩

theorem IsSpec.eq_spec {s : Sketch} (h : s.IsSpec) :
    ∃ cp cn, s = spec s.mapping cp cn s.zero ∧ cp.WF ∧ cn.WF := by
  obtain ⟨cp, cn, h1, h2, h3, h4⟩ := h.ex
  refine ⟨cp, cn, ?_, h3, h4⟩
  cases s; simp_all [spec]

@[simp] theorem obs_spec (m : Option MapId) (a b : Content) (z : F64) :
    (spec m a b z).obs = (a, b, z) := rfl

@[simp] theorem spec_mapping (m : Option MapId) (a b : Content) (z : F64) :
    (spec m a b z).mapping = m := rfl
@[simp] theorem spec_pos (m : Option MapId) (a b : Content) (z : F64) :
    (spec m a b z).pos = .sp a := rfl
@[simp] theorem spec_neg (m : Option MapId) (a b : Content) (z : F64) :
    (spec m a b z).neg = .sp b := rfl
@[simp] theorem spec_zero (m : Option MapId) (a b : Content) (z : F64) :
    (spec m a b z).zero = z := rfl

/-- the new sparse sketch is the empty spec sketch -/
theorem new_sparse (m : Option MapId) : Sketch.new m .sparse = spec m [] [] (.fin 0) := rfl

/-! ## mergeWith -/

theorem mergeWith_spec (m m' : Option MapId) (a b a' b' : Content) (z z' : F64)
    (hm : mappingEquals m m' = true) :
    (spec m a b z).mergeWith (spec m' a' b' z') =
      some (.ok (spec m (a.merge a') (b.merge b') (F64.add z z'))) := by
  simp [mergeWith, spec, hm, Store.mergeWith, Store.binsList]

theorem mergeWith_spec_mismatch (m m' : Option MapId) (a b a' b' : Content) (z z' : F64)
    (hm : mappingEquals m m' = false) :
    (spec m a b z).mergeWith (spec m' a' b' z') = some (.error .mismatch) := by
  simp [mergeWith, spec, hm]

theorem mergeWith_spec_isSpec (m : Option MapId) (a b a' b' : Content) (z z' : F64)
    (ha : a.WF) (hb : b.WF) (ha' : a'.WF) (hb' : b'.WF) :
    (spec m (a.merge a') (b.merge b') (F64.add z z')).IsSpec :=
  isSpec_spec _ _ _ _ (Content.wf_merge a a' ha ha') (Content.wf_merge b b' hb hb')

/-! ## clear -/

theorem clear_spec (m : Option MapId) (a b : Content) (z : F64) :
    (spec m a b z).clear = spec m [] [] (.fin 0) := rfl

theorem clear_spec_isSpec (m : Option MapId) : (spec m [] [] (.fin 0)).IsSpec :=
  isSpec_spec _ _ _ _ Content.wf_nil Content.wf_nil

/-! ## reweight -/

theorem reweight_spec (m : Option MapId) (a b : Content) (z : F64) (w : Rat)
    (hw : 0 < w) (hw1 : w ≠ 1) :
    (spec m a b z).reweight (.fin w) =
      some (.ok (spec m (a.scale w) (b.scale w) (F64.mul z (.fin w)))) := by
  have h1 : ¬ w ≤ 0 := by grind
  have h2 : ¬ (w < 0) := by grind
  have h3 : ¬ (w = 0) := by grind
  simp [reweight, spec, F64.le, F64.lt, F64.eq, F64.one, ratOf?, Store.reweight, h1, h2, h3, hw1]

theorem reweight_spec_one (m : Option MapId) (a b : Content) (z : F64) :
    (spec m a b z).reweight (.fin 1) = some (.ok (spec m a b z)) := by
  have h1 : ¬ ((1 : Rat) < 0) := by grind
  have h2 : ¬ ((1 : Rat) = 0) := by grind
  simp [reweight, F64.le, F64.lt, F64.eq, F64.one, h1, h2]

theorem reweight_spec_nonpos (m : Option MapId) (a b : Content) (z : F64) (w : Rat) (hw : w ≤ 0) :
    (spec m a b z).reweight (.fin w) = some (.error .nonPositiveFactor) := by
  have : w < 0 ∨ w = 0 := by grind
  simp only [reweight, F64.le, F64.lt, F64.eq]
  rcases this with h | h <;> simp [h]

theorem reweight_spec_isSpec (m : Option MapId) (a b : Content) (z : F64) (w : Rat)
    (ha : a.WF) (hb : b.WF) (hw : 0 < w) :
    (spec m (a.scale w) (b.scale w) (F64.mul z (.fin w))).IsSpec :=
  isSpec_spec _ _ _ _ (Content.wf_scale a w ha hw) (Content.wf_scale b w hb hw)

/-! ## addWithCount: the three routes -/

section add
variable (env : MapEnv) (mn mx : Rat)

theorem addWithCount_spec_pos (hmn : env.minIndexable = .fin mn) (hmx : env.maxIndexable = .fin mx)
    (m : Option MapId) (a b : Content) (z : F64) (v c : Rat) (idx : Int)
    (hc : 0 ≤ c) (hv : mn < v) (hv' : v ≤ mx) :
    (spec m a b z).addWithCount env (.fin v) (.fin c) idx = some (.ok (spec m (a.add idx c) b z)) := by
  have h1 : ¬ c < 0 := by grind
  have h2 : ¬ mx < v := by grind
  simp [addWithCount, spec, hmn, hmx, F64.lt, F64.gt, h1, h2, hv, ratOf?, Store.addWithCount]

theorem addWithCount_spec_neg (hmn : env.minIndexable = .fin mn) (hmx : env.maxIndexable = .fin mx)
    (m : Option MapId) (a b : Content) (z : F64) (v c : Rat) (idx : Int)
    (hc : 0 ≤ c) (hmn0 : 0 ≤ mn) (hv : v < -mn) (hv' : -mx ≤ v) :
    (spec m a b z).addWithCount env (.fin v) (.fin c) idx = some (.ok (spec m a (b.add idx c) z)) := by
  have h1 : ¬ c < 0 := by grind
  have h2 : ¬ v < -mx := by grind
  have h3 : ¬ mn < v := by grind
  simp [addWithCount, spec, hmn, hmx, F64.lt, F64.gt, F64.neg, h1, h2, h3, hv, ratOf?,
    Store.addWithCount]

theorem addWithCount_spec_zero (hmn : env.minIndexable = .fin mn)
    (m : Option MapId) (a b : Content) (z : F64) (v c : Rat) (idx : Int)
    (hc : 0 ≤ c) (hv : -mn ≤ v) (hv' : v ≤ mn) :
    (spec m a b z).addWithCount env (.fin v) (.fin c) idx =
      some (.ok (spec m a b (F64.add z (.fin c)))) := by
  have h1 : ¬ c < 0 := by grind
  have h2 : ¬ v < -mn := by grind
  have h3 : ¬ mn < v := by grind
  simp [addWithCount, spec, hmn, F64.lt, F64.gt, F64.neg, F64.isNaN, h1, h2, h3, ratOf?]

theorem addWithCount_spec_negativeCount
    (m : Option MapId) (a b : Content) (z : F64) (v c : Rat) (idx : Int) (hc : c < 0) :
    (spec m a b z).addWithCount env (.fin v) (.fin c) idx = some (.error .negativeCount) := by
  simp [addWithCount, F64.lt, hc]

/-! ### the routes as data: where a `(value, weight)` pair goes -/

/-- the key the value is stored under -/
def keyOf (v : Rat) : Int := env.index (.fin (rabs v))

/-- the bins the inputs contribute to the positive store, in input order (not canonical) -/
def posPart (l : List (Rat × Rat)) : List (Int × Rat) :=
  (l.filter (fun p => decide (mn < p.1))).map (fun p => (keyOf env p.1, p.2))

/-- the bins the inputs contribute to the negative store -/
def negPart (l : List (Rat × Rat)) : List (Int × Rat) :=
  (l.filter (fun p => decide (p.1 < -mn))).map (fun p => (keyOf env p.1, p.2))

/-- the weights the inputs contribute to the zero bucket -/
def zeroPart (l : List (Rat × Rat)) : List Rat :=
  (l.filter (fun p => decide (¬ mn < p.1 ∧ ¬ p.1 < -mn))).map (fun p => p.2)

/-- the float sum the zero bucket accumulates, one rounded addition per weight -/
def fsum (z : F64) (ws : List Rat) : F64 := ws.foldl (fun acc c => F64.add acc (.fin c)) z

@[simp] theorem fsum_nil (z : F64) : fsum z [] = z := rfl
@[simp] theorem fsum_cons (z : F64) (c : Rat) (ws : List Rat) :
    fsum z (c :: ws) = fsum (F64.add z (.fin c)) ws := rfl

theorem posPart_append (l₁ l₂ : List (Rat × Rat)) :
    posPart env mn (l₁ ++ l₂) = posPart env mn l₁ ++ posPart env mn l₂ := by
  simp [posPart, List.filter_append]

theorem negPart_append (l₁ l₂ : List (Rat × Rat)) :
    negPart env mn (l₁ ++ l₂) = negPart env mn l₁ ++ negPart env mn l₂ := by
  simp [negPart, List.filter_append]

theorem zeroPart_append (l₁ l₂ : List (Rat × Rat)) :
    zeroPart mn (l₁ ++ l₂) = zeroPart mn l₁ ++ zeroPart mn l₂ := by
  simp [zeroPart, List.filter_append]

theorem posPart_perm {l₁ l₂ : List (Rat × Rat)} (h : l₁.Perm l₂) :
    (posPart env mn l₁).Perm (posPart env mn l₂) := (h.filter _).map _

theorem negPart_perm {l₁ l₂ : List (Rat × Rat)} (h : l₁.Perm l₂) :
    (negPart env mn l₁).Perm (negPart env mn l₂) := (h.filter _).map _

theorem zeroPart_perm {l₁ l₂ : List (Rat × Rat)} (h : l₁.Perm l₂) :
    (zeroPart mn l₁).Perm (zeroPart mn l₂) := (h.filter _).map _

theorem posPart_nonneg (l : List (Rat × Rat)) (h : ∀ p ∈ l, 0 ≤ p.2) :
    ∀ q ∈ posPart env mn l, 0 ≤ q.2 := by
  intro q hq
  simp only [posPart, List.mem_map, List.mem_filter] at hq
  obtain ⟨p, ⟨hp, _⟩, rfl⟩ := hq
  exact h p hp

theorem negPart_nonneg (l : List (Rat × Rat)) (h : ∀ p ∈ l, 0 ≤ p.2) :
    ∀ q ∈ negPart env mn l, 0 ≤ q.2 := by
  intro q hq
  simp only [negPart, List.mem_map, List.mem_filter] at hq
  obtain ⟨p, ⟨hp, _⟩, rfl⟩ := hq
  exact h p hp

/-- the inputs the sketch accepts: magnitudes within the indexable range, non-negative weights -/
def Accepted (mx : Rat) (l : List (Rat × Rat)) : Prop := ∀ p ∈ l, rabs p.1 ≤ mx ∧ 0 ≤ p.2

theorem Accepted.tail {mx : Rat} {p : Rat × Rat} {l : List (Rat × Rat)} (h : Accepted mx (p :: l)) :
    Accepted mx l := fun q hq => h q (List.mem_cons_of_mem _ hq)

theorem Accepted.append {mx : Rat} {l₁ l₂ : List (Rat × Rat)} (h₁ : Accepted mx l₁)
    (h₂ : Accepted mx l₂) : Accepted mx (l₁ ++ l₂) := by
  intro p hp
  rcases List.mem_append.1 hp with h | h
  · exact h₁ p h
  · exact h₂ p h

theorem Accepted.left {mx : Rat} {l₁ l₂ : List (Rat × Rat)} (h : Accepted mx (l₁ ++ l₂)) :
    Accepted mx l₁ := fun p hp => h p (List.mem_append_left _ hp)

theorem Accepted.right {mx : Rat} {l₁ l₂ : List (Rat × Rat)} (h : Accepted mx (l₁ ++ l₂)) :
    Accepted mx l₂ := fun p hp => h p (List.mem_append_right _ hp)

theorem Accepted.perm {mx : Rat} {l₁ l₂ : List (Rat × Rat)} (h : Accepted mx l₁) (hp : l₁.Perm l₂) :
    Accepted mx l₂ := fun p hq => h p (hp.mem_iff.2 hq)

/-- one `addV` on a spec sketch, in closed form -/
theorem addV_spec (hmn : env.minIndexable = .fin mn) (hmx : env.maxIndexable = .fin mx)
    (hmn0 : 0 ≤ mn) (m : Option MapId) (a b : Content) (z : F64) (v c : Rat)
    (hv : rabs v ≤ mx) (hc : 0 ≤ c) :
    (spec m a b z).addV env v c = some (.ok
      (if mn < v then spec m (a.add (keyOf env v) c) b z
       else if v < -mn then spec m a (b.add (keyOf env v) c) z
       else spec m a b (F64.add z (.fin c)))) := by
  unfold addV
  unfold rabs at hv
  by_cases h1 : mn < v
  · rw [if_pos h1]
    exact addWithCount_spec_pos env mn mx hmn hmx m a b z v c _ hc h1 (by split at hv <;> grind)
  · rw [if_neg h1]
    by_cases h2 : v < -mn
    · rw [if_pos h2]
      exact addWithCount_spec_neg env mn mx hmn hmx m a b z v c _ hc hmn0 h2
        (by split at hv <;> grind)
    · rw [if_neg h2]
      exact addWithCount_spec_zero env mn hmn m a b z v c _ hc (by grind) (by grind)

/-- `addAll` on a spec sketch, in closed form: the routed bins are merged into the two contents and
    the zero weights are added up in float arithmetic, in input order -/
theorem addAll_spec (hmn : env.minIndexable = .fin mn) (hmx : env.maxIndexable = .fin mx)
    (hmn0 : 0 ≤ mn) (m : Option MapId) (l : List (Rat × Rat)) (hl : Accepted mx l)
    (a b : Content) (z : F64) :
    (spec m a b z).addAll env l =
      some (spec m (a.merge (posPart env mn l)) (b.merge (negPart env mn l))
        (fsum z (zeroPart mn l))) := by
  induction l generalizing a b z with
  | nil => rfl
  | cons p l ih =>
    obtain ⟨v, c⟩ := p
    have hp := hl (v, c) (List.mem_cons_self ..)
    rw [addAll, addV_spec env mn mx hmn hmx hmn0 m a b z v c hp.1 hp.2]
    simp only
    by_cases h1 : mn < v
    · have h3 : ¬ v < -mn := by grind
      rw [if_pos h1, ih hl.tail]
      simp [posPart, negPart, zeroPart, h1, h3, Content.merge_cons]
    · rw [if_neg h1]
      by_cases h2 : v < -mn
      · rw [if_pos h2, ih hl.tail]
        simp [posPart, negPart, zeroPart, h1, h2, Content.merge_cons]
      · rw [if_neg h2, ih hl.tail]
        simp [posPart, negPart, zeroPart, h1, h2]

theorem addAll_spec_isSpec (m : Option MapId) (l : List (Rat × Rat)) (hl : Accepted mx l)
    (a b : Content) (z : F64) (ha : a.WF) (hb : b.WF) :
    (spec m (a.merge (posPart env mn l)) (b.merge (negPart env mn l))
      (fsum z (zeroPart mn l))).IsSpec :=
  isSpec_spec _ _ _ _
    (Content.wf_merge_of_nonneg a _ ha (posPart_nonneg env mn l (fun p hp => (hl p hp).2)))
    (Content.wf_merge_of_nonneg b _ hb (negPart_nonneg env mn l (fun p hp => (hl p hp).2)))

end add

/-! ## content facts used by the algebraic laws -/

end Sketch

namespace Content

/-- `lookup` of a raw (non-canonical) bin list does not depend on the order of the list -/
theorem lookup_perm {l₁ l₂ : List (Int × Rat)} (h : l₁.Perm l₂) (j : Int) :
    lookup l₁ j = lookup l₂ j := by
  induction h with
  | nil => rfl
  | cons x _ ih => simp only [lookup_cons, ih]
  | swap x y l => simp only [lookup_cons]; grind
  | trans _ _ ih₁ ih₂ => rw [ih₁, ih₂]

theorem lookup_append (l₁ l₂ : List (Int × Rat)) (j : Int) :
    lookup (l₁ ++ l₂) j = lookup l₁ j + lookup l₂ j := by
  induction l₁ with
  | nil => simp only [List.nil_append, lookup_nil]; grind
  | cons p l ih => simp only [List.cons_append, lookup_cons, ih]; grind

/-- merging the same multiset of non-negative bins in any order gives the same content -/
theorem merge_perm (a : Content) (ha : a.WF) {l₁ l₂ : List (Int × Rat)} (h : l₁.Perm l₂)
    (h₁ : ∀ p ∈ l₁, 0 ≤ p.2) : a.merge l₁ = a.merge l₂ := by
  have h₂ : ∀ p ∈ l₂, 0 ≤ p.2 := fun p hp => h₁ p (h.mem_iff.2 hp)
  apply ext _ _ (wf_merge_of_nonneg a l₁ ha h₁) (wf_merge_of_nonneg a l₂ ha h₂)
  intro j
  rw [lookup_merge, lookup_merge, lookup_perm h j]

/-- adding the same multiset of `(index, weight)` pairs in a different order yields the same
    content -/
theorem foldl_add_perm (a : Content) (ha : a.WF) {l₁ l₂ : List (Int × Rat)} (h : l₁.Perm l₂)
    (h₁ : ∀ p ∈ l₁, 0 ≤ p.2) :
    l₁.foldl (fun acc p => acc.add p.1 p.2) a = l₂.foldl (fun acc p => acc.add p.1 p.2) a :=
  merge_perm a ha h h₁

theorem merge_append (a : Content) (l₁ l₂ : List (Int × Rat)) :
    a.merge (l₁ ++ l₂) = (a.merge l₁).merge l₂ := by
  unfold merge; rw [List.foldl_append]

/-- canonicalising the argument first does not change a merge -/
theorem merge_canon (a : Content) (ha : a.WF) (l : List (Int × Rat)) (hl : ∀ p ∈ l, 0 ≤ p.2) :
    a.merge (Content.merge [] l) = a.merge l := by
  have hc : WF (Content.merge [] l) := wf_merge_of_nonneg [] l wf_nil hl
  apply ext _ _ (wf_merge a _ ha hc) (wf_merge_of_nonneg a l ha hl)
  intro j
  simp only [lookup_merge, lookup_nil]; grind

/-- the canonical form of a concatenation is the merge of the canonical forms -/
theorem canon_append (l₁ l₂ : List (Int × Rat)) (h₁ : ∀ p ∈ l₁, 0 ≤ p.2) (h₂ : ∀ p ∈ l₂, 0 ≤ p.2) :
    Content.merge [] (l₁ ++ l₂) = (Content.merge [] l₁).merge (Content.merge [] l₂) := by
  rw [merge_append, merge_canon _ (wf_merge_of_nonneg [] l₁ wf_nil h₁) l₂ h₂]

end Content

/-! ## instances: the hypotheses of the closed forms are satisfiable -/

namespace Sketch

/-- a toy mapping oracle: minimum magnitude 1/2, maximum 100, index = floor -/
def toyEnv : MapEnv :=
  { id := { kind := .log, gamma := .fin 2, indexOffset := .fin 0 }, minIndexable := .fin (1 / 2),
    maxIndexable := .fin 100, relAcc := .fin (1 / 3), value := fun i => .fin (i : Rat),
    lowerBound := fun i => .fin (i : Rat),
    index := fun v => match v with | .fin q => q.floor | _ => 0 }

example : (spec none [(1, 2)] [] (.fin 0)).addWithCount toyEnv (.fin 7) (.fin 3) 7
    = some (.ok (spec none (Content.add [(1, 2)] 7 3) [] (.fin 0))) :=
  addWithCount_spec_pos toyEnv (1 / 2) 100 rfl rfl none _ _ _ 7 3 7 (by grind) (by grind) (by grind)

example : (spec none [(1, 2)] [] (.fin 0)).addWithCount toyEnv (.fin (-7)) (.fin 3) 7
    = some (.ok (spec none [(1, 2)] (Content.add [] 7 3) (.fin 0))) :=
  addWithCount_spec_neg toyEnv (1 / 2) 100 rfl rfl none _ _ _ (-7) 3 7 (by grind) (by grind)
    (by grind) (by grind)

example : (spec none [(1, 2)] [] (.fin 0)).addWithCount toyEnv (.fin (1 / 4)) (.fin 3) 0
    = some (.ok (spec none [(1, 2)] [] (F64.add (.fin 0) (.fin 3)))) :=
  addWithCount_spec_zero toyEnv (1 / 2) rfl none _ _ _ (1 / 4) 3 0 (by grind) (by grind) (by grind)

example : (spec none [(1, 2)] [(4, 1)] (.fin 1)).reweight (.fin 3)
    = some (.ok (spec none (Content.scale [(1, 2)] 3) (Content.scale [(4, 1)] 3)
        (F64.mul (.fin 1) (.fin 3)))) :=
  reweight_spec none _ _ _ 3 (by grind) (by grind)

example : Accepted 100 [((7 : Rat), (3 : Rat)), (-7, 1), (1 / 4, 2)] := by
  intro p hp
  simp only [List.mem_cons, List.not_mem_nil, or_false] at hp
  rcases hp with rfl | rfl | rfl <;> (unfold rabs; constructor <;> (try split) <;> grind)

end Sketch

namespace Store

/-- a sparse store observes exactly like its (canonical) content -/
theorem sp_refines (c : Content) (h : c.WF) : (Store.sp c).Refines c where
  wf := h
  total := rfl
  empty := rfl
  min := rfl
  max := rfl
  bins := rfl
  kar := by
    intro hne r
    cases c with
    | nil => exact absurd rfl hne
    | cons p rest =>
      have hp : 0 < p.2 := h.2 p (List.mem_cons_self ..)
      show (match Content.firstExceeding (p :: rest) 0 r with
            | some k => k
            | none => (Content.maxIndex? (p :: rest)).getD 0) = Content.keyAtRank (p :: rest) r
      unfold Content.keyAtRank
      by_cases hr : r < 0
      · have h1 : r < 0 + p.2 := by grind
        have h2 : (0 : Rat) < 0 + p.2 := by grind
        simp only [if_pos hr, Content.firstExceeding_cons, if_pos h1, if_pos h2]
      · simp only [if_neg hr]; rfl

/-- a sparse store refines only its own content -/
theorem sp_refines_eq {c c' : Content} (h : (Store.sp c).Refines c') : c = c' := by
  have := h.bins
  simpa [Store.binsList] using this

/-- merging ANY store that refines `co` into a sparse store -/
theorem sp_mergeWith (c : Content) (o : Store) (co : Content) (ho : o.Refines co) :
    (Store.sp c).mergeWith o = some (.sp (c.merge co)) := by
  have := ho.bins
  cases o <;> simp_all [Store.mergeWith]

end Store
end DDS
