/-
  DDS.Proofs.Quantile — the accuracy of `Sketch.quantile` (`GetValueAtQuantile`) on sketches built
  from unit-weight insertions into sparse (= spec) stores.

  Layout
  * A. finite-float comparison lemmas, `rabs`
  * B. unit-weight contents (`unitsOf`), permutation invariance, the positional lemma
       `kar_units_sorted` (the key at rank `r` of the content of a sorted index list is the
       element at position `⌊r⌋`, capped)
  * C. the state of a sketch after `addAll` of unit weights (`addAll_units`)
  * D. exact / monotone float arithmetic of the rank computation
  * E. the sorted ground truth splits into negatives, zero bucket, positives
  * F. `quantile_bin_core`: the answer is the bin representative of an order statistic of rank
       `⌊q(n-1)⌋` or `⌈q(n-1)⌉`
  * G. sketch-level statements (`addAll_ok'`, `addAll_state`, `quantile_bin`, `quantile_accuracy'`,
       `quantile_zero'`, `quantile_one'`); accuracy follows from the mapping contract
  * H. arbitrary non-negative weights under the exactness hypothesis `QExact`
       (`quantile_weighted`, `answer_from_nonempty_side'`), and what happens without it
       (`absorbed_count'`, `sub_one_absorbed`)
  * I. concrete instances for the satisfiability examples of the Props files
-/
import Mathlib.Tactic.Linarith
import Mathlib.Tactic.Ring
import Mathlib.Tactic.NormNum
import Mathlib.Tactic.Positivity
import Mathlib.Data.Rat.Floor
import Mathlib.Algebra.Order.Floor.Ring
import DDS.Proofs.SketchDefs
import DDS.Proofs.Num

set_option linter.unusedVariables false

namespace DDS

open Content

/-! ## A. finite floats, `rabs` -/

@[simp] theorem F64.lt_fin (a b : Rat) : F64.lt (.fin a) (.fin b) = decide (a < b) := rfl
@[simp] theorem F64.gt_fin (a b : Rat) : F64.gt (.fin a) (.fin b) = decide (b < a) := rfl
@[simp] theorem F64.neg_fin (a : Rat) : F64.neg (.fin a) = .fin (-a) := rfl
@[simp] theorem F64.isNaN_fin (a : Rat) : F64.isNaN (.fin a) = false := rfl
@[simp] theorem F64.eq_fin (a b : Rat) : F64.eq (.fin a) (.fin b) = (a == b) := rfl

@[simp] theorem F64.le_fin (a b : Rat) : F64.le (.fin a) (.fin b) = decide (a ≤ b) := by
  unfold F64.le
  rw [F64.lt_fin, F64.eq_fin, Bool.eq_iff_iff]
  simp [le_iff_lt_or_eq]

theorem rabs_eq_abs (x : Rat) : rabs x = |x| := by
  unfold rabs
  split
  · rw [abs_of_neg (by assumption)]
  · rw [abs_of_nonneg (by linarith)]

theorem rabs_nonneg (x : Rat) : 0 ≤ rabs x := by rw [rabs_eq_abs]; exact abs_nonneg x

theorem rabs_of_pos {x : Rat} (h : 0 < x) : rabs x = x := by
  rw [rabs_eq_abs, abs_of_pos h]

theorem rabs_of_neg {x : Rat} (h : x < 0) : rabs x = -x := by
  rw [rabs_eq_abs, abs_of_neg h]

theorem rabs_le_iff {x b : Rat} : rabs x ≤ b ↔ -b ≤ x ∧ x ≤ b := by
  rw [rabs_eq_abs]; exact abs_le

/-! ## B. unit-weight contents -/

/-- the pairs `(i, 1)` -/
def unitPairs (I : List Int) : List (Int × Rat) := I.map (fun i => (i, (1 : Rat)))

/-- the content holding one unit of weight per element of `I` -/
def unitsOf (I : List Int) : Content := Content.merge [] (unitPairs I)

@[simp] theorem unitPairs_nil : unitPairs [] = [] := rfl
@[simp] theorem unitPairs_cons (i : Int) (I : List Int) :
    unitPairs (i :: I) = (i, 1) :: unitPairs I := rfl

theorem total_unitPairs (I : List Int) : Content.total (unitPairs I) = (I.length : Rat) := by
  induction I with
  | nil => simp
  | cons i I ih => simp only [unitPairs_cons, total_cons, ih, List.length_cons]; push_cast; ring

theorem lookup_unitPairs (I : List Int) (j : Int) :
    Content.lookup (unitPairs I) j = (I.count j : Rat) := by
  induction I with
  | nil => simp
  | cons i I ih =>
    simp only [unitPairs_cons, lookup_cons, ih, List.count_cons]
    by_cases h : i = j
    · subst h; simp; ring
    · have : ¬ (i == j) = true := by simpa using h
      simp [h]

theorem unitPairs_nonneg (I : List Int) : ∀ p ∈ unitPairs I, 0 ≤ p.2 := by
  intro p hp
  obtain ⟨i, _, rfl⟩ := List.mem_map.1 hp
  norm_num

theorem wf_merge_units (c : Content) (h : c.WF) (I : List Int) : (c.merge (unitPairs I)).WF :=
  wf_merge_of_nonneg c _ h (unitPairs_nonneg I)

theorem wf_unitsOf (I : List Int) : (unitsOf I).WF := wf_merge_units [] wf_nil I

theorem total_unitsOf (I : List Int) : (unitsOf I).total = (I.length : Rat) := by
  unfold unitsOf; rw [total_merge, total_unitPairs]; simp

theorem lookup_unitsOf (I : List Int) (j : Int) : (unitsOf I).lookup j = (I.count j : Rat) := by
  unfold unitsOf; rw [lookup_merge, lookup_unitPairs]; simp

theorem unitsOf_perm {I J : List Int} (h : I.Perm J) : unitsOf I = unitsOf J := by
  apply Content.ext _ _ (wf_unitsOf I) (wf_unitsOf J)
  intro j
  rw [lookup_unitsOf, lookup_unitsOf, h.count_eq]

theorem unitsOf_nil : unitsOf [] = [] := rfl

theorem unitsOf_cons (i : Int) (I : List Int) : unitsOf (i :: I) = (unitsOf I).add i 1 := by
  apply Content.ext _ _ (wf_unitsOf _) (wf_add _ _ _ (wf_unitsOf I) (by norm_num))
  intro j
  rw [lookup_unitsOf, lookup_add, lookup_unitsOf, List.count_cons]
  by_cases h : i = j
  · subst h; simp
  · have h' : ¬ j = i := fun e => h e.symm
    simp [h, h']

theorem mem_unitsOf {I : List Int} {p : Int × Rat} (hp : p ∈ unitsOf I) : p.1 ∈ I := by
  unfold unitsOf at hp
  rcases mem_merge hp with h | ⟨q, hq, hqp⟩
  · simp at h
  · obtain ⟨i, hi, rfl⟩ := List.mem_map.1 hq
    rw [← hqp]; exact hi

theorem unitsOf_ne_nil {I : List Int} (h : I ≠ []) : unitsOf I ≠ [] := by
  intro hc
  have := total_unitsOf I
  rw [hc] at this
  simp at this
  exact h (List.eq_nil_of_length_eq_zero (by exact_mod_cast this.symm))

/-- the sparse store's `KeyAtRank` is `karAux` from 0 (no clamping of negative ranks) -/
theorem sp_keyAtRank (c : Content) (r : Rat) : Store.keyAtRank (.sp c) r = karAux c 0 r := rfl

theorem firstExceeding_shift (m : Content) (acc acc' r r' : Rat) (h : acc' - acc = r' - r) :
    firstExceeding m acc' r' = firstExceeding m acc r := by
  induction m generalizing acc acc' with
  | nil => rfl
  | cons p rest ih =>
    rw [firstExceeding_cons, firstExceeding_cons]
    have e : (r' < acc' + p.2) ↔ (r < acc + p.2) := by constructor <;> intro <;> linarith
    by_cases hc : r < acc + p.2
    · rw [if_pos hc, if_pos (e.2 hc)]
    · rw [if_neg hc, if_neg (fun x => hc (e.1 x))]
      exact ih _ _ (by linarith)

theorem karAux_shift (m : Content) (acc acc' r r' : Rat) (h : acc' - acc = r' - r) :
    karAux m acc' r' = karAux m acc r := by
  unfold karAux; rw [firstExceeding_shift m acc acc' r r' h]

/-- adding a unit at an index not above any key: the ranks shift by one -/
theorem karAux_add_min (c : Content) (hwf : c.WF) (hne : c ≠ []) (i : Int)
    (hi : ∀ p ∈ c, i ≤ p.1) (r : Rat) :
    karAux (c.add i 1) 0 r = if r < 1 then i else karAux c 0 (r - 1) := by
  cases c with
  | nil => exact absurd rfl hne
  | cons p rest =>
    have hp : 0 < p.2 := hwf.2 p (List.mem_cons_self ..)
    have hip := hi p (List.mem_cons_self ..)
    rw [add_cons, if_neg (by norm_num)]
    by_cases h1 : i < p.1
    · rw [if_pos h1, karAux_cons_cons]
      simp only [zero_add]
      by_cases hr : r < 1
      · rw [if_pos hr, if_pos hr]
      · rw [if_neg hr, if_neg hr]; exact karAux_shift _ _ _ _ _ (by ring)
    · have h2 : i = p.1 := by omega
      rw [if_neg h1, if_pos h2, if_neg (by linarith)]
      cases rest with
      | nil =>
        rw [karAux_singleton, karAux_singleton]; simp [h2]
      | cons q rest' =>
        rw [karAux_cons_cons, karAux_cons_cons]
        simp only [zero_add]
        by_cases hr : r < 1
        · rw [if_pos hr, if_pos (by linarith), h2]
        · rw [if_neg hr]
          by_cases hr2 : r < p.2 + 1
          · rw [if_pos hr2, if_pos (by linarith)]
          · rw [if_neg hr2, if_neg (by linarith)]
            exact karAux_shift _ _ _ _ _ (by ring)

/-- **positional lemma**: on the content of a non-decreasing index list, the key at rank `r` is
    the element at position `⌊r⌋` (position 0 for negative ranks, the last one past the end) -/
theorem kar_units_sorted (I : List Int) (hs : I.Pairwise (· ≤ ·)) (j : Nat) (hj : j < I.length)
    (r : Rat) (h1 : (j : Rat) ≤ r ∨ j = 0) (h2 : r < (j : Rat) + 1 ∨ j + 1 = I.length) :
    Store.keyAtRank (.sp (unitsOf I)) r = I[j] := by
  rw [sp_keyAtRank]
  induction I generalizing j r with
  | nil => simp at hj
  | cons i I' ih =>
    rw [unitsOf_cons]
    by_cases hI : I' = []
    · subst hI
      simp only [List.length_cons, List.length_nil] at hj
      have : j = 0 := by omega
      subst this
      rw [unitsOf_nil, add_nil, if_neg (by norm_num), karAux_singleton]; rfl
    · have hs' := List.pairwise_cons.1 hs
      rw [karAux_add_min _ (wf_unitsOf I') (unitsOf_ne_nil hI) i
        (fun p hp => hs'.1 _ (mem_unitsOf hp))]
      cases j with
      | zero =>
        have hlen : 0 < I'.length := List.length_pos_iff.2 hI
        have : r < 1 := by
          rcases h2 with h | h
          · simpa using h
          · simp only [List.length_cons] at h; omega
        rw [if_pos this]; rfl
      | succ j' =>
        have hr : (j' : Rat) + 1 ≤ r := by
          rcases h1 with h | h
          · push_cast at h; exact h
          · omega
        have hj0 : (0 : Rat) ≤ j' := by positivity
        rw [if_neg (by linarith)]
        simp only [List.length_cons] at hj h2
        rw [ih hs'.2 j' (by omega) (r - 1) (Or.inl (by linarith))
          (by rcases h2 with h | h
              · left; push_cast at h; linarith
              · right; omega)]
        rfl

/-! ## C. the sketch after `addAll` of unit weights -/

/-- index the mapping assigns to the magnitude of `x` -/
def idxOf (env : MapEnv) (x : Rat) : Int := env.index (.fin (rabs x))

def posPart (mn : Rat) (xs : List Rat) : List Rat := xs.filter (fun x => decide (mn < x))
def negPart (mn : Rat) (xs : List Rat) : List Rat := xs.filter (fun x => decide (x < -mn))
def zeroCnt (mn : Rat) (xs : List Rat) : Nat := (xs.filter (fun x => decide (rabs x ≤ mn))).length

/-- `k` float additions of 1 -/
def addOnes : Nat → F64 → F64
  | 0, z => z
  | k + 1, z => addOnes k (F64.add z (.fin 1))

theorem addOnes_nat (k z : Nat) (h : z + k ≤ 2 ^ 53) :
    addOnes k (.fin (z : Rat)) = .fin ((z + k : Nat) : Rat) := by
  induction k generalizing z with
  | zero => rfl
  | succ k ih =>
    have : F64.add (.fin (z : Rat)) (.fin 1) = .fin ((z + 1 : Nat) : Rat) := by
      show F64.roundF64 ((z : Rat) + 1) = _
      have := F64.roundF64_nat (z + 1) (by omega)
      push_cast at this ⊢
      exact this
    rw [addOnes, this, ih (z + 1) (by omega)]
    congr 2; omega

/-- one unit-weight insertion into a sketch with sparse stores -/
theorem addV_unit (env : MapEnv) (α mn mx : Rat) (C : Contract env α mn mx)
    (m : Option MapId) (cp cn : Content) (z : F64) (x : Rat) (hx : rabs x ≤ mx) :
    Sketch.addV env ⟨m, .sp cp, .sp cn, z⟩ x 1 = some (.ok
      (if mn < x then ⟨m, .sp (cp.add (idxOf env x) 1), .sp cn, z⟩
       else if x < -mn then ⟨m, .sp cp, .sp (cn.add (idxOf env x) 1), z⟩
       else ⟨m, .sp cp, .sp cn, F64.add z (.fin 1)⟩)) := by
  obtain ⟨hx1, hx2⟩ := rabs_le_iff.1 hx
  unfold Sketch.addV Sketch.addWithCount
  rw [C.minEq, C.maxEq]
  simp only [F64.lt_fin, F64.gt_fin, F64.neg_fin, F64.isNaN_fin]
  have h0 : ¬ ((1:Rat) < 0) := by norm_num
  have hx2' : ¬ mx < x := not_lt.2 hx2
  have hx1' : ¬ x < -mx := not_lt.2 hx1
  by_cases h1 : mn < x
  · simp [h0, h1, hx2', Sketch.ratOf?, Store.addWithCount, idxOf]
  · by_cases h2 : x < -mn
    · simp [h0, h1, h2, hx1', Sketch.ratOf?, Store.addWithCount, idxOf]
    · simp [h0, h1, h2, Sketch.ratOf?]

/-- the state after adding `xs` with unit weights -/
theorem addAll_units (env : MapEnv) (α mn mx : Rat) (C : Contract env α mn mx)
    (xs : List Rat) (hx : ∀ x ∈ xs, rabs x ≤ mx)
    (m : Option MapId) (cp cn : Content) (z : F64) :
    Sketch.addAll env ⟨m, .sp cp, .sp cn, z⟩ (xs.map (fun x => (x, 1))) =
      some ⟨m, .sp (cp.merge (unitPairs ((posPart mn xs).map (idxOf env)))),
               .sp (cn.merge (unitPairs ((negPart mn xs).map (idxOf env)))),
               addOnes (zeroCnt mn xs) z⟩ := by
  induction xs generalizing cp cn z with
  | nil => rfl
  | cons x xs ih =>
    have hx0 := hx x (List.mem_cons_self ..)
    have hxs : ∀ y ∈ xs, rabs y ≤ mx := fun y hy => hx y (List.mem_cons_of_mem _ hy)
    have hmn := C.minPos
    rw [List.map_cons, Sketch.addAll, addV_unit env α mn mx C m cp cn z x hx0]
    simp only
    by_cases h1 : mn < x
    · have h2 : ¬ x < -mn := by linarith
      have h3 : ¬ rabs x ≤ mn := by rw [rabs_of_pos (by linarith)]; linarith
      rw [if_pos h1, ih hxs]
      simp [posPart, negPart, zeroCnt, h1, h2, h3, merge_cons]
    · rw [if_neg h1]
      by_cases h2 : x < -mn
      · have h3 : ¬ rabs x ≤ mn := by rw [rabs_of_neg (by linarith)]; linarith
        rw [if_pos h2, ih hxs]
        simp [posPart, negPart, zeroCnt, h1, h2, h3, merge_cons]
      · have h3 : rabs x ≤ mn := rabs_le_iff.2 ⟨by linarith, by linarith⟩
        rw [if_neg h2, ih hxs]
        simp [posPart, negPart, zeroCnt, h1, h2, h3, addOnes]

theorem new_sparse (m : Option MapId) : Sketch.new m .sparse = ⟨m, .sp [], .sp [], .fin 0⟩ := rfl

theorem length_split (mn : Rat) (hmn : 0 < mn) (xs : List Rat) :
    (negPart mn xs).length + zeroCnt mn xs + (posPart mn xs).length = xs.length := by
  induction xs with
  | nil => rfl
  | cons x xs ih =>
    by_cases h1 : mn < x
    · have h2 : ¬ x < -mn := by linarith
      have h3 : ¬ rabs x ≤ mn := by rw [rabs_of_pos (by linarith)]; linarith
      simp [posPart, negPart, zeroCnt, h1, h2, h3] at ih ⊢; omega
    · by_cases h2 : x < -mn
      · have h3 : ¬ rabs x ≤ mn := by rw [rabs_of_neg (by linarith)]; linarith
        simp [posPart, negPart, zeroCnt, h1, h2, h3] at ih ⊢; omega
      · have h3 : rabs x ≤ mn := rabs_le_iff.2 ⟨by linarith, by linarith⟩
        simp [posPart, negPart, zeroCnt, h1, h2, h3] at ih ⊢; omega

/-! ## D. the float arithmetic of the rank -/

theorem two53_lt : (((2:Int)^53 : Int) : Rat) < pow2 1024 := by
  rw [← F64.pow2_53]; exact pow2_strictMono (by norm_num)

/-- rounding is finite and stays between integers of magnitude at most `2^53` -/
theorem round_between (x : Rat) (lo hi : Int) (h1 : (lo : Rat) ≤ x) (h2 : x ≤ (hi : Rat))
    (hlo : |lo| ≤ 2 ^ 53) (hhi : |hi| ≤ 2 ^ 53) :
    ∃ r, F64.roundF64 x = .fin r ∧ (lo : Rat) ≤ r ∧ r ≤ (hi : Rat) := by
  have e1 := F64.roundF64_int lo hlo
  have e2 := F64.roundF64_int hi hhi
  have hx : |x| ≤ (((2:Int)^53 : Int) : Rat) := by
    have a1 := abs_le.1 hlo
    have a2 := abs_le.1 hhi
    have b1 : (((-(2:Int)^53 : Int)) : Rat) ≤ (lo : Rat) := by exact_mod_cast a1.1
    have b2 : (hi : Rat) ≤ (((2:Int)^53 : Int) : Rat) := by exact_mod_cast a2.2
    rw [abs_le]; constructor
    · push_cast at b1 ⊢; linarith
    · linarith
  obtain ⟨hfin, _⟩ := F64.roundF64_fin_of_abs_le (F64.rv_int _ (by norm_num)) two53_lt hx
  exact ⟨_, hfin, F64.roundF64_mono h1 e1 hfin, F64.roundF64_mono h2 hfin e2⟩

theorem add_nat (a b : Nat) (h : a + b ≤ 2 ^ 53) :
    F64.add (.fin (a : Rat)) (.fin (b : Rat)) = .fin ((a + b : Nat) : Rat) := by
  show F64.roundF64 ((a : Rat) + (b : Rat)) = _
  rw [← Nat.cast_add]; exact F64.roundF64_nat _ h

/-! ## E. the sorted ground truth: negatives, zero bucket, positives -/

/-- ascending sort (the comparison `sortedInputs` uses) -/
def sortAsc (l : List Rat) : List Rat := l.mergeSort (fun a b => decide (a ≤ b))

theorem sortAsc_pairwise (l : List Rat) : (sortAsc l).Pairwise (· ≤ ·) := by
  have := List.pairwise_mergeSort (le := fun a b : Rat => decide (a ≤ b))
    (by intro a b c h1 h2; simp only [decide_eq_true_eq] at *; exact le_trans h1 h2)
    (by intro a b; simp only [Bool.or_eq_true, decide_eq_true_eq]; exact le_total a b) l
  exact this.imp (by intro a b h; simpa using h)

theorem sortAsc_perm (l : List Rat) : (sortAsc l).Perm l := List.mergeSort_perm l _

theorem mem_sortAsc {l : List Rat} {x : Rat} : x ∈ sortAsc l ↔ x ∈ l := (sortAsc_perm l).mem_iff

/-- the positive inputs, ascending -/
def Psorted (mn : Rat) (xs : List Rat) : List Rat := sortAsc (posPart mn xs)
/-- the magnitudes of the negative inputs, ascending -/
def Msorted (mn : Rat) (xs : List Rat) : List Rat := sortAsc ((negPart mn xs).map (fun x => -x))

/-- the shape of the ground truth -/
def threeWay (M : List Rat) (z : Nat) (P : List Rat) : List Rat :=
  M.reverse.map (fun x => -x) ++ List.replicate z 0 ++ P

theorem mem_Psorted {mn : Rat} {xs : List Rat} {x : Rat} :
    x ∈ Psorted mn xs ↔ x ∈ xs ∧ mn < x := by
  unfold Psorted posPart; rw [mem_sortAsc, List.mem_filter]; simp

theorem mem_Msorted {mn : Rat} {xs : List Rat} {x : Rat} :
    x ∈ Msorted mn xs ↔ -x ∈ xs ∧ mn < x := by
  unfold Msorted negPart; rw [mem_sortAsc, List.mem_map]
  constructor
  · rintro ⟨y, hy, rfl⟩
    rw [List.mem_filter] at hy
    simp only [decide_eq_true_eq] at hy
    exact ⟨by simpa using hy.1, by linarith⟩
  · rintro ⟨h1, h2⟩
    exact ⟨-x, List.mem_filter.2 ⟨h1, by simpa using (by linarith : -x < -mn)⟩, by simp⟩

theorem zeroSmall_perm (mn : Rat) (hmn : 0 < mn) (xs : List Rat) :
    (xs.map (zeroSmall mn)).Perm
      (negPart mn xs ++ List.replicate (zeroCnt mn xs) 0 ++ posPart mn xs) := by
  induction xs with
  | nil => exact List.Perm.refl _
  | cons x xs ih =>
    by_cases h1 : mn < x
    · have h2 : ¬ x < -mn := by linarith
      have h3 : ¬ rabs x ≤ mn := by rw [rabs_of_pos (by linarith)]; linarith
      have e : zeroSmall mn x = x := by unfold zeroSmall; rw [if_neg h3]
      simp only [List.map_cons, e, posPart, negPart, zeroCnt, List.filter_cons, h1, h2, h3,
        decide_true, decide_false, if_true, if_false, Bool.false_eq_true]
      exact (List.Perm.cons x ih).trans List.perm_middle.symm
    · by_cases h2 : x < -mn
      · have h3 : ¬ rabs x ≤ mn := by rw [rabs_of_neg (by linarith)]; linarith
        have e : zeroSmall mn x = x := by unfold zeroSmall; rw [if_neg h3]
        simp only [List.map_cons, e, posPart, negPart, zeroCnt, List.filter_cons, h1, h2, h3,
          decide_true, decide_false, if_true, if_false, Bool.false_eq_true]
        exact List.Perm.cons x ih
      · have h3 : rabs x ≤ mn := rabs_le_iff.2 ⟨by linarith, by linarith⟩
        have e : zeroSmall mn x = 0 := by unfold zeroSmall; rw [if_pos h3]
        simp only [List.map_cons, e, posPart, negPart, zeroCnt, List.filter_cons, h1, h2, h3,
          decide_true, decide_false, if_true, if_false, Bool.false_eq_true, List.length_cons,
          List.replicate_succ]
        refine (List.Perm.cons 0 ih).trans ?_
        rw [List.append_assoc, List.append_assoc]
        exact List.perm_middle.symm

theorem threeWay_perm (mn : Rat) (hmn : 0 < mn) (xs : List Rat) :
    (threeWay (Msorted mn xs) (zeroCnt mn xs) (Psorted mn xs)).Perm (xs.map (zeroSmall mn)) := by
  refine List.Perm.trans ?_ (zeroSmall_perm mn hmn xs).symm
  unfold threeWay
  refine List.Perm.append (List.Perm.append ?_ (List.Perm.refl _)) (sortAsc_perm _)
  have h1 : ((Msorted mn xs).reverse.map (fun x => -x)).Perm
      (((negPart mn xs).map (fun x => -x)).map (fun x => -x)) :=
    List.Perm.map _ ((List.reverse_perm _).trans (sortAsc_perm _))
  rw [List.map_map] at h1
  have h2 : ((fun x : Rat => -x) ∘ fun x => -x) = id := by funext x; simp
  rwa [h2, List.map_id] at h1

theorem threeWay_pairwise (mn : Rat) (hmn : 0 < mn) (xs : List Rat) :
    (threeWay (Msorted mn xs) (zeroCnt mn xs) (Psorted mn xs)).Pairwise (· ≤ ·) := by
  unfold threeWay
  rw [List.pairwise_append, List.pairwise_append]
  refine ⟨⟨?_, ?_, ?_⟩, sortAsc_pairwise _, ?_⟩
  · rw [List.pairwise_map, List.pairwise_reverse]
    exact (sortAsc_pairwise _).imp (by intro a b h; linarith)
  · rw [List.pairwise_replicate]; right; exact le_refl _
  · intro a ha b hb
    obtain ⟨y, hy, rfl⟩ := List.mem_map.1 ha
    rw [List.mem_reverse] at hy
    have := (mem_Msorted.1 hy).2
    rw [(List.mem_replicate.1 hb).2]; linarith
  · intro a ha b hb
    have hb' := (mem_Psorted.1 hb).2
    rcases List.mem_append.1 ha with ha | ha
    · obtain ⟨y, hy, rfl⟩ := List.mem_map.1 ha
      rw [List.mem_reverse] at hy
      have := (mem_Msorted.1 hy).2
      linarith
    · rw [(List.mem_replicate.1 ha).2]; linarith

/-- **the ground truth splits three ways** -/
theorem sortedInputs_split (mn : Rat) (hmn : 0 < mn) (xs : List Rat) :
    sortedInputs mn xs = threeWay (Msorted mn xs) (zeroCnt mn xs) (Psorted mn xs) := by
  have hp : (sortedInputs mn xs).Perm (threeWay (Msorted mn xs) (zeroCnt mn xs) (Psorted mn xs)) :=
    (sortAsc_perm _).trans (threeWay_perm mn hmn xs).symm
  exact List.Perm.eq_of_pairwise (le := (· ≤ ·)) (fun a b _ _ h1 h2 => le_antisymm h1 h2)
    (sortAsc_pairwise _) (threeWay_pairwise mn hmn xs) hp

theorem length_threeWay (M : List Rat) (z : Nat) (P : List Rat) :
    (threeWay M z P).length = M.length + z + P.length := by
  simp [threeWay]; omega

theorem threeWay_get_neg (M : List Rat) (z : Nat) (P : List Rat) (k : Nat) (hk : k < M.length) :
    (threeWay M z P)[k]! = -(M[M.length - 1 - k]'(by omega)) := by
  rw [getElem!_pos _ k (by rw [length_threeWay]; omega)]
  unfold threeWay
  rw [List.getElem_append_left (by simp; omega), List.getElem_append_left (by simpa using hk),
    List.getElem_map, List.getElem_reverse]

theorem threeWay_get_zero (M : List Rat) (z : Nat) (P : List Rat) (k : Nat) (h1 : M.length ≤ k)
    (h2 : k < M.length + z) : (threeWay M z P)[k]! = 0 := by
  rw [getElem!_pos _ k (by rw [length_threeWay]; omega)]
  unfold threeWay
  rw [List.getElem_append_left (by simp; omega), List.getElem_append_right (by simpa using h1),
    List.getElem_replicate]

theorem threeWay_get_pos (M : List Rat) (z : Nat) (P : List Rat) (p : Nat) (hp : p < P.length) :
    (threeWay M z P)[M.length + z + p]! = P[p] := by
  rw [getElem!_pos _ _ (by rw [length_threeWay]; omega)]
  unfold threeWay
  rw [List.getElem_append_right (by simp)]
  simp

/-! ## F. evaluation of `quantile` -/

theorem storeKeyAtRank_fin (st : Store) (r : Rat) :
    Sketch.storeKeyAtRank st (.fin r) = st.keyAtRank r := rfl

theorem sub_fin (a b : Rat) : F64.sub (.fin a) (.fin b) = F64.roundF64 (a + -b) := rfl

/-- the head of `GetValueAtQuantile`: count, rank, three-way split — with the two counts and the
    zero bucket natural numbers, every float operation up to the rank is exact except the product,
    which lands between the neighbouring integers -/
theorem quantile_eval (env : MapEnv) (m : Option MapId) (cp cn : Content) (z nn np : Nat)
    (hcp : cp.total = (np : Rat)) (hcn : cn.total = (nn : Rat))
    (hn1 : 1 ≤ nn + z + np) (hn2 : nn + z + np ≤ 2 ^ 53)
    (q : Rat) (hq0 : 0 ≤ q) (hq1 : q ≤ 1) :
    ∃ r : Rat, F64.mul (.fin q) (.fin (((nn + z + np : Nat) : Rat) - 1)) = .fin r ∧
      ((⌊q * (((nn + z + np : Nat) : Rat) - 1)⌋ : Int) : Rat) ≤ r ∧
      r ≤ ((⌈q * (((nn + z + np : Nat) : Rat) - 1)⌉ : Int) : Rat) ∧
      Sketch.quantile env ⟨m, .sp cp, .sp cn, .fin (z : Rat)⟩ (.fin q) =
        if r < (nn : Rat) then
          .ok (F64.neg (env.value (Sketch.storeKeyAtRank (.sp cn)
            (F64.sub (.fin ((nn : Rat) - 1)) (.fin r)))))
        else if r < ((z + nn : Nat) : Rat) then .ok (.fin 0)
        else .ok (env.value (Sketch.storeKeyAtRank (.sp cp)
            (F64.sub (F64.sub (.fin r) (.fin (z : Rat))) (.fin (nn : Rat))))) := by
  obtain ⟨n, hn⟩ : ∃ n, n = nn + z + np := ⟨_, rfl⟩
  rw [← hn] at hn1 hn2 ⊢
  have ec : Sketch.getCount ⟨m, .sp cp, .sp cn, .fin (z : Rat)⟩ = .fin (n : Rat) := by
    unfold Sketch.getCount Sketch.posTotal Sketch.negTotal
    simp only [Store.totalCount, hcp, hcn]
    rw [add_nat z np (by omega), add_nat (z + np) nn (by omega)]
    congr 2; omega
  have es : F64.sub (.fin (n : Rat)) F64.one = .fin ((n : Rat) - 1) := by
    have := F64.sub_int (n : Int) 1 (abs_le.2 ⟨by omega, by omega⟩)
    push_cast at this
    exact this
  have en : F64.sub (.fin (nn : Rat)) F64.one = .fin ((nn : Rat) - 1) := by
    have := F64.sub_int (nn : Int) 1 (abs_le.2 ⟨by omega, by omega⟩)
    push_cast at this
    exact this
  obtain ⟨r, hr, hlo, hhi⟩ := F64.mul_between_floor_ceil q ((n : Int) - 1) hq0 hq1 (by omega) (by omega)
  push_cast at hr hlo hhi
  refine ⟨r, hr, hlo, hhi, ?_⟩
  have hr0 : 0 ≤ r := by
    have h0 : (0 : Rat) ≤ q * ((n : Rat) - 1) := by
      apply mul_nonneg hq0
      have : (1 : Rat) ≤ (n : Rat) := by exact_mod_cast hn1
      linarith
    have : (0 : Int) ≤ ⌊q * ((n : Rat) - 1)⌋ := Int.floor_nonneg.2 h0
    have : (0 : Rat) ≤ ((⌊q * ((n : Rat) - 1)⌋ : Int) : Rat) := by exact_mod_cast this
    linarith
  have hn0 : ¬ ((n : Rat) = 0) := by
    have : (1 : Rat) ≤ (n : Rat) := by exact_mod_cast hn1
    intro h; linarith
  unfold Sketch.quantile
  simp only [ec, es, hr, Sketch.negTotal, Store.totalCount, hcn, en, F64.le_fin, F64.lt_fin,
    F64.eq_fin, hq0, hq1, decide_true, Bool.and_self, Bool.not_true, Bool.false_eq_true,
    if_false, beq_iff_eq, hn0, not_lt.2 hr0, decide_false, add_nat z nn (by omega),
    decide_eq_true_eq]

/-- representative of the bin of a (zero-collapsed) value, with its sign -/
def binRep (env : MapEnv) (y : Rat) : F64 :=
  if 0 < y then env.value (idxOf env y)
  else if y < 0 then F64.neg (env.value (idxOf env y))
  else .fin 0

theorem idxOf_neg (env : MapEnv) (x : Rat) : idxOf env (-x) = idxOf env x := by
  unfold idxOf; rw [rabs_eq_abs, rabs_eq_abs, abs_neg]

theorem idxOf_pos (env : MapEnv) {x : Rat} (h : 0 < x) : idxOf env x = env.index (.fin x) := by
  unfold idxOf; rw [rabs_of_pos h]

theorem binRep_zero (env : MapEnv) : binRep env 0 = .fin 0 := by simp [binRep]

theorem binRep_pos (env : MapEnv) {x : Rat} (h : 0 < x) : binRep env x = env.value (idxOf env x) := by
  unfold binRep; rw [if_pos h]

theorem binRep_neg (env : MapEnv) {x : Rat} (h : 0 < x) :
    binRep env (-x) = F64.neg (env.value (idxOf env x)) := by
  unfold binRep
  rw [if_neg (by linarith), if_pos (by linarith), idxOf_neg]

theorem idx_pairwise (env : MapEnv) (α mn mx : Rat) (C : Contract env α mn mx) (L : List Rat)
    (hs : L.Pairwise (· ≤ ·)) (hr : ∀ x ∈ L, mn < x ∧ x ≤ mx) :
    (L.map (idxOf env)).Pairwise (· ≤ ·) := by
  rw [List.pairwise_map]
  refine hs.imp_of_mem ?_
  intro a b ha hb hab
  have hmn := C.minPos
  rw [idxOf_pos env (by linarith [(hr a ha).1]), idxOf_pos env (by linarith [(hr b hb).1])]
  exact C.idxMono a b (hr a ha).1 hab (hr b hb).2

theorem threeWay_get_neg' (M : List Rat) (z : Nat) (P : List Rat) (k pn : Nat)
    (h : k + pn + 1 = M.length) : (threeWay M z P)[k]! = -(M[pn]'(by omega)) := by
  rw [threeWay_get_neg M z P k (by omega)]
  have : M.length - 1 - k = pn := by omega
  simp only [this]

/-- **core**: on the sketch holding the unit contents of the sorted magnitudes `M` (negative side),
    `z` zeros and the sorted positives `P`, the quantile is the bin representative of the
    element of rank `⌊q(n-1)⌋` or `⌈q(n-1)⌉` of the ground truth -/
theorem quantile_bin_core (env : MapEnv) (α mn mx : Rat) (C : Contract env α mn mx)
    (m : Option MapId) (P M : List Rat) (z : Nat)
    (hP : P.Pairwise (· ≤ ·)) (hM : M.Pairwise (· ≤ ·))
    (hPr : ∀ x ∈ P, mn < x ∧ x ≤ mx) (hMr : ∀ x ∈ M, mn < x ∧ x ≤ mx)
    (hn1 : 1 ≤ M.length + z + P.length) (hn2 : M.length + z + P.length ≤ 2 ^ 53)
    (q : Rat) (hq0 : 0 ≤ q) (hq1 : q ≤ 1) :
    ∃ k : Nat, k < M.length + z + P.length ∧
      ((k : Int) = ⌊q * (((M.length + z + P.length : Nat) : Rat) - 1)⌋ ∨
       (k : Int) = ⌈q * (((M.length + z + P.length : Nat) : Rat) - 1)⌉) ∧
      Sketch.quantile env
        ⟨m, .sp (unitsOf (P.map (idxOf env))), .sp (unitsOf (M.map (idxOf env))), .fin (z : Rat)⟩
        (.fin q) = .ok (binRep env ((threeWay M z P)[k]!)) := by
  have hmn := C.minPos
  obtain ⟨nn, hnn⟩ : ∃ nn, nn = M.length := ⟨_, rfl⟩
  obtain ⟨np, hnp⟩ : ∃ np, np = P.length := ⟨_, rfl⟩
  obtain ⟨IP, hIPe⟩ : ∃ IP, IP = P.map (idxOf env) := ⟨_, rfl⟩
  obtain ⟨IM, hIMe⟩ : ∃ IM, IM = M.map (idxOf env) := ⟨_, rfl⟩
  have hIP : IP.Pairwise (· ≤ ·) := hIPe ▸ idx_pairwise env α mn mx C P hP hPr
  have hIM : IM.Pairwise (· ≤ ·) := hIMe ▸ idx_pairwise env α mn mx C M hM hMr
  have hIPl : IP.length = np := by rw [hIPe, hnp, List.length_map]
  have hIMl : IM.length = nn := by rw [hIMe, hnn, List.length_map]
  rw [← hnn, ← hnp] at hn1 hn2 ⊢
  rw [← hIPe, ← hIMe]
  have hcp : (unitsOf IP).total = (np : Rat) := by rw [total_unitsOf, hIPl]
  have hcn : (unitsOf IM).total = (nn : Rat) := by rw [total_unitsOf, hIMl]
  obtain ⟨r, hr, hL, hU, hqe⟩ := quantile_eval env m _ _ z nn np hcp hcn hn1 hn2 q hq0 hq1
  rw [hqe]
  obtain ⟨n, hn⟩ : ∃ n, n = nn + z + np := ⟨_, rfl⟩
  rw [← hn] at hL hU hn1 hn2 ⊢
  have hnR : (1 : Rat) ≤ (n : Rat) := by exact_mod_cast hn1
  obtain ⟨t, ht⟩ : ∃ t, t = q * ((n : Rat) - 1) := ⟨_, rfl⟩
  rw [← ht] at hL hU ⊢
  have ht0 : 0 ≤ t := by rw [ht]; exact mul_nonneg hq0 (by linarith)
  have ht1 : t ≤ (n : Rat) - 1 := by
    rw [ht]; nlinarith
  obtain ⟨lo, hlo⟩ : ∃ lo : Int, lo = ⌊r⌋ := ⟨_, rfl⟩
  obtain ⟨hi, hhi⟩ : ∃ hi : Int, hi = ⌈r⌉ := ⟨_, rfl⟩
  have f1 : (lo : Rat) ≤ r := hlo ▸ Int.floor_le r
  have f2 : r < (lo : Rat) + 1 := hlo ▸ Int.lt_floor_add_one r
  have f3 : r ≤ (hi : Rat) := hhi ▸ Int.le_ceil r
  have g1 : ⌊t⌋ ≤ lo := hlo ▸ Int.le_floor.2 hL
  have g2 : hi ≤ ⌈t⌉ := hhi ▸ Int.ceil_le.2 hU
  have g3 : lo ≤ hi := by rw [hlo, hhi]; exact Int.floor_le_ceil r
  have g4 : hi ≤ lo + 1 := by rw [hlo, hhi]; exact Int.ceil_le_floor_add_one r
  have g5 : ⌈t⌉ ≤ ⌊t⌋ + 1 := Int.ceil_le_floor_add_one t
  have g6 : 0 ≤ ⌊t⌋ := Int.floor_nonneg.2 ht0
  have g7 : ⌈t⌉ ≤ (n : Int) - 1 := Int.ceil_le.2 (by push_cast; exact ht1)
  by_cases c1 : r < (nn : Rat)
  · rw [if_pos c1]
    have hlonn : lo < (nn : Int) := by
      have : (lo : Rat) < (nn : Rat) := lt_of_le_of_lt f1 c1
      exact_mod_cast this
    obtain ⟨r', hr', b1, b2⟩ := round_between ((nn : Rat) - 1 + -r) ((nn : Int) - 1 - hi)
      ((nn : Int) - 1 - lo) (by push_cast; linarith) (by push_cast; linarith)
      (abs_le.2 ⟨by omega, by omega⟩) (abs_le.2 ⟨by omega, by omega⟩)
    push_cast at b1 b2
    rw [sub_fin, hr']
    have claim : ∃ pn : Nat, pn < nn ∧ ((pn : Rat) ≤ r' ∨ pn = 0) ∧
        (r' < (pn : Rat) + 1 ∨ pn + 1 = nn) ∧
        ((nn : Int) - 1 - pn = lo ∨ (nn : Int) - 1 - pn = hi) := by
      by_cases e : r' = (nn : Rat) - 1 - lo
      · obtain ⟨pn, hpn⟩ := Int.eq_ofNat_of_zero_le (show 0 ≤ (nn : Int) - 1 - lo by omega)
        have hpnR : (pn : Rat) = (nn : Rat) - 1 - lo := by
          have : (((nn : Int) - 1 - lo : Int) : Rat) = ((pn : Int) : Rat) := by rw [hpn]
          push_cast at this; linarith
        exact ⟨pn, by omega, Or.inl (by linarith), Or.inl (by linarith), Or.inl (by omega)⟩
      · have hlt : r' < (nn : Rat) - 1 - lo := lt_of_le_of_ne b2 e
        have hne : hi = lo + 1 := by
          by_contra hc
          have h' : hi = lo := by omega
          rw [h'] at b1; linarith
        have hneR : (hi : Rat) = (lo : Rat) + 1 := by rw [hne]; push_cast; ring
        by_cases e2 : lo = (nn : Int) - 1
        · have e2R : (lo : Rat) = (nn : Rat) - 1 := by rw [e2]; push_cast; ring
          exact ⟨0, by omega, Or.inr rfl, Or.inl (by push_cast; linarith), Or.inl (by omega)⟩
        · obtain ⟨pn, hpn⟩ := Int.eq_ofNat_of_zero_le (show 0 ≤ (nn : Int) - 2 - lo by omega)
          have hpnR : (pn : Rat) = (nn : Rat) - 2 - lo := by
            have : (((nn : Int) - 2 - lo : Int) : Rat) = ((pn : Int) : Rat) := by rw [hpn]
            push_cast at this; linarith
          exact ⟨pn, by omega, Or.inl (by linarith), Or.inl (by linarith), Or.inr (by omega)⟩
    obtain ⟨pn, p1, p2, p3, p4⟩ := claim
    have key := kar_units_sorted IM hIM pn (by omega) r' p2 (by rw [hIMl]; exact p3)
    refine ⟨nn - 1 - pn, by omega, by omega, ?_⟩
    have hpnM : pn < M.length := by omega
    rw [threeWay_get_neg' M z P (nn - 1 - pn) pn (by omega),
      binRep_neg env (by linarith [(hMr _ (List.getElem_mem hpnM)).1])]
    rw [storeKeyAtRank_fin, key]
    simp only [hIMe, List.getElem_map]
  · rw [if_neg c1]
    have c1' : (nn : Rat) ≤ r := not_lt.1 c1
    have hnnlo : (nn : Int) ≤ lo := by
      have : (nn : Rat) < (lo : Rat) + 1 := lt_of_le_of_lt c1' f2
      have : (nn : Int) < lo + 1 := by exact_mod_cast this
      omega
    by_cases c2 : r < ((z + nn : Nat) : Rat)
    · rw [if_pos c2]
      have hlo2 : lo < (z : Int) + nn := by
        have : (lo : Rat) < ((z + nn : Nat) : Rat) := lt_of_le_of_lt f1 c2
        exact_mod_cast this
      obtain ⟨k, hk⟩ := Int.eq_ofNat_of_zero_le (show 0 ≤ lo by omega)
      refine ⟨k, by omega, by omega, ?_⟩
      rw [threeWay_get_zero M z P k (by omega) (by omega), binRep_zero]
    · rw [if_neg c2]
      have c2' : ((z + nn : Nat) : Rat) ≤ r := not_lt.1 c2
      have hlo2 : (z : Int) + nn ≤ lo := by
        have : ((z + nn : Nat) : Rat) < (lo : Rat) + 1 := lt_of_le_of_lt c2' f2
        have : ((z + nn : Nat) : Int) < lo + 1 := by exact_mod_cast this
        omega
      obtain ⟨r1, hr1, a1, a2⟩ := round_between (r + -(z : Rat)) (lo - (z : Int)) (hi - (z : Int))
        (by push_cast; linarith) (by push_cast; linarith)
        (abs_le.2 ⟨by omega, by omega⟩) (abs_le.2 ⟨by omega, by omega⟩)
      obtain ⟨r2, hr2, b1, b2⟩ := round_between (r1 + -(nn : Rat)) (lo - (z : Int) - (nn : Int))
        (hi - (z : Int) - (nn : Int))
        (by push_cast at a1 ⊢; linarith) (by push_cast at a2 ⊢; linarith)
        (abs_le.2 ⟨by omega, by omega⟩) (abs_le.2 ⟨by omega, by omega⟩)
      push_cast at b1 b2
      rw [sub_fin, hr1, sub_fin, hr2]
      have claim : ∃ pp : Nat, pp < np ∧ (pp : Rat) ≤ r2 ∧
          (r2 < (pp : Rat) + 1 ∨ pp + 1 = np) ∧
          ((nn : Int) + z + pp = lo ∨ (nn : Int) + z + pp = hi) := by
        obtain ⟨mm, hmm⟩ := Int.eq_ofNat_of_zero_le (show 0 ≤ lo - (z : Int) - (nn : Int) by omega)
        have hmmR : (mm : Rat) = (lo : Rat) - z - nn := by
          have : ((lo - (z : Int) - (nn : Int) : Int) : Rat) = ((mm : Int) : Rat) := by rw [hmm]
          push_cast at this; linarith
        by_cases e : r2 < (mm : Rat) + 1
        · exact ⟨mm, by omega, by linarith, Or.inl e, Or.inl (by omega)⟩
        · have hne : hi = lo + 1 := by
            by_contra hc
            have h' : hi = lo := by omega
            rw [h'] at b2; linarith
          have hneR : (hi : Rat) = (lo : Rat) + 1 := by rw [hne]; push_cast; ring
          by_cases e2 : mm + 1 < np
          · exact ⟨mm + 1, e2, by push_cast; linarith, Or.inl (by push_cast; linarith),
              Or.inr (by omega)⟩
          · exact ⟨mm, by omega, by linarith, Or.inr (by omega), Or.inl (by omega)⟩
      obtain ⟨pp, p1, p2, p3, p4⟩ := claim
      have key := kar_units_sorted IP hIP pp (by omega) r2 (Or.inl p2) (by rw [hIPl]; exact p3)
      refine ⟨nn + z + pp, by omega, by omega, ?_⟩
      have hppP : pp < P.length := by omega
      rw [hnn, threeWay_get_pos M z P pp hppP,
        binRep_pos env (by linarith [(hPr _ (List.getElem_mem hppP)).1])]
      rw [storeKeyAtRank_fin, key]
      simp only [hIPe, List.getElem_map]

/-! ## G. sketch-level statements -/

theorem unit_list (xs : List Rat) : xs.map (fun x => (x, (1 : Rat))) = xs.map (fun x => (x, 1)) := rfl

/-- `addAll` of unit weights never fails on admissible values (no bound on the length) -/
theorem addAll_ok' (env : MapEnv) (α mn mx : Rat) (C : Contract env α mn mx)
    (xs : List Rat) (hx : ∀ x ∈ xs, rabs x ≤ mx) :
    ∃ s, Sketch.addAll env (Sketch.new (some env.id) .sparse) (xs.map (fun x => (x, 1))) = some s := by
  rw [new_sparse, addAll_units env α mn mx C xs hx]
  exact ⟨_, rfl⟩

/-- the sketch after adding `xs` (at most `2^53` values) with unit weights -/
theorem addAll_state (env : MapEnv) (α mn mx : Rat) (C : Contract env α mn mx)
    (xs : List Rat) (hx : ∀ x ∈ xs, rabs x ≤ mx) (hn : xs.length ≤ 2 ^ 53) (s : Sketch)
    (hs : Sketch.addAll env (Sketch.new (some env.id) .sparse) (xs.map (fun x => (x, 1))) = some s) :
    s = ⟨some env.id, .sp (unitsOf ((Psorted mn xs).map (idxOf env))),
          .sp (unitsOf ((Msorted mn xs).map (idxOf env))), .fin (zeroCnt mn xs : Rat)⟩ := by
  rw [new_sparse, addAll_units env α mn mx C xs hx] at hs
  have hs' := (Option.some.inj hs).symm
  rw [hs']
  have hlen := length_split mn C.minPos xs
  have e1 : Content.merge [] (unitPairs ((posPart mn xs).map (idxOf env)))
      = unitsOf ((Psorted mn xs).map (idxOf env)) :=
    unitsOf_perm ((sortAsc_perm _).symm.map _)
  have e2 : Content.merge [] (unitPairs ((negPart mn xs).map (idxOf env)))
      = unitsOf ((Msorted mn xs).map (idxOf env)) := by
    have h1 : ((Msorted mn xs).map (idxOf env)).Perm
        (((negPart mn xs).map (fun x => -x)).map (idxOf env)) := (sortAsc_perm _).map _
    rw [List.map_map] at h1
    have h2 : (idxOf env ∘ fun x : Rat => -x) = idxOf env := by
      funext x; exact idxOf_neg env x
    rw [h2] at h1
    exact unitsOf_perm h1.symm
  have e3 : addOnes (zeroCnt mn xs) (.fin 0) = .fin (zeroCnt mn xs : Rat) := by
    have := addOnes_nat (zeroCnt mn xs) 0 (by omega)
    simpa using this
  rw [e1, e2, e3]

theorem mem_sortedInputs {mn : Rat} {xs : List Rat} {y : Rat} :
    y ∈ sortedInputs mn xs ↔ ∃ x ∈ xs, zeroSmall mn x = y := by
  unfold sortedInputs
  rw [(List.mergeSort_perm _ _).mem_iff, List.mem_map]

theorem length_sortedInputs (mn : Rat) (xs : List Rat) : (sortedInputs mn xs).length = xs.length := by
  unfold sortedInputs
  rw [(List.mergeSort_perm _ _).length_eq, List.length_map]

theorem sortedInputs_pairwise (mn : Rat) (xs : List Rat) : (sortedInputs mn xs).Pairwise (· ≤ ·) :=
  sortAsc_pairwise _

/-- **the answer is the bin representative of an order statistic of rank `⌊q(n-1)⌋` or `⌈q(n-1)⌉`** -/
theorem quantile_bin (env : MapEnv) (α mn mx : Rat) (C : Contract env α mn mx)
    (xs : List Rat) (hx : ∀ x ∈ xs, rabs x ≤ mx) (hne : xs ≠ []) (hn : xs.length ≤ 2 ^ 53)
    (s : Sketch)
    (hs : Sketch.addAll env (Sketch.new (some env.id) .sparse) (xs.map (fun x => (x, 1))) = some s)
    (q : Rat) (hq0 : 0 ≤ q) (hq1 : q ≤ 1) :
    ∃ k : Nat, k < xs.length ∧
      ((k : Int) = ⌊q * ((xs.length : Rat) - 1)⌋ ∨ (k : Int) = ⌈q * ((xs.length : Rat) - 1)⌉) ∧
      Sketch.quantile env s (.fin q) = .ok (binRep env ((sortedInputs mn xs)[k]!)) := by
  have hmn := C.minPos
  rw [addAll_state env α mn mx C xs hx hn s hs, sortedInputs_split mn hmn xs]
  have hlen : (Msorted mn xs).length + zeroCnt mn xs + (Psorted mn xs).length = xs.length := by
    have := length_split mn hmn xs
    rw [Msorted, Psorted, (sortAsc_perm _).length_eq, (sortAsc_perm _).length_eq, List.length_map]
    exact this
  have hpos : 0 < xs.length := List.length_pos_iff.2 hne
  have hPr : ∀ x ∈ Psorted mn xs, mn < x ∧ x ≤ mx := by
    intro x hxP
    obtain ⟨h1, h2⟩ := mem_Psorted.1 hxP
    exact ⟨h2, (rabs_le_iff.1 (hx x h1)).2⟩
  have hMr : ∀ x ∈ Msorted mn xs, mn < x ∧ x ≤ mx := by
    intro x hxM
    obtain ⟨h1, h2⟩ := mem_Msorted.1 hxM
    have := (rabs_le_iff.1 (hx _ h1)).1
    exact ⟨h2, by linarith⟩
  have := quantile_bin_core env α mn mx C (some env.id) (Psorted mn xs) (Msorted mn xs)
    (zeroCnt mn xs) (sortAsc_pairwise _) (sortAsc_pairwise _) hPr hMr (by omega) (by omega)
    q hq0 hq1
  rw [hlen] at this
  exact this

/-- accuracy of the bin representative (from the mapping contract) -/
theorem binRep_acc (env : MapEnv) (α mn mx : Rat) (C : Contract env α mn mx) (y : Rat)
    (hy : y = 0 ∨ (mn < rabs y ∧ rabs y ≤ mx)) :
    ∃ a, binRep env y = .fin a ∧ rabs (a - y) ≤ α * rabs y := by
  have hmn := C.minPos
  rcases hy with rfl | ⟨h1, h2⟩
  · refine ⟨0, binRep_zero env, ?_⟩
    simp [rabs]
  · rcases lt_trichotomy y 0 with hneg | h0 | hpos
    · obtain ⟨r, hr, _⟩ := C.valFin (idxOf env y)
      rw [rabs_of_neg hneg] at h1 h2
      have e : binRep env y = .fin (-r) := by
        have := binRep_neg env (x := -y) (by linarith)
        rw [neg_neg, idxOf_neg, hr] at this
        exact this
      refine ⟨-r, e, ?_⟩
      have hidx : idxOf env y = env.index (.fin (-y)) := by
        rw [← idxOf_neg, idxOf_pos env (by linarith)]
      rw [hidx] at hr
      have := C.acc (-y) r h1 h2 hr
      rw [rabs_of_neg hneg]
      rw [rabs_eq_abs] at this ⊢
      rw [show -r - y = -(r - -y) by ring, abs_neg]
      exact this
    · subst h0
      rw [rabs_eq_abs, abs_zero] at h1; linarith
    · obtain ⟨r, hr, _⟩ := C.valFin (idxOf env y)
      rw [rabs_of_pos hpos] at h1 h2 ⊢
      refine ⟨r, by rw [binRep_pos env hpos, hr], ?_⟩
      rw [idxOf_pos env hpos] at hr
      exact C.acc y r h1 h2 hr

/-- every element of the ground truth is 0 or an admissible magnitude -/
theorem sortedInputs_range (mn mx : Rat) (xs : List Rat) (hx : ∀ x ∈ xs, rabs x ≤ mx) (y : Rat)
    (hy : y ∈ sortedInputs mn xs) : y = 0 ∨ (mn < rabs y ∧ rabs y ≤ mx) := by
  obtain ⟨x, hxm, rfl⟩ := mem_sortedInputs.1 hy
  unfold zeroSmall
  split
  · left; rfl
  · right; exact ⟨by linarith, hx x hxm⟩

/-- **the DDSketch guarantee** -/
theorem quantile_accuracy' (env : MapEnv) (α mn mx : Rat) (C : Contract env α mn mx)
    (xs : List Rat) (hx : ∀ x ∈ xs, rabs x ≤ mx) (hne : xs ≠ []) (hn : xs.length ≤ 2 ^ 53)
    (s : Sketch)
    (hs : Sketch.addAll env (Sketch.new (some env.id) .sparse) (xs.map (fun x => (x, 1))) = some s)
    (q : Rat) (hq0 : 0 ≤ q) (hq1 : q ≤ 1) :
    ∃ a : Rat, Sketch.quantile env s (.fin q) = .ok (.fin a) ∧
      ∃ k : Nat, k < xs.length ∧
        ((k : Int) = ⌊q * ((xs.length : Rat) - 1)⌋ ∨ (k : Int) = ⌈q * ((xs.length : Rat) - 1)⌉) ∧
        rabs (a - (sortedInputs mn xs)[k]!) ≤ α * rabs ((sortedInputs mn xs)[k]!) := by
  obtain ⟨k, hk, hfc, hqv⟩ := quantile_bin env α mn mx C xs hx hne hn s hs q hq0 hq1
  have hk' : k < (sortedInputs mn xs).length := by rw [length_sortedInputs]; exact hk
  have hmem : (sortedInputs mn xs)[k]! ∈ sortedInputs mn xs := by
    rw [getElem!_pos _ k hk']; exact List.getElem_mem hk'
  obtain ⟨a, ha, hacc⟩ := binRep_acc env α mn mx C _ (sortedInputs_range mn mx xs hx _ hmem)
  exact ⟨a, by rw [hqv, ha], k, hk, hfc, hacc⟩

/-- `q = 0`: the bin representative of the smallest element -/
theorem quantile_zero' (env : MapEnv) (α mn mx : Rat) (C : Contract env α mn mx)
    (xs : List Rat) (hx : ∀ x ∈ xs, rabs x ≤ mx) (hne : xs ≠ []) (hn : xs.length ≤ 2 ^ 53)
    (s : Sketch)
    (hs : Sketch.addAll env (Sketch.new (some env.id) .sparse) (xs.map (fun x => (x, 1))) = some s) :
    Sketch.quantile env s (.fin 0) = .ok (binRep env ((sortedInputs mn xs)[0]!)) := by
  obtain ⟨k, hk, hfc, hqv⟩ := quantile_bin env α mn mx C xs hx hne hn s hs 0 le_rfl (by norm_num)
  simp only [zero_mul, Int.floor_zero, Int.ceil_zero, or_self] at hfc
  have : k = 0 := by omega
  rw [hqv, this]

/-- `q = 1`: the bin representative of the largest element -/
theorem quantile_one' (env : MapEnv) (α mn mx : Rat) (C : Contract env α mn mx)
    (xs : List Rat) (hx : ∀ x ∈ xs, rabs x ≤ mx) (hne : xs ≠ []) (hn : xs.length ≤ 2 ^ 53)
    (s : Sketch)
    (hs : Sketch.addAll env (Sketch.new (some env.id) .sparse) (xs.map (fun x => (x, 1))) = some s) :
    Sketch.quantile env s (.fin 1) = .ok (binRep env ((sortedInputs mn xs)[xs.length - 1]!)) := by
  obtain ⟨k, hk, hfc, hqv⟩ := quantile_bin env α mn mx C xs hx hne hn s hs 1 (by norm_num) le_rfl
  have hpos : 0 < xs.length := List.length_pos_iff.2 hne
  have e : (1 : Rat) * ((xs.length : Rat) - 1) = (((xs.length : Int) - 1 : Int) : Rat) := by
    push_cast; ring
  rw [e, Int.floor_intCast, Int.ceil_intCast, or_self] at hfc
  have : k = xs.length - 1 := by omega
  rw [hqv, this]

/-- the first element of the ground truth is its minimum, the last its maximum -/
theorem sortedInputs_min (mn : Rat) (xs : List Rat) (y : Rat) (hy : y ∈ sortedInputs mn xs) :
    (sortedInputs mn xs)[0]! ≤ y := by
  obtain ⟨j, hj, rfl⟩ := List.getElem_of_mem hy
  have h0 : 0 < (sortedInputs mn xs).length := by omega
  rw [getElem!_pos _ 0 h0]
  rcases Nat.eq_zero_or_pos j with rfl | hjp
  · exact le_refl _
  · exact (List.pairwise_iff_getElem.1 (sortedInputs_pairwise mn xs)) 0 j h0 hj hjp

theorem sortedInputs_max (mn : Rat) (xs : List Rat) (y : Rat) (hy : y ∈ sortedInputs mn xs) :
    y ≤ (sortedInputs mn xs)[xs.length - 1]! := by
  obtain ⟨j, hj, rfl⟩ := List.getElem_of_mem hy
  have hl := length_sortedInputs mn xs
  have h0 : xs.length - 1 < (sortedInputs mn xs).length := by omega
  rw [getElem!_pos (sortedInputs mn xs) (xs.length - 1) h0]
  rcases Nat.lt_or_ge j (xs.length - 1) with hjp | hjp
  · exact (List.pairwise_iff_getElem.1 (sortedInputs_pairwise mn xs)) j _ hj h0 hjp
  · have : j = xs.length - 1 := by omega
    subst this; exact le_refl _

/-! ## H. arbitrary non-negative weights, exact float sums -/

/-- one weighted insertion into a sketch with sparse stores -/
theorem addV_weight (env : MapEnv) (α mn mx : Rat) (C : Contract env α mn mx)
    (m : Option MapId) (cp cn : Content) (z : F64) (x c : Rat) (hx : rabs x ≤ mx) (hc : 0 ≤ c) :
    Sketch.addV env ⟨m, .sp cp, .sp cn, z⟩ x c = some (.ok
      (if mn < x then ⟨m, .sp (cp.add (idxOf env x) c), .sp cn, z⟩
       else if x < -mn then ⟨m, .sp cp, .sp (cn.add (idxOf env x) c), z⟩
       else ⟨m, .sp cp, .sp cn, F64.add z (.fin c)⟩)) := by
  obtain ⟨hx1, hx2⟩ := rabs_le_iff.1 hx
  unfold Sketch.addV Sketch.addWithCount
  rw [C.minEq, C.maxEq]
  simp only [F64.lt_fin, F64.gt_fin, F64.neg_fin, F64.isNaN_fin]
  have h0 : ¬ (c < 0) := not_lt.2 hc
  have hx2' : ¬ mx < x := not_lt.2 hx2
  have hx1' : ¬ x < -mx := not_lt.2 hx1
  by_cases h1 : mn < x
  · simp [h0, h1, hx2', Sketch.ratOf?, Store.addWithCount, idxOf]
  · by_cases h2 : x < -mn
    · simp [h0, h1, h2, hx1', Sketch.ratOf?, Store.addWithCount, idxOf]
    · simp [h0, h1, h2, Sketch.ratOf?]

/-- `(index, weight)` of the inputs routed to the positive store -/
def posPairs (env : MapEnv) (mn : Rat) (xs : List (Rat × Rat)) : List (Int × Rat) :=
  (xs.filter (fun p => decide (mn < p.1))).map (fun p => (idxOf env p.1, p.2))
/-- `(index, weight)` of the inputs routed to the negative store -/
def negPairs (env : MapEnv) (mn : Rat) (xs : List (Rat × Rat)) : List (Int × Rat) :=
  (xs.filter (fun p => decide (p.1 < -mn))).map (fun p => (idxOf env p.1, p.2))
/-- the zero bucket: the float sum, in input order, of the weights of the remaining inputs -/
def zeroSum (mn : Rat) : List (Rat × Rat) → F64 → F64
  | [], z => z
  | p :: rest, z => zeroSum mn rest (if rabs p.1 ≤ mn then F64.add z (.fin p.2) else z)

/-- the state after adding weighted values: never refused, never panics -/
theorem addAll_weighted (env : MapEnv) (α mn mx : Rat) (C : Contract env α mn mx)
    (xs : List (Rat × Rat)) (hx : ∀ p ∈ xs, rabs p.1 ≤ mx ∧ 0 ≤ p.2)
    (m : Option MapId) (cp cn : Content) (z : F64) :
    Sketch.addAll env ⟨m, .sp cp, .sp cn, z⟩ xs =
      some ⟨m, .sp (cp.merge (posPairs env mn xs)), .sp (cn.merge (negPairs env mn xs)),
        zeroSum mn xs z⟩ := by
  induction xs generalizing cp cn z with
  | nil => rfl
  | cons p xs ih =>
    obtain ⟨x, c⟩ := p
    obtain ⟨hx0, hc0⟩ := hx (x, c) (List.mem_cons_self ..)
    have hxs : ∀ y ∈ xs, rabs y.1 ≤ mx ∧ 0 ≤ y.2 := fun y hy => hx y (List.mem_cons_of_mem _ hy)
    have hmn := C.minPos
    rw [Sketch.addAll, addV_weight env α mn mx C m cp cn z x c hx0 hc0]
    simp only
    by_cases h1 : mn < x
    · have h2 : ¬ x < -mn := by linarith
      have h3 : ¬ rabs x ≤ mn := by rw [rabs_of_pos (by linarith)]; linarith
      rw [if_pos h1, ih hxs]
      simp [posPairs, negPairs, zeroSum, h1, h2, h3, merge_cons]
    · rw [if_neg h1]
      by_cases h2 : x < -mn
      · have h3 : ¬ rabs x ≤ mn := by rw [rabs_of_neg (by linarith)]; linarith
        rw [if_pos h2, ih hxs]
        simp [posPairs, negPairs, zeroSum, h1, h2, h3, merge_cons]
      · have h3 : rabs x ≤ mn := rabs_le_iff.2 ⟨by linarith, by linarith⟩
        rw [if_neg h2, ih hxs]
        simp [posPairs, negPairs, zeroSum, h1, h2, h3]

theorem posPairs_nonneg (env : MapEnv) (mn : Rat) (xs : List (Rat × Rat))
    (hx : ∀ p ∈ xs, 0 ≤ p.2) : ∀ p ∈ posPairs env mn xs, 0 ≤ p.2 := by
  intro p hp
  obtain ⟨y, hy, rfl⟩ := List.mem_map.1 hp
  exact hx y (List.mem_filter.1 hy).1

theorem negPairs_nonneg (env : MapEnv) (mn : Rat) (xs : List (Rat × Rat))
    (hx : ∀ p ∈ xs, 0 ≤ p.2) : ∀ p ∈ negPairs env mn xs, 0 ≤ p.2 := by
  intro p hp
  obtain ⟨y, hy, rfl⟩ := List.mem_map.1 hp
  exact hx y (List.mem_filter.1 hy).1

/-- the rank after the clamp at 0 -/
def clampRank (r0 : Rat) : Rat := if r0 < 0 then 0 else r0

theorem clampRank_nonneg (r0 : Rat) : 0 ≤ clampRank r0 := by
  unfold clampRank; split <;> linarith

/-- **the exactness hypothesis**: which float operations of `GetValueAtQuantile` are assumed to
    return the exact rational result (`rank0` is only assumed finite: `r0` is whatever the rounded
    product is) -/
structure QExact (cp cn : Content) (z q r0 : Rat) : Prop where
  /-- `GetCount() = zeroCount + pos.TotalCount() + neg.TotalCount()` -/
  count : F64.add (F64.add (.fin z) (.fin cp.total)) (.fin cn.total)
            = .fin (z + cp.total + cn.total)
  /-- `count - 1` -/
  countm1 : F64.sub (.fin (z + cp.total + cn.total)) F64.one = .fin (z + cp.total + cn.total - 1)
  /-- `q * (count - 1)` is finite -/
  rank0 : F64.mul (.fin q) (.fin (z + cp.total + cn.total - 1)) = .fin r0
  /-- `negativeValueCount - 1` -/
  negm1 : F64.sub (.fin cn.total) F64.one = .fin (cn.total - 1)
  /-- `negativeValueCount - 1 - rank` -/
  negRank : F64.sub (.fin (cn.total - 1)) (.fin (clampRank r0)) = .fin (cn.total - 1 - clampRank r0)
  /-- `zeroCount + negativeValueCount` -/
  zeroNeg : F64.add (.fin z) (.fin cn.total) = .fin (z + cn.total)
  /-- `rank - zeroCount` -/
  posRank1 : F64.sub (.fin (clampRank r0)) (.fin z) = .fin (clampRank r0 - z)
  /-- `rank - zeroCount - negativeValueCount` -/
  posRank2 : F64.sub (.fin (clampRank r0 - z)) (.fin cn.total) = .fin (clampRank r0 - z - cn.total)

theorem clamp_fin (r0 : Rat) :
    (if r0 < 0 then F64.fin 0 else .fin r0) = .fin (clampRank r0) := by
  unfold clampRank
  by_cases h : r0 < 0 <;> simp [h]

/-- under `QExact` the clamped rank is below the total weight, and 0 when the total is below 1 -/
theorem clampRank_lt (cp cn : Content) (z q r0 : Rat) (hq0 : 0 ≤ q) (hq1 : q ≤ 1)
    (hW : 0 < z + cp.total + cn.total) (hE : QExact cp cn z q r0) :
    clampRank r0 < z + cp.total + cn.total ∧ (z + cp.total + cn.total < 1 → clampRank r0 = 0) := by
  obtain ⟨W, hWe⟩ : ∃ W, W = z + cp.total + cn.total := ⟨_, rfl⟩
  have h1 := hE.countm1
  have h2 := hE.rank0
  rw [← hWe] at h1 h2 hW ⊢
  have h1 : F64.roundF64 (W + -(1 : Rat)) = .fin (W - 1) := h1
  have h2' : F64.roundF64 (q * (W - 1)) = .fin r0 := h2
  by_cases hW1 : W < 1
  · have : q * (W - 1) ≤ 0 := mul_nonpos_of_nonneg_of_nonpos hq0 (by linarith)
    have hr := F64.roundF64_nonpos this h2'
    have : clampRank r0 = 0 := by
      unfold clampRank; split
      · rfl
      · linarith
    exact ⟨by rw [this]; exact hW, fun _ => this⟩
  · have hle : q * (W - 1) ≤ W + -(1 : Rat) := by nlinarith
    have hr : r0 ≤ W - 1 := F64.roundF64_mono hle h2' h1
    refine ⟨?_, fun h => absurd h hW1⟩
    unfold clampRank; split <;> linarith

/-- evaluation of `quantile` under the exactness hypothesis -/
theorem quantile_eval_exact (env : MapEnv) (m : Option MapId) (cp cn : Content) (z q r0 : Rat)
    (hq0 : 0 ≤ q) (hq1 : q ≤ 1) (hW : 0 < z + cp.total + cn.total) (hE : QExact cp cn z q r0) :
    Sketch.quantile env ⟨m, .sp cp, .sp cn, .fin z⟩ (.fin q) =
      if clampRank r0 < cn.total then
        .ok (F64.neg (env.value (karAux cn 0 (cn.total - 1 - clampRank r0))))
      else if clampRank r0 < z + cn.total then .ok (.fin 0)
      else .ok (env.value (karAux cp 0 (clampRank r0 - z - cn.total))) := by
  have hW0 : ¬ (z + cp.total + cn.total = 0) := ne_of_gt hW
  unfold Sketch.quantile
  simp only [Sketch.getCount, Sketch.posTotal, Sketch.negTotal, Store.totalCount, hE.count,
    hE.countm1, hE.rank0, clamp_fin, hE.negm1, hE.negRank, hE.zeroNeg, hE.posRank1, hE.posRank2,
    F64.le_fin, F64.lt_fin, F64.eq_fin, hq0, hq1, decide_true, Bool.and_self, Bool.not_true,
    Bool.false_eq_true, if_false, beq_iff_eq, hW0, decide_eq_true_eq,
    storeKeyAtRank_fin, sp_keyAtRank]

theorem karAux_neg (c : Content) (h : c.WF) (r : Rat) (hr : r < 0) : karAux c 0 r = karAux c 0 0 := by
  cases c with
  | nil => rfl
  | cons p rest =>
    have hp : 0 < p.2 := h.2 p (List.mem_cons_self ..)
    unfold karAux
    rw [firstExceeding_cons, firstExceeding_cons, if_pos (by linarith), if_pos (by linarith)]

theorem karAux_eq_keyAtRank (c : Content) (h : c.WF) (r : Rat) : karAux c 0 r = c.keyAtRank r := by
  rw [keyAtRank_eq_karAux]
  split
  · exact karAux_neg c h r (by assumption)
  · rfl

/-- the cumulative weight at any index is 0 or the cumulative weight at a key not above it -/
theorem cumul_eq_zero_or_key (m : Content) (h : Sorted m) (k : Int) :
    cumul m k = 0 ∨ ∃ p ∈ m, p.1 ≤ k ∧ cumul m k = cumul m p.1 := by
  induction m with
  | nil => left; rfl
  | cons p rest ih =>
    have hlt := h.head_lt
    by_cases hp : p.1 ≤ k
    · rcases ih h.tail with h0 | ⟨p', hp', hle, he⟩
      · right
        refine ⟨p, List.mem_cons_self .., hp, ?_⟩
        have : cumul rest p.1 = 0 := cumul_eq_zero_of_lt rest p.1 hlt
        simp only [cumul_cons, h0, this, if_pos hp, le_refl, if_true]
      · right
        refine ⟨p', List.mem_cons_of_mem _ hp', hle, ?_⟩
        have : p.1 ≤ p'.1 := le_of_lt (hlt p' hp')
        simp only [cumul_cons, he, if_pos hp, if_pos this]
    · left
      have : cumul rest k = 0 :=
        cumul_eq_zero_of_lt rest k (fun q hq => by have := hlt q hq; omega)
      simp only [cumul_cons, if_neg hp, this, add_zero]

theorem cumul_pred_le (m : Content) (h : Sorted m) (k : Int) (ρ : Rat) (hρ : 0 ≤ ρ)
    (hb : ∀ p ∈ m, p.1 < k → cumul m p.1 ≤ ρ) : cumul m (k - 1) ≤ ρ := by
  rcases cumul_eq_zero_or_key m h (k - 1) with h0 | ⟨p, hp, hle, he⟩
  · rw [h0]; exact hρ
  · rw [he]; exact hb p hp (by omega)

/-- **weighted quantile**: which bin answers, in terms of cumulative weights.
    `cumul c k` is the weight of `c` at indexes `≤ k`. -/
theorem quantile_weighted (env : MapEnv) (m : Option MapId) (cp cn : Content) (z q r0 : Rat)
    (hcp : cp.WF) (hcn : cn.WF) (hz : 0 ≤ z) (hq0 : 0 ≤ q) (hq1 : q ≤ 1)
    (hW : 0 < z + cp.total + cn.total) (hE : QExact cp cn z q r0) :
    (clampRank r0 < cn.total ∧ ∃ j w, (j, w) ∈ cn ∧
        Sketch.quantile env ⟨m, .sp cp, .sp cn, .fin z⟩ (.fin q) = .ok (F64.neg (env.value j)) ∧
        cn.total - cumul cn j < min (clampRank r0 + 1) cn.total ∧
        min (clampRank r0 + 1) cn.total ≤ cn.total - cumul cn (j - 1)) ∨
    (cn.total ≤ clampRank r0 ∧ clampRank r0 < z + cn.total ∧
        Sketch.quantile env ⟨m, .sp cp, .sp cn, .fin z⟩ (.fin q) = .ok (.fin 0)) ∨
    (z + cn.total ≤ clampRank r0 ∧ ∃ j w, (j, w) ∈ cp ∧
        Sketch.quantile env ⟨m, .sp cp, .sp cn, .fin z⟩ (.fin q) = .ok (env.value j) ∧
        z + cn.total + cumul cp (j - 1) ≤ clampRank r0 ∧
        clampRank r0 < z + cn.total + cumul cp j) := by
  have hev := quantile_eval_exact env m cp cn z q r0 hq0 hq1 hW hE
  obtain ⟨hlt, _⟩ := clampRank_lt cp cn z q r0 hq0 hq1 hW hE
  have hrk0 := clampRank_nonneg r0
  obtain ⟨rk, hrk⟩ : ∃ rk, rk = clampRank r0 := ⟨_, rfl⟩
  rw [← hrk] at hev hlt hrk0 ⊢
  by_cases c1 : rk < cn.total
  · left
    rw [if_pos c1] at hev
    have hne : cn ≠ [] := by
      intro h; rw [h] at c1; simp at c1; linarith
    obtain ⟨ρ, hρ⟩ : ∃ ρ, ρ = cn.total - 1 - rk := ⟨_, rfl⟩
    rw [← hρ, karAux_eq_keyAtRank cn hcn] at hev
    obtain ⟨w, hw⟩ := keyAtRank_mem cn ρ hne
    refine ⟨c1, cn.keyAtRank ρ, w, hw, hev, ?_⟩
    have hspec := keyAtRank_spec cn hcn hne ρ
    simp only at hspec
    obtain ⟨ρ', hρ'⟩ : ∃ ρ', ρ' = if ρ < 0 then 0 else ρ := ⟨_, rfl⟩
    rw [← hρ'] at hspec
    have hρ'0 : 0 ≤ ρ' := by rw [hρ']; split <;> linarith
    have hmin : min (rk + 1) cn.total = cn.total - ρ' := by
      rw [hρ']
      split
      · rw [min_eq_right (by linarith)]; ring
      · rw [min_eq_left (by linarith)]; rw [hρ]; ring
    rcases hspec with ⟨s1, s2⟩ | ⟨s1, _⟩
    · have s3 := cumul_pred_le cn hcn.1 _ ρ' hρ'0 s2
      rw [hmin]
      constructor <;> linarith
    · exfalso
      rw [hρ'] at s1
      split at s1 <;> linarith
  · right
    rw [if_neg c1] at hev
    by_cases c2 : rk < z + cn.total
    · left
      rw [if_pos c2] at hev
      exact ⟨not_lt.1 c1, c2, hev⟩
    · right
      rw [if_neg c2] at hev
      have c2' := not_lt.1 c2
      have hne : cp ≠ [] := by
        intro h; rw [h] at hlt; simp at hlt; linarith
      obtain ⟨ρ, hρ⟩ : ∃ ρ, ρ = rk - z - cn.total := ⟨_, rfl⟩
      rw [← hρ, karAux_eq_keyAtRank cp hcp] at hev
      obtain ⟨w, hw⟩ := keyAtRank_mem cp ρ hne
      refine ⟨c2', cp.keyAtRank ρ, w, hw, hev, ?_⟩
      have hspec := keyAtRank_spec cp hcp hne ρ
      simp only at hspec
      have hρ0 : ¬ ρ < 0 := by rw [hρ]; linarith
      rw [if_neg hρ0] at hspec
      rcases hspec with ⟨s1, s2⟩ | ⟨s1, _⟩
      · have s3 := cumul_pred_le cp hcp.1 _ ρ (not_lt.1 hρ0) s2
        constructor <;> linarith
      · exfalso; linarith

/-- **the answer is never taken from an empty store** -/
theorem answer_from_nonempty_side' (env : MapEnv)
    (hval : ∀ i, ∃ r, env.value i = .fin r ∧ 0 < r)
    (m : Option MapId) (cp cn : Content) (z q r0 : Rat)
    (hcp : cp.WF) (hcn : cn.WF) (hz : 0 ≤ z) (hq0 : 0 ≤ q) (hq1 : q ≤ 1)
    (hW : 0 < z + cp.total + cn.total) (hE : QExact cp cn z q r0) :
    (cn = [] → ∃ a, Sketch.quantile env ⟨m, .sp cp, .sp cn, .fin z⟩ (.fin q) = .ok (.fin a) ∧ 0 ≤ a) ∧
    (cp = [] → ∃ a, Sketch.quantile env ⟨m, .sp cp, .sp cn, .fin z⟩ (.fin q) = .ok (.fin a) ∧ a ≤ 0) := by
  have h := quantile_weighted env m cp cn z q r0 hcp hcn hz hq0 hq1 hW hE
  constructor
  · intro hn
    rcases h with ⟨_, j, w, hjw, _⟩ | ⟨_, _, h0⟩ | ⟨_, j, w, _, hv, _⟩
    · rw [hn] at hjw; simp at hjw
    · exact ⟨0, h0, le_refl _⟩
    · obtain ⟨r, hr, hr0⟩ := hval j
      exact ⟨r, by rw [hv, hr], le_of_lt hr0⟩
  · intro hp
    rcases h with ⟨_, j, w, _, hv, _⟩ | ⟨_, _, h0⟩ | ⟨_, j, w, hjw, _⟩
    · obtain ⟨r, hr, hr0⟩ := hval j
      exact ⟨-r, by rw [hv, hr]; rfl, by linarith⟩
    · exact ⟨0, h0, le_refl _⟩
    · rw [hp] at hjw; simp at hjw

/-- If the (representable) count `W` absorbs the subtraction of 1, all the weight is negative and
    `q = 1`, the answer is read from the empty positive store: `+value 0`. -/
theorem absorbed_count' (env : MapEnv) (m : Option MapId) (cn : Content)
    (hW : 0 < cn.total)
    (hrep : F64.roundF64 cn.total = .fin cn.total)
    (habs : F64.sub (.fin cn.total) F64.one = .fin cn.total) :
    Sketch.quantile env ⟨m, .sp [], .sp cn, .fin 0⟩ (.fin 1) = .ok (env.value 0) := by
  obtain ⟨W, hWe⟩ : ∃ W, W = cn.total := ⟨_, rfl⟩
  rw [← hWe] at hW hrep habs
  have e0 : F64.add (.fin 0) (.fin (0 : Rat)) = .fin 0 := by
    show F64.roundF64 (0 + 0) = _; rw [add_zero]; exact F64.roundF64_zero
  have e1 : F64.add (.fin 0) (.fin W) = .fin W := by
    show F64.roundF64 (0 + W) = _; rw [zero_add]; exact hrep
  have e2 : F64.mul (.fin 1) (.fin W) = .fin W := by
    show F64.roundF64 (1 * W) = _; rw [one_mul]; exact hrep
  have e3 : F64.sub (.fin W) (.fin 0) = .fin W := by
    show F64.roundF64 (W + -0) = _; rw [neg_zero, add_zero]; exact hrep
  have e4 : F64.sub (.fin W) (.fin W) = .fin 0 := by
    show F64.roundF64 (W + -W) = _; rw [add_neg_cancel]; exact F64.roundF64_zero
  have hW0 : ¬ W = 0 := ne_of_gt hW
  have hW1 : ¬ W < 0 := not_lt.2 (le_of_lt hW)
  unfold Sketch.quantile
  simp only [Sketch.getCount, Sketch.posTotal, Sketch.negTotal, Store.totalCount, total_nil, ← hWe,
    e0, e1, habs, e2, e3, e4, F64.le_fin, F64.lt_fin, F64.eq_fin, decide_true, Bool.and_self,
    Bool.not_true, Bool.false_eq_true, if_false, beq_iff_eq, hW0, hW1, lt_irrefl, decide_false,
    le_refl, zero_le_one]
  rfl

theorem roundHalfEven_tie54 : F64.roundHalfEven (((2:Rat)^54 - 1) / 2) = 2^53 := by
  have hf : (((2:Rat)^54 - 1) / 2).floor = 2^53 - 1 := by
    show ⌊((2:Rat)^54 - 1) / 2⌋ = _
    rw [Int.floor_eq_iff]
    constructor <;> norm_num
  unfold F64.roundHalfEven
  simp only [hf]
  norm_num

theorem pow2_54 : pow2 54 = (2:Rat)^54 := by rw [pow2_eq_zpow]; norm_num

/-- `2^54 - 1` is a tie between `2^54 - 2` and `2^54`; it rounds to the even significand -/
theorem sub_one_absorbed : F64.sub (.fin ((2:Rat)^54)) F64.one = .fin ((2:Rat)^54) := by
  show F64.roundF64 ((2:Rat)^54 + -1) = _
  have hx : (0:Rat) < (2:Rat)^54 + -1 := by norm_num
  have hfl : F64.floorLog2 ((2:Rat)^54 + -1) = 53 := by
    apply F64.floorLog2_unique
    · rw [pow2_eq_zpow]; norm_num
    · rw [pow2_eq_zpow]; norm_num
  have hqe : F64.quantumExp ((2:Rat)^54 + -1) = 1 := by
    rw [F64.quantumExp_of_normal (by rw [hfl]; norm_num), hfl]; norm_num
  have hrpv : F64.rpv ((2:Rat)^54 + -1) = (2:Rat)^54 := by
    unfold F64.rpv
    rw [hqe, pow2_one, show ((2:Rat)^54 + -1) / 2 = ((2:Rat)^54 - 1) / 2 by ring, roundHalfEven_tie54]
    norm_num
  unfold F64.roundF64
  rw [if_neg (ne_of_gt hx), if_pos hx, F64.roundPos_eq, hrpv, if_neg]
  rw [← pow2_54]; exact not_le.2 (pow2_strictMono (by norm_num))

theorem round_pow54 : F64.roundF64 ((2:Rat)^54) = .fin ((2:Rat)^54) := by
  have := F64.roundF64_dyadic 1 54 (by norm_num) (by norm_num)
    (by rw [Int.cast_one, abs_one, one_mul]; exact pow2_strictMono (by norm_num))
  rw [Int.cast_one, one_mul, pow2_54] at this
  exact this

/-! ## I. concrete instances for the satisfiability examples of `DDS.Props.C01` / `C11` -/

namespace QuantileEx

/-- a two-bin mapping with `α = 1/2` (`γ = 3`): bin 0 = `(4/3, 4]` ↦ 2, bin 1 = `(4, 12]` ↦ 6 -/
def exEnv : MapEnv where
  id := ⟨.log, .fin 3, .fin 0⟩
  minIndexable := .fin (4 / 3)
  maxIndexable := .fin 12
  relAcc := .fin (1 / 2)
  value := fun i => if i ≤ 0 then .fin 2 else .fin 6
  lowerBound := fun i => if i ≤ 0 then .fin (4 / 3) else .fin 4
  index := fun v => match v with
    | .fin x => if x ≤ 4 then 0 else 1
    | _ => 0

/-- the contract is satisfiable -/
theorem exContract : Contract exEnv (1 / 2) (4 / 3) 12 := by
  refine ⟨rfl, rfl, by norm_num, by norm_num, by norm_num, by norm_num, ?_, ?_, ?_, ?_⟩
  · intro i
    by_cases h : i ≤ 0
    · exact ⟨2, by simp [exEnv, h], by norm_num⟩
    · exact ⟨6, by simp [exEnv, h], by norm_num⟩
  · intro i j ri rj hij hi hj
    by_cases h1 : i ≤ 0 <;> by_cases h2 : j ≤ 0 <;> simp [exEnv, h1, h2] at hi hj
    · rw [← hi, ← hj]
    · rw [← hi, ← hj]; norm_num
    · omega
    · rw [← hi, ← hj]
  · intro v w hv hvw hw
    by_cases h1 : v ≤ 4 <;> by_cases h2 : w ≤ 4 <;> simp [exEnv, h1, h2]
    linarith
  · intro v r hv hw hr
    by_cases h1 : v ≤ 4
    · simp [exEnv, h1] at hr
      rw [← hr, rabs_eq_abs, abs_le]; constructor <;> linarith
    · simp [exEnv, h1] at hr
      rw [← hr, rabs_eq_abs, abs_le]; constructor <;> linarith



def exXs : List Rat := [5, -2, 1, 3, -7, 0, 12]

theorem exXs_ok : ∀ x ∈ exXs, rabs x ≤ 12 := by
  intro x hx
  simp only [exXs, List.mem_cons, List.not_mem_nil, or_false] at hx
  rcases hx with rfl | rfl | rfl | rfl | rfl | rfl | rfl <;> (unfold rabs; norm_num)

/-- quarter-integers of moderate size are binary64 numbers -/
theorem isRep_quarter (x : Rat) (m : Int) (hm : |m| ≤ 2 ^ 53) (hx : x = (m : Rat) / 4) :
    F64.isRep x = true := by
  have h4 : pow2 (-2) = 1 / 4 := by rw [pow2_eq_zpow]; norm_num
  have hlt : |(m : Rat)| * pow2 (-2) < pow2 1024 := by
    have h1 : |(m : Rat)| ≤ pow2 53 := by rw [F64.pow2_53]; exact_mod_cast hm
    have h2 : pow2 53 < pow2 1024 := pow2_strictMono (by norm_num)
    have h3 : (0 : Rat) ≤ |(m : Rat)| := abs_nonneg _
    rw [h4]; linarith
  have := F64.isRep_dyadic m (-2) hm (by norm_num) hlt
  rw [h4] at this
  rw [hx]; convert this using 2; ring

/-- negative side: weight 1/2 at index 0 (small magnitude), 1/2 at index 1 (large magnitude) -/
def exCn : Content := [(0, 1 / 2), (1, 1 / 2)]
/-- positive side: weight 2 at index 5 -/
def exCp : Content := [(5, 2)]

theorem exCn_total : exCn.total = 1 := by norm_num [exCn, Content.total]
theorem exCp_total : exCp.total = 2 := by norm_num [exCp, Content.total]
theorem ex_clamp : clampRank (1 / 4) = 1 / 4 := by norm_num [clampRank]

/-- `QExact` holds on an instance with fractional weights: `W = 3`, `q = 1/8`, `rank' = 1/4` -/
theorem exExact : QExact exCp exCn 0 (1 / 8) (1 / 4) := by
  constructor
  · rw [F64.add_exact _ _ (isRep_quarter _ 8 (by norm_num) (by rw [exCp_total]; norm_num))]
    exact F64.add_exact _ _ (isRep_quarter _ 12 (by norm_num) (by rw [exCp_total, exCn_total]; norm_num))
  · exact F64.sub_exact _ 1 (isRep_quarter _ 8 (by norm_num) (by rw [exCp_total, exCn_total]; norm_num))
  · have := F64.mul_exact (1 / 8) (0 + exCp.total + exCn.total - 1)
      (isRep_quarter _ 1 (by norm_num) (by rw [exCp_total, exCn_total]; norm_num))
    rw [this, exCp_total, exCn_total]; norm_num
  · exact F64.sub_exact _ 1 (isRep_quarter _ 0 (by norm_num) (by rw [exCn_total]; norm_num))
  · exact F64.sub_exact _ _ (isRep_quarter _ (-1) (by norm_num) (by rw [exCn_total, ex_clamp]; norm_num))
  · exact F64.add_exact _ _ (isRep_quarter _ 4 (by norm_num) (by rw [exCn_total]; norm_num))
  · exact F64.sub_exact _ _ (isRep_quarter _ 1 (by norm_num) (by rw [ex_clamp]; norm_num))
  · exact F64.sub_exact _ _ (isRep_quarter _ (-3) (by norm_num) (by rw [exCn_total, ex_clamp]; norm_num))

end QuantileEx

end DDS
