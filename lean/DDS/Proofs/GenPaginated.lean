/-
  DDS.Proofs.GenPaginated — the regenerated buffered-paginated store equals the hand-written model: the proof files
  put together, with the interface hypotheses (`PageSpec`, `CompactSpec`, `AddSpec`, `AddWithCountSpec`, DDS/Proofs/
  GenPagDefs.lean) instantiated by their proofs.
-/
import DDS.Proofs.GenPagBase
import DDS.Proofs.GenPagRead
import DDS.Proofs.GenPagIter
import DDS.Proofs.GenPagAdd
import DDS.Proofs.GenPagCodec

namespace DDS.GenPag
end DDS.GenPag
